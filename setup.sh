#!/bin/sh
# MANIFEST.setup_cmd — offline build of the framework from files on disk only.
set -e
cd "$(dirname "$0")"
export GOFLAGS=-mod=mod GOPROXY=off GOSUMDB=off GOTOOLCHAIN=local DBUS_SESSION_BUS_ADDRESS=${DBUS_SESSION_BUS_ADDRESS:-unix:path=/nonexistent/verif-no-dbus}
mkdir -p build evidence replays
# translator (regenerates lean/TeleportModel/Generated from /repo)
if [ -d tools/gofacts ]; then
  (cd tools/gofacts && go build -o ../../build/gofacts . && ../../build/gofacts -repo /repo -out ../../lean/TeleportModel/Generated -json ../../build/facts.json) || echo "gofacts failed (checks will report it)"
fi
# Lean: models, proofs, driver
python3 tools/genmain.py
(cd lean && lake build) || echo "lake build of the whole library failed (the affected checks will report it)"
# one driver executable per property (independent targets: one failing does not stop the others)
for d in $(ls lean/TeleportModel/Driver | sed -n 's/^\(C[0-9]*\)\.lean$/\1/p'); do (cd lean && lake build tpmodel_$d >/dev/null 2>&1) || echo "tpmodel_$d failed to build"; done
# Go harness against /repo's working tree (warms the build cache)
cp /repo/go.sum harness/go.sum
(cd harness && for t in $(ls ../props | sed -n "s/^\(C[0-9]*\)\.json$/\1/p"); do lt=$(echo $t | tr A-Z a-z); go test -c -tags "verif $lt" -o ../build/harness.$t.test . ; done) || echo "harness build failed (checks will report it)"
echo setup done
