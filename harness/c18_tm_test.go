//go:build c18

package verifharness

// C18 — a synthetic Tendermint chain whose validator set changes with EVERY block (NextValidatorsHash ≠ ValidatorsHash),
// so that a Tendermint client installed at one of its headers is carried by its updates across validator-set changes:
// each update must be verified against the NextValidatorsHash recorded by the previous consensus state, not against the
// set that signed the installed header.  (The live xibctesting counterparty keeps one validator for ever; it stays the
// source of the real ICS-23 proofs, this chain is the source of the boundary-crossing update sequences.)
//
//   chain id c18rot-3 (revision 3), heights 100 … 108, 5 s apart
//   W(h) = validator set signing header h; header h carries NextValidatorsHash = hash(W(h+1))

import (
	"bytes"
	"time"

	"github.com/tendermint/tendermint/crypto/tmhash"
	tmproto "github.com/tendermint/tendermint/proto/tendermint/types"
	tmprotoversion "github.com/tendermint/tendermint/proto/tendermint/version"
	tmtypes "github.com/tendermint/tendermint/types"
	"github.com/tendermint/tendermint/version"

	xibctmtypes "github.com/teleport-network/teleport/x/xibc/clients/light-clients/tendermint/types"
	clienttypes "github.com/teleport-network/teleport/x/xibc/core/client/types"
	xibctesting "github.com/teleport-network/teleport/x/xibc/testing"
	"github.com/teleport-network/teleport/x/xibc/testing/mock"
)

const (
	c18TmrChainID = "c18rot-3"
	c18TmrFirst   = 100
	c18TmrLast    = 108
)

type c18TmrChain struct {
	chainID string
	first   int64
	t0   time.Time
	pvs  []mock.PV
	vals []*tmtypes.Validator
	sets map[int64]*tmtypes.ValidatorSet
	hdr  map[int64]*xibctmtypes.Header // trusted fields empty
}

func (c *c18TmrChain) set(idx ...int) *tmtypes.ValidatorSet {
	var vs []*tmtypes.Validator
	for _, i := range idx {
		v := *c.vals[i]
		vs = append(vs, &v)
	}
	return tmtypes.NewValidatorSet(vs)
}

func newC18TmrChain(t0 time.Time) *c18TmrChain {
	return newC18TmrChainAt(c18TmrChainID, c18TmrFirst, c18TmrLast-c18TmrFirst+1, t0, nil)
}

// `count` headers of chain `chainID` from height `first`, 5 s apart from t0; the validator set changes with every
// block; appHash (when given) is the application hash every header carries — a real root of the live counterparty, so
// that genuine ICS-23 proofs of that chain verify against the consensus states of this synthetic one
// free-form fields of a valid Tendermint header: the app hash may have ANY length; data / evidence / last-results hash
// are empty or 32 bytes; the proposer address has 20 bytes
type c18TmShape struct{ data, evidence, lastResults, proposer int }

var c18TmShapeDefault = c18TmShape{32, 32, 32, 20}

func newC18TmrChainAt(chainID string, first int64, count int, t0 time.Time, appHash []byte) *c18TmrChain {
	return newC18TmrChainShape(chainID, first, count, t0, appHash, c18TmShapeDefault)
}

func c18Fill(n int, tag byte) []byte {
	b := make([]byte, n)
	for i := range b {
		b[i] = tag + byte(i)
	}
	return b
}

func newC18TmrChainShape(chainID string, first int64, count int, t0 time.Time, appHash []byte, sh c18TmShape) *c18TmrChain {
	c := &c18TmrChain{chainID: chainID, first: first, t0: t0, sets: map[int64]*tmtypes.ValidatorSet{}, hdr: map[int64]*xibctmtypes.Header{}}
	for i := 0; i < 6; i++ {
		pv := mock.NewPV()
		pk, err := pv.GetPubKey()
		if err != nil {
			panic(err)
		}
		c.pvs = append(c.pvs, pv)
		c.vals = append(c.vals, tmtypes.NewValidator(pk, 1))
	}
	members := [][]int{{0}, {1, 2}, {2, 3, 4}, {0, 3}, {1, 4, 5}, {5}, {0, 1, 2, 3}, {2, 4}, {3, 5, 0}, {1}}
	last := first + int64(count) - 1
	for h := first; h <= last+1; h++ {
		c.sets[h] = c.set(members[int(h-first)%len(members)]...)
	}
	for h := first; h <= last; h++ {
		vs := c.sets[h]
		var signers []tmtypes.PrivValidator
		for _, v := range vs.Validators {
			for i, w := range c.vals {
				if bytes.Equal(v.Address, w.Address) {
					signers = append(signers, c.pvs[i])
				}
			}
		}
		ts := t0.Add(time.Duration(h-first) * 5 * time.Second)
		ah := tmhash.Sum([]byte{'a', byte(h)})
		if appHash != nil {
			ah = appHash
		}
		if appHash != nil && len(appHash) == 0 {
			ah = nil
		}
		th := tmtypes.Header{
			Version:            tmprotoversion.Consensus{Block: version.BlockProtocol, App: 2},
			ChainID:            chainID,
			Height:             h,
			Time:               ts,
			LastBlockID:        xibctesting.MakeBlockID(make([]byte, tmhash.Size), 10_000, make([]byte, tmhash.Size)),
			LastCommitHash:     tmhash.Sum([]byte("last_commit")),
			DataHash:           c18Fill(sh.data, 'd'),
			ValidatorsHash:     vs.Hash(),
			NextValidatorsHash: c.sets[h+1].Hash(),
			ConsensusHash:      tmhash.Sum([]byte("consensus_hash")),
			AppHash:            ah,
			LastResultsHash:    c18Fill(sh.lastResults, 'r'),
			EvidenceHash:       c18Fill(sh.evidence, 'e'),
			ProposerAddress:    append(append([]byte{}, vs.Proposer.Address...), make([]byte, 40)...)[:sh.proposer], //nolint:staticcheck
		}
		blockID := xibctesting.MakeBlockID(th.Hash(), 3, tmhash.Sum([]byte("part_set")))
		voteSet := tmtypes.NewVoteSet(chainID, h, 1, tmproto.PrecommitType, vs)
		commit, err := tmtypes.MakeCommit(blockID, h, 1, voteSet, signers, ts)
		if err != nil {
			panic(err)
		}
		pvs, err := vs.ToProto()
		if err != nil {
			panic(err)
		}
		c.hdr[h] = &xibctmtypes.Header{SignedHeader: &tmproto.SignedHeader{Header: th.ToProto(), Commit: commit.ToProto()}, ValidatorSet: pvs}
	}
	return c
}

// update header for a client whose latest (trusted) height is `trusted`: header `h` with the trusted fields filled:
// the trusted validators are W(trusted+1), the set the trusted consensus state's NextValidatorsHash commits to
func (c *c18TmrChain) update(h int64, trusted clienttypes.Height) *xibctmtypes.Header {
	g, ok := c.hdr[h]
	if !ok {
		return nil
	}
	cp := *g
	cp.TrustedHeight = trusted
	if tv, ok := c.sets[int64(trusted.RevisionHeight)+1]; ok {
		p, err := tv.ToProto()
		if err != nil {
			panic(err)
		}
		cp.TrustedValidators = p
	}
	return &cp
}
