//go:build c06

package verifharness

// C06 (b), hardening: more call paths (DELEGATECALL / CALLCODE / STATICCALL helpers, a call from inside a constructor),
// a PacketSent look-alike log emitter as unprivileged actor, an agent.send spoof through `execute`, and the whole
// table re-run after a whole-app restart and after the v0.2 upgrade handler re-installed the system contracts.

import (
	"fmt"
	"math/big"
	"strings"

	sdk "github.com/cosmos/cosmos-sdk/types"
	upgradetypes "github.com/cosmos/cosmos-sdk/x/upgrade/types"
	"github.com/ethereum/go-ethereum/common"
	ethtypes "github.com/ethereum/go-ethereum/core/types"
	"github.com/ethereum/go-ethereum/crypto"
	"github.com/tharsis/ethermint/server/config"
	"github.com/tharsis/ethermint/tests"
	evmtypes "github.com/tharsis/ethermint/x/evm/types"

	agentcontract "github.com/teleport-network/teleport/syscontracts/xibc_agent"
	endpointcontract "github.com/teleport-network/teleport/syscontracts/xibc_endpoint"
	packetcontract "github.com/teleport-network/teleport/syscontracts/xibc_packet"
	tsstypes "github.com/teleport-network/teleport/x/xibc/clients/tss-client/types"
	clienttypes "github.com/teleport-network/teleport/x/xibc/core/client/types"
	"github.com/teleport-network/teleport/x/xibc/core/host"
	packettypes "github.com/teleport-network/teleport/x/xibc/core/packet/types"
)

// helper that forwards its payload with a 6-argument call opcode (DELEGATECALL 0xf4, STATICCALL 0xfa) or the
// 7-argument CALLCODE 0xf2 and RETURNs the 32-byte success flag (never reverts). calldata = target word ++ payload.
//
//	60 20 36 03 60 20 60 00 37   mem[0..) = calldata[32..]
//	60 00 60 00                  retSize retOffset
//	60 20 36 03  60 00           argsSize argsOffset
//	[60 00]                      value                (CALLCODE only)
//	60 00 35 5a <op>             target gas OP
//	3d 60 00 60 00 3e 60 <ok> 57 3d 60 00 fd 5b 3d 60 00 f3   copy return data; REVERT it on failure, RETURN it on success
func c06KindForwarder(op byte) []byte {
	code := []byte{0x60, 0x20, 0x36, 0x03, 0x60, 0x20, 0x60, 0x00, 0x37, 0x60, 0x00, 0x60, 0x00, 0x60, 0x20, 0x36, 0x03, 0x60, 0x00}
	if op == 0xf2 {
		code = append(code, 0x60, 0x00)
	}
	code = append(code, 0x60, 0x00, 0x35, 0x5a, op)
	// RETURNDATACOPY; success ? RETURN returndata : REVERT returndata   (as the CALL forwarder)
	code = append(code, 0x3d, 0x60, 0x00, 0x60, 0x00, 0x3e)
	ok := byte(len(code) + 3 + 4)
	code = append(code, 0x60, ok, 0x57, 0x3d, 0x60, 0x00, 0xfd, 0x5b, 0x3d, 0x60, 0x00, 0xf3)
	return code
}

// emits LOG1(topic = keccak("PacketSent(bytes)"), data = calldata): a log shaped like the packet contract's event,
// from an address that is NOT the packet contract.   36 60 00 60 00 37  7f <topic>  36 60 00 a1 00
func c06EmitterCode() []byte {
	code := []byte{0x36, 0x60, 0x00, 0x60, 0x00, 0x37, 0x7f}
	code = append(code, crypto.Keccak256([]byte("PacketSent(bytes)"))...)
	return append(code, 0x36, 0x60, 0x00, 0xa1, 0x00)
}

// init code whose CONSTRUCTOR calls `target` with `payload` and installs the 32-byte success flag as runtime code:
//
//	61 len 61 off 60 00 39                     CODECOPY payload to mem[0..len)
//	60 00 60 00 61 len 60 00 60 00 73 target 5a f1   CALL
//	60 00 52 60 20 60 00 f3                    MSTORE flag; RETURN 32 (= deployed code)
func c06CtorInit(target common.Address, payload []byte) []byte {
	l := len(payload)
	head := []byte{0x61, byte(l >> 8), byte(l), 0x61, 0, 0, 0x60, 0x00, 0x39,
		0x60, 0x00, 0x60, 0x00, 0x61, byte(l >> 8), byte(l), 0x60, 0x00, 0x60, 0x00, 0x73}
	head = append(head, target.Bytes()...)
	head = append(head, 0x5a, 0xf1, 0x60, 0x00, 0x52, 0x60, 0x20, 0x60, 0x00, 0xf3)
	off := len(head)
	head[4], head[5] = byte(off>>8), byte(off)
	return append(head, payload...)
}

// multicall: calldata = frame*, frame = target word(32) ++ len word(32) ++ data(len). CALLs every target in order with
// its data (failures ignored), so that ONE transaction produces several logs from several contracts.
//
//	00 60 00            PUSH1 0            ptr
//	02 5b               loop:
//	03 36 81 10         CALLDATASIZE DUP2 LT          ptr < cds
//	06 60 0a 57 00      PUSH1 body JUMPI STOP
//	0a 5b               body:
//	0b 80 35            DUP1 CALLDATALOAD             to
//	0d 81 60 20 01 35   DUP2 PUSH1 32 ADD CALLDATALOAD   len
//	12 80 83 60 40 01 60 00 37   DUP1 DUP4 PUSH1 64 ADD PUSH1 0 CALLDATACOPY   mem[0..len) = data
//	1a 60 00 60 00 82 60 00 60 00 86 5a f1   CALL(gas, to, 0, 0, len, 0, 0)
//	26 50 90 50 01 60 40 01   POP SWAP1 POP ADD PUSH1 64 ADD   ptr += 64 + len
//	2d 60 02 56         PUSH1 loop JUMP
var c06MulticallCode = []byte{0x60, 0x00, 0x5b, 0x36, 0x81, 0x10, 0x60, 0x0a, 0x57, 0x00, 0x5b, 0x80, 0x35, 0x81, 0x60, 0x20, 0x01, 0x35,
	0x80, 0x83, 0x60, 0x40, 0x01, 0x60, 0x00, 0x37, 0x60, 0x00, 0x60, 0x00, 0x82, 0x60, 0x00, 0x60, 0x00, 0x86, 0x5a, 0xf1,
	0x50, 0x90, 0x50, 0x01, 0x60, 0x40, 0x01, 0x60, 0x02, 0x56}

var c06MulticallAddr = common.HexToAddress("0x00000000000000000000000000000000c0600008")

func c06Frames(frames ...[2][]byte) []byte {
	var out []byte
	for _, f := range frames {
		out = append(out, common.LeftPadBytes(f[0], 32)...)
		out = append(out, common.LeftPadBytes(big.NewInt(int64(len(f[1]))).Bytes(), 32)...)
		out = append(out, f[1]...)
	}
	return out
}

var (
	c06DelegateAddr = common.HexToAddress("0x00000000000000000000000000000000c0600004")
	c06CallcodeAddr = common.HexToAddress("0x00000000000000000000000000000000c0600005")
	c06StaticAddr   = common.HexToAddress("0x00000000000000000000000000000000c0600006")
	c06EmitterAddr  = common.HexToAddress("0x00000000000000000000000000000000c0600007")
)

func (w *c06EvmWorld) installHelpers(ctx sdk.Context) {
	w.app.SetEVMCode(ctx, c06DelegateAddr, c06KindForwarder(0xf4))
	w.app.SetEVMCode(ctx, c06CallcodeAddr, c06KindForwarder(0xf2))
	w.app.SetEVMCode(ctx, c06StaticAddr, c06KindForwarder(0xfa))
	w.app.SetEVMCode(ctx, c06EmitterAddr, c06EmitterCode())
	w.app.SetEVMCode(ctx, c06MulticallAddr, c06MulticallCode)
}

// a contract-creation transaction; returns the result and the address of the created contract
func (w *c06EvmWorld) ethCreate(ctx sdk.Context, from c06Acct, initCode []byte) (c06CallRes, common.Address) {
	chainID := w.app.EvmKeeper.ChainID()
	nonce := w.app.EvmKeeper.GetNonce(ctx, from.addr2())
	tx := evmtypes.NewTx(chainID, nonce, nil, big.NewInt(0), config.DefaultGasCap, big.NewInt(0), big.NewInt(0), big.NewInt(0), initCode, &ethtypes.AccessList{})
	tx.From = from.addr2().Hex()
	if err := tx.Sign(ethtypes.LatestSignerForChainID(chainID), tests.NewSigner(from.key)); err != nil {
		w.t.Fatalf("sign: %v", err)
	}
	created := crypto.CreateAddress(from.addr2(), nonce)
	var out c06CallRes
	if p, m := safely(func() {
		rsp, err := w.app.EvmKeeper.EthereumTx(sdk.WrapSDKContext(ctx), tx)
		if err != nil {
			out = c06CallRes{false, "error: " + err.Error(), nil}
			return
		}
		if rsp.Failed() {
			out = c06CallRes{false, c06Reason(rsp.VmError, rsp.Ret), rsp.Ret}
			return
		}
		out = c06CallRes{true, "", rsp.Ret}
	}); p {
		out = c06CallRes{false, "panic: " + m, nil}
	}
	return out, created
}

// the additional paths of runPath
func (w *c06EvmWorld) runPath2(ctx sdk.Context, path []string, to common.Address, data []byte) (c06CallRes, bool) {
	switch path[0] {
	case "delegatecall", "callcode", "staticcall":
		a := c06AcctByEth(path[1])
		helper := common.BytesToAddress(unhx(path[2]))
		want := map[string]common.Address{"delegatecall": c06DelegateAddr, "callcode": c06CallcodeAddr, "staticcall": c06StaticAddr}[path[0]]
		if a == nil || helper != want {
			return c06CallRes{}, false
		}
		return w.ethTx(ctx, *a, helper, append(c06Word(to), data...)), true
	case "ctor":
		a := c06AcctByEth(path[1])
		if a == nil {
			return c06CallRes{}, false
		}
		r, created := w.ethCreate(ctx, *a, c06CtorInit(to, data))
		if created != common.BytesToAddress(unhx(path[2])) {
			return c06CallRes{}, false // the op names another address than the one the contract is created at
		}
		if !r.ok {
			return r, true
		}
		acct := w.app.EvmKeeper.GetAccountWithoutBalance(ctx, created)
		if acct == nil {
			return c06CallRes{false, "no contract created", nil}, true
		}
		code := w.app.EvmKeeper.GetCode(ctx, common.BytesToHash(acct.CodeHash))
		flag := len(code) == 32 && code[31] == 1
		return c06CallRes{flag, "call from the constructor failed", code}, true
	}
	return c06CallRes{}, false
}

func (w *c06EvmWorld) xibcDigest(ctx sdk.Context) string {
	var sb strings.Builder
	st := ctx.KVStore(w.app.GetKey(host.StoreKey))
	it := st.Iterator(nil, nil)
	defer it.Close()
	for ; it.Valid(); it.Next() {
		sb.WriteString(fmt.Sprintf("%x=%x;", it.Key(), it.Value()))
	}
	return sb.String()
}

// emit <via> <contract>: a PacketSent-shaped log from a contract that is not the packet contract, carrying a packet
// the keeper would accept (own chain as source, a destination with client, the next sequence). via = an EOA
// (transaction to the emitter) or "packet" (call data of a received packet calls the emitter under `execute`).
func (w *c06EvmWorld) applyEmit(r *Rec, f []string) string {
	if len(f) != 3 || common.BytesToAddress(unhx(f[2])) != c06EmitterAddr {
		return "bad-op"
	}
	ctx, _ := w.mw.T.GetContext().CacheContext()
	seq := w.app.XIBCKeeper.PacketKeeper.GetNextSequenceSend(ctx, w.self, "tss-a")
	cd, _ := (&packettypes.CallData{ContractAddress: "0x1111111111111111111111111111111111111111", CallData: []byte{1}}).ABIPack()
	pk := packettypes.NewPacket(w.self, "tss-a", seq, c06Sender, nil, cd, c06ZeroHex, 0)
	bz, _ := pk.ABIPack()
	data, err := packetcontract.PacketContract.ABI.Events["PacketSent"].Inputs.Pack(bz)
	if err != nil {
		return "bad-op"
	}
	x0, s0 := w.xibcDigest(ctx), w.storage(ctx)
	var res c06CallRes
	if f[1] == "packet" {
		res, _ = w.runPath(ctx, []string{"packet"}, c06EmitterAddr, data)
	} else {
		a := c06AcctByEth(f[1])
		if a == nil {
			return "bad-op"
		}
		res = w.ethTx(ctx, *a, c06EmitterAddr, data)
	}
	r.Count("emit")
	if res.ok {
		r.Count("emit.tx-ok")
	}
	x1 := w.xibcDigest(ctx)
	if f[1] == "packet" {
		// the receive itself legitimately writes its receipt and acknowledgement; what must not appear is a SEND
		has := w.app.XIBCKeeper.PacketKeeper.HasPacketCommitment(ctx, w.self, "tss-a", seq)
		next := w.app.XIBCKeeper.PacketKeeper.GetNextSequenceSend(ctx, w.self, "tss-a")
		if !has && next == seq {
			return "ignored"
		}
	} else if x0 == x1 && s0 == w.storage(ctx) {
		return "ignored"
	}
	w.find(r, "C06/packet-sent-log-of-another-contract-drove-the-keeper", "a PacketSent-shaped log emitted by an unprivileged contract made the keeper commit a packet / bump the send sequence",
		"commitment or sequence changed", "only the packet contract's own logs drive SendPacket")
	return "sent"
}

// emitmix <via> <order> <emitter>: ONE transaction whose receipt mixes genuine PacketSent logs of the packet contract
// (`g`: the multicall helper calls Endpoint.crossChainCall) with look-alike logs of the emitter (`f`), in the given
// order. Every forged packet is one the keeper would accept at that point: own chain as source, "tss-a" as
// destination, the sequence that is NEXT when the log is reached (so `gf` forges next+1, `fg` forges next, and
// `gs` — "same" — forges the sequence the genuine send just used). via = an EOA transaction to the multicall helper,
// or "packet": the call data of a received packet calls the helper under `execute`.
// Observation: sends = how far the keeper's next send sequence moved; the oracle additionally demands that the
// commitments are those of the genuine sends only.
func (w *c06EvmWorld) applyEmitMix(r *Rec, f []string) string {
	if len(f) != 4 || common.BytesToAddress(unhx(f[3])) != c06EmitterAddr || f[2] == "" {
		return "bad-op"
	}
	ctx, _ := w.mw.T.GetContext().CacheContext()
	pkk := w.app.XIBCKeeper.PacketKeeper
	before := pkk.GetNextSequenceSend(ctx, w.self, "tss-a")
	ccd, err := endpointcontract.EndpointContract.ABI.Pack("crossChainCall", packettypes.CrossChainData{DstChain: "tss-a", TokenAddress: common.Address{}, Receiver: "",
		Amount: big.NewInt(0), ContractAddress: "0x1111111111111111111111111111111111111111", CallData: []byte{1}, CallbackAddress: common.Address{}, FeeOption: 0},
		packettypes.Fee{TokenAddress: common.Address{}, Amount: big.NewInt(0)})
	if err != nil {
		return "bad-op"
	}
	forged := map[string]bool{}
	var frames [][2][]byte
	next, genuine := before, uint64(0)
	for _, ch := range f[2] {
		switch ch {
		case 'g':
			frames = append(frames, [2][]byte{endpointcontract.EndpointContractAddress.Bytes(), ccd})
			next++
			genuine++
		case 'f', 's':
			seq := next
			if ch == 's' && next > before {
				seq = next - 1 // the sequence the preceding genuine send used
			}
			cd, _ := (&packettypes.CallData{ContractAddress: "0x1111111111111111111111111111111111111111", CallData: []byte{2, byte(len(frames))}}).ABIPack()
			pk := packettypes.NewPacket(w.self, "tss-a", seq, c06Sender, nil, cd, c06ZeroHex, 0)
			bz, _ := pk.ABIPack()
			cm, _ := packettypes.CommitPacket(pk)
			forged[string(cm)] = true
			data, err := packetcontract.PacketContract.ABI.Events["PacketSent"].Inputs.Pack(bz)
			if err != nil {
				return "bad-op"
			}
			frames = append(frames, [2][]byte{c06EmitterAddr.Bytes(), data})
			if ch == 'f' {
				// a hook that believes the forged log bumps the sequence: the next forged packet is built for that world
				// only if no genuine send intervenes; the genuine send always uses the contract's own counter
			}
		default:
			return "bad-op"
		}
	}
	payload := c06Frames(frames...)
	var res c06CallRes
	if f[1] == "packet" {
		res, _ = w.runPath(ctx, []string{"packet"}, c06MulticallAddr, payload)
	} else {
		a := c06AcctByEth(f[1])
		if a == nil {
			return "bad-op"
		}
		res = w.ethTx(ctx, *a, c06MulticallAddr, payload)
	}
	via := "tx"
	if f[1] == "packet" {
		via = "packet"
	}
	r.Count("emit.mixed-receipt")
	r.Count("emit.mixed-receipt." + via)
	r.Count("emit.mixed-receipt.order-" + f[2])
	if res.ok {
		r.Count("emit.mixed-receipt.tx-ok")
	}
	after := pkk.GetNextSequenceSend(ctx, w.self, "tss-a")
	bad := ""
	if after != before+genuine {
		bad = fmt.Sprintf("next send sequence moved by %d with %d genuine sends", after-before, genuine)
	}
	for seq := before; seq < before+uint64(len(frames))+1; seq++ {
		cm := pkk.GetPacketCommitment(ctx, w.self, "tss-a", seq)
		switch {
		case seq < before+genuine && len(cm) == 0:
			bad += fmt.Sprintf("; no commitment for genuine send %d", seq)
		case seq >= before+genuine && len(cm) != 0:
			bad += fmt.Sprintf("; commitment at %d beyond the genuine sends", seq)
		case forged[string(cm)]:
			bad += fmt.Sprintf("; the commitment at %d is that of a forged packet", seq)
		}
	}
	// the packet contract's own counter must agree with the keeper's
	if d, err := packetcontract.PacketContract.ABI.Pack("getNextSequenceSend", "tss-a"); err == nil {
		cc, _ := ctx.CacheContext()
		if v := c06ModuleCall(w.app, cc, c06Accts[7].addr2(), packetcontract.PacketContractAddress, d); v.ok && len(v.ret) == 32 {
			if got := new(big.Int).SetBytes(v.ret).Uint64(); got != before+genuine {
				bad += fmt.Sprintf("; packet contract counter %d, expected %d", got, before+genuine)
			}
		}
	}
	if bad != "" {
		w.find(r, "C06/packet-sent-log-of-another-contract-drove-the-keeper", "in a receipt that also holds a genuine PacketSent log, a look-alike log of an unprivileged contract was treated as a send",
			strings.TrimPrefix(bad, "; "), "commitments / counters reflect the packet contract's own logs only")
	}
	return fmt.Sprintf("sends=%d", after-before)
}

// spoof agent-send: a user hands agent.send(...) to `execute`, so that the agent sees msg.sender = execute contract
// (execute has no caller guard). No state of the packet / endpoint / execute contracts and nothing in the xibc store
// may change.
func (w *c06EvmWorld) applySpoof(r *Rec, f []string) string {
	if len(f) != 2 || f[1] != "agent-send" {
		return "bad-op"
	}
	ctx, _ := w.mw.T.GetContext().CacheContext()
	d, err := agentcontract.AgentContract.ABI.Pack("send", c06EOA.addr2(), "0x1111111111111111111111111111111111111111", "tss-a", big.NewInt(0))
	if err != nil {
		return "bad-op"
	}
	x0, s0 := w.xibcDigest(ctx), w.storage(ctx)
	res, _ := w.runPath(ctx, []string{"execute", hx(c06EOA.addr)}, agentcontract.AgentContractAddress, d)
	r.Count("spoof")
	if res.ok {
		r.Count("spoof.inner-call-passed")
	}
	if x0 != w.xibcDigest(ctx) || s0 != w.storage(ctx) {
		w.find(r, "C06/agent-send-through-execute-changed-bridge-state", "a user's agent.send handed to execute changed packet / endpoint / xibc state",
			"state changed", "unchanged")
		return "changed"
	}
	return "unchanged"
}

// evmrestart: whole-app restart of the contract-level world; evmupgrade: the registered v0.2 upgrade handler
// (app/upgrades.go) re-installs the system contracts and resets the xibc state. The table is run again afterwards.
func (w *c06EvmWorld) applyEvmRestart(r *Rec) string {
	out := w.mw.applyRestart(r, []string{"restart", "app"})
	w.app = w.mw.T.App
	r.Count("evm.restart")
	return out
}

func (w *c06EvmWorld) applyEvmUpgrade(r *Rec) string {
	T := w.mw.T
	ctx := T.GetContext()
	if pan, msg := safely(func() {
		w.app.UpgradeKeeper.ApplyUpgrade(ctx, upgradetypes.Plan{Name: "v0.2", Height: ctx.BlockHeight()})
	}); pan {
		w.find(r, "C06/upgrade-handler-failed", "the registered v0.2 upgrade handler panicked", msg, "handler runs")
		return "err"
	}
	// what the test environment / governance re-establishes after the upgrade wiped it
	safely(func() { T.SetPacketChainName() })
	ck := w.app.XIBCKeeper.ClientKeeper
	if err := ck.CreateClient(ctx, "tss-a", &tsstypes.ClientState{TssAddress: c06Accts[0].lower}, &tsstypes.ConsensusState{}); err != nil {
		return "err"
	}
	ck.RegisterRelayers(ctx, c06Accts[0].lower, []string{"tss-a"}, []string{"0xfee"})
	w.mw.coord.CommitBlock(T)
	r.Count("evm.upgrade")
	var _ = clienttypes.Height{}
	var _ = endpointcontract.EndpointContractAddress
	return "ok"
}
