//go:build c11

package verifharness

// The programmable adversarial ERC-20 ("pg", hand-assembled): an honest ledger (storage[address] = balance,
// storage[2^160] = totalSupply) behind a reporting / transfer layer whose behaviour the harness sets through control
// slots (anybody may call ctl; it is a test token):
//
//   ctl(readMode, readNext, readWho, xferMode)                     selector 0xc0de0001
//     balanceOf(a), when readWho == 0 or readWho == a:   0 honest | 1 revert | 2 31 bytes of return data |
//                                                        3 honest value followed by 32 junk bytes | 4 empty return data
//     transfer(to, amt):  0 honest | 1 revert | 2 return true, move nothing | 3 move, return false | 4 move and take a
//                         fee of 1 (to the sink) | 5 move, empty return data | 6 move, true followed by junk |
//                         7 move nothing, return false.
//       every executed (non-reverting) transfer installs readNext as the new readMode, resets readNext and xferMode to
//       honest: "the first reading inside a conversion misbehaves, the transfer clears the lock, the second answers".
//   realBalanceOf(a)   selector 0xc0de0002   the honest ledger, whatever the modes (the harness' honest call path)
//   totalSupply, name, symbol, decimals, mint(to, amt) (anybody): honest. Anything else reverts. No events.
//
// balanceOf never LIES with a decodable wrong number: a reading either fails or is the ledger value, so "the escrow"
// is well defined independently of the reporting layer (the oracle measures it with realBalanceOf).

import (
	"math/big"

	sdk "github.com/cosmos/cosmos-sdk/types"
	"github.com/ethereum/go-ethereum/common"
)

func (a *c11Asm) jump(l string) *c11Asm { return a.pushLabel(l).op(0x56) }

// pushes the storage key of control slot i (2^161 + i)
func (a *c11Asm) ctlKey(i byte) *c11Asm { return a.op(0x60, 0x01, 0x60, 0xa1, 0x1b, 0x60, i, 0x01) }

func c11ProgrammableRuntime() []byte {
	a := &c11Asm{labels: map[string]int{}, fix: map[int]string{}}
	a.op(0x60, 0x00, 0x35, 0x60, 0xe0, 0x1c) // selector
	for _, e := range []struct {
		sel uint32
		l   string
	}{{0x70a08231, "bal"}, {0xa9059cbb, "xfer"}, {0x40c10f19, "mint"}, {0x18160ddd, "sup"}, {0x06fdde03, "name"}, {0x95d89b41, "sym"},
		{0x313ce567, "dec"}, {0xc0de0001, "ctl"}, {0xc0de0002, "real"}} {
		a.op(0x80).push4(e.sel).op(0x14).jumpi(e.l)
	}
	a.label("rev").op(0x60, 0x00, 0x80, 0xfd)
	a.label("real").op(0x60, 0x04, 0x35, 0x54).retTop()
	a.label("sup").supKey().op(0x54).retTop()
	a.label("dec").op(0x60, 18).retTop()
	a.label("name").retString("pgtok")
	a.label("sym").retString("PRG")
	// ctl(m1, m2, who, xf)
	a.label("ctl")
	for i := byte(0); i < 4; i++ {
		a.op(0x60, 0x04+0x20*i, 0x35).ctlKey(i).op(0x55)
	}
	a.op(0x60, 0x01).retTop()
	// balanceOf(a)
	a.label("bal").ctlKey(0).op(0x54)          // [mode]
	a.ctlKey(2).op(0x54)                       // [mode, who]
	a.op(0x80, 0x15).jumpi("bal_go")           // who == 0
	a.op(0x80, 0x60, 0x04, 0x35, 0x14).jumpi("bal_go") // who == arg
	a.op(0x50, 0x50, 0x60, 0x00, 0x60, 0x00)   // mode := honest
	a.label("bal_go").op(0x50)                 // [mode]
	a.op(0x80, 0x60, 0x01, 0x14).jumpi("rev")
	a.op(0x80, 0x60, 0x02, 0x14).jumpi("bal_short")
	a.op(0x80, 0x60, 0x03, 0x14).jumpi("bal_long")
	a.op(0x80, 0x60, 0x04, 0x14).jumpi("ret_empty")
	a.op(0x60, 0x04, 0x35, 0x54).retTop()
	a.label("bal_short").op(0x60, 0x04, 0x35, 0x54, 0x60, 0x00, 0x52, 0x60, 0x1f, 0x60, 0x00, 0xf3)
	a.label("bal_long").op(0x60, 0x04, 0x35, 0x54, 0x60, 0x00, 0x52, 0x60, 0x00, 0x19, 0x60, 0x20, 0x52, 0x60, 0x40, 0x60, 0x00, 0xf3)
	a.label("ret_empty").op(0x60, 0x00, 0x60, 0x00, 0xf3)
	// mint(to, amt)
	a.label("mint").op(0x60, 0x24, 0x35)
	a.supKey().op(0x54)
	a.op(0x81, 0x01)
	a.op(0x81, 0x81, 0x10).jumpi("rev")
	a.supKey().op(0x55)
	a.op(0x60, 0x04, 0x35, 0x80, 0x54)
	a.op(0x82, 0x01, 0x90, 0x55)
	a.op(0x50, 0x60, 0x01).retTop()
	// transfer(to, amt)
	a.label("xfer").ctlKey(3).op(0x54) // [m]
	a.op(0x80, 0x60, 0x01, 0x14).jumpi("rev")
	a.ctlKey(1).op(0x54).ctlKey(0).op(0x55) // readMode := readNext
	a.op(0x60, 0x00).ctlKey(1).op(0x55)
	a.op(0x60, 0x00).ctlKey(3).op(0x55)
	a.op(0x80, 0x60, 0x02, 0x14).jumpi("x_ret")
	a.op(0x80, 0x60, 0x07, 0x14).jumpi("x_ret")
	a.op(0x60, 0x24, 0x35)               // [m, amt]
	a.op(0x33, 0x54)                     // [m, amt, b]
	a.op(0x81, 0x81, 0x10).jumpi("rev")  // b < amt
	a.op(0x81, 0x90, 0x03)               // [m, amt, b-amt]
	a.op(0x82, 0x60, 0x04, 0x14, 0x15).jumpi("x_nofee")
	a.op(0x80, 0x15).jumpi("rev")        // nothing left for the fee
	a.op(0x60, 0x01, 0x90, 0x03)         // [m, amt, b-amt-1]
	a.op(0x33, 0x55)                     // store at caller; [m, amt]
	a.op(0x73).op(c11Thief.Bytes()...)   // [m, amt, sink]
	a.op(0x80, 0x54, 0x60, 0x01, 0x01, 0x90, 0x55) // sink += 1; [m, amt]
	a.jump("x_credit")
	a.label("x_nofee").op(0x33, 0x55)    // [m, amt]
	a.label("x_credit").op(0x60, 0x04, 0x35, 0x80, 0x54) // [m, amt, to, bt]
	a.op(0x82, 0x01, 0x90, 0x55)         // [m, amt]
	a.op(0x50)                           // [m]
	a.label("x_ret")
	a.op(0x80, 0x60, 0x03, 0x14).jumpi("x_false")
	a.op(0x80, 0x60, 0x07, 0x14).jumpi("x_false")
	a.op(0x80, 0x60, 0x05, 0x14).jumpi("ret_empty")
	a.op(0x80, 0x60, 0x06, 0x14).jumpi("x_long")
	a.op(0x60, 0x01).retTop()
	a.label("x_false").op(0x60, 0x00).retTop()
	a.label("x_long").op(0x60, 0x01, 0x60, 0x00, 0x52, 0x60, 0x00, 0x19, 0x60, 0x20, 0x52, 0x60, 0x40, 0x60, 0x00, 0xf3)
	return a.done()
}

func c11ProgrammableBin() []byte {
	rt := c11ProgrammableRuntime()
	const hdr = 14
	init := []byte{0x61, byte(len(rt) >> 8), byte(len(rt)), 0x80, 0x61, 0x00, hdr, 0x60, 0x00, 0x39, 0x60, 0x00, 0xf3, 0x00}
	return append(init, rt...)
}

func c11Word(b *big.Int) []byte { return common.LeftPadBytes(b.Bytes(), 32) }

// the honest call path: the ledger value, whatever the reporting layer is programmed to do
func (w *c11World) pgReal(ctx sdk.Context, c, a common.Address) *big.Int {
	var out *big.Int
	safely(func() {
		cctx, _ := ctx.CacheContext()
		data := append([]byte{0xc0, 0xde, 0x00, 0x02}, common.LeftPadBytes(a.Bytes(), 32)...)
		res, err := w.app.AggregateKeeper.CallEVMWithData(cctx, w.module, &c, data)
		if err == nil && len(res.Ret) == 32 {
			out = new(big.Int).SetBytes(res.Ret)
		}
	})
	return out
}

func (w *c11World) pgCtl(c common.Address, m1, m2 int64, who common.Address, xf int64) error {
	data := []byte{0xc0, 0xde, 0x00, 0x01}
	data = append(data, c11Word(big.NewInt(m1))...)
	data = append(data, c11Word(big.NewInt(m2))...)
	data = append(data, common.LeftPadBytes(who.Bytes(), 32)...)
	data = append(data, c11Word(big.NewInt(xf))...)
	_, err := w.app.AggregateKeeper.CallEVMWithData(w.ctx, c11Thief, &c, data)
	return err
}
