//go:build c03

package verifharness

// C03 — a hand-assembled "forwarder" (batching) contract: no solc exists in the sandbox.
//
// calldata = flag(1 byte) ++ frame*      frame = to(20) ++ value(32) ++ len(32) ++ data(len)
// For every frame: CALL(gas, to, value, data). flag = 1: revert the whole transaction if any CALL fails;
// flag = 0: ignore failing CALLs (their own state changes are reverted by the EVM) and go on.
// Empty calldata (a plain coin transfer, e.g. a refund of the native coin by the endpoint) is accepted.

import (
	"encoding/binary"
	"math/big"

	sdk "github.com/cosmos/cosmos-sdk/types"
	"github.com/ethereum/go-ethereum/common"
	ethtypes "github.com/ethereum/go-ethereum/core/types"
	"github.com/ethereum/go-ethereum/crypto"
	"github.com/tharsis/ethermint/crypto/ethsecp256k1"
	"github.com/tharsis/ethermint/server/config"
	"github.com/tharsis/ethermint/tests"
	evm "github.com/tharsis/ethermint/x/evm/types"
)

// a ten-line assembler: mnemonics, PUSH1 immediates, labels resolved to PUSH2 targets
type c03Asm struct {
	code   []byte
	labels map[string]int
	fixups map[int]string
}

var c03Opcodes = map[string]byte{"STOP": 0x00, "ADD": 0x01, "GT": 0x11, "MSTORE": 0x52, "EQ": 0x14, "SLOAD": 0x54, "SSTORE": 0x55, "ISZERO": 0x15, "AND": 0x16, "SHR": 0x1c, "CALLDATALOAD": 0x35,
	"CALLDATASIZE": 0x36, "CALLDATACOPY": 0x37, "CODECOPY": 0x39, "POP": 0x50, "JUMP": 0x56, "JUMPI": 0x57, "GAS": 0x5a, "JUMPDEST": 0x5b,
	"LOG1": 0xa1, "DUP1": 0x80, "DUP2": 0x81, "DUP3": 0x82, "DUP5": 0x84, "DUP6": 0x85, "DUP8": 0x87, "SWAP2": 0x91, "CALL": 0xf1, "RETURN": 0xf3, "REVERT": 0xfd}

func (a *c03Asm) op(names ...string) *c03Asm {
	for _, n := range names {
		b, ok := c03Opcodes[n]
		if !ok {
			panic("unknown opcode " + n)
		}
		a.code = append(a.code, b)
	}
	return a
}
func (a *c03Asm) push1(v byte) *c03Asm { a.code = append(a.code, 0x60, v); return a }
func (a *c03Asm) pushLabel(l string) *c03Asm {
	a.code = append(a.code, 0x61, 0, 0)
	a.fixups[len(a.code)-2] = l
	return a
}
func (a *c03Asm) label(l string) *c03Asm { a.labels[l] = len(a.code); return a.op("JUMPDEST") }
func (a *c03Asm) bytes() []byte {
	for at, l := range a.fixups {
		binary.BigEndian.PutUint16(a.code[at:], uint16(a.labels[l]))
	}
	return a.code
}

func c03ForwarderRuntime() []byte {
	a := &c03Asm{labels: map[string]int{}, fixups: map[int]string{}}
	a.push1(1) // ptr := 1
	a.label("loop")
	a.op("DUP1", "CALLDATASIZE", "GT").pushLabel("body").op("JUMPI", "STOP") // while ptr < calldatasize
	a.label("body")
	a.op("DUP1", "CALLDATALOAD").push1(0x60).op("SHR")                    // ptr to
	a.op("DUP2").push1(0x14).op("ADD", "CALLDATALOAD")                    // ptr to value
	a.op("DUP3").push1(0x34).op("ADD", "CALLDATALOAD")                    // ptr to value len
	a.op("DUP1", "DUP5").push1(0x54).op("ADD").push1(0).op("CALLDATACOPY") // mem[0..len) := data
	a.push1(0).push1(0).op("DUP3").push1(0).op("DUP6", "DUP8", "GAS", "CALL") // ptr to value len success
	a.op("ISZERO").push1(0).op("CALLDATALOAD").push1(0xf8).op("SHR", "AND").pushLabel("fail").op("JUMPI")
	a.op("SWAP2", "POP", "POP", "ADD").push1(0x54).op("ADD") // ptr := ptr + 84 + len
	a.pushLabel("loop").op("JUMP")
	a.label("fail")
	a.push1(0).push1(0).op("REVERT")
	return a.bytes()
}

// c03EmitterRuntime: a contract that is NOT the packet contract and emits a log shaped like the packet contract's
// PacketSent(bytes) event: topic0 = keccak("PacketSent(bytes)"), data = its calldata.
func c03EmitterRuntime() []byte {
	a := &c03Asm{labels: map[string]int{}, fixups: map[int]string{}}
	a.op("CALLDATASIZE").push1(0).push1(0).op("CALLDATACOPY") // mem[0..cds) := calldata
	a.code = append(a.code, 0x7f)                              // PUSH32 topic
	a.code = append(a.code, crypto.Keccak256([]byte("PacketSent(bytes)"))...)
	a.op("CALLDATASIZE").push1(0).op("LOG1", "STOP")
	return a.bytes()
}

// c03SwitchRuntime: a callback contract with a switch. A call with exactly one byte of calldata stores that byte in slot 0;
// any other call (the endpoint's `callback(...)` of an acknowledgement) reverts while slot 0 is non-zero and does nothing otherwise.
func c03SwitchRuntime() []byte {
	a := &c03Asm{labels: map[string]int{}, fixups: map[int]string{}}
	a.op("CALLDATASIZE").push1(1).op("EQ").pushLabel("set").op("JUMPI")
	a.push1(0).op("SLOAD").pushLabel("fail").op("JUMPI", "STOP")
	a.label("set")
	a.push1(0).op("CALLDATALOAD").push1(0xf8).op("SHR").push1(0).op("SSTORE", "STOP")
	a.label("fail")
	a.push1(0).push1(0).op("REVERT")
	return a.bytes()
}

func c03InitCode(rt []byte) []byte {
	init := []byte{0x60, byte(len(rt)), 0x60, 12, 0x60, 0, 0x39, 0x60, byte(len(rt)), 0x60, 0, 0xf3}
	return append(init, rt...)
}

func c03ForwarderInit() []byte {
	rt := c03ForwarderRuntime()
	// PUSH1 len PUSH1 off PUSH1 0 CODECOPY PUSH1 len PUSH1 0 RETURN
	init := []byte{0x60, byte(len(rt)), 0x60, 12, 0x60, 0, 0x39, 0x60, byte(len(rt)), 0x60, 0, 0xf3}
	return append(init, rt...)
}

type c03Frame struct {
	to    common.Address
	value *big.Int
	data  []byte
}

func c03ForwarderCalldata(strict bool, frames []c03Frame) []byte {
	out := []byte{0}
	if strict {
		out[0] = 1
	}
	for _, f := range frames {
		out = append(out, f.to.Bytes()...)
		out = append(out, common.LeftPadBytes(f.value.Bytes(), 32)...)
		out = append(out, common.LeftPadBytes(big.NewInt(int64(len(f.data))).Bytes(), 32)...)
		out = append(out, f.data...)
	}
	return out
}

// deployForwarder creates the contract with a fresh key at nonce 0 (the same address on every chain).
func (w *c03World) deployForwarder(i int, key *ethsecp256k1.PrivKey) common.Address {
	return w.deployRaw(i, key, c03ForwarderInit(), len(c03ForwarderRuntime()))
}

func (w *c03World) deployRaw(i int, key *ethsecp256k1.PrivKey, initCode []byte, rtLen int) common.Address {
	c := w.ch[i]
	from := common.BytesToAddress(key.PubKey().Address().Bytes())
	sctx := c.GetContext()
	chainID := c.App.EvmKeeper.ChainID()
	nonce := c.App.EvmKeeper.GetNonce(sctx, from)
	tx := evm.NewTx(chainID, nonce, nil, big.NewInt(0), config.DefaultGasCap, big.NewInt(0), big.NewInt(0), big.NewInt(0), initCode, &ethtypes.AccessList{})
	tx.From = from.Hex()
	if err := tx.Sign(ethtypes.LatestSignerForChainID(chainID), tests.NewSigner(key)); err != nil {
		w.t.Fatal(err)
	}
	rsp, err := c.App.EvmKeeper.EthereumTx(sdk.WrapSDKContext(sctx), tx)
	if err != nil || rsp.VmError != "" {
		w.t.Fatalf("forwarder deployment failed: %v %v", err, rsp)
	}
	addr := crypto.CreateAddress(from, nonce)
	if code := c.App.EvmKeeper.GetCode(sctx, common.BytesToHash(c.App.EvmKeeper.GetAccountWithoutBalance(sctx, addr).CodeHash)); len(code) != rtLen {
		w.t.Fatalf("forwarder code not installed (%d bytes)", len(code))
	}
	return addr
}
