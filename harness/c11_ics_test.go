//go:build c11

package verifharness

// C11 — the hook-driven conversion: an ICS-20 packet received through the app's transfer route
// (x/aggregate IBCMiddleware over the real ibc-go transfer application) exactly as ibc-go core's RecvPacket runs the
// callback: on a cache context that is written iff the acknowledgement is nil or a success; a panic writes nothing.
//
// Oracle (on the real state, independent of the model). With T = "what the transfer application alone does"
// (receiver +amt vouchers, voucher supply +amt), after the packet exactly one of these holds:
//   errack/panic : the state is the state before the packet
//   kept         : the state is T                                  (no conversion, or a failed one rolled back)
//   clean        : T, and the pair of a contract without code is gone
//   ok           : T followed by an exact conversion for the receiver: the receiver's vouchers are gone again, its
//                  token balance is +amt, and   module-owned pair: escrow +amt vouchers, token supply +amt
//                                               external pair:     vouchers burned (supply as before), module tokens −amt
// anything else (e.g. vouchers escrowed but no tokens paid) is the finding C11:hook:partial-conversion.

import (
	"fmt"
	"math/big"
	"strings"

	sdk "github.com/cosmos/cosmos-sdk/types"
	transfertypes "github.com/cosmos/ibc-go/v3/modules/apps/transfer/types"
	clienttypes "github.com/cosmos/ibc-go/v3/modules/core/02-client/types"
	channeltypes "github.com/cosmos/ibc-go/v3/modules/core/04-channel/types"
	"github.com/cosmos/ibc-go/v3/modules/core/exported"
	"github.com/ethereum/go-ethereum/common"

	aggtypes "github.com/teleport-network/teleport/x/aggregate/types"
)

func c11Voucher(base string) string {
	return transfertypes.ParseDenomTrace("transfer/channel-0/" + base).IBCDenom()
}

// s1 == s0 + deltas on every observed balance / supply? (first difference returned)
func c11Matches(s0, s1 *c11Snap, dCoin, dSupply, dTok, dTsup map[string]*big.Int) (bool, string) {
	chk := func(name string, m0, m1, d map[string]*big.Int) string {
		for k, v0 := range m0 {
			v1 := m1[k]
			if v0 == nil || v1 == nil {
				if (v0 == nil) != (v1 == nil) {
					return name + " " + k + ": " + c11Num(v0) + " -> " + c11Num(v1)
				}
				continue
			}
			exp := new(big.Int).Set(v0)
			if dv, ok := d[k]; ok {
				exp.Add(exp, dv)
			}
			if exp.Cmp(v1) != 0 {
				return fmt.Sprintf("%s %s: %s -> %s, expected %s", name, k, v0, v1, exp)
			}
		}
		return ""
	}
	for _, x := range []string{chk("coin", s0.coin, s1.coin, dCoin), chk("supply", s0.supply, s1.supply, dSupply),
		chk("token", s0.tok, s1.tok, dTok), chk("totalSupply", s0.tsup, s1.tsup, dTsup)} {
		if x != "" {
			return false, x
		}
	}
	return true, ""
}

func c11SamePairs(s0, s1 *c11Snap, except string) bool {
	for k, p0 := range s0.pairs {
		if k == except {
			continue
		}
		p1 := s1.pairs[k]
		if p0.found != p1.found || p0.enabled != p1.enabled || strings.Join(p0.denoms, ",") != strings.Join(p1.denoms, ",") {
			return false
		}
	}
	return true
}

func (w *c11World) ics(r *Rec, f []string) string {
	base, voucher := string(unhx(f[2])), string(unhx(f[3]))
	amt := c11Big(f[4])
	if c11Voucher(base) != voucher {
		r.t.Fatalf("ics: voucher of %q is %s, op says %s", base, c11Voucher(base), voucher)
	}
	if w.mw == nil {
		route, ok := w.app.IBCKeeper.Router.GetRoute(transfertypes.ModuleName)
		if !ok {
			r.t.Fatal("no transfer route")
		}
		w.mw = route
	}
	w.seeDenom(voucher)
	recvStr := "teleport1notbech32"
	var recv common.Address
	if f[1] != "!" {
		recv = c11Addr(f[1])
		recvStr = sdk.AccAddress(recv.Bytes()).String()
	}
	w.extra = ""
	s0 := w.snap(w.ctx)
	p := w.resolve(w.ctx, voucher)
	registered := w.app.AggregateKeeper.IsDenomRegistered(w.ctx, voucher)
	data := transfertypes.NewFungibleTokenPacketData(base, amt.String(), "cosmos1counterpartysender", recvStr)
	w.seq++
	packet := channeltypes.NewPacket(data.GetBytes(), w.seq, "transfer", "channel-0", "transfer", "channel-0", clienttypes.NewHeight(0, 1000000), 0)
	cctx, write := w.ctx.CacheContext()
	var ack exported.Acknowledgement
	pan, _ := safely(func() { ack = w.mw.OnRecvPacket(cctx, packet, sdk.AccAddress(c11Thief.Bytes())) })
	out := ""
	switch {
	case pan:
		out = "panic"
	case ack != nil && !ack.Success():
		out = "errack"
	default:
		write() // ibc-go core: `if ack == nil || ack.Success() { writeFn() }`
	}
	s1 := w.snap(w.ctx)
	w.cur = s1
	hist := func() []string { return append([]string{}, w.hist...) }
	if out != "" {
		if s0.text != s1.text {
			r.Find(Finding{Sig: "C11:hook:rejected-but-changed", What: "a packet with an error acknowledgement / a panic changed the state", Ops: hist(), Obs: s1.text, Req: s0.text})
		}
		r.Count("ics." + out)
		return out
	}
	rH, mH := c11Hex(recv), c11Hex(w.module)
	ch := c11Hex(p.addr)
	T := map[string]*big.Int{rH + "|" + voucher: amt}
	TS := map[string]*big.Int{voucher: amt}
	none := map[string]*big.Int{}
	own, kind := "none", "-"
	if p.found {
		kind = w.kinds[p.addr]
		own = "mod"
		if p.owner == aggtypes.OWNER_EXTERNAL {
			own = "ext"
		}
	}
	okA, diffA := c11Matches(s0, s1, T, TS, none, none)
	switch {
	case okA && c11SamePairs(s0, s1, ""):
		out = "kept"
	case okA && p.found && !s0.code[ch] && !s1.pairs[ch].found && c11SamePairs(s0, s1, ch):
		out = "clean"
	default:
		okB, diffB := false, "no registered pair"
		if p.found && c11SamePairs(s0, s1, "") {
			neg := new(big.Int).Neg(amt)
			if p.owner == aggtypes.OWNER_MODULE {
				okB, diffB = c11Matches(s0, s1, map[string]*big.Int{mH + "|" + voucher: amt}, TS,
					map[string]*big.Int{ch + "|" + rH: amt}, map[string]*big.Int{ch: amt})
			} else {
				okB, diffB = c11Matches(s0, s1, none, none, map[string]*big.Int{ch + "|" + rH: amt, ch + "|" + mH: neg}, none)
			}
		}
		if okB {
			out = "ok"
			if w.govOff[p.addr] {
				r.Find(Finding{Sig: "C11:conversion-accepted-on-disabled-pair:after-" + w.lastOffOp(p.addr), What: "the ICS-20 hook converted for a pair whose last committed relay toggle was OFF (the oracle's own record)", Ops: hist(), Obs: "converted", Req: "vouchers kept"})
			}
			if w.govModuleOff {
				r.Find(Finding{Sig: "C11:converted-while-module-disabled:ics", What: "the ICS-20 hook converted although the last committed EnableAggregate change was OFF", Ops: hist(), Obs: "converted", Req: "vouchers kept"})
			}
			if !s0.enabled || !p.enabled {
				r.Find(Finding{Sig: "C11:hook:gate", What: "the hook converted while the module or the pair is disabled", Ops: hist(), Obs: "converted", Req: "vouchers kept"})
			}
		} else {
			out = "partial"
			r.Find(Finding{Sig: "C11:hook:partial-conversion:" + own + ":" + kind,
				What: "after the ICS-20 hook the state is neither what the transfer application alone leaves nor an exact conversion",
				Ops:  hist(), Obs: "vs transfer-only: " + diffA + " | vs exact conversion: " + diffB,
				Req:  "receiver got exactly the ERC-20 amount, or the balances are exactly as the transfer application left them"})
		}
	}
	r.Count("ics." + out)
	if p.found && w.govOff[p.addr] && (out == "ok" || out == "kept") {
		for _, o := range w.distinctOffOps(p.addr) {
			r.Count("disabled-op." + o + ".ics." + map[bool]string{true: "ACCEPTED", false: "refused"}[out == "ok"])
		}
	}
	if w.offByKey && p.found && !w.govOff[p.addr] && out == "kept" {
		r.Count("convert.refused.module-disabled-by-key")
		r.Count("convert.refused.module-disabled-by-key.ics")
	}
	if p.found && w.govOff[p.addr] && out == "kept" && w.offRestarts[p.addr] > 0 {
		r.Count("convert.after-restart.refused-disabled")
		r.Count("convert.after-restart.refused-disabled.ics")
	}
	switch out {
	case "kept":
		switch {
		case !registered:
			r.Count("ics.kept.unregistered")
		case p.found && s0.enabled && p.enabled && s0.code[ch]:
			// the gate passes and the receiver holds the vouchers: the conversion failed after the coin-escrow step
			r.Count("ics.kept.after-escrow")
			r.Count("ics.kept.after-escrow." + own + "." + kind)
		default:
			r.Count("ics.kept.gate")
		}
	case "ok":
		r.Count("ics.ok." + own + "." + kind)
	}
	w.oracleBacking(r, s1)
	return out
}
