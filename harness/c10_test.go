//go:build c10

package verifharness

// C10 — Ethereum light client: rule-abiding headers only; forks never wedge it.
// Drives the real ClientKeeper.UpdateClient → eth ClientState.CheckHeaderAndUpdateState on a client store of a
// full app.  Every update runs in a cache context that is written only on success (a failed message is reverted).
//
// op language (hashes / bytes in hex, numbers decimal):
//   header := parentHash uncleHash coinbase root txHash receiptHash bloom difficulty number gasLimit gasUsed
//             time extra mixDigest nonce baseFee hash pow
//   reset <orig|fixed> <chainId> <trusting> <header>  -> ok <dump>            (CreateClient)
//   upd <now> <header>                                -> ok <dump> | err | panic
//   probe <now> <header>                              -> ok | err | panic     (cache context, discarded)
//   dump := H:<head hash> C:<height=root:time,…> X:<height:hash,…> R:<height:root>height:hash,…>
// `hash` is the keccak/RLP header hash computed with go-ethereum, `pow` the ethash verdict known by construction
// (recorded main-net header unmodified = 1, nonce / mix-digest mutated = 0; irrelevant on chain id 4).
// `orig|fixed` tells the Lean driver which text of RestrictChain the tree under test has (probed at start).

import (
	"bytes"
	"encoding/hex"
	"encoding/json"
	"fmt"
	"math/big"
	"os"
	"sort"
	"strconv"
	"strings"
	"testing"
	"time"

	"github.com/cosmos/cosmos-sdk/simapp"
	sdk "github.com/cosmos/cosmos-sdk/types"
	"github.com/ethereum/go-ethereum/common"
	"github.com/ethereum/go-ethereum/consensus/ethash"
	ethtypes "github.com/ethereum/go-ethereum/core/types"
	"github.com/ethereum/go-ethereum/params"
	abci "github.com/tendermint/tendermint/abci/types"
	"github.com/tendermint/tendermint/libs/log"
	tmproto "github.com/tendermint/tendermint/proto/tendermint/types"
	dbm "github.com/tendermint/tm-db"
	"github.com/tharsis/ethermint/encoding"

	govtypes "github.com/cosmos/cosmos-sdk/x/gov/types"
	"github.com/teleport-network/teleport/app"
	xibcethtypes "github.com/teleport-network/teleport/x/xibc/clients/light-clients/eth/types"
	tsstypes "github.com/teleport-network/teleport/x/xibc/clients/tss-client/types"
	xibcclient "github.com/teleport-network/teleport/x/xibc/core/client"
	clienttypes "github.com/teleport-network/teleport/x/xibc/core/client/types"
	"github.com/teleport-network/teleport/x/xibc/core/host"
	"github.com/teleport-network/teleport/x/xibc/exported"
)

// chain names of the two ETH clients of one world (`use a|b`)
var c10Names = map[string]string{"a": "eth", "b": "eth-two"}

// c10Base is the EIP-1559 base fee of a child of p, computed with fresh big integers only: go-ethereum's
// misc.CalcBaseFee reads the shared constant common.Big1, which a defect in the code under test may have overwritten
func c10Base(p *c10Hdr) *big.Int {
	target := p.GasLimit / 2
	base := new(big.Int).Set(p.BaseFee)
	if p.GasUsed == target {
		return base
	}
	if target == 0 {
		return nil
	}
	t := new(big.Int).SetUint64(target)
	if p.GasUsed > target {
		d := new(big.Int).SetUint64(p.GasUsed - target)
		d.Mul(d, base).Div(d, t).Div(d, big.NewInt(8))
		if d.Sign() == 0 {
			d.SetInt64(1)
		}
		return base.Add(base, d)
	}
	d := new(big.Int).SetUint64(target - p.GasUsed)
	d.Mul(d, base).Div(d, t).Div(d, big.NewInt(8))
	base.Sub(base, d)
	if base.Sign() < 0 {
		base.SetInt64(0)
	}
	return base
}

type c10Hdr struct {
	ParentHash, UncleHash, Coinbase, Root, TxHash, ReceiptHash, Bloom []byte
	Difficulty                                                        *big.Int
	Number, GasLimit, GasUsed, Time                                   uint64
	Rev                                                               uint64 // Height.RevisionNumber (op line: number field "rev-number" when non-zero)
	BaseFeeWire                                                       []byte // when non-nil: the bytes sent in the proto message (op line "x<hex>"); BaseFee = their value
	Extra, MixDigest                                                  []byte
	Nonce                                                             uint64
	BaseFee                                                           *big.Int
	Hash                                                              common.Hash
	Pow                                                               bool
}

func (h *c10Hdr) eth() *ethtypes.Header {
	return &ethtypes.Header{
		ParentHash: common.BytesToHash(h.ParentHash), UncleHash: common.BytesToHash(h.UncleHash), Coinbase: common.BytesToAddress(h.Coinbase),
		Root: common.BytesToHash(h.Root), TxHash: common.BytesToHash(h.TxHash), ReceiptHash: common.BytesToHash(h.ReceiptHash),
		Bloom: ethtypes.BytesToBloom(h.Bloom), Difficulty: new(big.Int).Set(h.Difficulty), Number: new(big.Int).SetUint64(h.Number),
		GasLimit: h.GasLimit, GasUsed: h.GasUsed, Time: h.Time, Extra: h.Extra, MixDigest: common.BytesToHash(h.MixDigest),
		Nonce: ethtypes.EncodeNonce(h.Nonce), BaseFee: new(big.Int).Set(h.BaseFee),
	}
}

func (h *c10Hdr) proto() xibcethtypes.Header {
	return xibcethtypes.Header{
		ParentHash: h.ParentHash, UncleHash: h.UncleHash, Coinbase: h.Coinbase, Root: h.Root, TxHash: h.TxHash, ReceiptHash: h.ReceiptHash,
		Bloom: h.Bloom, Difficulty: h.Difficulty.Bytes(), Height: clienttypes.NewHeight(h.Rev, h.Number), GasLimit: h.GasLimit, GasUsed: h.GasUsed,
		Time: h.Time, Extra: h.Extra, MixDigest: h.MixDigest, Nonce: h.Nonce, BaseFee: h.baseFeeBytes(),
	}
}

func (h *c10Hdr) baseFeeBytes() []byte {
	if h.BaseFeeWire != nil {
		return h.BaseFeeWire
	}
	return h.BaseFee.Bytes() // 0 is the EMPTY byte string
}

func (h *c10Hdr) baseFeeField() string {
	if h.BaseFeeWire != nil {
		return "x" + hex.EncodeToString(h.BaseFeeWire)
	}
	return h.BaseFee.String()
}

func (h *c10Hdr) seal() { h.Hash = h.eth().Hash() }

func (h *c10Hdr) String() string {
	pow := "0"
	if h.Pow {
		pow = "1"
	}
	return strings.Join([]string{hx(h.ParentHash), hx(h.UncleHash), hx(h.Coinbase), hx(h.Root), hx(h.TxHash), hx(h.ReceiptHash), hx(h.Bloom),
		h.Difficulty.String(), h.numField(), fmt.Sprint(h.GasLimit), fmt.Sprint(h.GasUsed), fmt.Sprint(h.Time), hx(h.Extra),
		hx(h.MixDigest), fmt.Sprint(h.Nonce), h.baseFeeField(), hx(h.Hash[:]), pow}, " ")
}

func (h *c10Hdr) numField() string {
	if h.Rev != 0 {
		return fmt.Sprintf("%d-%d", h.Rev, h.Number)
	}
	return fmt.Sprint(h.Number)
}

func c10Parse(f []string) (*c10Hdr, bool) {
	if len(f) != 18 {
		return nil, false
	}
	u := func(s string) uint64 { n, _ := strconv.ParseUint(s, 10, 64); return n }
	b := func(s string) *big.Int { n, _ := new(big.Int).SetString(s, 10); return n }
	h := &c10Hdr{ParentHash: unhx(f[0]), UncleHash: unhx(f[1]), Coinbase: unhx(f[2]), Root: unhx(f[3]), TxHash: unhx(f[4]), ReceiptHash: unhx(f[5]),
		Bloom: unhx(f[6]), Difficulty: b(f[7]), Number: u(f[8]), GasLimit: u(f[9]), GasUsed: u(f[10]), Time: u(f[11]), Extra: unhx(f[12]),
		MixDigest: unhx(f[13]), Nonce: u(f[14]), BaseFee: b(f[15]), Pow: f[17] == "1"}
	if strings.HasPrefix(f[15], "x") {
		wire, err := hex.DecodeString(f[15][1:])
		if err != nil {
			return nil, false
		}
		h.BaseFeeWire = append([]byte{}, wire...)
		h.BaseFee = new(big.Int).SetBytes(wire)
	}
	if rn := strings.SplitN(f[8], "-", 2); len(rn) == 2 {
		h.Rev, h.Number = u(rn[0]), u(rn[1])
	}
	if h.Difficulty == nil || h.BaseFee == nil {
		return nil, false
	}
	h.seal()
	if hx(h.Hash[:]) != f[16] {
		return nil, false
	}
	return h, true
}

// bookkeeping of one client
type c10Book struct {
	created      bool
	chainID      uint64
	trusting     uint64
	accepted     map[common.Hash]*c10Hdr // every header accepted so far in this history (incl. the initial one)
	lo0          uint64                  // height the client was created at
	head         common.Hash
	prunedOrigin bool              // a consensus state installed by a proposal has expired and been pruned
	tss          bool              // a TSS client sits under this name (waiting to be toggled)
	origin       map[uint64]string // height -> "create" | "upgrade" | "toggle" for the consensus states proposals installed
}

type c10World struct {
	consHeight *clienttypes.Height // `consheight`: the redundant ConsensusState.Height of the next proposal (nil = the header's)
	app        *app.Teleport
	base       sdk.Context
	ctx        sdk.Context
	hist       []string
	c10Book            // the client currently addressed
	name       string  // its chain name
	cur        string  // "a" | "b"
	other      c10Book // the other client
	otherDump  string  // its dump when it was left (frame oracle)
	write      func()  // flushes ctx into base (whole-app restart only)
}

func (w *c10World) otherName() string {
	if w.cur == "a" {
		return c10Names["b"]
	}
	return c10Names["a"]
}

func newC10World() *c10World {
	a := app.Setup(false, nil)
	ctx := a.BaseApp.NewContext(false, tmproto.Header{Height: 1, ChainID: "teleport_9000-1", Time: time.Unix(1700000000, 0)})
	w := &c10World{app: a, base: ctx, cur: "a", name: c10Names["a"]}
	w.ctx, _ = ctx.CacheContext()
	return w
}

func (w *c10World) store(ctx sdk.Context, name string) sdk.KVStore {
	return w.app.XIBCKeeper.ClientKeeper.ClientStore(ctx, name)
}

// observation of the real store
type c10Obs struct {
	head    common.Hash
	cons    map[uint64][2]string // height -> root hex, time
	consLo  uint64
	hasCons bool
	hdrs    map[string]bool   // "height:hash"
	rms     map[string]string // "height:root" -> "height:hash"
	dump    string
}

func (w *c10World) observe(ctx sdk.Context) c10Obs { return w.observeOf(ctx, w.name) }

func (w *c10World) observeOf(ctx sdk.Context, c10Chain string) c10Obs {
	o := c10Obs{cons: map[uint64][2]string{}, hdrs: map[string]bool{}, rms: map[string]string{}}
	k := w.app.XIBCKeeper.ClientKeeper
	if _, ok := k.GetClientState(ctx, c10Chain); !ok {
		o.dump = "-"
		return o
	}
	st := w.store(ctx, c10Chain)
	if cs, ok := k.GetClientState(ctx, c10Chain); ok {
		if e, ok := cs.(*xibcethtypes.ClientState); ok {
			o.head = e.Header.Hash()
		}
	}
	var cons []string
	xibcethtypes.IterateConsensusStateAscending(st, func(h exported.Height) bool {
		c, ok := k.GetClientConsensusState(ctx, c10Chain, h)
		if !ok {
			return false
		}
		e, ok := c.(*xibcethtypes.ConsensusState)
		if !ok {
			return false
		}
		root := hex.EncodeToString(common.BytesToHash(e.Root).Bytes())
		if !o.hasCons {
			o.hasCons, o.consLo = true, h.GetRevisionHeight()
		}
		o.cons[h.GetRevisionHeight()] = [2]string{root, fmt.Sprint(e.Timestamp)}
		cons = append(cons, fmt.Sprintf("%d=%s:%d", h.GetRevisionHeight(), root, e.Timestamp))
		return false
	})
	type kv struct {
		n uint64
		h string
		s string
	}
	parseKey := func(key []byte, prefix string) (uint64, string) {
		s := string(key[len(prefix)+1:])
		n, _ := strconv.ParseUint(s[66:], 10, 64)
		return n, s[2:66]
	}
	var xs, rs []kv
	xibcethtypes.IteratorEthMetaDataByPrefix(st, xibcethtypes.KeyIndexEthHeaderPrefix, func(key, _ []byte) bool {
		n, h := parseKey(key, xibcethtypes.KeyIndexEthHeaderPrefix)
		xs = append(xs, kv{n, h, fmt.Sprintf("%d:%s", n, h)})
		o.hdrs[fmt.Sprintf("%d:%s", n, h)] = true
		return false
	})
	xibcethtypes.IteratorEthMetaDataByPrefix(st, xibcethtypes.KeyMainRootPrefix, func(key, val []byte) bool {
		n, h := parseKey(key, xibcethtypes.KeyMainRootPrefix)
		vn, vh := parseKey(val, xibcethtypes.KeyIndexEthHeaderPrefix)
		rs = append(rs, kv{n, h, fmt.Sprintf("%d:%s>%d:%s", n, h, vn, vh)})
		o.rms[fmt.Sprintf("%d:%s", n, h)] = fmt.Sprintf("%d:%s", vn, vh)
		return false
	})
	less := func(a []kv) func(i, j int) bool {
		return func(i, j int) bool { return a[i].n < a[j].n || (a[i].n == a[j].n && a[i].h < a[j].h) }
	}
	sort.Slice(xs, less(xs))
	sort.Slice(rs, less(rs))
	join := func(a []kv) string {
		if len(a) == 0 {
			return "-"
		}
		p := make([]string, len(a))
		for i := range a {
			p[i] = a[i].s
		}
		return strings.Join(p, ",")
	}
	cd := "-"
	if len(cons) > 0 {
		cd = strings.Join(cons, ",")
	}
	o.dump = "H:" + hex.EncodeToString(o.head[:]) + " C:" + cd + " X:" + join(xs) + " R:" + join(rs)
	return o
}

// rules of the property, evaluated with go-ethereum's own functions: "" = child is rule-abiding w.r.t. parent
// every fork up to London active from block 0, no later bomb delay: go-ethereum then uses the EIP-3554 calculator
// (bomb delay 9,700,000) for every height, which is the one the client has
var c10AllForks = &params.ChainConfig{ChainID: big.NewInt(1), HomesteadBlock: big.NewInt(0), EIP150Block: big.NewInt(0), EIP155Block: big.NewInt(0),
	EIP158Block: big.NewInt(0), ByzantiumBlock: big.NewInt(0), ConstantinopleBlock: big.NewInt(0), PetersburgBlock: big.NewInt(0),
	IstanbulBlock: big.NewInt(0), MuirGlacierBlock: big.NewInt(0), BerlinBlock: big.NewInt(0), LondonBlock: big.NewInt(0)}

func (w *c10World) ruleBroken(p, h *c10Hdr, now uint64) string {
	if h.Number != p.Number+1 {
		return "number"
	}
	if h.Rev != p.Rev {
		return "revision" // "one height below": the parent's height is (p.Rev, p.Number), the child's must be (p.Rev, p.Number+1)
	}
	if !(p.Time < h.Time) {
		return "time-parent"
	}
	if !(h.Time <= now+15) {
		return "time-future"
	}
	if h.GasLimit > 0x7fffffffffffffff || h.GasUsed > h.GasLimit {
		return "gas-basic"
	}
	d := new(big.Int).Sub(new(big.Int).SetUint64(p.GasLimit), new(big.Int).SetUint64(h.GasLimit))
	d.Abs(d)
	if d.Cmp(new(big.Int).SetUint64(p.GasLimit/1024)) >= 0 || h.GasLimit < 5000 {
		return "gas-limit"
	}
	if p.GasLimit/2 == 0 && p.GasUsed != 0 {
		return "basefee-undefined"
	}
	if want := c10Base(p); want == nil || want.Cmp(h.BaseFee) != 0 {
		return "base-fee"
	}
	if new(big.Int).And(h.Difficulty, new(big.Int).SetUint64(^uint64(0))).Sign() == 0 {
		return "difficulty-zero"
	}
	if w.chainID != 4 {
		if ethash.CalcDifficulty(c10AllForks, h.Time, p.eth()).Cmp(h.Difficulty) != 0 {
			return "difficulty"
		}
		if len(h.Extra) > 32 {
			return "extra"
		}
		if !h.Pow {
			return "pow"
		}
	}
	return ""
}

// height of the highest common ancestor of a and the head (bookkeeping), -1 if unknown
func (w *c10World) forkHeight(a *c10Hdr) int64 {
	onMain := map[common.Hash]bool{}
	for x := w.accepted[w.head]; x != nil; x = w.accepted[common.BytesToHash(x.ParentHash)] {
		onMain[x.Hash] = true
	}
	for x := a; x != nil; x = w.accepted[common.BytesToHash(x.ParentHash)] {
		if onMain[x.Hash] {
			return int64(x.Number)
		}
	}
	return -1
}

func (w *c10World) histCopy() []string { return append([]string{}, w.hist...) }

// submit runs UpdateClient in a cache context; commit only on success and if asked
func (w *c10World) submit(h *c10Hdr, now uint64, commit bool) (string, string) {
	cctx, write := w.ctx.CacheContext()
	cctx = cctx.WithBlockTime(time.Unix(int64(now), 0))
	p := h.proto()
	var err error
	pan, msg := safely(func() {
		// as a transaction would: MsgUpdateClient (header packed into an Any) → ValidateBasic → msg server → client keeper
		var m *clienttypes.MsgUpdateClient
		if m, err = clienttypes.NewMsgUpdateClient(w.name, &p, sdk.AccAddress(make([]byte, 20))); err != nil {
			return
		}
		if err = m.ValidateBasic(); err != nil {
			err = fmt.Errorf("MsgUpdateClient.ValidateBasic: %w", err)
			return
		}
		hdr, e := clienttypes.UnpackHeader(m.Header)
		if e != nil {
			err = e
			return
		}
		err = w.app.XIBCKeeper.ClientKeeper.UpdateClient(cctx, w.name, hdr)
	})
	if pan {
		return "panic", msg
	}
	if err != nil {
		return "err", err.Error()
	}
	if commit {
		write()
	}
	return "ok", ""
}

// frame oracle: an operation on one client leaves the other client's store untouched
func (w *c10World) frame(r *Rec, what string) {
	if !w.other.created && w.otherDump == "-" {
		return
	}
	if d := w.observeOf(w.ctx, w.otherName()).dump; d != w.otherDump {
		r.Find(Finding{Sig: "C10:other-client-changed:" + what, What: "an operation on client " + w.name + " changed the store of client " + w.otherName(),
			Ops: w.histCopy(), Obs: d, Req: w.otherDump})
	}
	r.Count("frame.checked")
}

// go-ethereum's shared big-integer constants must keep their values whatever the client computed
func c10Constants(r *Rec, w *c10World) {
	for name, v := range map[string][2]*big.Int{"Big0": {common.Big0, big.NewInt(0)}, "Big1": {common.Big1, big.NewInt(1)}, "Big2": {common.Big2, big.NewInt(2)},
		"Big3": {common.Big3, big.NewInt(3)}, "Big32": {common.Big32, big.NewInt(32)}, "Big256": {common.Big256, big.NewInt(256)}, "Big257": {common.Big257, big.NewInt(257)}} {
		if v[0].Cmp(v[1]) != 0 {
			r.Find(Finding{Sig: "C10:shared-constant-overwritten:" + name, What: "header verification overwrote go-ethereum's shared constant common." + name + " (now " + v[0].String() + "): later verdicts depend on the history of the process",
				Ops: w.histCopy(), Obs: v[0].String(), Req: v[1].String()})
			v[0].Set(v[1]) // keep the rest of the run meaningful
		}
	}
}

// raw content of every client store (keys and values), for the restart oracle
func (w *c10World) rawClients(ctx sdk.Context) string {
	st := ctx.KVStore(w.app.GetKey(host.StoreKey))
	it := sdk.KVStorePrefixIterator(st, []byte("clients/"))
	defer it.Close()
	var sb strings.Builder
	for ; it.Valid(); it.Next() {
		sb.WriteString(hex.EncodeToString(it.Key()) + "=" + hex.EncodeToString(it.Value()) + ";")
	}
	return sb.String()
}

// restart: ExportGenesis of the client module → JSON through the app codec → Validate → wipe every client store → InitGenesis
func (w *c10World) restart(r *Rec) string {
	k := w.app.XIBCKeeper.ClientKeeper
	before := w.rawClients(w.ctx)
	dA, dB := w.observeOf(w.ctx, c10Names["a"]).dump, w.observeOf(w.ctx, c10Names["b"]).dump
	var gs clienttypes.GenesisState
	cdc := w.app.AppCodec()
	pan, msg := safely(func() {
		g := xibcclient.ExportGenesis(w.ctx, k)
		bz := cdc.MustMarshalJSON(&g)
		cdc.MustUnmarshalJSON(bz, &gs)
		if err := gs.UnpackInterfaces(w.app.InterfaceRegistry()); err != nil {
			panic(err)
		}
	})
	if pan {
		r.Find(Finding{Sig: "C10:export-panics", What: "ExportGenesis / JSON round trip panics: " + msg, Ops: w.histCopy(), Obs: "panic", Req: "export"})
		return "panic"
	}
	if err := gs.Validate(); err != nil {
		r.Find(Finding{Sig: "C10:export-invalid", What: "exported client genesis fails its own Validate: " + err.Error(), Ops: w.histCopy(), Obs: err.Error(), Req: "valid"})
	}
	st := w.ctx.KVStore(w.app.GetKey(host.StoreKey))
	var keys [][]byte
	it := sdk.KVStorePrefixIterator(st, []byte("clients/"))
	for ; it.Valid(); it.Next() {
		keys = append(keys, append([]byte{}, it.Key()...))
	}
	it.Close()
	for _, key := range keys {
		st.Delete(key)
	}
	r.Extra["restart_keys_wiped"] = len(keys)
	pan, msg = safely(func() { xibcclient.InitGenesis(w.ctx, k, gs) })
	if pan {
		r.Find(Finding{Sig: "C10:init-panics", What: "InitGenesis panics on the export of a reachable state: " + msg, Ops: w.histCopy(), Obs: "panic", Req: "import"})
		return "panic"
	}
	after := w.rawClients(w.ctx)
	aA, aB := w.observeOf(w.ctx, c10Names["a"]).dump, w.observeOf(w.ctx, c10Names["b"]).dump
	if after != before || aA != dA || aB != dB {
		first := ""
		bm, am := strings.Split(before, ";"), strings.Split(after, ";")
		set := map[string]bool{}
		for _, x := range am {
			set[x] = true
		}
		for _, x := range bm {
			if !set[x] {
				kv := strings.SplitN(x, "=", 2)
				kb, _ := hex.DecodeString(kv[0])
				first = string(kb)
				break
			}
		}
		r.Find(Finding{Sig: "C10:restart-changed-state", What: fmt.Sprintf("client stores differ after export → import (%d entries before, %d after; first lost or changed key %q)", len(bm)-1, len(am)-1, first),
			Ops: w.histCopy(), Obs: aA + " | " + aB, Req: dA + " | " + dB})
	}
	r.Count("restart")
	if w.cur == "a" {
		w.otherDump = aB
	} else {
		w.otherDump = aA
	}
	if strings.Contains(dA+dB, "X:") && len(keys) > 6 {
		r.Count("restart.with-side-data")
	}
	return "ok " + aA + " | " + aB
}

// restartApp: whole-app restart — flush and commit the block, app.ExportAppStateAndValidators (every module's ExportGenesis,
// JSON through the app codec), a fresh app.NewTeleport on a new db, InitChain with the exported state; the history
// continues on the new app.  Only used on a throw-away world (the committed state would leak into later histories).
func (w *c10World) restartApp(r *Rec) string {
	before := w.rawClients(w.ctx)
	dA, dB := w.observeOf(w.ctx, c10Names["a"]).dump, w.observeOf(w.ctx, c10Names["b"]).dump
	blockTime := w.base.BlockTime()
	var failure string
	pan, msg := safely(func() {
		w.write()
		w.app.Commit()
		exported, err := w.app.ExportAppStateAndValidators(false, nil)
		if err != nil {
			failure = "export: " + err.Error()
			return
		}
		newApp := app.NewTeleport(log.NewNopLogger(), dbm.NewMemDB(), nil, true, map[int64]bool{}, app.DefaultNodeHome, 5,
			encoding.MakeConfig(app.ModuleBasics), simapp.EmptyAppOptions{})
		newApp.InitChain(abci.RequestInitChain{ChainId: "teleport_9000-1", Time: blockTime, InitialHeight: exported.Height,
			Validators: []abci.ValidatorUpdate{}, ConsensusParams: exported.ConsensusParams, AppStateBytes: exported.AppState})
		newApp.Commit()
		hdr := tmproto.Header{ChainID: "teleport_9000-1", Height: newApp.LastBlockHeight() + 1, Time: blockTime}
		newApp.BeginBlock(abci.RequestBeginBlock{Header: hdr})
		w.app = newApp
		w.base = newApp.BaseApp.NewContext(false, hdr)
		w.ctx, w.write = w.base.CacheContext()
	})
	if pan {
		failure = "panic: " + msg
	}
	if failure != "" {
		if len(failure) > 500 {
			failure = failure[:500]
		}
		r.Find(Finding{Sig: "C10:restartapp-failed", What: "whole-app export / InitChain of the exported genesis failed: " + failure, Ops: w.histCopy(), Obs: failure, Req: "the chain restarts from its export"})
		return "panic"
	}
	after := w.rawClients(w.ctx)
	aA, aB := w.observeOf(w.ctx, c10Names["a"]).dump, w.observeOf(w.ctx, c10Names["b"]).dump
	if after != before || aA != dA || aB != dB {
		r.Find(Finding{Sig: "C10:restartapp-changed-state", What: "client stores differ after the whole-app restart from the exported genesis", Ops: w.histCopy(), Obs: aA + " | " + aB, Req: dA + " | " + dB})
	}
	r.Count("restartapp")
	if w.cur == "a" {
		w.otherDump = aB
	} else {
		w.otherDump = aA
	}
	return "ok " + aA + " | " + aB
}

// twinsPruned: the history has two accepted headers of equal height and equal state root, and pruning has begun
func (w *c10World) twinsPruned(consLo uint64) bool {
	if consLo <= w.lo0 {
		return false
	}
	seen := map[string]common.Hash{}
	for _, a := range w.accepted {
		k := fmt.Sprintf("%d:%x", a.Number, a.Root)
		if o, ok := seen[k]; ok && o != a.Hash {
			return true
		}
		seen[k] = a.Hash
	}
	return false
}

// index-consistency oracle on the raw store: every consensus state kept on the head's ancestry has its header-index entry and its
// root-main entry under the HEADER's own height (own computation from the headers accepted / installed by proposals)
func (w *c10World) indexOracle(r *Rec) {
	if !w.created {
		return
	}
	o := w.observe(w.ctx)
	for a := w.accepted[w.head]; a != nil; a = w.accepted[common.BytesToHash(a.ParentHash)] {
		if _, kept := o.cons[a.Number]; !kept {
			continue
		}
		origin := w.origin[a.Number]
		if origin == "" {
			origin = "update"
		}
		hk := fmt.Sprintf("%d:%s", a.Number, hex.EncodeToString(a.Hash[:]))
		rk := fmt.Sprintf("%d:%s", a.Number, hex.EncodeToString(common.BytesToHash(a.Root).Bytes()))
		v, okR := o.rms[rk]
		if !o.hdrs[hk] || !okR || !strings.HasPrefix(v, fmt.Sprintf("%d:", a.Number)) {
			sig := "C10:index-entry-misplaced:" + origin
			if origin == "update" && w.twinsPruned(o.consLo) {
				sig = "C10:root-twins-under-pruning:index-entry-missing"
			}
			r.Find(Finding{Sig: sig, What: fmt.Sprintf("the consensus state at height %d (installed by %s) has no header-index / root-main entry under the header's own height (header entry %v, root-main entry %q): its pruning will fail and wedge the client", a.Number, origin, o.hdrs[hk], v),
				Ops: w.histCopy(), Obs: o.dump, Req: "ethHeaderIndex/<hash><height> and ethRootMain/<root><height> with the header's height"})
		}
		r.Count("index.checked")
	}
}

func c10ErrClass(msg string) string {
	switch {
	case strings.Contains(msg, "in RestrictChain"):
		return "restrictchain"
	case strings.Contains(msg, "status"):
		return "status"
	case strings.Contains(msg, "does not exist for hash"):
		return "no-parent"
	default:
		return "other"
	}
}

func (w *c10World) apply(r *Rec, op string) string {
	f := strings.Fields(op)
	w.hist = append(w.hist, op)
	switch f[0] {
	case "reset", "create":
		off := 0
		if f[0] == "reset" {
			w.ctx, w.write = w.base.CacheContext()
			w.hist = []string{op}
			w.cur, w.name = "a", c10Names["a"]
			w.other, w.otherDump = c10Book{}, "-"
			off = 1
		}
		w.c10Book = c10Book{created: true, accepted: map[common.Hash]*c10Hdr{}}
		w.chainID, _ = strconv.ParseUint(f[1+off], 10, 64)
		w.trusting, _ = strconv.ParseUint(f[2+off], 10, 64)
		h, ok := c10Parse(f[3+off:])
		if !ok {
			r.t.Fatalf("bad header in %q", op)
		}
		p := h.proto()
		cs := &xibcethtypes.ClientState{Header: p, ChainId: w.chainID, ContractAddress: []byte("0x00"), TrustingPeriod: w.trusting, TimeDelay: 0, BlockDelay: 1}
		cons := &xibcethtypes.ConsensusState{Timestamp: h.Time, Height: p.Height, Root: h.Root}
		// a client is created by a proposal, whose ValidateBasic runs ClientState.Validate (= the creation header's ValidateBasic)
		wantOK := !(h.Rev == 0 && h.Number == 0) && h.GasLimit <= 1<<63-1 && h.GasUsed <= h.GasLimit &&
			(h.Number == 0 || new(big.Int).And(h.Difficulty, new(big.Int).SetUint64(^uint64(0))).Sign() != 0)
		if w.consHeight != nil {
			cons.Height = *w.consHeight
			w.consHeight = nil
		}
		// as governance would: CreateClientProposal → ValidateBasic (ClientState.Validate, ConsensusState.ValidateBasic) → handler
		var verr error
		prop, perr := clienttypes.NewCreateClientProposal("t", "d", w.name, cs, cons)
		if perr != nil {
			r.t.Fatalf("proposal: %v", perr)
		}
		if pan, msg := safely(func() { verr = prop.ValidateBasic() }); pan {
			r.Find(Finding{Sig: "C10:create-panic", What: "CreateClientProposal.ValidateBasic panics: " + msg, Ops: w.histCopy(), Obs: "panic", Req: "ok or error"})
			verr = fmt.Errorf("panic")
		}
		if (verr == nil) != wantOK {
			sig := "C10:valid-creation-rejected"
			if verr == nil {
				sig = "C10:invalid-creation-accepted"
			}
			r.Find(Finding{Sig: sig, What: fmt.Sprintf("CreateClientProposal.ValidateBasic for the creation header (base fee %s, gas %d/%d, difficulty %s): %v", h.BaseFee, h.GasUsed, h.GasLimit, h.Difficulty, verr),
				Ops: w.histCopy(), Obs: fmt.Sprint(verr), Req: fmt.Sprint("accepted = ", wantOK)})
		}
		if verr != nil && !wantOK { // (a refusal of a rule-abiding creation header is reported above; the history then continues on a
			// client created through the keeper, as one that predates the refusing guard, so that its updates are judged too)
			w.c10Book = c10Book{}
			r.Count("create.rejected")
			return "err"
		}
		if h.BaseFee.Sign() == 0 {
			r.Count("basefee.zero.creation")
		}
		var cerr error
		if verr == nil {
			cerr = xibcclient.NewClientProposalHandler(w.app.XIBCKeeper.ClientKeeper)(w.ctx, prop)
		} else {
			cerr = w.app.XIBCKeeper.ClientKeeper.CreateClient(w.ctx, w.name, cs, cons)
		}
		if cerr != nil {
			r.t.Fatalf("create: %v", cerr)
		}
		w.origin = map[uint64]string{h.Number: "create"}
		w.accepted[h.Hash] = h
		w.head = h.Hash
		w.lo0 = h.Number
		w.frame(r, "create")
		w.indexOracle(r)
		return "ok " + w.observe(w.ctx).dump
	case "world":
		w.ctx, w.write = w.base.CacheContext()
		w.hist = []string{op}
		w.cur, w.name = "a", c10Names["a"]
		w.c10Book, w.other, w.otherDump, w.consHeight = c10Book{}, c10Book{}, "-", nil
		return "ok"
	case "consheight":
		w.consHeight = nil
		if rn := strings.SplitN(f[1], "-", 2); len(rn) == 2 {
			a, _ := strconv.ParseUint(rn[0], 10, 64)
			b, _ := strconv.ParseUint(rn[1], 10, 64)
			hh := clienttypes.NewHeight(a, b)
			w.consHeight = &hh
		}
		return "ok"
	case "tss":
		if w.created || w.tss {
			return "err"
		}
		prop, _ := clienttypes.NewCreateClientProposal("t", "d", w.name, &tsstypes.ClientState{TssAddress: sdk.AccAddress(make([]byte, 20)).String(), Pubkey: []byte("pk"), Threshold: 1}, &tsstypes.ConsensusState{})
		if err := prop.ValidateBasic(); err != nil {
			r.t.Fatalf("tss proposal: %v", err)
		}
		if err := xibcclient.NewClientProposalHandler(w.app.XIBCKeeper.ClientKeeper)(w.ctx, prop); err != nil {
			r.t.Fatalf("tss create: %v", err)
		}
		w.c10Book = c10Book{tss: true}
		return "ok"
	case "upgrade", "toggle":
		chain, _ := strconv.ParseUint(f[1], 10, 64)
		tr, _ := strconv.ParseUint(f[2], 10, 64)
		h, ok := c10Parse(f[3:])
		if !ok {
			r.t.Fatalf("bad header in %q", op)
		}
		p := h.proto()
		cs := &xibcethtypes.ClientState{Header: p, ChainId: chain, ContractAddress: []byte("0x00"), TrustingPeriod: tr, TimeDelay: 0, BlockDelay: 1}
		cons := &xibcethtypes.ConsensusState{Timestamp: h.Time, Height: p.Height, Root: h.Root}
		class := "equal"
		if w.consHeight != nil {
			cons.Height = *w.consHeight
			switch {
			case w.consHeight.IsZero():
				class = "unset"
			case w.consHeight.RevisionNumber != h.Rev:
				class = "other-revision"
			case w.consHeight.RevisionHeight < h.Number:
				class = "lower"
			case w.consHeight.RevisionHeight > h.Number:
				class = "higher"
			}
			w.consHeight = nil
		}
		var content govtypes.Content
		if f[0] == "upgrade" {
			content, _ = clienttypes.NewUpgradeClientProposal("t", "d", w.name, cs, cons)
		} else {
			content, _ = clienttypes.NewToggleClientProposal("t", "d", w.name, cs, cons)
		}
		wantOK := !(h.Rev == 0 && h.Number == 0) && h.GasLimit <= 1<<63-1 && h.GasUsed <= h.GasLimit &&
			(h.Number == 0 || new(big.Int).And(h.Difficulty, new(big.Int).SetUint64(^uint64(0))).Sign() != 0)
		if f[0] == "upgrade" {
			wantOK = wantOK && w.created
		} else {
			wantOK = wantOK && w.tss
		}
		var err error
		before := w.observe(w.ctx)
		pan, msg := safely(func() {
			if err = content.ValidateBasic(); err != nil {
				return
			}
			cctx, write := w.ctx.CacheContext()
			if err = xibcclient.NewClientProposalHandler(w.app.XIBCKeeper.ClientKeeper)(cctx, content); err == nil {
				write()
			}
		})
		if pan {
			r.Find(Finding{Sig: "C10:" + f[0] + "-panic", What: f[0] + " proposal panics: " + msg, Ops: w.histCopy(), Obs: "panic", Req: "ok or error"})
			return "panic"
		}
		if (err == nil) != wantOK {
			r.Find(Finding{Sig: "C10:" + f[0] + "-verdict", What: fmt.Sprintf("%s proposal (consensus-state height class %s): %v", f[0], class, err), Ops: w.histCopy(), Obs: fmt.Sprint(err), Req: fmt.Sprint("accepted = ", wantOK)})
		}
		if err != nil {
			r.Count(f[0] + ".rejected")
			return "err"
		}
		r.Count(f[0] + ".cons-height." + class)
		if f[0] == "toggle" {
			w.c10Book = c10Book{created: true, accepted: map[common.Hash]*c10Hdr{}, origin: map[uint64]string{}}
			w.lo0 = h.Number
		}
		w.chainID, w.trusting = chain, tr
		w.accepted[h.Hash] = h
		w.head = h.Hash
		w.origin[h.Number] = f[0]
		w.frame(r, f[0])
		after := w.observe(w.ctx)
		_ = before
		if c, ok := after.cons[h.Number]; !ok || c[0] != hex.EncodeToString(common.BytesToHash(h.Root).Bytes()) {
			r.Find(Finding{Sig: "C10:" + f[0] + "-head-consensus-state", What: "after the " + f[0] + " the consensus state at the new head's height is not the proposal's", Ops: w.histCopy(), Obs: fmt.Sprint(c), Req: hex.EncodeToString(h.Root)})
		}
		w.indexOracle(r)
		return "ok " + after.dump
	case "use":
		if f[1] != w.cur {
			w.otherDump = w.observe(w.ctx).dump
			w.c10Book, w.other = w.other, w.c10Book
			w.cur, w.name = f[1], c10Names[f[1]]
		}
		r.Count("use." + f[1])
		return "ok " + w.observe(w.ctx).dump
	case "restart":
		return w.restart(r)
	case "restartapp":
		return w.restartApp(r)
	case "upd", "probe":
		now, _ := strconv.ParseUint(f[1], 10, 64)
		h, ok := c10Parse(f[2:])
		if !ok {
			r.t.Fatalf("bad header in %q", op)
		}
		if !w.created { // no such client (its creation was refused)
			res, _ := w.submit(h, now, false)
			r.Count("no-client." + res)
			return res
		}
		if ch := func() common.Hash { p := h.proto(); return p.Hash() }(); ch != h.Hash {
			r.Find(Finding{Sig: "C10:hash-differs-from-go-ethereum", What: "client header hash differs from go-ethereum's", Ops: w.histCopy(), Obs: ch.Hex(), Req: h.Hash.Hex()})
		}
		before := w.observe(w.ctx)
		// ---- what the property demands, from the harness' own bookkeeping ---------------------------
		parent := w.accepted[common.BytesToHash(h.ParentHash)]
		stored := parent != nil && before.hdrs[fmt.Sprintf("%d:%s", parent.Number, hex.EncodeToString(parent.Hash[:]))]
		broken := "no-parent"
		if parent != nil {
			broken = w.ruleBroken(parent, h, now)
		}
		headH := w.accepted[w.head]
		active := headH != nil && before.cons[headH.Number][0] != "" && headH.Time+w.trusting >= now
		live := false
		fork := int64(-1)
		if stored {
			fork = w.forkHeight(parent)
			// the walk of RestrictChain needs the children of the fork point on both branches; pruning removes the
			// main-branch header at the lowest kept consensus state when that state has expired at this update
			line := int64(before.consLo)
			if lo, ok := before.cons[before.consLo]; ok {
				if t, _ := strconv.ParseUint(lo[1], 10, 64); t+w.trusting < now {
					line++
				}
			}
			live = before.hasCons && fork >= 0 && fork+1 >= line
			if live && fork+1 == line && broken == "" {
				r.Count("valid.fork-exactly-at-prune-line")
			}
		}
		must := stored && broken == "" && active && live
		belowLine := stored && broken == "" && active && !live
		res, msg := w.submit(h, now, f[0] == "upd")
		kind := "extension"
		if parent != nil && parent.Hash != w.head {
			kind = "reorg"
			if h.Number <= headH.Number {
				kind = "reorg-lower"
			}
			if _, dup := w.accepted[h.Hash]; dup {
				kind = "resubmit"
			}
		}
		r.Count(f[0] + "." + res)
		if must && h.BaseFee.Sign() == 0 {
			if res == "ok" {
				r.Count("basefee.zero.valid-child.accepted")
			} else {
				r.Count("basefee.zero.valid-child.rejected")
			}
		}
		if must && parent.BaseFee.Sign() == 0 && h.BaseFee.Sign() > 0 && res == "ok" {
			r.Count("basefee.zero-to-one.accepted")
		}
		if must {
			r.Count("valid." + kind)
			if before.consLo > w.lo0 {
				r.Count("valid-after-pruning." + kind)
			}
		} else if stored && broken == "" {
			r.Count("valid-not-demanded." + map[bool]string{true: "expired", false: "below-prune-line"}[!active])
		} else {
			if broken == "" {
				broken = "parent-not-stored"
			}
			r.Count("invalid." + broken)
		}
		if res == "panic" {
			r.Find(Finding{Sig: "C10:update-panic", What: "UpdateClient panics: " + msg, Ops: w.histCopy(), Obs: "panic", Req: "ok or error"})
		}
		if must && res != "ok" {
			sig := "C10:valid-child-rejected:" + kind + ":" + c10ErrClass(msg)
			if kind != "extension" && c10ErrClass(msg) == "restrictchain" {
				sig = "C10:restrictchain-reorg-rejected"
			}
			if w.twinsPruned(before.consLo) {
				// KNOWN FINDING (docs/C10.md): with two accepted headers of equal height and equal state root the prune pass, which finds
				// the header through the (root, height) index, deletes the wrong one / the wrong index entry
				sig = "C10:root-twins-under-pruning:valid-child-rejected"
			}
			r.Find(Finding{Sig: sig, What: fmt.Sprintf("valid child (height %d) of the stored header %x (fork height %d, lowest consensus state %d) is rejected: %s", h.Number, parent.Hash[:4], fork, before.consLo, msg),
				Ops: w.histCopy(), Obs: res + ": " + msg, Req: "accepted (never_wedged)"})
		}
		if w.chainID != 4 && stored && res == "err" && (broken == "pow" || broken == "difficulty" || broken == "extra") {
			// which rule rejected it?  a header carrying exactly the difficulty the rule demands (floor included) must not be
			// rejected for its difficulty, one carrying another value must be (the rule is checked before the seal)
			right := ethash.CalcDifficulty(c10AllForks, h.Time, parent.eth()).Cmp(h.Difficulty) == 0
			saysDiff := strings.Contains(msg, "invalid difficulty")
			if right && saysDiff {
				r.Find(Finding{Sig: "C10:right-difficulty-rejected", What: "a header with exactly the difficulty of the rule is rejected as having a wrong difficulty: " + msg, Ops: w.histCopy(), Obs: msg, Req: "difficulty rule satisfied"})
			}
			if !right && !saysDiff {
				r.Find(Finding{Sig: "C10:wrong-difficulty-passed-difficulty-stage", What: "a header with a wrong difficulty passes the difficulty rule (rejected later: " + msg + ")", Ops: w.histCopy(), Obs: msg, Req: "rejected by the difficulty rule"})
			}
			if right {
				r.Count("difficulty.right-value")
				uncles := !bytes.Equal(parent.UncleHash, ethtypes.EmptyUncleHash[:])
				clamped := h.Time >= parent.Time+909 || (!uncles && h.Time >= parent.Time+900)
				floor := h.Difficulty.Cmp(big.NewInt(131072)) <= 0
				switch {
				case uncles && clamped && !floor:
					r.Count("difficulty.uncles.clamped") // the uncle term must sit INSIDE the max(…, −99)
				case uncles && !floor:
					r.Count("difficulty.uncles.unclamped")
				case clamped && !floor:
					r.Count("difficulty.no-uncles.clamped")
				}
				if parent.Number >= 9899999 {
					r.Count("difficulty.with-bomb")
				}
			} else {
				r.Count("difficulty.wrong-value")
			}
		}
		if belowLine {
			if res != "ok" {
				// KNOWN FINDING (docs/C10.md): the header is still in the index (side-branch entries are never pruned) but the
				// head's branch has been pruned past the fork point, so RestrictChain cannot find the common parent
				r.Count("below-line.rejected")
				r.Find(Finding{Sig: "C10:valid-child-rejected:fork-below-prune-line", What: fmt.Sprintf("valid child (height %d) of the still stored side-branch header %x is rejected: its branch forks from the head's ancestry at height %d, below the prune line (lowest consensus state %d): %s", h.Number, parent.Hash[:4], fork, before.consLo, msg),
					Ops: w.histCopy(), Obs: res + ": " + msg, Req: "accepted (never_wedged, as literally stated)"})
			} else {
				r.Count("below-line.accepted")
			}
		}
		if res == "ok" && parent != nil {
			// own computation in unbounded integers: accepted ⇒ parent.Time < header.Time ≤ block time + 15 s
			limit := new(big.Int).Add(new(big.Int).SetUint64(now), big.NewInt(15))
			ht := new(big.Int).SetUint64(h.Time)
			if ht.Cmp(limit) > 0 {
				r.Find(Finding{Sig: "C10:accepted-future-timestamp:" + c10TimeClass(h.Time, now), What: fmt.Sprintf("accepted header with time stamp %d, block time %d (+15 s allowed)", h.Time, now),
					Ops: w.histCopy(), Obs: "accepted", Req: "rejected: future block"})
			}
			if ht.Cmp(new(big.Int).SetUint64(parent.Time)) <= 0 {
				r.Find(Finding{Sig: "C10:accepted-timestamp-not-after-parent", What: fmt.Sprintf("accepted header with time stamp %d ≤ parent's %d", h.Time, parent.Time), Ops: w.histCopy(), Obs: "accepted", Req: "rejected"})
			}
		}
		if parent != nil && stored {
			cl := c10TimeClass(h.Time, now)
			if h.Time > parent.Time && cl != "ordinary" {
				if res == "ok" {
					r.Count("time.accepted." + cl)
				} else if broken == "time-future" {
					r.Count("refused.future." + cl)
				}
			}
		}
		if res == "ok" && (!stored || broken != "") {
			r.Find(Finding{Sig: "C10:accepted-invalid:" + broken, What: "accepted header violates rule " + broken + " (or its parent is not stored)", Ops: w.histCopy(), Obs: "accepted", Req: "rejected (accept_sound)"})
		}
		w.frame(r, f[0])
		if f[0] == "probe" || res != "ok" {
			if after := w.observe(w.ctx); after.dump != before.dump {
				sig, what := "C10:failed-update-changed-state", "rejected update changed the store"
				if f[0] == "probe" {
					sig, what = "C10:discarded-update-changed-state", "an update executed on a dropped cache context changed the store"
				}
				r.Find(Finding{Sig: sig, What: what, Ops: w.histCopy(), Obs: after.dump, Req: before.dump})
			}
			if f[0] == "probe" {
				r.Count("discarded." + res)
			}
			return res
		}
		w.accepted[h.Hash] = h
		w.head = h.Hash
		after := w.observe(w.ctx)
		if after.head != h.Hash {
			r.Find(Finding{Sig: "C10:head-not-updated", What: "accepted header did not become the head", Ops: w.histCopy(), Obs: after.head.Hex(), Req: h.Hash.Hex()})
		}
		// ancestry_roots: every consensus state kept for a height on the head's ancestry is that ancestor's root
		n := 0
		for a := h; a != nil; a = w.accepted[common.BytesToHash(a.ParentHash)] {
			c, ok := after.cons[a.Number]
			if !ok {
				continue
			}
			n++
			if c[0] == hex.EncodeToString(common.BytesToHash(a.Root).Bytes()) && c[1] != fmt.Sprint(a.Time) {
				r.Count("ancestry.root-equal-time-differs") // not demanded by the property (a twin with the same state root)
			}
			if c[0] != hex.EncodeToString(common.BytesToHash(a.Root).Bytes()) {
				r.Find(Finding{Sig: "C10:ancestry-root-mismatch", What: fmt.Sprintf("consensus state at height %d is not the state root of the head's ancestor %x", a.Number, a.Hash[:4]),
					Ops: w.histCopy(), Obs: c[0] + ":" + c[1], Req: hex.EncodeToString(a.Root) + ":" + fmt.Sprint(a.Time)})
			}
		}
		if _, ok := after.cons[h.Number]; !ok {
			r.Find(Finding{Sig: "C10:head-consensus-state-missing", What: "no consensus state at the head's height", Ops: w.histCopy(), Obs: "missing", Req: "present"})
		}
		r.Count("accepted." + kind)
		if before.hasCons && after.hasCons && after.consLo > before.consLo {
			r.Count("prune.deleted")
			if o, ok := w.origin[before.consLo]; ok {
				r.Count("prune.expired-" + o + "-state")
				delete(w.origin, before.consLo)
				w.prunedOrigin = true
			}
		}
		if w.prunedOrigin && kind == "extension" {
			r.Count("valid-after-expired-proposal-state.accepted")
		}
		w.indexOracle(r)
		if n > 1 {
			r.Count("ancestry.checked")
		}
		return "ok " + after.dump
	}
	r.t.Fatalf("bad op %q", op)
	return ""
}

// ---- generator ---------------------------------------------------------------------------------------------

type c10Gen struct {
	r       *Rec
	nextID  uint64
	variant string
}

func (g *c10Gen) rnd32() []byte {
	b := make([]byte, 32)
	g.r.Rng.Read(b)
	return b
}

func (g *c10Gen) genesis(number, t uint64) *c10Hdr {
	h := &c10Hdr{ParentHash: g.rnd32(), UncleHash: ethtypes.EmptyUncleHash[:], Coinbase: make([]byte, 20), Root: g.rnd32(), TxHash: ethtypes.EmptyRootHash[:],
		ReceiptHash: ethtypes.EmptyRootHash[:], Bloom: nil, Difficulty: big.NewInt(1), Number: number, GasLimit: 30000000, GasUsed: 15000000,
		Time: t, Extra: []byte("verif"), MixDigest: make([]byte, 32), Nonce: 0, BaseFee: big.NewInt(1000000000)}
	switch g.r.Rng.Intn(4) {
	case 0:
		h.GasLimit, h.GasUsed = 5000+uint64(g.r.Rng.Intn(3000)), uint64(g.r.Rng.Intn(5000))
	case 1:
		h.GasUsed = uint64(g.r.Rng.Int63n(30000001))
		h.BaseFee = big.NewInt(int64(g.r.Rng.Intn(20)))
	}
	h.seal()
	return h
}

// child builds a rule-abiding child of p (chain id 4: difficulty free)
func (g *c10Gen) child(p *c10Hdr, dt uint64) *c10Hdr {
	rng := g.r.Rng
	g.nextID++
	h := &c10Hdr{ParentHash: p.Hash[:], UncleHash: ethtypes.EmptyUncleHash[:], Coinbase: make([]byte, 20), Root: g.rnd32(), TxHash: ethtypes.EmptyRootHash[:],
		ReceiptHash: ethtypes.EmptyRootHash[:], Difficulty: big.NewInt(int64(1 + rng.Intn(2))), Number: p.Number + 1, Rev: p.Rev, Time: p.Time + dt,
		Extra: []byte(fmt.Sprintf("n%d", g.nextID)), MixDigest: make([]byte, 32), Nonce: g.nextID}
	lim := p.GasLimit / 1024
	h.GasLimit = p.GasLimit
	if lim > 1 {
		switch rng.Intn(5) {
		case 0:
			h.GasLimit = p.GasLimit + lim - 1 // boundary (valid)
		case 1:
			h.GasLimit = p.GasLimit - (lim - 1)
		case 2:
			h.GasLimit = p.GasLimit + uint64(rng.Int63n(int64(lim)))
		}
	}
	if h.GasLimit < 5000 {
		h.GasLimit = p.GasLimit
	}
	switch rng.Intn(5) {
	case 0:
		h.GasUsed = h.GasLimit / 2
	case 1:
		h.GasUsed = h.GasLimit
	case 2:
		h.GasUsed = 0
	default:
		if h.GasLimit >= 1<<62 {
			h.GasUsed = h.GasLimit / 2
		} else {
			h.GasUsed = uint64(rng.Int63n(int64(h.GasLimit) + 1))
		}
	}
	if rng.Intn(8) == 0 {
		h.UncleHash = g.rnd32()
	}
	h.BaseFee = c10Base(p)
	h.seal()
	return h
}

func (g *c10Gen) reset(chain, trusting uint64, h *c10Hdr) string {
	return fmt.Sprintf("reset %s %d %d %s", g.variant, chain, trusting, h)
}

func c10Op(kind string, now uint64, h *c10Hdr) string { return fmt.Sprintf("%s %d %s", kind, now, h) }

// mutations of a valid child h of p; each returns a re-sealed header
func (g *c10Gen) mutate(p, h *c10Hdr, now uint64, k int) (*c10Hdr, string) {
	m := *h
	m.Difficulty, m.BaseFee = new(big.Int).Set(h.Difficulty), new(big.Int).Set(h.BaseFee)
	lim := p.GasLimit / 1024
	name := ""
	switch k % 16 {
	case 0:
		m.Time, name = p.Time, "time=parent"
	case 1:
		m.Time, name = p.Time-1, "time<parent"
	case 2:
		m.Time, name = now+16, "time=now+16"
	case 3:
		m.Time, name = now+15, "time=now+15" // valid if > parent
	case 4:
		m.GasLimit, name = p.GasLimit+lim, "gaslimit+bound"
	case 5:
		m.GasLimit, name = p.GasLimit-lim, "gaslimit-bound"
	case 6:
		m.GasLimit, name = 4999, "gaslimit<5000"
	case 7:
		m.BaseFee.Add(m.BaseFee, big.NewInt(1))
		name = "basefee+1"
	case 8:
		if m.BaseFee.Sign() > 0 {
			m.BaseFee.Sub(m.BaseFee, big.NewInt(1))
		} else {
			m.BaseFee.SetInt64(7)
		}
		name = "basefee-1"
	case 9:
		m.ParentHash, name = g.rnd32(), "parenthash-random"
	case 10:
		m.Number, name = h.Number+1, "number+1"
	case 11:
		m.Number, name = h.Number-1, "number-1"
	case 12:
		m.GasUsed, name = m.GasLimit+1, "gasused>limit"
	case 13:
		m.Difficulty, name = big.NewInt(0), "difficulty=0"
	case 14:
		m.Difficulty, name = new(big.Int).Lsh(big.NewInt(1), 64), "difficulty=2^64"
	case 15:
		m.ParentHash, name = p.ParentHash, "parenthash=grandparent"
	}
	if m.GasUsed > m.GasLimit && k%16 != 12 {
		m.GasUsed = m.GasLimit
	}
	m.seal()
	return &m, name
}

type c10Tree struct {
	nodes  []*c10Hdr
	parent []int
}

// probes: a fresh valid child of every header submitted so far
func (g *c10Gen) probes(t *c10Tree, upto []int, now uint64, max int) []string {
	var ops []string
	idx := append([]int{0}, upto...)
	if max > 0 && len(idx) > max {
		g.r.Rng.Shuffle(len(idx), func(i, j int) { idx[i], idx[j] = idx[j], idx[i] })
		idx = idx[:max]
	}
	for _, i := range idx {
		ops = append(ops, c10Op("probe", now, g.child(t.nodes[i], 1+uint64(g.r.Rng.Intn(3)))))
	}
	return ops
}

// rootMode: 0 distinct, 1 siblings share, 2 everything at a height shares, 3 random pairs at equal height share (cousins)
func (g *c10Gen) tree(gen *c10Hdr, parents []int, rootMode int) *c10Tree {
	t := &c10Tree{nodes: []*c10Hdr{gen}, parent: []int{-1}}
	perHeight := map[uint64][]byte{}
	perParent := map[int][]byte{}
	for i, p := range parents {
		h := g.child(t.nodes[p], 1+uint64(g.r.Rng.Intn(4)))
		switch rootMode {
		case 1:
			if rt, ok := perParent[p]; ok && g.r.Rng.Intn(2) == 0 {
				h.Root = rt
			}
			perParent[p] = h.Root
		case 2:
			if rt, ok := perHeight[h.Number]; ok {
				h.Root = rt
			}
			perHeight[h.Number] = h.Root
		case 3:
			if rt, ok := perHeight[h.Number]; ok && g.r.Rng.Intn(2) == 0 {
				h.Root = rt
			}
			perHeight[h.Number] = h.Root
		}
		h.seal()
		t.nodes = append(t.nodes, h)
		t.parent = append(t.parent, p)
		_ = i
	}
	return t
}

// all parent arrays p[i] < i+1 … (every tree shape with every parent-before-child order), branching ≤ 3
func c10ParentArrays(n int) [][]int {
	var res [][]int
	var rec func(cur []int)
	rec = func(cur []int) {
		if len(cur) == n {
			res = append(res, append([]int{}, cur...))
			return
		}
		for p := 0; p <= len(cur); p++ {
			c := 0
			for _, q := range cur {
				if q == p {
					c++
				}
			}
			if c < 3 {
				rec(append(cur, p))
			}
		}
	}
	rec(nil)
	return res
}

func (g *c10Gen) treeHistory(parents []int, rootMode int, order []int, probeMax int, withMut bool) []string {
	gen := g.genesis(uint64(10+g.r.Rng.Intn(100)), 1700000000)
	t := g.tree(gen, parents, rootMode)
	var maxT uint64
	for _, n := range t.nodes {
		if n.Time > maxT {
			maxT = n.Time
		}
	}
	now := maxT + 10
	ops := []string{g.reset(4, 100000000, gen)}
	var done []int
	for _, i := range order {
		ops = append(ops, c10Op("upd", now, t.nodes[i]))
		done = append(done, i)
		if withMut && g.r.Rng.Intn(3) == 0 {
			p := t.nodes[done[g.r.Rng.Intn(len(done))]]
			c := g.child(p, 1)
			m, _ := g.mutate(p, c, now, g.r.Rng.Intn(16))
			kind := "probe"
			if g.r.Rng.Intn(3) == 0 {
				kind = "upd"
			}
			ops = append(ops, c10Op(kind, now, m))
		}
		ops = append(ops, g.probes(t, done, now, probeMax)...)
	}
	return ops
}

// a long main chain with a short trusting period (pruning), forks above and below the prune line
func (g *c10Gen) pruneHistory(length int) []string {
	rng := g.r.Rng
	gen := g.genesis(uint64(1+rng.Intn(50)), 1700000000)
	trusting := uint64(40 + rng.Intn(40))
	ops := []string{g.reset(4, trusting, gen)}
	all := []*c10Hdr{gen}
	tip := gen
	for i := 0; i < length; i++ {
		var h *c10Hdr
		switch x := rng.Intn(10); {
		case x < 6: // extend the tip
			h = g.child(tip, 8+uint64(rng.Intn(6)))
			tip = h
		case x < 8: // fork near the tip
			k := len(all) - 1 - rng.Intn(c10Min(4, len(all)))
			h = g.child(all[k], 8+uint64(rng.Intn(6)))
			if rng.Intn(2) == 0 {
				h.Root = all[c10Min(k+1, len(all)-1)].Root
				h.seal()
			}
		default: // fork deep (probably below the prune line)
			h = g.child(all[rng.Intn(len(all))], 8+uint64(rng.Intn(6)))
		}
		all = append(all, h)
		now := tip.Time + uint64(rng.Intn(10))
		if h.Time > now+15 {
			now = h.Time
		}
		ops = append(ops, c10Op("upd", now, h))
		for j := 0; j < 3; j++ {
			ops = append(ops, c10Op("probe", now, g.child(all[rng.Intn(len(all))], 1+uint64(rng.Intn(3)))))
		}
		ops = append(ops, c10Op("probe", now, g.child(all[len(all)-1], 1)))
	}
	return ops
}

func c10Min(a, b int) int {
	if a < b {
		return a
	}
	return b
}

// the witness of F12: G <- A1, G <- B1 (head B1), then A2 child of A1
func (g *c10Gen) witness() []string {
	gen := g.genesis(100, 1700000000)
	a1 := g.child(gen, 1)
	b1 := g.child(gen, 2)
	a2 := g.child(a1, 3)
	now := uint64(1700000100)
	return []string{g.reset(4, 100000000, gen), c10Op("upd", now, a1), c10Op("upd", now, b1), c10Op("upd", now, a2)}
}

// cousins with equal state roots: G <- A1 <- A2 <- A3 (head), G <- B1, then B2 child of B1 with A2's state root
func (g *c10Gen) witnessRoot() []string {
	gen := g.genesis(200, 1700000000)
	a1 := g.child(gen, 1)
	b1 := g.child(gen, 2)
	a2 := g.child(a1, 1)
	a3 := g.child(a2, 1)
	b2 := g.child(b1, 1)
	b2.Root = a2.Root
	b2.seal()
	now := uint64(1700000100)
	return []string{g.reset(4, 100000000, gen), c10Op("upd", now, a1), c10Op("upd", now, b1), c10Op("upd", now, a1), c10Op("upd", now, a2),
		c10Op("upd", now, a3), c10Op("upd", now, b2), c10Op("probe", now, g.child(b2, 1)), c10Op("probe", now, g.child(a3, 1))}
}

// fork below the prune line: G <- B1 (side, never pruned), G <- A1 <- A2 <- A3 <- A4; G and A1 get pruned; then B2 child of B1
func (g *c10Gen) witnessPrune() []string {
	t0 := uint64(1700000000)
	gen := g.genesis(300, t0)
	b1 := g.child(gen, 12)
	a1 := g.child(gen, 10)
	a2 := g.child(a1, 10)
	a3 := g.child(a2, 10)
	a4 := g.child(a3, 10)
	a5 := g.child(a4, 10)
	b2 := g.child(b1, 40)
	return []string{g.reset(4, 50, gen), c10Op("upd", t0+15, b1), c10Op("upd", t0+15, a1), c10Op("upd", t0+25, a2), c10Op("upd", t0+35, a3),
		c10Op("upd", t0+55, a4), // prunes height 300 (G)
		c10Op("upd", t0+65, a5), // prunes height 301 (A1); B1 stays in the index
		c10Op("probe", t0+65, b2), c10Op("probe", t0+65, g.child(a5, 5)), c10Op("probe", t0+65, g.child(a3, 35))}
}

// recorded main-net headers (chain id 1): PoW and difficulty mutations
func (g *c10Gen) mainnetHistory(nValid int, muts []string) []string {
	bz, err := os.ReadFile(c10RepoDir() + "/x/xibc/clients/light-clients/eth/types/testdata/update_headers.json")
	if err != nil {
		return nil
	}
	var hs []*xibcethtypes.EthHeader
	if json.Unmarshal(bz, &hs) != nil || len(hs) < 3 {
		return nil
	}
	conv := func(e *xibcethtypes.EthHeader) *c10Hdr {
		h := &c10Hdr{ParentHash: e.ParentHash[:], UncleHash: e.UncleHash[:], Coinbase: e.Coinbase[:], Root: e.Root[:], TxHash: e.TxHash[:], ReceiptHash: e.ReceiptHash[:],
			Bloom: e.Bloom[:], Difficulty: e.Difficulty, Number: e.Number.Uint64(), GasLimit: e.GasLimit, GasUsed: e.GasUsed, Time: e.Time, Extra: e.Extra,
			MixDigest: e.MixDigest[:], Nonce: e.Nonce.Uint64(), BaseFee: e.BaseFee, Pow: true}
		h.seal()
		return h
	}
	first := conv(hs[0])
	ops := []string{g.reset(1, 99999999, first)}
	now := conv(hs[len(hs)-1]).Time + 100
	next := conv(hs[1])
	for _, m := range muts {
		x := *next
		x.Difficulty = new(big.Int).Set(next.Difficulty)
		switch m {
		case "nonce":
			x.Nonce++
			x.Pow = false
		case "mix":
			x.MixDigest = append([]byte{}, next.MixDigest...)
			x.MixDigest[7] ^= 1
			x.Pow = false
		case "difficulty":
			x.Difficulty.Add(x.Difficulty, big.NewInt(1))
		case "difficulty-1":
			x.Difficulty.Sub(x.Difficulty, big.NewInt(1))
		case "extra":
			x.Extra = bytes.Repeat([]byte{1}, 33)
			x.Pow = false
		case "time":
			x.Time++ // changes expected difficulty only when crossing a 9 s bucket; PoW seal hash changes anyway
			x.Pow = false
		}
		x.seal()
		ops = append(ops, c10Op("upd", now, &x))
	}
	for i := 1; i <= nValid && i < len(hs); i++ {
		ops = append(ops, c10Op("upd", now, conv(hs[i])))
	}
	return ops
}

func c10RepoDir() string {
	if d := os.Getenv("VERIF_REPO"); d != "" {
		return d
	}
	return "/repo"
}

// ---- hardening round: low base fees, boundary values, two clients, restarts ---------------------------------------

func (g *c10Gen) genesisWith(number, t, gasLimit, gasUsed uint64, baseFee *big.Int) *c10Hdr {
	h := g.genesis(number, t)
	h.GasLimit, h.GasUsed, h.BaseFee = gasLimit, gasUsed, new(big.Int).Set(baseFee)
	h.seal()
	return h
}

// childGas: rule-abiding child of p with the given gas limit / gas used (the caller keeps the limit within bounds)
func (g *c10Gen) childGas(p *c10Hdr, dt, gasLimit, gasUsed uint64) *c10Hdr {
	h := g.child(p, dt)
	h.GasLimit, h.GasUsed = gasLimit, gasUsed
	h.seal()
	return h
}

func c10WithBase(h *c10Hdr, b *big.Int) *c10Hdr {
	m := *h
	m.Difficulty, m.BaseFee = new(big.Int).Set(h.Difficulty), new(big.Int).Set(b)
	m.seal()
	return &m
}

// base fees of a few wei / gas use barely above the target: the minimum-step case of CalcBaseFee (delta rounds to 0 → +1),
// several verifications in one process, competing branches, and the wrong base fees a corrupted floor would produce
func (g *c10Gen) lowFeeHistory() []string {
	rng := g.r.Rng
	gl := uint64(30000000)
	if rng.Intn(3) == 0 {
		gl = 5000 + uint64(rng.Intn(20000))
	}
	target := gl / 2
	gen := g.genesisWith(uint64(1+rng.Intn(1000)), 1700000000, gl, target+1, big.NewInt(int64(rng.Intn(8))))
	now := uint64(1700001000)
	ops := []string{g.reset(4, 100000000, gen)}
	tip := gen
	all := []*c10Hdr{gen}
	var prevBase *big.Int
	for i := 0; i < 6+rng.Intn(6); i++ {
		p := tip
		if rng.Intn(4) == 0 {
			p = all[rng.Intn(len(all))]
		}
		var gu uint64
		switch rng.Intn(6) {
		case 0:
			gu = p.GasLimit / 2 // fee unchanged for the grandchild
		case 1:
			gu = 0
		case 2:
			gu = p.GasLimit
		default:
			gu = p.GasLimit/2 + 1 + uint64(rng.Intn(3)) // barely above target
		}
		c := g.childGas(p, 1+uint64(rng.Intn(3)), p.GasLimit, gu)
		if p.GasUsed > p.GasLimit/2 {
			d := new(big.Int).Sub(c.BaseFee, p.BaseFee)
			if d.Cmp(big.NewInt(1)) == 0 {
				g.r.Count("lowfee.minimum-step")
			}
		}
		// wrong base fees first (must be rejected), then the right one
		wrong := []*big.Int{new(big.Int).Add(c.BaseFee, big.NewInt(1)), new(big.Int).Set(p.BaseFee)}
		if c.BaseFee.Sign() > 0 {
			wrong = append(wrong, new(big.Int).Sub(c.BaseFee, big.NewInt(1)))
		}
		if prevBase != nil { // parent fee + (an earlier parent fee + 1): what a floor overwritten by an earlier call yields
			wrong = append(wrong, new(big.Int).Add(p.BaseFee, new(big.Int).Add(prevBase, big.NewInt(1))))
		}
		for _, wb := range wrong {
			if wb.Cmp(c.BaseFee) != 0 {
				ops = append(ops, c10Op("probe", now, c10WithBase(c, wb)))
				g.r.Count("lowfee.wrong-base-fee")
			}
		}
		ops = append(ops, c10Op("upd", now, c))
		prevBase = p.BaseFee
		all = append(all, c)
		if p == tip {
			tip = c
		}
		ops = append(ops, c10Op("probe", now, g.childGas(all[rng.Intn(len(all))], 1, all[0].GasLimit, all[0].GasLimit/2+1)))
	}
	return ops
}

// a chain whose base fee IS 0 (private / PoA network started with baseFeePerGas = 0): the creation header has base fee 0 and
// parents do not use more gas than their target, so the children's base fee stays 0 (encoded as the EMPTY byte string);
// forks on it; then blocks above target lift it to 1, 2, … from where it never returns to 0
func (g *c10Gen) zeroFeeHistory() []string {
	rng := g.r.Rng
	gl := uint64(30000000)
	if rng.Intn(3) == 0 {
		gl = 5000 + uint64(rng.Intn(50000))
	}
	target := gl / 2
	low := func() uint64 { return []uint64{0, target, target - 1, target / 2}[rng.Intn(4)] }
	gen := g.genesisWith(uint64(1+rng.Intn(1000)), 1700000000, gl, low(), big.NewInt(0))
	now := uint64(1700001000)
	ops := []string{g.reset(4, 100000000, gen)}
	all := []*c10Hdr{gen}
	tip := gen
	wire := func(h *c10Hdr, b []byte) *c10Hdr {
		m := *h
		m.BaseFeeWire = b
		m.BaseFee = new(big.Int).SetBytes(b)
		m.Difficulty = new(big.Int).Set(h.Difficulty)
		m.seal()
		return &m
	}
	for i := 0; i < 8+rng.Intn(6); i++ {
		p := tip
		if rng.Intn(3) == 0 {
			p = all[rng.Intn(len(all))] // fork
		}
		gu := low()
		if i >= 5 && rng.Intn(2) == 0 {
			gu = target + 1 + uint64(rng.Intn(int(target))) // the NEXT block's fee rises
		}
		c := g.childGas(p, 1+uint64(rng.Intn(3)), gl, gu)
		if c.BaseFee.Sign() == 0 {
			// the same header with the zero written as explicit zero bytes (same value, same hash), and a wrong fee of 1
			ops = append(ops, c10Op("probe", now, wire(c, []byte{0})), c10Op("probe", now, wire(c, []byte{0, 0, 0})), c10Op("probe", now, c10WithBase(c, big.NewInt(1))))
			g.r.Count("zerofee.child-with-fee-0")
		} else {
			ops = append(ops, c10Op("probe", now, c10WithBase(c, big.NewInt(0))), c10Op("probe", now, wire(c, append([]byte{0}, c.BaseFee.Bytes()...))))
		}
		ops = append(ops, c10Op("probe", now, c), c10Op("upd", now, c))
		all = append(all, c)
		if p == tip {
			tip = c
		}
		ops = append(ops, c10Op("probe", now, g.childGas(all[rng.Intn(len(all))], 1, gl, low())))
	}
	return ops
}

// the whole difficulty rule on a non-Rinkeby client, judged by the rejection REASON (fresh seals cannot be mined): one creation
// header = parent (uncles or not, difficulty around the 131072 floor or far above, block number around the bomb-delay
// boundaries), children at Δt ∈ {0 … 10^6}, each with the right difficulty, right±1 and right±parent/2048
var c10DiffDts = []uint64{0, 1, 8, 9, 10, 17, 18, 899, 900, 908, 909, 910, 1000, 1000000}

func c10DiffConfigs() (out [][3]uint64) { // {uncles, parent difficulty index, number}
	for u := uint64(0); u < 2; u++ {
		for d := uint64(0); d < 8; d++ {
			for _, n := range []uint64{1, 9699998, 9699999, 9700000, 9799999, 9899998, 9899999, 9900000, 9999999, 13286181} {
				out = append(out, [3]uint64{u, d, n})
			}
		}
	}
	return
}

func (g *c10Gen) difficultyGridHistory(cfg [3]uint64) []string {
	diffs := []*big.Int{big.NewInt(131072), big.NewInt(131073), big.NewInt(133120), big.NewInt(137800), big.NewInt(140000), big.NewInt(1 << 20),
		new(big.Int).Exp(big.NewInt(10), big.NewInt(16), nil), c10Pow2(70, 5)}
	t0 := uint64(1700000000)
	gen := g.genesisWith(cfg[2], t0, 30000000, 15000000, big.NewInt(1000000000))
	gen.Difficulty = diffs[cfg[1]]
	if cfg[0] == 1 {
		gen.UncleHash = g.rnd32() // the parent has uncles
	}
	gen.seal()
	now := t0 + 1000100
	ops := []string{g.reset(5, 1<<40, gen)}
	step := new(big.Int).Div(gen.Difficulty, big.NewInt(2048))
	for _, dt := range c10DiffDts {
		c := g.childGas(gen, 1, 30000000, 15000000)
		c.Time = gen.Time + dt
		want := ethash.CalcDifficulty(c10AllForks, c.Time, gen.eth())
		for _, d := range []*big.Int{big.NewInt(0), big.NewInt(1), big.NewInt(-1), step, new(big.Int).Neg(step)} {
			x := *c
			x.Difficulty = new(big.Int).Add(want, d)
			if x.Difficulty.Sign() <= 0 {
				continue
			}
			x.BaseFee = new(big.Int).Set(c.BaseFee)
			if !(dt == 909 && cfg[2] == 1) {
				// 33 bytes of extra data: rejected right AFTER the difficulty stage and before the (seconds-long) ethash
				// verification, so the reason still tells whether the difficulty stage was passed
				x.Extra = bytes.Repeat([]byte{7}, 33)
			}
			x.seal()
			ops = append(ops, c10Op("probe", now, &x))
		}
	}
	g.r.Count("history.difficulty-grid")
	return ops
}

// create / upgrade / toggle proposals whose consensus state carries a redundant Height of class cls (0 equal, 1 unset, 2 lower,
// 3 higher, 4 other revision), followed by a linear + forked history with a short trusting period that runs until the state the
// proposal installed has expired and been pruned while the head is fresh, and on afterwards
func (g *c10Gen) proposalHistory(kind string, cls int, connected bool) []string {
	rng := g.r.Rng
	T := uint64(60)
	t0 := uint64(1700000000)
	consh := func(h *c10Hdr) []string {
		switch cls {
		case 1:
			return []string{"consheight 0-0"}
		case 2:
			return []string{fmt.Sprintf("consheight %d-%d", h.Rev, h.Number-1)}
		case 3:
			return []string{fmt.Sprintf("consheight %d-%d", h.Rev, h.Number+7)}
		case 4:
			return []string{fmt.Sprintf("consheight %d-%d", h.Rev+3, h.Number)}
		}
		return nil
	}
	gen := g.genesisWith(uint64(20+rng.Intn(500)), t0, 30000000, 15000000, big.NewInt(1000000000))
	var ops []string
	start := gen
	switch kind {
	case "create":
		ops = append(consh(gen), g.reset(4, T, gen))
	case "toggle":
		ops = append([]string{"world", "tss"}, consh(gen)...)
		ops = append(ops, fmt.Sprintf("toggle 4 %d %s", T, gen))
	default: // upgrade of a client that already has a short history
		ops = []string{g.reset(4, T, gen)}
		tip := gen
		for i := 0; i < 2; i++ {
			c := g.child(tip, 10)
			ops = append(ops, c10Op("upd", c.Time, c))
			tip = c
		}
		var u *c10Hdr
		if connected {
			u = g.child(tip, 400) // a child of the head far in the future (no header check in an upgrade)
		} else {
			u = g.genesisWith(tip.Number+40, tip.Time+400, 30000000, 15000000, big.NewInt(1000000000))
		}
		ops = append(ops, consh(u)...)
		ops = append(ops, fmt.Sprintf("upgrade 4 %d %s", T, u))
		start = u
	}
	tip := start
	for i := 0; i < 16; i++ {
		c := g.child(tip, 10)
		now := c.Time + uint64(rng.Intn(5))
		if i == 5 || i == 10 { // a competing sibling takes over
			sib := g.child(tip, 11)
			ops = append(ops, c10Op("upd", now, c), c10Op("upd", now+1, sib))
			c = sib
		} else {
			ops = append(ops, c10Op("upd", now, c))
		}
		ops = append(ops, c10Op("probe", now+1, g.child(c, 3)), c10Op("probe", now+1, g.child(tip, 12)))
		tip = c
	}
	g.r.Count("history.proposal." + kind)
	return ops
}

// creation headers: rule-abiding edge cases and the ones ClientState.Validate must refuse
func (g *c10Gen) creationHistory() []string {
	t0 := uint64(1700000000)
	var ops []string
	mk := func(f func(h *c10Hdr)) {
		h := g.genesisWith(9, t0, 30000000, 15000000, big.NewInt(0))
		f(h)
		h.seal()
		ops = append(ops, g.reset(4, 100000000, h), c10Op("probe", t0+100, g.childGas(h, 1, h.GasLimit, c10MinU(h.GasUsed, h.GasLimit/2))))
		g.r.Count("boundary.creation")
	}
	mk(func(h *c10Hdr) {})
	mk(func(h *c10Hdr) { h.GasUsed = h.GasLimit })
	mk(func(h *c10Hdr) { h.GasUsed = h.GasLimit + 1 })
	mk(func(h *c10Hdr) { h.GasLimit, h.GasUsed = 1<<63-1, 0 })
	mk(func(h *c10Hdr) { h.GasLimit, h.GasUsed = 1<<63, 0 })
	mk(func(h *c10Hdr) { h.Difficulty = big.NewInt(0) })
	mk(func(h *c10Hdr) { h.Difficulty, h.Number = big.NewInt(0), 0 })
	mk(func(h *c10Hdr) { h.Difficulty = c10Pow2(64, 0) })
	mk(func(h *c10Hdr) { h.BaseFee = c10Pow2(256, 0) })
	return ops
}

func c10MinU(a, b uint64) uint64 {
	if a < b {
		return a
	}
	return b
}

// classes of header time stamps relative to the block time
func c10TimeClass(t, now uint64) string {
	const off = 62135596800 // time.Unix's internal offset: int64(t)+off overflows for t ≥ 2^63-off
	switch {
	case t == now+14:
		return "limit-1"
	case t == now+15:
		return "at-limit"
	case t == now+16:
		return "limit+1"
	case t >= 1<<63:
		if t == 1<<63 {
			return "2^63"
		}
		if t == 1<<64-1 {
			return "2^64-1"
		}
		return "above-2^63"
	case t >= 1<<63-off-1:
		return "int64-offset-zone"
	case t >= 1<<62:
		return "2^62"
	case t > now+16 && t >= 1<<32:
		return "2^32"
	case t > now+16 && t >= 1<<31:
		return "2^31"
	}
	return "ordinary"
}

// time-stamp boundaries: children of a stored header whose Time is drawn from every boundary class, on ordinary and extreme block times
func (g *c10Gen) timeBoundaryHistory(k int) []string {
	const off = 62135596800
	t0s := []uint64{1700000000, 1 << 30, 1<<31 - 20, 1<<32 - 20, 1<<62 - 100, 1<<63 - off - 1000}
	t0 := t0s[k%len(t0s)]
	gen := g.genesisWith(uint64(60+k), t0, 30000000, 15000000, big.NewInt(9))
	now := t0 + 20
	ops := []string{g.reset(4, 1<<62, gen)}
	times := []uint64{t0, t0 + 1, now + 14, now + 15, now + 16, 1 << 31, 1<<31 + 1, 1 << 32, 1<<32 + 1, 1 << 62, 1<<63 - off - 1, 1<<63 - off, 1<<63 - off + 1,
		1<<63 - 1000, 1<<63 - 1, 1 << 63, 1<<63 + 1, 1<<63 + off, 1<<64 - 2, 1<<64 - 1}
	for _, tt := range times {
		c := g.child(gen, 1)
		c.Time = tt
		c.seal()
		ops = append(ops, c10Op("probe", now, c))
	}
	// the limit value is accepted and becomes the head; from there the same classes again, one second later
	c := g.child(gen, 1)
	c.Time = now + 15
	c.seal()
	ops = append(ops, c10Op("upd", now, c))
	for _, tt := range []uint64{now + 15, now + 16, now + 17, 1<<63 - 1, 1 << 63, 1<<64 - 1} {
		d := g.child(c, 1)
		d.Time = tt
		d.seal()
		ops = append(ops, c10Op("probe", now+1, d), c10Op("upd", now+1, d))
	}
	g.r.Count("history.time-boundary")
	return ops
}

func c10Pow2(k uint, d int64) *big.Int {
	return new(big.Int).Add(new(big.Int).Lsh(big.NewInt(1), k), big.NewInt(d))
}

// boundary values of every numeric field (class k)
func (g *c10Gen) boundaryHistory(k int) []string {
	rng := g.r.Rng
	t0 := uint64(1700000000)
	now := t0 + 1000
	both := func(ops []string, h *c10Hdr) []string { // a probe, then the update
		return append(ops, c10Op("probe", now, h), c10Op("upd", now, h))
	}
	switch k {
	case 0: // gas limit around the 5000 minimum and the ±parent/1024 bound of small limits
		gl := uint64(5000 + rng.Intn(6))
		gen := g.genesisWith(7, t0, gl, gl/2, big.NewInt(1000))
		ops := []string{g.reset(4, 100000000, gen)}
		p := gen
		for _, x := range []uint64{4999, 5000, 5001, 4998, gl - gl/1024, gl + gl/1024, gl - (gl/1024 - 1), gl + (gl/1024 - 1), 5000} {
			c := g.childGas(p, 1, x, x/2)
			ops = both(ops, c)
			g.r.Count("boundary.gaslimit-5000")
			if x >= 5000 && x+p.GasLimit/1024 > p.GasLimit && x < p.GasLimit+p.GasLimit/1024 {
				p = c
			}
		}
		return ops
	case 1: // gas limit at the bound of large limits, the 2^63-1 cap, gas used at the limit
		base := []uint64{30000000, 1<<31 - 1, 1 << 32, 1<<53 + 1, 1<<63 - 1}[rng.Intn(5)]
		gen := g.genesisWith(1<<31-1, t0, base, base/2, big.NewInt(7))
		ops := []string{g.reset(4, 100000000, gen)}
		lim := base / 1024
		for _, x := range []uint64{base - lim, base - lim + 1, base + lim - 1, base + lim, base, 1 << 63, 1<<63 - 1} {
			if x < base-lim-5 && x != 1<<63 {
				continue
			}
			for _, gu := range []uint64{x, x / 2} {
				ops = append(ops, c10Op("probe", now, g.childGas(gen, 1, x, gu)))
			}
			ops = append(ops, c10Op("probe", now, g.childGas(gen, 1, x, x/2+1)))
			g.r.Count("boundary.gaslimit-bound")
		}
		ops = append(ops, c10Op("upd", now, g.childGas(gen, 1, base-lim+1, base/2)))
		return ops
	case 2: // base fee 0..7 wei and huge, parent gas use below / at / above target
		var fees []*big.Int
		for i := int64(0); i < 8; i++ {
			fees = append(fees, big.NewInt(i))
		}
		fees = append(fees, c10Pow2(64, -1), c10Pow2(64, 0), c10Pow2(128, 0), c10Pow2(255, 0), c10Pow2(256, -1), c10Pow2(256, 0), big.NewInt(10).Exp(big.NewInt(10), big.NewInt(30), nil))
		f := fees[rng.Intn(len(fees))]
		gl := uint64(30000000)
		gen := g.genesisWith(1<<32+1, t0, gl, []uint64{0, gl / 2, gl/2 + 1, gl, gl/2 - 1}[rng.Intn(5)], f)
		ops := []string{g.reset(4, 100000000, gen)}
		p := gen
		for i := 0; i < 5; i++ {
			c := g.childGas(p, 1, gl, []uint64{0, gl / 2, gl/2 + 1, gl, gl/2 - 1}[rng.Intn(5)])
			ops = append(ops, c10Op("probe", now, c10WithBase(c, new(big.Int).Add(c.BaseFee, big.NewInt(1)))))
			ops = both(ops, c)
			p = c
			g.r.Count("boundary.basefee")
		}
		return ops
	case 3: // block numbers: 0, 1, 2^31, 2^32, the bomb-delay blocks of the difficulty rule
		// (heights ≥ ~2^36 are not generated: the difficulty calculator, which runs for chain id 4 too, computes 2^((n-9699999)/100000-2))
		nums := []uint64{0, 1, 1<<31 - 1, 1 << 31, 1<<32 - 1, 1 << 32, 1<<32 + 1, 9699997, 9699998, 9699999, 9700000, 9799998, 9899999, 9900000}
		n := nums[rng.Intn(len(nums))]
		gen := g.genesisWith(n, t0, 30000000, 15000000, big.NewInt(1000000000))
		ops := []string{g.reset(4, 100000000, gen)}
		a1 := g.child(gen, 1)
		b1 := g.child(gen, 2)
		a2 := g.child(a1, 1)
		b2 := g.child(b1, 1)
		a3 := g.child(a2, 1)
		for _, h := range []*c10Hdr{a1, b1, a2, a3, b2} {
			ops = both(ops, h)
		}
		ops = append(ops, c10Op("probe", now, g.child(b2, 1)), c10Op("probe", now, g.child(a3, 1)), c10Op("probe", now, g.child(gen, 3)))
		g.r.Count("boundary.number")
		return ops
	case 4: // time stamps: huge values, == parent, == now+15, == now+16
		ts := []uint64{1, 1<<31 - 1, 1 << 32, 1<<53 - 1, 1<<62 - 100}
		tg := ts[rng.Intn(len(ts))]
		gen := g.genesisWith(42, tg, 30000000, 15000000, big.NewInt(9))
		nw := tg + 20
		ops := []string{g.reset(4, 1<<62, gen)}
		for _, tt := range []uint64{tg, tg + 1, nw + 15, nw + 16, nw + 14, tg - 1} {
			c := g.child(gen, 1)
			c.Time = tt
			c.seal()
			ops = append(ops, c10Op("probe", nw, c))
			g.r.Count("boundary.time")
		}
		c := g.child(gen, 1)
		c.Time = nw + 15
		c.seal()
		ops = append(ops, c10Op("upd", nw, c), c10Op("probe", nw+1, g.child(c, 1)), c10Op("probe", nw, g.child(c, 1)))
		return ops
	case 5: // trusting period: 0, 1, exactly at / one second past the deadline, 2^63, 2^64-1 (wraps)
		tr := []uint64{0, 1, 50, 1 << 63, 1<<64 - 1, 1<<64 - 1700000001}[rng.Intn(6)]
		gen := g.genesisWith(5, t0, 30000000, 15000000, big.NewInt(9))
		ops := []string{g.reset(4, tr, gen)}
		c := g.child(gen, 1)
		d := g.child(c, 1)
		for _, nw := range []uint64{t0, t0 + tr, t0 + tr + 1, t0 + 1} {
			if nw < t0 || nw > 1<<62 {
				continue
			}
			ops = append(ops, c10Op("probe", nw, c))
		}
		ops = append(ops, c10Op("upd", c.Time, c), c10Op("probe", c.Time+tr, d), c10Op("probe", c.Time+tr+1, d), c10Op("upd", d.Time, d),
			c10Op("probe", d.Time, g.child(d, 1)), c10Op("probe", d.Time, g.child(gen, 5)))
		g.r.Count("boundary.trusting")
		return ops
	case 7: // revision numbers: creation header at revision r0; children must stay in it
		r0 := []uint64{0, 1, 1 << 32, 1<<64 - 1}[rng.Intn(4)]
		gen := g.genesisWith(50, t0, 30000000, 15000000, big.NewInt(9))
		gen.Rev = r0
		ops := []string{g.reset(4, 100000000, gen)}
		a1 := g.child(gen, 1)
		b1 := g.child(gen, 2)
		a2 := g.child(a1, 1)
		withRev := func(h *c10Hdr, rev uint64) *c10Hdr { m := *h; m.Rev = rev; return &m }
		ops = both(ops, a1)
		ops = append(ops, c10Op("probe", now, withRev(b1, r0+1)), c10Op("probe", now, withRev(a1, r0+7)), c10Op("probe", now, withRev(a2, r0^1)))
		ops = both(ops, b1)
		ops = both(ops, a2)
		ops = append(ops, c10Op("probe", now, g.child(b1, 1)), c10Op("probe", now, withRev(g.child(a2, 1), 0)), c10Op("probe", now, withRev(g.child(a2, 1), 1)),
			c10Op("upd", now, withRev(g.child(b1, 1), r0+1))) // last op of the history
		g.r.Count("boundary.revision")
		return ops
	default: // difficulty values on chain id 4 (any non-zero low word) and on chain id 5 (rule + floor, PoW unaffordable)
		gen := g.genesisWith(77, t0, 30000000, 15000000, big.NewInt(9))
		chain := uint64(4)
		if k == 6 || rng.Intn(2) == 0 {
			chain = 5
			gen.Difficulty = big.NewInt(int64(131072 + (rng.Intn(4)/2)*rng.Intn(3)*1000000)) // at the floor half of the time
			gen.seal()
		}
		ops := []string{g.reset(chain, 100000000, gen)}
		for _, dv := range []*big.Int{big.NewInt(0), big.NewInt(1), big.NewInt(131071), big.NewInt(131072), big.NewInt(131073), c10Pow2(64, -1), c10Pow2(64, 0), c10Pow2(64, 1), c10Pow2(128, 0), c10Pow2(256, -1)} {
			c := g.child(gen, 1+uint64(rng.Intn(200)))
			c.Difficulty = dv
			c.seal()
			ops = append(ops, c10Op("probe", now, c))
			g.r.Count("boundary.difficulty")
		}
		if chain != 4 { // exactly the value of the rule (at the 131072 floor for slow blocks), one above, one below
			for _, dt := range []uint64{1, 8, 9, 10, 17, 18, 100, 900, 5000} {
				c := g.child(gen, dt)
				want := ethash.CalcDifficulty(c10AllForks, c.Time, gen.eth())
				for _, d := range []int64{0, 1, -1} {
					x := *c
					x.Difficulty = new(big.Int).Add(want, big.NewInt(d))
					x.BaseFee = new(big.Int).Set(c.BaseFee)
					x.seal()
					ops = append(ops, c10Op("probe", now+5000, &x))
				}
				if want.Cmp(big.NewInt(131072)) == 0 {
					g.r.Count("boundary.difficulty-floor")
				}
			}
		}
		return ops
	}
}

// two ETH clients in one world, operations interleaved; in half of the histories both follow the SAME chain
func (g *c10Gen) twoClientHistory(restarts bool) []string {
	rng := g.r.Rng
	genA := g.genesis(uint64(10+rng.Intn(100)), 1700000000)
	genB := genA
	same := rng.Intn(2) == 0
	if !same {
		genB = g.genesis(genA.Number+uint64(rng.Intn(3)), 1700000000)
	}
	mk := func(gen *c10Hdr) []*c10Hdr {
		nodes := []*c10Hdr{gen}
		for i := 0; i < 6+rng.Intn(6); i++ {
			p := nodes[c10Max(0, len(nodes)-1-rng.Intn(3))]
			nodes = append(nodes, g.child(p, 1+uint64(rng.Intn(3))))
		}
		return nodes
	}
	ta := mk(genA)
	tb := ta
	if !same {
		tb = mk(genB)
	}
	now := uint64(1700000100)
	trA, trB := uint64(100000000), uint64(100000000)
	if rng.Intn(2) == 0 {
		trB = 1 << 40
	}
	ops := []string{g.reset(4, trA, genA), "use b", fmt.Sprintf("create 4 %d %s", trB, genB)}
	ia, ib, cur := 1, 1, "b"
	use := func(x string) {
		if cur != x {
			ops = append(ops, "use "+x)
			cur = x
		}
	}
	for ia < len(ta) || ib < len(tb) {
		pickA := ib >= len(tb) || (ia < len(ta) && rng.Intn(2) == 0)
		if pickA {
			use("a")
			ops = append(ops, c10Op("upd", now, ta[ia]), c10Op("probe", now, g.child(ta[rng.Intn(ia+1)], 1)))
			ia++
		} else {
			use("b")
			ops = append(ops, c10Op("upd", now, tb[ib]), c10Op("probe", now, g.child(tb[rng.Intn(ib+1)], 1)))
			ib++
		}
		if restarts && rng.Intn(6) == 0 {
			ops = append(ops, "restart")
		}
	}
	use("a")
	ops = append(ops, c10Op("probe", now, g.child(ta[len(ta)-1], 1)))
	use("b")
	ops = append(ops, c10Op("probe", now, g.child(tb[len(tb)-1], 1)))
	return ops
}

// a restart after some of the accepted updates
func (g *c10Gen) withRestarts(ops []string, every int) []string {
	var out []string
	for _, op := range ops {
		out = append(out, op)
		if strings.HasPrefix(op, "upd ") && g.r.Rng.Intn(every) == 0 {
			out = append(out, "restart")
		}
	}
	return out
}

func TestC10(t *testing.T) {
	r := NewRec(t, "C10")
	defer r.Close()
	w := newC10World()
	run := func(h []string) {
		w := w
		for _, op := range h {
			if op == "restartapp" {
				w = newC10World() // the committed state must not leak into later histories
				break
			}
		}
		for _, op := range h {
			out := w.apply(r, op)
			r.Op(op, out)
			if strings.HasPrefix(op, "upd") && strings.HasPrefix(out, "ok") {
				r.Nontrivial(out)
			}
		}
		c10Constants(r, w)
	}
	g := &c10Gen{r: r, variant: "orig"}
	// which text of RestrictChain does the tree under test have?  (decides the model variant only; the oracle is independent)
	{
		probeRec := &Rec{t: t, Stats: map[string]int{}, distinct: map[string]struct{}{}}
		out := ""
		for _, op := range g.witness() {
			out = w.apply(probeRec, op)
		}
		if strings.HasPrefix(out, "ok") {
			g.variant = "fixed"
		}
		r.Extra["restrictchain_variant"] = g.variant
	}
	// recorded histories are replayed against the variant of the tree under test
	revariant := func(h []string) []string {
		out := make([]string, len(h))
		for i, op := range h {
			if f := strings.Fields(op); len(f) > 2 && f[0] == "reset" {
				f[1] = g.variant
				op = strings.Join(f, " ")
			}
			out[i] = op
		}
		return out
	}
	if ops := replayOps(t); ops != nil {
		run(revariant(ops))
		return
	}
	for _, h := range corpusOps("C10") {
		run(revariant(h))
	}
	run(g.witness())
	run(g.witnessRoot())
	run(g.witnessPrune())
	thorough := r.Tier == "thorough"
	// 1. every tree shape with every parent-before-child order, full probing after every step
	maxN := 4
	if thorough {
		maxN = 5
	}
	for n := 1; n <= maxN; n++ {
		arrs := c10ParentArrays(n)
		for ai, pa := range arrs {
			if thorough && n == maxN && ai%16 != r.Shard%16 {
				continue
			}
			order := make([]int, n)
			for i := range order {
				order[i] = i + 1
			}
			run(g.treeHistory(pa, (ai+n)%4, order, 0, false))
			r.Count("tree.exhaustive")
		}
	}
	// 2. larger random trees, random orders (parent-before-child mostly, sometimes not), resubmissions, mutations
	nRand := 25
	if thorough {
		nRand = 150
	}
	if n := envInt("VERIF_N", 0); n > 0 {
		nRand = int(n)
	}
	for i := 0; i < nRand; i++ {
		n := 6 + r.Rng.Intn(14)
		pa := make([]int, n)
		for j := range pa {
			switch r.Rng.Intn(3) {
			case 0:
				pa[j] = j // chain
			case 1:
				pa[j] = r.Rng.Intn(j + 1)
			default:
				pa[j] = c10Max(0, j-r.Rng.Intn(4))
			}
		}
		order := make([]int, 0, n+4)
		for j := 1; j <= n; j++ {
			order = append(order, j)
		}
		if r.Rng.Intn(3) == 0 { // swap two neighbours (child before parent → rejected, then never submitted again or resubmitted)
			k := r.Rng.Intn(n - 1)
			order[k], order[k+1] = order[k+1], order[k]
			order = append(order, order[k])
		}
		for k := r.Rng.Intn(4); k > 0; k-- { // resubmissions
			pos := r.Rng.Intn(len(order))
			order = append(order[:pos+1], append([]int{order[r.Rng.Intn(pos+1)]}, order[pos+1:]...)...)
		}
		run(g.treeHistory(pa, r.Rng.Intn(4), order, 4, true))
		r.Count("tree.random")
	}
	// 3. single-field mutations of valid children, systematically
	{
		gen := g.genesis(500, 1700000000)
		now := uint64(1700000050)
		ops := []string{g.reset(4, 100000000, gen)}
		p := gen
		for k := 0; k < 32; k++ {
			c := g.child(p, 1+uint64(r.Rng.Intn(3)))
			m, name := g.mutate(p, c, now, k)
			ops = append(ops, c10Op("upd", now, m))
			r.Count("mutation." + name)
			if k%4 == 3 {
				ops = append(ops, c10Op("upd", now, c))
				p = c
			}
		}
		run(ops)
	}
	// 4. pruning: short trusting period, forks above and below the prune line
	nPrune := 6
	if thorough {
		nPrune = 40
	}
	for i := 0; i < nPrune; i++ {
		run(g.pruneHistory(15 + r.Rng.Intn(25)))
		r.Count("history.prune")
	}
	// 6. hardening round: minimum-step base fees, boundary classes, two interleaved clients, restarts in the middle
	nLow, nB, nTwo := 6, 2, 6
	if thorough {
		nLow, nB, nTwo = 30, 8, 30
	}
	for i := 0; i < nLow; i++ {
		run(g.lowFeeHistory())
		r.Count("history.lowfee")
		run(g.zeroFeeHistory())
		r.Count("history.zerofee")
	}
	run(g.creationHistory())
	for k := 0; k < 6; k++ {
		run(g.timeBoundaryHistory(k))
	}
	{ // proposals with redundant consensus-state fields; the installed state expires and is pruned
		reps := 1
		if thorough {
			reps = 2
		}
		for i := 0; i < reps; i++ {
			for cls := 0; cls < 5; cls++ {
				run(g.proposalHistory("create", cls, true))
				run(g.proposalHistory("upgrade", cls, cls%2 == i%2))
				run(g.proposalHistory("toggle", cls, true))
			}
		}
	}
	{
		cfgs := c10DiffConfigs()
		if thorough { // every parent class, spread over the shards
			for i, c := range cfgs {
				if i%16 == r.Shard%16 {
					run(g.difficultyGridHistory(c))
				}
			}
		} else { // the classes that matter most + a few random ones
			for _, c := range [][3]uint64{{1, 4, 13286181}, {1, 6, 9899999}, {0, 6, 13286181}, {1, 0, 1}, {1, 7, 9700000}, {0, 3, 9899998}} {
				run(g.difficultyGridHistory(c))
			}
			for i := 0; i < 4; i++ {
				run(g.difficultyGridHistory(cfgs[r.Rng.Intn(len(cfgs))]))
			}
		}
	}
	for i := 0; i < nB; i++ {
		for k := 0; k < 9; k++ {
			run(g.boundaryHistory(k))
		}
	}
	for i := 0; i < nTwo; i++ {
		run(g.twoClientHistory(i%2 == 0))
		r.Count("history.two-clients")
	}
	for i := 0; i < nTwo; i++ { // restarts with side branches, re-submissions and after pruning
		n := 6 + r.Rng.Intn(8)
		pa := make([]int, n)
		order := make([]int, n)
		for j := range pa {
			pa[j] = c10Max(0, j-r.Rng.Intn(4))
			order[j] = j + 1
		}
		run(g.withRestarts(g.treeHistory(pa, r.Rng.Intn(4), order, 3, true), 3))
		run(g.withRestarts(g.pruneHistory(12+r.Rng.Intn(12)), 4))
		r.Count("history.restarts")
	}
	// whole-app restarts (a sample: each needs two app instances)
	nApp := 1
	if thorough {
		nApp = 2
	}
	for i := 0; i < nApp; i++ {
		h := g.twoClientHistory(false)
		k := len(h) * 2 / 3
		h = append(append(append([]string{}, h[:k]...), "restartapp"), h[k:]...)
		run(h)
		ph := g.pruneHistory(14)
		ph = append(append(append([]string{}, ph[:len(ph)-8]...), "restartapp"), ph[len(ph)-8:]...)
		run(ph)
	}
	// 5. chain id 1: recorded main-net headers (ethash verification costs seconds per header)
	if r.Shard == 0 {
		if thorough {
			run(g.mainnetHistory(3, []string{"nonce", "mix", "difficulty", "difficulty-1", "extra", "time"}))
		} else {
			run(g.mainnetHistory(1, []string{"nonce", "difficulty"}))
		}
	}
}

func c10Max(a, b int) int {
	if a > b {
		return a
	}
	return b
}
