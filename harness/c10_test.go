//go:build c10

package verifharness

// C10 — Ethereum light client: rule-abiding headers only; forks never wedge it.
// Drives the real ClientKeeper.UpdateClient → eth ClientState.CheckHeaderAndUpdateState on a client store of a
// full app.  Every update runs in a cache context that is written only on success (a failed message is reverted).
//
// op language (hashes / bytes in hex, numbers decimal):
//   header := parentHash uncleHash coinbase root txHash receiptHash bloom difficulty number gasLimit gasUsed
//             time extra mixDigest nonce baseFee hash pow
//   reset <orig|fixed> <chainId> <trusting> <header>  -> ok <dump>            (CreateClient)
//   upd <now> <header>                                -> ok <dump> | err | panic
//   probe <now> <header>                              -> ok | err | panic     (cache context, discarded)
//   dump := H:<head hash> C:<height=root:time,…> X:<height:hash,…> R:<height:root>height:hash,…>
// `hash` is the keccak/RLP header hash computed with go-ethereum, `pow` the ethash verdict known by construction
// (recorded main-net header unmodified = 1, nonce / mix-digest mutated = 0; irrelevant on chain id 4).
// `orig|fixed` tells the Lean driver which text of RestrictChain the tree under test has (probed at start).

import (
	"bytes"
	"encoding/hex"
	"encoding/json"
	"fmt"
	"math/big"
	"os"
	"sort"
	"strconv"
	"strings"
	"testing"
	"time"

	sdk "github.com/cosmos/cosmos-sdk/types"
	"github.com/ethereum/go-ethereum/common"
	"github.com/ethereum/go-ethereum/consensus/ethash"
	"github.com/ethereum/go-ethereum/consensus/misc"
	ethtypes "github.com/ethereum/go-ethereum/core/types"
	"github.com/ethereum/go-ethereum/params"
	tmproto "github.com/tendermint/tendermint/proto/tendermint/types"

	"github.com/teleport-network/teleport/app"
	xibcethtypes "github.com/teleport-network/teleport/x/xibc/clients/light-clients/eth/types"
	clienttypes "github.com/teleport-network/teleport/x/xibc/core/client/types"
	"github.com/teleport-network/teleport/x/xibc/exported"
)

const c10Chain = "eth"

type c10Hdr struct {
	ParentHash, UncleHash, Coinbase, Root, TxHash, ReceiptHash, Bloom []byte
	Difficulty                                                        *big.Int
	Number, GasLimit, GasUsed, Time                                   uint64
	Extra, MixDigest                                                  []byte
	Nonce                                                             uint64
	BaseFee                                                           *big.Int
	Hash                                                              common.Hash
	Pow                                                               bool
}

func (h *c10Hdr) eth() *ethtypes.Header {
	return &ethtypes.Header{
		ParentHash: common.BytesToHash(h.ParentHash), UncleHash: common.BytesToHash(h.UncleHash), Coinbase: common.BytesToAddress(h.Coinbase),
		Root: common.BytesToHash(h.Root), TxHash: common.BytesToHash(h.TxHash), ReceiptHash: common.BytesToHash(h.ReceiptHash),
		Bloom: ethtypes.BytesToBloom(h.Bloom), Difficulty: new(big.Int).Set(h.Difficulty), Number: new(big.Int).SetUint64(h.Number),
		GasLimit: h.GasLimit, GasUsed: h.GasUsed, Time: h.Time, Extra: h.Extra, MixDigest: common.BytesToHash(h.MixDigest),
		Nonce: ethtypes.EncodeNonce(h.Nonce), BaseFee: new(big.Int).Set(h.BaseFee),
	}
}

func (h *c10Hdr) proto() xibcethtypes.Header {
	return xibcethtypes.Header{
		ParentHash: h.ParentHash, UncleHash: h.UncleHash, Coinbase: h.Coinbase, Root: h.Root, TxHash: h.TxHash, ReceiptHash: h.ReceiptHash,
		Bloom: h.Bloom, Difficulty: h.Difficulty.Bytes(), Height: clienttypes.NewHeight(0, h.Number), GasLimit: h.GasLimit, GasUsed: h.GasUsed,
		Time: h.Time, Extra: h.Extra, MixDigest: h.MixDigest, Nonce: h.Nonce, BaseFee: h.BaseFee.Bytes(),
	}
}

func (h *c10Hdr) seal() { h.Hash = h.eth().Hash() }

func (h *c10Hdr) String() string {
	pow := "0"
	if h.Pow {
		pow = "1"
	}
	return strings.Join([]string{hx(h.ParentHash), hx(h.UncleHash), hx(h.Coinbase), hx(h.Root), hx(h.TxHash), hx(h.ReceiptHash), hx(h.Bloom),
		h.Difficulty.String(), fmt.Sprint(h.Number), fmt.Sprint(h.GasLimit), fmt.Sprint(h.GasUsed), fmt.Sprint(h.Time), hx(h.Extra),
		hx(h.MixDigest), fmt.Sprint(h.Nonce), h.BaseFee.String(), hx(h.Hash[:]), pow}, " ")
}

func c10Parse(f []string) (*c10Hdr, bool) {
	if len(f) != 18 {
		return nil, false
	}
	u := func(s string) uint64 { n, _ := strconv.ParseUint(s, 10, 64); return n }
	b := func(s string) *big.Int { n, _ := new(big.Int).SetString(s, 10); return n }
	h := &c10Hdr{ParentHash: unhx(f[0]), UncleHash: unhx(f[1]), Coinbase: unhx(f[2]), Root: unhx(f[3]), TxHash: unhx(f[4]), ReceiptHash: unhx(f[5]),
		Bloom: unhx(f[6]), Difficulty: b(f[7]), Number: u(f[8]), GasLimit: u(f[9]), GasUsed: u(f[10]), Time: u(f[11]), Extra: unhx(f[12]),
		MixDigest: unhx(f[13]), Nonce: u(f[14]), BaseFee: b(f[15]), Pow: f[17] == "1"}
	if h.Difficulty == nil || h.BaseFee == nil {
		return nil, false
	}
	h.seal()
	if hx(h.Hash[:]) != f[16] {
		return nil, false
	}
	return h, true
}

type c10World struct {
	app      *app.Teleport
	base     sdk.Context
	ctx      sdk.Context
	hist     []string
	chainID  uint64
	trusting uint64
	accepted map[common.Hash]*c10Hdr // every header accepted so far in this history (incl. the initial one)
	lo0      uint64                  // height the client was created at
	head     common.Hash
}

func newC10World() *c10World {
	a := app.Setup(false, nil)
	ctx := a.BaseApp.NewContext(false, tmproto.Header{Height: 1, ChainID: "teleport_9000-1", Time: time.Unix(1700000000, 0)})
	w := &c10World{app: a, base: ctx}
	w.ctx, _ = ctx.CacheContext()
	return w
}

func (w *c10World) store(ctx sdk.Context) sdk.KVStore {
	return w.app.XIBCKeeper.ClientKeeper.ClientStore(ctx, c10Chain)
}

// observation of the real store
type c10Obs struct {
	head    common.Hash
	cons    map[uint64][2]string // height -> root hex, time
	consLo  uint64
	hasCons bool
	hdrs    map[string]bool // "height:hash"
	dump    string
}

func (w *c10World) observe(ctx sdk.Context) c10Obs {
	o := c10Obs{cons: map[uint64][2]string{}, hdrs: map[string]bool{}}
	k := w.app.XIBCKeeper.ClientKeeper
	st := w.store(ctx)
	if cs, ok := k.GetClientState(ctx, c10Chain); ok {
		if e, ok := cs.(*xibcethtypes.ClientState); ok {
			o.head = e.Header.Hash()
		}
	}
	var cons []string
	xibcethtypes.IterateConsensusStateAscending(st, func(h exported.Height) bool {
		c, ok := k.GetClientConsensusState(ctx, c10Chain, h)
		if !ok {
			return false
		}
		e, ok := c.(*xibcethtypes.ConsensusState)
		if !ok {
			return false
		}
		root := hex.EncodeToString(common.BytesToHash(e.Root).Bytes())
		if !o.hasCons {
			o.hasCons, o.consLo = true, h.GetRevisionHeight()
		}
		o.cons[h.GetRevisionHeight()] = [2]string{root, fmt.Sprint(e.Timestamp)}
		cons = append(cons, fmt.Sprintf("%d=%s:%d", h.GetRevisionHeight(), root, e.Timestamp))
		return false
	})
	type kv struct {
		n uint64
		h string
		s string
	}
	parseKey := func(key []byte, prefix string) (uint64, string) {
		s := string(key[len(prefix)+1:])
		n, _ := strconv.ParseUint(s[66:], 10, 64)
		return n, s[2:66]
	}
	var xs, rs []kv
	xibcethtypes.IteratorEthMetaDataByPrefix(st, xibcethtypes.KeyIndexEthHeaderPrefix, func(key, _ []byte) bool {
		n, h := parseKey(key, xibcethtypes.KeyIndexEthHeaderPrefix)
		xs = append(xs, kv{n, h, fmt.Sprintf("%d:%s", n, h)})
		o.hdrs[fmt.Sprintf("%d:%s", n, h)] = true
		return false
	})
	xibcethtypes.IteratorEthMetaDataByPrefix(st, xibcethtypes.KeyMainRootPrefix, func(key, val []byte) bool {
		n, h := parseKey(key, xibcethtypes.KeyMainRootPrefix)
		vn, vh := parseKey(val, xibcethtypes.KeyIndexEthHeaderPrefix)
		rs = append(rs, kv{n, h, fmt.Sprintf("%d:%s>%d:%s", n, h, vn, vh)})
		return false
	})
	less := func(a []kv) func(i, j int) bool {
		return func(i, j int) bool { return a[i].n < a[j].n || (a[i].n == a[j].n && a[i].h < a[j].h) }
	}
	sort.Slice(xs, less(xs))
	sort.Slice(rs, less(rs))
	join := func(a []kv) string {
		if len(a) == 0 {
			return "-"
		}
		p := make([]string, len(a))
		for i := range a {
			p[i] = a[i].s
		}
		return strings.Join(p, ",")
	}
	cd := "-"
	if len(cons) > 0 {
		cd = strings.Join(cons, ",")
	}
	o.dump = "H:" + hex.EncodeToString(o.head[:]) + " C:" + cd + " X:" + join(xs) + " R:" + join(rs)
	return o
}

var c10London = &params.ChainConfig{ChainID: big.NewInt(4), LondonBlock: big.NewInt(0)}

// rules of the property, evaluated with go-ethereum's own functions: "" = child is rule-abiding w.r.t. parent
func (w *c10World) ruleBroken(p, h *c10Hdr, now uint64) string {
	if h.Number != p.Number+1 {
		return "number"
	}
	if !(p.Time < h.Time) {
		return "time-parent"
	}
	if !(h.Time <= now+15) {
		return "time-future"
	}
	if h.GasLimit > 0x7fffffffffffffff || h.GasUsed > h.GasLimit {
		return "gas-basic"
	}
	d := new(big.Int).Sub(new(big.Int).SetUint64(p.GasLimit), new(big.Int).SetUint64(h.GasLimit))
	d.Abs(d)
	if d.Cmp(new(big.Int).SetUint64(p.GasLimit/1024)) >= 0 || h.GasLimit < 5000 {
		return "gas-limit"
	}
	if p.GasLimit/2 == 0 && p.GasUsed != 0 {
		return "basefee-undefined"
	}
	if misc.CalcBaseFee(c10London, p.eth()).Cmp(h.BaseFee) != 0 {
		return "base-fee"
	}
	if new(big.Int).And(h.Difficulty, new(big.Int).SetUint64(^uint64(0))).Sign() == 0 {
		return "difficulty-zero"
	}
	if w.chainID != 4 {
		if ethash.CalcDifficulty(params.MainnetChainConfig, h.Time, p.eth()).Cmp(h.Difficulty) != 0 {
			return "difficulty"
		}
		if len(h.Extra) > 32 {
			return "extra"
		}
		if !h.Pow {
			return "pow"
		}
	}
	return ""
}

// height of the highest common ancestor of a and the head (bookkeeping), -1 if unknown
func (w *c10World) forkHeight(a *c10Hdr) int64 {
	onMain := map[common.Hash]bool{}
	for x := w.accepted[w.head]; x != nil; x = w.accepted[common.BytesToHash(x.ParentHash)] {
		onMain[x.Hash] = true
	}
	for x := a; x != nil; x = w.accepted[common.BytesToHash(x.ParentHash)] {
		if onMain[x.Hash] {
			return int64(x.Number)
		}
	}
	return -1
}

func (w *c10World) histCopy() []string { return append([]string{}, w.hist...) }

// submit runs UpdateClient in a cache context; commit only on success and if asked
func (w *c10World) submit(h *c10Hdr, now uint64, commit bool) (string, string) {
	cctx, write := w.ctx.CacheContext()
	cctx = cctx.WithBlockTime(time.Unix(int64(now), 0))
	p := h.proto()
	var err error
	pan, msg := safely(func() { err = w.app.XIBCKeeper.ClientKeeper.UpdateClient(cctx, c10Chain, &p) })
	if pan {
		return "panic", msg
	}
	if err != nil {
		return "err", err.Error()
	}
	if commit {
		write()
	}
	return "ok", ""
}

func c10ErrClass(msg string) string {
	switch {
	case strings.Contains(msg, "in RestrictChain"):
		return "restrictchain"
	case strings.Contains(msg, "status"):
		return "status"
	case strings.Contains(msg, "does not exist for hash"):
		return "no-parent"
	default:
		return "other"
	}
}

func (w *c10World) apply(r *Rec, op string) string {
	f := strings.Fields(op)
	w.hist = append(w.hist, op)
	switch f[0] {
	case "reset":
		w.ctx, _ = w.base.CacheContext()
		w.hist = []string{op}
		w.accepted = map[common.Hash]*c10Hdr{}
		w.chainID, _ = strconv.ParseUint(f[2], 10, 64)
		w.trusting, _ = strconv.ParseUint(f[3], 10, 64)
		h, ok := c10Parse(f[4:])
		if !ok {
			r.t.Fatalf("bad header in %q", op)
		}
		p := h.proto()
		cs := &xibcethtypes.ClientState{Header: p, ChainId: w.chainID, ContractAddress: []byte("0x00"), TrustingPeriod: w.trusting, TimeDelay: 0, BlockDelay: 1}
		cons := &xibcethtypes.ConsensusState{Timestamp: h.Time, Height: p.Height, Root: h.Root}
		if err := w.app.XIBCKeeper.ClientKeeper.CreateClient(w.ctx, c10Chain, cs, cons); err != nil {
			r.t.Fatalf("CreateClient: %v", err)
		}
		w.accepted[h.Hash] = h
		w.head = h.Hash
		w.lo0 = h.Number
		return "ok " + w.observe(w.ctx).dump
	case "upd", "probe":
		now, _ := strconv.ParseUint(f[1], 10, 64)
		h, ok := c10Parse(f[2:])
		if !ok {
			r.t.Fatalf("bad header in %q", op)
		}
		if ch := func() common.Hash { p := h.proto(); return p.Hash() }(); ch != h.Hash {
			r.Find(Finding{Sig: "C10:hash-differs-from-go-ethereum", What: "client header hash differs from go-ethereum's", Ops: w.histCopy(), Obs: ch.Hex(), Req: h.Hash.Hex()})
		}
		before := w.observe(w.ctx)
		// ---- what the property demands, from the harness' own bookkeeping ---------------------------
		parent := w.accepted[common.BytesToHash(h.ParentHash)]
		stored := parent != nil && before.hdrs[fmt.Sprintf("%d:%s", parent.Number, hex.EncodeToString(parent.Hash[:]))]
		broken := "no-parent"
		if parent != nil {
			broken = w.ruleBroken(parent, h, now)
		}
		headH := w.accepted[w.head]
		active := headH != nil && before.cons[headH.Number][0] != "" && headH.Time+w.trusting >= now
		live := false
		fork := int64(-1)
		if stored {
			fork = w.forkHeight(parent)
			// the walk of RestrictChain needs the children of the fork point on both branches; pruning removes the
			// main-branch header at the lowest kept consensus state when that state has expired at this update
			line := int64(before.consLo)
			if lo, ok := before.cons[before.consLo]; ok {
				if t, _ := strconv.ParseUint(lo[1], 10, 64); t+w.trusting < now {
					line++
				}
			}
			live = before.hasCons && fork >= 0 && fork+1 >= line
			if live && fork+1 == line && broken == "" {
				r.Count("valid.fork-exactly-at-prune-line")
			}
		}
		must := stored && broken == "" && active && live
		belowLine := stored && broken == "" && active && !live
		res, msg := w.submit(h, now, f[0] == "upd")
		kind := "extension"
		if parent != nil && parent.Hash != w.head {
			kind = "reorg"
			if h.Number <= headH.Number {
				kind = "reorg-lower"
			}
			if _, dup := w.accepted[h.Hash]; dup {
				kind = "resubmit"
			}
		}
		r.Count(f[0] + "." + res)
		if must {
			r.Count("valid." + kind)
			if before.consLo > w.lo0 {
				r.Count("valid-after-pruning." + kind)
			}
		} else if stored && broken == "" {
			r.Count("valid-not-demanded." + map[bool]string{true: "expired", false: "below-prune-line"}[!active])
		} else {
			if broken == "" {
				broken = "parent-not-stored"
			}
			r.Count("invalid." + broken)
		}
		if res == "panic" {
			r.Find(Finding{Sig: "C10:update-panic", What: "UpdateClient panics: " + msg, Ops: w.histCopy(), Obs: "panic", Req: "ok or error"})
		}
		if must && res != "ok" {
			sig := "C10:valid-child-rejected:" + kind + ":" + c10ErrClass(msg)
			if kind != "extension" && c10ErrClass(msg) == "restrictchain" {
				sig = "C10:restrictchain-reorg-rejected"
			}
			r.Find(Finding{Sig: sig, What: fmt.Sprintf("valid child (height %d) of the stored header %x (fork height %d, lowest consensus state %d) is rejected: %s", h.Number, parent.Hash[:4], fork, before.consLo, msg),
				Ops: w.histCopy(), Obs: res + ": " + msg, Req: "accepted (never_wedged)"})
		}
		if belowLine {
			if res != "ok" {
				// KNOWN FINDING (docs/C10.md): the header is still in the index (side-branch entries are never pruned) but the
				// head's branch has been pruned past the fork point, so RestrictChain cannot find the common parent
				r.Count("below-line.rejected")
				r.Find(Finding{Sig: "C10:valid-child-rejected:fork-below-prune-line", What: fmt.Sprintf("valid child (height %d) of the still stored side-branch header %x is rejected: its branch forks from the head's ancestry at height %d, below the prune line (lowest consensus state %d): %s", h.Number, parent.Hash[:4], fork, before.consLo, msg),
					Ops: w.histCopy(), Obs: res + ": " + msg, Req: "accepted (never_wedged, as literally stated)"})
			} else {
				r.Count("below-line.accepted")
			}
		}
		if res == "ok" && (!stored || broken != "") {
			r.Find(Finding{Sig: "C10:accepted-invalid:" + broken, What: "accepted header violates rule " + broken + " (or its parent is not stored)", Ops: w.histCopy(), Obs: "accepted", Req: "rejected (accept_sound)"})
		}
		if f[0] == "probe" || res != "ok" {
			if f[0] == "upd" {
				if after := w.observe(w.ctx); after.dump != before.dump {
					r.Find(Finding{Sig: "C10:failed-update-changed-state", What: "rejected update changed the store", Ops: w.histCopy(), Obs: after.dump, Req: before.dump})
				}
			}
			return res
		}
		w.accepted[h.Hash] = h
		w.head = h.Hash
		after := w.observe(w.ctx)
		if after.head != h.Hash {
			r.Find(Finding{Sig: "C10:head-not-updated", What: "accepted header did not become the head", Ops: w.histCopy(), Obs: after.head.Hex(), Req: h.Hash.Hex()})
		}
		// ancestry_roots: every consensus state kept for a height on the head's ancestry is that ancestor's root
		n := 0
		for a := h; a != nil; a = w.accepted[common.BytesToHash(a.ParentHash)] {
			c, ok := after.cons[a.Number]
			if !ok {
				continue
			}
			n++
			if c[0] == hex.EncodeToString(common.BytesToHash(a.Root).Bytes()) && c[1] != fmt.Sprint(a.Time) {
				r.Count("ancestry.root-equal-time-differs") // not demanded by the property (a twin with the same state root)
			}
			if c[0] != hex.EncodeToString(common.BytesToHash(a.Root).Bytes()) {
				r.Find(Finding{Sig: "C10:ancestry-root-mismatch", What: fmt.Sprintf("consensus state at height %d is not the state root of the head's ancestor %x", a.Number, a.Hash[:4]),
					Ops: w.histCopy(), Obs: c[0] + ":" + c[1], Req: hex.EncodeToString(a.Root) + ":" + fmt.Sprint(a.Time)})
			}
		}
		if _, ok := after.cons[h.Number]; !ok {
			r.Find(Finding{Sig: "C10:head-consensus-state-missing", What: "no consensus state at the head's height", Ops: w.histCopy(), Obs: "missing", Req: "present"})
		}
		r.Count("accepted." + kind)
		if before.hasCons && after.hasCons && after.consLo > before.consLo {
			r.Count("prune.deleted")
		}
		if n > 1 {
			r.Count("ancestry.checked")
		}
		return "ok " + after.dump
	}
	r.t.Fatalf("bad op %q", op)
	return ""
}

// ---- generator ---------------------------------------------------------------------------------------------

type c10Gen struct {
	r       *Rec
	nextID  uint64
	variant string
}

func (g *c10Gen) rnd32() []byte {
	b := make([]byte, 32)
	g.r.Rng.Read(b)
	return b
}

func (g *c10Gen) genesis(number, t uint64) *c10Hdr {
	h := &c10Hdr{ParentHash: g.rnd32(), UncleHash: ethtypes.EmptyUncleHash[:], Coinbase: make([]byte, 20), Root: g.rnd32(), TxHash: ethtypes.EmptyRootHash[:],
		ReceiptHash: ethtypes.EmptyRootHash[:], Bloom: nil, Difficulty: big.NewInt(1), Number: number, GasLimit: 30000000, GasUsed: 15000000,
		Time: t, Extra: []byte("verif"), MixDigest: make([]byte, 32), Nonce: 0, BaseFee: big.NewInt(1000000000)}
	switch g.r.Rng.Intn(4) {
	case 0:
		h.GasLimit, h.GasUsed = 5000+uint64(g.r.Rng.Intn(3000)), uint64(g.r.Rng.Intn(5000))
	case 1:
		h.GasUsed = uint64(g.r.Rng.Int63n(30000001))
		h.BaseFee = big.NewInt(int64(g.r.Rng.Intn(20)))
	}
	h.seal()
	return h
}

// child builds a rule-abiding child of p (chain id 4: difficulty free)
func (g *c10Gen) child(p *c10Hdr, dt uint64) *c10Hdr {
	rng := g.r.Rng
	g.nextID++
	h := &c10Hdr{ParentHash: p.Hash[:], UncleHash: ethtypes.EmptyUncleHash[:], Coinbase: make([]byte, 20), Root: g.rnd32(), TxHash: ethtypes.EmptyRootHash[:],
		ReceiptHash: ethtypes.EmptyRootHash[:], Difficulty: big.NewInt(int64(1 + rng.Intn(2))), Number: p.Number + 1, Time: p.Time + dt,
		Extra: []byte(fmt.Sprintf("n%d", g.nextID)), MixDigest: make([]byte, 32), Nonce: g.nextID}
	lim := p.GasLimit / 1024
	h.GasLimit = p.GasLimit
	if lim > 1 {
		switch rng.Intn(5) {
		case 0:
			h.GasLimit = p.GasLimit + lim - 1 // boundary (valid)
		case 1:
			h.GasLimit = p.GasLimit - (lim - 1)
		case 2:
			h.GasLimit = p.GasLimit + uint64(rng.Int63n(int64(lim)))
		}
	}
	if h.GasLimit < 5000 {
		h.GasLimit = p.GasLimit
	}
	switch rng.Intn(5) {
	case 0:
		h.GasUsed = h.GasLimit / 2
	case 1:
		h.GasUsed = h.GasLimit
	case 2:
		h.GasUsed = 0
	default:
		h.GasUsed = uint64(rng.Int63n(int64(h.GasLimit) + 1))
	}
	if rng.Intn(8) == 0 {
		h.UncleHash = g.rnd32()
	}
	h.BaseFee = misc.CalcBaseFee(c10London, p.eth())
	h.seal()
	return h
}

func (g *c10Gen) reset(chain, trusting uint64, h *c10Hdr) string {
	return fmt.Sprintf("reset %s %d %d %s", g.variant, chain, trusting, h)
}

func c10Op(kind string, now uint64, h *c10Hdr) string { return fmt.Sprintf("%s %d %s", kind, now, h) }

// mutations of a valid child h of p; each returns a re-sealed header
func (g *c10Gen) mutate(p, h *c10Hdr, now uint64, k int) (*c10Hdr, string) {
	m := *h
	m.Difficulty, m.BaseFee = new(big.Int).Set(h.Difficulty), new(big.Int).Set(h.BaseFee)
	lim := p.GasLimit / 1024
	name := ""
	switch k % 16 {
	case 0:
		m.Time, name = p.Time, "time=parent"
	case 1:
		m.Time, name = p.Time-1, "time<parent"
	case 2:
		m.Time, name = now+16, "time=now+16"
	case 3:
		m.Time, name = now+15, "time=now+15" // valid if > parent
	case 4:
		m.GasLimit, name = p.GasLimit+lim, "gaslimit+bound"
	case 5:
		m.GasLimit, name = p.GasLimit-lim, "gaslimit-bound"
	case 6:
		m.GasLimit, name = 4999, "gaslimit<5000"
	case 7:
		m.BaseFee.Add(m.BaseFee, big.NewInt(1))
		name = "basefee+1"
	case 8:
		if m.BaseFee.Sign() > 0 {
			m.BaseFee.Sub(m.BaseFee, big.NewInt(1))
		} else {
			m.BaseFee.SetInt64(7)
		}
		name = "basefee-1"
	case 9:
		m.ParentHash, name = g.rnd32(), "parenthash-random"
	case 10:
		m.Number, name = h.Number+1, "number+1"
	case 11:
		m.Number, name = h.Number-1, "number-1"
	case 12:
		m.GasUsed, name = m.GasLimit+1, "gasused>limit"
	case 13:
		m.Difficulty, name = big.NewInt(0), "difficulty=0"
	case 14:
		m.Difficulty, name = new(big.Int).Lsh(big.NewInt(1), 64), "difficulty=2^64"
	case 15:
		m.ParentHash, name = p.ParentHash, "parenthash=grandparent"
	}
	if m.GasUsed > m.GasLimit && k%16 != 12 {
		m.GasUsed = m.GasLimit
	}
	m.seal()
	return &m, name
}

type c10Tree struct {
	nodes  []*c10Hdr
	parent []int
}

// probes: a fresh valid child of every header submitted so far
func (g *c10Gen) probes(t *c10Tree, upto []int, now uint64, max int) []string {
	var ops []string
	idx := append([]int{0}, upto...)
	if max > 0 && len(idx) > max {
		g.r.Rng.Shuffle(len(idx), func(i, j int) { idx[i], idx[j] = idx[j], idx[i] })
		idx = idx[:max]
	}
	for _, i := range idx {
		ops = append(ops, c10Op("probe", now, g.child(t.nodes[i], 1+uint64(g.r.Rng.Intn(3)))))
	}
	return ops
}

// rootMode: 0 distinct, 1 siblings share, 2 everything at a height shares, 3 random pairs at equal height share (cousins)
func (g *c10Gen) tree(gen *c10Hdr, parents []int, rootMode int) *c10Tree {
	t := &c10Tree{nodes: []*c10Hdr{gen}, parent: []int{-1}}
	perHeight := map[uint64][]byte{}
	perParent := map[int][]byte{}
	for i, p := range parents {
		h := g.child(t.nodes[p], 1+uint64(g.r.Rng.Intn(4)))
		switch rootMode {
		case 1:
			if rt, ok := perParent[p]; ok && g.r.Rng.Intn(2) == 0 {
				h.Root = rt
			}
			perParent[p] = h.Root
		case 2:
			if rt, ok := perHeight[h.Number]; ok {
				h.Root = rt
			}
			perHeight[h.Number] = h.Root
		case 3:
			if rt, ok := perHeight[h.Number]; ok && g.r.Rng.Intn(2) == 0 {
				h.Root = rt
			}
			perHeight[h.Number] = h.Root
		}
		h.seal()
		t.nodes = append(t.nodes, h)
		t.parent = append(t.parent, p)
		_ = i
	}
	return t
}

// all parent arrays p[i] < i+1 … (every tree shape with every parent-before-child order), branching ≤ 3
func c10ParentArrays(n int) [][]int {
	var res [][]int
	var rec func(cur []int)
	rec = func(cur []int) {
		if len(cur) == n {
			res = append(res, append([]int{}, cur...))
			return
		}
		for p := 0; p <= len(cur); p++ {
			c := 0
			for _, q := range cur {
				if q == p {
					c++
				}
			}
			if c < 3 {
				rec(append(cur, p))
			}
		}
	}
	rec(nil)
	return res
}

func (g *c10Gen) treeHistory(parents []int, rootMode int, order []int, probeMax int, withMut bool) []string {
	gen := g.genesis(uint64(10+g.r.Rng.Intn(100)), 1700000000)
	t := g.tree(gen, parents, rootMode)
	var maxT uint64
	for _, n := range t.nodes {
		if n.Time > maxT {
			maxT = n.Time
		}
	}
	now := maxT + 10
	ops := []string{g.reset(4, 100000000, gen)}
	var done []int
	for _, i := range order {
		ops = append(ops, c10Op("upd", now, t.nodes[i]))
		done = append(done, i)
		if withMut && g.r.Rng.Intn(3) == 0 {
			p := t.nodes[done[g.r.Rng.Intn(len(done))]]
			c := g.child(p, 1)
			m, _ := g.mutate(p, c, now, g.r.Rng.Intn(16))
			kind := "probe"
			if g.r.Rng.Intn(3) == 0 {
				kind = "upd"
			}
			ops = append(ops, c10Op(kind, now, m))
		}
		ops = append(ops, g.probes(t, done, now, probeMax)...)
	}
	return ops
}

// a long main chain with a short trusting period (pruning), forks above and below the prune line
func (g *c10Gen) pruneHistory(length int) []string {
	rng := g.r.Rng
	gen := g.genesis(uint64(1+rng.Intn(50)), 1700000000)
	trusting := uint64(40 + rng.Intn(40))
	ops := []string{g.reset(4, trusting, gen)}
	all := []*c10Hdr{gen}
	tip := gen
	for i := 0; i < length; i++ {
		var h *c10Hdr
		switch x := rng.Intn(10); {
		case x < 6: // extend the tip
			h = g.child(tip, 8+uint64(rng.Intn(6)))
			tip = h
		case x < 8: // fork near the tip
			k := len(all) - 1 - rng.Intn(c10Min(4, len(all)))
			h = g.child(all[k], 8+uint64(rng.Intn(6)))
			if rng.Intn(2) == 0 {
				h.Root = all[c10Min(k+1, len(all)-1)].Root
				h.seal()
			}
		default: // fork deep (probably below the prune line)
			h = g.child(all[rng.Intn(len(all))], 8+uint64(rng.Intn(6)))
		}
		all = append(all, h)
		now := tip.Time + uint64(rng.Intn(10))
		if h.Time > now+15 {
			now = h.Time
		}
		ops = append(ops, c10Op("upd", now, h))
		for j := 0; j < 3; j++ {
			ops = append(ops, c10Op("probe", now, g.child(all[rng.Intn(len(all))], 1+uint64(rng.Intn(3)))))
		}
		ops = append(ops, c10Op("probe", now, g.child(all[len(all)-1], 1)))
	}
	return ops
}

func c10Min(a, b int) int {
	if a < b {
		return a
	}
	return b
}

// the witness of F12: G <- A1, G <- B1 (head B1), then A2 child of A1
func (g *c10Gen) witness() []string {
	gen := g.genesis(100, 1700000000)
	a1 := g.child(gen, 1)
	b1 := g.child(gen, 2)
	a2 := g.child(a1, 3)
	now := uint64(1700000100)
	return []string{g.reset(4, 100000000, gen), c10Op("upd", now, a1), c10Op("upd", now, b1), c10Op("upd", now, a2)}
}

// cousins with equal state roots: G <- A1 <- A2 <- A3 (head), G <- B1, then B2 child of B1 with A2's state root
func (g *c10Gen) witnessRoot() []string {
	gen := g.genesis(200, 1700000000)
	a1 := g.child(gen, 1)
	b1 := g.child(gen, 2)
	a2 := g.child(a1, 1)
	a3 := g.child(a2, 1)
	b2 := g.child(b1, 1)
	b2.Root = a2.Root
	b2.seal()
	now := uint64(1700000100)
	return []string{g.reset(4, 100000000, gen), c10Op("upd", now, a1), c10Op("upd", now, b1), c10Op("upd", now, a1), c10Op("upd", now, a2),
		c10Op("upd", now, a3), c10Op("upd", now, b2), c10Op("probe", now, g.child(b2, 1)), c10Op("probe", now, g.child(a3, 1))}
}

// fork below the prune line: G <- B1 (side, never pruned), G <- A1 <- A2 <- A3 <- A4; G and A1 get pruned; then B2 child of B1
func (g *c10Gen) witnessPrune() []string {
	t0 := uint64(1700000000)
	gen := g.genesis(300, t0)
	b1 := g.child(gen, 12)
	a1 := g.child(gen, 10)
	a2 := g.child(a1, 10)
	a3 := g.child(a2, 10)
	a4 := g.child(a3, 10)
	a5 := g.child(a4, 10)
	b2 := g.child(b1, 40)
	return []string{g.reset(4, 50, gen), c10Op("upd", t0+15, b1), c10Op("upd", t0+15, a1), c10Op("upd", t0+25, a2), c10Op("upd", t0+35, a3),
		c10Op("upd", t0+55, a4), // prunes height 300 (G)
		c10Op("upd", t0+65, a5), // prunes height 301 (A1); B1 stays in the index
		c10Op("probe", t0+65, b2), c10Op("probe", t0+65, g.child(a5, 5)), c10Op("probe", t0+65, g.child(a3, 35))}
}

// recorded main-net headers (chain id 1): PoW and difficulty mutations
func (g *c10Gen) mainnetHistory(nValid int, muts []string) []string {
	bz, err := os.ReadFile(c10RepoDir() + "/x/xibc/clients/light-clients/eth/types/testdata/update_headers.json")
	if err != nil {
		return nil
	}
	var hs []*xibcethtypes.EthHeader
	if json.Unmarshal(bz, &hs) != nil || len(hs) < 3 {
		return nil
	}
	conv := func(e *xibcethtypes.EthHeader) *c10Hdr {
		h := &c10Hdr{ParentHash: e.ParentHash[:], UncleHash: e.UncleHash[:], Coinbase: e.Coinbase[:], Root: e.Root[:], TxHash: e.TxHash[:], ReceiptHash: e.ReceiptHash[:],
			Bloom: e.Bloom[:], Difficulty: e.Difficulty, Number: e.Number.Uint64(), GasLimit: e.GasLimit, GasUsed: e.GasUsed, Time: e.Time, Extra: e.Extra,
			MixDigest: e.MixDigest[:], Nonce: e.Nonce.Uint64(), BaseFee: e.BaseFee, Pow: true}
		h.seal()
		return h
	}
	first := conv(hs[0])
	ops := []string{g.reset(1, 99999999, first)}
	now := conv(hs[len(hs)-1]).Time + 100
	next := conv(hs[1])
	for _, m := range muts {
		x := *next
		x.Difficulty = new(big.Int).Set(next.Difficulty)
		switch m {
		case "nonce":
			x.Nonce++
			x.Pow = false
		case "mix":
			x.MixDigest = append([]byte{}, next.MixDigest...)
			x.MixDigest[7] ^= 1
			x.Pow = false
		case "difficulty":
			x.Difficulty.Add(x.Difficulty, big.NewInt(1))
		case "difficulty-1":
			x.Difficulty.Sub(x.Difficulty, big.NewInt(1))
		case "extra":
			x.Extra = bytes.Repeat([]byte{1}, 33)
			x.Pow = false
		case "time":
			x.Time++ // changes expected difficulty only when crossing a 9 s bucket; PoW seal hash changes anyway
			x.Pow = false
		}
		x.seal()
		ops = append(ops, c10Op("upd", now, &x))
	}
	for i := 1; i <= nValid && i < len(hs); i++ {
		ops = append(ops, c10Op("upd", now, conv(hs[i])))
	}
	return ops
}

func c10RepoDir() string {
	if d := os.Getenv("VERIF_REPO"); d != "" {
		return d
	}
	return "/repo"
}

func TestC10(t *testing.T) {
	r := NewRec(t, "C10")
	defer r.Close()
	w := newC10World()
	run := func(h []string) {
		for _, op := range h {
			out := w.apply(r, op)
			r.Op(op, out)
			if strings.HasPrefix(op, "upd") && strings.HasPrefix(out, "ok") {
				r.Nontrivial(out)
			}
		}
	}
	g := &c10Gen{r: r, variant: "orig"}
	// which text of RestrictChain does the tree under test have?  (decides the model variant only; the oracle is independent)
	{
		probeRec := &Rec{t: t, Stats: map[string]int{}, distinct: map[string]struct{}{}}
		out := ""
		for _, op := range g.witness() {
			out = w.apply(probeRec, op)
		}
		if strings.HasPrefix(out, "ok") {
			g.variant = "fixed"
		}
		r.Extra["restrictchain_variant"] = g.variant
	}
	// recorded histories are replayed against the variant of the tree under test
	revariant := func(h []string) []string {
		out := make([]string, len(h))
		for i, op := range h {
			if f := strings.Fields(op); len(f) > 2 && f[0] == "reset" {
				f[1] = g.variant
				op = strings.Join(f, " ")
			}
			out[i] = op
		}
		return out
	}
	if ops := replayOps(t); ops != nil {
		run(revariant(ops))
		return
	}
	for _, h := range corpusOps("C10") {
		run(revariant(h))
	}
	run(g.witness())
	run(g.witnessRoot())
	run(g.witnessPrune())
	thorough := r.Tier == "thorough"
	// 1. every tree shape with every parent-before-child order, full probing after every step
	maxN := 4
	if thorough {
		maxN = 5
	}
	for n := 1; n <= maxN; n++ {
		arrs := c10ParentArrays(n)
		for ai, pa := range arrs {
			if thorough && n == maxN && ai%16 != r.Shard%16 {
				continue
			}
			order := make([]int, n)
			for i := range order {
				order[i] = i + 1
			}
			run(g.treeHistory(pa, (ai+n)%4, order, 0, false))
			r.Count("tree.exhaustive")
		}
	}
	// 2. larger random trees, random orders (parent-before-child mostly, sometimes not), resubmissions, mutations
	nRand := 25
	if thorough {
		nRand = 150
	}
	if n := envInt("VERIF_N", 0); n > 0 {
		nRand = int(n)
	}
	for i := 0; i < nRand; i++ {
		n := 6 + r.Rng.Intn(14)
		pa := make([]int, n)
		for j := range pa {
			switch r.Rng.Intn(3) {
			case 0:
				pa[j] = j // chain
			case 1:
				pa[j] = r.Rng.Intn(j + 1)
			default:
				pa[j] = c10Max(0, j-r.Rng.Intn(4))
			}
		}
		order := make([]int, 0, n+4)
		for j := 1; j <= n; j++ {
			order = append(order, j)
		}
		if r.Rng.Intn(3) == 0 { // swap two neighbours (child before parent → rejected, then never submitted again or resubmitted)
			k := r.Rng.Intn(n - 1)
			order[k], order[k+1] = order[k+1], order[k]
			order = append(order, order[k])
		}
		for k := r.Rng.Intn(4); k > 0; k-- { // resubmissions
			pos := r.Rng.Intn(len(order))
			order = append(order[:pos+1], append([]int{order[r.Rng.Intn(pos+1)]}, order[pos+1:]...)...)
		}
		run(g.treeHistory(pa, r.Rng.Intn(4), order, 4, true))
		r.Count("tree.random")
	}
	// 3. single-field mutations of valid children, systematically
	{
		gen := g.genesis(500, 1700000000)
		now := uint64(1700000050)
		ops := []string{g.reset(4, 100000000, gen)}
		p := gen
		for k := 0; k < 32; k++ {
			c := g.child(p, 1+uint64(r.Rng.Intn(3)))
			m, name := g.mutate(p, c, now, k)
			ops = append(ops, c10Op("upd", now, m))
			r.Count("mutation." + name)
			if k%4 == 3 {
				ops = append(ops, c10Op("upd", now, c))
				p = c
			}
		}
		run(ops)
	}
	// 4. pruning: short trusting period, forks above and below the prune line
	nPrune := 6
	if thorough {
		nPrune = 40
	}
	for i := 0; i < nPrune; i++ {
		run(g.pruneHistory(15 + r.Rng.Intn(25)))
		r.Count("history.prune")
	}
	// 5. chain id 1: recorded main-net headers (ethash verification costs seconds per header)
	if r.Shard == 0 {
		if thorough {
			run(g.mainnetHistory(3, []string{"nonce", "mix", "difficulty", "difficulty-1", "extra", "time"}))
		} else {
			run(g.mainnetHistory(1, []string{"nonce", "difficulty"}))
		}
	}
}

func c10Max(a, b int) int {
	if a > b {
		return a
	}
	return b
}
