//go:build c03

package verifharness

// C03 — restarts, discarded executions and planted counters in the three-chain world.
//
//   restart <chain>      the xibc module of that chain goes through what a restart from an exported genesis does to it:
//                        ExportGenesis -> JSON through the app codec -> the module's own Validate -> every key of the xibc
//                        store deleted -> InitGenesis (EVM / bank / account state stays).
//   restartapp <chain>   the whole application: commit -> app.ExportAppStateAndValidators -> a fresh app.NewTeleport on a new
//                        memdb -> InitChain(exported state) -> Commit -> BeginBlock; the world goes on with the new app (the
//                        other chains' light clients of it are simply updated with its next headers).
//   simrecv / simack     the very transaction the following recv / ack delivers, run through BaseApp.Simulate (ante handler,
//                        ValidateBasic, msg server) on a context that is dropped.
//   plant <chain> <dst> <n>   the next send sequence of the path chain->dst is set to n (keeper store and packet contract,
//                        the two writes Keeper.SendPacket does), n above the current value.
//
// In the model all of restart / restartapp / sim* are the identity; `plant` only moves the counter. The oracle compares the
// canonical view and a digest of everything the value flow depends on (packet state of the xibc store; storage, code and
// balances of the system contracts and of every token) before and after, and evaluates the conservation equations around
// the chain afterwards.

import (
	"crypto/sha256"
	"encoding/hex"
	"fmt"
	"math/big"
	"sort"
	"strings"

	"github.com/cosmos/cosmos-sdk/simapp"
	"github.com/cosmos/cosmos-sdk/simapp/helpers"
	sdk "github.com/cosmos/cosmos-sdk/types"
	"github.com/ethereum/go-ethereum/common"
	"github.com/ethereum/go-ethereum/crypto"
	abci "github.com/tendermint/tendermint/abci/types"
	"github.com/tendermint/tendermint/libs/log"
	tmproto "github.com/tendermint/tendermint/proto/tendermint/types"
	dbm "github.com/tendermint/tm-db"
	"github.com/tharsis/ethermint/encoding"

	"github.com/teleport-network/teleport/app"
	"github.com/teleport-network/teleport/syscontracts"
	agentcontract "github.com/teleport-network/teleport/syscontracts/xibc_agent"
	endpointcontract "github.com/teleport-network/teleport/syscontracts/xibc_endpoint"
	packetcontract "github.com/teleport-network/teleport/syscontracts/xibc_packet"
	"github.com/teleport-network/teleport/x/xibc"
	"github.com/teleport-network/teleport/x/xibc/core/host"
	xibctypes "github.com/teleport-network/teleport/x/xibc/types"
)

func (w *c03World) storeDigest(i int, name string, prefixes ...string) string {
	ctx := w.ch[i].GetContext()
	hsh := sha256.New()
	it := ctx.KVStore(w.ch[i].App.GetKey(name)).Iterator(nil, nil)
	defer it.Close()
	n := 0
	for ; it.Valid(); it.Next() {
		k := it.Key()
		ok := len(prefixes) == 0
		for _, p := range prefixes {
			if strings.HasPrefix(string(k), p) {
				ok = true
			}
		}
		if !ok {
			continue
		}
		n++
		hsh.Write([]byte(fmt.Sprintf("%d:%x=%d:%x;", len(k), k, len(it.Value()), it.Value())))
	}
	return fmt.Sprintf("%d keys %s", n, hex.EncodeToString(hsh.Sum(nil))[:12])
}

// restartSnapshot: by part, so that a loss is reported by name
func (h *c03Harness) restartSnapshot(i int, wholeApp bool) map[string]string {
	w := h.w
	ctx := w.ch[i].GetContext()
	snap := map[string]string{}
	snap["view"] = h.view(i).String()
	snap["xibc.packet-state"] = w.storeDigest(i, host.StoreKey, host.KeyNextSeqSendPrefix, host.KeyPacketCommitmentPrefix, host.KeyPacketReceiptPrefix, host.KeyPacketAckPrefix)
	snap["xibc.chain-name"] = w.ch[i].App.XIBCKeeper.ClientKeeper.GetChainName(ctx)
	var rel []string
	for _, r := range w.ch[i].App.XIBCKeeper.ClientKeeper.GetAllRelayers(ctx) {
		rel = append(rel, fmt.Sprint(r))
	}
	snap["xibc.relayers"] = strings.Join(rel, ";")
	contracts := map[string]common.Address{
		"packet":    packetcontract.PacketContractAddress,
		"endpoint":  endpointcontract.EndpointContractAddress,
		"execute":   common.HexToAddress(syscontracts.ExecuteContractAddress),
		"agent":     agentcontract.AgentContractAddress,
		"forwarder": w.acc[c03AccFwd],
		"switch":    w.acc[c03AccSwitch],
	}
	for t, a := range w.tok[i] {
		if t != 0 {
			contracts[fmt.Sprintf("token%d", t)] = a
		}
	}
	for name, addr := range contracts {
		var slots []string
		w.ch[i].App.EvmKeeper.ForEachStorage(ctx, addr, func(k, v common.Hash) bool {
			slots = append(slots, k.Hex()+"="+v.Hex())
			return true
		})
		sort.Strings(slots)
		d := sha256.Sum256([]byte(strings.Join(slots, ";")))
		snap["storage."+name] = fmt.Sprintf("%d slots %s", len(slots), hex.EncodeToString(d[:6]))
		if acct := w.ch[i].App.EvmKeeper.GetAccount(ctx, addr); acct != nil {
			cd := sha256.Sum256(w.ch[i].App.EvmKeeper.GetCode(ctx, common.BytesToHash(acct.CodeHash)))
			snap["code."+name] = hex.EncodeToString(cd[:6])
		} else {
			snap["code."+name] = "no account"
		}
	}
	if out, err := w.tryView(i, packetcontract.PacketContract.ABI, packetcontract.PacketContractAddress, "chainName"); err == nil && len(out) == 1 {
		snap["packet.chainName"] = fmt.Sprint(out[0])
	} else {
		snap["packet.chainName"] = "view failed"
	}
	return snap
}

func (h *c03Harness) compareSnapshots(i int, pre, post map[string]string, op string) {
	var lost []string
	for k, v := range pre {
		if post[k] != v {
			lost = append(lost, fmt.Sprintf("%s: %s -> %s", k, c03Clip(v), c03Clip(post[k])))
		}
	}
	sort.Strings(lost)
	if len(lost) > 0 {
		h.find("C03:state-changed-across-"+op, fmt.Sprintf("chain %d: a restart from the exported state (%s) changed state that the value flow depends on", i, op),
			strings.Join(lost, " | "), "export -> import preserves sequences, commitments, receipts, acknowledgements, relayers, contract storage (escrow, bindings, fees, ack status), code and balances")
	}
}

func c03Clip(s string) string {
	if len(s) > 160 {
		return s[:160] + "…"
	}
	return s
}

// restartModule: op `restart <chain>`
func (h *c03Harness) restartModule(i int) string {
	w := h.w
	tc := w.ch[i]
	pre := h.restartSnapshot(i, false)
	ctx := tc.GetContext()
	var failed string
	if pan, msg := safely(func() {
		gs := xibc.ExportGenesis(ctx, *tc.App.XIBCKeeper)
		cdc := tc.App.AppCodec()
		bz, err := cdc.MarshalJSON(gs)
		if err != nil {
			failed = "marshal: " + err.Error()
			return
		}
		var gs2 xibctypes.GenesisState
		if err := cdc.UnmarshalJSON(bz, &gs2); err != nil {
			failed = "unmarshal: " + err.Error()
			return
		}
		if err := gs2.Validate(); err != nil {
			failed = "validate: " + err.Error()
			return
		}
		store := ctx.KVStore(tc.App.GetKey(host.StoreKey))
		var keys [][]byte
		it := store.Iterator(nil, nil)
		for ; it.Valid(); it.Next() {
			keys = append(keys, append([]byte{}, it.Key()...))
		}
		it.Close()
		for _, k := range keys {
			store.Delete(k)
		}
		xibc.InitGenesis(ctx, *tc.App.XIBCKeeper, false, &gs2)
	}); pan {
		failed = "panic: " + msg
	}
	if failed != "" {
		h.r.Count("restart.failed")
		h.find("C03:restart-export-not-importable", fmt.Sprintf("chain %d: the exported xibc genesis could not be re-imported", i), c03Clip(failed), "importable")
		return "err " + h.view(i).String()
	}
	w.coord.CommitBlock(tc)
	post := h.restartSnapshot(i, false)
	h.compareSnapshots(i, pre, post, "module-restart")
	h.countRestart(i, "restart")
	h.conservedAround(i, "restart")
	return "ok " + post["view"]
}

// restartApp: op `restartapp <chain>`
func (h *c03Harness) restartApp(i int) string {
	w := h.w
	tc := w.ch[i]
	w.coord.CommitBlock(tc) // the export reads the committed state
	pre := h.restartSnapshot(i, true)
	var failed string
	if pan, msg := safely(func() {
		exported, err := tc.App.ExportAppStateAndValidators(false, nil)
		if err != nil {
			failed = "export: " + err.Error()
			return
		}
		newApp := app.NewTeleport(log.NewNopLogger(), dbm.NewMemDB(), nil, true, map[int64]bool{}, app.DefaultNodeHome, 5,
			encoding.MakeConfig(app.ModuleBasics), simapp.EmptyAppOptions{})
		newApp.InitChain(abci.RequestInitChain{
			ChainId:         "teleport_9000-1", // what xibctesting.SetupWithGenesisValSet uses
			Time:            tc.CurrentHeader.Time,
			InitialHeight:   exported.Height,
			Validators:      []abci.ValidatorUpdate{},
			ConsensusParams: exported.ConsensusParams,
			AppStateBytes:   exported.AppState,
		})
		newApp.Commit()
		tc.App = newApp
		tc.QueryServer = newApp.XIBCKeeper
		tc.Codec = newApp.AppCodec()
		tc.CurrentHeader = tmproto.Header{
			ChainID:            tc.ChainID,
			Height:             newApp.LastBlockHeight() + 1,
			AppHash:            newApp.LastCommitID().Hash,
			Time:               tc.CurrentHeader.Time,
			ValidatorsHash:     tc.Vals.Hash(),
			NextValidatorsHash: tc.Vals.Hash(),
			ProposerAddress:    tc.Vals.Proposer.Address,
		}
		newApp.BeginBlock(abci.RequestBeginBlock{Header: tc.CurrentHeader})
	}); pan {
		failed = "panic: " + msg
	}
	if failed != "" {
		h.r.Count("restartapp.failed")
		h.find("C03:restart-export-not-importable", fmt.Sprintf("chain %d: whole-app export / InitChain of the exported genesis failed", i), c03Clip(failed), "a chain can be restarted from its exported state")
		return "err " + h.view(i).String()
	}
	w.coord.CommitBlock(tc)
	post := h.restartSnapshot(i, true)
	h.compareSnapshots(i, pre, post, "app-restart")
	h.countRestart(i, "restartapp")
	h.conservedAround(i, "restartapp")
	return "ok " + post["view"]
}

// what was open on / towards chain i when it restarted (floors)
func (h *c03Harness) countRestart(i int, op string) {
	r := h.r
	r.Count(op)
	inflight, erracked, fees, agentHop := false, false, false, false
	for _, k := range h.keys {
		o := h.obs[k]
		if o.src != i && o.dst != i {
			continue
		}
		if !o.acked && !o.stuck {
			if !o.received {
				inflight = true
			} else if o.ackCode != 0 {
				erracked = true
			}
			if o.src == i && o.feeAmt != nil && o.feeAmt.Sign() > 0 {
				fees = true
			}
			if o.fromNested {
				agentHop = true
			}
		}
	}
	if inflight {
		r.Count(op + ".packets-in-flight")
	}
	if erracked {
		r.Count(op + ".error-ack-pending")
	}
	if fees {
		r.Count(op + ".fees-in-escrow")
	}
	if agentHop {
		r.Count(op + ".agent-hop-open")
	}
}

// simulate runs the signed transaction through BaseApp.Simulate: ante handler, ValidateBasic of every message, the msg
// server — all on a branch of the last committed state that is dropped.
func (w *c03World) simulate(i int, signer int, msgs ...sdk.Msg) error {
	c := w.ch[i]
	key, addr := w.signerOf(signer)
	account := c.App.AccountKeeper.GetAccount(c.GetContext(), addr)
	if account == nil {
		w.t.Fatalf("no account for %s on chain %d", addr, i)
	}
	tx, err := helpers.GenTx(c.TxConfig, msgs, sdk.Coins{sdk.NewInt64Coin(sdk.DefaultBondDenom, 0)}, helpers.DefaultGenTxGas*20, c.ChainID,
		[]uint64{account.GetAccountNumber()}, []uint64{account.GetSequence()}, key)
	if err != nil {
		w.t.Fatal(err)
	}
	bz, err := c.TxConfig.TxEncoder()(tx)
	if err != nil {
		w.t.Fatal(err)
	}
	_, _, err = c.App.BaseApp.Simulate(bz)
	return err
}

// plant: the path's send counter in the keeper store and in the packet contract's storage (`sequences[bytes(dst)]`; the
// contract's own setSequence only ever accepts current+1, so the slot is written directly — what an imported genesis with
// such a counter amounts to)
func (h *c03Harness) plant(c, d int, n uint64) string {
	w := h.w
	ctx := w.ch[c].GetContext()
	pk := w.ch[c].App.XIBCKeeper.PacketKeeper
	if cur := pk.GetNextSequenceSend(ctx, h.name(c), h.name(d)); cur != h.seq0(c, d) || n < cur {
		h.r.t.Fatalf("plant %d %d %d: the path already carried traffic (counter %d), or the counter would go down", c, d, n, cur)
	}
	h.planted[[2]int{c, d}] = n
	slot, ok := h.seqSlot(c, d)
	if !ok {
		h.r.t.Fatalf("plant: storage slot of the packet contract's sequence counter not found")
	}
	pk.SetNextSequenceSend(ctx, h.name(c), h.name(d), n)
	w.ch[c].App.EvmKeeper.SetState(ctx, packetcontract.PacketContractAddress, slot, common.BigToHash(new(big.Int).SetUint64(n)).Bytes())
	w.coord.CommitBlock(w.ch[c])
	if got := w.nextSeq(c, h.name(d)); got != n {
		h.r.t.Fatalf("plant: contract counter is %d, wanted %d", got, n)
	}
	h.r.Count("plant")
	if n >= 1<<63 {
		h.r.Count("plant.2^63+")
	}
	return "ok " + h.view(c).String()
}

// seqSlot finds the storage slot of sequences[bytes(dst)] in the packet contract: keccak256(dst ++ uint256(k)) for the
// mapping's slot index k, identified by letting the contract itself write the counter once (on a dropped context)
func (h *c03Harness) seqSlot(c, d int) (common.Hash, bool) {
	w := h.w
	cctx, _ := w.ch[c].GetContext().CacheContext()
	cur := w.nextSeq(c, h.name(d))
	if _, err := w.ch[c].App.XIBCKeeper.PacketKeeper.CallPacket(cctx, "setSequence", h.name(d), cur+1); err != nil {
		return common.Hash{}, false
	}
	for k := int64(0); k < 64; k++ {
		slot := crypto.Keccak256Hash(append([]byte(h.name(d)), common.BigToHash(big.NewInt(k)).Bytes()...))
		if v := w.ch[c].App.EvmKeeper.GetState(cctx, packetcontract.PacketContractAddress, slot); new(big.Int).SetBytes(v.Bytes()).Uint64() == cur+1 {
			return slot, true
		}
	}
	return common.Hash{}, false
}

// seq0: the first send sequence of a path (1 unless planted)
func (h *c03Harness) seq0(c, d int) uint64 {
	if n, ok := h.planted[[2]int{c, d}]; ok {
		return n
	}
	return 1
}
