//go:build c06

package verifharness

// C06 (a) — message level: who may update clients, receive packets, acknowledge packets.
//
// Real code driven: two full app.Teleport instances (x/xibc/testing Coordinator): T (under test) and S
// (a counterparty whose committed store provides genuine ICS-23 proofs for T's Tendermint light client).
// Every message is signed by the stated account and goes through BaseApp.Deliver (ante handler,
// msg.ValidateBasic, msg service router, runMsgs cache semantics, panic recovery).
// Registrations go through RegisterRelayerProposal.ValidateBasic + the real gov proposal handler.
//
// op language (all strings hex, "-" = empty):
//   reset <self>                                             new world; T's chain name
//   mkclient <chain> tss <addr> | mkclient <chain> oth       client exists on T (tss: created through the keeper; oth = T's TM client of S)
//   mkcommit <src> <dst> <seq>                               T stores the commitment of the canonical packet (src,dst,seq)
//   reg <addrOK> <addr> <nc> <chain>*nc <na> <oaddr>*na      -> ok G:<registry in store order> | rej
//   regdry <drop|fail|gov> <addrOK> <addr> <nc> <chain>*nc <na> <oaddr>*na   registration on a DISCARDED context branch
//                                                            -> dry ok|rej G:<registry in the store, unchanged>
//   restart <module|app>                                     genesis export -> import in the middle of the history -> ok
//   q <chain> <addr> <oaddr>                                 -> auth=<0|1> other=<f:hex|none> tele=<f:hex|none>
//   upd <raw> <canon> <chain> <hdrOK> <newTss|none>          -> ok <store diff> | rej
//   recv <raw> <canon> <src> <dst> <seq> <kind> <proofOK> <cb> -> ok <store diff> rl=<ack relayer field> cls=<ok|code|evm|nodst> | rej
//        kind = data kind of the packet (c06Packet), cb = ok|code|evm|? outcome of the receive callback (probed)
//   ack <raw> <canon> <src> <dst> <seq> <hasData> <genuine> <proofOK> <ackRelayer> <ackDecodes> <evmOK> -> ok <store diff> | rej
//   recv / ack may end with  pf=<hex>  : the bytes put into ProofCommitment / ProofAcked when the gating chain is not S
//                                        (TSS client or no client); default is the single byte 01
// store diff tokens: +R:/+A:/~A:/+C:/-C:<src>/<dst>/<seq>  ~K:<chain>   (anything else: ?<key>)

import (
	"bytes"
	"crypto/sha256"
	"encoding/base64"
	"fmt"
	"math/big"
	"os"
	"sort"
	"strconv"
	"strings"
	"testing"

	"github.com/cosmos/cosmos-sdk/simapp/helpers"
	sdk "github.com/cosmos/cosmos-sdk/types"
	govtypes "github.com/cosmos/cosmos-sdk/x/gov/types"
	"github.com/ethereum/go-ethereum/common"
	abci "github.com/tendermint/tendermint/abci/types"
	"github.com/tharsis/ethermint/crypto/ethsecp256k1"

	endpointcontract "github.com/teleport-network/teleport/syscontracts/xibc_endpoint"
	packetcontract "github.com/teleport-network/teleport/syscontracts/xibc_packet"
	xibctmtypes "github.com/teleport-network/teleport/x/xibc/clients/light-clients/tendermint/types"
	tsstypes "github.com/teleport-network/teleport/x/xibc/clients/tss-client/types"
	clienttypes "github.com/teleport-network/teleport/x/xibc/core/client/types"
	"github.com/teleport-network/teleport/x/xibc/core/host"
	packettypes "github.com/teleport-network/teleport/x/xibc/core/packet/types"
	"github.com/teleport-network/teleport/x/xibc/exported"
	xibctesting "github.com/teleport-network/teleport/x/xibc/testing"
)

const (
	c06NAcct   = 8
	c06Pool    = 24
	c06ZeroHex = "0x0000000000000000000000000000000000000000"
	c06Sender  = "0x2222222222222222222222222222222222222222"
)

type c06Acct struct {
	key   *ethsecp256k1.PrivKey
	addr  sdk.AccAddress
	lower string
	upper string
}

var c06Accts = func() []c06Acct {
	var out []c06Acct
	for i := 0; i < c06NAcct; i++ {
		k := &ethsecp256k1.PrivKey{Key: append(make([]byte, 31), byte(i+11))}
		a := sdk.AccAddress(k.PubKey().Address())
		out = append(out, c06Acct{key: k, addr: a, lower: a.String(), upper: strings.ToUpper(a.String())})
	}
	return out
}()

// counterparty-side relayer addresses (ASCII; several differ only in case)
var c06OtherAddrs = []string{"0xAbCdEf0000000000000000000000000000000001", "0xabcdef0000000000000000000000000000000001",
	"0xABCDEF0000000000000000000000000000000001", "0xabcdef0000000000000000000000000000000002", "relayer-X", "relayer-x", ""}

type c06Reg struct {
	chains, addrs []string
}

// a counterparty chain T holds a real Tendermint light client of, with genuine ICS-23 proofs of its pool
type c06Src struct {
	chain    *xibctesting.TestChain
	proofPkt map[uint64][]byte // X->T packet commitment proofs
	proofAck map[uint64][]byte // T->X ack proofs
	proofH   clienttypes.Height
}

type c06Dry struct {
	addr string
	reg  c06Reg
}

type c06World struct {
	t     *testing.T
	coord *xibctesting.Coordinator
	T, S  *xibctesting.TestChain
	// mirrors used by the ORACLE only (what governance registered / configured last)
	lastReg  map[string]c06Reg
	junkKeys map[string]bool // opaque metadata keys injected by genesis documents (not re-exported by any client type)
	genClass string          // class of the last genesis document this world was started from ("" = built through keepers)
	restarts int
	dryRegs  []c06Dry          // registrations that ran on DISCARDED context branches (for the distribution only; never in lastReg)
	tssCfg   map[string]string // chain -> TSS address as configured (mkclient) / rotated (accepted TSS update)
	hist     []string
	// proofs of the canonical pool
	srcs map[string]*c06Src // the Tendermint-secured counterparties (S and S2): real chains with committed pools
}

// ---- canonical packets / acks --------------------------------------------------------------------

// data kinds of the canonical packet for a triple (what the receive callback will do with it is an external,
// EVM-level fact; the harness probes it with the real CallPacket before recording the op):
//
//	0 no data (fails ValidateBasic)                       1 call data for an address without code   (code 0)
//	2 call data that is not ABI-encoded CallData (revert)  3 transfer data that is not TransferData   (code 2)
//	4 call data that makes `execute` call endpoint.crossChainCall towards a chain without client: the
//	  post-transaction hook (keeper SendPacket) fails, so CallPacket fails
const c06Kinds = 5

func c06Packet(src, dst string, seq uint64, kind int) *packettypes.Packet {
	var cd, td []byte
	switch kind {
	case 1:
		cd, _ = (&packettypes.CallData{ContractAddress: "0x1111111111111111111111111111111111111111", CallData: []byte{1, 2, byte(seq)}}).ABIPack()
	case 2:
		cd = []byte{0xde, 0xad, 0xbe, 0xef, byte(seq)}
	case 3:
		td = []byte{1, 2, 3, byte(seq)}
	case 4:
		inner, err := endpointcontract.EndpointContract.ABI.Pack("crossChainCall", packettypes.CrossChainData{DstChain: "no-such-chain", TokenAddress: common.Address{}, Receiver: "",
			Amount: big.NewInt(0), ContractAddress: "0x1111111111111111111111111111111111111111", CallData: []byte{1, byte(seq)}, CallbackAddress: common.Address{}, FeeOption: 0},
			packettypes.Fee{TokenAddress: common.Address{}, Amount: big.NewInt(0)})
		if err != nil {
			panic(err)
		}
		cd, _ = (&packettypes.CallData{ContractAddress: strings.ToLower(endpointcontract.EndpointContractAddress.Hex()), CallData: inner}).ABIPack()
	}
	cb := c06ZeroHex
	if seq%4 == 3 {
		cb = "" // OnAcknowledgePacket reverts on an unparsable callback address
	}
	return packettypes.NewPacket(src, dst, seq, c06Sender, td, cd, cb, 0)
}

// data kind of the packet S committed for sequence seq (S -> T pool)
func c06PoolKind(seq uint64) int { return []int{2, 1, 1, 1, 1, 3, 4}[seq%7] }

// the EVM callbacks of an acknowledgement succeed for the canonical packet iff the ack code is 0 and the
// callback address parses (established by experiment on the real byte code; re-checked by every run:
// a wrong flag shows up as a divergence)
func c06EvmOK(seq uint64) bool { return seq%4 < 2 }

// the canonical acknowledgement S committed for T->S seq
func c06PoolAckRelayer(seq uint64) string { return c06OtherAddrs[int(seq)%len(c06OtherAddrs)] }

func c06AckBytes(seq uint64, relayer string, decodes bool) []byte {
	if !decodes {
		return []byte{0xde, 0xad, byte(seq)}
	}
	code := uint64(0)
	msg := ""
	if seq%4 == 2 {
		code, msg = 1, "failed"
	}
	bz, err := packettypes.NewAcknowledgement(code, []byte{}, msg, relayer, 0).ABIPack()
	if err != nil {
		panic(err)
	}
	return bz
}

// an all-default acknowledgement (code 0, empty result / message / relayer) is refused by the msg server
// (`len(ack.String()) == 0`), so "decodes" is false for it although its bytes are well-formed.
func c06AckWellFormed(seq uint64, relayer string, decodes bool) bool {
	return decodes || (relayer == "" && seq%4 != 2)
}

// the msg server's own acceptance test of the acknowledgement bytes, evaluated with the real decoder
func c06AckDecodes(bz []byte) bool {
	var ack packettypes.Acknowledgement
	ok := false
	safely(func() { ok = ack.ABIDecode(bz) == nil && len(ack.String()) != 0 })
	return ok
}

// ---- world -----------------------------------------------------------------------------------------

func newC06World(t *testing.T) *c06World {
	w := &c06World{t: t, lastReg: map[string]c06Reg{}, tssCfg: map[string]string{}, srcs: map[string]*c06Src{}}
	w.coord = xibctesting.NewCoordinator(t, 3)
	w.T = w.coord.GetChain(xibctesting.GetChainID(0))
	w.S = w.coord.GetChain(xibctesting.GetChainID(1))
	for _, X := range []*xibctesting.TestChain{w.S, w.coord.GetChain(xibctesting.GetChainID(2))} {
		// X commits its pool: packets X->T and acks of packets T->X
		sctx := X.GetContext()
		for seq := uint64(1); seq <= c06Pool; seq++ {
			cm, err := packettypes.CommitPacket(c06Packet(X.ChainID, w.T.ChainID, seq, c06PoolKind(seq)))
			if err != nil {
				t.Fatal(err)
			}
			X.App.XIBCKeeper.PacketKeeper.SetPacketCommitment(sctx, X.ChainID, w.T.ChainID, seq, cm)
			X.App.XIBCKeeper.PacketKeeper.SetPacketAcknowledgement(sctx, w.T.ChainID, X.ChainID, seq,
				packettypes.CommitAcknowledgement(c06AckBytes(seq, c06PoolAckRelayer(seq), true)))
		}
		w.coord.CommitBlock(X)
		path := xibctesting.NewPath(w.T, X)
		w.coord.SetupClientsWithoutRelayer(path)
		src := &c06Src{chain: X, proofPkt: map[uint64][]byte{}, proofAck: map[uint64][]byte{}}
		h := w.T.GetClientState(X.ChainID).GetLatestHeight().GetRevisionHeight()
		for seq := uint64(1); seq <= c06Pool; seq++ {
			src.proofPkt[seq], src.proofH = X.QueryProofAtHeight(host.PacketCommitmentKey(X.ChainID, w.T.ChainID, seq), int64(h))
			src.proofAck[seq], _ = X.QueryProofAtHeight(host.PacketAcknowledgementKey(w.T.ChainID, X.ChainID, seq), int64(h))
		}
		w.srcs[X.ChainID] = src
	}
	ctx := w.T.GetContext()
	for _, a := range c06Accts {
		w.T.App.AccountKeeper.SetAccount(ctx, w.T.App.AccountKeeper.NewAccountWithAddress(ctx, a.addr))
	}
	w.coord.CommitBlock(w.T)
	return w
}

func c06AcctOf(canon string) *c06Acct {
	for i := range c06Accts {
		if c06Accts[i].lower == canon {
			return &c06Accts[i]
		}
	}
	return nil
}

func (w *c06World) xibcDump() map[string]string {
	m := map[string]string{}
	st := w.T.GetContext().KVStore(w.T.App.GetKey(host.StoreKey))
	it := st.Iterator(nil, nil)
	defer it.Close()
	for ; it.Valid(); it.Next() {
		m[string(it.Key())] = string(it.Value())
	}
	return m
}

// hash of the evm and bank stores (contract storage, code, balances)
func (w *c06World) sideHash() string {
	h := sha256.New()
	for _, k := range []string{"evm", "bank"} {
		st := w.T.GetContext().KVStore(w.T.App.GetKey(k))
		it := st.Iterator(nil, nil)
		for ; it.Valid(); it.Next() {
			h.Write(it.Key())
			h.Write([]byte{0})
			h.Write(it.Value())
			h.Write([]byte{1})
		}
		it.Close()
	}
	return fmt.Sprintf("%x", h.Sum(nil)[:8])
}

func c06TripleTok(parts []string) (string, bool) {
	// <prefix>/<src>/<dst>/sequences/<seq>
	if len(parts) != 5 || parts[3] != host.KeySequencePrefix {
		return "", false
	}
	if _, err := strconv.ParseUint(parts[4], 10, 64); err != nil {
		return "", false
	}
	return hxs(parts[1]) + "/" + hxs(parts[2]) + "/" + parts[4], true
}

func c06Diff(a, b map[string]string) []string {
	cat := map[string]int{"+R": 0, "+A": 1, "~A": 1, "+C": 2, "-C": 3, "~K": 4}
	seen := map[string]bool{}
	var toks []string
	add := func(t string) {
		if !seen[t] {
			seen[t] = true
			toks = append(toks, t)
		}
	}
	classify := func(k string, kind byte) {
		parts := strings.Split(k, "/")
		switch parts[0] {
		case host.KeyPacketReceiptPrefix:
			if t, ok := c06TripleTok(parts); ok && kind == '+' {
				add("+R:" + t)
				return
			}
		case host.KeyPacketAckPrefix:
			if t, ok := c06TripleTok(parts); ok && kind != '-' {
				add(string(kind) + "A:" + t)
				return
			}
		case host.KeyPacketCommitmentPrefix:
			if t, ok := c06TripleTok(parts); ok && kind != '~' {
				add(string(kind) + "C:" + t)
				return
			}
		case string(host.KeyClientStorePrefix):
			if len(parts) >= 3 {
				add("~K:" + hxs(parts[1]))
				return
			}
		}
		add("?" + string(kind) + hxs(k))
	}
	for k, v := range b {
		if ov, ok := a[k]; !ok {
			classify(k, '+')
		} else if ov != v {
			classify(k, '~')
		}
	}
	for k := range a {
		if _, ok := b[k]; !ok {
			classify(k, '-')
		}
	}
	sort.Slice(toks, func(i, j int) bool {
		ci, iok := cat[toks[i][:2]]
		cj, jok := cat[toks[j][:2]]
		if !iok {
			ci = 9
		}
		if !jok {
			cj = 9
		}
		if ci != cj {
			return ci < cj
		}
		return toks[i] < toks[j]
	})
	return toks
}

// deliver signs msg with the account and runs it through BaseApp.Deliver in its own block.
func (w *c06World) deliver(acct *c06Acct, msg sdk.Msg) (bool, *sdk.Result, string) {
	T := w.T
	w.coord.UpdateTimeForChain(T)
	a := T.App.AccountKeeper.GetAccount(T.GetContext(), acct.addr)
	tx, err := helpers.GenTx(T.TxConfig, []sdk.Msg{msg}, sdk.Coins{sdk.NewInt64Coin(sdk.DefaultBondDenom, 0)}, helpers.DefaultGenTxGas*4, T.ChainID,
		[]uint64{a.GetAccountNumber()}, []uint64{a.GetSequence()}, acct.key)
	if err != nil {
		w.t.Fatalf("GenTx: %v", err)
	}
	T.App.BeginBlock(abci.RequestBeginBlock{Header: T.GetContext().BlockHeader()})
	var res *sdk.Result
	var derr error
	if p, m := safely(func() { _, res, derr = T.App.BaseApp.Deliver(T.TxConfig.TxEncoder(), tx) }); p {
		derr = fmt.Errorf("panic escaped DeliverTx: %s", m)
	}
	T.App.EndBlock(abci.RequestEndBlock{})
	T.App.Commit()
	T.NextBlock()
	w.coord.IncrementTime()
	if derr != nil {
		return false, nil, derr.Error()
	}
	return true, res, ""
}

func c06EventAck(res *sdk.Result) ([]byte, bool) {
	for _, e := range res.Events {
		if strings.HasSuffix(e.Type, "EventWriteAck") {
			for _, at := range e.Attributes {
				if string(at.Key) == "ack" {
					v := strings.Trim(string(at.Value), "\"")
					bz, err := base64.StdEncoding.DecodeString(v)
					if err != nil {
						return nil, false
					}
					return bz, true
				}
			}
		}
	}
	return nil, false
}

func (w *c06World) clientOf(chain string) (exported.ClientState, bool) {
	return w.T.App.XIBCKeeper.ClientKeeper.GetClientState(w.T.GetContext(), chain)
}

func c06SameAccount(a, b string) bool {
	x, e1 := sdk.AccAddressFromBech32(a)
	y, e2 := sdk.AccAddressFromBech32(b)
	return e1 == nil && e2 == nil && bytes.Equal(x, y)
}

// first address the proposal paired with the chain: (chain -> address) exactly as governance submitted it
func (g c06Reg) addrFor(chain string) (string, bool) {
	for i, c := range g.chains {
		if c == chain && i < len(g.addrs) {
			return g.addrs[i], true
		}
	}
	return "", false
}

// the registration lists >= 2 different chains in non-sorted order with pairwise different addresses
func (g c06Reg) multichainUnsorted() bool {
	if len(g.chains) < 2 || len(g.chains) != len(g.addrs) || sort.StringsAreSorted(g.chains) {
		return false
	}
	seenC, seenA := map[string]bool{}, map[string]bool{}
	for i := range g.chains {
		if seenC[g.chains[i]] || seenA[strings.ToLower(g.addrs[i])] {
			return false
		}
		seenC[g.chains[i]], seenA[strings.ToLower(g.addrs[i])] = true, true
	}
	return true
}

// relayers whose own registration pairs the chain with an address that case-folds to a (payout side)
func (w *c06World) payoutCandidates(chain, a string) map[string]bool {
	out := map[string]bool{}
	for rel, g := range w.lastReg {
		for i, c := range g.chains {
			if c == chain && i < len(g.addrs) && strings.EqualFold(g.addrs[i], a) {
				out[rel] = true
			}
		}
	}
	return out
}

// the list holds a name that differs from s only in letter case, but not s itself (chain names are exact)
func c06HasCaseSibling(l []string, s string) bool {
	if c06Contains(l, s) {
		return false
	}
	for _, x := range l {
		if strings.EqualFold(x, s) {
			return true
		}
	}
	return false
}

// some relayer registered an address folding to a, but only under a case sibling of the chain name
func (w *c06World) payoutOnlyUnderSibling(chain, a string) bool {
	if len(w.payoutCandidates(chain, a)) > 0 {
		return false
	}
	for _, g := range w.lastReg {
		for i, c := range g.chains {
			if c != chain && strings.EqualFold(c, chain) && i < len(g.addrs) && strings.EqualFold(g.addrs[i], a) {
				return true
			}
		}
	}
	return false
}

func c06Contains(l []string, s string) bool {
	for _, x := range l {
		if x == s {
			return true
		}
	}
	return false
}

func (w *c06World) find(r *Rec, sig, what, obs, req string) {
	r.Find(Finding{Sig: sig, What: what, Ops: append([]string{}, w.hist...), Obs: obs, Req: req})
}

// probeHeader runs ClientKeeper.UpdateClient alone on a throw-away cache context: the header verdict
// of the light client is an external parameter of the C06 model.
func (w *c06World) probeHeader(chain string, header exported.Header) bool {
	cctx, _ := w.T.GetContext().CacheContext()
	ok := false
	safely(func() { ok = w.T.App.XIBCKeeper.ClientKeeper.UpdateClient(cctx, chain, header) == nil })
	return ok
}

// buildHeader: newTss = "none" → a Tendermint header of S (valid if wantOK, tampered otherwise); else a TSS header.
func (w *c06World) buildHeader(chain string, wantOK bool, newTss string) exported.Header {
	if newTss != "none" {
		return &tsstypes.Header{TssAddress: newTss}
	}
	X := w.S // a Tendermint header of S for every chain that is not itself a Tendermint counterparty
	if src, ok := w.srcs[chain]; ok {
		X = src.chain
	}
	w.coord.CommitBlock(X)
	h, err := w.T.ConstructUpdateTMClientHeader(X, X.ChainID)
	if err != nil {
		w.t.Fatalf("construct header: %v", err)
	}
	cp := *h
	if !wantOK {
		// a header whose commit no longer matches: claims another height for the trusted state
		cp.TrustedHeight = clienttypes.NewHeight(cp.TrustedHeight.RevisionNumber, cp.TrustedHeight.RevisionHeight+7)
	}
	var _ = xibctmtypes.Header{}
	return &cp
}

// apply executes one op on the real code and returns the canonical observation.
func (w *c06World) apply(r *Rec, op string) (string, string) {
	f := strings.Fields(op)
	if f[0] == "upd" && f[4] == "?" { // resolve the external header verdict before the op is recorded
		f[4] = "0"
		chain := string(unhx(f[3]))
		if _, found := w.clientOf(chain); found {
			nt := "none"
			if f[5] != "none" {
				nt = string(unhx(f[5]))
			}
			if _, isTM := w.srcs[chain]; nt != "none" || isTM {
				if w.probeHeader(chain, w.buildHeader(chain, true, nt)) {
					f[4] = "1"
				}
			}
		}
		op = strings.Join(f, " ")
	}
	if f[0] == "recv" { // resolve the external outcome of the receive callback before the op is recorded
		pfField := ""
		if l := f[len(f)-1]; strings.HasPrefix(l, "pf=") {
			pfField, f = l, f[:len(f)-1]
		}
		if len(f) == 8 { // older op files: no callback field
			f = append(f, "?")
		}
		if len(f) == 9 && f[8] == "?" {
			f[8] = "ok"
			dk, _ := strconv.Atoi(f[6])
			seq, _ := strconv.ParseUint(f[5], 10, 64)
			if dst := string(unhx(f[4])); dst == w.T.ChainID && dk > 0 && dk < c06Kinds {
				f[8] = w.probeCallback(c06Packet(string(unhx(f[3])), dst, seq, dk))
			}
		}
		if pfField != "" {
			f = append(f, pfField)
		}
		op = strings.Join(f, " ")
	}
	w.hist = append(w.hist, op)
	return op, w.apply1(r, f)
}

// probeCallback runs PacketKeeper.CallPacket(onRecvPacket) alone on a throw-away cache context: what the
// contracts do with the packet is an external parameter of the C06 model ("ok" code 0, "code" code != 0, "evm" failed)
func (w *c06World) probeCallback(pk *packettypes.Packet) string {
	cctx, _ := w.T.GetContext().CacheContext()
	out := "evm"
	safely(func() {
		res, err := w.T.App.XIBCKeeper.PacketKeeper.CallPacket(cctx, "onRecvPacket", *pk)
		if err != nil {
			return
		}
		var result packettypes.Result
		if packetcontract.PacketContract.ABI.UnpackIntoInterface(&result, "onRecvPacket", res.Ret) != nil {
			out = "undecodable-result"
			return
		}
		if result.Code == 0 {
			out = "ok"
		} else {
			out = "code"
		}
	})
	return out
}

func (w *c06World) apply1(r *Rec, f []string) string {
	T := w.T
	ck := T.App.XIBCKeeper.ClientKeeper
	s := func(i int) string { return string(unhx(f[i])) }
	switch f[0] {
	case "mkclient":
		if f[2] == "tss" {
			if err := ck.CreateClient(T.GetContext(), s(1), &tsstypes.ClientState{TssAddress: s(3)}, &tsstypes.ConsensusState{}); err != nil {
				return "err"
			}
			w.tssCfg[s(1)] = s(3)
			w.coord.CommitBlock(T)
			return "ok"
		}
		if _, isTM := w.srcs[s(1)]; !isTM {
			return "bad-op"
		}
		return "ok"
	case "mkcommit":
		seq, _ := strconv.ParseUint(f[3], 10, 64)
		cm, err := packettypes.CommitPacket(c06Packet(s(1), s(2), seq, 1))
		if err != nil {
			return "err"
		}
		T.App.XIBCKeeper.PacketKeeper.SetPacketCommitment(T.GetContext(), s(1), s(2), seq, cm)
		w.coord.CommitBlock(T)
		return "ok"
	case "reg":
		addr := s(2)
		nc, _ := strconv.Atoi(f[3])
		var chains, addrs []string
		for i := 0; i < nc; i++ {
			chains = append(chains, s(4+i))
		}
		na, _ := strconv.Atoi(f[4+nc])
		for i := 0; i < na; i++ {
			addrs = append(addrs, s(5+nc+i))
		}
		_, aerr := sdk.AccAddressFromBech32(addr)
		if (aerr == nil) != (f[1] == "1") {
			return "flag-mismatch"
		}
		// the oracle's mirror keeps ITS OWN copy of the (chain -> address) pairs as submitted; the real code
		// gets separate slices (it may reorder / rewrite what it is handed)
		mirror := c06Reg{append([]string{}, chains...), append([]string{}, addrs...)}
		p := clienttypes.NewRegisterRelayerProposal("register relayer", "c06", addr, append([]string{}, chains...), append([]string{}, addrs...))
		if err := p.ValidateBasic(); err != nil {
			r.Count("reg.rejected")
			return "rej"
		}
		var herr error
		if pn, _ := safely(func() { herr = T.App.GovKeeper.Router().GetRoute(p.ProposalRoute())(T.GetContext(), p) }); pn || herr != nil {
			return "rej"
		}
		w.coord.CommitBlock(T)
		if _, again := w.lastReg[addr]; again {
			r.Count("reg.reregistration")
		}
		if old, again := w.lastReg[addr]; again && len(old.chains) == len(mirror.chains) &&
			strings.Join(old.addrs, "\x00") == strings.Join(mirror.addrs, "\x00") && strings.Join(old.chains, "\x00") != strings.Join(mirror.chains, "\x00") {
			r.Count("reg.reregistration.same-addresses-other-chains")
		}
		w.lastReg[addr] = mirror
		r.Count("reg.accepted")
		if mirror.multichainUnsorted() {
			r.Count("reg.accepted.multichain-unsorted")
		}
		return "ok G:" + w.regDump()
	case "regdry":
		return w.applyRegDry(r, f)
	case "restart":
		return w.applyRestart(r, f)
	case "genesis":
		return w.applyGenesis(r, f)
	case "q":
		var auth bool
		var other, tele string
		var of, tf bool
		if pn, _ := safely(func() {
			auth = ck.AuthRelayer(T.GetContext(), s(1), s(2))
			other, of = ck.GetRelayerAddressOnOtherChain(T.GetContext(), s(1), s(2))
			tele, tf = ck.GetRelayerAddressOnTeleport(T.GetContext(), s(1), s(3))
		}); pn {
			return "panic"
		}
		// oracle: the registry answers exactly what governance registered last for this address
		lr, reg := w.lastReg[s(2)]
		if auth != (reg && c06Contains(lr.chains, s(1))) {
			w.find(r, "C06/auth-relayer-differs-from-registration", "AuthRelayer disagrees with the last registration of the address",
				fmt.Sprint(auth), fmt.Sprint(!auth))
		}
		if wantO, okO := lr.addrFor(s(1)); okO != of || (of && other != wantO) {
			w.find(r, "C06/other-chain-address-differs-from-registration", "GetRelayerAddressOnOtherChain does not return the address governance paired with that chain for the relayer",
				fmt.Sprintf("%q,%v", other, of), fmt.Sprintf("%q,%v", wantO, okO))
		}
		if cand := w.payoutCandidates(s(1), s(3)); tf != (len(cand) > 0) || (tf && !cand[tele]) {
			w.find(r, "C06/payout-relayer-differs-from-registration", "GetRelayerAddressOnTeleport returns a relayer that did not register that counterparty address for that chain (or misses one that did)",
				fmt.Sprintf("%q,%v", tele, tf), fmt.Sprintf("one of %d registered relayers", len(cand)))
		}
		fm := func(v string, ok bool) string {
			if ok {
				return "f:" + hxs(v)
			}
			return "none"
		}
		r.Count("q")
		if !(reg && c06Contains(lr.chains, s(1))) && w.dryNamed(s(2), s(1)) {
			r.Count("q.after-discarded-registration")
		}
		if c06HasCaseSibling(lr.chains, s(1)) {
			r.Count("q.case-sibling-chain")
		}
		if w.payoutOnlyUnderSibling(s(1), s(3)) {
			r.Count("q.case-sibling-payout")
		}
		if tf {
			r.Count("q.tele.found")
		}
		return "auth=" + map[bool]string{true: "1", false: "0"}[auth] + " other=" + fm(other, of) + " tele=" + fm(tele, tf)
	case "upd", "recv", "ack":
		return w.applyMsg(r, f)
	}
	return "bad-op"
}

// the registry as the STORE holds it (GetAllRelayers iterates the store), in store order
func (w *c06World) regDump() string {
	var parts []string
	for _, ir := range w.T.App.XIBCKeeper.ClientKeeper.GetAllRelayers(w.T.GetContext()) {
		cs := make([]string, len(ir.Chains))
		for i, c := range ir.Chains {
			cs[i] = hxs(c)
		}
		as := make([]string, len(ir.Addresses))
		for i, c := range ir.Addresses {
			as[i] = hxs(c)
		}
		parts = append(parts, hxs(ir.Address)+"="+strings.Join(cs, ",")+"/"+strings.Join(as, ","))
	}
	if len(parts) == 0 {
		return "-"
	}
	return strings.Join(parts, "|")
}

// regdry <mode> <addrOK> <addr> <nc> <chain>*nc <na> <oaddr>*na : the registration runs on a context branch that is
// thrown away — nothing may remain of it.
//
//	drop  the routed gov proposal handler on a CacheContext that is dropped (exactly the dry run of gov SubmitProposal)
//	fail  the same handler on a CacheContext, followed by a second proposal that fails: the branch is not written
//	gov   the real thing: MsgSubmitProposal through BaseApp.Deliver with an empty deposit (the proposal stays in the
//	      deposit period, never passes; gov.Keeper.SubmitProposal dry-runs the handler on a discarded CacheContext)
func (w *c06World) applyRegDry(r *Rec, f []string) string {
	T := w.T
	s := func(i int) string { return string(unhx(f[i])) }
	mode, addr := f[1], s(3)
	nc, _ := strconv.Atoi(f[4])
	var chains, addrs []string
	for i := 0; i < nc; i++ {
		chains = append(chains, s(5+i))
	}
	na, _ := strconv.Atoi(f[5+nc])
	for i := 0; i < na; i++ {
		addrs = append(addrs, s(6+nc+i))
	}
	_, aerr := sdk.AccAddressFromBech32(addr)
	if (aerr == nil) != (f[2] == "1") {
		return "flag-mismatch"
	}
	p := clienttypes.NewRegisterRelayerProposal("register relayer", "c06 dry", addr, append([]string{}, chains...), append([]string{}, addrs...))
	before := w.xibcDump()
	handlerOK := false
	switch mode {
	case "drop", "fail":
		if p.ValidateBasic() == nil { // gov refuses to route content that fails ValidateBasic (MsgSubmitProposal.ValidateBasic)
			handler := T.App.GovKeeper.Router().GetRoute(p.ProposalRoute())
			cctx, _ := T.GetContext().CacheContext()
			var herr error
			pn, _ := safely(func() { herr = handler(cctx, p) })
			handlerOK = !pn && herr == nil
			if mode == "fail" {
				// a later step of the same branch fails (upgrade of a client that does not exist): the caller drops the branch
				up := &clienttypes.UpgradeClientProposal{Title: "t", Description: "d", ChainName: "no-such-client"}
				var err2 error
				safely(func() { err2 = handler(cctx, up) })
				if err2 == nil {
					return "harness-error second step did not fail"
				}
			}
		}
	case "gov":
		msg, err := govtypes.NewMsgSubmitProposal(p, sdk.NewCoins(), c06Accts[5].addr)
		if err != nil {
			return "bad-op"
		}
		handlerOK, _, _ = w.deliver(&c06Accts[5], msg)
	default:
		return "bad-op"
	}
	w.coord.CommitBlock(T)
	r.Count("reg.discarded")
	r.Count("reg.discarded." + mode)
	if handlerOK {
		r.Count("reg.discarded.handler-ok")
		w.dryRegs = append(w.dryRegs, c06Dry{addr, c06Reg{append([]string{}, chains...), append([]string{}, addrs...)}})
	}
	if toks := c06Diff(before, w.xibcDump()); len(toks) != 0 {
		w.find(r, "C06/discarded-registration-changed-the-store", "a registration run on a discarded context branch changed the xibc store", strings.Join(toks, " "), "no change")
	}
	if handlerOK {
		return "dry ok G:" + w.regDump()
	}
	return "dry rej G:" + w.regDump()
}

// a discarded registration named the address for the chain (and no committed registration of it is checked here)
func (w *c06World) dryNamed(addr, chain string) bool {
	for _, d := range w.dryRegs {
		if d.addr == addr && c06Contains(d.reg.chains, chain) {
			return true
		}
	}
	return false
}

// the LAST discarded registration of the address (a mutation that lets it stick would make it authoritative)
func (w *c06World) lastDry(addr string) (c06Reg, bool) {
	for i := len(w.dryRegs) - 1; i >= 0; i-- {
		if w.dryRegs[i].addr == addr {
			return w.dryRegs[i].reg, true
		}
	}
	return c06Reg{}, false
}

func (w *c06World) applyMsg(r *Rec, f []string) string {
	T := w.T
	var pf []byte // explicit proof bytes of the message (nil = default)
	hasPf := false
	if l := f[len(f)-1]; strings.HasPrefix(l, "pf=") {
		pf, hasPf = unhx(l[3:]), true
		if pf == nil {
			pf = []byte{}
		}
		f = f[:len(f)-1]
	}
	s := func(i int) string { return string(unhx(f[i])) }
	raw, canon := s(1), s(2)
	acct := c06AcctOf(canon)
	if acct == nil || !c06SameAccount(raw, canon) {
		return "bad-op"
	}
	var msg sdk.Msg
	var chain string // the counterparty chain whose client gates the message
	kind := f[0]
	var seq uint64
	var src, dst string
	switch kind {
	case "upd":
		chain = s(3)
		hdr := w.buildHeader(chain, f[4] == "1", func() string {
			if f[5] == "none" {
				return "none"
			}
			return s(5)
		}())
		if _, found := w.clientOf(chain); found {
			if got := w.probeHeader(chain, hdr); got != (f[4] == "1") {
				return "flag-mismatch hdrOK"
			}
		}
		any, err := clienttypes.PackHeader(hdr)
		if err != nil {
			return "bad-op"
		}
		msg = &clienttypes.MsgUpdateClient{ChainName: chain, Header: any, Signer: raw}
	case "recv":
		src, dst = s(3), s(4)
		seq, _ = strconv.ParseUint(f[5], 10, 64)
		chain = src
		dk, derr := strconv.Atoi(f[6])
		if derr != nil || dk < 0 || dk >= c06Kinds || len(f) != 9 {
			return "bad-op"
		}
		pk := c06Packet(src, dst, seq, dk)
		bz, err := pk.ABIPack()
		if err != nil {
			return "bad-op"
		}
		if dst == T.ChainID && dk != 0 {
			if got := w.probeCallback(pk); got != f[8] {
				return "flag-mismatch cb " + got
			}
		}
		proof := []byte{1}
		if hasPf {
			proof = pf
		}
		ph := clienttypes.NewHeight(0, 1)
		if sx, isTM := w.srcs[src]; isTM {
			ph = sx.proofH
			gen, have := sx.proofPkt[seq]
			if f[7] == "1" {
				if !have || dst != T.ChainID || dk != c06PoolKind(seq) {
					return "flag-mismatch proofOK"
				}
				proof = gen
			} else if have {
				switch seq % 3 {
				case 0: // proof of another sequence — or the genuine proof of the OTHER Tendermint counterparty
					proof = sx.proofPkt[seq%c06Pool+1]
					for name, o := range w.srcs {
						if name != src && seq%2 == 0 {
							proof = o.proofPkt[seq]
						}
					}
				case 1: // corrupted proof
					proof = append([]byte{}, gen...)
					proof[len(proof)/2] ^= 0x40
				default:
					proof = []byte{}
				}
				if dst != T.ChainID || dk != c06PoolKind(seq) {
					proof = gen // genuine proof, but of a different packet: still no proof of this one
				}
			}
		}
		msg = &packettypes.MsgRecvPacket{Packet: bz, ProofCommitment: proof, ProofHeight: ph, Signer: raw}
	case "ack":
		src, dst = s(3), s(4)
		seq, _ = strconv.ParseUint(f[5], 10, 64)
		chain = dst
		pk := c06Packet(src, dst, seq, map[bool]int{true: 1, false: 0}[f[6] == "1"])
		if f[7] != "1" {
			pk.Sender = "0x3333333333333333333333333333333333333333" // not the committed packet
		}
		bz, err := pk.ABIPack()
		if err != nil {
			return "bad-op"
		}
		ackBz := c06AckBytes(seq, s(9), c06AckWellFormed(seq, s(9), f[10] == "1"))
		if c06AckDecodes(ackBz) != (f[10] == "1") {
			return "flag-mismatch ackDecodes"
		}
		if (f[11] == "1") != c06EvmOK(seq) {
			return "flag-mismatch evmOK"
		}
		proof := []byte{1}
		if hasPf {
			proof = pf
		}
		ph := clienttypes.NewHeight(0, 1)
		if sx, isTM := w.srcs[dst]; isTM {
			ph = sx.proofH
			gen, have := sx.proofAck[seq]
			genuineAck := have && src == T.ChainID && bytes.Equal(ackBz, c06AckBytes(seq, c06PoolAckRelayer(seq), true))
			if f[8] == "1" {
				if !genuineAck {
					return "flag-mismatch proofOK"
				}
				proof = gen
			} else if have {
				if genuineAck {
					proof = append([]byte{}, gen...)
					proof[len(proof)/2] ^= 0x40
				} else {
					proof = gen // genuine proof of a different acknowledgement
				}
			}
		}
		msg = &packettypes.MsgAcknowledgement{Packet: bz, Acknowledgement: ackBz, ProofAcked: proof, ProofHeight: ph, Signer: raw}
	}

	// configuration as the real code sees it before the message
	cs, hasClient := w.clientOf(chain)
	isTss := hasClient && cs.ClientType() == exported.TSS
	tssAddr := ""
	if isTss {
		tssAddr = w.tssCfg[chain] // the oracle's own record of the configured TSS account
		if got := cs.(*tsstypes.ClientState).TssAddress; got != tssAddr {
			w.find(r, "C06/tss-address-differs-from-configuration", "the TSS client's address is not the one configured / last rotated to", strconv.Quote(got), strconv.Quote(tssAddr))
		}
	}
	before := w.xibcDump()
	sideBefore := w.sideHash()
	accepted, res, derr := w.deliver(acct, msg)
	if !accepted && os.Getenv("C06_DEBUG") != "" {
		fmt.Println("C06_DEBUG", strings.Join(f, " "), "=>", derr[:c06Min(len(derr), 300)])
	}
	after := w.xibcDump()
	sideAfter := w.sideHash()
	toks := c06Diff(before, after)

	tag := kind + "."
	lr, registered := w.lastReg[raw]
	regForChain := registered && c06Contains(lr.chains, chain)
	if _, isTM := w.srcs[chain]; isTM && kind != "ack" && !regForChain {
		for other := range w.srcs {
			if other != chain && c06Contains(lr.chains, other) {
				// registered for the OTHER Tendermint counterparty only: second instance of the same kind
				r.Count("msg.other-tendermint-counterparty.attempted")
			}
		}
	}
	if w.genClass != "" {
		r.Count("msg.after-genesis.attempted")
		r.Count("msg.after-genesis." + w.genClass)
	}
	if w.restarts > 0 {
		r.Count("msg.after-restart.attempted")
		if kind != "ack" && registered && !regForChain {
			r.Count("msg.after-restart.registered-for-other-chains-only")
		}
	}
	if kind != "ack" && !regForChain && w.dryNamed(raw, chain) {
		// only a DISCARDED registration names this signer for this chain: it confers nothing
		r.Count("msg.after-discarded-registration.attempted")
		r.Count(kind + ".after-discarded-registration.attempted")
	}
	if ld, ok := w.lastDry(raw); kind != "ack" && regForChain && ok && !c06Contains(ld.chains, chain) {
		// committed for the chain, while a later discarded re-registration omits it: still authorised
		r.Count("msg.after-discarded-reregistration.attempted")
	}
	if kind == "ack" && src == T.ChainID && len(w.payoutCandidates(dst, s(9))) == 0 {
		for _, d := range w.dryRegs {
			if a, ok := d.reg.addrFor(dst); ok && strings.EqualFold(a, s(9)) {
				r.Count("ack.after-discarded-registration.payout.attempted")
				break
			}
		}
	}
	if kind != "ack" && c06HasCaseSibling(lr.chains, chain) {
		// the signer is registered for a name that differs from this chain's only in letter case: a different chain
		r.Count("msg.case-sibling-chain.attempted")
		r.Count(kind + ".case-sibling-chain.attempted")
		if hasClient {
			r.Count("msg.case-sibling-chain.attempted.client-exists")
		}
	}
	if kind == "ack" && src == T.ChainID && w.payoutOnlyUnderSibling(dst, s(9)) {
		r.Count("ack.case-sibling-payout.attempted")
	}
	if isTss && kind != "upd" {
		// what the message itself carries as proof (irrelevant for a TSS client: the signer is the proof) x who signs
		pk := "other-bytes"
		switch {
		case len(pf) == 0 && hasPf:
			pk = "empty"
		case !hasPf:
			pk = "default"
		case string(pf) == tssAddr:
			pk = "is-tss-address"
		case string(pf) == raw:
			pk = "is-signer-address"
		case c06SameAccount(string(pf), string(pf)):
			pk = "is-another-address"
		}
		from := "unregistered-account"
		switch {
		case c06SameAccount(raw, tssAddr):
			from = "tss-account"
		case regForChain:
			from = "registered-relayer"
		}
		r.Count("tss." + kind + ".proof-" + pk + ".from-" + from)
		if hasPf {
			switch n := len(pf); n {
			case 0, 1, 20, 32, 64, 1 << 16:
				r.Count(fmt.Sprintf("tss.msg.proof-len.%d", n))
			}
		}
		if pk == "is-tss-address" && from != "tss-account" {
			r.Count("tss.msg.proof-is-tss-address.from-other-account")
			r.Count("tss." + kind + ".proof-is-tss-address.from-other-account")
		}
	}
	if !accepted {
		r.Count(tag + "rejected")
		switch { // which of the property's conditions the attempt lacked (oracle-side mirror, for the distribution only)
		case kind != "ack" && !registered:
			r.Count(tag + "rejected.signer-unregistered")
		case kind != "ack" && !regForChain:
			r.Count(tag + "rejected.signer-registered-for-other-chains-only")
		case isTss && !c06SameAccount(raw, tssAddr):
			r.Count(tag + "rejected.not-the-tss-account")
		case isTss && raw != tssAddr:
			r.Count(tag + "rejected.tss-account-other-spelling")
		default:
			r.Count(tag + "rejected.other-cause")
		}
		if len(toks) != 0 || sideBefore != sideAfter {
			w.find(r, "C06/rejected-changed-state/"+kind, "a rejected "+kind+" message changed the xibc / evm / bank store",
				strings.Join(toks, " ")+" side:"+sideBefore+"->"+sideAfter, "no change")
		}
		return "rej"
	}
	r.Count(tag + "accepted")
	if _, isTM := w.srcs[chain]; isTM {
		r.Count(tag + "accepted.tendermint." + map[bool]string{true: "first", false: "second"}[chain == w.S.ChainID])
	}
	if w.restarts > 0 {
		r.Count(tag + "accepted.after-restart")
	}
	if isTss {
		r.Count(tag + "accepted.tss")
	}
	// ---- the property, evaluated on what the real code did -------------------------------------
	if kind == "upd" || kind == "recv" {
		if !regForChain {
			w.find(r, "C06/"+kind+"-accepted-from-unregistered-signer", kind+" accepted although governance did not register the signer for chain "+chain,
				"accepted; last registration of signer: "+fmt.Sprint(lr.chains), "rejected")
		}
	}
	if w.genClass != "" && ((isTss && !c06SameAccount(raw, tssAddr)) || (kind != "ack" && !regForChain)) {
		w.find(r, "C06:drive-accepted-from-unconfigured-account:genesis-"+w.genClass, kind+" accepted from an account the validated sections of the genesis document do not configure for chain "+chain,
			"accepted", "rejected")
	}
	if isTss && !c06SameAccount(raw, tssAddr) {
		w.find(r, "C06/"+kind+"-accepted-for-tss-client-from-other-account", kind+" accepted for a TSS-secured chain from an account that is not the configured TSS account",
			"accepted", "rejected")
	}
	out := "ok"
	if len(toks) > 0 {
		out += " " + strings.Join(toks, " ")
	}
	if kind == "upd" && isTss && f[5] != "none" {
		w.tssCfg[chain] = s(5) // accepted key rotation
		r.Count("upd.accepted.tss-rotation")
	}
	if kind == "ack" && src == T.ChainID {
		// payout side: the ack's relayer field must resolve to a relayer that registered it for the destination chain
		if len(w.payoutCandidates(dst, s(9))) == 0 {
			w.find(r, "C06/ack-accepted-without-registered-payout-relayer", "acknowledgement accepted although no relayer registered its relayer field for the destination chain",
				"accepted, relayer field "+strconv.Quote(s(9)), "rejected")
		}
	}
	if kind == "recv" {
		if ackBz, ok := c06EventAck(res); ok {
			var ack packettypes.Acknowledgement
			if err := ack.ABIDecode(ackBz); err != nil {
				w.find(r, "C06/ack-undecodable", "written acknowledgement does not decode", err.Error(), "decodable")
			}
			cls := "code"
			switch {
			case ack.Code == 0:
				cls = "ok"
			case ack.Code == 1 && ack.Message == "receive packet callback failed":
				cls = "evm"
			case ack.Code == 1 && ack.Message == "dstChain not found":
				cls = "nodst"
			}
			out += " rl=" + hxs(ack.Relayer) + " cls=" + cls
			r.Count("recv.accepted.class." + cls)
			want, found := lr.addrFor(src)
			if lr.multichainUnsorted() {
				r.Count("recv.accepted.multichain-unsorted")
				if src != lr.chains[0] {
					r.Count("recv.accepted.multichain-unsorted.not-first-chain")
				}
			}
			if !found || ack.Relayer != want {
				w.find(r, "C06/ack-relayer-field-not-the-registered-address", "fee recipient in the written acknowledgement is not the address registered by the submitting relayer for the source chain",
					"relayer field "+strconv.Quote(ack.Relayer)+" in the acknowledgement of class "+cls, "registered "+strconv.Quote(want))
			}
			stored, ok2 := T.App.XIBCKeeper.PacketKeeper.GetPacketAcknowledgement(T.GetContext(), src, dst, seq)
			hsh := sha256.Sum256(ackBz)
			if !ok2 || !bytes.Equal(stored, hsh[:]) {
				w.find(r, "C06/stored-ack-is-not-the-emitted-ack", "stored ack commitment differs from the hash of the emitted acknowledgement", "differs", "equal")
			}
			r.Count("recv.accepted.ack-written")
		} else if dst == T.ChainID {
			w.find(r, "C06/accepted-receive-without-acknowledgement", "a receive for this chain was accepted but no acknowledgement was written", "no EventWriteAck", "acknowledgement with the registered fee recipient")
		} else {
			r.Count("recv.accepted.relayed")
		}
	}
	return out
}

func c06Min(a, b int) int {
	if a < b {
		return a
	}
	return b
}

func c06B64(s string) ([]byte, error) { return base64.StdEncoding.DecodeString(s) }
