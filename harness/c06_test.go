//go:build c06

package verifharness

// C06 — only relayers, the TSS account and the chain's own modules can drive the bridge.
// TestC06 covers (a) the message level (c06_msg_test.go) and (b) the contract level (c06_evm_test.go).

import (
	"crypto/sha256"
	"encoding/hex"
	"fmt"
	"sort"
	"strings"
	"testing"

	sdk "github.com/cosmos/cosmos-sdk/types"
	"github.com/ethereum/go-ethereum/common"
	"github.com/ethereum/go-ethereum/crypto"

	xibctesting "github.com/teleport-network/teleport/x/xibc/testing"
)

var (
	c06T = xibctesting.GetChainID(0)
	c06S = xibctesting.GetChainID(1)
	// a second Tendermint-secured counterparty with its own real chain, light client and proofs
	c06S2 = xibctesting.GetChainID(2)
)

func c06IsTM(chain string) bool { return chain == c06S || chain == c06S2 }

// chain names; the last three are CASE SIBLINGS: "TSS-A" / "Tss-A" of "tss-a" (the second never has a client) and
// the upper-case spelling of S (a TSS client when it exists). Chain names are compared byte-wise by the code.
var c06SUp = strings.ToUpper(c06S)
var c06Chains = []string{c06S, "tss-a", "tss-b", "tss-up", "nocl", c06T, "TSS-A", "Tss-A", c06SUp, c06S2}

// chains that may get a TSS client
var c06TssChains = []string{"tss-a", "tss-b", "tss-up", "TSS-A", c06SUp}

func c06Siblings(chain string) []string {
	var out []string
	for _, c := range c06Chains {
		if c != chain && strings.EqualFold(c, chain) {
			out = append(out, c)
		}
	}
	return out
}

type c06Gen struct {
	r           *Rec
	w           *c06World
	run         func(op string) string
	tss         map[string]string // chain -> configured address (generator's aim only)
	recvSeq     map[string]uint64 // next fresh sequence per source chain
	commits     map[string][]uint64
	ackSeq      map[string]uint64
	genesisNext int
	heavy       bool   // this history also registers > 100 relayers / a relayer with > 100 chains
	kind        int    // data kind forced for the next receives (0 = random)
	pf          string // " pf=<hex>" appended to the next recv / ack for a chain other than S ("" = none)
	forceRl     *string
}

func (g *c06Gen) pick(l []string) string { return l[g.r.Rng.Intn(len(l))] }

func (g *c06Gen) signer() (raw, canon string) {
	a := c06Accts[g.r.Rng.Intn(c06NAcct)]
	if g.r.Rng.Intn(7) == 0 {
		return a.upper, a.lower
	}
	return a.lower, a.lower
}

// a signer registered for the chain (if any), so that acceptance is frequent
func (g *c06Gen) signerFor(chain string) (raw, canon string) {
	if t, ok := g.tss[chain]; ok && g.r.Rng.Intn(4) > 0 {
		if c06SameAccount(t, t) {
			return t, strings.ToLower(t)
		}
	}
	var cands []string
	for a, reg := range g.w.lastReg {
		if c06Contains(reg.chains, chain) && c06AcctOf(strings.ToLower(a)) != nil { // only accounts the harness can sign for
			cands = append(cands, a)
		}
	}
	if len(cands) == 0 || g.r.Rng.Intn(5) == 0 {
		return g.signer()
	}
	// map iteration order is random: choose deterministically
	best := cands[0]
	for _, c := range cands {
		if c < best {
			best = c
		}
	}
	if g.r.Rng.Intn(2) == 0 {
		best = cands[0]
		for _, c := range cands {
			if c > best {
				best = c
			}
		}
	}
	return best, strings.ToLower(best)
}

func (g *c06Gen) genReg(targetChain string) {
	a := c06Accts[g.r.Rng.Intn(c06NAcct-1)]
	addr := a.lower
	switch g.r.Rng.Intn(12) {
	case 0:
		addr = a.upper
	case 1:
		if g.r.Rng.Intn(3) == 0 {
			addr = "cosmos1notanaddress"
		}
	}
	if t, ok := g.tss[targetChain]; ok && g.r.Rng.Intn(2) == 0 {
		addr = t
	}
	k := 1 + g.r.Rng.Intn(4)
	var chains, addrs []string
	for i := 0; i < k; i++ {
		chains = append(chains, g.pick(c06Chains))
		addrs = append(addrs, g.pick(c06OtherAddrs))
	}
	if targetChain != "" {
		chains[g.r.Rng.Intn(k)] = targetChain
	}
	switch g.r.Rng.Intn(25) {
	case 0:
		addrs = addrs[:len(addrs)-1] // length mismatch (also the empty list)
	case 1:
		addrs = append(addrs, "extra")
	case 2:
		chains[0] = "ab" // too short
	case 3:
		chains[0] = "a/b-c"
	case 4:
		chains, addrs = nil, nil
	}
	_, okA := g.w.lastReg[addr]
	_ = okA
	addrOK := "0"
	if c06SameAccount(addr, addr) {
		addrOK = "1"
	}
	parts := []string{"reg", addrOK, hxs(addr), fmt.Sprint(len(chains))}
	for _, c := range chains {
		parts = append(parts, hxs(c))
	}
	parts = append(parts, fmt.Sprint(len(addrs)))
	for _, c := range addrs {
		parts = append(parts, hxs(c))
	}
	g.run(strings.Join(parts, " "))
}

// a relayer registered for several chains in NON-sorted order with pairwise different counterparty
// addresses, followed by a receive from each of its chains: Chains[i] / Addresses[i] must stay paired
func (g *c06Gen) genMultichain() {
	r := g.r
	pool := []string{c06S, "nocl"}
	var tssChains []string
	for _, c := range []string{"tss-a", "tss-b", "tss-up"} {
		if _, ok := g.tss[c]; ok {
			tssChains = append(tssChains, c)
		}
	}
	pool = append(pool, tssChains...)
	perm := r.Rng.Perm(len(pool))
	k := 2 + r.Rng.Intn(len(pool)-1)
	chains := []string{}
	for _, i := range perm[:k] {
		chains = append(chains, pool[i])
	}
	if !c06Contains(chains, c06S) {
		chains[0] = c06S
	}
	if sort.StringsAreSorted(chains) {
		for i, j := 0, len(chains)-1; i < j; i, j = i+1, j-1 {
			chains[i], chains[j] = chains[j], chains[i]
		}
	}
	distinct := []string{"0xAbCdEf0000000000000000000000000000000001", "0xabcdef0000000000000000000000000000000002", "relayer-X", "0xfee0000000000000000000000000000000000003", "bsc-side-address"}
	ap := r.Rng.Perm(len(distinct))
	addrs := []string{}
	for i := range chains {
		addrs = append(addrs, distinct[ap[i]])
	}
	// the signer: the TSS account of one of the listed TSS chains if there is one (so that this chain accepts it too)
	a := c06Accts[r.Rng.Intn(c06NAcct-1)]
	raw, canon := a.lower, a.lower
	for _, c := range chains {
		if t, ok := g.tss[c]; ok {
			raw, canon = t, strings.ToLower(t)
			break
		}
	}
	parts := []string{"reg", "1", hxs(raw), fmt.Sprint(len(chains))}
	for _, c := range chains {
		parts = append(parts, hxs(c))
	}
	parts = append(parts, fmt.Sprint(len(addrs)))
	for _, c := range addrs {
		parts = append(parts, hxs(c))
	}
	g.run(strings.Join(parts, " "))
	for _, i := range r.Rng.Perm(len(chains)) {
		g.genRecv(raw, canon, chains[i], true)
		g.run(fmt.Sprintf("q %s %s %s", hxs(chains[i]), hxs(raw), hxs(strings.ToUpper(addrs[i]))))
	}
	if r.Rng.Intn(2) == 0 { // payout side: an acknowledgement naming one of these addresses
		g.genAck(raw, canon, chains[r.Rng.Intn(len(chains))], true)
	}
}

// the proof bytes the next message carries for a chain that is not S: explicit (directed step) or, for TSS
// chains, one of the five kinds at random in a third of the messages
func (g *c06Gen) proofField(chain, raw string) string {
	if c06IsTM(chain) {
		return ""
	}
	if g.pf != "" {
		return g.pf
	}
	t, isTss := g.tss[chain]
	if !isTss || g.r.Rng.Intn(3) > 0 {
		return ""
	}
	k := g.r.Rng.Intn(10)
	if k == 9 && g.r.Rng.Intn(10) > 0 {
		k = 1 // the 64 KiB proof only now and then
	}
	return " pf=" + g.proofKind(k, t, raw)
}

// (a) empty (b) garbage (c) exactly the configured TSS address string (d) another account's address (e) the signer's own address
func (g *c06Gen) proofKind(k int, tssAddr, raw string) string {
	switch k {
	case 0:
		return "-"
	case 1:
		return hx([]byte{0xde, 0xad, 0xbe, 0xef, byte(g.r.Rng.Intn(256))})
	case 2:
		return hxs(tssAddr)
	case 5, 6, 7, 8, 9: // boundary lengths 1, 20, 32, 64, 1<<16 (0 is kind (a))
		n := map[int]int{5: 1, 6: 20, 7: 32, 8: 64, 9: 1 << 16}[k]
		b := make([]byte, n)
		for i := range b {
			b[i] = byte(g.r.Rng.Intn(256))
		}
		return hx(b)
	case 3:
		for i := 0; i < 20; i++ {
			if a := c06Accts[g.r.Rng.Intn(c06NAcct)]; !c06SameAccount(a.lower, tssAddr) && !c06SameAccount(a.lower, raw) {
				return hxs(a.lower)
			}
		}
		return hxs(c06Accts[0].lower)
	}
	return hxs(raw)
}

// a committed sequence towards dst whose EVM callbacks succeed, at the head of the queue
func (g *c06Gen) okCommit(dst string) {
	for len(g.commits[dst]) > 0 && !c06EvmOK(g.commits[dst][0]) {
		g.commits[dst] = g.commits[dst][1:]
	}
	for len(g.commits[dst]) == 0 {
		g.ackSeq[dst]++
		seq := g.ackSeq[dst]
		g.run(fmt.Sprintf("mkcommit %s %s %d", hxs(c06T), hxs(dst), seq))
		if c06EvmOK(seq) {
			g.commits[dst] = append(g.commits[dst], seq)
		}
	}
}

// Start of the module from a genesis DOCUMENT that passes Validate() and is unusual: metadata under the reserved keys
// (naming another TSS account, another Tendermint client state / validator set), duplicate metadata keys, metadata for
// a chain without client (refused), relayers listed twice / in another spelling / for chains without clients — followed
// by the usual attempts of the configured account T, the account A the metadata names, registered and unregistered relayers.
func (g *c06Gen) genGenesis(class string) {
	r := g.r
	// clients section: the two Tendermint counterparties and a TSS chain x with account T
	x := []string{"tss-a", "tss-b", "TSS-A"}[r.Rng.Intn(3)]
	perm := r.Rng.Perm(c06NAcct)
	Tacc, Aacc, Racc, Uacc := c06Accts[perm[0]], c06Accts[perm[1]], c06Accts[perm[2]], c06Accts[perm[3]]
	clients := [][4]string{{hxs(c06S), "oth", "1", "-"}, {hxs(c06S2), "oth", "1", "-"}, {hxs(x), "tss", "1", hxs(Tacc.lower)}}
	var metas [][4]string
	type rel struct {
		addr          string
		chains, addrs []string
	}
	rels := []rel{{Tacc.lower, []string{x, c06S}, []string{"gen-t-on-x", "gen-t-on-s"}}, {Racc.lower, []string{x, c06S2}, []string{"gen-r-on-x", "gen-r-on-s2"}},
		{Aacc.lower, []string{x}, []string{"gen-a-on-x"}}}
	key := hx([]byte("c06Key"))
	switch class {
	case "reserved-clientstate-tss":
		metas = append(metas, [4]string{hxs(x), "cstss", hxs(Aacc.lower), "-"})
	case "reserved-clientstate-tm":
		metas = append(metas, [4]string{hxs(c06S), "csoth", "-", "2"})
	case "reserved-consensus-listed":
		metas = append(metas, [4]string{hxs(c06S), "cons", fmt.Sprint(g.w.T.GetClientState(c06S).GetLatestHeight().GetRevisionHeight()), "2"})
	case "reserved-consensus-unlisted":
		metas = append(metas, [4]string{hxs(c06S), "cons", fmt.Sprint(g.w.T.GetClientState(c06S).GetLatestHeight().GetRevisionHeight() + 1000), "2"})
	case "duplicate-metadata-keys":
		metas = append(metas, [4]string{hxs(x), "raw", key, "1"}, [4]string{hxs(x), "raw", key, "2"}, [4]string{hxs(x), "cstss", hxs(Aacc.lower), "-"}, [4]string{hxs(x), "cstss", hxs(Uacc.lower), "-"})
	case "metadata-without-client":
		metas = append(metas, [4]string{hxs("nocl"), "raw", key, "1"})
	case "relayers-twice":
		rels = append(rels, rel{Racc.lower, []string{"nocl"}, []string{"gen-r-second-entry"}})
	case "relayers-other-spelling":
		rels = append(rels, rel{Uacc.upper, []string{x, c06S}, []string{"gen-u-upper", "gen-u-upper-s"}})
	case "relayers-chains-without-clients":
		rels = append(rels, rel{Uacc.lower, []string{"nocl", "ghost-chain"}, []string{"g1", "g2"}})
	case "invalid-tss-address":
		clients[2][2], clients[2][3] = "0", hxs("cosmos1notanaddress")
	case "second-tss-client-same-metadata":
		clients = append(clients, [4]string{hxs("tss-up"), "tss", "1", hxs(Racc.lower)})
		metas = append(metas, [4]string{hxs("tss-up"), "cstss", hxs(Aacc.lower), "-"}, [4]string{hxs(x), "cstss", hxs(Racc.lower), "-"})
	}
	parts := []string{"genesis", class, hxs(c06T), "C", fmt.Sprint(len(clients))}
	for _, c := range clients {
		parts = append(parts, c[0], c[1], c[2], c[3])
	}
	parts = append(parts, "S", "0", "M", fmt.Sprint(len(metas)))
	for _, m := range metas {
		parts = append(parts, m[0], m[1], m[2], m[3])
	}
	parts = append(parts, "R", fmt.Sprint(len(rels)))
	for _, rl := range rels {
		parts = append(parts, hxs(rl.addr), fmt.Sprint(len(rl.chains)))
		for _, c := range rl.chains {
			parts = append(parts, hxs(c))
		}
		parts = append(parts, fmt.Sprint(len(rl.addrs)))
		for _, c := range rl.addrs {
			parts = append(parts, hxs(c))
		}
	}
	out := g.run(strings.Join(parts, " "))
	if !strings.HasPrefix(out, "ok") {
		return
	}
	// the generator's aim follows the document
	g.tss = map[string]string{x: Tacc.lower}
	if class == "second-tss-client-same-metadata" {
		g.tss["tss-up"] = Racc.lower
	}
	payout := "gen-t-on-x"
	for _, a := range []c06Acct{Tacc, Aacc, Racc, Uacc} {
		g.run(fmt.Sprintf("q %s %s %s", hxs(x), hxs(a.lower), hxs("GEN-T-ON-X")))
		g.genUpd(a.lower, a.lower, x, true)
		g.genRecv(a.lower, a.lower, x, true)
		g.okCommit(x)
		g.forceRl = &payout
		g.genAck(a.lower, a.lower, x, true)
		g.forceRl = nil
		g.genUpd(a.lower, a.lower, c06S, true)
		g.genRecv(a.lower, a.lower, c06S, true)
		g.genRecv(a.lower, a.lower, c06S2, true)
	}
	g.genRecv(Uacc.upper, Uacc.lower, x, true)
}

var c06GenesisClasses = []string{"honest", "reserved-clientstate-tss", "reserved-clientstate-tm", "reserved-consensus-listed", "reserved-consensus-unlisted",
	"duplicate-metadata-keys", "metadata-without-client", "relayers-twice", "relayers-other-spelling", "relayers-chains-without-clients", "invalid-tss-address",
	"second-tss-client-same-metadata"}

// Restart in the middle of a history with at least two relayers registered for the same chain and others for
// different chains: afterwards every relayer keeps exactly its own chains and its own counterparty addresses.
func (g *c06Gen) genRestart(mode string) {
	r := g.r
	x := []string{c06S, c06S2}[r.Rng.Intn(2)]
	other := []string{"nocl", "tss-b", "Tss-A", c06SUp, c06S, c06S2}[r.Rng.Intn(6)]
	if other == x {
		other = "nocl"
	}
	perm := r.Rng.Perm(c06NAcct - 1)
	A, B, C := c06Accts[perm[0]], c06Accts[perm[1]], c06Accts[perm[2]]
	g.run(fmt.Sprintf("reg 1 %s 2 %s %s 2 %s %s", hxs(A.lower), hxs(x), hxs(other), hxs("restart-a-on-x"), hxs("restart-a-on-other")))
	g.run(fmt.Sprintf("reg 1 %s 1 %s 1 %s", hxs(B.lower), hxs(x), hxs("restart-b-on-x")))
	g.run(fmt.Sprintf("reg 1 %s 1 %s 1 %s", hxs(C.lower), hxs(other), hxs("restart-c-on-other")))
	g.run("restart " + mode)
	for _, a := range []c06Acct{A, B, C} {
		for _, c := range []string{x, other} {
			g.run(fmt.Sprintf("q %s %s %s", hxs(c), hxs(a.lower), hxs("RESTART-B-ON-X")))
			g.genUpd(a.lower, a.lower, c, true)
			g.genRecv(a.lower, a.lower, c, true)
		}
	}
	g.genAck(A.lower, A.lower, x, true)
}

// more than 100 relayers, and one relayer with more than 100 chains, across a restart
func (g *c06Gen) genManyRelayers(mode string) {
	r := g.r
	n := 101 + r.Rng.Intn(25)
	for i := 0; i < n; i++ {
		addr := sdk.AccAddress(append(make([]byte, 18), byte(i/256+1), byte(i))).String()
		g.run(fmt.Sprintf("reg 1 %s 1 %s 1 %s", hxs(addr), hxs(c06Chains[i%4]), hxs(fmt.Sprintf("many-%03d", i))))
	}
	big := c06Accts[r.Rng.Intn(c06NAcct-1)]
	m := 101 + r.Rng.Intn(20)
	parts := []string{"reg", "1", hxs(big.lower), fmt.Sprint(m)}
	for i := 0; i < m; i++ {
		c := fmt.Sprintf("chain-%03d", i)
		if i == m-1 {
			c = c06S // the chain that matters comes last
		}
		parts = append(parts, hxs(c))
	}
	parts = append(parts, fmt.Sprint(m))
	for i := 0; i < m; i++ {
		parts = append(parts, hxs(fmt.Sprintf("big-%03d", i)))
	}
	g.run(strings.Join(parts, " "))
	g.run("restart " + mode)
	last := sdk.AccAddress(append(make([]byte, 18), byte((n-1)/256+1), byte(n-1))).String()
	g.run(fmt.Sprintf("q %s %s %s", hxs(c06Chains[(n-1)%4]), hxs(last), hxs(fmt.Sprintf("MANY-%03d", n-1))))
	g.run(fmt.Sprintf("q %s %s %s", hxs(c06S), hxs(big.lower), hxs(fmt.Sprintf("big-%03d", m-1))))
	g.run(fmt.Sprintf("q %s %s %s", hxs("chain-100"), hxs(big.lower), hxs("big-100")))
	g.genUpd(big.lower, big.lower, c06S, true)
	g.genRecv(big.lower, big.lower, c06S, true)
	g.genAck(big.lower, big.lower, c06S, true)
}

// A registration that only ran on a DISCARDED context branch (dry run of a submitted proposal, failed multi-step
// execution, a real MsgSubmitProposal that never passes) confers nothing: afterwards the named account tries every
// lookup / message kind on the named chain, previously registered accounts keep exactly what they had, and a
// discarded RE-registration does not move a registered relayer.
func (g *c06Gen) genDiscarded() {
	r := g.r
	modes := []string{"drop", "fail", "gov"}
	targets := []string{c06S, c06S2}
	for _, c := range c06TssChains {
		if _, ok := g.tss[c]; ok {
			targets = append(targets, c)
		}
	}
	x := targets[r.Rng.Intn(len(targets))]
	// the named account: the TSS account of a TSS chain, otherwise an account without committed registration for x
	var raw, canon string
	if t, ok := g.tss[x]; ok {
		raw, canon = t, strings.ToLower(t)
	} else {
		off := r.Rng.Intn(c06NAcct)
		for i := range c06Accts {
			a := c06Accts[(i+off)%c06NAcct]
			if reg, ok := g.w.lastReg[a.lower]; !ok || !c06Contains(reg.chains, x) {
				raw, canon = a.lower, a.lower
				break
			}
		}
		if raw == "" {
			return
		}
	}
	only := "dry-only-address"
	if c06IsTM(x) {
		seq := g.ackSeq[x] + 1
		if len(g.commits[x]) > 0 {
			seq = g.commits[x][0]
		}
		if only = c06PoolAckRelayer(seq); only == "" {
			only = "x"
		}
	}
	dry := func(addr string, chains, addrs []string) {
		if r.Rng.Intn(10) == 0 {
			addrs = addrs[:len(addrs)-1] // a proposal that fails ValidateBasic: not even dry-run
		}
		parts := []string{"regdry", modes[r.Rng.Intn(3)], "1", hxs(addr), fmt.Sprint(len(chains))}
		for _, c := range chains {
			parts = append(parts, hxs(c))
		}
		parts = append(parts, fmt.Sprint(len(addrs)))
		for _, c := range addrs {
			parts = append(parts, hxs(c))
		}
		g.run(strings.Join(parts, " "))
	}
	attempt := func(raw, canon, chain, rl string) {
		g.run(fmt.Sprintf("q %s %s %s", hxs(chain), hxs(raw), hxs(strings.ToUpper(rl))))
		g.genUpd(raw, canon, chain, true)
		g.genRecv(raw, canon, chain, true)
		if !c06IsTM(chain) {
			g.okCommit(chain)
		}
		g.forceRl = &rl
		g.genAck(raw, canon, chain, true)
		g.forceRl = nil
	}
	dry(raw, []string{x, "nocl"}, []string{only, "dry-2"})
	attempt(raw, canon, x, only)
	// a previously (committed) registered relayer of some chain: a discarded re-registration must not move it
	var regd []string
	for a := range g.w.lastReg {
		if c06AcctOf(strings.ToLower(a)) != nil {
			regd = append(regd, a)
		}
	}
	sort.Strings(regd)
	if len(regd) > 0 {
		ra := regd[r.Rng.Intn(len(regd))]
		reg := g.w.lastReg[ra]
		if len(reg.chains) > 0 && len(reg.addrs) == len(reg.chains) {
			keep := reg.chains[r.Rng.Intn(len(reg.chains))]
			rl, _ := reg.addrFor(keep)
			dry(ra, []string{"nocl", x}, []string{"moved-dry", only})
			attempt(ra, strings.ToLower(ra), keep, rl) // still what the committed registration says
			if keep != x {
				attempt(ra, strings.ToLower(ra), x, only) // and nothing more
			}
		}
	}
	if r.Rng.Intn(2) == 0 { // the same registration, committed: now it counts
		g.run(fmt.Sprintf("reg 1 %s 1 %s 1 %s", hxs(raw), hxs(x), hxs(only)))
		attempt(raw, canon, x, only)
	}
}

// Chain names that differ only in letter case are different chains. A signer registered for exactly one
// sibling attempts every message kind for the other one (everything else valid), is then moved to the target by a
// re-registration (now accepted), and moved away again (rejected again). The payout lookup of an acknowledgement
// gets a relayer field that is registered only under the sibling name.
func (g *c06Gen) genCaseSiblings() {
	r := g.r
	targets := []string{c06S}
	for _, c := range []string{"tss-a", "TSS-A", c06SUp} {
		if _, ok := g.tss[c]; ok {
			targets = append(targets, c)
		}
	}
	x := targets[r.Rng.Intn(len(targets))]
	sib := c06Siblings(x)
	y := sib[r.Rng.Intn(len(sib))]
	a := c06Accts[r.Rng.Intn(c06NAcct-1)]
	raw, canon := a.lower, a.lower
	if t, ok := g.tss[x]; ok {
		raw, canon = t, strings.ToLower(t)
	}
	only := "sibling-only-address"
	if c06IsTM(x) { // the acknowledgement S committed fixes the relayer field
		seq := g.ackSeq[x] + 1
		if len(g.commits[x]) > 0 {
			seq = g.commits[x][0]
		}
		only = c06PoolAckRelayer(seq)
		if only == "" {
			only = "x"
		}
	}
	reg := func(chain, oaddr string) {
		g.run(fmt.Sprintf("reg 1 %s 1 %s 1 %s", hxs(raw), hxs(chain), hxs(oaddr)))
	}
	attempt := func(chain, rl string) {
		g.run(fmt.Sprintf("q %s %s %s", hxs(chain), hxs(raw), hxs(strings.ToUpper(rl))))
		g.genUpd(raw, canon, chain, true)
		g.genRecv(raw, canon, chain, true)
		if !c06IsTM(chain) {
			g.okCommit(chain)
		}
		g.forceRl = &rl
		g.genAck(raw, canon, chain, true)
		g.forceRl = nil
	}
	reg(y, only)     // registered for the sibling only
	attempt(x, only) // ... must confer nothing for x (payout of `only` must not resolve for x either)
	if r.Rng.Intn(2) == 0 {
		attempt(y, only)
	}
	reg(x, "moved-to-target") // re-registration moves the signer to x
	attempt(x, "moved-to-target")
	reg(y, only) // ... and away again
	attempt(x, only)
}

// TSS-secured chain: receives and acknowledgements whose own proof field is empty / garbage / the TSS address /
// another address / the signer's address — from the TSS account, from a registered relayer that is not the
// TSS account, from an unregistered account. Everything else is valid, so the signer is the only obstacle.
func (g *c06Gen) genTssProofs() {
	r := g.r
	var cands []string
	for _, c := range c06TssChains {
		if _, ok := g.tss[c]; ok {
			cands = append(cands, c)
		}
	}
	if len(cands) == 0 {
		return
	}
	c := cands[r.Rng.Intn(len(cands))]
	t := g.tss[c]
	regOp := func(addr string, oaddr string) {
		g.run(fmt.Sprintf("reg 1 %s 1 %s 1 %s", hxs(addr), hxs(c), hxs(oaddr)))
	}
	payout := "0xfee0000000000000000000000000000000000003"
	regOp(t, payout)
	var other, unreg *c06Acct
	off := r.Rng.Intn(c06NAcct)
	for i := range c06Accts {
		a := &c06Accts[(i+off)%c06NAcct]
		if c06SameAccount(a.lower, t) {
			continue
		}
		_, r1 := g.w.lastReg[a.lower]
		_, r2 := g.w.lastReg[a.upper]
		if unreg == nil && !r1 && !r2 {
			unreg = a // never registered, in no spelling
		} else if other == nil {
			other = a // becomes a registered relayer of this chain below
		}
	}
	signers := [][2]string{{t, strings.ToLower(t)}}
	if other != nil {
		regOp(other.lower, "relayer-X")
		signers = append(signers, [2]string{other.lower, other.lower})
	}
	if unreg != nil {
		signers = append(signers, [2]string{unreg.lower, unreg.lower})
	}
	g.forceRl = &payout
	defer func() { g.forceRl, g.pf = nil, "" }()
	kinds := append(r.Rng.Perm(5), 5+r.Rng.Intn(4))
	if r.Rng.Intn(6) == 0 {
		kinds = append(kinds, 9)
	}
	for _, k := range kinds {
		for _, si := range r.Rng.Perm(len(signers)) {
			sg := signers[si]
			g.pf = " pf=" + g.proofKind(k, t, sg[0])
			g.genRecv(sg[0], sg[1], c, true)
			g.okCommit(c)
			g.pf = " pf=" + g.proofKind(k, t, sg[0])
			g.genAck(sg[0], sg[1], c, true)
		}
	}
}

func c06B(b bool) string {
	if b {
		return "1"
	}
	return "0"
}

func (g *c06Gen) genRecv(raw, canon, src string, valid bool) string {
	dst := c06T
	if src == c06T { // only acceptable with a client for the chain's own name: relay / destination-not-found branches
		dst = []string{"nocl", "no-client-2", "tss-a", "tss-b", c06S}[g.r.Rng.Intn(5)]
	}
	if src == c06T && g.recvSeq[src] == 0 {
		// relayed packets of this chain get sequences of their own: a relay receive OVERWRITES an existing commitment
		// of the same triple (mkcommit / acks use 1, 2, …), which the model (commitments as a set) does not describe
		g.recvSeq[src] = 500
	}
	seq := g.recvSeq[src] + 1
	kind := 1 + g.r.Rng.Intn(c06Kinds-1) // every outcome class of the receive callback
	if g.kind > 0 {
		kind = g.kind
	}
	proofOK := true
	if !valid {
		switch g.r.Rng.Intn(12) {
		case 0:
			dst = g.pick(c06Chains)
		case 1:
			if src == c06T && seq > 501 {
				seq = 501 + uint64(g.r.Rng.Intn(int(seq-501)))
			} else if src != c06T && seq > 1 {
				seq = 1 + uint64(g.r.Rng.Intn(int(seq-1))) // already received
			}
		case 2:
			seq = 0
		case 3:
			seq = 18446744073709551615
		case 4:
			kind = 0
		case 5, 6:
			proofOK = false
		}
	}
	if c06IsTM(src) {
		if valid || g.r.Rng.Intn(4) > 0 {
			kind = c06PoolKind(seq) // the packet S committed
		}
		if seq == 0 || seq > c06Pool || dst != c06T || kind != c06PoolKind(seq) {
			proofOK = false
		}
	}
	if !c06IsTM(src) && g.r.Rng.Intn(2) == 0 {
		proofOK = !proofOK // ignored for TSS / absent clients
	}
	out := g.run(fmt.Sprintf("recv %s %s %s %s %d %d %s ?", hxs(raw), hxs(canon), hxs(src), hxs(dst), seq, kind, c06B(proofOK)) + g.proofField(src, raw))
	if strings.HasPrefix(out, "ok") && seq == g.recvSeq[src]+1 {
		g.recvSeq[src] = seq
	}
	return out
}

// a re-registration that keeps the ADDRESS LIST and changes / swaps the CHAIN LIST (same length): the relayer
// must lose the dropped chains and gain the new ones, and each address now belongs to the chain at its position
func (g *c06Gen) genSameAddrsRereg() {
	r := g.r
	pool := []string{c06S, "nocl"}
	for _, c := range c06TssChains {
		if _, ok := g.tss[c]; ok {
			pool = append(pool, c)
		}
	}
	pool = append(pool, "tss-b", "Tss-A")
	perm := r.Rng.Perm(len(pool))
	k := 1 + r.Rng.Intn(3)
	var chains []string
	for _, i := range perm[:k] {
		chains = append(chains, pool[i])
	}
	distinct := []string{"0xAbCdEf0000000000000000000000000000000001", "0xabcdef0000000000000000000000000000000002", "relayer-X", "0xfee0000000000000000000000000000000000003"}
	ap := r.Rng.Perm(len(distinct))
	var addrs []string
	for i := range chains {
		addrs = append(addrs, distinct[ap[i]])
	}
	a := c06Accts[r.Rng.Intn(c06NAcct-1)]
	raw, canon := a.lower, a.lower
	for _, c := range chains {
		if t, ok := g.tss[c]; ok && r.Rng.Intn(2) == 0 {
			raw, canon = t, strings.ToLower(t)
			break
		}
	}
	regOp := func(cs []string) {
		parts := []string{"reg", "1", hxs(raw), fmt.Sprint(len(cs))}
		for _, c := range cs {
			parts = append(parts, hxs(c))
		}
		parts = append(parts, fmt.Sprint(len(addrs)))
		for _, c := range addrs {
			parts = append(parts, hxs(c))
		}
		g.run(strings.Join(parts, " "))
	}
	probe := func(cs []string) {
		for i, c := range cs {
			g.run(fmt.Sprintf("q %s %s %s", hxs(c), hxs(raw), hxs(strings.ToUpper(addrs[i%len(addrs)]))))
			g.genUpd(raw, canon, c, true)
			g.genRecv(raw, canon, c, true)
		}
	}
	regOp(chains)
	probe(chains)
	// new chain list of the same length: swapped order, or some chains replaced
	next := append([]string{}, chains...)
	if k > 1 && r.Rng.Intn(2) == 0 {
		next[0], next[k-1] = next[k-1], next[0]
	} else {
		for i := range next {
			if r.Rng.Intn(2) == 0 || k == 1 {
				for _, j := range r.Rng.Perm(len(pool)) {
					if !c06Contains(chains, pool[j]) && !c06Contains(next, pool[j]) {
						next[i] = pool[j]
						break
					}
				}
			}
		}
	}
	regOp(next)
	probe(chains) // the dropped chains must be gone, the kept ones answer with the address at their NEW position
	probe(next)
}

func (g *c06Gen) genAck(raw, canon, dst string, valid bool) string {
	src := c06T
	// a committed, not yet acknowledged sequence
	if len(g.commits[dst]) == 0 {
		g.ackSeq[dst]++
		seq := g.ackSeq[dst]
		g.run(fmt.Sprintf("mkcommit %s %s %d", hxs(src), hxs(dst), seq))
		g.commits[dst] = append(g.commits[dst], seq)
	}
	seq := g.commits[dst][0]
	genuine, proofOK, dec := true, true, true
	rl := g.pick(c06OtherAddrs)
	if g.forceRl != nil {
		rl = *g.forceRl
	}
	if c06IsTM(dst) {
		rl = c06PoolAckRelayer(seq)
	}
	hasData := true
	if !valid {
		switch g.r.Rng.Intn(10) {
		case 0:
			genuine = false
		case 1, 2:
			proofOK = false
		case 3:
			dec = false
		case 4:
			rl = g.pick(c06OtherAddrs)
		case 5:
			seq += 50 // no commitment
		case 6:
			src = g.pick(c06Chains)
		case 7:
			hasData = false
		}
	}
	if rl == "" && seq%4 != 2 {
		dec = false // all-default acknowledgement: refused by the msg server
	}
	if c06IsTM(dst) && (seq > c06Pool || src != c06T || !c06AckWellFormed(seq, rl, dec) || rl != c06PoolAckRelayer(seq)) {
		proofOK = false
	}
	if !c06IsTM(dst) && g.r.Rng.Intn(2) == 0 {
		proofOK = !proofOK
	}
	out := g.run(fmt.Sprintf("ack %s %s %s %s %d %s %s %s %s %s %s", hxs(raw), hxs(canon), hxs(src), hxs(dst), seq, c06B(hasData),
		c06B(genuine), c06B(proofOK), hxs(rl), c06B(dec), c06B(c06EvmOK(seq))) + g.proofField(dst, raw))
	if len(g.commits[dst]) > 0 && seq == g.commits[dst][0] && (strings.HasPrefix(out, "ok") || (valid && !c06EvmOK(seq))) {
		// acknowledged — or a sequence whose EVM callbacks can never succeed: do not get stuck on it
		g.commits[dst] = g.commits[dst][1:]
	}
	return out
}

func (g *c06Gen) genUpd(raw, canon, chain string, valid bool) string {
	nt := "none"
	want := "?"
	if _, isTss := g.tss[chain]; isTss && (valid || g.r.Rng.Intn(2) == 0) {
		nt = hxs(c06Accts[g.r.Rng.Intn(c06NAcct)].lower)
	} else if !valid {
		switch g.r.Rng.Intn(3) {
		case 0:
			want = "0" // tampered Tendermint header
		case 1:
			nt = hxs(c06Accts[g.r.Rng.Intn(c06NAcct)].lower) // TSS header for a non-TSS client
		}
	}
	return g.run(fmt.Sprintf("upd %s %s %s %s %s", hxs(raw), hxs(canon), hxs(chain), want, nt))
}

func (g *c06Gen) history(steps int, sweep bool) {
	r := g.r
	g.tss = map[string]string{}
	g.recvSeq = map[string]uint64{}
	g.commits = map[string][]uint64{}
	g.ackSeq = map[string]uint64{}
	g.run("reset " + hxs(c06T))
	g.run("mkclient " + hxs(c06S) + " oth")
	g.run("mkclient " + hxs(c06S2) + " oth")
	for _, c := range c06TssChains {
		if r.Rng.Intn(10) < 7 {
			a := c06Accts[r.Rng.Intn(c06NAcct)]
			addr := a.lower
			if c == "tss-up" && r.Rng.Intn(3) > 0 {
				addr = a.upper
			}
			g.tss[c] = addr
			g.run("mkclient " + hxs(c) + " tss " + hxs(addr))
		}
	}
	// a client under the chain's OWN name (only creatable below governance: the proposal handler refuses it)
	selfClient := r.Rng.Intn(4) == 0
	if selfClient {
		a := c06Accts[r.Rng.Intn(c06NAcct)]
		g.tss[c06T] = a.lower
		g.run("mkclient " + hxs(c06T) + " tss " + hxs(a.lower))
	}
	n := 1 + r.Rng.Intn(6)
	for i := 0; i < n; i++ {
		g.genReg(g.pick(c06Chains))
	}
	if r.Rng.Intn(2) == 0 {
		g.genMultichain()
	}
	if r.Rng.Intn(3) == 0 {
		g.genTssProofs()
	}
	if r.Rng.Intn(2) == 0 {
		g.genCaseSiblings()
	}
	if r.Rng.Intn(2) == 0 {
		g.genSameAddrsRereg()
	}
	if r.Rng.Intn(2) == 0 {
		g.genDiscarded()
	}
	if x := r.Rng.Intn(8); x < 2 {
		g.genRestart("module")
	} else if x == 2 {
		g.genRestart("app")
	}
	if r.Rng.Intn(3) == 0 {
		g.genGenesis(c06GenesisClasses[g.genesisNext%len(c06GenesisClasses)])
		g.genesisNext++
	}
	if g.heavy {
		g.genManyRelayers([]string{"module", "app"}[r.Rng.Intn(2)])
	}
	if selfClient && g.tss[c06T] != "" { // a start from a genesis document may have dropped the own-name client
		// receives of packets whose source is this chain: destination without client (error ack "dstChain not
		// found") or with client (relay, no ack) — from the TSS account of the own-name client, registered for it
		t := g.tss[c06T]
		g.run(fmt.Sprintf("reg 1 %s 2 %s %s 2 %s %s", hxs(t), hxs("nocl"), hxs(c06T), hxs("wrong-chain-address"), hxs("own-name-address")))
		for i := 0; i < 4; i++ {
			g.genRecv(t, strings.ToLower(t), c06T, true)
		}
	}
	for i := 0; i < steps; i++ {
		if r.Rng.Intn(50) == 0 {
			g.genSameAddrsRereg()
		}
		if r.Rng.Intn(50) == 0 {
			g.genCaseSiblings()
		}
		if r.Rng.Intn(40) == 0 {
			g.genMultichain()
		}
		chain := g.pick(c06Chains)
		if r.Rng.Intn(3) > 0 {
			chain = g.pick(append([]string{c06S2}, c06Chains[:4]...))
		}
		valid := r.Rng.Intn(4) > 0
		var raw, canon string
		if r.Rng.Intn(10) < 6 {
			raw, canon = g.signerFor(chain)
		} else {
			raw, canon = g.signer()
		}
		switch x := r.Rng.Intn(100); {
		case x < 2:
			g.genDiscarded()
		case x < 3:
			g.run("restart " + []string{"module", "module", "app"}[r.Rng.Intn(3)])
		case x < 14:
			g.genReg(chain)
		case x < 24:
			g.run(fmt.Sprintf("q %s %s %s", hxs(chain), hxs(raw), hxs(g.pick(c06OtherAddrs))))
		case x < 44:
			g.genUpd(raw, canon, chain, valid)
		case x < 80:
			g.genRecv(raw, canon, chain, valid)
		default:
			g.genAck(raw, canon, chain, valid)
		}
	}
	if sweep {
		// every (signer, chain, message kind) combination, everything else valid
		for _, a := range c06Accts {
			for _, raw := range []string{a.lower, a.upper} {
				for _, chain := range c06Chains {
					var outs [3]string
					outs[0] = g.genUpd(raw, a.lower, chain, true)
					outs[1] = g.genRecv(raw, a.lower, chain, true)
					outs[2] = g.genAck(raw, a.lower, chain, true)
					for _, o := range outs {
						r.Count("sweep.combinations")
						if strings.HasPrefix(o, "ok") {
							r.Count("sweep.accepted")
						}
					}
				}
			}
		}
	}
}

func TestC06(t *testing.T) {
	r := NewRec(t, "C06")
	defer r.Close()
	var w *c06World
	var ew *c06EvmWorld
	g := &c06Gen{r: r}
	// building a chain already needs the packet module to call the packet contract (setChainName): if the
	// module address computed by the Go code and the guard constant of the byte code disagree, this fails
	setupFailed := func(op, msg string) {
		if len(msg) > 300 {
			msg = msg[:300]
		}
		r.Find(Finding{Sig: "C06/positive-control-failed/chain-setup", What: "a chain cannot be set up: the chain's own module call into the system contracts fails",
			Ops: []string{op}, Obs: msg, Req: "module calls pass the contracts' caller guards"})
		r.Op(op, "setup-failed")
	}
	failed := false
	histKey := ""
	run := func(op string) string {
		var out string
		if failed {
			return "skipped"
		}
		switch strings.Fields(op)[0] {
		case "evmreset":
			if p, m := safely(func() { ew = newC06EvmWorld(t); c06CurEvm = ew }); p {
				failed = true
				setupFailed(op, m)
				return "setup-failed"
			}
			ew.hist = []string{op}
			r.Op(op, "ok")
			return "ok"
		case "addr", "const", "row", "call", "whoami", "emit", "emitmix", "spoof", "evmrestart", "evmupgrade":
			if ew == nil {
				t.Fatalf("op before evmreset: %s", op)
			}
			out = ew.apply(r, op)
			r.Op(op, out)
			if strings.HasPrefix(op, "call") {
				r.Nontrivial(op)
			}
			return out
		}
		if strings.HasPrefix(op, "reset") {
			if p, m := safely(func() { w = newC06World(t) }); p {
				failed = true
				setupFailed(op, m)
				return "setup-failed"
			}
			g.w = w
			w.hist = []string{op}
			out = "ok"
			if f := strings.Fields(op); len(f) != 2 || string(unhx(f[1])) != w.T.ChainID {
				out = "bad-op"
			}
		} else if w == nil {
			t.Fatalf("op before reset: %s", op)
		} else {
			op, out = w.apply(r, op)
		}
		r.Op(op, out)
		// distinct = distinct history prefix ending in a message; keyed by a running digest of the history (the joined
		// text itself would be quadratic in memory: that made long thorough runs thrash)
		if strings.HasPrefix(op, "reset") {
			histKey = ""
		}
		sum := sha256.Sum256([]byte(histKey + "\n" + op))
		histKey = hex.EncodeToString(sum[:12])
		if strings.HasPrefix(op, "upd") || strings.HasPrefix(op, "recv") || strings.HasPrefix(op, "ack") {
			r.Nontrivial(histKey)
		}
		return out
	}
	g.run = run
	if ops := replayOps(t); ops != nil {
		for _, op := range ops {
			run(op)
		}
		return
	}
	for _, h := range corpusOps("C06") {
		if len(h) == 0 || !(strings.HasPrefix(h[0], "reset") || h[0] == "evmreset") {
			run("reset " + hxs(c06T))
		}
		for _, op := range h {
			run(op)
		}
	}
	c06EvmTable(run)
	hist, sweepEvery := 80, 10
	if r.Tier == "thorough" {
		hist, sweepEvery = 300, 5
	}
	if n := envInt("VERIF_N", 0); n > 0 {
		hist = int(n)
	}
	for i := 0; i < hist; i++ {
		g.heavy = i%40 == 7 // > 100 relayers / > 100 chains: in a few histories only
		g.history(10+r.Rng.Intn(30), i%sweepEvery == sweepEvery-1)
	}
}

// the exhaustive {non-view method} x {call path} table of the contract level
// the world of the current contract-level table (for the address a contract creation by the EOA will get)
var c06CurEvm *c06EvmWorld

func c06NextCreate() string {
	w := c06CurEvm
	nonce := w.app.EvmKeeper.GetNonce(w.mw.T.GetContext(), c06EOA.addr2())
	return hx(crypto.CreateAddress(c06EOA.addr2(), nonce).Bytes())
}

func c06EvmTable(run func(string) string) {
	run("evmreset")
	c06EvmTableBody(run, true)
	// guards live in the byte code and its constants: a restart from the exported state and the v0.2 upgrade handler
	// (which deletes and re-installs the system contracts) must leave every cell as it was
	run("evmrestart")
	c06EvmTableBody(run, false)
	run("evmupgrade")
	c06EvmTableBody(run, false)
}

func c06EvmTableBody(run func(string) string, first bool) {
	classes := []string{"packetModule", "aggregateModule", "packetContract", "endpointContract", "executeContract"}
	var addrs []string
	for _, c := range classes {
		a, _ := (&c06EvmWorld{}).classAddr(c)
		addrs = append(addrs, hx(a.Bytes()))
		if first {
			run("addr " + c + " " + hx(a.Bytes()))
		}
	}
	run("const packet packetModule")
	run("const endpoint aggregateModule")
	run("const endpoint packetContract")
	run("const packet endpointContract")
	eoa := hx(c06EOA.addr)
	helper := func(kind string, a common.Address) []string { return []string{kind, eoa, hx(a.Bytes())} }
	for _, p := range [][]string{{"eoa", eoa}, {"contract", eoa, hx(c06ForwarderAddr.Bytes())}, {"execute", eoa}, {"packet"}, {"module", addrs[0]}, {"module", addrs[1]},
		helper("delegatecall", c06DelegateAddr), helper("callcode", c06CallcodeAddr), helper("staticcall", c06StaticAddr)} {
		run("whoami " + strings.Join(p, " "))
	}
	run("emit " + eoa + " " + hx(c06EmitterAddr.Bytes()))
	run("emit packet " + hx(c06EmitterAddr.Bytes()))
	for _, via := range []string{eoa, "packet"} {
		for _, order := range []string{"g", "gf", "fg", "fgf", "gs", "ff", "ffg", "gsf"} {
			run("emitmix " + via + " " + order + " " + hx(c06EmitterAddr.Bytes()))
		}
	}
	run("spoof agent-send")
	for _, m := range c06Methods() {
		out := run("row " + m.contract + " " + m.name)
		if _, priv := c06PropertyCaller[m.contract+"."+m.name]; out == "row anyone" && !priv {
			continue // public entry point (no guard claimed by the property, none observed)
		}
		pre := "call " + m.contract + " " + m.name + " "
		run(pre + "eoa " + eoa)
		run(pre + "contract " + eoa + " " + hx(c06ForwarderAddr.Bytes()))
		run(pre + "contract " + eoa + " " + hx(c06SwallowAddr.Bytes()))
		run(pre + "delegatecall " + eoa + " " + hx(c06DelegateAddr.Bytes()))
		run(pre + "callcode " + eoa + " " + hx(c06CallcodeAddr.Bytes()))
		run(pre + "staticcall " + eoa + " " + hx(c06StaticAddr.Bytes()))
		run(pre + "ctor " + eoa + " " + c06NextCreate())
		run(pre + "execute " + eoa)
		run(pre + "packet")
		for _, a := range addrs {
			run(pre + "module " + a)
		}
		run(pre + "module " + eoa)
	}
}
