//go:build c03

package verifharness

// C03 — real-code side of the three-chain world: three app.Teleport instances wired with real Tendermint
// light clients through x/xibc/testing, tokens, bindings, relayers, and the primitive operations
// (EVM transaction, MsgRecvPacket, MsgAcknowledgement) without any `require` that would abort on a rejected message.

import (
	"bytes"
	"fmt"
	"math/big"
	"sort"
	"strconv"
	"strings"
	"testing"

	cryptotypes "github.com/cosmos/cosmos-sdk/crypto/types"
	"github.com/cosmos/cosmos-sdk/simapp/helpers"
	sdk "github.com/cosmos/cosmos-sdk/types"
	authtypes "github.com/cosmos/cosmos-sdk/x/auth/types"
	"github.com/ethereum/go-ethereum/accounts/abi"
	"github.com/ethereum/go-ethereum/common"
	ethtypes "github.com/ethereum/go-ethereum/core/types"
	"github.com/ethereum/go-ethereum/crypto"
	abci "github.com/tendermint/tendermint/abci/types"
	"github.com/tharsis/ethermint/crypto/ethsecp256k1"
	"github.com/tharsis/ethermint/server/config"
	"github.com/tharsis/ethermint/tests"
	evm "github.com/tharsis/ethermint/x/evm/types"

	"github.com/teleport-network/teleport/syscontracts"
	erc20contracts "github.com/teleport-network/teleport/syscontracts/erc20"
	stakingcontract "github.com/teleport-network/teleport/syscontracts/staking"
	agentcontract "github.com/teleport-network/teleport/syscontracts/xibc_agent"
	endpointcontract "github.com/teleport-network/teleport/syscontracts/xibc_endpoint"
	packetcontract "github.com/teleport-network/teleport/syscontracts/xibc_packet"
	aggregatetypes "github.com/teleport-network/teleport/x/aggregate/types"
	clienttypes "github.com/teleport-network/teleport/x/xibc/core/client/types"
	"github.com/teleport-network/teleport/x/xibc/core/host"
	packettypes "github.com/teleport-network/teleport/x/xibc/core/packet/types"
	xibctesting "github.com/teleport-network/teleport/x/xibc/testing"
)

const (
	c03NChains = 3
	c03Ghost   = 3 // chain index without any client anywhere
	// account ids of the op language
	c03AccUser     = 0
	c03AccEndpoint = 1
	c03AccPacket   = 2
	c03AccAgent    = 3
	c03AccExecute  = 4
	c03AccRelayer  = 5
	c03AccU6       = 6
	c03AccU7       = 7
	c03AccU8       = 8 // further sending accounts (own keys)
	c03AccU9       = 9
	c03AccFwd      = 10 // the forwarder (batching) contract, hand-assembled, deployed on every chain
	c03AccEmitter  = 11 // a contract that emits PacketSent-shaped logs (it is not the packet contract)
	c03AccSwitch   = 12 // a callback contract with a switch: while it is on, every call to it reverts
	// module accounts of the app (the same addresses on every chain): the bank refuses to credit the native coin to them
	// ("blocked addresses"). (The distribution account, the only module account allowed to receive, is left out: any direct
	// credit to it — a plain bank send just as well — breaks the distribution module's own accounting invariant and the
	// crisis module halts the chain at the next invariant check; that is outside this property.)
	c03AccGov       = 13
	c03AccFeeColl   = 14
	c03AccIbcTransf = 15
	c03AccBonded    = 16
	c03AccNotBonded = 17
	c03AccPacketMod = 18 // the xibc packet module account = the sender of the module's own EVM calls
	c03AccAggregate = 19
	c03AccEvmMod    = 20
	c03NAcc         = 21
)

type c03PacketRec struct {
	packet packettypes.Packet
	bytes  []byte
	ack    []byte // acknowledgement bytes written on the destination (from EventWriteAck), nil if none yet
}

type c03World struct {
	t     *testing.T
	coord *xibctesting.Coordinator
	ch    [c03NChains]*xibctesting.TestChain
	// token table: per chain, local id -> address (id 0 = native coin = zero address)
	tok [c03NChains]map[int]common.Address
	// every binding configured: chain, voucher id, origin chain, origin token id
	packets map[string]*c03PacketRec // "src/dst/seq"
	acc     [c03NAcc]common.Address
	keys    map[int]cryptotypes.PrivKey // sending accounts: 0 (the chains' sender account), 8, 9
	updKey  cryptotypes.PrivKey         // signs MsgUpdateClient only
	emitter common.Address              // a contract that emits PacketSent-shaped logs (it is not the packet contract)
	updAcc  sdk.AccAddress
}

func c03ChainName(i int) string {
	if i == c03Ghost {
		return "ghost-9"
	}
	return xibctesting.GetChainID(i)
}

func newC03World(t *testing.T) *c03World {
	w := &c03World{t: t, packets: map[string]*c03PacketRec{}}
	w.coord = xibctesting.NewCoordinator(t, c03NChains)
	for i := 0; i < c03NChains; i++ {
		w.ch[i] = w.coord.GetChain(xibctesting.GetChainID(i))
		w.tok[i] = map[int]common.Address{0: {}}
	}
	w.acc[c03AccUser] = w.ch[0].SenderAddress
	w.acc[c03AccEndpoint] = endpointcontract.EndpointContractAddress
	w.acc[c03AccPacket] = packetcontract.PacketContractAddress
	w.acc[c03AccAgent] = agentcontract.AgentContractAddress
	w.acc[c03AccExecute] = endpointcontract.ExecuteContractAddress
	w.acc[c03AccRelayer] = common.HexToAddress("0x00000000000000000000000000000000000c03e1")
	w.acc[c03AccU6] = common.HexToAddress("0x00000000000000000000000000000000000c03a6")
	w.acc[c03AccU7] = common.HexToAddress("0x00000000000000000000000000000000000c03a7")
	for a, name := range map[int]string{c03AccGov: "gov", c03AccFeeColl: "fee_collector", c03AccIbcTransf: "transfer", c03AccBonded: "bonded_tokens_pool",
		c03AccNotBonded: "not_bonded_tokens_pool", c03AccPacketMod: packettypes.SubModuleName, c03AccAggregate: aggregatetypes.ModuleName, c03AccEvmMod: evm.ModuleName} {
		w.acc[a] = common.BytesToAddress(authtypes.NewModuleAddress(name).Bytes())
	}
	w.keys = map[int]cryptotypes.PrivKey{c03AccUser: w.ch[0].SenderPrivKey}
	for _, a := range []int{c03AccU8, c03AccU9} {
		k, err := ethsecp256k1.GenerateKey()
		if err != nil {
			t.Fatal(err)
		}
		w.keys[a] = k
		w.acc[a] = common.BytesToAddress(k.PubKey().Address().Bytes())
	}
	fk, err := ethsecp256k1.GenerateKey()
	if err != nil {
		t.Fatal(err)
	}
	ek, err := ethsecp256k1.GenerateKey()
	if err != nil {
		t.Fatal(err)
	}
	sk, err := ethsecp256k1.GenerateKey()
	if err != nil {
		t.Fatal(err)
	}
	for i := 0; i < c03NChains; i++ {
		w.acc[c03AccFwd] = w.deployForwarder(i, fk)
		w.emitter = w.deployRaw(i, ek, c03InitCode(c03EmitterRuntime()), len(c03EmitterRuntime()))
		w.acc[c03AccEmitter] = w.emitter
		w.acc[c03AccSwitch] = w.deployRaw(i, sk, c03InitCode(c03SwitchRuntime()), len(c03SwitchRuntime()))
	}
	// clients between every ordered pair (no relayers yet)
	for i := 0; i < c03NChains; i++ {
		for j := i + 1; j < c03NChains; j++ {
			p := xibctesting.NewPath(w.ch[i], w.ch[j])
			w.coord.SetupClientsWithoutRelayer(p)
		}
	}
	// a dedicated account updates the light clients: registered for every chain on every chain, never touched by the
	// registry ops of a history (so that registry changes do not interfere with MsgUpdateClient, which is C02/C06 matter)
	uk, err := ethsecp256k1.GenerateKey()
	if err != nil {
		t.Fatal(err)
	}
	w.updKey = uk
	w.updAcc = sdk.AccAddress(uk.PubKey().Address().Bytes())
	for p := 0; p < c03NChains; p++ {
		var chains, names []string
		for q := 0; q < c03NChains; q++ {
			if q != p {
				chains = append(chains, c03ChainName(q))
				names = append(names, "client-updater")
			}
		}
		w.ch[p].App.XIBCKeeper.ClientKeeper.RegisterRelayers(w.ch[p].GetContext(), w.updAcc.String(), chains, names)
		for _, a := range []sdk.AccAddress{w.updAcc, sdk.AccAddress(w.acc[c03AccU8].Bytes()), sdk.AccAddress(w.acc[c03AccU9].Bytes())} {
			ctx := w.ch[p].GetContext()
			if w.ch[p].App.AccountKeeper.GetAccount(ctx, a) == nil {
				w.ch[p].App.AccountKeeper.SetAccount(ctx, w.ch[p].App.AccountKeeper.NewAccountWithAddress(ctx, a))
			}
		}
	}
	// the relayer registry proper starts EMPTY: the histories register relayers themselves (`register` ops; TestC03
	// inserts the default registration after every `reset`)
	w.commitAll()
	return w
}

// the name ("tag" n of the op language) a relayer goes by on a counterparty chain: an address string
func c03TagString(n int) string {
	return strings.ToLower(common.BigToAddress(big.NewInt(int64(0xEE0000 + n))).String())
}

// W(p,q): the default tag written on p into acknowledgements for packets from q (distinct per ordered pair)
func (w *c03World) relayerTag(p, q int) string { return c03TagString(p*16 + q) }

// rank of an account's registry entry in the store's iteration order (byte order of the bech32 address) among the
// accounts that can be registered
func (w *c03World) rank(acct int) int {
	mine := sdk.AccAddress(w.acc[acct].Bytes()).String()
	r := 0
	for _, a := range []int{c03AccUser, c03AccRelayer, c03AccU6, c03AccU7, c03AccU8, c03AccU9, c03AccGov, c03AccFeeColl, c03AccIbcTransf, c03AccBonded,
		c03AccNotBonded, c03AccPacketMod, c03AccAggregate, c03AccEvmMod} {
		if sdk.AccAddress(w.acc[a].Bytes()).String() < mine {
			r++
		}
	}
	return r
}

func (w *c03World) commitAll() {
	w.coord.CommitBlock(w.ch[0], w.ch[1], w.ch[2])
}

// ---- EVM helpers (no require) -----------------------------------------------------------------

func (w *c03World) viewCtx(i int) sdk.Context {
	ctx, _ := w.ch[i].GetContext().CacheContext()
	return ctx
}

// tryView: a view call that may fail (after a restart that lost a contract)
func (w *c03World) tryView(i int, a abi.ABI, contract common.Address, method string, args ...interface{}) ([]interface{}, error) {
	res, err := w.ch[i].App.XIBCKeeper.PacketKeeper.CallEVM(w.viewCtx(i), a, packettypes.ModuleAddress, contract, method, args...)
	if err != nil {
		return nil, err
	}
	return a.Unpack(method, res.Ret)
}

func (w *c03World) callView(i int, a abi.ABI, contract common.Address, method string, args ...interface{}) []interface{} {
	res, err := w.ch[i].App.XIBCKeeper.PacketKeeper.CallEVM(w.viewCtx(i), a, packettypes.ModuleAddress, contract, method, args...)
	if err != nil {
		w.t.Fatalf("view %s failed: %v", method, err)
	}
	out, err := a.Unpack(method, res.Ret)
	if err != nil {
		w.t.Fatalf("view %s unpack failed: %v", method, err)
	}
	return out
}

// sendTx executes an Ethereum transaction of the user account exactly like x/xibc/integration_test.go
// (EvmKeeper.EthereumTx on the deliver context) and reports failure instead of aborting.
func (w *c03World) sendTx(i int, to common.Address, value *big.Int, data []byte) (failed bool, vmErr string, events sdk.Events) {
	return w.sendTxAs(i, c03AccUser, to, value, data)
}

// sendTxAs: the same for any of the keyed accounts (0, 8, 9).
func (w *c03World) sendTxAs(i, acct int, to common.Address, value *big.Int, data []byte) (failed bool, vmErr string, events sdk.Events) {
	failed, vmErr, events, _ = w.sendTxLogs(i, acct, to, value, data)
	return
}

// sendTxLogs additionally returns the EVM logs of the receipt.
func (w *c03World) sendTxLogs(i, acct int, to common.Address, value *big.Int, data []byte) (failed bool, vmErr string, events sdk.Events, logs []*evm.Log) {
	c := w.ch[i]
	key, ok := w.keys[acct]
	if !ok {
		w.t.Fatalf("account %d has no key", acct)
	}
	from := w.acc[acct]
	sctx := c.GetContext()
	chainID := c.App.EvmKeeper.ChainID()
	nonce := c.App.EvmKeeper.GetNonce(sctx, from)
	tx := evm.NewTx(chainID, nonce, &to, value, config.DefaultGasCap, big.NewInt(0), big.NewInt(0), big.NewInt(0), data, &ethtypes.AccessList{})
	tx.From = from.Hex()
	if err := tx.Sign(ethtypes.LatestSignerForChainID(chainID), tests.NewSigner(key)); err != nil {
		w.t.Fatal(err)
	}
	rsp, err := c.App.EvmKeeper.EthereumTx(sdk.WrapSDKContext(sctx), tx)
	if err != nil {
		return true, err.Error(), nil, nil
	}
	return rsp.VmError != "", rsp.VmError, sctx.EventManager().Events(), rsp.Logs
}

func (w *c03World) deployERC20(i int) common.Address {
	c := w.ch[i]
	ctor, err := erc20contracts.ERC20MinterBurnerDecimalsContract.ABI.Pack("", "name", "symbol", uint8(18))
	if err != nil {
		w.t.Fatal(err)
	}
	data := append(append([]byte{}, erc20contracts.ERC20MinterBurnerDecimalsContract.Bin...), ctor...)
	nonce := c.App.EvmKeeper.GetNonce(c.GetContext(), endpointcontract.EndpointContractAddress)
	addr := crypto.CreateAddress(endpointcontract.EndpointContractAddress, nonce)
	res, err := c.App.AggregateKeeper.CallEVMWithData(c.GetContext(), endpointcontract.EndpointContractAddress, nil, data)
	if err != nil || res.Failed() {
		w.t.Fatalf("deploy failed: %v", err)
	}
	return addr
}

// asEndpoint executes a call with the endpoint contract as the sender (it holds the admin and minter roles
// of every token it deployed) — the same device the repository's integration test uses.
func (w *c03World) asEndpoint(i int, to common.Address, data []byte) {
	c := w.ch[i]
	res, err := c.App.AggregateKeeper.CallEVMWithData(c.GetContext(), endpointcontract.EndpointContractAddress, &to, data)
	if err != nil || res.Failed() {
		w.t.Fatalf("endpoint call failed: %v", err)
	}
}

func (w *c03World) erc20() abi.ABI { return erc20contracts.ERC20MinterBurnerDecimalsContract.ABI }

// mintERC20 reports whether the mint went through (it reverts when the total supply would pass 2^256-1)
func (w *c03World) mintERC20(i int, token, to common.Address, amt *big.Int) bool {
	data, _ := w.erc20().Pack("mint", to, amt)
	c := w.ch[i]
	res, err := c.App.AggregateKeeper.CallEVMWithData(c.GetContext(), endpointcontract.EndpointContractAddress, &token, data)
	return err == nil && !res.Failed()
}

func (w *c03World) balance(i int, token, who common.Address) *big.Int {
	if token == (common.Address{}) {
		return w.ch[i].App.BankKeeper.GetBalance(w.ch[i].GetContext(), sdk.AccAddress(who.Bytes()), "stake").Amount.BigInt()
	}
	return w.callView(i, w.erc20(), token, "balanceOf", who)[0].(*big.Int)
}

func (w *c03World) supply(i int, token common.Address) *big.Int {
	if token == (common.Address{}) {
		return w.ch[i].App.BankKeeper.GetSupply(w.ch[i].GetContext(), "stake").Amount.BigInt()
	}
	return w.callView(i, w.erc20(), token, "totalSupply")[0].(*big.Int)
}

func (w *c03World) allowance(i int, token, owner common.Address) *big.Int {
	if token == (common.Address{}) {
		return big.NewInt(0)
	}
	return w.callView(i, w.erc20(), token, "allowance", owner, endpointcontract.EndpointContractAddress)[0].(*big.Int)
}

func (w *c03World) outTokens(i int, token common.Address, dst string) *big.Int {
	return w.callView(i, endpointcontract.EndpointContract.ABI, endpointcontract.EndpointContractAddress, "outTokens", token, dst)[0].(*big.Int)
}

func (w *c03World) binding(i int, token common.Address, oriChain string) aggregatetypes.BindingsResponse {
	res, err := w.ch[i].App.XIBCKeeper.PacketKeeper.CallEVM(w.viewCtx(i), endpointcontract.EndpointContract.ABI, aggregatetypes.ModuleAddress,
		endpointcontract.EndpointContractAddress, "bindings", strings.ToLower(token.String())+"/"+oriChain)
	if err != nil {
		w.t.Fatal(err)
	}
	var b aggregatetypes.BindingsResponse
	if err := endpointcontract.EndpointContract.ABI.UnpackIntoInterface(&b, "bindings", res.Ret); err != nil {
		w.t.Fatal(err)
	}
	return b
}

func (w *c03World) ackStatus(i int, dst string, seq uint64) uint8 {
	return w.callView(i, packetcontract.PacketContract.ABI, packetcontract.PacketContractAddress, "getAckStatus", dst, seq)[0].(uint8)
}

func (w *c03World) nextSeq(i int, dst string) uint64 {
	return w.callView(i, packetcontract.PacketContract.ABI, packetcontract.PacketContractAddress, "getNextSequenceSend", dst)[0].(uint64)
}

func (w *c03World) packetFee(i int, dst string, seq uint64) (common.Address, *big.Int) {
	out := w.callView(i, packetcontract.PacketContract.ABI, packetcontract.PacketContractAddress, "packetFees", []byte(dst+"/"+strconv.FormatUint(seq, 10)))
	return out[0].(common.Address), out[1].(*big.Int)
}

// ---- messages ---------------------------------------------------------------------------------

// deliver signs and delivers msgs in a block of their own (like xibctesting.TestChain.SendMsgs, without require).
func (w *c03World) deliver(i int, msgs ...sdk.Msg) (*sdk.Result, error) {
	return w.deliverAs(i, w.ch[i].SenderPrivKey, w.ch[i].SenderAcc, msgs...)
}

// signerOf: key and account address of one of the keyed accounts (0, 8, 9)
func (w *c03World) signerOf(acct int) (cryptotypes.PrivKey, sdk.AccAddress) {
	k, ok := w.keys[acct]
	if !ok {
		w.t.Fatalf("account %d has no key", acct)
	}
	return k, sdk.AccAddress(w.acc[acct].Bytes())
}

func (w *c03World) deliverAs(i int, key cryptotypes.PrivKey, addr sdk.AccAddress, msgs ...sdk.Msg) (*sdk.Result, error) {
	c := w.ch[i]
	w.coord.UpdateTimeForChain(c)
	account := c.App.AccountKeeper.GetAccount(c.GetContext(), addr)
	if account == nil {
		w.t.Fatalf("no account for %s on chain %d", addr, i)
	}
	tx, err := helpers.GenTx(c.TxConfig, msgs, sdk.Coins{sdk.NewInt64Coin(sdk.DefaultBondDenom, 0)}, helpers.DefaultGenTxGas*20, c.ChainID,
		[]uint64{account.GetAccountNumber()}, []uint64{account.GetSequence()}, key)
	if err != nil {
		w.t.Fatal(err)
	}
	c.App.BeginBlock(abci.RequestBeginBlock{Header: c.GetContext().BlockHeader()})
	_, res, derr := c.App.BaseApp.Deliver(c.TxConfig.TxEncoder(), tx)
	c.App.EndBlock(abci.RequestEndBlock{})
	c.App.Commit()
	c.NextBlock()
	w.coord.IncrementTime()
	return res, derr
}

// updateClient commits a block on `of` and updates the light client of `of` kept on chain `on`.
func (w *c03World) updateClient(on, of int) error {
	w.coord.CommitBlock(w.ch[of])
	// like TestChain.ConstructUpdateTMClientHeader, but the trusted validators are taken from the chain's (static)
	// validator set instead of the staking module's historical info, which a restarted app does not have for old heights
	header := w.ch[of].LastHeader
	header.TrustedHeight = w.ch[on].GetClientState(c03ChainName(of)).GetLatestHeight().(clienttypes.Height)
	tv, err := w.ch[of].Vals.ToProto()
	if err != nil {
		return err
	}
	header.TrustedValidators = tv
	msg, err := clienttypes.NewMsgUpdateClient(c03ChainName(of), header, w.updAcc)
	if err != nil {
		return err
	}
	_, err = w.deliverAs(on, w.updKey, w.updAcc, msg)
	return err
}

func c03Key(src, dst int, seq uint64) string { return fmt.Sprintf("%d/%d/%d", src, dst, seq) }

func (w *c03World) chainIndex(name string) int {
	for i := 0; i <= c03Ghost; i++ {
		if c03ChainName(i) == name {
			return i
		}
	}
	return -1
}

// notePackets records every packet announced by an EventSendPacket among the events.
func (w *c03World) notePackets(events []abci.Event) (n int) {
	for _, e := range events {
		if !strings.HasSuffix(e.Type, "EventSendPacket") {
			continue
		}
		m, err := sdk.ParseTypedEvent(e)
		if err != nil {
			w.t.Fatalf("event: %v", err)
		}
		ev := m.(*packettypes.EventSendPacket)
		var p packettypes.Packet
		if err := p.ABIDecode(ev.Packet); err != nil {
			w.t.Fatalf("packet decode: %v", err)
		}
		w.packets[c03Key(w.chainIndex(p.SrcChain), w.chainIndex(p.DstChain), p.Sequence)] = &c03PacketRec{packet: p, bytes: ev.Packet}
		n++
	}
	return
}

func (w *c03World) noteAcks(events []abci.Event) {
	for _, e := range events {
		if !strings.HasSuffix(e.Type, "EventWriteAck") {
			continue
		}
		m, err := sdk.ParseTypedEvent(e)
		if err != nil {
			w.t.Fatalf("event: %v", err)
		}
		ev := m.(*packettypes.EventWriteAck)
		seq, _ := strconv.ParseUint(ev.Sequence, 10, 64)
		if r := w.packets[c03Key(w.chainIndex(ev.SrcChain), w.chainIndex(ev.DstChain), seq)]; r != nil {
			r.ack = ev.Ack
		}
	}
}

// relayRecv: update dst's client of src, then MsgRecvPacket with the genuine proof of the commitment key.
// pkt may be any bytes (for packets that were never sent the proof simply does not verify).
func (w *c03World) recvMsg(src, dst int, seq uint64, pktBytes []byte, signer int) (sdk.Msg, error) {
	if err := w.updateClient(dst, src); err != nil {
		return nil, err
	}
	key := host.PacketCommitmentKey(c03ChainName(src), c03ChainName(dst), seq)
	cs := w.ch[dst].GetClientState(c03ChainName(src))
	proof, height := w.ch[src].QueryProofAtHeight(key, int64(cs.GetLatestHeight().GetRevisionHeight()))
	_, sa := w.signerOf(signer)
	return packettypes.NewMsgRecvPacket(pktBytes, proof, height, sa), nil
}

func (w *c03World) relayRecv(src, dst int, seq uint64, pktBytes []byte, signer int) (*sdk.Result, error) {
	msg, err := w.recvMsg(src, dst, seq, pktBytes, signer)
	if err != nil {
		return nil, err
	}
	sk, sa := w.signerOf(signer)
	res, err := w.deliverAs(dst, sk, sa, msg)
	if err == nil && res != nil {
		w.noteAcks(res.Events)
		w.notePackets(res.Events)
	}
	return res, err
}

func (w *c03World) ackMsg(src, dst int, seq uint64, pktBytes, ack []byte, signer int) (sdk.Msg, error) {
	if err := w.updateClient(src, dst); err != nil {
		return nil, err
	}
	key := host.PacketAcknowledgementKey(c03ChainName(src), c03ChainName(dst), seq)
	cs := w.ch[src].GetClientState(c03ChainName(dst))
	proof, height := w.ch[dst].QueryProofAtHeight(key, int64(cs.GetLatestHeight().GetRevisionHeight()))
	_, sa := w.signerOf(signer)
	return packettypes.NewMsgAcknowledgement(pktBytes, ack, proof, height, sa), nil
}

func (w *c03World) relayAck(src, dst int, seq uint64, pktBytes, ack []byte, signer int) (*sdk.Result, error) {
	msg, err := w.ackMsg(src, dst, seq, pktBytes, ack, signer)
	if err != nil {
		return nil, err
	}
	sk, sa := w.signerOf(signer)
	res, err := w.deliverAs(src, sk, sa, msg)
	if err == nil && res != nil {
		w.notePackets(res.Events)
	}
	return res, err
}

// ---- keeper views -----------------------------------------------------------------------------

func (w *c03World) hasCommitment(src, dst int, seq uint64) bool {
	return len(w.ch[src].App.XIBCKeeper.PacketKeeper.GetPacketCommitment(w.ch[src].GetContext(), c03ChainName(src), c03ChainName(dst), seq)) > 0
}

func (w *c03World) hasReceipt(src, dst int, seq uint64) bool {
	_, ok := w.ch[dst].App.XIBCKeeper.PacketKeeper.GetPacketReceipt(w.ch[dst].GetContext(), c03ChainName(src), c03ChainName(dst), seq)
	return ok
}

func (w *c03World) ackHash(src, dst int, seq uint64) []byte {
	b, _ := w.ch[dst].App.XIBCKeeper.PacketKeeper.GetPacketAcknowledgement(w.ch[dst].GetContext(), c03ChainName(src), c03ChainName(dst), seq)
	return b
}

var _ = bytes.Equal
var _ = sort.Strings
var _ = syscontracts.AgentContractAddress
var _ = stakingcontract.StakingContract
