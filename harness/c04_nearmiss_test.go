//go:build c04

package verifharness

// C04 — the PROVIDER "destination is known ⇔ a client with EXACTLY this name exists".
// Own record (independent of the client keeper's store): the set of names for which a client was created, by exact
// string. Near misses of those names are sent through the real EVM entry points in the same histories as genuine sends;
// a committed send whose destination is not in the record is `C04:send-to-unknown-destination-committed:<class>`.

import (
	"strings"
	"unicode"
)

// near-miss classes of a destination `d` relative to the recorded client names
func (h *c04Hist) nearMissClass(d string) string {
	if h.clientNames[d] {
		return ""
	}
	if d != h.w.self && strings.EqualFold(d, h.w.self) {
		return "self-case"
	}
	for n := range h.clientNames {
		switch {
		case strings.EqualFold(d, n):
			return "case"
		case d != "" && strings.HasPrefix(n, d):
			return "prefix"
		case strings.HasPrefix(d, n):
			return "extension"
		}
	}
	return "other"
}

func c04FlipCase(s string, all bool, at int) string {
	rs := []rune(s)
	var idx []int
	for i, r := range rs {
		if unicode.IsLetter(r) {
			idx = append(idx, i)
		}
	}
	if len(idx) == 0 {
		return s
	}
	flip := func(r rune) rune {
		if unicode.IsUpper(r) {
			return unicode.ToLower(r)
		}
		return unicode.ToUpper(r)
	}
	if all {
		for _, i := range idx {
			rs[i] = flip(rs[i])
		}
	} else {
		i := idx[at%len(idx)]
		rs[i] = flip(rs[i])
	}
	return string(rs)
}

// nearMiss: a destination that is NOT a recorded client name but differs from one only slightly; returns "" if the
// variant happens to be a recorded name itself (case siblings of wide histories) — then the caller sends to it as the
// genuine destination it is
func (h *c04Hist) nearMiss() (string, string) {
	rg := h.rg
	names := h.sortedClientNames()
	if len(names) == 0 {
		return "", ""
	}
	n := names[rg.Intn(len(names))]
	var d, tag string
	if h.nearRot == 0 {
		h.nearRot = 1 + rg.Intn(8)
	}
	h.nearRot++
	switch h.nearRot % 8 { // classes in rotation (start drawn per history) so that every class is exercised
	case 0:
		d, tag = c04FlipCase(n, true, 0), "case-all"
	case 1:
		d, tag = c04FlipCase(n, false, rg.Intn(16)), "case-one"
	case 2:
		if len(n) > 1 {
			d, tag = n[:1+rg.Intn(len(n)-1)], "prefix"
		}
	case 3:
		d, tag = n+"-2", "ext-dash"
	case 4:
		d, tag = n+"/", "ext-slash"
	case 5:
		d, tag = n+" ", "ext-space"
	case 6:
		d, tag = c04FlipCase(h.w.self, rg.Intn(2) == 0, rg.Intn(16)), "self-case"
	case 7:
		d, tag = n+"/clientState", "ext-path"
	}
	if d == "" || h.clientNames[d] || d == h.w.self {
		return "", ""
	}
	return d, tag
}

func (h *c04Hist) sortedClientNames() []string {
	var l []string
	for n := range h.clientNames {
		l = append(l, n)
	}
	sortStrings(l)
	return l
}

func sortStrings(l []string) {
	for i := 1; i < len(l); i++ {
		for j := i; j > 0 && l[j] < l[j-1]; j-- {
			l[j], l[j-1] = l[j-1], l[j]
		}
	}
}

// hasCaseSibling: another recorded client name differs from d only in letter case (two independent sequence lines)
func (h *c04Hist) hasCaseSibling(d string) bool {
	for n := range h.clientNames {
		if n != d && strings.EqualFold(n, d) {
			return true
		}
	}
	return false
}
