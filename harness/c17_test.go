//go:build c17

package verifharness

// C17 — system-contract staking / governance act for the caller only, atomically.
//
// Drives the REAL app: EVM transactions through the real msg server (EthereumTx → ApplyTransaction → EVM → hook chain
// staking adapter → gov adapter → … → native message servers), the real hook chain on injected receipts, and the real
// OverwriteBankKeeper.BurnCoins / staking Slash / gov deposit burning.
//
// op language (addresses / strings in hex, numbers decimal):
//   topics                                   -> the six event ids of the two ABIs
//   init k=v …                               -> ok <dump>          (base state of the world as the model needs it)
//   reset                                    -> ok
//   tx <from> <node>                         -> <status> <dump>    status: ok | vmfail | hookfail | err | panic
//     node := P <c|d> <ignore> <target> <n> node^n          sub-call to a helper contract running the n segments
//           | S <c|d> <ignore> <fn …>                        sub-call to a system contract
//               fn := delegate V A | undelegate V A | redelegate V V A | withdraw V | vote PID OPT | votew PID n (OPT W)^n
//                     | bads | badg                            (call data that is no function of staking / gov)
//               kinds: c CALL, d DELEGATECALL, s STATICCALL, v CALL with value 1 (system contracts only)
//           | K <ignore> <new address> <salt> <n> node^n       CREATE2 of a fresh helper contract, then CALL it with the n segments
//           | L <ntopics> <topic>* <data>                      LOGn (n <= 2) by the helper contract (look-alike events)
//           | R                                                REVERT
//     V := <string hex>:<class>   class k<i> = operator address of validator i, u = well formed / no validator, x = malformed
//   hook <n> (<address> <ntopics> <topic>* <data> <parsed>)^n -> <status> <dump>   (PostTxProcessing on an injected receipt)
//     parsed := N | X | E <event …>    what syscontracts.ParseLog returns for the data (computed with the real ABI)
//   burn <module> <n> (<denom> <amount>)^n   -> ok|err|panic X:<module/feecollector/supply per coin> <dump>
//   slash <validator index> <percent> [past] -> ok      (oracle only; afterwards `skip` until the next reset; `past`: infraction at height 1)
//   block <dt ns>                            -> ok <dump>   app.EndBlocker of the current height, app.BeginBlocker of the next one dt later
//   dry <from> <node>                        -> <status> <dump>   the transaction on a context that is dropped
//   (committed chain: cinit / dtx / restart / reimport / cslash — see c17_chain_test.go)
//   govburn                                  -> ok      (oracle only; last op of a history)

import (
	"bytes"
	"fmt"
	"math/big"
	"sort"
	"strconv"
	"strings"
	"testing"
	"time"

	sdk "github.com/cosmos/cosmos-sdk/types"
	authtypes "github.com/cosmos/cosmos-sdk/x/auth/types"
	distrtypes "github.com/cosmos/cosmos-sdk/x/distribution/types"
	"github.com/cosmos/cosmos-sdk/x/gov"
	govtypes "github.com/cosmos/cosmos-sdk/x/gov/types"
	stakingtypes "github.com/cosmos/cosmos-sdk/x/staking/types"
	"github.com/ethereum/go-ethereum/common"
	ethtypes "github.com/ethereum/go-ethereum/core/types"
	"github.com/ethereum/go-ethereum/crypto"
	abci "github.com/tendermint/tendermint/abci/types"

	"github.com/teleport-network/teleport/syscontracts"
	govcontract "github.com/teleport-network/teleport/syscontracts/gov"
	stakingcontract "github.com/teleport-network/teleport/syscontracts/staking"
)

// ---- call shapes ----------------------------------------------------------------------------------------

type c17Call struct {
	fn     string // delegate undelegate redelegate withdraw vote votew
	v1, v2 string
	amt    *big.Int
	pid    uint64
	opt    uint32
	opts   []govcontract.GovOptionWeight
}

func (c *c17Call) isGov() bool { return c.fn == "vote" || c.fn == "votew" }

type c17Node struct {
	tag    byte // P S B L R
	kind   byte // c d
	ignore bool
	target common.Address
	body   []*c17Node
	call   *c17Call
	badGov bool
	topics []common.Hash
	data   []byte
	salt   common.Hash // K
}

type c17Toks struct {
	t []string
	i int
}

func (p *c17Toks) next() string {
	if p.i >= len(p.t) {
		panic("c17: short op")
	}
	s := p.t[p.i]
	p.i++
	return s
}
func (p *c17Toks) nat() uint64 {
	n, err := strconv.ParseUint(p.next(), 10, 64)
	if err != nil {
		panic(err)
	}
	return n
}
func (p *c17Toks) big() *big.Int {
	b, ok := new(big.Int).SetString(p.next(), 10)
	if !ok {
		panic("c17: bad number")
	}
	return b
}
func (p *c17Toks) val() string { return string(unhx(strings.SplitN(p.next(), ":", 2)[0])) }

func c17ParseCall(p *c17Toks, fn string) *c17Call {
	c := &c17Call{fn: fn}
	switch fn {
	case "delegate", "undelegate":
		c.v1 = p.val()
		c.amt = p.big()
	case "redelegate":
		c.v1 = p.val()
		c.v2 = p.val()
		c.amt = p.big()
	case "withdraw":
		c.v1 = p.val()
	case "vote":
		c.pid = p.nat()
		c.opt = uint32(p.nat())
	case "votew":
		c.pid = p.nat()
		k := int(p.nat())
		for i := 0; i < k; i++ {
			o := uint32(p.nat())
			c.opts = append(c.opts, govcontract.GovOptionWeight{Option: o, Weight: p.nat()})
		}
	default:
		panic("c17: bad fn " + fn)
	}
	return c
}

func c17ParseNode(p *c17Toks) *c17Node {
	switch tag := p.next(); tag {
	case "P":
		n := &c17Node{tag: 'P', kind: p.next()[0], ignore: p.next() != "0"}
		n.target = common.BytesToAddress(unhx(p.next()))
		k := int(p.nat())
		for i := 0; i < k; i++ {
			n.body = append(n.body, c17ParseNode(p))
		}
		return n
	case "K":
		n := &c17Node{tag: 'K', kind: 'c', ignore: p.next() != "0"}
		n.target = common.BytesToAddress(unhx(p.next()))
		n.salt = common.BytesToHash(unhx(p.next()))
		k := int(p.nat())
		for i := 0; i < k; i++ {
			n.body = append(n.body, c17ParseNode(p))
		}
		return n
	case "S":
		n := &c17Node{tag: 'S', kind: p.next()[0], ignore: p.next() != "0"}
		fn := p.next()
		if fn == "bads" || fn == "badg" {
			n.tag = 'B'
			n.badGov = fn == "badg"
			return n
		}
		n.call = c17ParseCall(p, fn)
		return n
	case "L":
		n := &c17Node{tag: 'L'}
		k := int(p.nat())
		for i := 0; i < k; i++ {
			n.topics = append(n.topics, common.BytesToHash(unhx(p.next())))
		}
		n.data = unhx(p.next())
		return n
	case "R":
		return &c17Node{tag: 'R'}
	default:
		panic("c17: bad node tag " + tag)
	}
}

func (w *c17World) valTok(s string) string {
	cls := "x"
	if a, err := sdk.ValAddressFromBech32(s); err == nil {
		cls = "u"
		for i, v := range w.vals {
			if v.Equals(a) {
				cls = fmt.Sprintf("k%d", i)
			}
		}
	}
	return hxs(s) + ":" + cls
}

func (w *c17World) callToks(c *c17Call) string {
	switch c.fn {
	case "delegate", "undelegate":
		return fmt.Sprintf("%s %s %s", c.fn, w.valTok(c.v1), c.amt)
	case "redelegate":
		return fmt.Sprintf("%s %s %s %s", c.fn, w.valTok(c.v1), w.valTok(c.v2), c.amt)
	case "withdraw":
		return fmt.Sprintf("%s %s", c.fn, w.valTok(c.v1))
	case "vote":
		return fmt.Sprintf("vote %d %d", c.pid, c.opt)
	default:
		s := fmt.Sprintf("votew %d %d", c.pid, len(c.opts))
		for _, o := range c.opts {
			s += fmt.Sprintf(" %d %d", o.Option, o.Weight)
		}
		return s
	}
}

func b01(b bool) string {
	if b {
		return "1"
	}
	return "0"
}

func (w *c17World) nodeToks(n *c17Node) string {
	switch n.tag {
	case 'P':
		s := fmt.Sprintf("P %c %s %s %d", n.kind, b01(n.ignore), hx(n.target.Bytes()), len(n.body))
		for _, b := range n.body {
			s += " " + w.nodeToks(b)
		}
		return s
	case 'K':
		s := fmt.Sprintf("K %s %s %s %d", b01(n.ignore), hx(n.target.Bytes()), hx(n.salt.Bytes()), len(n.body))
		for _, b := range n.body {
			s += " " + w.nodeToks(b)
		}
		return s
	case 'S':
		return fmt.Sprintf("S %c %s %s", n.kind, b01(n.ignore), w.callToks(n.call))
	case 'B':
		fn := "bads"
		if n.badGov {
			fn = "badg"
		}
		return fmt.Sprintf("S %c %s %s", n.kind, b01(n.ignore), fn)
	case 'L':
		s := fmt.Sprintf("L %d", len(n.topics))
		for _, t := range n.topics {
			s += " " + hx(t.Bytes())
		}
		return s + " " + hx(n.data)
	default:
		return "R"
	}
}

func (w *c17World) packCall(c *c17Call) []byte {
	var d []byte
	var err error
	switch c.fn {
	case "delegate", "undelegate":
		d, err = stakingcontract.StakingContract.ABI.Pack(c.fn, c.v1, c.amt)
	case "redelegate":
		d, err = stakingcontract.StakingContract.ABI.Pack(c.fn, c.v1, c.v2, c.amt)
	case "withdraw":
		d, err = stakingcontract.StakingContract.ABI.Pack(c.fn, c.v1)
	case "vote":
		d, err = govcontract.GovContract.ABI.Pack("vote", c.pid, c.opt)
	case "votew":
		opts := c.opts
		if opts == nil {
			opts = []govcontract.GovOptionWeight{}
		}
		d, err = govcontract.GovContract.ABI.Pack("vote0", c.pid, opts)
	}
	if err != nil {
		panic(err)
	}
	return d
}

func (w *c17World) sysTarget(n *c17Node) common.Address {
	if (n.tag == 'S' && n.call.isGov()) || (n.tag == 'B' && n.badGov) {
		return w.govA
	}
	return w.stakingA
}

func c17KindByte(k byte) byte {
	switch k {
	case 'd':
		return 1
	case 's':
		return 5
	case 'v':
		return 6
	}
	return 0
}

// segment = what the calling helper contract is told to do
func (w *c17World) segment(n *c17Node) []byte {
	switch n.tag {
	case 'P':
		return c17SegCall(c17KindByte(n.kind), n.ignore, n.target, w.segments(n.body))
	case 'S':
		return c17SegCall(c17KindByte(n.kind), n.ignore, w.sysTarget(n), w.packCall(n.call))
	case 'B':
		return c17SegCall(c17KindByte(n.kind), n.ignore, w.sysTarget(n), []byte{0xde, 0xad, 0xbe, 0xef, 0, 1})
	case 'K':
		return c17SegCreate2(n.ignore, n.salt, w.segments(n.body))
	case 'L':
		if len(n.topics) == 0 {
			return c17SegLog0(n.data)
		}
		if len(n.topics) >= 2 {
			return c17SegLog2(n.topics[0], n.topics[1], n.data)
		}
		return c17SegLog1(n.topics[0], n.data)
	default:
		return []byte{4}
	}
}

func (w *c17World) segments(ns []*c17Node) []byte {
	var out []byte
	for _, n := range ns {
		out = append(out, w.segment(n)...)
	}
	return out
}

// ---- by-construction attribution (the property's reading of the call shape) -----------------------------------

type c17Emit struct {
	sender common.Address
	call   *c17Call
}

type c17Frame struct{ self, sender common.Address }

// interp: which system-contract frames (entered by CALL) complete inside non-reverted frames, and how often every
// helper contract's storage counter is bumped. ok=false: the frame reverts.
func (w *c17World) interp(f c17Frame, ns []*c17Node, cnt map[common.Address]int) (bool, []c17Emit) {
	var out []c17Emit
	for _, n := range ns {
		switch n.tag {
		case 'P', 'K':
			if n.kind == 's' { // STATICCALL into a helper contract: its first SSTORE fails
				if !n.ignore {
					return false, nil
				}
				continue
			}
			f2 := f
			if n.kind != 'd' {
				f2 = c17Frame{self: n.target, sender: f.self}
			}
			c2 := map[common.Address]int{}
			for k, v := range cnt {
				c2[k] = v
			}
			c2[f2.self]++
			ok, em := w.interp(f2, n.body, c2)
			if ok {
				for k, v := range c2 {
					cnt[k] = v
				}
				out = append(out, em...)
			} else if !n.ignore {
				return false, nil
			}
		case 'S':
			switch n.kind {
			case 'c':
				out = append(out, c17Emit{sender: f.self, call: n.call})
			case 's', 'v': // LOG inside a static frame / value sent to a non-payable function: the contract frame fails
				if !n.ignore {
					return false, nil
				}
			}
		case 'B':
			if !n.ignore {
				return false, nil
			}
		case 'R':
			return false, nil
		}
	}
	return true, out
}

func (w *c17World) msgOf(e c17Emit) sdk.Msg {
	who := sdk.AccAddress(e.sender.Bytes()).String()
	c := e.call
	coin := func() sdk.Coin { return sdk.Coin{Denom: w.denom, Amount: sdk.NewIntFromBigInt(c.amt)} }
	switch c.fn {
	case "delegate":
		return &stakingtypes.MsgDelegate{DelegatorAddress: who, ValidatorAddress: c.v1, Amount: coin()}
	case "undelegate":
		return &stakingtypes.MsgUndelegate{DelegatorAddress: who, ValidatorAddress: c.v1, Amount: coin()}
	case "redelegate":
		return &stakingtypes.MsgBeginRedelegate{DelegatorAddress: who, ValidatorSrcAddress: c.v1, ValidatorDstAddress: c.v2, Amount: coin()}
	case "withdraw":
		return &distrtypes.MsgWithdrawDelegatorReward{DelegatorAddress: who, ValidatorAddress: c.v1}
	case "vote":
		return &govtypes.MsgVote{ProposalId: c.pid, Voter: who, Option: govtypes.VoteOption(int32(c.opt))}
	default:
		var os []govtypes.WeightedVoteOption
		for _, o := range c.opts {
			os = append(os, govtypes.WeightedVoteOption{Option: govtypes.VoteOption(int32(o.Option)), Weight: sdk.NewDecWithPrec(int64(o.Weight), 2)})
		}
		return &govtypes.MsgVoteWeighted{ProposalId: c.pid, Voter: who, Options: os}
	}
}

// reference execution: the attributed messages handed to the native message servers in the order
// staking events, then governance events. Returns false when one of them fails.
func (w *c17World) reference(ctx sdk.Context, emits []c17Emit) bool {
	var ordered []c17Emit
	for _, e := range emits {
		if !e.call.isGov() {
			ordered = append(ordered, e)
		}
	}
	for _, e := range emits {
		if e.call.isGov() {
			ordered = append(ordered, e)
		}
	}
	for _, e := range ordered {
		if e.call.fn == "votew" && len(e.call.opts) == 0 {
			return false
		}
		msg := w.msgOf(e)
		failed := false
		pan, _ := safely(func() {
			if err := msg.ValidateBasic(); err != nil {
				failed = true
				return
			}
			h := w.app.MsgServiceRouter().Handler(msg)
			if h == nil {
				failed = true
				return
			}
			if _, err := h(ctx, msg); err != nil {
				failed = true
			}
		})
		if pan || failed {
			return false
		}
	}
	return true
}

// decode the logs of the system contracts with the generated bindings (independent of syscontracts.ParseLog)
func (w *c17World) decodeSysLogs(logs []*ethtypes.Log) []string {
	sf, _ := stakingcontract.NewStakingFilterer(w.stakingA, nil)
	gf, _ := govcontract.NewGovFilterer(w.govA, nil)
	var out []string
	for _, l := range logs {
		if l.Address != w.stakingA && l.Address != w.govA {
			continue
		}
		s := "undecodable"
		if len(l.Topics) > 0 {
			if l.Address == w.stakingA {
				if e, err := sf.ParseDelegated(*l); err == nil {
					s = fmt.Sprintf("delegate %s %s %s", hx(e.Delegator.Bytes()), hxs(e.Validator), e.Amount)
				} else if e, err := sf.ParseUndelegated(*l); err == nil {
					s = fmt.Sprintf("undelegate %s %s %s", hx(e.Delegator.Bytes()), hxs(e.Validator), e.Amount)
				} else if e, err := sf.ParseRedelegated(*l); err == nil {
					s = fmt.Sprintf("redelegate %s %s %s %s", hx(e.Delegator.Bytes()), hxs(e.ValidatorSrc), hxs(e.ValidatorDest), e.Amount)
				} else if e, err := sf.ParseWithdrew(*l); err == nil {
					s = fmt.Sprintf("withdraw %s %s", hx(e.Delegator.Bytes()), hxs(e.Validator))
				}
			} else {
				if e, err := gf.ParseVoted(*l); err == nil {
					s = fmt.Sprintf("vote %s %d %d", hx(e.Voter.Bytes()), e.ProposalID, e.VoteOption)
				} else if e, err := gf.ParseVotedWeighted(*l); err == nil {
					s = fmt.Sprintf("votew %s %d", hx(e.Voter.Bytes()), e.ProposalID)
					for _, o := range e.Options {
						s += fmt.Sprintf(" %d %d", o.Option, o.Weight)
					}
				}
			}
		}
		out = append(out, s)
	}
	return out
}

func c17EmitStr(e c17Emit) string {
	c := e.call
	who := hx(e.sender.Bytes())
	switch c.fn {
	case "delegate", "undelegate":
		return fmt.Sprintf("%s %s %s %s", c.fn, who, hxs(c.v1), c.amt)
	case "redelegate":
		return fmt.Sprintf("%s %s %s %s %s", c.fn, who, hxs(c.v1), hxs(c.v2), c.amt)
	case "withdraw":
		return fmt.Sprintf("%s %s %s", c.fn, who, hxs(c.v1))
	case "vote":
		return fmt.Sprintf("vote %s %d %d", who, c.pid, c.opt)
	default:
		s := fmt.Sprintf("votew %s %d", who, c.pid)
		for _, o := range c.opts {
			s += fmt.Sprintf(" %d %d", o.Option, o.Weight)
		}
		return s
	}
}

// ---- ops ------------------------------------------------------------------------------------------------

func (w *c17World) find(r *Rec, sig, what, obs, req string) {
	r.Find(Finding{Sig: sig, What: what, Ops: append([]string{}, w.hist...), Obs: obs, Req: req})
}

func (w *c17World) initLine() string {
	ctx := w.base
	var parts []string
	var as []string
	for _, a := range w.actors() {
		as = append(as, hx(a.Bytes()))
	}
	parts = append(parts, "actors="+strings.Join(as, ","))
	parts = append(parts, "proxies="+hx(w.proxies[0].Bytes())+","+hx(w.proxies[1].Bytes()))
	bp := authtypes.NewModuleAddress(stakingtypes.BondedPoolName)
	nbp := authtypes.NewModuleAddress(stakingtypes.NotBondedPoolName)
	fc := authtypes.NewModuleAddress(authtypes.FeeCollectorName)
	parts = append(parts, "pools="+hx(bp)+","+hx(nbp)+","+hx(fc))
	parts = append(parts, "bond="+hxs(w.denom))
	var bal []string
	w.app.BankKeeper.IterateAllBalances(ctx, func(a sdk.AccAddress, c sdk.Coin) bool {
		bal = append(bal, hx(a)+":"+hxs(c.Denom)+":"+c.Amount.String())
		return false
	})
	sort.Strings(bal)
	parts = append(parts, "bal="+c17join(bal))
	var sup []string
	w.app.BankKeeper.IterateTotalSupply(ctx, func(c sdk.Coin) bool {
		sup = append(sup, hxs(c.Denom)+":"+c.Amount.String())
		return false
	})
	sort.Strings(sup)
	parts = append(parts, "supply="+c17join(sup))
	var mods []string
	for _, m := range c17Modules {
		if a := w.app.AccountKeeper.GetModuleAddress(m); a != nil {
			mods = append(mods, hxs(m)+":"+hx(a))
		}
	}
	parts = append(parts, "modules="+c17join(mods))
	var vt []string
	for _, v := range w.vals {
		val, _ := w.app.StakingKeeper.GetValidator(ctx, v)
		vt = append(vt, val.Tokens.String())
	}
	parts = append(parts, "valtokens="+strings.Join(vt, ","))
	var ps []string
	w.app.GovKeeper.IterateProposals(ctx, func(p govtypes.Proposal) bool {
		ps = append(ps, fmt.Sprintf("%d:%s", p.ProposalId, b01(p.Status == govtypes.StatusVotingPeriod)))
		return false
	})
	parts = append(parts, "props="+c17join(ps))
	parts = append(parts, fmt.Sprintf("unbonding=%d", w.app.StakingKeeper.UnbondingTime(ctx).Nanoseconds()))
	d := w.dump(ctx)
	parts = append(parts, "deposits="+d[strings.Index(d, " G:")+3:])
	return "init " + strings.Join(parts, " ")
}

var c17Modules = []string{stakingtypes.BondedPoolName, stakingtypes.NotBondedPoolName, authtypes.FeeCollectorName, govtypes.ModuleName, distrtypes.ModuleName, "aggregate", "c17-no-such-module"}

func c17Supply(d string) string {
	i := strings.Index(d, " S:")
	j := strings.Index(d[i+3:], " ")
	return d[i+3 : i+3+j]
}

func (w *c17World) expectedCounters(ctx sdk.Context, cnt map[common.Address]int) string {
	var cs []string
	for _, p := range w.proxies {
		v := w.app.EvmKeeper.GetState(ctx, p, common.Hash{})
		cs = append(cs, new(big.Int).Add(new(big.Int).SetBytes(v.Bytes()), big.NewInt(int64(cnt[p]))).String())
	}
	return "C:" + strings.Join(cs, ",")
}

// apply returns the canonical op line and the implementation's observation (reduced to what the model describes in
// the current regime: nothing after a slash, no balances / supply while rewards are outstanding).
func (w *c17World) apply(r *Rec, op string) (string, string) {
	skip, mask := w.skip, w.maskB
	c, out := w.apply1(r, op)
	switch strings.Fields(op)[0] {
	case "tx", "hook", "burn", "fund", "rewardtx", "govburn", "slash", "allocate", "block", "dry":
		if skip {
			if strings.HasPrefix(out, "ok") {
				if mask {
					r.Count("rewards." + strings.Fields(op)[0] + ".ok")
				} else {
					r.Count("postslash." + strings.Fields(op)[0] + ".ok")
				}
			}
			return c, "skip"
		}
		if mask {
			fs := strings.Fields(out)
			for i, f := range fs {
				if strings.HasPrefix(f, "B:") {
					fs[i] = "B:~"
				} else if strings.HasPrefix(f, "S:") {
					fs[i] = "S:~"
				}
			}
			if strings.HasPrefix(out, "ok") {
				r.Count("rewards." + strings.Fields(op)[0] + ".ok")
			}
			return c, strings.Join(fs, " ")
		}
	}
	return c, out
}

func (w *c17World) apply1(r *Rec, op string) (string, string) {
	f := strings.Fields(op)
	switch f[0] {
	case "topics":
		var ts []string
		for _, n := range []string{"Delegated", "Undelegated", "Redelegated", "Withdrew"} {
			ts = append(ts, hx(stakingcontract.StakingContract.ABI.Events[n].ID.Bytes()))
		}
		for _, n := range []string{"Voted", "VotedWeighted"} {
			ts = append(ts, hx(govcontract.GovContract.ABI.Events[n].ID.Bytes()))
		}
		return op, strings.Join(ts, " ")
	case "init":
		op = w.initLine()
		return op, "ok " + w.dump(w.base)
	case "reset":
		w.reset()
		w.hist = []string{op}
		return op, "ok"
	case "tx":
		return w.applyTx(r, f, false)
	case "rewardtx":
		return w.applyTx(r, f, true)
	case "hook":
		return w.applyHook(r, f)
	case "burn":
		return w.applyBurn(r, f)
	case "fund": // mint bond-denomination coins to an address (endowment of a CREATE2 address before its creation)
		w.hist = append(w.hist, op)
		amt, _ := sdk.NewIntFromString(f[2])
		c17Fund(w.app, w.ctx, unhx(f[1]), w.denom, amt)
		return op, "ok " + w.dump(w.ctx)
	case "slash":
		c, out := w.applySlash(r, f)
		w.skip = true
		return c, out
	case "block":
		return w.applyBlock(r, f)
	case "dry":
		// (D) the same transaction on a context that is dropped (what Simulate / CheckTx / a failed multi-message tx do):
		// nothing may change and later verdicts are unaffected
		saved := w.ctx
		before := w.dump(saved)
		w.ctx, _ = saved.CacheContext()
		c, out := w.applyTx(r, f, false)
		w.ctx = saved
		after := w.dump(w.ctx)
		if after != before {
			w.find(r, "C17:dry-run-leaked", "a transaction executed on a discarded context changed the state", after, before)
		}
		r.Count("dry." + strings.Fields(out)[0])
		return c, strings.Fields(out)[0] + " " + after
	case "allocate": // staking rewards for every validator (oracle on real state stays exact; the model does no reward arithmetic)
		w.hist = append(w.hist, op)
		w.allocateRewards()
		w.maskB = true // (steers the generator away from balance boundaries)
		w.skip = true  // payouts can decide even the status of later transactions: oracle only until the next reset
		return op, "ok"
	case "govburn":
		return w.applyGovBurn(r, f)
	}
	r.t.Fatalf("bad op %q", op)
	return "", ""
}

func (w *c17World) eoaIndex(a common.Address) int {
	for i, e := range w.eoas {
		if e == a {
			return i
		}
	}
	panic("c17: unknown sender")
}

// allocate staking rewards to every validator (3e18 each, paid from the distribution module account)
func (w *c17World) allocateRewards() {
	amt := c17Pow10(18).MulRaw(3)
	for _, v := range w.vals {
		c := sdk.NewCoins(sdk.NewCoin(w.denom, amt))
		if err := w.app.BankKeeper.MintCoins(w.ctx, "aggregate", c); err != nil {
			panic(err)
		}
		if err := w.app.BankKeeper.SendCoinsFromModuleToModule(w.ctx, "aggregate", distrtypes.ModuleName, c); err != nil {
			panic(err)
		}
		val, _ := w.app.StakingKeeper.GetValidator(w.ctx, v)
		w.app.DistrKeeper.AllocateTokensToValidator(w.ctx, val, sdk.NewDecCoinsFromCoins(c...))
	}
}

func (w *c17World) applyTx(r *Rec, f []string, rewards bool) (string, string) {
	p := &c17Toks{t: f, i: 1}
	from := common.BytesToAddress(unhx(p.next()))
	root := c17ParseNode(p)
	op := f[0] + " " + hx(from.Bytes()) + " " + w.nodeToks(root)
	w.hist = append(w.hist, op)
	if rewards {
		// oracle-only variant (last op of a history): outstanding rewards exist, so withdraw / delegate / undelegate pay
		// the caller; the model does not describe reward arithmetic, only the status is compared with it.
		w.allocateRewards()
	}
	var to common.Address
	var data []byte
	switch root.tag {
	case 'P':
		to, data = root.target, w.segments(root.body)
	case 'S':
		to, data = w.sysTarget(root), w.packCall(root.call)
	case 'B':
		to, data = w.sysTarget(root), []byte{0xde, 0xad, 0xbe, 0xef, 0, 1}
	default:
		r.t.Fatalf("bad tx root %q", op)
	}
	before := w.dump(w.ctx)

	// ---- the property's expectation, by construction + reference execution on a branch of the pre-state
	cnt := map[common.Address]int{}
	rootFrame := c17Frame{self: from, sender: from}
	rootKind := byte('c')
	value := big.NewInt(0)
	if root.tag != 'P' && root.kind == 'v' { // value-bearing transaction into a system contract
		rootKind = 'v'
		value = big.NewInt(1)
	}
	evmOK, emits := w.interp(rootFrame, []*c17Node{{tag: root.tag, kind: rootKind, ignore: false, target: root.target, body: root.body, call: root.call, badGov: root.badGov}}, cnt)
	refCtx, _ := w.ctx.CacheContext()
	nativeOK := evmOK && w.reference(refCtx, emits)
	want := before
	if nativeOK {
		d := w.dump(refCtx)
		want = w.expectedCounters(w.ctx, cnt) + d[strings.Index(d, " B:"):]
	}

	res := w.sendTx(w.eoaIndex(from), to, value, data)
	after := w.dump(w.ctx)
	r.Count("tx." + res.status)
	r.Count("root." + string(root.tag))
	if len(emits) > 1 && res.status == "ok" {
		r.Count("tx.ok.multi")
	}

	// ---- oracle
	if res.status == "ok" {
		got := w.decodeSysLogs(res.logs)
		var exp []string
		for _, e := range emits {
			exp = append(exp, c17EmitStr(e))
		}
		if strings.Join(got, ";") != strings.Join(exp, ";") {
			w.find(r, "C17:attribution", "the events of the system contracts in the receipt are not (msg.sender of the contract frame, arguments) of the calls made, once each, in order",
				strings.Join(got, ";"), strings.Join(exp, ";"))
		}
		for _, e := range emits {
			switch {
			case e.sender == from:
				r.Count("caller.eoa")
			case e.sender != w.proxies[0] && e.sender != w.proxies[1]:
				r.Count("caller.created")
			default:
				r.Count("caller.contract")
			}
			r.Count("fn." + e.call.fn)
			if e.call.amt != nil && e.call.amt.BitLen() >= 64 {
				r.Count("bnd.ok.amount>=2^63")
			}
			if e.call.isGov() {
				r.Count(fmt.Sprintf("vote.ok.p%d", e.call.pid))
			}
		}
	}
	switch {
	case !evmOK:
		if res.status != "vmfail" {
			w.find(r, "C17:evm-shape", "call shape that reverts at top level did not fail in the EVM", res.status, "vmfail")
		}
		if after != before {
			w.find(r, "C17:not-atomic:vmfail", "failed EVM transaction changed state", after, before)
		}
	case nativeOK:
		if res.status != "ok" {
			w.find(r, "C17:spurious-failure", "all attributed native messages succeed on the pre-state but the transaction failed: "+res.info, res.status, "ok")
		} else if after != want {
			w.find(r, "C17:state-mismatch", "state after the transaction differs from the state implied by the attributed messages (caller-only, exact arguments, once per event)", after, want)
		}
		if len(emits) > 0 {
			r.Nontrivial(op)
		}
	default:
		r.Count("native.fail")
		if res.status == "ok" {
			w.find(r, "C17:failure-swallowed", "an attributed native message fails but the transaction succeeded", res.status+" "+after, "hookfail/panic, state unchanged")
		} else if res.status != "hookfail" && res.status != "panic" {
			w.find(r, "C17:failure-kind", "unexpected failure kind: "+res.info, res.status, "hookfail or panic")
		}
		if after != before {
			w.find(r, "C17:not-atomic:native-failure", "a native action failed but state (EVM or native) of the transaction was kept", after, before)
		}
		r.Nontrivial(op)
	}
	if c17Supply(after) != c17Supply(before) {
		w.find(r, "C17:supply-changed", "bank supply changed by a system-contract transaction", c17Supply(after), c17Supply(before))
	}
	if rewards {
		r.Count("rewardtx." + res.status)
		if res.status == "ok" && strings.Contains(op, "withdraw") {
			r.Count("rewardtx.withdraw-ok")
		}
		// with rewards outstanding even the status can depend on payouts the model does not compute (a delegate that only the
		// reward just withdrawn makes affordable): nothing is compared with the model, the oracle above judged the real state
		return op, "done"
	}
	return op, res.status + " " + after
}

// ---- injected receipts ---------------------------------------------------------------------------------------

var c17EventNames = map[string]string{}

func init() {
	for n, e := range stakingcontract.StakingContract.ABI.Events {
		c17EventNames[string(e.ID.Bytes())+"s"] = n
	}
	for n, e := range govcontract.GovContract.ABI.Events {
		c17EventNames[string(e.ID.Bytes())+"g"] = n
	}
}

// parsed: what syscontracts.ParseLog yields for the log (the model's external decoder), as tokens.
func (w *c17World) parsedToks(l *ethtypes.Log) (string, *c17Call, common.Address) {
	if len(l.Topics) == 0 {
		return "N", nil, common.Address{}
	}
	suffix := ""
	if l.Address == w.stakingA {
		suffix = "s"
	} else if l.Address == w.govA {
		suffix = "g"
	}
	name, ok := c17EventNames[string(l.Topics[0].Bytes())+suffix]
	if !ok {
		return "N", nil, common.Address{}
	}
	amt := func(b *big.Int) string {
		if b == nil {
			return "nil"
		}
		return b.String()
	}
	var err error
	var toks string
	var call *c17Call
	var who common.Address
	pan, _ := safely(func() {
		switch name {
		case "Delegated":
			e := new(stakingcontract.StakingDelegated)
			if err = syscontracts.ParseLog(e, &stakingcontract.StakingContract.ABI, l, name); err == nil {
				toks = fmt.Sprintf("delegated %s %s %s", hx(e.Delegator.Bytes()), w.valTok(e.Validator), amt(e.Amount))
				call, who = &c17Call{fn: "delegate", v1: e.Validator, amt: e.Amount}, e.Delegator
			}
		case "Undelegated":
			e := new(stakingcontract.StakingUndelegated)
			if err = syscontracts.ParseLog(e, &stakingcontract.StakingContract.ABI, l, name); err == nil {
				toks = fmt.Sprintf("undelegated %s %s %s", hx(e.Delegator.Bytes()), w.valTok(e.Validator), amt(e.Amount))
				call, who = &c17Call{fn: "undelegate", v1: e.Validator, amt: e.Amount}, e.Delegator
			}
		case "Redelegated":
			e := new(stakingcontract.StakingRedelegated)
			if err = syscontracts.ParseLog(e, &stakingcontract.StakingContract.ABI, l, name); err == nil {
				toks = fmt.Sprintf("redelegated %s %s %s %s", hx(e.Delegator.Bytes()), w.valTok(e.ValidatorSrc), w.valTok(e.ValidatorDest), amt(e.Amount))
				call, who = &c17Call{fn: "redelegate", v1: e.ValidatorSrc, v2: e.ValidatorDest, amt: e.Amount}, e.Delegator
			}
		case "Withdrew":
			e := new(stakingcontract.StakingWithdrew)
			if err = syscontracts.ParseLog(e, &stakingcontract.StakingContract.ABI, l, name); err == nil {
				toks = fmt.Sprintf("withdrew %s %s", hx(e.Delegator.Bytes()), w.valTok(e.Validator))
				call, who = &c17Call{fn: "withdraw", v1: e.Validator}, e.Delegator
			}
		case "Voted":
			e := new(govcontract.GovVoted)
			if err = syscontracts.ParseLog(e, &govcontract.GovContract.ABI, l, name); err == nil {
				toks = fmt.Sprintf("voted %s %d %d", hx(e.Voter.Bytes()), e.ProposalID, e.VoteOption)
				call, who = &c17Call{fn: "vote", pid: e.ProposalID, opt: e.VoteOption}, e.Voter
			}
		case "VotedWeighted":
			e := new(govcontract.GovVotedWeighted)
			if err = syscontracts.ParseLog(e, &govcontract.GovContract.ABI, l, name); err == nil {
				toks = fmt.Sprintf("votedw %s %d %d", hx(e.Voter.Bytes()), e.ProposalID, len(e.Options))
				for _, o := range e.Options {
					toks += fmt.Sprintf(" %d %d", o.Option, o.Weight)
				}
				call, who = &c17Call{fn: "votew", pid: e.ProposalID, opts: e.Options}, e.Voter
			}
		}
	})
	if pan || err != nil {
		return "X", nil, common.Address{}
	}
	return "E " + toks, call, who
}

func (w *c17World) applyHook(r *Rec, f []string) (string, string) {
	p := &c17Toks{t: f, i: 1}
	k := int(p.nat())
	var logs []*ethtypes.Log
	for i := 0; i < k; i++ {
		l := &ethtypes.Log{Address: common.BytesToAddress(unhx(p.next()))}
		nt := int(p.nat())
		for j := 0; j < nt; j++ {
			l.Topics = append(l.Topics, common.BytesToHash(unhx(p.next())))
		}
		l.Data = unhx(p.next())
		// skip the parsed annotation (recomputed below)
		switch p.next() {
		case "E":
			ev := p.next()
			skip := map[string]int{"delegated": 3, "undelegated": 3, "redelegated": 4, "withdrew": 2, "voted": 3}
			if ev == "votedw" {
				p.next()
				p.next()
				n := int(p.nat())
				p.i += 2 * n
			} else {
				p.i += skip[ev]
			}
		}
		logs = append(logs, l)
	}
	op := fmt.Sprintf("hook %d", k)
	// expectation: relevant logs in order, staking first
	var emits []c17Emit
	expectFail := false
	type rel struct {
		call *c17Call
		who  common.Address
		bad  bool
	}
	var st, gv []rel
	for _, l := range logs {
		toks, call, who := w.parsedToks(l)
		op += " " + hx(l.Address.Bytes()) + " " + strconv.Itoa(len(l.Topics))
		for _, t := range l.Topics {
			op += " " + hx(t.Bytes())
		}
		op += " " + hx(l.Data) + " " + toks
		isS, isG := l.Address == w.stakingA, l.Address == w.govA
		if !isS && !isG {
			continue
		}
		x := rel{call: call, who: who}
		if len(l.Topics) == 0 || toks == "X" || (call != nil && call.amt == nil && (call.fn == "delegate" || call.fn == "undelegate" || call.fn == "redelegate")) {
			x.bad = true
		} else if toks == "N" {
			continue
		}
		if isS {
			st = append(st, x)
		} else {
			gv = append(gv, x)
		}
	}
	for _, x := range append(st, gv...) {
		if x.bad {
			expectFail = true
			break
		}
		emits = append(emits, c17Emit{sender: x.who, call: x.call})
	}
	w.hist = append(w.hist, op)
	before := w.dump(w.ctx)
	refCtx, _ := w.ctx.CacheContext()
	refOK := w.reference(refCtx, emits)
	nativeOK := refOK && !expectFail
	want := before
	if nativeOK {
		want = w.dump(refCtx)
	}

	cctx, write := w.ctx.CacheContext()
	var err error
	pan, _ := safely(func() { err = w.app.EvmKeeper.PostTxProcessing(cctx, nil, &ethtypes.Receipt{Logs: logs}) })
	status := "ok"
	switch {
	case pan:
		status = "panic"
	case err != nil:
		status = "hookfail"
	default:
		write()
	}
	after := w.dump(w.ctx)
	r.Count("hook." + status)
	if nativeOK {
		if status != "ok" {
			w.find(r, "C17:hook:spurious-failure", "hook chain failed although every relevant log maps to a message that succeeds", status, "ok")
		} else if after != want {
			w.find(r, "C17:hook:state-mismatch", "state after the hook chain differs from the filtered / mapped messages executed natively", after, want)
		}
		if len(emits) > 0 {
			r.Nontrivial(op)
		}
	} else {
		if status == "ok" {
			w.find(r, "C17:hook:failure-swallowed", "a relevant log is malformed or its message fails, but the hook chain reported success", after, "error")
		}
		if after != before {
			w.find(r, "C17:hook:not-atomic", "failed hook chain left state behind", after, before)
		}
		r.Nontrivial(op)
	}
	return op, status + " " + after
}

// ---- burns -----------------------------------------------------------------------------------------------------

func (w *c17World) allSupply(ctx sdk.Context) string {
	var sup []string
	w.app.BankKeeper.IterateTotalSupply(ctx, func(c sdk.Coin) bool {
		sup = append(sup, c.String())
		return false
	})
	sort.Strings(sup)
	return strings.Join(sup, ",")
}

func (w *c17World) sumBalances(ctx sdk.Context) string {
	sum := sdk.NewCoins()
	w.app.BankKeeper.IterateAllBalances(ctx, func(_ sdk.AccAddress, c sdk.Coin) bool {
		sum = sum.Add(c)
		return false
	})
	return sum.String()
}

func (w *c17World) applyBurn(r *Rec, f []string) (string, string) {
	op := strings.Join(f, " ")
	w.hist = append(w.hist, op)
	mod := string(unhx(f[1]))
	k, _ := strconv.Atoi(f[2])
	var coins sdk.Coins
	for i := 0; i < k; i++ {
		a, _ := new(big.Int).SetString(f[4+2*i], 10)
		coins = append(coins, sdk.Coin{Denom: string(unhx(f[3+2*i])), Amount: sdk.NewIntFromBigInt(a)})
	}
	supBefore, sumBefore := w.allSupply(w.ctx), w.sumBalances(w.ctx)
	before := w.dump(w.ctx)
	fc := authtypes.NewModuleAddress(authtypes.FeeCollectorName)
	ma := w.app.AccountKeeper.GetModuleAddress(mod)
	fcBefore := w.app.BankKeeper.GetAllBalances(w.ctx, fc)
	cctx, write := w.ctx.CacheContext()
	var err error
	pan, _ := safely(func() { err = w.obk.BurnCoins(cctx, mod, coins) })
	status := "ok"
	switch {
	case pan:
		status = "panic"
	case err != nil:
		status = "err"
	default:
		write()
	}
	r.Count("burn." + status)
	after := w.dump(w.ctx)
	if w.allSupply(w.ctx) != supBefore || w.sumBalances(w.ctx) != sumBefore {
		w.find(r, "C17:burn-changes-supply", "BurnCoins of the overwritten bank keeper changed the supply", w.allSupply(w.ctx)+" / "+w.sumBalances(w.ctx), supBefore+" / "+sumBefore)
	}
	if status == "ok" && ma != nil && !ma.Equals(fc) {
		got := w.app.BankKeeper.GetAllBalances(w.ctx, fc)
		if !got.IsEqual(fcBefore.Add(coins...)) {
			w.find(r, "C17:burn-not-to-fee-collector", "burned coins did not arrive at the fee collector", got.String(), fcBefore.Add(coins...).String())
		}
	}
	if status != "ok" && after != before {
		w.find(r, "C17:burn-not-atomic", "failed burn changed state", after, before)
	}
	x := "-"
	if ma != nil {
		var xs []string
		for _, c := range coins {
			d := c.Denom
			xs = append(xs, fmt.Sprintf("%s/%s/%s", w.app.BankKeeper.GetBalance(w.ctx, ma, d).Amount, w.app.BankKeeper.GetBalance(w.ctx, fc, d).Amount, w.app.BankKeeper.GetSupply(w.ctx, d).Amount))
		}
		x = c17join(xs)
	}
	r.Nontrivial(op)
	return op, status + " X:" + x + " " + after
}

// slash: the staking keeper burns the slashed tokens through the overwritten bank keeper.
func (w *c17World) applySlash(r *Rec, f []string) (string, string) {
	op := strings.Join(f, " ")
	w.hist = append(w.hist, op)
	i, _ := strconv.Atoi(f[1])
	pct, _ := strconv.Atoi(f[2])
	val, _ := w.app.StakingKeeper.GetValidator(w.ctx, w.vals[i])
	cons, _ := val.GetConsAddr()
	supBefore, sumBefore := w.allSupply(w.ctx), w.sumBalances(w.ctx)
	fc := authtypes.NewModuleAddress(authtypes.FeeCollectorName)
	pools := func() sdk.Int {
		return w.app.BankKeeper.GetBalance(w.ctx, authtypes.NewModuleAddress(stakingtypes.BondedPoolName), w.denom).Amount.Add(
			w.app.BankKeeper.GetBalance(w.ctx, authtypes.NewModuleAddress(stakingtypes.NotBondedPoolName), w.denom).Amount)
	}
	pb, fb := pools(), w.app.BankKeeper.GetBalance(w.ctx, fc, w.denom).Amount
	power := val.ConsensusPower(sdk.DefaultPowerReduction)
	infraction := w.ctx.BlockHeight()
	if len(f) > 3 && f[3] == "past" { // late evidence: unbonding entries / redelegations begun since then are slashed too
		infraction = 1
	}
	nb := func() sdk.Int {
		return w.app.BankKeeper.GetBalance(w.ctx, authtypes.NewModuleAddress(stakingtypes.NotBondedPoolName), w.denom).Amount
	}
	nbBefore := nb()
	pan, msg := safely(func() {
		w.app.StakingKeeper.Slash(w.ctx, cons, infraction, power, sdk.NewDecWithPrec(int64(pct), 2))
	})
	if pan {
		w.find(r, "C17:slash-panic", "Slash panicked: "+msg, "panic", "ok")
		return op, "ok"
	}
	lost := pb.Sub(pools())
	gained := w.app.BankKeeper.GetBalance(w.ctx, fc, w.denom).Amount.Sub(fb)
	if lost.IsPositive() {
		r.Count("slash.burned")
	}
	if !pan && nb().LT(nbBefore) {
		r.Count("slash.burned.notbonded")
	}
	if w.allSupply(w.ctx) != supBefore || w.sumBalances(w.ctx) != sumBefore || !lost.Equal(gained) {
		w.find(r, "C17:slash-changes-supply", "slashing (BurnCoins of the staking keeper) changed the supply or did not credit the fee collector",
			fmt.Sprintf("supply %s pools lost %s fee collector gained %s", w.allSupply(w.ctx), lost, gained), "supply "+supBefore+", lost = gained")
	}
	return op, "ok"
}

// block: the real app.EndBlocker of the current height, then app.BeginBlocker of the next height `dt` ns later
// (staking maturities, validator set updates, gov queues, distribution AllocateTokens, crisis, evm, feemarket, …).
func (w *c17World) applyBlock(r *Rec, f []string) (string, string) {
	op := strings.Join(f, " ")
	w.hist = append(w.hist, op)
	dt, _ := strconv.ParseInt(f[1], 10, 64)
	supBefore, sumBefore := w.allSupply(w.ctx), w.sumBalances(w.ctx)
	// expectation for the maturities: every entry whose completion time has come pays its balance to the delegator
	due := map[string]sdk.Int{}
	nowT := w.ctx.BlockTime()
	w.app.StakingKeeper.IterateUnbondingDelegations(w.ctx, func(_ int64, u stakingtypes.UnbondingDelegation) bool {
		for _, e := range u.Entries {
			if !e.CompletionTime.After(nowT) {
				if _, ok := due[u.DelegatorAddress]; !ok {
					due[u.DelegatorAddress] = sdk.ZeroInt()
				}
				due[u.DelegatorAddress] = due[u.DelegatorAddress].Add(e.Balance)
			}
		}
		return false
	})
	balBefore := map[string]sdk.Int{}
	for d := range due {
		a, _ := sdk.AccAddressFromBech32(d)
		balBefore[d] = w.app.BankKeeper.GetBalance(w.ctx, a, w.denom).Amount
	}
	pan, msg := safely(func() { w.app.EndBlocker(w.ctx, abci.RequestEndBlock{Height: w.ctx.BlockHeight()}) })
	if pan {
		w.find(r, "C17:block:endblock-panic", "EndBlocker panicked: "+msg, "panic", "ok")
		return op, "ok " + w.dump(w.ctx)
	}
	for d, amt := range due {
		a, _ := sdk.AccAddressFromBech32(d)
		got := w.app.BankKeeper.GetBalance(w.ctx, a, w.denom).Amount.Sub(balBefore[d])
		if !got.Equal(amt) {
			w.find(r, "C17:block:maturity", "a matured unbonding entry created through the staking contract did not pay its balance back to the caller", got.String(), amt.String())
		}
		if amt.IsPositive() {
			r.Count("block.matured")
		}
	}
	h := w.ctx.BlockHeader()
	h.Height++
	h.Time = h.Time.Add(time.Duration(dt))
	w.ctx = w.ctx.WithBlockHeader(h)
	pan, msg = safely(func() { w.app.BeginBlocker(w.ctx, abci.RequestBeginBlock{Header: h}) })
	if pan {
		w.find(r, "C17:block:beginblock-panic", "BeginBlocker panicked: "+msg, "panic", "ok")
	}
	if w.allSupply(w.ctx) != supBefore || w.sumBalances(w.ctx) != sumBefore {
		w.find(r, "C17:block:supply-changed", "supply changed by EndBlock / BeginBlock", w.allSupply(w.ctx), supBefore)
	}
	r.Count("block")
	return op, "ok " + w.dump(w.ctx)
}

// govburn: a proposal that misses its minimum deposit is deleted at the end of the deposit period and its deposits
// are burned through the overwritten bank keeper.
func (w *c17World) applyGovBurn(r *Rec, f []string) (string, string) {
	op := strings.Join(f, " ")
	w.hist = append(w.hist, op)
	dep := sdk.NewCoins(sdk.NewCoin(w.denom, sdk.NewInt(12345)))
	msg := govtypes.NewMsgDeposit(sdk.AccAddress(w.eoas[0].Bytes()), 2, dep)
	if _, err := w.app.MsgServiceRouter().Handler(msg)(w.ctx, msg); err != nil {
		return op, "ok"
	}
	supBefore, sumBefore := w.allSupply(w.ctx), w.sumBalances(w.ctx)
	fc := authtypes.NewModuleAddress(authtypes.FeeCollectorName)
	fb := w.app.BankKeeper.GetBalance(w.ctx, fc, w.denom).Amount
	govAcc := authtypes.NewModuleAddress(govtypes.ModuleName)
	gb := w.app.BankKeeper.GetBalance(w.ctx, govAcc, w.denom).Amount
	period := w.app.GovKeeper.GetDepositParams(w.ctx).MaxDepositPeriod
	later := w.ctx.WithBlockTime(w.ctx.BlockTime().Add(period + 1))
	pan, pmsg := safely(func() { gov.EndBlocker(later, w.app.GovKeeper) })
	if pan {
		w.find(r, "C17:govburn-panic", "gov EndBlocker panicked: "+pmsg, "panic", "ok")
		return op, "ok"
	}
	if _, ok := w.app.GovKeeper.GetProposal(w.ctx, 2); !ok {
		r.Count("govburn.burned")
	}
	gained := w.app.BankKeeper.GetBalance(w.ctx, fc, w.denom).Amount.Sub(fb)
	lost := gb.Sub(w.app.BankKeeper.GetBalance(w.ctx, govAcc, w.denom).Amount)
	if w.allSupply(w.ctx) != supBefore || w.sumBalances(w.ctx) != sumBefore || gained.LT(dep[0].Amount) || gained.GT(lost) {
		w.find(r, "C17:govburn-changes-supply", "burning the deposits of a failed proposal changed the supply or did not credit the fee collector",
			fmt.Sprintf("supply %s fee collector gained %s gov account lost %s", w.allSupply(w.ctx), gained, lost), "supply "+supBefore+", "+dep[0].Amount.String()+" <= gained <= lost (deposits of proposals that end normally are refunded)")
	}
	return op, "ok"
}

var _ = bytes.Equal

// ---- generator ---------------------------------------------------------------------------------------------------

// blockOps: (V) real EndBlock / BeginBlock; when unbonding entries exist the next block time is put 1ns before / exactly
// at / 1ns after the earliest completion time and a second block follows whose EndBlock runs at that time.
func (g *c17Gen) blockOps() []string {
	w := g.w
	now := w.ctx.BlockTime()
	var first *time.Time
	w.app.StakingKeeper.IterateUnbondingDelegations(w.ctx, func(_ int64, u stakingtypes.UnbondingDelegation) bool {
		for _, e := range u.Entries {
			t := e.CompletionTime
			if t.After(now) && (first == nil || t.Before(*first)) {
				first = &t
			}
		}
		return false
	})
	if first != nil && g.blocks <= 1 && g.pick(4) > 0 {
		d := int64(g.pick(3) - 1)
		g.r.Count(fmt.Sprintf("block.deadline%+d", d))
		g.blocks += 2
		return []string{fmt.Sprintf("block %d", first.Sub(now).Nanoseconds()+d), "block 1000000000"}
	}
	g.blocks++
	return []string{fmt.Sprintf("block %d", []int64{1, 5_000_000_000, 3_600_000_000_000, int64(c17UnbondingTime)}[g.pick(4)])}
}

type c17Gen struct {
	blocks int // blocks run in the current history (at most 3: the crisis module asserts invariants at height 5, and the
	// `burn` operation deliberately takes coins out of module accounts behind the modules' backs)
	w          *c17World
	r          *Rec
	saltN      int
	pre        []string        // operations to run before the transaction being generated (funding of CREATE2 addresses)
	shape      map[string]bool // shape features of the transaction being generated
	rewardMode bool            // calls for the final `rewardtx`: mostly withdraw
	govDrained bool            // a burn op took coins out of the gov module account in this history (govburn would then fail for lack of funds)
	valid      bool            // mostly-valid stream: every system-contract call of the transaction is chosen to succeed
}

func (g *c17Gen) pick(n int) int { return g.r.Rng.Intn(n) }

// past: after at least one block, slash for an infraction at height 1 (late evidence) so that unbonding entries and
// redelegations begun since then are slashed as well (burns out of the not-bonded pool)
func (g *c17Gen) past() string {
	if g.blocks > 0 && g.pick(3) > 0 {
		return " past"
	}
	return ""
}

func (g *c17Gen) valString(mostlyValid bool) string {
	w := g.w
	x := g.pick(100)
	if mostlyValid && x < 88 {
		return w.vals[g.pick(len(w.vals))].String()
	}
	switch g.pick(9) {
	case 0:
		return ""
	case 1:
		return w.unknown.String()
	case 2:
		return sdk.AccAddress(w.vals[0]).String() // account prefix instead of operator prefix
	case 3:
		s := w.vals[1].String()
		return s[:len(s)-1] + string("qpzry9x8"[g.pick(8)]) // (probably) broken checksum
	case 4:
		return strings.ToUpper(w.vals[len(w.vals)-1].String())
	case 5:
		return "abc"
	case 6:
		return w.vals[0].String() + " "
	case 7:
		return strings.Repeat("v", 300)
	default:
		return w.vals[g.pick(len(w.vals))].String()
	}
}

func (g *c17Gen) amount(who common.Address, val string, fn string) *big.Int {
	w := g.w
	e18 := new(big.Int).Exp(big.NewInt(10), big.NewInt(18), nil)
	bal := w.app.BankKeeper.GetBalance(w.ctx, who.Bytes(), w.denom).Amount.BigInt()
	del := big.NewInt(0)
	if va, err := sdk.ValAddressFromBech32(val); err == nil {
		if d, ok := w.app.StakingKeeper.GetDelegation(w.ctx, who.Bytes(), va); ok {
			del = d.Shares.TruncateInt().BigInt()
		}
	}
	if w.maskB { // rewards outstanding: the model's balances are stale, keep clear of balance boundaries
		bal = new(big.Int).Mul(e18, big.NewInt(7))
	}
	ref := bal
	if fn != "delegate" {
		ref = del
	}
	if g.pick(100) < 22 { // (B) boundary values of the uint256 amount field
		b := c17Boundaries[g.pick(len(c17Boundaries))]
		g.r.Count("bnd.amt." + b.name)
		return b.val()
	}
	switch x := g.pick(100); {
	case x < 50:
		return new(big.Int).Mul(e18, big.NewInt(int64(1+g.pick(5))))
	case x < 58:
		return new(big.Int).Set(ref)
	case x < 64:
		return new(big.Int).Add(ref, big.NewInt(1))
	case x < 70:
		if ref.Sign() > 0 {
			return new(big.Int).Sub(ref, big.NewInt(1))
		}
		return big.NewInt(1)
	case x < 76:
		return new(big.Int).Rsh(ref, 1)
	case x < 81:
		return big.NewInt(0)
	case x < 85:
		return big.NewInt(1)
	case x < 89:
		return new(big.Int).Sub(new(big.Int).Lsh(big.NewInt(1), 256), big.NewInt(1))
	case x < 92:
		return new(big.Int).Lsh(big.NewInt(1), 255)
	case x < 95:
		return new(big.Int).Lsh(big.NewInt(1), uint(150+g.pick(100)))
	default:
		return new(big.Int).Add(bal, big.NewInt(int64(g.pick(3))))
	}
}

type c17Boundary struct {
	name string
	val  func() *big.Int
}

func c17Pow2(n uint, d int64) func() *big.Int {
	return func() *big.Int { return new(big.Int).Add(new(big.Int).Lsh(big.NewInt(1), n), big.NewInt(d)) }
}

var c17Boundaries = []c17Boundary{
	{"2^31-1", c17Pow2(31, -1)}, {"2^31+1", c17Pow2(31, 1)}, {"2^32-1", c17Pow2(32, -1)}, {"2^32+1", c17Pow2(32, 1)},
	{"2^53-1", c17Pow2(53, -1)}, {"2^53+1", c17Pow2(53, 1)}, {"2^63-1", c17Pow2(63, -1)}, {"2^63", c17Pow2(63, 0)},
	{"2^64-1", c17Pow2(64, -1)}, {"2^64", c17Pow2(64, 0)}, {"2^64+k", c17Pow2(64, 12345)}, {"2^64+k", c17Pow2(64, 1)},
	{"2^128", c17Pow2(128, 0)}, {"2^255", c17Pow2(255, 0)}, {"2^256-1", c17Pow2(256, -1)},
	{"10^19", func() *big.Int { return new(big.Int).Exp(big.NewInt(10), big.NewInt(19), nil) }},
	{"10^30", func() *big.Int { return new(big.Int).Exp(big.NewInt(10), big.NewInt(30), nil) }},
	{"2^116", c17Pow2(116, 0)}, {"2^117", c17Pow2(117, 0)}, // around the consensus-power int64 limit (2^63 * 10^16)
}

// validCall: a call that is expected to succeed natively in the current state (sequences of
// delegate / undelegate / redelegate / withdraw / vote by the same callers)
func (g *c17Gen) validCall(who common.Address) *c17Call {
	w := g.w
	e18 := new(big.Int).Exp(big.NewInt(10), big.NewInt(18), nil)
	type dl struct {
		v   sdk.ValAddress
		amt *big.Int
	}
	var dels []dl
	for _, v := range w.vals {
		if d, ok := w.app.StakingKeeper.GetDelegation(w.ctx, who.Bytes(), v); ok {
			val, _ := w.app.StakingKeeper.GetValidator(w.ctx, v)
			if t := val.TokensFromShares(d.Shares).TruncateInt(); t.IsPositive() {
				dels = append(dels, dl{v, t.BigInt()})
			}
		}
	}
	x := g.pick(100)
	if g.rewardMode {
		x = []int{70, 70, 70, 45, 10, 60}[g.pick(6)]
	}
	if len(dels) == 0 && x >= 40 && x < 80 {
		x = 0
	}
	part := func(a *big.Int) *big.Int {
		switch g.pick(4) {
		case 0:
			return new(big.Int).Set(a)
		case 1:
			if a.Cmp(big.NewInt(1)) > 0 {
				return new(big.Int).Rsh(a, 1)
			}
			return new(big.Int).Set(a)
		case 2:
			return big.NewInt(1)
		default:
			if a.Cmp(e18) >= 0 {
				return new(big.Int).Set(e18)
			}
			return new(big.Int).Set(a)
		}
	}
	switch {
	case x < 40:
		amt := new(big.Int).Mul(e18, big.NewInt(int64(1+g.pick(5))))
		if who == w.eoas[1] && g.pick(3) == 0 && !w.maskB { // the rich account: boundary amounts that succeed
			b := c17Boundaries[g.pick(12)] // … 2^64+k
			g.r.Count("bnd.amt." + b.name)
			amt = b.val()
		}
		return &c17Call{fn: "delegate", v1: w.vals[g.pick(len(w.vals))].String(), amt: amt}
	case x < 55:
		d := dels[g.pick(len(dels))]
		return &c17Call{fn: "undelegate", v1: d.v.String(), amt: part(d.amt)}
	case x < 70:
		d := dels[g.pick(len(dels))]
		dst := w.vals[g.pick(len(w.vals))]
		if dst.Equals(d.v) {
			dst = w.vals[(g.pick(2)+1+c17IndexOf(w.vals, d.v))%len(w.vals)]
		}
		return &c17Call{fn: "redelegate", v1: d.v.String(), v2: dst.String(), amt: part(d.amt)}
	case x < 80:
		return &c17Call{fn: "withdraw", v1: dels[g.pick(len(dels))].v.String()}
	case x < 90:
		return &c17Call{fn: "vote", pid: []uint64{1, 3}[g.pick(2)], opt: uint32(1 + g.pick(4))}
	default:
		c := &c17Call{fn: "votew", pid: []uint64{1, 3}[g.pick(2)]}
		perm := g.r.Rng.Perm(4)
		k := 1 + g.pick(4)
		left := uint64(100)
		for i := 0; i < k; i++ {
			wgt := left
			if i < k-1 {
				wgt = uint64(1 + g.pick(int(left)-(k-1-i)))
			}
			left -= wgt
			c.opts = append(c.opts, govcontract.GovOptionWeight{Option: uint32(1 + perm[i]), Weight: wgt})
		}
		return c
	}
}

func c17IndexOf(vs []sdk.ValAddress, v sdk.ValAddress) int {
	for i, x := range vs {
		if x.Equals(v) {
			return i
		}
	}
	return 0
}

// overflowCall: undelegate / redelegate of an existing delegation with an amount around the sdk.Dec overflow
// threshold of `SharesFromTokens` (MulInt panics above 316 bits) — native panic inside the hook.
func (g *c17Gen) overflowCall(who common.Address) *c17Call {
	w := g.w
	for _, i := range g.r.Rng.Perm(len(w.vals)) {
		v := w.vals[i]
		if _, ok := w.app.StakingKeeper.GetDelegation(w.ctx, who.Bytes(), v); !ok {
			continue
		}
		val, _ := w.app.StakingKeeper.GetValidator(w.ctx, v)
		den := new(big.Int).Mul(val.Tokens.BigInt(), c17Pow10(18).BigInt())
		if den.Sign() == 0 { // validator slashed to zero
			continue
		}
		thr := new(big.Int).Div(new(big.Int).Sub(new(big.Int).Lsh(big.NewInt(1), 316), big.NewInt(1)), den)
		var amt *big.Int
		switch g.pick(4) {
		case 0:
			amt = thr
		case 1:
			amt = new(big.Int).Add(thr, big.NewInt(1))
		case 2:
			amt = new(big.Int).Sub(new(big.Int).Lsh(big.NewInt(1), 256), big.NewInt(1))
		default:
			amt = new(big.Int).Lsh(big.NewInt(1), uint(thr.BitLen()))
		}
		if amt.BitLen() > 256 {
			amt = new(big.Int).Sub(new(big.Int).Lsh(big.NewInt(1), 256), big.NewInt(1))
		}
		if g.pick(2) == 0 {
			return &c17Call{fn: "undelegate", v1: v.String(), amt: amt}
		}
		return &c17Call{fn: "redelegate", v1: v.String(), v2: w.vals[(i+1)%len(w.vals)].String(), amt: amt}
	}
	return nil
}

func (g *c17Gen) call(who common.Address) *c17Call {
	if !g.valid && g.pick(100) < 8 {
		if c := g.overflowCall(who); c != nil {
			return c
		}
	}
	if g.valid || g.pick(100) < 35 {
		return g.validCall(who)
	}
	switch x := g.pick(100); {
	case x < 30:
		v := g.valString(true)
		return &c17Call{fn: "delegate", v1: v, amt: g.amount(who, v, "delegate")}
	case x < 45:
		v := g.valString(true)
		return &c17Call{fn: "undelegate", v1: v, amt: g.amount(who, v, "undelegate")}
	case x < 60:
		v, v2 := g.valString(true), g.valString(true)
		return &c17Call{fn: "redelegate", v1: v, v2: v2, amt: g.amount(who, v, "redelegate")}
	case x < 70:
		return &c17Call{fn: "withdraw", v1: g.valString(true)}
	case x < 85:
		c := &c17Call{fn: "vote", pid: []uint64{1, 3}[g.pick(2)], opt: uint32(1 + g.pick(4))}
		switch g.pick(14) {
		case 12:
			c.pid = 1 << 63
		case 13:
			c.pid = (1 << 63) - 1
		case 0:
			c.opt = 0
		case 1:
			c.opt = 5
		case 2:
			c.opt = 0xffffffff
		case 3:
			c.opt = 0x80000001
		case 4:
			c.pid = 2
		case 5:
			c.pid = 4
		case 6:
			c.pid = 0
		case 7:
			c.pid = ^uint64(0)
		}
		return c
	default:
		c := &c17Call{fn: "votew", pid: []uint64{1, 3}[g.pick(2)]}
		switch g.pick(22) {
		case 15: // (B) a single option whose weight is not 1
			c.opts = []govcontract.GovOptionWeight{{Option: uint32(1 + g.pick(4)), Weight: []uint64{0, 1, 50, 99, 101, 1 << 32, 1 << 63, ^uint64(0)}[g.pick(8)]}}
			g.r.Count("bnd.votew.single")
		case 16, 17: // many options: every valid option once plus extras (duplicates / invalid options), 5 … 1000 entries
			n := []int{5, 8, 100, 101, 1000}[g.pick(5)]
			for i := 0; i < n; i++ {
				o := uint32(1 + i%4)
				if g.pick(3) == 0 {
					o = uint32(g.pick(9))
				}
				wt := uint64(1)
				if i == 0 && n <= 100 {
					wt = uint64(101 - n)
				}
				c.opts = append(c.opts, govcontract.GovOptionWeight{Option: o, Weight: wt})
			}
			g.r.Count("bnd.votew.many")
		case 18: // exactly the four options, weights 0 / 1 / 99
			c.opts = []govcontract.GovOptionWeight{{Option: 1, Weight: 1}, {Option: 2, Weight: 99}, {Option: 3, Weight: 0}, {Option: 4, Weight: 0}}
		case 19:
			c.opts = []govcontract.GovOptionWeight{{Option: 1, Weight: 1}, {Option: 2, Weight: 1}, {Option: 3, Weight: 1}, {Option: 4, Weight: 97}}
		case 20:
			c.opts = []govcontract.GovOptionWeight{{Option: 2, Weight: 100}, {Option: 2, Weight: 100}}
		case 21:
			c.pid = []uint64{0, 2, 4, 1 << 63, ^uint64(0)}[g.pick(5)]
			c.opts = []govcontract.GovOptionWeight{{Option: 1, Weight: 60}, {Option: 3, Weight: 40}}
		case 12: // weights that become valid when truncated to 32 bits / when the sign is dropped
			c.opts = []govcontract.GovOptionWeight{{Option: 1, Weight: (1 << 32) + 100}}
		case 13:
			c.opts = []govcontract.GovOptionWeight{{Option: 1, Weight: (1 << 32) + 60}, {Option: 2, Weight: 40}}
		case 14:
			c.opts = []govcontract.GovOptionWeight{{Option: 4, Weight: (1 << 63) + 100}}
		case 0:
			c.opts = []govcontract.GovOptionWeight{}
		case 1:
			c.opts = []govcontract.GovOptionWeight{{Option: 1, Weight: 50}, {Option: 2, Weight: 49}}
		case 2:
			c.opts = []govcontract.GovOptionWeight{{Option: 1, Weight: 50}, {Option: 2, Weight: 51}}
		case 3:
			c.opts = []govcontract.GovOptionWeight{{Option: 1, Weight: 50}, {Option: 1, Weight: 50}}
		case 4:
			c.opts = []govcontract.GovOptionWeight{{Option: 1, Weight: 100}, {Option: 2, Weight: 0}}
		case 5:
			c.opts = []govcontract.GovOptionWeight{{Option: 7, Weight: 100}}
		case 6:
			c.opts = []govcontract.GovOptionWeight{{Option: 1, Weight: ^uint64(0)}, {Option: 2, Weight: 101}}
		case 7:
			c.opts = []govcontract.GovOptionWeight{{Option: 3, Weight: 1 << 63}, {Option: 2, Weight: 100}}
		case 8:
			c.pid = uint64(g.pick(4))
			c.opts = []govcontract.GovOptionWeight{{Option: 4, Weight: 100}}
		default:
			perm := g.r.Rng.Perm(4)
			k := 1 + g.pick(4)
			left := uint64(100)
			for i := 0; i < k; i++ {
				wgt := left
				if i < k-1 {
					wgt = uint64(1 + g.pick(int(left)-(k-1-i)))
				}
				left -= wgt
				c.opts = append(c.opts, govcontract.GovOptionWeight{Option: uint32(1 + perm[i]), Weight: wgt})
			}
		}
		return c
	}
}

func (g *c17Gen) lookalike(claim common.Address) *c17Node {
	// byte-identical event of a system contract, emitted by the helper contract itself
	w := g.w
	names := []string{"Delegated", "Undelegated", "Withdrew", "Voted"}
	n := names[g.pick(len(names))]
	var topic common.Hash
	var data []byte
	var err error
	e18 := new(big.Int).Exp(big.NewInt(10), big.NewInt(18), nil)
	switch n {
	case "Delegated", "Undelegated":
		ev := stakingcontract.StakingContract.ABI.Events[n]
		topic = ev.ID
		data, err = ev.Inputs.Pack(claim, w.vals[g.pick(len(w.vals))].String(), e18)
	case "Withdrew":
		ev := stakingcontract.StakingContract.ABI.Events[n]
		topic = ev.ID
		data, err = ev.Inputs.Pack(claim, w.vals[g.pick(len(w.vals))].String())
	default:
		ev := govcontract.GovContract.ABI.Events[n]
		topic = ev.ID
		data, err = ev.Inputs.Pack(claim, uint64(1), uint32(1+g.pick(4)))
	}
	if err != nil {
		panic(err)
	}
	nd := &c17Node{tag: 'L', topics: []common.Hash{topic}, data: data}
	switch g.pick(8) {
	case 0:
		nd.topics = nil
	case 1, 2: // LOG2: the event id plus an extra topic (the claimed sender, as if the field were indexed)
		nd.topics = append(nd.topics, common.BytesToHash(claim.Bytes()))
		g.shape["log2"] = true
	}
	return nd
}

// body of a frame whose address(this) is `self`
func (g *c17Gen) body(self common.Address, depth int, victim common.Address) []*c17Node {
	w := g.w
	k := 1
	switch x := g.pick(10); {
	case x < 5:
		k = 1
	case x < 8:
		k = 2
	default:
		k = 3 + g.pick(3)
	}
	var out []*c17Node
	for i := 0; i < k; i++ {
		switch x := g.pick(100); {
		case x < 55:
			out = append(out, &c17Node{tag: 'S', kind: 'c', ignore: g.pick(4) == 0, call: g.call(self)})
		case x < 65:
			// DELEGATECALL into the system contract: event carries the helper's own address ⇒ must be ignored
			out = append(out, &c17Node{tag: 'S', kind: 'd', ignore: g.pick(4) == 0, call: g.call(victim)})
		case x < 75:
			out = append(out, g.lookalike([]common.Address{victim, self, w.eoas[g.pick(3)]}[g.pick(3)]))
			g.shape["lookalike"] = true
		case x < 84 && depth < 3:
			kind := byte('c')
			tgt := w.proxies[g.pick(2)]
			nself := tgt
			switch g.pick(8) {
			case 0, 1:
				kind, nself = 'd', self
			case 2: // STATICCALL into a helper contract: fails at its first SSTORE
				// (a failing static / value frame burns all the gas forwarded to it, 63/64 of what is left: one per transaction)
				if !g.gasBurnt() {
					kind = 's'
					g.shape["static"] = true
				}
			}
			out = append(out, &c17Node{tag: 'P', kind: kind, ignore: g.pick(3) == 0 || kind == 's', target: tgt, body: g.body(nself, depth+1, victim)})
		case x < 88 && depth < 3 && !g.gasBurnt():
			// CREATE2-deployed caller: a fresh helper contract at a new address calls the system contracts
			g.saltN++
			salt := crypto.Keccak256Hash([]byte(fmt.Sprintf("c17-salt-%d-%d-%d", g.r.Seed, g.r.Shard, g.saltN)))
			na := c17Create2Addr(self, salt)
			if g.pick(3) > 0 {
				g.pre = append(g.pre, fmt.Sprintf("fund %s %s", hx(na.Bytes()), "100000000000000000000"))
			}
			g.shape["create2"] = true
			out = append(out, &c17Node{tag: 'K', kind: 'c', ignore: g.pick(4) == 0, target: na, salt: salt, body: g.body(na, depth+1, victim)})
		case x < 90 && !g.gasBurnt():
			// STATICCALL / value-bearing CALL into a system contract: the contract frame fails, nothing is emitted
			kind := "sv"[g.pick(2)]
			g.shape[map[byte]string{'s': "static", 'v': "value"}[kind]] = true
			out = append(out, &c17Node{tag: 'S', kind: kind, ignore: g.pick(3) > 0, call: g.call(self)})
		case x < 94:
			out = append(out, &c17Node{tag: 'B', kind: "cd"[g.pick(2)], ignore: g.pick(2) == 0, badGov: g.pick(2) == 0})
		case x < 97:
			out = append(out, &c17Node{tag: 'R'})
		default:
			out = append(out, &c17Node{tag: 'S', kind: 'c', call: g.call(self)})
		}
	}
	return out
}

// c17CapOpts: weighted votes with hundreds of options only as the transaction's own call data (inside helper-contract
// segments the payload length field has 16 bits, and the gas left after a failed static frame would not pay for them)
func c17CapOpts(ns []*c17Node, max int) {
	for _, n := range ns {
		if n.call != nil && len(n.call.opts) > max {
			n.call.opts = n.call.opts[:max]
		}
		c17CapOpts(n.body, max)
	}
}

func (g *c17Gen) gasBurnt() bool { return g.shape["static"] || g.shape["value"] }

// txOps: the funding operations of CREATE2 addresses (if any) followed by the transaction
func (g *c17Gen) txOps() []string {
	t := g.tx()
	return append(g.pre, t)
}

func (g *c17Gen) tx() string {
	w := g.w
	g.pre = nil
	g.shape = map[string]bool{}
	g.valid = g.pick(100) < 60 || g.rewardMode
	from := w.eoas[g.pick(len(w.eoas))]
	var root *c17Node
	switch x := g.pick(100); {
	case x < 38:
		root = &c17Node{tag: 'S', kind: 'c', call: g.call(from)}
	case x < 40:
		root = &c17Node{tag: 'B', kind: 'c', badGov: g.pick(2) == 0}
	case x < 44 && !g.rewardMode && !w.maskB: // (not while rewards are outstanding: "balance + 1" would be affordable after a payout)
		// (S) several system-contract logs in one receipt, the natively failing one first / in the middle / last
		tgt := w.proxies[g.pick(2)]
		n := 3 + g.pick(3)
		pos := []int{0, n / 2, n - 1}[g.pick(3)]
		var body []*c17Node
		for i := 0; i < n; i++ {
			c := g.validCall(tgt)
			if i == pos {
				bal := w.app.BankKeeper.GetBalance(w.ctx, tgt.Bytes(), w.denom).Amount.BigInt()
				switch g.pick(3) {
				case 0:
					c = &c17Call{fn: "delegate", v1: w.vals[g.pick(len(w.vals))].String(), amt: new(big.Int).Add(bal, big.NewInt(1))}
				case 1:
					c = &c17Call{fn: "vote", pid: 2, opt: 1} // proposal still in deposit period
				default:
					c = &c17Call{fn: "withdraw", v1: w.unknown.String()}
				}
			}
			body = append(body, &c17Node{tag: 'S', kind: 'c', call: c})
		}
		g.shape[[]string{"fail-first", "fail-middle", "fail-last"}[map[int]int{0: 0, n / 2: 1, n - 1: 2}[pos]]] = true
		root = &c17Node{tag: 'P', kind: 'c', target: tgt, body: body}
	case x < 45: // value-bearing transaction straight into a system contract (functions are not payable)
		root = &c17Node{tag: 'S', kind: 'v', call: g.call(from)}
		g.shape["value"] = true
	case x < 52:
		// genuine system-contract events and look-alikes of the SAME contract in one receipt (an address filter hoisted
		// out of the per-log loop, or applied to the first log only, would execute the look-alikes)
		tgt := w.proxies[g.pick(2)]
		var body []*c17Node
		for i, n := 0, 2+g.pick(3); i < n; i++ {
			switch g.pick(3) {
			case 0:
				body = append(body, &c17Node{tag: 'S', kind: 'c', call: g.validCall(tgt)})
			case 1:
				body = append(body, g.lookalike([]common.Address{from, tgt}[g.pick(2)]))
			default:
				body = append(body, &c17Node{tag: 'S', kind: 'c', call: &c17Call{fn: "vote", pid: 1, opt: uint32(1 + g.pick(4))}})
				l := g.lookalike(from)
				ev := govcontract.GovContract.ABI.Events["Voted"]
				d, _ := ev.Inputs.Pack(from, uint64(1), uint32(1+g.pick(4)))
				l.topics, l.data = []common.Hash{ev.ID}, d
				body = append(body, l)
			}
		}
		if g.pick(2) == 0 { // look-alike first
			body = append([]*c17Node{g.lookalike(from)}, body...)
		}
		g.shape["mixed"] = true
		root = &c17Node{tag: 'P', kind: 'c', target: tgt, body: body}
	default:
		tgt := w.proxies[g.pick(2)]
		root = &c17Node{tag: 'P', kind: 'c', target: tgt, body: g.body(tgt, 1, from)}
	}
	for k := range g.shape {
		g.r.Count("shape." + k)
	}
	c17CapOpts(root.body, 101)
	return "tx " + hx(from.Bytes()) + " " + w.nodeToks(root)
}

func (g *c17Gen) hookOp() string {
	w := g.w
	k := 1 + g.pick(3)
	s := fmt.Sprintf("hook %d", k)
	for i := 0; i < k; i++ {
		who := w.actors()[g.pick(len(w.actors()))]
		c := g.call(who)
		var ev string
		var args []interface{}
		abiS, abiG := stakingcontract.StakingContract.ABI, govcontract.GovContract.ABI
		addr := w.stakingA
		var topic common.Hash
		var data []byte
		var err error
		switch c.fn {
		case "delegate":
			ev, args = "Delegated", []interface{}{who, c.v1, c.amt}
		case "undelegate":
			ev, args = "Undelegated", []interface{}{who, c.v1, c.amt}
		case "redelegate":
			ev, args = "Redelegated", []interface{}{who, c.v1, c.v2, c.amt}
		case "withdraw":
			ev, args = "Withdrew", []interface{}{who, c.v1}
		case "vote":
			ev, args = "Voted", []interface{}{who, c.pid, c.opt}
		default:
			opts := c.opts
			if opts == nil {
				opts = []govcontract.GovOptionWeight{}
			}
			ev, args = "VotedWeighted", []interface{}{who, c.pid, opts}
		}
		if c.isGov() {
			addr = w.govA
			topic = abiG.Events[ev].ID
			data, err = abiG.Events[ev].Inputs.Pack(args...)
		} else {
			topic = abiS.Events[ev].ID
			data, err = abiS.Events[ev].Inputs.Pack(args...)
		}
		if err != nil {
			panic(err)
		}
		topics := []common.Hash{topic}
		switch g.pick(20) {
		case 0:
			data = nil // ParseLog skips decoding: zero-valued event, nil amount
		case 1:
			data = data[:len(data)/2]
		case 2:
			data = data[:31]
		case 3:
			topics = nil // log without topics at the contract address
		case 4:
			topics[0] = common.BytesToHash([]byte("unknown topic"))
		case 5:
			if addr == w.stakingA { // event of the other contract: skipped by both adapters
				addr = w.govA
			} else {
				addr = w.stakingA
			}
		case 6:
			addr = w.proxies[g.pick(2)] // look-alike
		case 7:
			topics = append(topics, common.BytesToHash([]byte{1}))
		case 8:
			data = append(data, make([]byte, 32)...)
		case 9:
			data[g.pick(len(data))] ^= 0xff
		}
		s += " " + hx(addr.Bytes()) + " " + strconv.Itoa(len(topics))
		for _, t := range topics {
			s += " " + hx(t.Bytes())
		}
		s += " " + hx(data) + " N"
	}
	return s
}

func (g *c17Gen) burnOp() string {
	w := g.w
	mod := c17Modules[g.pick(len(c17Modules))]
	if mod == govtypes.ModuleName {
		g.govDrained = true
	}
	ma := w.app.AccountKeeper.GetModuleAddress(mod)
	// coins of the bond denomination held by the staking pools back delegations / unbondings: moving them out behind the
	// staking keeper's back makes later unbondings and slashes fail for lack of pool funds (an artefact of the harness,
	// not of the adapter), so for those modules only failing amounts of the bond denomination are generated.
	pool := mod == stakingtypes.BondedPoolName || mod == stakingtypes.NotBondedPoolName
	amt := func(d string) string {
		b := big.NewInt(0)
		if ma != nil {
			b = w.app.BankKeeper.GetBalance(w.ctx, ma, d).Amount.BigInt()
		}
		k := g.pick(8)
		if pool && d == w.denom {
			k = []int{0, 2, 3}[g.pick(3)]
		}
		switch k {
		case 0:
			return "0"
		case 1:
			return b.String()
		case 2:
			return new(big.Int).Add(b, big.NewInt(1)).String()
		case 3:
			return "-5"
		case 4:
			return new(big.Int).Rsh(b, 1).String()
		default:
			return strconv.Itoa(1 + g.pick(1000))
		}
	}
	ds := []string{w.denom, "uatom"}
	sort.Strings(ds)
	switch g.pick(6) {
	case 0:
		return "burn " + hxs(mod) + " 0"
	case 1:
		return fmt.Sprintf("burn %s 2 %s %s %s %s", hxs(mod), hxs(ds[0]), amt(ds[0]), hxs(ds[1]), amt(ds[1]))
	case 2:
		return fmt.Sprintf("burn %s 2 %s %s %s %s", hxs(mod), hxs(ds[1]), amt(ds[1]), hxs(ds[0]), amt(ds[0])) // unsorted
	case 3:
		return fmt.Sprintf("burn %s 2 %s %s %s %s", hxs(mod), hxs(ds[0]), amt(ds[0]), hxs(ds[0]), amt(ds[0])) // duplicate
	default:
		d := ds[g.pick(2)]
		return fmt.Sprintf("burn %s 1 %s %s", hxs(mod), hxs(d), amt(d))
	}
}

// entriesHistory: the 7-entries limits of unbonding delegations / redelegations and the transitive-redelegation rule,
// reached by one caller (EOA or helper contract) through the staking contract.
func (g *c17Gen) entriesHistory() []string {
	w := g.w
	from := w.eoas[g.pick(3)]
	viaProxy := g.pick(2) == 0
	a, b, c := g.pick(3), 0, 0
	b = (a + 1 + g.pick(2)) % 3
	c = 3 - a - b
	e18 := new(big.Int).Exp(big.NewInt(10), big.NewInt(18), nil)
	mk := func(call *c17Call) string {
		nd := &c17Node{tag: 'S', kind: 'c', call: call}
		if viaProxy {
			nd = &c17Node{tag: 'P', kind: 'c', target: w.proxies[0], body: []*c17Node{nd}}
		}
		return "tx " + hx(from.Bytes()) + " " + w.nodeToks(nd)
	}
	ops := []string{mk(&c17Call{fn: "delegate", v1: w.vals[a].String(), amt: new(big.Int).Mul(e18, big.NewInt(40))})}
	redel := g.pick(2) == 0
	for i := 0; i < 9; i++ {
		if redel {
			ops = append(ops, mk(&c17Call{fn: "redelegate", v1: w.vals[a].String(), v2: w.vals[b].String(), amt: big.NewInt(int64(1 + i))}))
		} else {
			ops = append(ops, mk(&c17Call{fn: "undelegate", v1: w.vals[a].String(), amt: big.NewInt(int64(1 + i))}))
		}
	}
	ops = append(ops, mk(&c17Call{fn: "redelegate", v1: w.vals[b].String(), v2: w.vals[c].String(), amt: big.NewInt(1)}), // transitive (after redelegations)
		mk(&c17Call{fn: "redelegate", v1: w.vals[a].String(), v2: w.vals[c].String(), amt: big.NewInt(2)}),
		mk(&c17Call{fn: "undelegate", v1: w.vals[a].String(), amt: big.NewInt(3)}),
		mk(&c17Call{fn: "withdraw", v1: w.vals[a].String()}))
	return ops
}

// boundaryHistory: (B) every boundary value of the amount field delegated by the rich account (in random order, so that
// the consensus-power limit is met with different validator stakes), then undelegations of boundary amounts, weighted
// votes with a single option of every boundary weight, with 5 … 1000 options, and votes on boundary proposal ids.
func (g *c17Gen) boundaryHistory() []string {
	w := g.w
	rich := w.eoas[1]
	mk := func(from common.Address, call *c17Call) string {
		return "tx " + hx(from.Bytes()) + " " + w.nodeToks(&c17Node{tag: 'S', kind: 'c', call: call})
	}
	var ops []string
	for _, i := range g.r.Rng.Perm(len(c17Boundaries)) {
		b := c17Boundaries[i]
		g.r.Count("bnd.amt." + b.name)
		ops = append(ops, mk(rich, &c17Call{fn: "delegate", v1: w.vals[g.pick(3)].String(), amt: b.val()}))
		if g.pick(3) == 0 {
			bb := c17Boundaries[g.pick(len(c17Boundaries))]
			ops = append(ops, mk(rich, &c17Call{fn: []string{"undelegate", "redelegate"}[g.pick(2)], v1: w.vals[g.pick(3)].String(), v2: w.vals[g.pick(3)].String(), amt: bb.val()}))
		}
	}
	for _, wt := range []uint64{0, 1, 50, 99, 100, 101, 1 << 32, (1 << 32) + 100, 1 << 63, ^uint64(0)} {
		g.r.Count("bnd.votew.single")
		ops = append(ops, mk(w.eoas[g.pick(3)], &c17Call{fn: "votew", pid: []uint64{1, 3}[g.pick(2)], opts: []govcontract.GovOptionWeight{{Option: uint32(1 + g.pick(4)), Weight: wt}}}))
	}
	for _, n := range []int{4, 5, 8, 100, 101, 1000} {
		var opts []govcontract.GovOptionWeight
		for i := 0; i < n; i++ {
			wt := uint64(1)
			if i == 0 && n <= 100 {
				wt = uint64(101 - n)
			}
			opts = append(opts, govcontract.GovOptionWeight{Option: uint32(1 + i%4), Weight: wt})
		}
		g.r.Count("bnd.votew.many")
		ops = append(ops, mk(w.eoas[g.pick(3)], &c17Call{fn: "votew", pid: 3, opts: opts}))
	}
	for _, pid := range []uint64{0, 1, 2, 3, 4, (1 << 63) - 1, 1 << 63, ^uint64(0)} {
		g.r.Count("bnd.pid")
		ops = append(ops, mk(w.eoas[g.pick(3)], &c17Call{fn: "vote", pid: pid, opt: 1}))
	}
	return ops
}

// unbondingSlashHistory: (V) delegate, a block later undelegate and redelegate through the contract, a block later the
// validator is slashed for an infraction at height 1: the unbonding entry is slashed out of the NOT-bonded pool, the
// redelegation out of the destination validator — all burns must arrive at the fee collector, supply unchanged; then the
// remaining entry matures through the real EndBlock and pays the caller.
func (g *c17Gen) unbondingSlashHistory() []string {
	w := g.w
	from := w.eoas[g.pick(3)]
	a := g.pick(3)
	b := (a + 1 + g.pick(2)) % 3
	e18 := new(big.Int).Exp(big.NewInt(10), big.NewInt(18), nil)
	viaProxy := g.pick(2) == 0
	mk := func(call *c17Call) string {
		nd := &c17Node{tag: 'S', kind: 'c', call: call}
		if viaProxy {
			nd = &c17Node{tag: 'P', kind: 'c', target: w.proxies[1], body: []*c17Node{nd}}
		}
		return "tx " + hx(from.Bytes()) + " " + w.nodeToks(nd)
	}
	ops := []string{
		mk(&c17Call{fn: "delegate", v1: w.vals[a].String(), amt: new(big.Int).Mul(e18, big.NewInt(10))}),
		"block 5000000000",
		mk(&c17Call{fn: "undelegate", v1: w.vals[a].String(), amt: new(big.Int).Mul(e18, big.NewInt(4))}),
	}
	if g.pick(2) == 0 {
		ops = append(ops, mk(&c17Call{fn: "redelegate", v1: w.vals[a].String(), v2: w.vals[b].String(), amt: new(big.Int).Mul(e18, big.NewInt(2))}))
	}
	ops = append(ops, "block 5000000000")
	if g.pick(3) > 0 {
		ops = append(ops, fmt.Sprintf("slash %d %d past", a, []int{5, 50, 100}[g.pick(3)]))
		ops = append(ops, fmt.Sprintf("block %d", int64(c17UnbondingTime)), "block 1000000000", mk(&c17Call{fn: "withdraw", v1: w.vals[a].String()}))
	} else {
		ops = append(ops, fmt.Sprintf("block %d", int64(c17UnbondingTime)-5_000_000_000+int64(g.pick(3)-1)), "block 1000000000",
			mk(&c17Call{fn: "undelegate", v1: w.vals[a].String(), amt: e18}))
	}
	return ops
}

func TestC17(t *testing.T) {
	r := NewRec(t, "C17")
	defer r.Close()
	w := newC17World()
	var mod *c17Mod
	var chain *c17Chain
	one := func(op string) {
		switch strings.Fields(op)[0] {
		case "cinit", "dtx", "restart", "reimport", "cslash":
			// committed chain: every operation is a block through DeliverTx + Commit; created on first use
			if chain == nil {
				chain = newC17Chain(t)
				if !strings.HasPrefix(op, "cinit") {
					c, out := chain.apply(r, "cinit")
					r.Op(c, out)
				}
			}
			c, out := chain.apply(r, op)
			r.Op(c, out)
			return
		}
		if strings.HasPrefix(op, "minit") || strings.HasPrefix(op, "recv ") {
			// module-call path: two chains with light clients, created on first use
			if mod == nil {
				mod = newC17Mod(t)
				if !strings.HasPrefix(op, "minit") {
					c, out := mod.apply(r, "minit")
					r.Op(c, out)
				}
			}
			c, out := mod.apply(r, op)
			r.Op(c, out)
			return
		}
		c, out := w.apply(r, op)
		r.Op(c, out)
	}
	one("topics")
	one("init")
	// fixed scenarios through the real DeliverTx (oracle only; also part of every replay)
	if pan, msg := safely(func() { c17DeliverPhase(r) }); pan {
		r.Find(Finding{Sig: "C17:delivertx:harness-panic", What: "DeliverTx phase panicked: " + msg, Ops: []string{"# delivertx phase"}, Obs: "panic", Req: "-"})
	}
	// whole apps started from genesis documents with every account shape at the system-contract addresses
	if pan, msg := safely(func() { c17GenesisPhase(r) }); pan {
		r.Find(Finding{Sig: "C17:genesis:harness-panic", What: "genesis phase panicked: " + msg, Ops: []string{"# genesis phase"}, Obs: "panic", Req: "-"})
	}
	if ops := replayOps(t); ops != nil {
		for _, op := range ops {
			if strings.HasPrefix(op, "topics") || strings.HasPrefix(op, "init") || strings.HasPrefix(op, "#") || strings.HasPrefix(op, "genesis") {
				continue
			}
			one(op)
		}
		return
	}
	for _, h := range corpusOps("C17") {
		one("reset")
		for _, op := range h {
			if op != "reset" {
				one(op)
			}
		}
	}
	hist := 300
	if r.Tier == "thorough" {
		hist = 1500
	}
	if n := envInt("VERIF_N", 0); n > 0 {
		hist = int(n)
	}
	g := &c17Gen{w: w, r: r}
	for i := 0; i < hist; i++ {
		one("reset")
		g.govDrained = false
		g.blocks = 0
		if i%25 == 3 {
			for _, op := range g.entriesHistory() {
				one(op)
			}
			continue
		}
		if i%25 == 15 {
			for _, op := range g.boundaryHistory() {
				one(op)
			}
			continue
		}
		if i%25 == 9 {
			for _, op := range g.unbondingSlashHistory() {
				one(op)
			}
			continue
		}
		steps := 4 + g.pick(14)
		// regimes the driver's native model does not describe (the oracle on real state stays exact): a slash in the middle
		// of the history (shares != tokens afterwards), or rewards allocated to all validators
		special, at := g.pick(10), 1+g.pick(4)
		for s := 0; s < steps; s++ {
			if s == at && special == 0 {
				one(fmt.Sprintf("slash %d %d%s", g.pick(3), []int{1, 5, 50, 100}[g.pick(4)], g.past()))
			}
			if s == at && special == 1 {
				one("allocate")
			}
			switch x := g.pick(100); {
			case x < 5:
				// (D) a discarded execution; half of the time the very same transaction is then executed for real (a keeper
				// memo that ignores the context would now think it had been handled already)
				t := g.tx()
				pre := g.pre
				one("dry" + t[2:])
				if g.pick(2) == 0 {
					for _, op := range pre {
						one(op)
					}
					one(t)
					r.Count("dry.then-real")
				}
			case x < 12 && g.blocks < 3:
				for _, op := range g.blockOps() {
					one(op)
				}
			case x < 78:
				for _, op := range g.txOps() {
					one(op)
				}
			case x < 92:
				one(g.hookOp())
			default:
				if !w.maskB {
					one(g.burnOp())
				}
			}
		}
		if w.skip || w.maskB {
			continue
		}
		switch g.pick(5) {
		case 0:
			one(fmt.Sprintf("slash %d %d%s", g.pick(3), []int{0, 1, 5, 50, 100}[g.pick(5)], g.past()))
		case 1:
			if !g.govDrained {
				one("govburn")
			}
		case 2, 3:
			g.rewardMode = true
			one("reward" + g.tx())
			g.rewardMode = false
		}
	}
	// ---- module-call path: packets from chain A whose call data reaches the system contracts of chain B
	nrecv := 160
	if r.Tier == "thorough" {
		nrecv = 600
	}
	if n := envInt("VERIF_NRECV", -1); n >= 0 {
		nrecv = int(n)
	}
	if nrecv > 0 {
		one("minit")
		gm := &c17Gen{w: mod.wb, r: r}
		for i := 0; i < nrecv; i++ {
			one(gm.recvOp(mod))
		}
	}
	// ---- committed chain with node restarts and restarts from an exported genesis
	nchain := 60
	if r.Tier == "thorough" {
		nchain = 200
	}
	if n := envInt("VERIF_NCHAIN", -1); n >= 0 {
		nchain = int(n)
	}
	if nchain > 0 {
		one("cinit")
		gc := &c17Gen{w: chain.w, r: r}
		next := gc.chainOps(chain, nchain)
		for i := 0; i < nchain; i++ {
			one(next())
		}
	}
}
