//go:build c03

package verifharness

// C03 — history generator. One history = `reset`, a randomised token / binding configuration, then a random
// interleaving of sends (ERC-20 / native / bound tokens going back, with and without call data of every kind),
// packet relays and acknowledgement relays (valid, duplicated, premature, forged, for unknown packets).

import (
	"fmt"
	"math/big"
	"strings"
)

type c03Tok struct {
	id     int
	origin bool // origin token of this chain (id 0 native, id 1 ERC-20, or an extra unbound one)
	oc, ot int  // for vouchers: origin chain / token
	scale  int
}

func (h *c03Harness) generate(steps int, emit func(op string)) {
	rng := h.r.Rng
	emit("reset")
	// one history in four works at the uint256 boundaries: supplies up to 2^256-1, amounts and fees at 2^63, 2^64, 2^128,
	// 2^255, 2^256-1, unlimited allowances, binding scales 18 / 77 / 78 / 255
	big256 := rng.Intn(4) == 0
	pow2 := func(n uint) *big.Int { return new(big.Int).Lsh(big.NewInt(1), n) }
	maxU := new(big.Int).Sub(pow2(256), big.NewInt(1))
	bounds := []*big.Int{pow2(31), pow2(32), new(big.Int).Add(pow2(53), big.NewInt(1)), new(big.Int).Sub(pow2(63), big.NewInt(1)), pow2(63),
		new(big.Int).Sub(pow2(64), big.NewInt(1)), pow2(64), pow2(128), pow2(255), maxU,
		new(big.Int).Exp(big.NewInt(10), big.NewInt(19), nil), new(big.Int).Exp(big.NewInt(10), big.NewInt(30), nil)}
	// a boundary value that is at most b (nil if there is none)
	boundUpTo := func(b *big.Int) *big.Int {
		var ok []*big.Int
		for _, x := range bounds {
			if x.Cmp(b) <= 0 {
				ok = append(ok, x)
			}
		}
		if len(ok) == 0 {
			return nil
		}
		return ok[rng.Intn(len(ok))]
	}
	// a value in 0..b for balances of any size
	randUpTo := func(b *big.Int) *big.Int {
		if b.Sign() <= 0 {
			return big.NewInt(0)
		}
		if b.IsInt64() {
			return big.NewInt(rng.Int63n(b.Int64() + 1))
		}
		switch rng.Intn(4) {
		case 0:
			return new(big.Int).Div(b, big.NewInt(int64(2+rng.Intn(5))))
		case 1:
			return new(big.Int).Sub(b, big.NewInt(int64(rng.Intn(3))))
		}
		if x := boundUpTo(b); x != nil {
			return x
		}
		return new(big.Int).Div(b, big.NewInt(3))
	}
	toks := [c03NChains][]c03Tok{}
	for c := 0; c < c03NChains; c++ {
		toks[c] = []c03Tok{{id: 0, origin: true}, {id: 1, origin: true}}
		emit(fmt.Sprintf("deploy %d 1", c))
		if big256 {
			// the user holds most of a supply that may be full; a second mint then fails (total supply is a checked uint256)
			first := []*big.Int{maxU, pow2(255), new(big.Int).Sub(maxU, pow2(128)), new(big.Int).Add(pow2(255), pow2(64))}[rng.Intn(4)]
			emit(fmt.Sprintf("mint %d 1 0 %s", c, first))
			emit(fmt.Sprintf("approve %d 1 0 %s", c, []*big.Int{maxU, maxU, new(big.Int).Sub(maxU, big.NewInt(1))}[rng.Intn(3)]))
			if rng.Intn(2) == 0 {
				emit(fmt.Sprintf("mint %d 1 8 %s", c, []*big.Int{big.NewInt(1), pow2(128), pow2(255)}[rng.Intn(3)]))
			}
			for _, a := range []int{c03AccU8, c03AccU9} {
				emit(fmt.Sprintf("transfer %d 1 0 %d %s", c, a, []*big.Int{pow2(64), pow2(128), pow2(200)}[rng.Intn(3)]))
				emit(fmt.Sprintf("approve %d 1 %d %s", c, a, []*big.Int{maxU, pow2(255), pow2(128)}[rng.Intn(3)]))
				emit(fmt.Sprintf("transfer %d 0 0 %d %d", c, a, 500+rng.Intn(3000)))
			}
			if rng.Intn(2) == 0 {
				emit(fmt.Sprintf("transfer %d 1 0 %d %s", c, c03AccFwd, pow2(uint(60+rng.Intn(140)))))
			}
			continue
		}
		emit(fmt.Sprintf("mint %d 1 0 %d", c, 5000+rng.Intn(5000)))
		if rng.Intn(6) > 0 { // the forwarder (batching) contract holds some of the origin token
			emit(fmt.Sprintf("mint %d 1 %d %d", c, c03AccFwd, 1000+rng.Intn(3000)))
		}
		// two further sending accounts: some coins and tokens, allowances that are exact, too small or missing
		for _, a := range []int{c03AccU8, c03AccU9} {
			if rng.Intn(4) > 0 {
				emit(fmt.Sprintf("transfer %d 0 0 %d %d", c, a, 500+rng.Intn(3000)))
			}
			if rng.Intn(5) > 0 {
				emit(fmt.Sprintf("mint %d 1 %d %d", c, a, 500+rng.Intn(3000)))
			}
			switch rng.Intn(4) {
			case 0: // no allowance at all
			case 1:
				emit(fmt.Sprintf("approve %d 1 %d %d", c, a, 1+rng.Intn(300)))
			default:
				emit(fmt.Sprintf("approve %d 1 %d %d", c, a, 1000+rng.Intn(5000)))
			}
		}
	}
	scaleOf := func() int {
		if big256 && rng.Intn(2) == 0 {
			return []int{18, 77, 78, 255, 1, 38}[rng.Intn(6)]
		}
		switch rng.Intn(20) {
		case 0, 1, 2, 3, 4:
			return 1
		case 5, 6, 7:
			return 2
		}
		return 0
	}
	// first-level vouchers
	for c := 0; c < c03NChains; c++ {
		for o := 0; o < c03NChains; o++ {
			if o == c {
				continue
			}
			for ot := 0; ot <= 1; ot++ {
				if rng.Intn(8) == 0 {
					continue // leave unbound: transfers of it are refused with an error result and refunded
				}
				id := len(toks[c])
				sc := scaleOf()
				toks[c] = append(toks[c], c03Tok{id: id, oc: o, ot: ot, scale: sc})
				emit(fmt.Sprintf("deploy %d %d", c, id))
				emit(fmt.Sprintf("bind %d %d %d %d %d", c, id, o, ot, sc))
			}
		}
	}
	// second-level vouchers (a voucher of a voucher: what the agent forwards)
	first := toks
	for c := 0; c < c03NChains; c++ {
		for o := 0; o < c03NChains; o++ {
			if o == c {
				continue
			}
			for _, v := range first[o] {
				if v.origin || v.oc == c || rng.Intn(3) == 0 {
					continue
				}
				id := len(toks[c])
				sc := scaleOf()
				toks[c] = append(toks[c], c03Tok{id: id, oc: o, ot: v.id, scale: sc})
				emit(fmt.Sprintf("deploy %d %d", c, id))
				emit(fmt.Sprintf("bind %d %d %d %d %d", c, id, o, v.id, sc))
			}
		}
	}
	// planted send counters (as an imported genesis would carry them): before any traffic on the path
	for c := 0; c < c03NChains; c++ {
		for d := 0; d < c03NChains; d++ {
			if d != c && rng.Intn(7) == 0 {
				n := []string{"4294967296", "9007199254740993", "9223372036854775807", "9223372036854775808", "9223372036854775808",
					"18446744073709551612", "18446744073709551614"}[rng.Intn(7)]
				emit(fmt.Sprintf("plant %d %d %s", c, d, n))
			}
		}
	}
	other := func(c int) int {
		d := rng.Intn(c03NChains - 1)
		if d >= c {
			d++
		}
		return d
	}
	amount := func(bal *big.Int) string {
		switch x := rng.Intn(20); {
		case x == 0:
			return "0"
		case x == 1:
			return bal.String()
		case x == 2:
			if bal.Cmp(maxU) >= 0 {
				return maxU.String() // (the op language carries uint256 values only)
			}
			return new(big.Int).Add(bal, big.NewInt(1)).String()
		case x == 3:
			return "1"
		default:
			if bal.Sign() == 0 {
				return fmt.Sprint(1 + rng.Intn(50))
			}
			if !bal.IsInt64() { // uint256 territory: mostly a boundary value that the sender can afford
				if x < 12 {
					if b := boundUpTo(bal); b != nil {
						return b.String()
					}
				}
				return randUpTo(bal).String()
			}
			m := new(big.Int).Div(bal, big.NewInt(4))
			if m.Sign() == 0 || !m.IsInt64() {
				m = big.NewInt(1000)
			}
			return fmt.Sprint(1 + rng.Int63n(m.Int64()+1))
		}
	}
	callSpec := func(c, d int, amt string) (string, int) {
		rcv := []int{0, 6, 7, 8, 9, 8, 0, 6, 7, 8, 9, 8, c03AccFwd}[rng.Intn(13)]
		if rng.Intn(100) < 8 { // a module account of the destination: the bank refuses to credit the native coin to it
			rcv = c03AccGov + rng.Intn(c03NAcc-c03AccGov)
		}
		switch x := rng.Intn(100); {
		case x < 40:
			return "n", rcv
		case x < 50:
			return "po", rcv
		case x < 62:
			return "pf", rcv
		case x < 68:
			return "pr", rcv
		case x < 80:
			return "ph", rcv
		default:
			ad := other(d)
			switch rng.Intn(8) {
			case 0:
				ad = c03Ghost
			case 1:
				ad = d
			}
			a, _ := new(big.Int).SetString(amt, 10)
			fee := int64(0)
			if a.IsInt64() && a.Int64() > 0 {
				fee = rng.Int63n(a.Int64()/2 + 1)
			}
			switch rng.Intn(10) {
			case 0:
				if a.IsInt64() && a.Int64() < 1<<62 {
					fee = a.Int64() + 1
				}
			case 1:
				if a.IsInt64() {
					fee = a.Int64()
				}
			}
			r := c03AccAgent
			if rng.Intn(10) == 0 {
				r = 6 // wrong receiver: the agent refuses
			}
			return fmt.Sprintf("a:%d:%d:%d:%d", []int{0, 7}[rng.Intn(2)], []int{0, 6, 7}[rng.Intn(3)], ad, fee), r
		}
	}
	// relayer registry: default entries (see defaultRegistry) and deviations from them
	defSigner := func(p int) string {
		var a []string
		for q := 0; q < c03NChains; q++ {
			if q != p {
				a = append(a, fmt.Sprintf("%d:%d", q, p*16+q))
			}
		}
		return fmt.Sprintf("register %d %d ? %s", p, c03AccUser, strings.Join(a, " "))
	}
	defRecipient := func(p int) string {
		var a []string
		for q := 0; q < c03NChains; q++ {
			if q != p {
				a = append(a, fmt.Sprintf("%d:%d", q, q*16+p))
			}
		}
		return fmt.Sprintf("register %d %d ? %s", p, c03AccRelayer, strings.Join(a, " "))
	}
	customRecipient := func(p int) string { // account 6 is paid for every custom name (70..72) from every other chain
		var a []string
		for q := 0; q < c03NChains; q++ {
			if q != p {
				for t := 70; t <= 72; t++ {
					a = append(a, fmt.Sprintf("%d:%d", q, t))
				}
			}
		}
		return fmt.Sprintf("register %d %d ? %s", p, c03AccU6, strings.Join(a, " "))
	}
	by := func() string { // who signs a relay message
		switch rng.Intn(8) {
		case 0:
			return " by8"
		case 1:
			return " by9"
		}
		return ""
	}
	registryOp := func() {
		p := rng.Intn(c03NChains)
		q := other(p)
		switch rng.Intn(16) {
		case 14, 15: // a module account (blocked for the native coin) is registered as the one to be paid
			m := []int{c03AccGov, c03AccFeeColl, c03AccBonded, c03AccPacketMod}[rng.Intn(4)]
			if rng.Intn(3) == 0 {
				emit(fmt.Sprintf("register %d %d ?", p, m))
			} else {
				emit(fmt.Sprintf("register %d %d ? %d:%d %d:%d", p, m, q, q*16+p, 3-p-q, (3-p-q)*16+p))
				if rng.Intn(2) == 0 { // … and it is the only one listing that name
					emit(fmt.Sprintf("register %d %d ? %d:%d", p, c03AccRelayer, p, q*16+p))
				}
			}
		case 0, 1: // the fee recipient is re-registered for ONE counterparty only: acknowledgements from the other one name a relayer this chain can not resolve
			emit(fmt.Sprintf("register %d %d ? %d:%d", p, c03AccRelayer, q, q*16+p))
		case 2, 3:
			emit(defRecipient(p))
		case 4, 12, 13: // a further relayer (signer 8 or 9) with a name of its own, with or without somebody to be paid on the other side
			a := []int{c03AccU8, c03AccU9}[rng.Intn(2)]
			t := 70 + rng.Intn(3)
			emit(fmt.Sprintf("register %d %d ? %d:%d", p, a, q, t))
			if rng.Intn(3) > 0 {
				emit(fmt.Sprintf("register %d %d ? %d:%d", q, []int{c03AccU6, c03AccU7}[rng.Intn(2)], p, t))
			}
		case 5: // the usual signer goes by another name for one counterparty
			t := 70 + rng.Intn(3)
			emit(fmt.Sprintf("register %d %d ? %d:%d %d:%d", p, c03AccUser, q, t, 3-p-q, p*16+(3-p-q)))
			if rng.Intn(2) == 0 {
				emit(customRecipient(q))
			}
		case 6, 7:
			emit(defSigner(p))
		case 8: // two entries list the same name: the store order decides who is paid
			emit(fmt.Sprintf("register %d %d ? %d:%d", p, c03AccU6, q, q*16+p))
			emit(fmt.Sprintf("register %d %d ? %d:%d", p, c03AccU7, q, q*16+p))
		case 9: // de-registration (an entry for no chain at all)
			emit(fmt.Sprintf("register %d %d ?", p, []int{c03AccUser, c03AccRelayer, c03AccU8, c03AccU6}[rng.Intn(4)]))
		case 10:
			emit(customRecipient(p))
		case 11: // registered for the wrong chain
			emit(fmt.Sprintf("register %d %d ? %d:%d", p, c03AccRelayer, p, q*16+p))
		}
	}
	// a relay op, sometimes preceded (or followed) by the same transaction on a dropped context
	relay := func(op string) {
		sim := "sim" + op
		switch rng.Intn(12) {
		case 0, 1:
			emit(sim)
			emit(op)
		case 2:
			emit(op)
			emit(sim)
		default:
			emit(op)
		}
	}
	// a burst: many transfers on ONE path before any of them is relayed, then deliveries and acknowledgements in
	// adversarial orders (shorter decimal sequences first while longer ones with the same leading digits are pending;
	// reverse; shuffled), error acknowledgements (refunds) among them, mixed tokens
	burstAt := -1
	if rng.Intn(3) == 0 {
		burstAt = []int{0, 0, 1 + rng.Intn(steps/2)}[rng.Intn(3)]
	}
	burst := func() {
		c := rng.Intn(c03NChains)
		d := other(c)
		n := 10 + rng.Intn(16)
		if h.r.Tier == "thorough" && rng.Intn(6) == 0 {
			n = 100 + rng.Intn(30)
		}
		h.r.Count("burst")
		var held []c03Tok
		for _, t := range toks[c] {
			if b := h.w.balance(c, h.w.tok[c][t.id], h.w.acc[c03AccUser]); b.Cmp(big.NewInt(int64(400*n))) > 0 {
				held = append(held, t)
			}
		}
		for i := 0; i < n; i++ {
			t := toks[c][0]
			if len(held) > 0 && rng.Intn(4) > 0 {
				t = held[rng.Intn(len(held))]
			}
			amt := 1 + rng.Intn(40)
			if !t.origin && d == t.oc && t.scale > 0 {
				amt = 1 + rng.Intn(3)
			}
			call := []string{"n", "n", "n", "pf", "pf", "po", "ph"}[rng.Intn(7)]
			emit(fmt.Sprintf("send %d 0 %d %d %d %d %d %d %s", c, d, t.id, amt, []int{0, 6, 7}[rng.Intn(3)], t.id, rng.Intn(4), call))
		}
		var ps []*c03Obs
		for _, k := range h.keys {
			if o := h.obs[k]; o.src == c && o.dst == d && !o.received {
				ps = append(ps, o)
			}
		}
		order := func(kind int) []*c03Obs {
			l := append([]*c03Obs{}, ps...)
			switch kind {
			case 0: // ascending: 1 before 10..19, 2 before 20..
			case 1: // descending
				for i, j := 0, len(l)-1; i < j; i, j = i+1, j-1 {
					l[i], l[j] = l[j], l[i]
				}
			default:
				rng.Shuffle(len(l), func(i, j int) { l[i], l[j] = l[j], l[i] })
			}
			return l
		}
		for _, o := range order(rng.Intn(3)) {
			if rng.Intn(12) > 0 { // (a few stay undelivered for the rest of the history)
				emit(fmt.Sprintf("recv %d %d %d", o.src, o.dst, o.seq))
			}
		}
		for _, o := range order([]int{0, 0, 1, 2}[rng.Intn(4)]) {
			if o.received && rng.Intn(10) > 0 {
				emit(fmt.Sprintf("ack %d %d %d", o.src, o.dst, o.seq))
			}
		}
	}
	for s := 0; s < steps; s++ {
		if s == burstAt {
			burst()
		}
		if rng.Intn(100) < 7 {
			registryOp()
			continue
		}
		switch y := rng.Intn(1000); {
		case y < 30: // the xibc module of a chain goes through export -> import
			emit(fmt.Sprintf("restart %d", rng.Intn(c03NChains)))
			continue
		case y < 38: // the whole application does
			emit(fmt.Sprintf("restartapp %d", rng.Intn(c03NChains)))
			continue
		case y < 70: // the senders' callback contract starts / stops reverting
			c := rng.Intn(c03NChains)
			on := 1
			if h.switchOn[c] && rng.Intn(4) > 0 {
				on = 0
			}
			emit(fmt.Sprintf("cbset %d %d", c, on))
			continue
		}
		var unrecv, unacked, done []*c03Obs
		for _, k := range h.keys {
			o := h.obs[k]
			switch {
			case !o.received:
				unrecv = append(unrecv, o)
			case !o.acked:
				unacked = append(unacked, o)
			default:
				done = append(done, o)
			}
		}
		// look-alike spec: mostly the right source, a destination with a client and exactly the next send sequence
		fakeSpec := func(c int) string {
			d := other(c)
			if rng.Intn(12) == 0 {
				d = c03Ghost
			}
			sq := []string{"n", "n", "n", "n", "n", "f", "p"}[rng.Intn(7)]
			sr := []string{"s", "s", "s", "s", "s", "o"}[rng.Intn(6)]
			t := toks[c][rng.Intn(len(toks[c]))]
			return fmt.Sprintf("%d,%s,%s,%d,%d,%d", d, sq, sr, t.id, 1+rng.Intn(2000), []int{0, 6, 7, 8, 9}[rng.Intn(5)])
		}
		if rng.Intn(100) < 5 {
			// a transaction straight to a contract that emits a PacketSent-shaped log: not the packet contract, so no packet
			c := rng.Intn(c03NChains)
			emit(fmt.Sprintf("fakelog %d %d %s", c, []int{0, 0, 0, 8, 9}[rng.Intn(5)], fakeSpec(c)))
			continue
		}
		if rng.Intn(100) < 9 {
			// ONE transaction with several crossChainCalls (forwarder contract): several PacketSent events in one receipt
			c := rng.Intn(c03NChains)
			snd := []int{0, 0, 0, 0, 8, 9}[rng.Intn(6)]
			strict := 1
			if rng.Intn(10) < 3 {
				strict = 0
			}
			var legs []string
			k := []int{2, 2, 2, 2, 2, 2, 2, 2, 3, 1}[rng.Intn(10)]
			budget := map[int]*big.Int{}
			approved := map[int]bool{}
			prev := -1
			for j := 0; j < k; j++ {
				d := other(c)
				for tries := 0; tries < 3 && d == prev; tries++ {
					d = other(c)
				}
				switch y := rng.Intn(100); {
				case y < 8 && prev >= 0:
					d = prev // twice to the same destination: both legs read the same sequence, the second SendPacket fails
				case y < 14:
					d = c03Ghost // no client: the hook fails, everything reverts
				}
				prev = d
				t := toks[c][[]int{1, 1, 1, 0, 0}[rng.Intn(5)]]
				if rng.Intn(6) == 0 {
					t = toks[c][rng.Intn(len(toks[c]))]
				}
				if budget[t.id] == nil {
					if t.id == 0 {
						budget[0] = big.NewInt(int64(200 + rng.Intn(600)))
					} else {
						budget[t.id] = h.w.balance(c, h.w.tok[c][t.id], h.w.acc[c03AccFwd])
					}
				}
				if budget[t.id].Sign() == 0 && rng.Intn(5) > 0 { // nothing of it held by the forwarder: mostly take the coin instead
					t = toks[c][0]
					if budget[0] == nil {
						budget[0] = big.NewInt(int64(200 + rng.Intn(600)))
					}
				}
				amt := big.NewInt(0)
				if budget[t.id].Sign() > 0 {
					amt = new(big.Int).Add(big.NewInt(1), randUpTo(new(big.Int).Div(budget[t.id], big.NewInt(3))))
				}
				if !t.origin && d == t.oc && t.scale > 0 {
					amt.Div(amt, new(big.Int).Exp(big.NewInt(10), big.NewInt(int64(t.scale)), nil))
				}
				switch rng.Intn(22) {
				case 0:
					amt = big.NewInt(999999999) // fails inside the EVM: strict reverts everything, otherwise this leg alone is skipped
				case 1:
					amt = big.NewInt(0)
				}
				ft, fa := t.id, rng.Intn(8)
				if rng.Intn(4) == 0 {
					ft = 0
				}
				if t.id != 0 && !approved[t.id] && rng.Intn(8) > 0 {
					legs = append(legs, fmt.Sprintf("A,%d,%d", t.id, 100000+rng.Intn(1000)))
					approved[t.id] = true
				}
				call := []string{"n", "n", "n", "n", "po", "pf", "ph"}[rng.Intn(7)]
				rcv := []int{0, 6, 7, 8, 9}[rng.Intn(5)]
				legs = append(legs, fmt.Sprintf("S,%d,%d,%s,%d,%d,%d,%s", d, t.id, amt, rcv, ft, fa, call))
			}
			if rng.Intn(100) < 40 { // look-alike logs in the same receipt as the genuine sends: before, between, after them
				for n := 1 + rng.Intn(2); n > 0; n-- {
					at := []int{0, len(legs), rng.Intn(len(legs) + 1)}[rng.Intn(3)]
					legs = append(legs[:at], append([]string{"L," + fakeSpec(c)}, legs[at:]...)...)
				}
			}
			emit(fmt.Sprintf("batch %d %d %d %s", c, snd, strict, strings.Join(legs, " ")))
			continue
		}
		if rng.Intn(100) < 4 {
			// the native coin of another chain, held here as a voucher, goes home — to a module account of its home chain
			type cand struct {
				c int
				t c03Tok
				b *big.Int
			}
			var cs []cand
			for c := 0; c < c03NChains; c++ {
				for _, t := range toks[c] {
					if !t.origin && t.ot == 0 {
						if b := h.w.balance(c, h.w.tok[c][t.id], h.w.acc[c03AccUser]); b.Sign() > 0 {
							cs = append(cs, cand{c, t, b})
						}
					}
				}
			}
			if len(cs) > 0 {
				k := cs[rng.Intn(len(cs))]
				unit := new(big.Int).Exp(big.NewInt(10), big.NewInt(int64(k.t.scale)), nil)
				if max := new(big.Int).Div(k.b, unit); max.Sign() > 0 {
					amt := new(big.Int).Add(big.NewInt(1), randUpTo(new(big.Int).Div(max, big.NewInt(2))))
					call := []string{"n", "n", "n", "po", "pf", "ph", "pr"}[rng.Intn(7)]
					emit(fmt.Sprintf("send %d 0 %d %d %s %d %d %d %s", k.c, k.t.oc, k.t.id, amt, c03AccGov+rng.Intn(c03NAcc-c03AccGov), k.t.id, rng.Intn(3), call))
					continue
				}
			}
		}
		x := rng.Intn(100)
		switch {
		case x < 38 || (len(unrecv) == 0 && len(unacked) == 0):
			c := rng.Intn(c03NChains)
			d := other(c)
			if rng.Intn(14) == 0 {
				d = c03Ghost
			}
			if rng.Intn(40) == 0 {
				d = c
			}
			snd := []int{0, 0, 0, 8, 8, 9}[rng.Intn(6)]
			// prefer tokens the sender holds
			var held []c03Tok
			for _, t := range toks[c] {
				if h.w.balance(c, h.w.tok[c][t.id], h.w.acc[snd]).Sign() > 0 {
					held = append(held, t)
				}
			}
			t := toks[c][rng.Intn(len(toks[c]))]
			if len(held) > 0 && rng.Intn(8) > 0 {
				t = held[rng.Intn(len(held))]
				// prefer sending vouchers back to where they came from half of the time
				var backs []c03Tok
				for _, v := range held {
					if !v.origin {
						backs = append(backs, v)
					}
				}
				if len(backs) > 0 && rng.Intn(3) > 0 {
					t = backs[rng.Intn(len(backs))]
					for _, v := range backs { // round trips of scaled bound tokens are the rarer case: prefer them
						if v.scale > 0 && rng.Intn(2) == 0 {
							t = v
						}
					}
					if rng.Intn(4) > 0 {
						d = t.oc
					}
				}
			}
			bal := h.w.balance(c, h.w.tok[c][t.id], h.w.acc[snd])
			if t.id == 0 && bal.Cmp(big.NewInt(4000)) > 0 {
				bal = big.NewInt(int64(2000 + rng.Intn(2000)))
			}
			if !t.origin && d == t.oc && t.scale > 0 { // going home: the amount is given in origin units
				bal = new(big.Int).Div(bal, new(big.Int).Exp(big.NewInt(10), big.NewInt(int64(t.scale)), nil))
			}
			amt := amount(bal)
			call, rcv := callSpec(c, d, amt)
			if !t.origin && d == t.oc && t.ot == 0 && !strings.HasPrefix(call, "a:") && rng.Intn(100) < 35 {
				// the native coin going home, to be released to a blocked account: the write-back of the EVM state fails on the
				// destination after the EVM ran
				rcv = c03AccGov + rng.Intn(c03NAcc-c03AccGov)
			}
			ft := t.id
			switch rng.Intn(6) {
			case 0:
				ft = 0
			case 1:
				ft = toks[c][rng.Intn(len(toks[c]))].id
			}
			fa := big.NewInt(int64(rng.Intn(20)))
			if rng.Intn(3) == 0 {
				fa = big.NewInt(0)
			}
			if fb := h.w.balance(c, h.w.tok[c][ft], h.w.acc[snd]); !fb.IsInt64() && rng.Intn(2) == 0 { // a fee at a boundary
				if a, ok := new(big.Int).SetString(amt, 10); ok && ft == t.id && (t.origin || d != t.oc) {
					fb = new(big.Int).Sub(fb, a)
				}
				if b := boundUpTo(fb); b != nil {
					fa = b
				}
			}
			if snd != 0 && t.id != 0 {
				// allowance management of the further senders: exact, one short, stale or none
				a, _ := new(big.Int).SetString(amt, 10)
				if !t.origin && d == t.oc {
					a.Mul(a, new(big.Int).Exp(big.NewInt(10), big.NewInt(int64(t.scale)), nil))
				}
				u256 := func(x *big.Int) *big.Int { // allowances are uint256 values
					if x.Cmp(maxU) > 0 {
						return maxU
					}
					return x
				}
				switch rng.Intn(7) {
				case 0, 1, 2:
					if ft == t.id { // the fee is pulled from the same allowance
						a.Add(a, fa)
					}
					emit(fmt.Sprintf("approve %d %d %d %s", c, t.id, snd, u256(a)))
				case 3:
					emit(fmt.Sprintf("approve %d %d %d %s", c, t.id, snd, u256(new(big.Int).Add(a, big.NewInt(int64(20+rng.Intn(40)))))))
				case 4:
					if a.Sign() > 0 {
						emit(fmt.Sprintf("approve %d %d %d %s", c, t.id, snd, u256(new(big.Int).Sub(a, big.NewInt(1)))))
					}
				}
			}
			cb := ""
			if !strings.HasPrefix(call, "a:") && rng.Intn(100) < 14 {
				cb = " cb" // the sender names its callback contract (the one with the switch)
			}
			emit(fmt.Sprintf("send %d %d %d %d %s %d %d %s %s%s", c, snd, d, t.id, amt, rcv, ft, fa, call, cb))
			if rng.Intn(12) == 0 { // an ordinary transfer in between (tokens reach the further senders this way too)
				to := []int{8, 9, 6}[rng.Intn(3)]
				emit(fmt.Sprintf("transfer %d %d %d %d %d", c, t.id, []int{0, 8}[rng.Intn(2)], to, 1+rng.Intn(200)))
			}
		case x < 70 || len(unacked) == 0:
			switch y := rng.Intn(20); {
			case y == 0 && len(unacked)+len(done) > 0: // duplicate delivery
				l := append(append([]*c03Obs{}, unacked...), done...)
				o := l[rng.Intn(len(l))]
				relay(fmt.Sprintf("recv %d %d %d%s", o.src, o.dst, o.seq, by()))
			case y == 1: // a packet that was never sent
				c := rng.Intn(c03NChains)
				d := other(c)
				emit(fmt.Sprintf("recv %d %d %d", c, d, h.nextSeq(c, d)+uint64(rng.Intn(2))))
			case y == 2 && len(unrecv) > 0: // altered packet
				o := unrecv[rng.Intn(len(unrecv))]
				relay(fmt.Sprintf("recv %d %d %d forge", o.src, o.dst, o.seq))
			case len(unrecv) > 0:
				o := unrecv[rng.Intn(len(unrecv))]
				relay(fmt.Sprintf("recv %d %d %d%s", o.src, o.dst, o.seq, by()))
			default:
				s--
			}
		default:
			switch y := rng.Intn(20); {
			case y == 0 && len(done) > 0: // duplicate acknowledgement
				o := done[rng.Intn(len(done))]
				relay(fmt.Sprintf("ack %d %d %d", o.src, o.dst, o.seq))
			case y == 1 && len(unrecv) > 0: // premature: nothing written yet on the destination
				o := unrecv[rng.Intn(len(unrecv))]
				emit(fmt.Sprintf("ack %d %d %d", o.src, o.dst, o.seq))
			case y == 2: // the opposite outcome of what the destination wrote
				o := unacked[rng.Intn(len(unacked))]
				relay(fmt.Sprintf("ack %d %d %d forge", o.src, o.dst, o.seq))
			default:
				o := unacked[rng.Intn(len(unacked))]
				if o.cb && !h.switchOn[o.src] && rng.Intn(5) < 2 {
					// the sender's callback contract happens to revert when the relayer comes: first delivery fails, retried later
					emit(fmt.Sprintf("cbset %d 1", o.src))
				}
				relay(fmt.Sprintf("ack %d %d %d%s", o.src, o.dst, o.seq, by()))
			}
		}
	}
	// drain: restore a registry in which every name that may have been written into an acknowledgement resolves, then
	// relay everything that is still pending (so that histories end in final outcomes as well)
	for p := 0; p < c03NChains; p++ {
		emit(defSigner(p))
		emit(defRecipient(p))
		emit(customRecipient(p))
		emit(fmt.Sprintf("register %d %d ?", p, c03AccU7))
		for _, m := range []int{c03AccGov, c03AccFeeColl, c03AccBonded, c03AccPacketMod} {
			emit(fmt.Sprintf("register %d %d ?", p, m))
		}
	}
	for c := 0; c < c03NChains; c++ {
		if h.switchOn[c] { // the callback contracts are repaired: acknowledgements that failed in the callback go through now
			emit(fmt.Sprintf("cbset %d 0", c))
		}
	}
	for round := 0; round < 4; round++ {
		progressed := false
		for _, k := range append([]string{}, h.keys...) {
			o := h.obs[k]
			if !o.received {
				emit(fmt.Sprintf("recv %d %d %d", o.src, o.dst, o.seq))
				progressed = true
			}
			if o.received && !o.acked && !o.stuck {
				emit(fmt.Sprintf("ack %d %d %d", o.src, o.dst, o.seq))
				progressed = true
				if !o.acked {
					o.stuck = true // e.g. call-only packet with an error acknowledgement: the ack transaction reverts
				}
			}
		}
		if !progressed {
			break
		}
	}
	_ = strings.Join
}
