//go:build c09

package verifharness

// C09 — BSC (Parlia) light client: "accepts only the next block sealed by an eligible validator".
//
// Drives the real client keeper (CreateClient / UpdateClient -> bsc ClientState.Initialize /
// CheckHeaderAndUpdateState) of /repo inside a real app, on header chains sealed with real secp256k1
// keys. Every operation runs in its own cache context that is written back only on success (this is
// what baseapp does for a transaction), so a rejected header leaves no trace.
//
// op language (bytes lower-case hex, `-` = empty; numbers decimal):
//   reset                                                                   -> ok
//   create <chainId> <epoch> <trustingPeriod> <blockTime> <n> <val>*n <HDR> <hash|panic> <signer|err>
//   update <blockTime> <HDR> <hash|panic> <signer|err>
//        -> ok H:<rev>-<num> V:<val,..> P:<val,..> R:<rev-num=addr,..> C:<time>:<root> N:<#consensus states>
//         | err | panic
//   cons                                                                    -> <rev-num=time:root,..>
//   HDR = rev number parentHash uncleHash coinbase root txHash receiptHash bloom difficulty gasLimit gasUsed time extra mixDigest nonce
//   <hash>   = Header.Hash() of HDR computed with the package's own method (panic if ToBscHeader panics)
//   <signer> = address recovered from the seal with go-ethereum's secp256k1 over the Parlia seal hash
//
// The last two fields are the values of the model's `Env` (hash, ecrecover) for this header; they are
// recomputed (never trusted) by the harness when an op line is replayed.

import (
	"bytes"
	"crypto/ecdsa"
	"encoding/json"
	"fmt"
	"math/big"
	"os"
	"path/filepath"
	"sort"
	"strconv"
	"strings"
	"time"

	sdk "github.com/cosmos/cosmos-sdk/types"
	"github.com/ethereum/go-ethereum/common"
	"github.com/ethereum/go-ethereum/crypto"
	"github.com/ethereum/go-ethereum/rlp"
	tmproto "github.com/tendermint/tendermint/proto/tendermint/types"
	"golang.org/x/crypto/sha3"

	"github.com/teleport-network/teleport/app"
	"github.com/teleport-network/teleport/x/xibc"
	bsctypes "github.com/teleport-network/teleport/x/xibc/clients/light-clients/bsc/types"
	clienttypes "github.com/teleport-network/teleport/x/xibc/core/client/types"
	"github.com/teleport-network/teleport/x/xibc/core/host"
	"github.com/teleport-network/teleport/x/xibc/exported"
	xibctypes "github.com/teleport-network/teleport/x/xibc/types"
)


var c09UncleHash = common.HexToHash("0x1dcc4de8dec75d7aab85b567b6ccd41ad312451b948a7413f0a142fd40d49347")

// ---- seal hash / recovery exactly as bsc/types/header.go computes them (unexported there) -------------

func c09SealHash(h *bsctypes.Header, chainID uint64) (hash common.Hash) {
	hasher := sha3.NewLegacyKeccak256()
	if err := rlp.Encode(hasher, []interface{}{
		big.NewInt(int64(chainID)),
		h.ParentHash, h.UncleHash, h.Coinbase, h.Root, h.TxHash, h.ReceiptHash, h.Bloom, h.Difficulty,
		h.Height.RevisionHeight, h.GasLimit, h.GasUsed, h.Time,
		h.Extra[:len(h.Extra)-65],
		h.MixDigest, h.Nonce,
	}); err != nil {
		panic(err)
	}
	hasher.Sum(hash[:0])
	return hash
}

// c09Recover returns the sealer address ("err" when the package's ecrecover fails).
func c09Recover(h *bsctypes.Header, chainID uint64) (common.Address, bool) {
	if len(h.Extra) < 65 {
		return common.Address{}, false
	}
	var pub []byte
	var err error
	if pan, _ := safely(func() { pub, err = crypto.Ecrecover(c09SealHash(h, chainID).Bytes(), h.Extra[len(h.Extra)-65:]) }); pan {
		return common.Address{}, false // chain id >= 2^63: int64(chainId) is negative, rlp refuses it
	}
	if err != nil {
		return common.Address{}, false
	}
	var a common.Address
	copy(a[:], crypto.Keccak256(pub[1:])[12:])
	return a, true
}

func c09Sign(h *bsctypes.Header, chainID uint64, key *ecdsa.PrivateKey) {
	var sig []byte
	var err error
	if pan, _ := safely(func() { sig, err = crypto.Sign(c09SealHash(h, chainID).Bytes(), key) }); pan {
		return // chain id >= 2^63 cannot be sealed for (rlp refuses the negative int64): the seal stays zero
	}
	if err != nil {
		panic(err)
	}
	copy(h.Extra[len(h.Extra)-65:], sig)
}

func c09Hash(h *bsctypes.Header) string {
	var out string
	if pan, _ := safely(func() { out = hx(h.Hash().Bytes()) }); pan {
		return "panic"
	}
	return out
}

// ---- op text <-> header ----------------------------------------------------------------------------

func c09HdrFields(h *bsctypes.Header) string {
	return strings.Join([]string{
		fmt.Sprint(h.Height.RevisionNumber), fmt.Sprint(h.Height.RevisionHeight),
		hx(h.ParentHash), hx(h.UncleHash), hx(h.Coinbase), hx(h.Root), hx(h.TxHash), hx(h.ReceiptHash), hx(h.Bloom), hx(h.Difficulty),
		fmt.Sprint(h.GasLimit), fmt.Sprint(h.GasUsed), fmt.Sprint(h.Time), hx(h.Extra), hx(h.MixDigest), hx(h.Nonce)}, " ")
}

func c09U(s string) uint64 {
	n, err := strconv.ParseUint(s, 10, 64)
	if err != nil {
		panic("bad number " + s)
	}
	return n
}

func c09ParseHdr(f []string) *bsctypes.Header {
	return &bsctypes.Header{
		Height:     clienttypes.NewHeight(c09U(f[0]), c09U(f[1])),
		ParentHash: unhx(f[2]), UncleHash: unhx(f[3]), Coinbase: unhx(f[4]), Root: unhx(f[5]), TxHash: unhx(f[6]), ReceiptHash: unhx(f[7]),
		Bloom: unhx(f[8]), Difficulty: unhx(f[9]), GasLimit: c09U(f[10]), GasUsed: c09U(f[11]), Time: c09U(f[12]),
		Extra: unhx(f[13]), MixDigest: unhx(f[14]), Nonce: unhx(f[15]),
	}
}

func c09EnvFields(h *bsctypes.Header, chainID uint64) string {
	s := "err"
	if len(h.Extra) >= 97 { // the package only recovers after ValidateBasic
		if a, ok := c09Recover(h, chainID); ok {
			s = hx(a.Bytes())
		}
	}
	return c09Hash(h) + " " + s
}

func c09CreateOp(chainID, epoch, tp, bt uint64, vals [][]byte, h *bsctypes.Header) string {
	p := []string{"create", fmt.Sprint(chainID), fmt.Sprint(epoch), fmt.Sprint(tp), fmt.Sprint(bt), fmt.Sprint(len(vals))}
	for _, v := range vals {
		p = append(p, hx(v))
	}
	return strings.Join(p, " ") + " " + c09HdrFields(h) + " " + c09EnvFields(h, chainID)
}

func c09UpdateOp(bt uint64, chainID uint64, h *bsctypes.Header) string {
	return "update " + fmt.Sprint(bt) + " " + c09HdrFields(h) + " " + c09EnvFields(h, chainID)
}

// ---- the world: real app + the oracle's own bookkeeping ---------------------------------------------

// per-client bookkeeping of the oracle (built from accepted op lines only)
type c09Book struct {
	created   bool
	chainID   uint64
	epoch     uint64
	head      *bsctypes.Header
	sealedBy  map[uint64]common.Address // height -> sealer of the accepted header
	startH    uint64
	lastEpoch [][]byte // validator list carried by the last accepted epoch header
	lastEpochCoinbase common.Address // sealer of the last accepted epoch header
	presCoinbase      common.Address // sealer of the epoch header that carried presVals
	presVals  [][]byte // the validator list the RULE prescribes now (harness bookkeeping, never read from the client)
	prevVals  [][]byte // the prescribed list before the last switch
	switchAt  uint64   // height of the last prescribed switch
	tp        uint64
	maxN      int             // largest prescribed set so far (bounds every recents window of this history)
	rawAfter    map[uint64]int  // number of distinct validators in force after height h was accepted
	consPresent map[uint64]bool // consensus state of height h still stored just before the current op
	accepted    map[uint64]*bsctypes.Header // the header accepted for each height on the head's ancestry (harness record)
	upgraded    bool                        // the last state-changing op of this client was an upgrade
}

func newC09Book() *c09Book {
	return &c09Book{sealedBy: map[uint64]common.Address{}, rawAfter: map[uint64]int{}, consPresent: map[uint64]bool{}, accepted: map[uint64]*bsctypes.Header{}}
}

// two clients ("bsc", "bscb") may follow the same generated chain in one process; an op addresses one of them
// (`update` = client 0, `update@1` = client 1). The embedded book / chain name are those of the addressed client.
var c09Chains = [2]string{"bsc", "bscb"}

type c09World struct {
	app   *app.Teleport
	base  sdk.Context
	ctx   sdk.Context
	hist  []string
	books [2]*c09Book
	chain string
	*c09Book
}

func (w *c09World) sel(i int) {
	w.c09Book, w.chain = w.books[i], c09Chains[i]
}

func c09Target(word string) (string, int) {
	if i := strings.IndexByte(word, '@'); i >= 0 {
		if word[i+1:] == "1" {
			return word[:i], 1
		}
		return word[:i], 0
	}
	return word, 0
}

func newC09World() *c09World {
	a := app.Setup(false, nil)
	ctx := a.BaseApp.NewContext(false, tmproto.Header{Height: 1, ChainID: "teleport_9000-1", Time: time.Unix(1_700_000_000, 0)})
	w := &c09World{app: a, base: ctx}
	w.reset()
	return w
}

func (w *c09World) reset() {
	w.ctx, _ = w.base.CacheContext()
	w.hist = nil
	w.books = [2]*c09Book{newC09Book(), newC09Book()}
	w.sel(0)
}

func (w *c09World) store(ctx sdk.Context) sdk.KVStore {
	return w.app.XIBCKeeper.ClientKeeper.ClientStore(ctx, w.chain)
}

func (w *c09World) clientState(ctx sdk.Context) *bsctypes.ClientState {
	cs, ok := w.app.XIBCKeeper.ClientKeeper.GetClientState(ctx, w.chain)
	if !ok {
		return nil
	}
	return cs.(*bsctypes.ClientState)
}

func c09List(vs [][]byte) string {
	if len(vs) == 0 {
		return "-"
	}
	p := make([]string, len(vs))
	for i, v := range vs {
		p[i] = hx(v)
	}
	return strings.Join(p, ",")
}

type c09Cons struct {
	rev, num, time uint64
	root           []byte
}

func (w *c09World) consStates(ctx sdk.Context) []c09Cons {
	var out []c09Cons
	st := w.store(ctx)
	bsctypes.IterateConsensusStateAscending(st, func(h exported.Height) bool {
		cs, err := bsctypes.GetConsensusState(st, w.app.AppCodec(), h)
		if err == nil {
			out = append(out, c09Cons{h.GetRevisionNumber(), h.GetRevisionHeight(), cs.Timestamp, cs.Root})
		}
		return false
	})
	sort.Slice(out, func(i, j int) bool {
		if out[i].rev != out[j].rev {
			return out[i].rev < out[j].rev
		}
		return out[i].num < out[j].num
	})
	return out
}

func (w *c09World) recents(ctx sdk.Context) []bsctypes.Signer {
	rs, err := bsctypes.GetRecentSigners(w.store(ctx))
	if err != nil {
		return nil
	}
	sort.Slice(rs, func(i, j int) bool {
		if rs[i].Height.RevisionNumber != rs[j].Height.RevisionNumber {
			return rs[i].Height.RevisionNumber < rs[j].Height.RevisionNumber
		}
		return rs[i].Height.RevisionHeight < rs[j].Height.RevisionHeight
	})
	return rs
}

func (w *c09World) dump(ctx sdk.Context, h *bsctypes.Header) string {
	cs := w.clientState(ctx)
	var rp []string
	for _, s := range w.recents(ctx) {
		rp = append(rp, fmt.Sprintf("%d-%d=%s", s.Height.RevisionNumber, s.Height.RevisionHeight, hx(s.Validator)))
	}
	r := "-"
	if len(rp) > 0 {
		r = strings.Join(rp, ",")
	}
	pend := bsctypes.GetPendingValidators(w.app.AppCodec(), w.store(ctx)).Validators
	c := "none"
	if st, ok := w.app.XIBCKeeper.ClientKeeper.GetClientConsensusState(ctx, w.chain, h.Height); ok {
		c = fmt.Sprintf("%d:%s", st.GetTimestamp(), hx(st.GetRoot()))
	}
	return fmt.Sprintf("ok H:%d-%d V:%s P:%s R:%s C:%s N:%d", cs.Header.Height.RevisionNumber, cs.Header.Height.RevisionHeight,
		c09List(cs.Validators), c09List(pend), r, c, len(w.consStates(ctx)))
}

func c09Distinct(vs [][]byte) map[common.Address]bool {
	m := map[common.Address]bool{}
	for _, v := range vs {
		m[common.BytesToAddress(v)] = true
	}
	return m
}

func c09Sorted(m map[common.Address]bool) []common.Address {
	out := make([]common.Address, 0, len(m))
	for a := range m {
		out = append(out, a)
	}
	sort.Slice(out, func(i, j int) bool { return bytes.Compare(out[i][:], out[j][:]) < 0 })
	return out
}

func c09SameList(a, b [][]byte) bool {
	if len(a) != len(b) {
		return false
	}
	for i := range a {
		if !bytes.Equal(a[i], b[i]) {
			return false
		}
	}
	return true
}

// structural validity exactly as the property states it (independent of the model and of the code)
func c09Structural(parent, h *bsctypes.Header, epoch uint64) string {
	if len(h.Extra) < 32+65 {
		return "extra-too-short"
	}
	vb := len(h.Extra) - 97
	if h.Height.RevisionHeight%epoch == 0 {
		if vb%20 != 0 {
			return "epoch-validator-bytes"
		}
		if vb == 0 {
			return "epoch-no-validators" // the client would be left without validators
		}
	} else if vb != 0 {
		return "non-epoch-validator-bytes"
	}
	if common.BytesToHash(h.MixDigest) != (common.Hash{}) {
		return "mix-digest"
	}
	if common.BytesToHash(h.UncleHash) != c09UncleHash {
		return "uncle-hash"
	}
	if new(big.Int).SetBytes(h.Difficulty).Sign() == 0 {
		return "zero-difficulty"
	}
	if h.GasLimit > 0x7fffffffffffffff {
		return "gas-limit-cap"
	}
	if h.GasUsed > h.GasLimit {
		return "gas-used"
	}
	d := new(big.Int).Sub(new(big.Int).SetUint64(parent.GasLimit), new(big.Int).SetUint64(h.GasLimit))
	d.Abs(d)
	if d.Cmp(new(big.Int).SetUint64(parent.GasLimit/256)) >= 0 {
		return "gas-limit-bound"
	}
	if h.GasLimit < 5000 {
		return "gas-limit-min"
	}
	return ""
}

func (w *c09World) find(r *Rec, sig, what, obs, req string) {
	r.Count("finding." + sig)
	r.Find(Finding{Sig: sig, What: what, Ops: append([]string{}, w.hist...), Obs: obs, Req: req})
}

func (w *c09World) apply(r *Rec, op string) string {
	f := strings.Fields(op)
	w.hist = append(w.hist, op)
	k := w.app.XIBCKeeper.ClientKeeper
	opName, target := c09Target(f[0])
	if opName != "reset" {
		w.sel(target)
	}
	switch opName {
	case "dry": // an update executed on a context that is then dropped (failed multi-msg tx, simulation): the seal is
		// checked, nothing is kept. The verdict is still judged by the oracle.
		bt := c09U(f[1])
		h := c09ParseHdr(f[2:])
		before := w.clientState(w.ctx)
		whyNot := w.invalidBecause(h, bt)
		cctx, _ := w.ctx.WithBlockTime(time.Unix(int64(bt), 0)).CacheContext()
		var err error
		pan, _ := safely(func() { err = k.UpdateClient(cctx, w.chain, h) })
		switch {
		case pan:
			r.Count("dry.panic")
		case err != nil:
			r.Count("dry.err")
		default:
			r.Count("dry.ok")
		}
		if (pan || err != nil) && whyNot == "" {
			w.find(r, "C09:valid-header-refused:discarded-execution", "a valid next header was refused in a discarded execution", fmt.Sprintf("refused (err=%v panic=%v)", err, pan), "accepted")
		}
		if !pan && err == nil && before != nil {
			signer, ok := c09Recover(h, before.ChainId)
			if !ok || signer != common.BytesToAddress(h.Coinbase) {
				w.find(r, "C09:accepted-signer-not-coinbase", "a discarded execution accepted a header whose seal does not recover to its coinbase", signer.Hex(), hx(h.Coinbase))
			} else if !c09Distinct(before.Validators)[signer] {
				w.find(r, "C09:accepted-non-member", "a discarded execution accepted a sealer outside the validator set", signer.Hex(), "member of the set")
			}
		}
		if pan {
			return "dry-panic"
		}
		if err != nil {
			return "dry-err"
		}
		return "dry-ok"
	case "upgrade": // governance repairs the client: UpgradeClientProposal.ValidateBasic + HandleUpgradeClient -> keeper.UpgradeClient
		chainID, epoch, tp, bt := c09U(f[1]), c09U(f[2]), c09U(f[3]), c09U(f[4])
		n := int(c09U(f[5]))
		var vals [][]byte
		for i := 0; i < n; i++ {
			vals = append(vals, unhx(f[6+i]))
		}
		h := c09ParseHdr(f[6+n:])
		cs := &bsctypes.ClientState{Header: *h, ChainId: chainID, Epoch: epoch, BlockInteval: 3, Validators: vals,
			ContractAddress: []byte("0x00"), TrustingPeriod: tp}
		cons := &bsctypes.ConsensusState{Timestamp: h.Time, Height: h.Height, Root: h.Root}
		cctx, write := w.ctx.WithBlockTime(time.Unix(int64(bt), 0)).CacheContext()
		var err error
		pan, _ := safely(func() {
			var p *clienttypes.UpgradeClientProposal
			if p, err = clienttypes.NewUpgradeClientProposal("repair", "reorganisation", w.chain, cs, cons); err != nil {
				return
			}
			if err = p.ValidateBasic(); err != nil {
				return
			}
			_, err = k.HandleUpgradeClient(cctx, p)
		})
		if pan {
			r.Count("upgrade.panic")
			return "panic"
		}
		if err != nil {
			r.Count("upgrade.rejected")
			return "err"
		}
		write()
		r.Count("upgrade.accepted")
		u := h.Height.RevisionHeight
		same := false
		if old, ok := w.accepted[u]; ok && c09Hash(old) == c09Hash(h) && bytes.Equal(old.Extra, h.Extra) {
			same = true
		}
		if same {
			r.Count("upgrade.accepted.same-branch")
			for kh := range w.accepted {
				if kh > u {
					delete(w.accepted, kh)
				}
			}
		} else {
			r.Count("upgrade.accepted.other-branch")
			w.accepted = map[uint64]*bsctypes.Header{}
		}
		w.accepted[u] = h
		w.created, w.chainID, w.epoch, w.head, w.startH = true, chainID, epoch, h, u
		w.sealedBy = map[uint64]common.Address{}
		if a, ok := c09Recover(h, chainID); ok {
			w.sealedBy[u] = a
		}
		w.lastEpoch, _ = c09ParseVals(h.Extra)
		w.presVals, w.prevVals, w.switchAt, w.tp, w.maxN = vals, nil, 0, tp, len(c09Distinct(vals))
		w.rawAfter = map[uint64]int{u: len(c09Distinct(vals))}
		w.upgraded = true
		w.ancestry(r)
		return w.dump(w.ctx, h)
	case "restart": // the hosting chain is exported and re-imported: xibc ExportGenesis -> JSON (app codec) -> Validate ->
		// emptied xibc store -> InitGenesis. Nothing a light client stores may change.
		before := w.rawClients(w.ctx)
		cctx, write := w.ctx.CacheContext()
		var verr error
		pan, msg := safely(func() {
			gs := xibc.ExportGenesis(cctx, *w.app.XIBCKeeper)
			cdc := w.app.AppCodec()
			var gs2 xibctypes.GenesisState
			cdc.MustUnmarshalJSON(cdc.MustMarshalJSON(gs), &gs2)
			if verr = gs2.Validate(); verr != nil {
				return
			}
			st := cctx.KVStore(w.app.GetKey(host.StoreKey))
			var ks [][]byte
			it := sdk.KVStorePrefixIterator(st, nil)
			for ; it.Valid(); it.Next() {
				ks = append(ks, append([]byte{}, it.Key()...))
			}
			it.Close()
			for _, kk := range ks {
				st.Delete(kk)
			}
			xibc.InitGenesis(cctx, *w.app.XIBCKeeper, false, &gs2)
		})
		if pan || verr != nil {
			r.Count("restart.failed")
			w.find(r, "C09:restart-export-not-importable", "the exported xibc genesis of a state with a BSC client fails validation / InitGenesis", fmt.Sprintf("panic=%v %s err=%v", pan, msg, verr), "export -> validate -> import succeeds")
			return "err"
		}
		write()
		r.Count("restart")
		for i := 0; i < 2; i++ {
			b := w.books[i]
			if !b.created || b.head == nil {
				continue
			}
			if len(b.sealedBy) > 1 {
				r.Count("restart.with-recent-signers")
			}
			num := b.head.Height.RevisionHeight
			if !c09SameList(b.lastEpoch, b.presVals) && num%b.epoch < uint64(len(b.presVals)/2) {
				r.Count("restart.between-epoch-and-switch")
			}
			if b.switchAt != 0 && num == b.switchAt {
				r.Count("restart.right-after-switch")
			}
			if b.startH == num && len(b.accepted) >= 1 && b.upgraded {
				r.Count("restart.right-after-upgrade")
			}
		}
		if after := w.rawClients(w.ctx); after != before {
			fam := c09FirstDiff(before, after)
			w.find(r, "C09:restart-changed-client-store:"+fam, "export + InitGenesis changed what a BSC client stores (first difference: "+fam+")", "store after != store before", "identical client state, consensus states, recent signers and pending validators")
			return "ok changed"
		}
		return "ok same"
	case "reset":
		w.reset()
		w.hist = []string{op}
		return "ok"
	case "cons":
		var p []string
		for _, c := range w.consStates(w.ctx) {
			p = append(p, fmt.Sprintf("%d-%d=%d:%s", c.rev, c.num, c.time, hx(c.root)))
		}
		if len(p) == 0 {
			return "-"
		}
		return strings.Join(p, ",")
	case "create":
		chainID, epoch, tp, bt := c09U(f[1]), c09U(f[2]), c09U(f[3]), c09U(f[4])
		n := int(c09U(f[5]))
		var vals [][]byte
		for i := 0; i < n; i++ {
			vals = append(vals, unhx(f[6+i]))
		}
		h := c09ParseHdr(f[6+n:])
		if w.created {
			return "err" // one client per history (HandleCreateClient refuses an existing chain name)
		}
		cs := &bsctypes.ClientState{Header: *h, ChainId: chainID, Epoch: epoch, BlockInteval: 3, Validators: vals,
			ContractAddress: []byte("0x00"), TrustingPeriod: tp}
		cons := &bsctypes.ConsensusState{Timestamp: h.Time, Height: h.Height, Root: h.Root}
		cctx, write := w.ctx.WithBlockTime(time.Unix(int64(bt), 0)).CacheContext()
		var err error
		pan, _ := safely(func() {
			if err = cs.Validate(); err != nil { // CreateClientProposal.ValidateBasic
				return
			}
			err = k.CreateClient(cctx, w.chain, cs, cons)
		})
		if (pan || err != nil) && c09CreateValid(chainID, epoch, h) {
			w.find(r, "C09:valid-create-refused", "a client with a validly sealed epoch head, a non-empty list, epoch >= 1 and a chain id <= MaxInt64 was refused", fmt.Sprintf("err=%v panic=%v", err, pan), "created")
		}
		if pan {
			r.Count("create.panic")
			return "panic"
		}
		if err != nil {
			r.Count("create.rejected")
			return "err"
		}
		write()
		r.Count("create.accepted")
		if h.Height.IsZero() {
			w.find(r, "C09:client-created-at-height-zero", "a client was created at height 0-0", "created", "rejected by ClientState.Validate")
		}
		if len(h.Extra) >= 97 && len(h.Extra)-97 < 20 {
			w.find(r, "C09:client-created-without-validators", "a client was created from an epoch header that carries no validators", "created", "rejected")
		}
		w.created, w.chainID, w.epoch, w.head, w.startH = true, chainID, epoch, h, h.Height.RevisionHeight
		if a, ok := c09Recover(h, chainID); ok {
			w.sealedBy[h.Height.RevisionHeight] = a
		}
		w.lastEpoch, _ = c09ParseVals(h.Extra)
		w.presVals, w.prevVals, w.tp, w.maxN = vals, nil, tp, len(c09Distinct(vals))
		w.rawAfter[h.Height.RevisionHeight] = len(c09Distinct(vals))
		w.accepted[h.Height.RevisionHeight] = h
		return w.dump(w.ctx, h)
	case "update":
		bt := c09U(f[1])
		h := c09ParseHdr(f[2:])
		before := w.clientState(w.ctx)
		w.consPresent = map[uint64]bool{}
		for _, c := range w.consStates(w.ctx) {
			w.consPresent[c.num] = true
		}
		whyNot := w.invalidBecause(h, bt) // the rule's own verdict, before the code is asked
		cctx, write := w.ctx.WithBlockTime(time.Unix(int64(bt), 0)).CacheContext()
		var err error
		pan, _ := safely(func() { err = k.UpdateClient(cctx, w.chain, h) })
		if (pan || err != nil) && whyNot == "" {
			r.Count("oracle.valid-header-refused")
			mech := "member-of-prescribed-set"
			if before != nil && !c09Distinct(before.Validators)[common.BytesToAddress(h.Coinbase)] {
				mech = "sealer-missing-from-client-set"
			}
			w.find(r, "C09:valid-header-refused:"+mech, "a header that is the valid next block, sealed in its turn-difficulty by an eligible member of the prescribed validator set, was refused",
				fmt.Sprintf("refused (err=%v panic=%v)", err, pan), "accepted")
		}
		if whyNot == "" {
			r.Count("oracle.valid-by-rule")
		}
		if pan {
			r.Count("update.panic")
			return "panic"
		}
		if err != nil {
			r.Count("update.rejected")
			return "err"
		}
		write()
		r.Count("update.accepted")
		if w.consPresent[h.Height.RevisionHeight] {
			r.Count("update.accepted.over-occupied-height") // a consensus state (of an abandoned branch) was already stored there
		}
		w.oracle(r, before, h)
		for kh := range w.accepted {
			if kh >= h.Height.RevisionHeight {
				delete(w.accepted, kh)
			}
		}
		w.accepted[h.Height.RevisionHeight] = h
		w.upgraded = false
		w.ancestry(r)
		w.abandoned(r)
		return w.dump(w.ctx, h)
	}
	r.t.Fatalf("bad op %q", op)
	return ""
}

// oracle: accept_sound / valset_changes_only_at_offset / root_recorded evaluated on the implementation's
// observations and on the harness' own record of who sealed which accepted height.
func (w *c09World) oracle(r *Rec, before *bsctypes.ClientState, h *bsctypes.Header) {
	parent := &before.Header
	num := h.Height.RevisionHeight
	if w.head == nil || parent.Height != w.head.Height || !bytes.Equal(parent.Extra, w.head.Extra) {
		w.find(r, "C09:head-not-last-accepted", "client head is not the last accepted header", fmt.Sprint(parent.Height), "last accepted header")
	}
	if h.Height.RevisionNumber != parent.Height.RevisionNumber {
		w.find(r, "C09:accepted-under-other-revision", "the accepted header's height is not Height.Increment of the head: another revision number (neither the block hash nor the seal covers it)",
			fmt.Sprint(h.Height), fmt.Sprintf("%d-%d", parent.Height.RevisionNumber, parent.Height.RevisionHeight+1))
	}
	if num != parent.Height.RevisionHeight+1 {
		w.find(r, "C09:accepted-not-next-number", "accepted header is not head+1", fmt.Sprintf("head %d header %d", parent.Height.RevisionHeight, num), "number = head+1")
	}
	if ph := c09Hash(parent); ph == "panic" || ph != hx(common.BytesToHash(h.ParentHash).Bytes()) {
		w.find(r, "C09:accepted-wrong-parent-hash", "accepted header does not name the head as parent", hx(h.ParentHash), ph)
	}
	if why := c09Structural(parent, h, before.Epoch); why != "" {
		w.find(r, "C09:accepted-structurally-invalid:"+why, "accepted header is structurally invalid: "+why, "accepted", "rejected")
	}
	signer, ok := c09Recover(h, before.ChainId)
	if !ok {
		w.find(r, "C09:accepted-unrecoverable-seal", "accepted header has no recoverable seal", "accepted", "rejected")
	}
	if signer != common.BytesToAddress(h.Coinbase) {
		w.find(r, "C09:accepted-signer-not-coinbase", "sealer differs from coinbase", signer.Hex(), hx(h.Coinbase))
	}
	if !c09Distinct(before.Validators)[signer] {
		w.find(r, "C09:accepted-non-member", "sealer is not in the current validator set", signer.Hex(), "member of the set")
	}
	// N, the recent-signer window, the turn and the switch offset are evaluated on the list the RULE prescribes — the byte
	// list the last epoch header carried, every 20-byte entry of it (zero address, 0xff..ff, duplicates, any order) —
	// never on what the client stores. As in the code (and upstream Parlia) the window and the turn count DISTINCT
	// addresses, the switch offset uses the length of the list.
	set := c09Distinct(w.presVals)
	if len(set) == 0 {
		set = c09Distinct(before.Validators)
	}
	n := len(set)
	// has not sealed any of the last floor(N/2) blocks
	for d := uint64(1); d <= uint64(n/2); d++ {
		if num < d {
			break
		}
		kh := num - d
		who, known := w.sealedBy[kh]
		if !known || who != signer {
			continue
		}
		// classification of the mechanism (stable, no random values)
		mech := "window"
		if w.thinAfterGrowth(kh, num) {
			mech = "after-valset-growth"
		} else if num < uint64(n/2+1) {
			mech = "number-below-limit" // F9: uint64 wrap of number-limit
		} else if !w.consPresent[kh] {
			mech = "consensus-state-pruned"
		}
		w.find(r, "C09:recent-signer-accepted:"+mech, fmt.Sprintf("sealer of height head+1-%d accepted again with N=%d", d, n),
			fmt.Sprintf("distance %d accepted", d), fmt.Sprintf("rejected for every distance <= %d", n/2))
		r.Count("oracle.recent-accepted." + mech)
	}
	// difficulty <-> turn
	sorted := c09Sorted(set)
	inturn := n > 0 && sorted[(parent.Height.RevisionHeight+1)%uint64(n)] == signer
	want := int64(1)
	if inturn {
		want = 2
		r.Count("accepted.inturn")
	} else {
		r.Count("accepted.noturn")
	}
	if new(big.Int).SetBytes(h.Difficulty).Cmp(big.NewInt(want)) != 0 {
		w.find(r, "C09:accepted-wrong-difficulty", "difficulty does not match the turn", hx(h.Difficulty), fmt.Sprint(want))
	}
	// after-state
	after := w.clientState(w.ctx)
	if after.Header.Height != h.Height || c09Hash(&after.Header) != c09Hash(h) || !bytes.Equal(after.Header.Extra, h.Extra) {
		w.find(r, "C09:head-not-updated", "head is not the accepted header", fmt.Sprint(after.Header.Height), fmt.Sprint(h.Height))
	}
	st, okc := w.app.XIBCKeeper.ClientKeeper.GetClientConsensusState(w.ctx, w.chain, h.Height)
	if !okc || st.GetTimestamp() != h.Time || !bytes.Equal(st.GetRoot(), h.Root) {
		w.find(r, "C09:root-not-recorded", "consensus state of the accepted height is not <time, root>", fmt.Sprint(okc), "time/root of the header")
	}
	if num%before.Epoch == 0 {
		w.lastEpoch, _ = c09ParseVals(h.Extra)
		w.lastEpochCoinbase = signer
		r.Count("accepted.epoch-header")
		for _, c := range c09ListClasses(w.lastEpoch, signer) {
			r.Count("oddlist.announced." + c)
		}
	}
	if !c09SameList(after.Validators, before.Validators) {
		r.Count("accepted.valset-changed")
		if len(c09Distinct(after.Validators)) > n {
			r.Count("accepted.valset-grew")
		}
		if len(c09Distinct(after.Validators)) < n {
			r.Count("accepted.valset-shrank")
		}
		if num%before.Epoch != uint64(len(before.Validators)/2) {
			w.find(r, "C09:valset-changed-off-offset", "validator set changed at a height that is not epoch offset N/2", fmt.Sprint(num), "number mod epoch = N/2")
		}
		if !c09SameList(after.Validators, w.lastEpoch) {
			w.find(r, "C09:valset-not-from-epoch-header", "new validator set is not the list carried by the last epoch header", c09List(after.Validators), c09List(w.lastEpoch))
		}
	}
	// ---- the valset clause on the harness' own bookkeeping (independent of what the client stores):
	// the list carried by the last accepted epoch header applies from offset floor(N_old/2) after it
	// (offset 0 => from the epoch header itself), the previous list before.
	if !c09Distinct(w.presVals)[signer] {
		w.find(r, "C09:accepted-sealer-not-in-prescribed-set", "sealer is not a member of the validator set the rule prescribes at this height",
			signer.Hex(), c09List(w.presVals))
	}
	if num%w.epoch == uint64(len(w.presVals)/2) {
		oldN, newN := len(c09Distinct(w.presVals)), len(c09Distinct(w.lastEpoch))
		if !c09SameList(w.presVals, w.lastEpoch) {
			r.Count("valset.switch")
			if len(w.presVals)/2 == 0 {
				r.Count("valset.switch-at-offset-0")
			}
			switch {
			case oldN == 1 && newN == 1:
				r.Count("valset.handover.1to1")
			case oldN == 1:
				r.Count("valset.handover.1toN")
			case newN == 1:
				r.Count("valset.handover.Nto1")
			}
			w.prevVals, w.switchAt = w.presVals, num
			for _, c := range c09ListClasses(w.lastEpoch, w.lastEpochCoinbase) {
				r.Count("oddlist.switched." + c)
			}
		}
		w.presVals, w.presCoinbase = w.lastEpoch, w.lastEpochCoinbase
		if newN > w.maxN {
			w.maxN = newN
		}
	}
	if !c09SameList(after.Validators, w.presVals) {
		mech := "offset>0"
		if num%w.epoch == 0 {
			mech = "at-epoch-header"
		}
		w.find(r, "C09:valset-differs-from-rule:"+mech, "after an accepted header the client's validator set is not the one the rule prescribes",
			c09List(after.Validators), c09List(w.presVals))
	}
	if w.switchAt != 0 && num > w.switchAt && num-w.switchAt <= uint64(len(c09Distinct(w.presVals))/2+1) {
		for _, c := range c09ListClasses(w.presVals, w.presCoinbase) { // blocks of the first window after the switch
			r.Count("oddlist.window-after-switch." + c)
		}
	}
	w.sealedBy[num] = signer
	w.rawAfter[num] = len(c09Distinct(w.presVals))
	w.head = h
}

// abandoned: no consensus state of an ABANDONED branch may sit at a block number the head has reached — every stored
// state above the height the client was created / upgraded at and at or below the head's block number must be the
// state of the header accepted for that block number on the head's ancestry (same full height, time and root).
// (States above the head's block number are not usable: the proof checks refuse them.)
func (w *c09World) abandoned(r *Rec) {
	if w.head == nil {
		return
	}
	hn := w.head.Height.RevisionHeight
	for _, c := range w.consStates(w.ctx) {
		if c.num <= w.startH || c.num > hn {
			continue
		}
		ah := w.accepted[c.num]
		if ah == nil || ah.Height.RevisionNumber != c.rev || ah.Time != c.time || !bytes.Equal(ah.Root, c.root) {
			w.find(r, "C09:abandoned-branch-root-provable", "a consensus state that is not the accepted header's sits at a block number the head has reached (a root of an abandoned branch stays provable)",
				fmt.Sprintf("%d-%d=%d:%s", c.rev, c.num, c.time, hx(c.root)), "only the states of the head's ancestry")
			return
		}
	}
}

// c09ListClasses: unusual but well-formed shapes of a carried validator list
func c09ListClasses(list [][]byte, coinbase common.Address) []string {
	var out []string
	seen := map[common.Address]bool{}
	zero, ff, dup, cb, sorted := false, false, false, false, true
	all := bytes.Repeat([]byte{0xff}, 20)
	for i, v := range list {
		a := common.BytesToAddress(v)
		zero = zero || a == (common.Address{})
		ff = ff || bytes.Equal(v, all)
		dup = dup || seen[a]
		seen[a] = true
		cb = cb || a == coinbase
		if i > 0 && bytes.Compare(list[i-1], v) >= 0 {
			sorted = false
		}
	}
	if zero {
		out = append(out, "zero-address")
	}
	if ff {
		out = append(out, "all-ones-address")
	}
	if dup {
		out = append(out, "duplicate")
	}
	if cb {
		out = append(out, "contains-coinbase")
	} else {
		out = append(out, "without-coinbase")
	}
	if sorted {
		out = append(out, "sorted")
	} else {
		out = append(out, "unsorted")
	}
	return out
}

// c09ParseVals: the harness' own reading of the validator list an epoch header carries (the oracle must not depend on
// the package's parser): whole 20-byte addresses between the 32-byte vanity and the 65-byte seal, at least one.
func c09ParseVals(extra []byte) ([][]byte, error) {
	if len(extra) < 97 {
		return nil, fmt.Errorf("extra too short")
	}
	body := extra[32 : len(extra)-65]
	if len(body)%20 != 0 || len(body) == 0 {
		return nil, fmt.Errorf("not a non-empty list of whole addresses")
	}
	var out [][]byte
	for i := 0; i < len(body); i += 20 {
		out = append(out, append([]byte{}, body[i:i+20]...))
	}
	return out, nil
}

// c09CreateValid: the harness' own reading of what a creatable BSC client is (Validate + Initialize)
func c09CreateValid(chainID, epoch uint64, h *bsctypes.Header) bool {
	if epoch == 0 || chainID > 1<<63-1 || h.Height.IsZero() || h.Height.RevisionHeight%epoch != 0 {
		return false
	}
	if len(h.Extra) < 97+20 || (len(h.Extra)-97)%20 != 0 || len(h.Bloom) > 256 || len(h.Nonce) > 8 {
		return false
	}
	if common.BytesToHash(h.MixDigest) != (common.Hash{}) || common.BytesToHash(h.UncleHash) != c09UncleHash {
		return false
	}
	if h.Height.RevisionHeight > 0 && new(big.Int).SetBytes(h.Difficulty).Uint64() == 0 {
		return false
	}
	a, ok := c09Recover(h, chainID)
	return ok && a == common.BytesToAddress(h.Coinbase)
}

// rawClients: raw key/value listing of both client stores (client state, consensus states, recentSingers/*,
// pendingValidators — everything under clients/<chain>/), sorted by key.
func (w *c09World) rawClients(ctx sdk.Context) string {
	var sb strings.Builder
	for _, ch := range c09Chains {
		st := w.app.XIBCKeeper.ClientKeeper.ClientStore(ctx, ch)
		it := sdk.KVStorePrefixIterator(st, nil)
		for ; it.Valid(); it.Next() {
			sb.WriteString(ch + "|" + hx(it.Key()) + "=" + hx(it.Value()) + "\n")
		}
		it.Close()
	}
	return sb.String()
}

// c09FirstDiff names the family of the first key that differs between two rawClients listings.
func c09FirstDiff(a, b string) string {
	la, lb := strings.Split(a, "\n"), strings.Split(b, "\n")
	fam := func(l string) string {
		i, j := strings.IndexByte(l, '|'), strings.IndexByte(l, '=')
		if i < 0 || j < i {
			return "end"
		}
		k := string(unhx(l[i+1 : j]))
		for _, f := range []string{"pendingValidators", "recentSingers", "consensusStates", "clientState"} {
			if strings.HasPrefix(k, f) {
				return f
			}
		}
		return "other"
	}
	for i := 0; i < len(la) || i < len(lb); i++ {
		var x, y string
		if i < len(la) {
			x = la[i]
		}
		if i < len(lb) {
			y = lb[i]
		}
		if x != y {
			if x != "" && (y == "" || x < y) {
				return fam(x)
			}
			return fam(y)
		}
	}
	return "none"
}

// ancestry: every height on the head's ancestry (the harness' own record of the header accepted for it) that still has
// a consensus state must hold exactly that header's time and root (expiry may have pruned it, nothing may have
// replaced or kept another branch's state).
func (w *c09World) ancestry(r *Rec) {
	for kh, ah := range w.accepted {
		st, ok := w.app.XIBCKeeper.ClientKeeper.GetClientConsensusState(w.ctx, w.chain, ah.Height)
		if !ok {
			continue
		}
		if st.GetTimestamp() != ah.Time || !bytes.Equal(st.GetRoot(), ah.Root) {
			where := "ancestor"
			if w.head != nil && kh == w.head.Height.RevisionHeight {
				where = "head"
			}
			w.find(r, "C09:stored-root-differs-from-accepted-header:"+where, "the consensus state of a height on the head's ancestry is not <time, root> of the header accepted for it",
				fmt.Sprintf("%d:%s", st.GetTimestamp(), hx(st.GetRoot())), fmt.Sprintf("%d:%s", ah.Time, hx(ah.Root)))
		}
	}
}

// invalidBecause evaluates the property's acceptance conditions on the harness' own bookkeeping only: ""
// means "this is the valid next block sealed by an eligible member of the prescribed set" (so it must be
// accepted); anything else names the first reason why the rule does not demand acceptance. It is deliberately
// conservative on the recents clause (no sealing within the longest window this history ever had).
func (w *c09World) invalidBecause(h *bsctypes.Header, bt uint64) string {
	if !w.created || w.head == nil {
		return "no-client"
	}
	if w.head.Time+w.tp < bt {
		return "client-expired"
	}
	if w.head.Height.RevisionHeight >= 1<<62 || w.head.GasLimit >= 1<<63 {
		return "out-of-range"
	}
	if h.Height.RevisionHeight != w.head.Height.RevisionHeight+1 {
		return "number"
	}
	if h.Height.RevisionNumber != w.head.Height.RevisionNumber {
		return "revision" // the next height is Height.Increment of the head: same revision
	}
	if ph := c09Hash(w.head); ph == "panic" || ph != hx(common.BytesToHash(h.ParentHash).Bytes()) {
		return "parent-hash"
	}
	if len(h.Bloom) > 256 || len(h.Nonce) > 8 {
		return "oversized"
	}
	if why := c09Structural(w.head, h, w.epoch); why != "" {
		return why
	}
	signer, ok := c09Recover(h, w.chainID)
	if !ok || signer != common.BytesToAddress(h.Coinbase) {
		return "seal"
	}
	set := c09Distinct(w.presVals)
	if !set[signer] {
		return "non-member"
	}
	num := h.Height.RevisionHeight
	for d := uint64(1); d <= uint64(w.maxN/2+1) && d <= num; d++ {
		if who, known := w.sealedBy[num-d]; known && who == signer {
			return "recent"
		}
	}
	if num < uint64(w.maxN/2+1) { // number below the limit: every recorded sealer is excluded, wherever its record sits
		for _, who := range w.sealedBy { // (after the 2^64-1 -> 0 wrap that includes records at huge heights)
			if who == signer {
				return "recent"
			}
		}
	}
	sorted := c09Sorted(set)
	want := int64(1)
	if sorted[num%uint64(len(sorted))] == signer {
		want = 2
	}
	if new(big.Int).SetBytes(h.Difficulty).Cmp(big.NewInt(want)) != 0 {
		return "difficulty"
	}
	return ""
}

// thinAfterGrowth: at some accepted height x between kh and num the set then in force was so small that
// kh had already left its recents window (x - kh >= n_x/2+1, n_x distinct validators after x) — the record of
// kh was dropped on the schedule of the smaller set before the larger window started to apply (upstream Parlia
// behaves identically). This is exactly `kh < compFrom` of TM.Bsc.accept_sound_run: when it is false the
// theorem says the repaired client rejects, so anything else reported is a real violation.
func (w *c09World) thinAfterGrowth(kh, num uint64) bool {
	for x := kh + 1; x < num; x++ {
		if l, ok := w.rawAfter[x]; ok && x-kh >= uint64(l/2+1) {
			return true
		}
	}
	return false
}

// ---- recorded main-net segment of the package's testdata -----------------------------------------

func c09Mainnet() []string {
	dir := filepath.Join(os.Getenv("VERIF_REPO_DIR"), "x/xibc/clients/light-clients/bsc/types/testdata")
	if os.Getenv("VERIF_REPO_DIR") == "" {
		dir = filepath.Join(c09RepoDir(), "x/xibc/clients/light-clients/bsc/types/testdata")
	}
	var gs struct {
		GenesisHeader          *bsctypes.BscHeader `json:"genesis_header"`
		GenesisValidatorHeader *bsctypes.BscHeader `json:"genesis_validator_header"`
	}
	b, err := os.ReadFile(filepath.Join(dir, "genesis_state.json"))
	if err != nil || json.Unmarshal(b, &gs) != nil {
		return nil
	}
	var hs []*bsctypes.BscHeader
	b, err = os.ReadFile(filepath.Join(dir, "update_headers.json"))
	if err != nil || json.Unmarshal(b, &hs) != nil {
		return nil
	}
	vals, err := c09ParseVals(gs.GenesisValidatorHeader.Extra)
	if err != nil {
		return nil
	}
	gh := gs.GenesisHeader.ToHeader()
	ops := []string{"reset", c09CreateOp(56, 200, 999999999, 1_700_000_000, vals, &gh)}
	for _, x := range hs {
		h := x.ToHeader()
		ops = append(ops, c09UpdateOp(1_700_000_000, 56, &h))
	}
	return append(ops, "cons")
}

func c09RepoDir() string { return repoDir() }
