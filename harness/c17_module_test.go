//go:build c17

package verifharness

// C17 — the module-call path: chain A sends an XIBC packet (endpoint.crossChainCall) whose call data makes the Execute
// contract of chain B call the Staking / Gov system contract (directly, or through a hand-assembled helper contract);
// the packet is relayed with a genuine light-client proof and delivered as a real MsgRecvPacket through
// BaseApp.DeliverTx of chain B (msg_server.RecvPacket → CallPacket on the cache context → packet contract → endpoint
// (mint vouchers) → Execute → target → post-transaction hooks → native message servers).
//
//   minit k=v …                                              -> ok <dump>      (state of chain B as the model needs it)
//   recv <seq> <amount|-> <bound> <reverts> <node|none>      -> <status> A:<ack code|-> M:<voucher supply> <dump>
//        amount: native coins of chain A carried by the packet (minted as vouchers on B), `-` = no transfer data
//        reverts=1: the packet names a malformed contract address (the whole onRecvPacket call reverts)
//        node: what Execute calls — `S c 0 <fn…>` (a system contract named in the packet) or `P c 0 <helper> n …`

import (
	"fmt"
	"math/big"
	"strconv"
	"strings"
	"testing"

	"github.com/cosmos/cosmos-sdk/crypto/keys/ed25519"
	"github.com/cosmos/cosmos-sdk/simapp/helpers"
	sdk "github.com/cosmos/cosmos-sdk/types"
	sdkerrors "github.com/cosmos/cosmos-sdk/types/errors"
	govtypes "github.com/cosmos/cosmos-sdk/x/gov/types"
	stakingtypes "github.com/cosmos/cosmos-sdk/x/staking/types"
	"github.com/ethereum/go-ethereum/common"
	ethtypes "github.com/ethereum/go-ethereum/core/types"
	"github.com/ethereum/go-ethereum/crypto"
	abci "github.com/tendermint/tendermint/abci/types"
	"github.com/tharsis/ethermint/server/config"
	"github.com/tharsis/ethermint/tests"
	evm "github.com/tharsis/ethermint/x/evm/types"

	"github.com/teleport-network/teleport/syscontracts"
	erc20contracts "github.com/teleport-network/teleport/syscontracts/erc20"
	endpointcontract "github.com/teleport-network/teleport/syscontracts/xibc_endpoint"
	packetcontract "github.com/teleport-network/teleport/syscontracts/xibc_packet"
	clienttypes "github.com/teleport-network/teleport/x/xibc/core/client/types"
	"github.com/teleport-network/teleport/x/xibc/core/host"
	packettypes "github.com/teleport-network/teleport/x/xibc/core/packet/types"
	xibctesting "github.com/teleport-network/teleport/x/xibc/testing"
)

type c17Mod struct {
	t        *testing.T
	coord    *xibctesting.Coordinator
	A, B     *xibctesting.TestChain
	wb       *c17World // chain B seen through the observation / reference machinery of the transaction path
	voucher  common.Address
	receiver common.Address
	hist     []string
}

func (m *c17Mod) nameA() string { return xibctesting.GetChainID(0) }
func (m *c17Mod) nameB() string { return xibctesting.GetChainID(1) }

func newC17Mod(t *testing.T) *c17Mod {
	m := &c17Mod{t: t}
	m.coord = xibctesting.NewCoordinator(t, 2)
	m.A = m.coord.GetChain(xibctesting.GetChainID(0))
	m.B = m.coord.GetChain(xibctesting.GetChainID(1))
	m.coord.SetupClientsWithoutRelayer(xibctesting.NewPath(m.A, m.B))
	m.B.App.XIBCKeeper.ClientKeeper.RegisterRelayers(m.B.GetContext(), m.B.SenderAcc.String(), []string{m.nameA()}, []string{"0x00000000000000000000000000000000000c17e1"})
	m.A.App.XIBCKeeper.ClientKeeper.RegisterRelayers(m.A.GetContext(), m.A.SenderAcc.String(), []string{m.nameB()}, []string{"0x00000000000000000000000000000000000c17e2"})

	a := m.B.App
	ctx := m.B.GetContext()
	w := &c17World{app: a, named: map[string]string{}}
	w.denom = a.StakingKeeper.BondDenom(ctx)
	w.stakingA = common.HexToAddress(syscontracts.StakingContractAddress)
	w.govA = common.HexToAddress(syscontracts.GovContractAddress)
	// two validators that stay Unbonded (tokens below one unit of consensus power, so the Tendermint validator set of the
	// test chain — and with it the light client on A — never changes); exchange rate 1
	for i := 0; i < 2; i++ {
		op := sdk.AccAddress(append([]byte("c17-mod-validator-op"), byte('0'+i))[1:21])
		c17Fund(a, ctx, op, w.denom, sdk.NewInt(1_000_000))
		pk := ed25519.GenPrivKeyFromSecret([]byte(fmt.Sprintf("c17-mod-cons-%d", i))).PubKey()
		msg, err := stakingtypes.NewMsgCreateValidator(sdk.ValAddress(op), pk, sdk.NewCoin(w.denom, sdk.NewInt(int64(1000+500*i))),
			stakingtypes.NewDescription(fmt.Sprintf("m%d", i), "", "", "", ""),
			stakingtypes.NewCommissionRates(sdk.ZeroDec(), sdk.OneDec(), sdk.ZeroDec()), sdk.OneInt())
		if err != nil {
			t.Fatal(err)
		}
		if _, err := a.MsgServiceRouter().Handler(msg)(ctx, msg); err != nil {
			t.Fatal(err)
		}
		w.vals = append(w.vals, sdk.ValAddress(op))
		w.valOps = append(w.valOps, op)
	}
	w.unknown = sdk.ValAddress([]byte("c17-no-such-validator")[:20])
	// actors whose balances are dumped: the Execute contract, the receiver of transfers, the packet contract
	m.receiver = common.HexToAddress("0x00000000000000000000000000000000000c17b7")
	w.eoas = []common.Address{endpointcontract.ExecuteContractAddress, m.receiver, packetcontract.PacketContractAddress}
	c17Fund(a, ctx, endpointcontract.ExecuteContractAddress.Bytes(), w.denom, sdk.NewInt(1_000_000))
	code := c17ProxyCode()
	for i := 0; i < 2; i++ {
		addr := common.BytesToAddress(append([]byte{0xc1, 0x7b, 0x00, 0x00}, byte(0xa0+i)))
		a.SetEVMCode(ctx, addr, code)
		c17Fund(a, ctx, addr.Bytes(), w.denom, sdk.NewInt(1_000_000))
		w.proxies = append(w.proxies, addr)
	}
	w.plain = common.BytesToAddress([]byte{0xc1, 0x7b, 0x00, 0x00, 0xee})
	// governance: proposals 1 and 3 in voting period, proposal 2 in deposit period
	minDep := a.GovKeeper.GetDepositParams(ctx).MinDeposit
	for i, dep := range []sdk.Coins{minDep, sdk.NewCoins(), minDep} {
		pmsg, err := govtypes.NewMsgSubmitProposal(govtypes.NewTextProposal(fmt.Sprintf("m%d", i), "c17"), dep, m.B.SenderAcc)
		if err != nil {
			t.Fatal(err)
		}
		if _, err := a.MsgServiceRouter().Handler(pmsg)(ctx, pmsg); err != nil {
			t.Fatal(err)
		}
	}
	// voucher of A's native coin on B
	ctor, err := erc20contracts.ERC20MinterBurnerDecimalsContract.ABI.Pack("", "voucher", "vch", uint8(18))
	if err != nil {
		t.Fatal(err)
	}
	data := append(append([]byte{}, erc20contracts.ERC20MinterBurnerDecimalsContract.Bin...), ctor...)
	nonce := a.EvmKeeper.GetNonce(ctx, endpointcontract.EndpointContractAddress)
	m.voucher = crypto.CreateAddress(endpointcontract.EndpointContractAddress, nonce)
	if res, err := a.AggregateKeeper.CallEVMWithData(ctx, endpointcontract.EndpointContractAddress, nil, data); err != nil || res.Failed() {
		t.Fatalf("voucher deploy failed: %v", err)
	}
	if err := a.AggregateKeeper.RegisterERC20Trace(ctx, m.voucher, strings.ToLower(common.Address{}.String()), m.nameA(), 0); err != nil {
		t.Fatalf("bind failed: %v", err)
	}
	m.coord.CommitBlock(m.A, m.B)
	m.wb = w
	m.refresh()
	return m
}

func (m *c17Mod) refresh() {
	m.wb.ctx = m.B.GetContext()
	m.wb.base = m.wb.ctx
}

func (m *c17Mod) voucherSupply(ctx sdk.Context) string {
	cctx, _ := ctx.CacheContext()
	res, err := m.B.App.XIBCKeeper.PacketKeeper.CallEVM(cctx, erc20contracts.ERC20MinterBurnerDecimalsContract.ABI, packettypes.ModuleAddress, m.voucher, "totalSupply")
	if err != nil {
		m.t.Fatalf("totalSupply: %v", err)
	}
	out, err := erc20contracts.ERC20MinterBurnerDecimalsContract.ABI.Unpack("totalSupply", res.Ret)
	if err != nil {
		m.t.Fatal(err)
	}
	return out[0].(*big.Int).String()
}

func (m *c17Mod) mdump(ctx sdk.Context) string {
	return "M:" + m.voucherSupply(ctx) + " " + m.wb.dump(ctx)
}

func (m *c17Mod) deliver(c *xibctesting.TestChain, msgs ...sdk.Msg) (*sdk.Result, error) {
	m.coord.UpdateTimeForChain(c)
	account := c.App.AccountKeeper.GetAccount(c.GetContext(), c.SenderAcc)
	tx, err := helpers.GenTx(c.TxConfig, msgs, sdk.Coins{sdk.NewInt64Coin(sdk.DefaultBondDenom, 0)}, helpers.DefaultGenTxGas*20, c.ChainID,
		[]uint64{account.GetAccountNumber()}, []uint64{account.GetSequence()}, c.SenderPrivKey)
	if err != nil {
		m.t.Fatal(err)
	}
	c.App.BeginBlock(abci.RequestBeginBlock{Header: c.GetContext().BlockHeader()})
	_, res, derr := c.App.BaseApp.Deliver(c.TxConfig.TxEncoder(), tx)
	c.App.EndBlock(abci.RequestEndBlock{})
	c.App.Commit()
	c.NextBlock()
	m.coord.IncrementTime()
	return res, derr
}

// send: endpoint.crossChainCall on A; returns the packet bytes and its sequence.
func (m *c17Mod) send(amount *big.Int, contract string, callData []byte) ([]byte, uint64) {
	c := m.A
	amt := big.NewInt(0)
	if amount != nil {
		amt = amount
	}
	data := packettypes.CrossChainData{DstChain: m.nameB(), TokenAddress: common.Address{}, Receiver: strings.ToLower(m.receiver.String()), Amount: amt,
		ContractAddress: contract, CallData: callData, CallbackAddress: common.Address{}, FeeOption: 0}
	fee := packettypes.Fee{TokenAddress: common.Address{}, Amount: big.NewInt(0)}
	payload, err := endpointcontract.EndpointContract.ABI.Pack("crossChainCall", data, fee)
	if err != nil {
		m.t.Fatal(err)
	}
	sctx := c.GetContext()
	chainID := c.App.EvmKeeper.ChainID()
	nonce := c.App.EvmKeeper.GetNonce(sctx, c.SenderAddress)
	to := endpointcontract.EndpointContractAddress
	tx := evm.NewTx(chainID, nonce, &to, amt, config.DefaultGasCap, big.NewInt(0), big.NewInt(0), big.NewInt(0), payload, &ethtypes.AccessList{})
	tx.From = c.SenderAddress.Hex()
	if err := tx.Sign(ethtypes.LatestSignerForChainID(chainID), tests.NewSigner(c.SenderPrivKey)); err != nil {
		m.t.Fatal(err)
	}
	rsp, err := c.App.EvmKeeper.EthereumTx(sdk.WrapSDKContext(sctx), tx)
	if err != nil || rsp.VmError != "" {
		m.t.Fatalf("crossChainCall failed: %v amount=%v contract=%q calldata=%x", err, amount, contract, callData)
	}
	var pkt []byte
	var seq uint64
	for _, e := range sctx.EventManager().Events().ToABCIEvents() {
		if !strings.HasSuffix(e.Type, "EventSendPacket") {
			continue
		}
		pm, err := sdk.ParseTypedEvent(e)
		if err != nil {
			m.t.Fatal(err)
		}
		ev := pm.(*packettypes.EventSendPacket)
		var p packettypes.Packet
		if err := p.ABIDecode(ev.Packet); err != nil {
			m.t.Fatal(err)
		}
		pkt, seq = ev.Packet, p.Sequence
	}
	if pkt == nil {
		m.t.Fatal("no packet sent")
	}
	m.coord.CommitBlock(m.A)
	return pkt, seq
}

func (m *c17Mod) updateClientOnB() {
	m.coord.CommitBlock(m.A)
	header, err := m.B.ConstructUpdateTMClientHeader(m.A, m.nameA())
	if err != nil {
		m.t.Fatal(err)
	}
	msg, err := clienttypes.NewMsgUpdateClient(m.nameA(), header, m.B.SenderAcc)
	if err != nil {
		m.t.Fatal(err)
	}
	if _, err := m.deliver(m.B, msg); err != nil {
		m.t.Fatalf("update client: %v", err)
	}
}

func (m *c17Mod) find(r *Rec, sig, what, obs, req string) {
	r.Find(Finding{Sig: sig, What: what, Ops: append([]string{}, m.hist...), Obs: obs, Req: req})
}

func (m *c17Mod) apply(r *Rec, op string) (string, string) {
	f := strings.Fields(op)
	w := m.wb
	switch f[0] {
	case "minit":
		m.refresh()
		l := w.initLine()
		var vb []string
		for _, v := range w.vals {
			val, _ := w.app.StakingKeeper.GetValidator(w.ctx, v)
			vb = append(vb, b01(val.IsBonded()))
		}
		op = "m" + l + " valbonded=" + strings.Join(vb, ",")
		m.hist = []string{}
		return op, "ok " + m.mdump(w.ctx)
	case "recv":
		return m.applyRecv(r, f)
	}
	r.t.Fatalf("bad op %q", op)
	return "", ""
}

func (m *c17Mod) applyRecv(r *Rec, f []string) (string, string) {
	w := m.wb
	p := &c17Toks{t: f, i: 2}
	var amount *big.Int
	if a := p.next(); a != "-" {
		amount, _ = new(big.Int).SetString(a, 10)
	}
	p.next() // bound (always 1)
	reverts := p.next() != "0"
	var root *c17Node
	if p.t[p.i] != "none" {
		root = c17ParseNode(p)
	}
	// the packet
	contract, callData := "", []byte(nil)
	if root != nil {
		switch root.tag {
		case 'P':
			contract, callData = strings.ToLower(root.target.String()), w.segments(root.body)
		case 'S':
			contract, callData = strings.ToLower(w.sysTarget(root).String()), w.packCall(root.call)
		case 'B':
			contract, callData = strings.ToLower(w.sysTarget(root).String()), []byte{0xde, 0xad, 0xbe, 0xef, 0, 1}
		default:
			m.t.Fatalf("bad recv root")
		}
	}
	if reverts {
		contract = "0x12"
		if callData == nil {
			callData = []byte{1}
		}
	}
	pkt, seq := m.send(amount, contract, callData)
	m.updateClientOnB()
	m.refresh()
	amtTok := "-"
	if amount != nil {
		amtTok = amount.String()
	}
	rootTok := "none"
	if root != nil {
		rootTok = w.nodeToks(root)
	}
	op := fmt.Sprintf("recv %d %s 1 %s %s", seq, amtTok, b01(reverts), rootTok)
	m.hist = append(m.hist, op)

	// ---- expectation: by construction + reference execution on a branch of B's state
	before := m.mdump(w.ctx)
	cnt := map[common.Address]int{}
	evmOK, emits := true, []c17Emit(nil)
	if root != nil && !reverts {
		evmOK, emits = w.interp(c17Frame{self: endpointcontract.ExecuteContractAddress, sender: packetcontract.PacketContractAddress}, []*c17Node{root}, cnt)
	}
	wantCode := uint64(0)
	want := before
	refCtx, _ := w.ctx.CacheContext()
	switch {
	case reverts:
		wantCode = 1
	case !evmOK:
		wantCode = 3
	case !w.reference(refCtx, emits):
		wantCode = 1
	default:
		minted, _ := new(big.Int).SetString(strings.TrimPrefix(strings.Fields(before)[0], "M:"), 10)
		if amount != nil {
			minted.Add(minted, amount)
		}
		d := w.dump(refCtx)
		want = "M:" + minted.String() + " " + w.expectedCounters(w.ctx, cnt) + d[strings.Index(d, " B:"):]
	}

	// ---- the real thing
	key := host.PacketCommitmentKey(m.nameA(), m.nameB(), seq)
	cs := m.B.GetClientState(m.nameA())
	proof, height := m.A.QueryProofAtHeight(key, int64(cs.GetLatestHeight().GetRevisionHeight()))
	msg := packettypes.NewMsgRecvPacket(pkt, proof, height, m.B.SenderAcc)
	res, derr := m.deliver(m.B, msg)
	m.refresh()
	after := m.mdump(w.ctx)
	status, ackTok := "ok", "-"
	var ackCode uint64
	haveAck := false
	if derr != nil {
		status = "err"
		if sdkerrors.ErrPanic.Is(derr) {
			status = "panic"
		}
	} else {
		for _, e := range res.Events {
			if !strings.HasSuffix(e.Type, "EventWriteAck") {
				continue
			}
			pm, err := sdk.ParseTypedEvent(e)
			if err != nil {
				m.t.Fatal(err)
			}
			var ack packettypes.Acknowledgement
			if err := ack.ABIDecode(pm.(*packettypes.EventWriteAck).Ack); err != nil {
				m.t.Fatal(err)
			}
			ackCode, haveAck = ack.Code, true
			ackTok = strconv.FormatUint(ack.Code, 10)
		}
	}
	_, receipt := m.B.App.XIBCKeeper.PacketKeeper.GetPacketReceipt(w.ctx, m.nameA(), m.nameB(), seq)
	r.Count("recv." + status + ".ack" + ackTok)
	if root != nil && root.tag == 'S' && ackTok == "0" {
		r.Count("recv.direct-ok." + root.call.fn)
	}
	if amount != nil && haveAck && ackCode != 0 {
		r.Count("recv.failed-with-transfer")
	}

	// ---- oracle
	switch {
	case status == "panic":
		// a native panic: runTx discards everything (no receipt, no acknowledgement); only legitimate when a reference
		// message panics too (wantCode 1)
		if wantCode != 1 {
			m.find(r, "C17:module:spurious-panic", "MsgRecvPacket panicked although the attributed messages do not fail", "panic", fmt.Sprint("ack ", wantCode))
		}
		if receipt || after != before {
			m.find(r, "C17:module:not-atomic:panic", "a panicking MsgRecvPacket left state behind", after, before)
		}
	case status != "ok" || !haveAck:
		m.find(r, "C17:module:no-ack", "MsgRecvPacket with a valid proof was rejected or wrote no acknowledgement", status, fmt.Sprint("ack ", wantCode))
	default:
		if !receipt {
			m.find(r, "C17:module:no-receipt", "no receipt after a handled MsgRecvPacket", "-", "receipt")
		}
		if (ackCode == 0) != (wantCode == 0) {
			sig := "C17:module:failure-swallowed"
			if ackCode != 0 {
				sig = "C17:module:spurious-failure"
			}
			m.find(r, sig, "acknowledgement code does not reflect the outcome of the attributed native messages", ackTok, fmt.Sprint(wantCode))
		} else if ackCode != wantCode {
			m.find(r, "C17:module:ack-code", "unexpected error acknowledgement code", ackTok, fmt.Sprint(wantCode))
		}
		if ackCode != 0 && after != before {
			// defect F1 (callback on ctx instead of cctx) shows exactly here
			m.find(r, "C17:F1-module-call-path", "error acknowledgement written but state of the callback (EVM storage, minted vouchers, native delegations / votes) survived", after, before)
		}
		if ackCode == 0 && wantCode == 0 && after != want {
			m.find(r, "C17:module:state-mismatch", "state after a successful MsgRecvPacket differs from the state implied by the attributed messages (signer = msg.sender of the system-contract frame, exact arguments, once per event)", after, want)
		}
	}
	if c17Supply(after) != c17Supply(before) {
		m.find(r, "C17:module:supply-changed", "bank supply changed by a received packet", c17Supply(after), c17Supply(before))
	}
	r.Nontrivial(op)
	return op, status + " A:" + ackTok + " " + after
}

// ---- generator ----------------------------------------------------------------------------------------------------

func (g *c17Gen) recvOp(m *c17Mod) string {
	w := g.w // == m.wb
	exec := endpointcontract.ExecuteContractAddress
	small := func() *big.Int { return big.NewInt(int64(1 + g.pick(900))) }
	call := func(who common.Address) *c17Call {
		c := g.call(who)
		// keep successful stakes far below one unit of consensus power (the validators must stay out of the active set)
		if c.amt != nil && c.amt.BitLen() < 200 && c.amt.BitLen() > 20 {
			c.amt = small()
		}
		return c
	}
	g.valid = g.pick(100) < 65
	g.shape = map[string]bool{}
	g.pre = nil
	amount := "-"
	if g.pick(3) == 0 {
		amount = strconv.Itoa(1 + g.pick(5000))
	}
	reverts := "0"
	var root *c17Node
	x := g.pick(100)
	if g.pick(20) == 0 { // a native panic (sdk.Dec overflow in SharesFromTokens) inside the callback
		if c := g.overflowCall(exec); c != nil {
			root, x = &c17Node{tag: 'S', kind: 'c', call: c}, 1000
		}
	}
	switch {
	case x == 1000:
	case x < 50:
		root = &c17Node{tag: 'S', kind: 'c', call: call(exec)}
	case x < 53:
		root = &c17Node{tag: 'B', kind: 'c', badGov: g.pick(2) == 0}
	case x < 57:
		reverts = "1"
		if g.pick(2) == 0 {
			root = &c17Node{tag: 'S', kind: 'c', call: call(exec)}
		}
	case x < 62:
		root = nil // transfer only (a packet needs transfer data or call data)
		if amount == "-" {
			amount = strconv.Itoa(1 + g.pick(5000))
		}
	default:
		tgt := w.proxies[g.pick(2)]
		body := g.body(tgt, 2, exec)
		var fix func(ns []*c17Node) []*c17Node
		fix = func(ns []*c17Node) []*c17Node {
			var out []*c17Node
			for _, n := range ns {
				if n.tag == 'K' { // CREATE2 callers are exercised on the transaction path (they need the `fund` operation)
					continue
				}
				if n.call != nil && n.call.amt != nil && n.call.amt.BitLen() < 200 && n.call.amt.BitLen() > 20 {
					n.call.amt = small()
				}
				n.body = fix(n.body)
				out = append(out, n)
			}
			return out
		}
		body = fix(body)
		if len(body) == 0 {
			body = []*c17Node{{tag: 'S', kind: 'c', call: call(tgt)}}
		}
		root = &c17Node{tag: 'P', kind: 'c', target: tgt, body: body}
	}
	rootTok := "none"
	if root != nil {
		c17CapOpts([]*c17Node{root}, 101)
		rootTok = w.nodeToks(root)
	}
	return fmt.Sprintf("recv 0 %s 1 %s %s", amount, reverts, rootTok)
}
