//go:build c11

package verifharness

// C11 — coin ⇄ ERC-20 conversion. Drives the real x/aggregate MsgServer (ConvertCoin / ConvertERC20) inside a real
// app with real EVM contracts (the token contracts compiled in /repo/syscontracts), pairs registered through the real
// keeper (RegisterCoin / AddCoin / RegisterERC20).
//
// op language (addresses: 40 lower-case hex digits; denominations and raw message strings: hex of their bytes, "-" = empty)
//   reset                                       -> ok
//   acct <addr>                                 -> ok          declare a tracked (existing) account
//   mintcoin <addr> <denom> <amt>               -> ok          bank: mint to an account (set-up)
//   watch <denom>                               -> ok          include a denomination in dumps
//   regcoin <denom> <contract>                  -> ok          real RegisterCoin; <contract> = address it deployed (checked)
//   addcoin <denom> <contract>                  -> ok|err      real AddCoin
//   update <old> <new> <0|1>                    -> ok|err      real UpdateTokenPairERC20 (third field: the metadata comparison is expected to pass)
//   tryregcoin <denom> / tryregerc20 <contract> -> err         real RegisterCoin / RegisterERC20 for something registered already
//   deploy <mb|dbm|mal|dd|fr|pg> <contract> <deployer> <init> -> ok  deploy a token contract of the repo (address checked)
//   regerc20 <contract> <denom>                 -> ok          real RegisterERC20; <denom> = voucher denomination it created (checked)
//   tmint <contract> <caller> <to> <amt>        -> ok|err      EVM call mint(to, amt) by caller
//   ttransfer <contract> <caller> <to> <amt>    -> ok|err      EVM call transfer(to, amt) by caller
//   send <from> <to> <denom> <amt>              -> ok|err      bank MsgSend through the bank MsgServer
//   params <0|1>                                -> ok          EnableAggregate
//   toggle <token>                              -> ok          real ToggleRelay (no-op when not registered)
//   sendenabled <denom> <0|1>                   -> ok          bank SendEnabled parameter
//   suicide <contract>                          -> ok          self-destruct the contract (statedb.Suicide)
//   block <addr>                                -> ok          declares an address the app's bank keeper blocks (checked)
//   cc <sender-raw> <sender-dec> <receiver-raw> <denom> <amt>  -> ok|clean|err <codespace:code>|err basic|panic     MsgConvertCoin
//   ce <contract-raw> <amt> <receiver-raw> <receiver-dec> <sender-raw> <denom> -> (same)                             MsgConvertERC20
//        every message runs its real ValidateBasic first and then the real msg server, as a transaction would.
//        <…-raw> = the string of the message (hex of its bytes); <…-dec> = the harness' own prefix-agnostic bech32 decode of
//        that string: "!" (not bech32) or <hex of hrp>.<payload hex> (checked on replay) — the model's bech32 primitive
//   ics <receiver|!> <base denom> <voucher> <amt> -> errack|kept|ok|clean|panic     an ICS-20 packet (token of the sending chain,
//                                                  transfer/channel-0) through the app's transfer route = aggregate middleware
//                                                  over the real transfer application, on a cache context written iff the
//                                                  acknowledgement is nil or a success (ibc-go core RecvPacket); <voucher> is checked
//   ctl <contract> <read now> <read next> <who|-> <transfer>  -> ok   programs the programmable token "pg" (c11_pg_test.go)
//   gov <param key> <0|1>                       -> ok          governance: a real ParameterChangeProposal (subspace "aggregate", KEY, value) through
//                                                  the gov router's "params" handler — the parameter is addressed by its store key
//   restart                                     -> ok          the module goes through a genesis export / import: real ExportGenesis ->
//                                                  JSON -> Validate -> the aggregate store is wiped -> real InitGenesis (bank, EVM, accounts stay)
//   dump                                        -> E<0|1> T<contract>:<code>:<totalSupply>:<balances>:<pair> ... D<denom>:<supply>:<balances>:<pair addr>

import (
	"encoding/hex"
	"fmt"
	"math/big"
	"strings"
	"testing"
	"time"

	sdk "github.com/cosmos/cosmos-sdk/types"
	sdkerrors "github.com/cosmos/cosmos-sdk/types/errors"
	authtypes "github.com/cosmos/cosmos-sdk/x/auth/types"
	bankkeeper "github.com/cosmos/cosmos-sdk/x/bank/keeper"
	banktypes "github.com/cosmos/cosmos-sdk/x/bank/types"
	stakingtypes "github.com/cosmos/cosmos-sdk/x/staking/types"
	paramproposal "github.com/cosmos/cosmos-sdk/x/params/types/proposal"
	porttypes "github.com/cosmos/ibc-go/v3/modules/core/05-port/types"
	"github.com/ethereum/go-ethereum/common"
	"github.com/ethereum/go-ethereum/crypto"
	"github.com/tendermint/tendermint/crypto/tmhash"
	tmproto "github.com/tendermint/tendermint/proto/tendermint/types"
	tmversion "github.com/tendermint/tendermint/proto/tendermint/version"
	"github.com/tendermint/tendermint/version"
	"github.com/tharsis/ethermint/crypto/ethsecp256k1"
	ethermint "github.com/tharsis/ethermint/types"
	"github.com/tharsis/ethermint/x/evm/statedb"

	"github.com/teleport-network/teleport/app"
	"github.com/teleport-network/teleport/x/aggregate"
	cmdcfg "github.com/teleport-network/teleport/cmd/config"
	erc20contracts "github.com/teleport-network/teleport/syscontracts/erc20"
	aggtypes "github.com/teleport-network/teleport/x/aggregate/types"
)

var c11Thief = common.HexToAddress("0x4dC6ac40Af078661fc43823086E1513635Eeab14")

type c11Pair struct {
	found   bool
	addr    common.Address
	denoms  []string
	enabled bool
	owner   aggtypes.Owner
}

// one observation of the real state (everything the property talks about)
type c11Snap struct {
	enabled bool
	coin    map[string]*big.Int // acct|denom -> balance
	supply  map[string]*big.Int // denom -> supply
	tok     map[string]*big.Int // contract|acct -> balanceOf (nil = call failed)
	tsup    map[string]*big.Int // contract -> totalSupply
	code    map[string]bool
	pairs   map[string]c11Pair // contract -> pair registered for it
	text    string
}

type c11World struct {
	app       *app.Teleport
	base      sdk.Context
	ctx       sdk.Context
	accts     []common.Address
	denoms    []string
	contracts []common.Address
	kinds     map[common.Address]string
	hist      []string
	module    common.Address
	cur       *c11Snap // snapshot of the current state (nil = stale)
	extra     string   // a denomination observed by the oracle although it is not part of the dumps
	extraAcct [][]byte // accounts observed by the oracle although they are not tracked (named in the message; the empty address)
	// the oracle's OWN record of what governance switched off (independent of the flags the keeper stores)
	govOff       map[common.Address]bool // contract of the pair -> last committed ToggleRelay left it off (set by accepted toggles ONLY)
	offOps       map[common.Address][]string // governance operations that touched the pair since it was switched off
	updated      map[common.Address]bool     // pairs re-pointed by UpdateTokenPairERC20 (their escrow stays in the old contract)
	govModuleOff bool                    // the value last written under the parameter KEY EnableAggregate is false
	govParam     map[string]bool         // parameter key -> value last written under it (by SetParams, genesis or a by-key proposal)
	offByKey     bool                    // … and that write was a governance parameter change addressed by key
	offRestarts  map[common.Address]int  // restarts since the pair was switched off
	pgModes   map[common.Address][3]int64 // what the programmable tokens are currently programmed to do (distribution counters only)
	mw        porttypes.IBCModule // the app's ICS-20 route: aggregate middleware over the real transfer application
	seq       uint64
}

func (w *c11World) current() *c11Snap {
	if w.cur == nil {
		w.cur = w.snap(w.ctx)
	}
	return w.cur
}

func c11Addr(s string) common.Address { return common.HexToAddress("0x" + s) }
func c11Hex(a common.Address) string  { return hex.EncodeToString(a.Bytes()) }

func newC11World(t *testing.T) *c11World {
	// the node sets the chain's bech32 prefixes at start-up (cmd/teleport); do the same, otherwise the process would
	// validate addresses against the sdk default "cosmos"
	cmdcfg.SetBech32Prefixes(sdk.GetConfig())
	if p := sdk.GetConfig().GetBech32AccountAddrPrefix(); p != "teleport" {
		t.Fatalf("account prefix %q: the model's chainPrefix is \"teleport\"", p)
	}
	a := app.Setup(false, nil)
	priv, err := ethsecp256k1.GenerateKey()
	if err != nil {
		t.Fatal(err)
	}
	consAddr := sdk.ConsAddress(priv.PubKey().Address())
	ctx := a.BaseApp.NewContext(false, tmproto.Header{
		Height: 1, ChainID: "teleport_9000-1", Time: time.Unix(1700000000, 0).UTC(), ProposerAddress: consAddr.Bytes(),
		Version:     tmversion.Consensus{Block: version.BlockProtocol},
		LastBlockId: tmproto.BlockID{Hash: tmhash.Sum([]byte("block_id")), PartSetHeader: tmproto.PartSetHeader{Total: 11, Hash: tmhash.Sum([]byte("partset_header"))}},
		AppHash:     tmhash.Sum([]byte("app")), DataHash: tmhash.Sum([]byte("data")), EvidenceHash: tmhash.Sum([]byte("evidence")),
		ValidatorsHash: tmhash.Sum([]byte("validators")), NextValidatorsHash: tmhash.Sum([]byte("next_validators")),
		ConsensusHash: tmhash.Sum([]byte("consensus")), LastResultsHash: tmhash.Sum([]byte("last_result")),
	})
	valAddr := sdk.ValAddress(priv.PubKey().Address().Bytes())
	validator, err := stakingtypes.NewValidator(valAddr, priv.PubKey(), stakingtypes.Description{})
	if err != nil {
		t.Fatal(err)
	}
	if err := a.StakingKeeper.SetValidatorByConsAddr(ctx, validator); err != nil {
		t.Fatal(err)
	}
	a.StakingKeeper.SetValidator(ctx, validator)
	w := &c11World{app: a, base: ctx, module: aggtypes.ModuleAddress}
	// the thief account of the malicious tokens exists (so that it can be used as a sender, too)
	w.ctx = ctx
	w.ensureAccount(ctx, c11Thief)
	w.reset()
	return w
}

func (w *c11World) ensureAccount(ctx sdk.Context, a common.Address) {
	if w.app.AccountKeeper.GetAccount(ctx, sdk.AccAddress(a.Bytes())) == nil {
		acc := &ethermint.EthAccount{
			BaseAccount: authtypes.NewBaseAccount(sdk.AccAddress(a.Bytes()), nil, 0, 0),
			CodeHash:    common.BytesToHash(crypto.Keccak256(nil)).String(),
		}
		acc.AccountNumber = w.app.AccountKeeper.GetNextAccountNumber(ctx)
		w.app.AccountKeeper.SetAccount(ctx, acc)
	}
}

func (w *c11World) reset() {
	w.ctx, _ = w.base.CacheContext()
	w.accts, w.denoms, w.contracts = nil, nil, nil
	w.kinds = map[common.Address]string{}
	w.hist = nil
	w.govOff, w.offRestarts, w.govModuleOff = map[common.Address]bool{}, map[common.Address]int{}, false
	w.offOps, w.updated = map[common.Address][]string{}, map[common.Address]bool{}
	w.govParam, w.offByKey = map[string]bool{"EnableAggregate": true, "EnableEVMHook": true}, false
}

func (w *c11World) seeDenom(d string) {
	for _, x := range w.denoms {
		if x == d {
			return
		}
	}
	w.denoms = append(w.denoms, d)
}

func (w *c11World) seeContract(c common.Address) {
	for _, x := range w.contracts {
		if x == c {
			return
		}
	}
	w.contracts = append(w.contracts, c)
}

func (w *c11World) allAccts() []common.Address {
	return append(append([]common.Address{}, w.accts...), w.module, c11Thief)
}

var c11ABI = erc20contracts.ERC20MinterBurnerDecimalsContract.ABI

func (w *c11World) callUint(ctx sdk.Context, c common.Address, method string, args ...interface{}) *big.Int {
	if w.kinds[c] == "pg" && method == "balanceOf" {
		return w.pgReal(ctx, c, args[0].(common.Address)) // the honest call path of the programmable token
	}
	var out *big.Int
	safely(func() {
		cctx, _ := ctx.CacheContext()
		res, err := w.app.AggregateKeeper.CallEVM(cctx, c11ABI, w.module, c, method, args...)
		if err != nil {
			return
		}
		un, err := c11ABI.Unpack(method, res.Ret)
		if err != nil || len(un) == 0 {
			return
		}
		if b, ok := un[0].(*big.Int); ok {
			out = b
		}
	})
	return out
}

func (w *c11World) coinBal(ctx sdk.Context, a common.Address, d string) *big.Int {
	if sdk.ValidateDenom(d) != nil {
		return big.NewInt(0)
	}
	return w.app.BankKeeper.GetBalance(ctx, sdk.AccAddress(a.Bytes()), d).Amount.BigInt()
}

func (w *c11World) pairOf(ctx sdk.Context, c common.Address) c11Pair {
	id := w.app.AggregateKeeper.GetERC20Map(ctx, c)
	p, found := w.app.AggregateKeeper.GetTokenPair(ctx, id)
	if !found {
		return c11Pair{}
	}
	return c11Pair{found: true, addr: p.GetERC20Contract(), denoms: append([]string{}, p.Denoms...), enabled: p.Enabled, owner: p.ContractOwner}
}

func c11Num(b *big.Int) string {
	if b == nil {
		return "nil"
	}
	return b.String()
}

func (w *c11World) snap(ctx sdk.Context) *c11Snap {
	s := &c11Snap{coin: map[string]*big.Int{}, supply: map[string]*big.Int{}, tok: map[string]*big.Int{}, tsup: map[string]*big.Int{},
		code: map[string]bool{}, pairs: map[string]c11Pair{}}
	s.enabled = w.app.AggregateKeeper.GetParams(ctx).EnableAggregate
	accs := w.allAccts()
	var sb strings.Builder
	b01 := func(b bool) string {
		if b {
			return "1"
		}
		return "0"
	}
	// E / H: what the keeper reads (GetParams fields); K: what is stored under the two parameter KEYS
	ss, _ := w.app.ParamsKeeper.GetSubspace(aggtypes.ModuleName)
	var rawAgg, rawHook bool
	ss.Get(ctx, aggtypes.ParamStoreKeyEnableAggregate, &rawAgg)
	ss.Get(ctx, aggtypes.ParamStoreKeyEnableEVMHook, &rawHook)
	sb.WriteString("E" + b01(s.enabled) + "H" + b01(w.app.AggregateKeeper.GetParams(ctx).EnableEVMHook) + "K" + b01(rawAgg) + b01(rawHook))
	for _, c := range w.contracts {
		ch := c11Hex(c)
		acc := w.app.EvmKeeper.GetAccountWithoutBalance(ctx, c)
		s.code[ch] = acc != nil && acc.IsContract()
		if s.code[ch] {
			s.tsup[ch] = w.callUint(ctx, c, "totalSupply")
		} else {
			s.tsup[ch] = big.NewInt(0)
		}
		sb.WriteString(" T" + ch + ":")
		if s.code[ch] {
			sb.WriteString("1:")
		} else {
			sb.WriteString("0:")
		}
		// a self-destructed contract is dumped with the storage the model keeps (not observable any more): skip balances
		var bals []string
		for _, a := range accs {
			var b *big.Int
			if s.code[ch] {
				b = w.callUint(ctx, c, "balanceOf", a)
			}
			s.tok[ch+"|"+c11Hex(a)] = b
			bals = append(bals, c11Num(b))
		}
		if s.code[ch] {
			sb.WriteString(c11Num(s.tsup[ch]) + ":" + strings.Join(bals, ","))
		} else {
			sb.WriteString("x:x")
		}
		p := w.pairOf(ctx, c)
		s.pairs[ch] = p
		if !p.found {
			sb.WriteString(":-")
		} else {
			var ds []string
			for _, d := range p.denoms {
				ds = append(ds, hxs(d))
			}
			en := "0"
			if p.enabled {
				en = "1"
			}
			ow := "U"
			if p.owner == aggtypes.OWNER_MODULE {
				ow = "M"
			} else if p.owner == aggtypes.OWNER_EXTERNAL {
				ow = "E"
			}
			sb.WriteString(":" + strings.Join(ds, ",") + "/" + en + ow)
		}
	}
	for _, d := range w.denoms {
		sup := big.NewInt(0)
		if sdk.ValidateDenom(d) == nil {
			sup = w.app.BankKeeper.GetSupply(ctx, d).Amount.BigInt()
		}
		s.supply[d] = sup
		var bals []string
		for _, a := range accs {
			b := w.coinBal(ctx, a, d)
			s.coin[c11Hex(a)+"|"+d] = b
			bals = append(bals, b.String())
		}
		pa := "-"
		if id := w.app.AggregateKeeper.GetDenomMap(ctx, d); len(id) > 0 {
			if p, ok := w.app.AggregateKeeper.GetTokenPair(ctx, id); ok {
				pa = c11Hex(p.GetERC20Contract())
			}
		}
		sb.WriteString(" D" + hxs(d) + ":" + sup.String() + ":" + strings.Join(bals, ",") + ":" + pa)
	}
	s.text = sb.String()
	for _, ea := range w.extraAcct {
		for _, d := range append(append([]string{}, w.denoms...), w.extra) {
			k := hex.EncodeToString(ea) + "|" + d
			if _, ok := s.coin[k]; !ok && sdk.ValidateDenom(d) == nil {
				s.coin[k] = w.app.BankKeeper.GetBalance(ctx, sdk.AccAddress(ea), d).Amount.BigInt()
			}
		}
	}
	if _, ok := s.supply[w.extra]; !ok && sdk.ValidateDenom(w.extra) == nil {
		s.supply[w.extra] = w.app.BankKeeper.GetSupply(ctx, w.extra).Amount.BigInt()
		for _, a := range accs {
			s.coin[c11Hex(a)+"|"+w.extra] = w.coinBal(ctx, a, w.extra)
		}
	}
	return s
}

func c11ErrClass(err error) string {
	cs, code, _ := sdkerrors.ABCIInfo(err, false)
	return fmt.Sprintf("%s:%d", cs, code)
}

func (w *c11World) find(r *Rec, sig, what, obs, req string) {
	r.Find(Finding{Sig: sig, What: what, Ops: append([]string{}, w.hist...), Obs: obs, Req: req})
}

func c11Big(s string) *big.Int {
	b, ok := new(big.Int).SetString(s, 10)
	if !ok {
		panic("bad number " + s)
	}
	return b
}

func c11Delta(a, b *big.Int) *big.Int { // b - a
	if a == nil || b == nil {
		return nil
	}
	return new(big.Int).Sub(b, a)
}

func c11Eq(d *big.Int, want *big.Int) bool { return d != nil && d.Cmp(want) == 0 }

// ---- deploying the token contracts of the repository -------------------------------------------------------

func (w *c11World) deploy(kind string, deployer common.Address, init *big.Int) (common.Address, error) {
	var bin []byte
	var ctor []byte
	var err error
	switch kind {
	case "mb":
		bin = erc20contracts.ERC20MinterBurnerDecimalsContract.Bin
		ctor, err = erc20contracts.ERC20MinterBurnerDecimalsContract.ABI.Pack("", "Ext Token", "EXT", uint8(18))
	case "dbm":
		bin = erc20contracts.ERC20DirectBalanceManipulationContract.Bin
		ctor, err = erc20contracts.ERC20DirectBalanceManipulationContract.ABI.Pack("", init)
	case "mal":
		bin = erc20contracts.ERC20MaliciousDelayedContract.Bin
		ctor, err = erc20contracts.ERC20MaliciousDelayedContract.ABI.Pack("", init)
	case "dd", "fr":
		bin = c11AdversarialBin(kind)
	case "pg":
		bin = c11ProgrammableBin()
	default:
		return common.Address{}, fmt.Errorf("kind")
	}
	if err != nil {
		return common.Address{}, err
	}
	data := append(append([]byte{}, bin...), ctor...)
	nonce, err := w.app.AccountKeeper.GetSequence(w.ctx, deployer.Bytes())
	if err != nil {
		return common.Address{}, err
	}
	addr := crypto.CreateAddress(deployer, nonce)
	if _, err := w.app.AggregateKeeper.CallEVMWithData(w.ctx, deployer, nil, data); err != nil {
		return common.Address{}, err
	}
	return addr, nil
}

// ---- the conversion messages with the property oracle ------------------------------------------------------

type c11Msg struct {
	coin     bool
	token    string // string looked up first (denom for cc, contract for ce)
	denom    string
	amt      *big.Int
	sender   common.Address // 20-byte view (EVM side)
	receiver common.Address
	named    string // the bech32 string of the message (sender of cc, receiver of ce)
	sBytes   []byte // the accounts NAMED IN THE MESSAGE, decoded by the harness' own prefix-agnostic decoders
	rBytes   []byte
	okAddrs  bool
}

// resolve the pair a message addresses, the way a reader of the registry does (independent of the keeper's MintingEnabled)
func (w *c11World) resolve(ctx sdk.Context, token string) c11Pair {
	id := w.app.AggregateKeeper.GetTokenPairID(ctx, token)
	if len(id) == 0 {
		return c11Pair{}
	}
	p, found := w.app.AggregateKeeper.GetTokenPair(ctx, id)
	if !found {
		return c11Pair{}
	}
	return c11Pair{found: true, addr: p.GetERC20Contract(), denoms: append([]string{}, p.Denoms...), enabled: p.Enabled, owner: p.ContractOwner}
}

func (w *c11World) oracleMsg(r *Rec, m c11Msg, out string, s0, s1 *c11Snap, p c11Pair) {
	kind := "cc"
	if !m.coin {
		kind = "ce"
	}
	// gated: disabled module / disabled pair / blocked receiver => rejected
	if p.found && w.govOff[p.addr] && out != "err basic" {
		for _, o := range w.distinctOffOps(p.addr) {
			r.Count("disabled-op." + o + "." + kind + "." + map[bool]string{true: "ACCEPTED", false: "refused"}[out == "ok" || out == "clean"])
		}
	}
	if (out == "ok" || out == "clean") && p.found && w.govOff[p.addr] {
		w.find(r, "C11:conversion-accepted-on-disabled-pair:after-"+w.lastOffOp(p.addr), "a conversion was accepted for a pair whose last committed relay toggle was OFF (the oracle's own record)", out, "rejected")
	}
	if (out == "ok" || out == "clean") && w.govModuleOff {
		w.find(r, "C11:converted-while-module-disabled:"+kind, "a conversion was accepted although the last committed EnableAggregate change was OFF (the oracle's own record)", out, "rejected")
	}
	if w.offByKey && p.found && !w.govOff[p.addr] && out != "ok" && out != "clean" && out != "err basic" {
		r.Count("convert.refused.module-disabled-by-key")
	}
	if p.found && w.govOff[p.addr] && out != "ok" && out != "clean" && out != "err basic" && w.offRestarts[p.addr] > 0 {
		r.Count("convert.after-restart.refused-disabled")
	}
	if out == "ok" || out == "clean" {
		switch {
		case !s0.enabled:
			w.find(r, "C11:gate:module-disabled:"+kind, "message accepted while the module is disabled", out, "rejected")
		case p.found && !p.enabled:
			w.find(r, "C11:gate:pair-disabled:"+kind, "message accepted while the pair is disabled", out, "rejected")
		case m.okAddrs && len(m.rBytes) > 0 && w.app.BankKeeper.BlockedAddr(m.rBytes):
			w.find(r, "C11:gate:blocked-receiver:"+kind, "message accepted with a blocked receiver", out, "rejected")
		}
	}
	if strings.HasPrefix(out, "err") || out == "panic" {
		if s0.text != s1.text {
			w.find(r, "C11:rejected-but-changed:"+kind, "a rejected message changed the state", s1.text, s0.text)
		}
		return
	}
	if !p.found {
		w.find(r, "C11:accepted-without-pair:"+kind, "message accepted but no registered pair is addressed", out, "rejected")
		return
	}
	ch := c11Hex(p.addr)
	if out == "clean" {
		// only the registry entry may go; the contract must have no code
		if s0.code[ch] {
			w.find(r, "C11:cleanup-of-live-contract:"+kind, "pair deleted although the contract has code", out, "conversion or error")
		}
		if s1.pairs[ch].found {
			w.find(r, "C11:cleanup-kept-pair:"+kind, "clean-up left the pair registered", out, "pair deleted")
		}
		for k, v := range s0.coin {
			if s1.coin[k] != nil && s1.coin[k].Cmp(v) != 0 {
				w.find(r, "C11:cleanup-moved-coins:"+kind, "clean-up changed a bank balance "+k, s1.coin[k].String(), v.String())
			}
		}
		for k, v := range s0.supply {
			if s1.supply[k] != nil && s1.supply[k].Cmp(v) != 0 {
				w.find(r, "C11:cleanup-changed-supply:"+kind, "clean-up changed the supply of "+k, s1.supply[k].String(), v.String())
			}
		}
		return
	}
	// ---- converted: exact amounts ----
	own := "mod"
	if p.owner == aggtypes.OWNER_EXTERNAL {
		own = "ext"
	}
	tkind := w.kinds[p.addr]
	sig := func(what string) string { return "C11:" + what + ":" + kind + ":" + own + ":" + tkind }
	amt := m.amt
	neg := new(big.Int).Neg(amt)
	zero := big.NewInt(0)
	sH, rH, mH := hex.EncodeToString(m.sBytes), hex.EncodeToString(m.rBytes), c11Hex(w.module)
	if !m.okAddrs {
		w.find(r, "C11:accepted-with-unreadable-address:"+kind, "message accepted although an address named in it is not readable (bech32 / hex)", out, "rejected")
		return
	}
	listed := false
	for _, d := range p.denoms {
		if d == m.denom {
			listed = true
		}
	}
	want := map[string]*big.Int{} // expected deltas of bank balances (key acct|denom); everything else must be 0
	wantTok := map[string]*big.Int{}
	var wantSupply, wantTSup *big.Int
	if m.coin {
		want[sH+"|"+m.denom] = neg
		wantTok[ch+"|"+rH] = amt
		if p.owner == aggtypes.OWNER_MODULE {
			want[mH+"|"+m.denom] = amt
			wantSupply, wantTSup = zero, amt
		} else {
			wantSupply, wantTSup = neg, zero
			wantTok[ch+"|"+mH] = neg
		}
	} else {
		want[rH+"|"+m.denom] = amt
		if p.owner == aggtypes.OWNER_MODULE {
			want[mH+"|"+m.denom] = neg
			wantTok[ch+"|"+sH] = neg
			wantSupply, wantTSup = zero, neg
		} else {
			wantSupply, wantTSup = amt, zero
			wantTok[ch+"|"+mH] = amt
			if w.kinds[p.addr] == "mb" {
				// what the sender's own token contract charges the sender is outside the keeper's reach (it checks the
				// escrow side); the sender side is demanded for the honest token only
				wantTok[ch+"|"+sH] = neg
			}
		}
	}
	// the account NAMED IN THE MESSAGE (decoded by the harness itself, whatever its bech32 prefix) is the one that pays / is paid
	if m.coin {
		if d := c11Delta(s0.coin[sH+"|"+m.denom], s1.coin[sH+"|"+m.denom]); !c11Eq(d, neg) && c11Hex(w.module) != sH {
			w.find(r, "C11:named-sender-not-debited:cc", "the account named as sender did not lose exactly the amount", c11Num(d), neg.String())
		}
	} else if d := c11Delta(s0.coin[rH+"|"+m.denom], s1.coin[rH+"|"+m.denom]); !c11Eq(d, amt) {
		w.find(r, "C11:named-receiver-not-credited:ce", "the account named as receiver did not gain exactly the amount", c11Num(d), amt.String())
	}
	// sender side / receiver side exact
	for k, v0 := range s0.coin {
		if s1.coin[k] == nil {
			continue // a denomination only the previous message's oracle looked at
		}
		d := c11Delta(v0, s1.coin[k])
		exp := zero
		if e, ok := want[k]; ok {
			exp = e
		}
		if !c11Eq(d, exp) {
			role := "other"
			if _, ok := want[k]; ok {
				role = "party"
			}
			w.find(r, sig("coin-delta-"+role), "bank balance "+k+" changed by a wrong amount", c11Num(d), exp.String())
		}
	}
	for k, v0 := range s0.tok {
		d := c11Delta(v0, s1.tok[k])
		exp := zero
		e, isParty := wantTok[k]
		if isParty {
			exp = e
		}
		if !strings.HasPrefix(k, ch+"|") {
			if !c11Eq(d, zero) && s0.code[strings.SplitN(k, "|", 2)[0]] {
				w.find(r, sig("other-token-changed"), "balance "+k+" of another token changed", c11Num(d), "0")
			}
			continue
		}
		// the account the module moves tokens to/from must change by exactly the amount whatever the token does;
		// third parties must be untouched for the honest token
		if isParty {
			if (m.coin && m.receiver == w.module) || (!m.coin && m.sender == w.module) {
				continue // degenerate self-conversion on the token side: covered by the supply/backing checks
			}
			if !c11Eq(d, exp) {
				role := "party"
				if k == ch+"|"+mH {
					role = "escrow"
				}
				w.find(r, sig("token-delta-"+role), "token balance "+k+" changed by a wrong amount", c11Num(d), exp.String())
			}
		} else if tkind == "mb" && !c11Eq(d, zero) {
			w.find(r, sig("token-delta-other"), "token balance "+k+" of a third party changed", c11Num(d), "0")
		}
	}
	if d := c11Delta(s0.supply[m.denom], s1.supply[m.denom]); !c11Eq(d, wantSupply) {
		w.find(r, sig("coin-supply-delta"), "supply of the message's denomination changed by a wrong amount", c11Num(d), wantSupply.String())
	}
	for k, v0 := range s0.supply {
		if k != m.denom && s1.supply[k] != nil && s1.supply[k].Cmp(v0) != 0 {
			w.find(r, sig("other-supply-changed"), "supply of "+k+" changed", s1.supply[k].String(), v0.String())
		}
	}
	if tkind == "mb" {
		if d := c11Delta(s0.tsup[ch], s1.tsup[ch]); !c11Eq(d, wantTSup) {
			w.find(r, sig("token-supply-delta"), "totalSupply of the token changed by a wrong amount", c11Num(d), wantTSup.String())
		}
	}
	r.Count("conv." + kind + "." + own + "." + tkind)
	if len(p.denoms) > 1 {
		r.Count("conv.multidenom")
		if m.denom != p.denoms[0] {
			r.Count("conv.multidenom.nonfirst")
		}
	}
	if !listed {
		r.Count("conv.alias-denom")
	}
}

// backing inequalities on the real state (after every operation)
func (w *c11World) oracleBacking(r *Rec, s *c11Snap) {
	for _, c := range w.contracts {
		ch := c11Hex(c)
		p := s.pairs[ch]
		if !p.found || !s.code[ch] || w.updated[c] {
			continue // (a re-pointed pair leaves its escrow in the old contract: registry business, C12)
		}
		switch p.owner {
		case aggtypes.OWNER_MODULE:
			sum := new(big.Int)
			for _, d := range p.denoms {
				if b, ok := s.coin[c11Hex(w.module)+"|"+d]; ok {
					sum.Add(sum, b)
				} else {
					sum.Add(sum, w.coinBal(w.ctx, w.module, d))
				}
			}
			if s.tsup[ch] == nil || s.tsup[ch].Cmp(sum) > 0 {
				w.find(r, "C11:backing:module-pair", fmt.Sprintf("ERC-20 supply of module-owned %s exceeds the escrowed coins of its %d denominations", ch, len(p.denoms)),
					c11Num(s.tsup[ch]), "<= "+sum.String())
			}
		case aggtypes.OWNER_EXTERNAL:
			// every token of the generator's set is "honest" in the sense of the theorem (`ExternalToken`): nobody but
			// the module can lower the module's balance (no test ever lets a BURNER_ROLE holder burn the escrow)
			if len(p.denoms) != 1 {
				continue
			}
			v := s.supply[p.denoms[0]]
			if v == nil {
				v = w.app.BankKeeper.GetSupply(w.ctx, p.denoms[0]).Amount.BigInt()
			}
			b := s.tok[ch+"|"+c11Hex(w.module)]
			if b == nil || v.Cmp(b) > 0 {
				w.find(r, "C11:backing:external-pair:"+w.kinds[c], "voucher supply of external "+ch+" exceeds the tokens escrowed by the module", v.String(), "<= "+c11Num(b))
			}
		}
	}
}

// shape of a bech32-named account (by the harness' own decode), for the distribution counters
func c11AddrClass(raw string) string {
	hrp, b, ok := c11Bech32Decode(raw)
	switch {
	case !ok:
		return "unreadable"
	case hrp != "teleport":
		return "foreign"
	case len(b) == 20 && raw == strings.ToUpper(raw):
		return "chain20upper"
	default:
		return fmt.Sprintf("chain%d", len(b))
	}
}

func (w *c11World) deliver(r *Rec, m c11Msg, validate func() error, handle func(ctx sdk.Context) (bool, error)) string {
	w.extra = m.denom
	w.extraAcct = [][]byte{{}, m.sBytes, m.rBytes} // the empty address is always watched
	w.cur = nil
	s0 := w.current()
	p := w.resolve(w.ctx, m.token)
	if !m.coin {
		// ConvertERC20 addresses the pair by contract *and* denomination
		if q := w.resolve(w.ctx, m.denom); !q.found || q.addr != p.addr {
			p = c11Pair{}
		}
	}
	out := ""
	if err := validate(); err != nil {
		out = "err basic"
	} else {
		cctx, write := w.ctx.CacheContext()
		var nilResp bool
		var err error
		pan, _ := safely(func() { nilResp, err = handle(cctx) })
		switch {
		case pan:
			out = "panic"
		case err != nil:
			out = "err " + c11ErrClass(err)
		default:
			write() // baseapp writes the message's cache only when the handler returns no error
			if nilResp {
				out = "clean"
			} else {
				out = "ok"
			}
		}
	}
	s1 := w.snap(w.ctx)
	w.cur = s1
	w.oracleMsg(r, m, out, s0, s1, p)
	w.oracleBacking(r, s1)
	cls := out
	if i := strings.Index(out, " "); i > 0 {
		cls = "err"
	}
	k := "cc."
	if !m.coin {
		k = "ce."
	}
	if p.found && w.kinds[p.addr] == "pg" {
		md := w.pgModes[p.addr]
		fail := func(x int64) bool { return x == 1 || x == 2 || x == 4 }
		if md != [3]int64{} && out != "err basic" {
			r.Count("pg.conv." + k + cls)
			if fail(md[0]) {
				r.Count("pg.conv." + k + "read1-fails." + cls)
			}
			if fail(md[1]) {
				r.Count("pg.conv." + k + "read2-fails." + cls)
			}
			if e := s0.tok[c11Hex(p.addr)+"|"+c11Hex(w.module)]; e != nil && e.Sign() > 0 && e.Cmp(m.amt) == 0 {
				r.Count("pg.amount-eq-escrow")
				if fail(md[0]) && md[2] == 2 {
					r.Count("pg.locked-attack." + k + cls) // failed first reading, transfer without effect, amount == escrow
				}
			}
		}
	}
	if m.named != "" {
		acc := "rejected"
		if cls == "ok" || cls == "clean" {
			acc = "accepted"
		}
		r.Count("addr." + c11AddrClass(m.named) + "." + acc)
	}
	r.Count(k + cls)
	if cls == "err" {
		r.Count(k + out)
		if out == "err aggregate:7" && p.found {
			r.Count("rej7." + k + w.kinds[p.addr]) // post-check rejections per token kind
		}
	}
	return out
}

func (w *c11World) apply(r *Rec, op string) string {
	f := strings.Fields(op)
	w.hist = append(w.hist, op)
	if f[0] != "dump" && f[0] != "cc" && f[0] != "ce" {
		w.cur = nil
	}
	K := w.app.AggregateKeeper
	str := func(h string) string { return string(unhx(h)) }
	switch f[0] {
	case "reset":
		w.reset()
		w.hist = []string{op}
		return "ok"
	case "acct":
		a := c11Addr(f[1])
		w.ensureAccount(w.ctx, a)
		w.accts = append(w.accts, a)
		return "ok"
	case "watch":
		w.seeDenom(str(f[1]))
		return "ok"
	case "mintcoin":
		d := str(f[2])
		w.seeDenom(d)
		c := sdk.Coins{sdk.NewCoin(d, sdk.NewIntFromBigInt(c11Big(f[3])))}
		if err := w.app.BankKeeper.MintCoins(w.ctx, "evm", c); err != nil {
			r.t.Fatalf("mintcoin: %v", err)
		}
		if err := w.app.BankKeeper.SendCoinsFromModuleToAccount(w.ctx, "evm", sdk.AccAddress(c11Addr(f[1]).Bytes()), c); err != nil {
			r.t.Fatalf("mintcoin: %v", err)
		}
		return "ok"
	case "regcoin":
		d := str(f[1])
		w.seeDenom(d)
		md := banktypes.Metadata{Description: "c11 " + d, Base: d, Name: d, Symbol: "C11", Display: d,
			DenomUnits: []*banktypes.DenomUnit{{Denom: d, Exponent: 0}}}
		p, err := K.RegisterCoin(w.ctx, md)
		if err != nil {
			r.t.Fatalf("regcoin %q: %v (history %v)", d, err, w.hist)
		}
		if c11Hex(p.GetERC20Contract()) != f[2] {
			r.t.Fatalf("regcoin: contract %s, op says %s", c11Hex(p.GetERC20Contract()), f[2])
		}
		w.seeContract(p.GetERC20Contract())
		w.kinds[p.GetERC20Contract()] = "mb"
		return "ok"
	case "addcoin":
		d := str(f[1])
		w.seeDenom(d)
		md := banktypes.Metadata{Description: "c11 " + d, Base: d, Name: d, Symbol: "C11", Display: d,
			DenomUnits: []*banktypes.DenomUnit{{Denom: d, Exponent: 0}}}
		cctx, write := w.ctx.CacheContext()
		if _, err := K.AddCoin(cctx, md, "0x"+f[2]); err != nil {
			return "err"
		}
		write()
		w.noteGov("addcoin", c11Addr(f[2]))
		return "ok"
	case "update":
		// governance UpdateTokenPairERC20(old, new); f[3] = the generator's expectation of the metadata comparison
		old, nw := c11Addr(f[1]), c11Addr(f[2])
		w.seeContract(nw)
		cctx, write := w.ctx.CacheContext()
		var err error
		pan, _ := safely(func() { _, err = K.UpdateTokenPairERC20(cctx, old, nw) })
		if pan || err != nil {
			return "err"
		}
		write()
		w.govOff[nw], w.offOps[nw], w.offRestarts[nw] = w.govOff[old], w.offOps[old], w.offRestarts[old]
		delete(w.govOff, old)
		delete(w.offOps, old)
		w.updated[nw] = true
		w.noteGov("update", nw)
		return "ok"
	case "tryregcoin":
		d := str(f[1])
		md := banktypes.Metadata{Description: "c11 " + d, Base: d, Name: d, Symbol: "C11", Display: d,
			DenomUnits: []*banktypes.DenomUnit{{Denom: d, Exponent: 0}}}
		cctx, write := w.ctx.CacheContext()
		if _, err := K.RegisterCoin(cctx, md); err != nil {
			if p := w.resolve(w.ctx, d); p.found {
				w.noteGov("tryregcoin", p.addr)
			}
			return "err"
		}
		write()
		r.t.Fatalf("tryregcoin %q: registered although the generator expects a refusal", d)
		return ""
	case "tryregerc20":
		cctx, write := w.ctx.CacheContext()
		if _, err := K.RegisterERC20(cctx, c11Addr(f[1])); err != nil {
			w.noteGov("tryregerc20", c11Addr(f[1]))
			return "err"
		}
		write()
		r.t.Fatalf("tryregerc20 %s: registered although the generator expects a refusal", f[1])
		return ""
	case "deploy":
		addr, err := w.deploy(f[1], c11Addr(f[3]), c11Big(f[4]))
		if err != nil {
			r.t.Fatalf("deploy: %v", err)
		}
		if c11Hex(addr) != f[2] {
			r.t.Fatalf("deploy: contract %s, op says %s", c11Hex(addr), f[2])
		}
		w.seeContract(addr)
		w.kinds[addr] = f[1]
		return "ok"
	case "regerc20":
		c := c11Addr(f[1])
		p, err := K.RegisterERC20(w.ctx, c)
		if err != nil {
			r.t.Fatalf("regerc20: %v", err)
		}
		if p.Denoms[0] != str(f[2]) {
			r.t.Fatalf("regerc20: denom %s, op says %s", p.Denoms[0], str(f[2]))
		}
		w.seeDenom(p.Denoms[0])
		return "ok"
	case "tmint", "ttransfer":
		method := "mint"
		if f[0] == "ttransfer" {
			method = "transfer"
		}
		cctx, write := w.ctx.CacheContext()
		var err error
		pan, _ := safely(func() { _, err = K.CallEVM(cctx, c11ABI, c11Addr(f[2]), c11Addr(f[1]), method, c11Addr(f[3]), c11Big(f[4])) })
		out := "ok"
		if pan || err != nil {
			out = "err"
		} else {
			write()
		}
		r.Count(f[0] + "." + out)
		w.oracleBacking(r, w.current())
		return out
	case "send":
		d := str(f[3])
		msg := &banktypes.MsgSend{FromAddress: sdk.AccAddress(c11Addr(f[1]).Bytes()).String(), ToAddress: sdk.AccAddress(c11Addr(f[2]).Bytes()).String(),
			Amount: sdk.Coins{sdk.Coin{Denom: d, Amount: sdk.NewIntFromBigInt(c11Big(f[4]))}}}
		out := "ok"
		if err := msg.ValidateBasic(); err != nil {
			out = "err"
		} else {
			cctx, write := w.ctx.CacheContext()
			var err error
			pan, _ := safely(func() { _, err = bankkeeper.NewMsgServerImpl(w.app.BankKeeper).Send(sdk.WrapSDKContext(cctx), msg) })
			if pan || err != nil {
				out = "err"
			} else {
				write()
			}
		}
		r.Count("send." + out)
		w.oracleBacking(r, w.current())
		return out
	case "params":
		p := K.GetParams(w.ctx)
		p.EnableAggregate = f[1] == "1"
		K.SetParams(w.ctx, p)
		w.govParam["EnableAggregate"] = f[1] == "1" // SetParams writes every field under its own key
		w.govModuleOff, w.offByKey = f[1] != "1", false
		w.noteGovAll("param")
		return "ok"
	case "ctl":
		who := common.Address{}
		if f[4] != "-" {
			who = c11Addr(f[4])
		}
		m1, m2, xf := c11Big(f[2]).Int64(), c11Big(f[3]).Int64(), c11Big(f[5]).Int64()
		if err := w.pgCtl(c11Addr(f[1]), m1, m2, who, xf); err != nil {
			r.t.Fatalf("ctl: %v", err)
		}
		if w.pgModes == nil {
			w.pgModes = map[common.Address][3]int64{}
		}
		w.pgModes[c11Addr(f[1])] = [3]int64{m1, m2, xf}
		if m1 != 0 || m2 != 0 || xf != 0 {
			r.Count(fmt.Sprintf("pg.read1.%d", m1))
			r.Count(fmt.Sprintf("pg.read2.%d", m2))
			r.Count(fmt.Sprintf("pg.xfer.%d", xf))
		}
		return "ok"
	case "gov":
		// what governance does: a ParameterChangeProposal (subspace "aggregate", key, JSON value) executed by the handler
		// the gov router has under the route "params"
		key := str(f[1])
		val := "false"
		if f[2] == "1" {
			val = "true"
		}
		content := paramproposal.NewParameterChangeProposal("c11", "c11", []paramproposal.ParamChange{paramproposal.NewParamChange(aggtypes.ModuleName, key, val)})
		cctx, write := w.ctx.CacheContext()
		var err error
		pan, _ := safely(func() { err = w.app.GovKeeper.Router().GetRoute(paramproposal.RouterKey)(cctx, content) })
		if pan || err != nil {
			r.t.Fatalf("gov %s=%s: %v", key, val, err)
		}
		write()
		w.govParam[key] = f[2] == "1"
		if key == "EnableAggregate" {
			w.govModuleOff, w.offByKey = f[2] != "1", f[2] != "1"
		}
		r.Count("param.by-key." + key + "." + val)
		w.noteGovAll("param")
		return "ok"
	case "toggle":
		if tp, err := K.ToggleRelay(w.ctx, str(f[1])); err == nil {
			c := tp.GetERC20Contract()
			w.govOff[c] = !w.govOff[c]
			if w.govOff[c] {
				if w.offOps[c] != nil {
					w.offOps[c] = []string{"retoggle"} // off -> on -> off
				} else {
					w.offOps[c] = []string{}
				}
			}
			w.offRestarts[c] = 0
		}
		return "ok"
	case "restart":
		return w.restart(r)
	case "sendenabled":
		p := w.app.BankKeeper.GetParams(w.ctx)
		p = p.SetSendEnabledParam(str(f[1]), f[2] == "1")
		w.app.BankKeeper.SetParams(w.ctx, p)
		return "ok"
	case "suicide":
		c := c11Addr(f[1])
		shared := w.kinds[c] == "mb"
		for _, o := range w.contracts {
			if o != c && w.kinds[o] == w.kinds[c] {
				shared = true // the same byte code is deployed twice (e.g. the target of an UpdateTokenPairERC20)
			}
		}
		if shared {
			// ethermint v0.13 stores code by hash and deletes it on self-destruct, which would wipe the code of every
			// other contract with the same byte code (all MinterBurner tokens). For those the account is turned into a
			// non-contract account instead (the other way to reach the clean-up branch: `!acc.IsContract()`).
			acc := w.app.AccountKeeper.GetAccount(w.ctx, sdk.AccAddress(c.Bytes()))
			ea, ok := acc.(*ethermint.EthAccount)
			if !ok {
				r.t.Fatalf("suicide: %T", acc)
			}
			ea.CodeHash = common.BytesToHash(crypto.Keccak256(nil)).String()
			w.app.AccountKeeper.SetAccount(w.ctx, ea)
			return "ok"
		}
		db := statedb.New(w.ctx, w.app.EvmKeeper, statedb.NewEmptyTxConfig(common.BytesToHash(w.ctx.HeaderHash().Bytes())))
		db.Suicide(c)
		if err := db.Commit(); err != nil {
			r.t.Fatalf("suicide: %v", err)
		}
		return "ok"
	case "block":
		if !w.app.BankKeeper.BlockedAddr(c11Addr(f[1]).Bytes()) {
			r.t.Fatalf("block: %s is not a blocked address of the app", f[1])
		}
		return "ok"
	case "cc":
		senderStr, recvRaw, d := str(f[1]), str(f[3]), str(f[4])
		amt := c11Big(f[5])
		if c11DecField(senderStr) != f[2] {
			r.t.Fatalf("cc: sender %q decodes to %s, op says %s", senderStr, c11DecField(senderStr), f[2])
		}
		m := c11Msg{coin: true, token: d, denom: d, amt: amt, okAddrs: true, named: senderStr}
		if _, b, ok := c11Bech32Decode(senderStr); ok {
			m.sBytes = b
			m.sender = common.BytesToAddress(b)
		} else {
			m.okAddrs = false
		}
		if b, ok := c11HexAddr(recvRaw); ok {
			m.rBytes = b
			m.receiver = common.BytesToAddress(b)
		} else {
			m.okAddrs = false
		}
		msg := &aggtypes.MsgConvertCoin{Coin: sdk.Coin{Denom: d, Amount: sdk.NewIntFromBigInt(amt)}, Receiver: recvRaw, Sender: senderStr}
		return w.deliver(r, m, msg.ValidateBasic, func(ctx sdk.Context) (bool, error) {
			res, err := K.ConvertCoin(sdk.WrapSDKContext(ctx), msg)
			return res == nil, err
		})
	case "ce":
		cRaw, recvStr, sRaw, d := str(f[1]), str(f[3]), str(f[5]), str(f[6])
		amt := c11Big(f[2])
		if c11DecField(recvStr) != f[4] {
			r.t.Fatalf("ce: receiver %q decodes to %s, op says %s", recvStr, c11DecField(recvStr), f[4])
		}
		m := c11Msg{coin: false, token: cRaw, denom: d, amt: amt, okAddrs: true, named: recvStr}
		if _, b, ok := c11Bech32Decode(recvStr); ok {
			m.rBytes = b
			m.receiver = common.BytesToAddress(b)
		} else {
			m.okAddrs = false
		}
		if b, ok := c11HexAddr(sRaw); ok {
			m.sBytes = b
			m.sender = common.BytesToAddress(b)
		} else {
			m.okAddrs = false
		}
		msg := &aggtypes.MsgConvertERC20{ContractAddress: cRaw, Amount: sdk.NewIntFromBigInt(amt), Receiver: recvStr, Sender: sRaw, Denom: d}
		return w.deliver(r, m, msg.ValidateBasic, func(ctx sdk.Context) (bool, error) {
			res, err := K.ConvertERC20(sdk.WrapSDKContext(ctx), msg)
			return res == nil, err
		})
	case "ics":
		return w.ics(r, f)
	case "dump":
		return w.current().text
	}
	r.t.Fatalf("bad op %q", op)
	return ""
}

// restart: the aggregate module's state goes through its genesis (what survives a node restart from an exported
// genesis): ExportGenesis -> JSON -> Validate -> wipe the module's store -> InitGenesis.
func (w *c11World) restart(r *Rec) string {
	K := w.app.AggregateKeeper
	cctx, write := w.ctx.CacheContext()
	var verr error
	pan, msg := safely(func() {
		gs := aggregate.ExportGenesis(cctx, *K)
		bz := w.app.AppCodec().MustMarshalJSON(gs)
		var in aggtypes.GenesisState
		w.app.AppCodec().MustUnmarshalJSON(bz, &in)
		if verr = in.Validate(); verr != nil {
			return
		}
		store := cctx.KVStore(w.app.GetKey(aggtypes.StoreKey))
		var keys [][]byte
		it := store.Iterator(nil, nil)
		for ; it.Valid(); it.Next() {
			keys = append(keys, append([]byte{}, it.Key()...))
		}
		it.Close()
		for _, k := range keys {
			store.Delete(k)
		}
		aggregate.InitGenesis(cctx, *K, w.app.AccountKeeper, in)
	})
	if pan || verr != nil {
		r.Find(Finding{Sig: "C11:restart:genesis-round-trip-failed", What: "the exported aggregate genesis cannot be imported: " + msg + fmt.Sprint(verr),
			Ops: append([]string{}, w.hist...), Obs: "failed", Req: "export / validate / import succeed"})
		return "err"
	}
	write()
	w.noteGovAll("restart")
	r.Count("restart")
	withOff := false
	for c, off := range w.govOff {
		if off && w.pairOf(w.ctx, c).found {
			withOff = true
			w.offRestarts[c]++
		}
	}
	if withOff {
		r.Count("restart.with-disabled-pair")
	}
	if w.govModuleOff {
		r.Count("restart.with-disabled-module")
	}
	return "ok"
}

// governance operations seen by a pair while it is switched off (the oracle's own record)
func (w *c11World) noteGov(op string, c common.Address) {
	if w.govOff[c] {
		w.offOps[c] = append(w.offOps[c], op)
	}
}

func (w *c11World) noteGovAll(op string) {
	for c, off := range w.govOff {
		if off {
			w.offOps[c] = append(w.offOps[c], op)
		}
	}
}

func (w *c11World) lastOffOp(c common.Address) string {
	if o := w.offOps[c]; len(o) > 0 {
		return o[len(o)-1]
	}
	return "toggle"
}

func (w *c11World) distinctOffOps(c common.Address) []string {
	seen := map[string]bool{"toggle": true}
	out := []string{"toggle"}
	for _, o := range w.offOps[c] {
		if !seen[o] {
			seen[o] = true
			out = append(out, o)
		}
	}
	return out
}
