//go:build c03

package verifharness

// C03 — cross-chain value conservation: delivered or refunded, never both.
//
// Three real chains (x/xibc/testing) with real Tendermint light clients of each other, real system contract byte
// code, real msg_server handlers. Every op line is executed on the real chains and (by ./check) on the Lean
// model `TM.World`; after every op the full canonical view of the touched chain is compared, and the property
// oracle (`Conserved`, "delivered xor refunded", "no effect on the destination under an error acknowledgement")
// is evaluated on the real chains' own views, independently of the model.
//
// op language (all numbers decimal; chains 0,1,2 real, 3 = a chain name without client; token ids are local to a
// chain, 0 = native coin; accounts: 0 user, 1 endpoint, 2 packet, 3 agent, 4 execute, 5 relayer (fee recipient), 6, 7 receivers, 8, 9 further senders,
// 10 forwarder, 11 log emitter, 12 callback switch, 13..20 module accounts of the app — gov, fee collector, ibc transfer, bonded pool,
// not-bonded pool, xibc packet module, aggregate, evm — to which the bank refuses to credit the native coin):
//   reset                                         -> ok
//   deploy <chain> <tok>                          -> ok        (new ERC-20 deployed by the endpoint; user approves the endpoint)
//   bind <chain> <tok> <oriChain> <oriTok> <scale> -> ok       (endpoint.bindToken through the aggregate keeper)
//   mint <chain> <tok> <acct> <amt>               -> ok <dump chain>
//   approve <chain> <tok> <acct> <amt>            -> ok <dump chain>    (ERC-20 approve(endpoint, amt) by a keyed account 0|8|9)
//   transfer <chain> <tok> <from> <to> <amt>      -> ok|err <dump chain> (ordinary coin / ERC-20 transfer by a keyed account)
//   send <chain> <sender> <dst> <tok> <amt> <receiver> <feeTok> <feeAmt> <call>   -> ok|err <dump chain>
//        call: n | po | pf | pr | ph | a:<refund>:<receiver>:<dst>:<fee>
//   batch <chain> <acct> <strict 0|1> <leg>+      -> ok|err <dump chain>   (ONE transaction of a keyed account to the forwarder
//        contract: every leg is a CALL frame; leg = A,<tok>,<amt>  (token.approve(endpoint, amt) by the forwarder)
//        | S,<dst>,<tok>,<amt>,<receiver>,<feeTok>,<feeAmt>,<call>  (endpoint.crossChainCall by the forwarder, native coin as value);
//        strict = 1: a failing frame reverts everything)
//   register <chain> <acct> <rank> <chain>:<tag>*  -> ok      (ClientKeeper.RegisterRelayers on <chain>: REPLACES the entry of <acct>;
//        <tag> n = the address string 0x..ee00nn the relayer goes by on that chain; <rank> = position of the entry in the
//        store's iteration order, always (re)computed by the harness)
//   fakelog <chain> <acct> <spec>                 -> ok|err <dump chain>   (a transaction of a keyed account to a contract that is
//        NOT the packet contract and emits LOG1(keccak("PacketSent(bytes)"), abi(packet)): a look-alike; the hook must ignore it.
//        spec = <dst>,<seq n|p|f>,<src s|o>,<tok>,<amt>,<receiver>: destination, sequence = next / next-1 / next+1 of that
//        destination, source name = this chain / another chain; transfer data "amt of tok to receiver". Also a batch leg: L,<spec>)
//   send … <call> cb                              the packet's callback address is the switch contract (account 12)
//   cbset <chain> <0|1>                           -> ok        (flip the switch: while on, every callback reverts)
//   restart <chain> | restartapp <chain>          -> ok <dump chain>   (export -> import of the xibc module / the whole app)
//   simrecv … | simack …                          -> ok|err <dump>     (the relay transaction on a dropped context: BaseApp.Simulate)
//   plant <chain> <dst> <n>                       -> ok <dump chain>   (send counter of an untouched path set to n)
//   mint … -> ok|err (err: the total supply would pass 2^256-1); all amounts are uint256 values
//   (see c03_restart_test.go)
//   recv <src> <dst> <seq> [forge] [by<acct>]      (the relay messages are signed by account 0, 8 or 9; light clients are
//   ack  <src> <dst> <seq> [forge] [by<acct>]       updated by a dedicated account that no registry op touches)
//   recv <src> <dst> <seq> [forge]                -> ok code=<ack code>|err <dump dst>
//   ack  <src> <dst> <seq> [forge]                -> ok|err <dump src>

import (
	"bytes"
	"fmt"
	"math/big"
	"sort"
	"strconv"
	"strings"
	"testing"

	sdk "github.com/cosmos/cosmos-sdk/types"
	"github.com/ethereum/go-ethereum/common"

	evm "github.com/tharsis/ethermint/x/evm/types"

	stakingcontract "github.com/teleport-network/teleport/syscontracts/staking"
	agentcontract "github.com/teleport-network/teleport/syscontracts/xibc_agent"
	endpointcontract "github.com/teleport-network/teleport/syscontracts/xibc_endpoint"
	packetcontract "github.com/teleport-network/teleport/syscontracts/xibc_packet"
	packettypes "github.com/teleport-network/teleport/x/xibc/core/packet/types"
)

// per packet bookkeeping of the ORACLE (from observations of the real chains only)
type c03Obs struct {
	src, dst   int
	seq        uint64
	call       string // call kind of the op that created it (mechanism tag for finding signatures)
	token      string // transfer token (lower-case hex address on src), "" if no transfer
	oriToken   string
	amount     *big.Int
	received   bool
	ackCode    uint64
	dstEffect  bool // the destination's token / contract views changed in the recv step
	acked      bool
	refunds    int // number of ack steps in which a refund of this packet was observed on src
	fromNested bool
	feeTok     common.Address // relay fee escrowed in the packet contract at send time
	feeAmt     *big.Int
	feePaid    int // ack steps in which the fee left the escrow towards the relayer
	regAtRecv  int // registry version of the SOURCE chain when the destination wrote the acknowledgement
	stuck      bool
	cb         bool // callback address = the switch contract
	cbRejected int  // genuine acknowledgement deliveries that failed because the callback contract reverted
	lostCommit bool // its commitment disappeared while it was not acknowledged (reported once)
	feeBlocked int  // … that failed because the relay fee (native coin) could not be credited to a blocked module account
}

type c03Harness struct {
	r    *Rec
	w    *c03World
	hist []string
	obs  map[string]*c03Obs
	keys []string // creation order
	// (pair, token) triples whose conservation equation is already broken in this history: only the step that
	// breaks it is reported (with that step's mechanism), later steps on the same triple are consequences
	brokenEq map[string]bool
	regVersion [c03NChains]int // number of registry changes on a chain after the default registration
	// sequences of every path that the dump looks at: every value the path's next-send counter has had (counters can be
	// planted at 2^63 and above, so "1 .. next" is not a loop)
	seen     [c03NChains]map[int][]uint64
	switchOn [c03NChains]bool // state of the callback contract's switch (as set by the `cbset` ops)
	restarts [c03NChains]int
	planted  map[[2]int]uint64 // paths whose send counter was planted before any traffic, and where
	lastSim  string            // the relay op (without the "sim" prefix) that the previous op ran on a dropped context
	lastSimOK bool
}

func (h *c03Harness) name(i int) string { return c03ChainName(i) }

func (h *c03Harness) tokAddr(c, t int) (common.Address, bool) {
	a, ok := h.w.tok[c][t]
	return a, ok
}

// c03Big parses a uint256 value of the op language (go-ethereum's ABI encoder silently wraps anything larger)
func c03Big(s string) *big.Int {
	v, ok := new(big.Int).SetString(s, 10)
	if !ok || v.Sign() < 0 || v.BitLen() > 256 {
		panic("not a uint256: " + s)
	}
	return v
}

func c03Atoi(s string) int {
	n, err := strconv.Atoi(s)
	if err != nil {
		panic("bad number " + s)
	}
	return n
}

// ---- canonical dump of one chain (mirrors TM.Driver.C03.dump) ------------------------------------

func (h *c03Harness) dsts(i int) []int {
	var d []int
	for j := 0; j <= c03Ghost; j++ {
		if j != i {
			d = append(d, j)
		}
	}
	return d
}

func (h *c03Harness) nextSeq(i, d int) uint64 { return h.w.nextSeq(i, h.name(d)) }

// noteSeqs records the current next-send counters of every path (gaps of up to 64 are filled: a batch commits several)
func (h *c03Harness) noteSeqs() {
	for i := 0; i < c03NChains; i++ {
		if h.seen[i] == nil {
			h.seen[i] = map[int][]uint64{}
		}
		for _, d := range h.dsts(i) {
			l := h.seen[i][d]
			if len(l) == 0 {
				l = []uint64{1}
			}
			n := h.nextSeq(i, d)
			last := l[len(l)-1]
			if n > last {
				if n-last <= 64 {
					for q := last; q < n; { // (n may be the largest uint64)
						q++
						l = append(l, q)
					}
				} else {
					l = append(l, n)
				}
			}
			h.seen[i][d] = l
		}
	}
}

func (h *c03Harness) seqsOf(s, d int) []uint64 {
	if s == c03Ghost {
		return nil
	}
	return h.seen[s][d]
}

type c03View struct {
	tokenPart  string // balances, supplies, outTokens, bindings, sequences, ack status, fees, commitments
	keeperPart string // receipts, acks
}

func (v c03View) String() string {
	s := v.tokenPart
	if v.keeperPart != "" {
		if s != "" {
			s += ","
		}
		s += v.keeperPart
	}
	if s == "" {
		return "-"
	}
	return s
}

func (h *c03Harness) view(i int) c03View {
	w := h.w
	h.noteSeqs()
	var parts []string
	ntok := len(w.tok[i])
	for t := 0; t < ntok; t++ {
		for a := 0; a < c03NAcc; a++ {
			if t == 0 && a >= c03AccGov {
				continue // the native balances of the module accounts move with every block (fees, rewards): not part of the dump
			}
			if b := w.balance(i, w.tok[i][t], w.acc[a]); b.Sign() != 0 {
				parts = append(parts, fmt.Sprintf("b:%d.%d=%s", t, a, b))
			}
		}
	}
	for t := 1; t < ntok; t++ {
		for _, a := range []int{c03AccAgent, c03AccU8, c03AccU9, c03AccFwd} {
			if l := w.allowance(i, w.tok[i][t], w.acc[a]); l.Sign() != 0 {
				parts = append(parts, fmt.Sprintf("l:%d.%d=%s", t, a, l))
			}
		}
	}
	for t := 1; t < ntok; t++ {
		if s := w.supply(i, w.tok[i][t]); s.Sign() != 0 {
			parts = append(parts, fmt.Sprintf("s:%d=%s", t, s))
		}
	}
	for t := 0; t < ntok; t++ {
		for _, d := range h.dsts(i) {
			if o := w.outTokens(i, w.tok[i][t], h.name(d)); o.Sign() != 0 {
				parts = append(parts, fmt.Sprintf("o:%d.%d=%s", t, d, o))
			}
		}
	}
	for t := 0; t < ntok; t++ {
		for _, d := range h.dsts(i) {
			if b := w.binding(i, w.tok[i][t], h.name(d)); b.Amount != nil && b.Amount.Sign() != 0 {
				parts = append(parts, fmt.Sprintf("n:%d.%d=%s", t, d, b.Amount))
			}
		}
	}
	next := map[int]uint64{}
	for _, d := range h.dsts(i) {
		next[d] = h.nextSeq(i, d)
		if next[d] != 1 {
			parts = append(parts, fmt.Sprintf("q:%d=%d", d, next[d]))
		}
	}
	for _, d := range h.dsts(i) {
		for _, s := range h.seqsOf(i, d) {
			if k := w.ackStatus(i, h.name(d), s); k != 0 {
				parts = append(parts, fmt.Sprintf("k:%d.%d=%d", d, s, k))
			}
		}
	}
	for _, d := range h.dsts(i) {
		for _, s := range h.seqsOf(i, d) {
			ft, fa := w.packetFee(i, h.name(d), s)
			if fa.Sign() != 0 {
				parts = append(parts, fmt.Sprintf("f:%d.%d=%d:%s", d, s, h.tokID(i, ft), fa))
			}
		}
	}
	for _, d := range h.dsts(i) {
		for _, s := range h.seqsOf(i, d) {
			if d != c03Ghost && w.hasCommitment(i, d, s) {
				parts = append(parts, fmt.Sprintf("c:%d.%d", d, s))
			}
		}
	}
	var kp []string
	for _, s := range h.dsts(i) {
		for _, q := range h.seqsOf(s, i) {
			if s != c03Ghost && w.hasReceipt(s, i, q) {
				kp = append(kp, fmt.Sprintf("r:%d.%d", s, q))
			}
		}
	}
	for _, s := range h.dsts(i) {
		for _, q := range h.seqsOf(s, i) {
			if s == c03Ghost {
				continue
			}
			if hash := w.ackHash(s, i, q); len(hash) > 0 {
				code := uint64(998)
				if rec := w.packets[c03Key(s, i, q)]; rec != nil && rec.ack != nil && bytes.Equal(packettypes.CommitAcknowledgement(rec.ack), hash) {
					var a packettypes.Acknowledgement
					if a.ABIDecode(rec.ack) == nil {
						code = a.Code
					}
				}
				kp = append(kp, fmt.Sprintf("a:%d.%d=%d", s, q, code))
			}
		}
	}
	return c03View{tokenPart: strings.Join(parts, ","), keeperPart: strings.Join(kp, ",")}
}

func (h *c03Harness) tokID(i int, a common.Address) int {
	for t, x := range h.w.tok[i] {
		if x == a {
			return t
		}
	}
	return 999
}

// ---- the ORACLE ---------------------------------------------------------------------------------

func (h *c03Harness) find(sig, what, obs, req string) {
	h.r.Count("oracle.finding")
	h.r.Find(Finding{Sig: sig, What: what, Ops: append([]string{}, h.hist...), Obs: obs, Req: req})
}

// deliveredOK: the destination wrote a success acknowledgement for the packet (read from the destination's store).
func (h *c03Harness) deliveredOK(o *c03Obs) bool {
	hash := h.w.ackHash(o.src, o.dst, o.seq)
	if len(hash) == 0 {
		return false
	}
	rec := h.w.packets[c03Key(o.src, o.dst, o.seq)]
	if rec == nil || rec.ack == nil || !bytes.Equal(packettypes.CommitAcknowledgement(rec.ack), hash) {
		return false
	}
	var a packettypes.Acknowledgement
	return a.ABIDecode(rec.ack) == nil && a.Code == 0
}

// conserved evaluates, on the real chains' own views, for the ordered pair (A,B) and every token T of A:
//   outTokens_A[T][B] = bindings_B[trace_B(A,T)/A].amount + in flight A->B (T) + in flight back B->A (voucher)
func (h *c03Harness) conserved(A, B int, mech string) {
	w := h.w
	for t := 0; t < len(w.tok[A]); t++ {
		T := w.tok[A][t]
		out := w.outTokens(A, T, h.name(B))
		var tr common.Address
		if B != c03Ghost { // a chain name without client holds nothing: escrow towards it must equal what is in flight (nothing)
			tr = w.callView(B, endpointcontract.EndpointContract.ABI, endpointcontract.EndpointContractAddress, "bindingTraces",
				h.name(A)+"/"+strings.ToLower(T.String()))[0].(common.Address)
		}
		minted := big.NewInt(0)
		k := big.NewInt(1) // 10^scale: one origin unit = k bound units; bindings.amount is kept in bound units
		hasTrace := tr != (common.Address{})
		if hasTrace {
			b := w.binding(B, tr, h.name(A))
			if b.Amount != nil {
				minted = b.Amount
			}
			k = new(big.Int).Exp(big.NewInt(10), big.NewInt(int64(b.Scale)), nil)
		}
		fl, back := big.NewInt(0), big.NewInt(0)
		for _, k := range h.keys {
			o := h.obs[k]
			if o.amount == nil {
				continue
			}
			if o.src == A && o.dst == B && o.oriToken == "" && o.token == strings.ToLower(T.String()) && w.hasCommitment(A, B, o.seq) && (B == c03Ghost || !h.deliveredOK(o)) {
				fl.Add(fl, o.amount)
			}
			if hasTrace && o.src == B && o.dst == A && o.oriToken != "" && o.token == strings.ToLower(tr.String()) && w.hasCommitment(B, A, o.seq) && !h.deliveredOK(o) {
				back.Add(back, o.amount)
			}
		}
		// k·escrowed = minted (bound units) + k·(in flight + in flight back)
		lhs := new(big.Int).Mul(k, out)
		rhs := new(big.Int).Add(minted, new(big.Int).Mul(k, new(big.Int).Add(fl, back)))
		eq := fmt.Sprintf("%d/%d/%d", A, B, t)
		if lhs.Cmp(rhs) != 0 && !h.brokenEq[eq] {
			h.brokenEq[eq] = true
			h.find("C03:not-conserved:"+mech, fmt.Sprintf("pair %d->%d token %d (1 unit = %s bound units): escrowed %s ≠ minted %s + in flight %s + in flight back %s", A, B, t, k, out, minted, fl, back),
				"k*outTokens="+lhs.String(), "= "+rhs.String())
		}
	}
}

// feeConserved: on chain S, for every token, the packet contract's balance equals the relay fees of exactly the
// packets whose commitment is still there (escrowed at send, paid to the relayer at the acknowledgement, never
// lost, never paid for a packet that was not acknowledged).
func (h *c03Harness) feeConserved(S int, mech string) {
	w := h.w
	for t := 0; t < len(w.tok[S]); t++ {
		F := w.tok[S][t]
		want := big.NewInt(0)
		for _, k := range h.keys {
			o := h.obs[k]
			if o.src == S && o.feeAmt != nil && o.feeTok == F && (o.dst == c03Ghost || w.hasCommitment(S, o.dst, o.seq)) {
				want.Add(want, o.feeAmt)
			}
		}
		got := w.balance(S, F, w.acc[c03AccPacket])
		eq := fmt.Sprintf("fee/%d/%d", S, t)
		if got.Cmp(want) != 0 && !h.brokenEq[eq] {
			h.brokenEq[eq] = true
			h.find("C03:fee-escrow-mismatch:"+mech, fmt.Sprintf("chain %d token %d: packet contract holds %s, fees of unacknowledged packets sum to %s", S, t, got, want), got.String(), want.String())
		}
	}
}

// nextSeqs: the keeper's next send sequence of chain c towards every real destination
func (h *c03Harness) nextSeqs(c int) map[int]uint64 {
	m := map[int]uint64{}
	for d := 0; d < c03NChains; d++ {
		if d != c {
			m[d] = h.w.ch[c].App.XIBCKeeper.PacketKeeper.GetNextSequenceSend(h.w.ch[c].GetContext(), h.name(c), h.name(d))
		}
	}
	return m
}

// fakeLogData: ABI-encoded data of a PacketSent(bytes) event for a look-alike packet (spec = dst, seq n|p|f, src s|o, tok, amt, receiver)
func (h *c03Harness) fakeLogData(c, sender int, g []string) []byte {
	w := h.w
	d, t, rcv := c03Atoi(g[0]), c03Atoi(g[3]), c03Atoi(g[5])
	amt := c03Big(g[4])
	seq := uint64(1)
	if d != c03Ghost && d != c {
		seq = w.ch[c].App.XIBCKeeper.PacketKeeper.GetNextSequenceSend(w.ch[c].GetContext(), h.name(c), h.name(d))
	}
	switch g[1] {
	case "p":
		if seq > 1 {
			seq--
		}
	case "f":
		seq++
	}
	src := h.name(c)
	if g[2] == "o" {
		src = h.name((c + 1) % c03NChains)
	}
	ori := ""
	if b := w.binding(c, w.tok[c][t], h.name(d)); b.Bound {
		ori = b.OriToken
	}
	td := packettypes.TransferData{Receiver: strings.ToLower(w.acc[rcv].String()), Amount: common.LeftPadBytes(amt.Bytes(), 32),
		Token: strings.ToLower(w.tok[c][t].String()), OriToken: ori}
	tdb, err := td.ABIPack()
	if err != nil {
		h.r.t.Fatal(err)
	}
	p := packettypes.Packet{SrcChain: src, DstChain: h.name(d), Sequence: seq, Sender: strings.ToLower(w.acc[sender].String()),
		TransferData: tdb, CallData: []byte{}, CallbackAddress: common.Address{}.String(), FeeOption: 0}
	pb, err := p.ABIPack()
	if err != nil {
		h.r.t.Fatal(err)
	}
	data, err := packetcontract.PacketContract.ABI.Events["PacketSent"].Inputs.Pack(pb)
	if err != nil {
		h.r.t.Fatal(err)
	}
	return data
}

// checkCommitmentsBacked (dual of checkPacketSentLogs): every commitment that a successful transaction added on the source
// must be backed by a PacketSent event of the PACKET CONTRACT in that receipt — the endpoint escrows / burns exactly when it
// makes the packet contract emit one; a commitment without it is a packet with no escrow or burn behind it.
func (h *c03Harness) checkCommitmentsBacked(c int, logs []*evm.Log, before map[int]uint64, mech string) {
	ev := packetcontract.PacketContract.ABI.Events["PacketSent"]
	genuine := map[string]bool{}
	for _, l := range logs {
		if common.HexToAddress(l.Address) != packetcontract.PacketContractAddress || len(l.Topics) == 0 || common.HexToHash(l.Topics[0]) != ev.ID {
			continue
		}
		if vals, err := packetcontract.PacketContract.ABI.Unpack("PacketSent", l.Data); err == nil {
			genuine[string(packettypes.CommitAcknowledgement(vals[0].([]byte)))] = true // sha256 of the packet bytes = its commitment
		}
	}
	after := h.nextSeqs(c)
	for d, b := range before {
		for q := b; q < after[d]; q++ {
			cm := h.w.ch[c].App.XIBCKeeper.PacketKeeper.GetPacketCommitment(h.w.ch[c].GetContext(), h.name(c), h.name(d), q)
			if len(cm) > 0 && !genuine[string(cm)] {
				h.find("C03:commitment-without-escrow:"+mech, fmt.Sprintf("chain %d committed packet %d->%d seq %d in a transaction whose receipt has no PacketSent event of the packet contract for it: no escrow or burn stands behind it", c, c, d, q),
					fmt.Sprintf("commitment %x", cm), "no commitment")
			}
		}
	}
}

// checkPacketSentLogs: every PacketSent event in the receipt of a successful transaction (the endpoint has already
// escrowed / burnt for it) must have its commitment in the keeper's store — escrow without commitment can end neither
// delivered nor refunded. Returns the number of PacketSent events.
func (h *c03Harness) checkPacketSentLogs(c int, logs []*evm.Log, mech string) int {
	ev := packetcontract.PacketContract.ABI.Events["PacketSent"]
	n := 0
	for _, l := range logs {
		if common.HexToAddress(l.Address) != packetcontract.PacketContractAddress || len(l.Topics) == 0 || common.HexToHash(l.Topics[0]) != ev.ID {
			continue
		}
		n++
		vals, err := packetcontract.PacketContract.ABI.Unpack("PacketSent", l.Data)
		if err != nil {
			h.r.t.Fatalf("PacketSent unpack: %v", err)
		}
		var p packettypes.Packet
		if err := p.ABIDecode(vals[0].([]byte)); err != nil {
			h.r.t.Fatalf("PacketSent packet: %v", err)
		}
		want, _ := packettypes.CommitPacket(&p)
		got := h.w.ch[c].App.XIBCKeeper.PacketKeeper.GetPacketCommitment(h.w.ch[c].GetContext(), p.SrcChain, p.DstChain, p.Sequence)
		if !bytes.Equal(want, got) {
			h.find("C03:escrow-without-commitment:"+mech, fmt.Sprintf("PacketSent event #%d of a successful transaction (%s -> %s seq %d): the endpoint escrowed/burnt for it but the keeper holds no matching commitment", n, p.SrcChain, p.DstChain, p.Sequence),
				fmt.Sprintf("commitment %x", got), fmt.Sprintf("commitment %x", want))
		}
	}
	return n
}

func (h *c03Harness) conservedAround(x int, mech string) {
	h.feeConserved(x, mech)
	for y := 0; y < c03NChains; y++ {
		if y != x {
			h.conserved(x, y, mech)
			h.conserved(y, x, mech)
		}
	}
	h.conserved(x, c03Ghost, mech)
}

// ---- executing one op -----------------------------------------------------------------------------

func (h *c03Harness) callData(dst int, spec string) (contract string, data []byte) {
	w := h.w
	switch {
	case spec == "n":
		return "", nil
	case spec == "po": // succeeds, no state change: packet.chainName()
		d, _ := packetcontract.PacketContract.ABI.Pack("chainName")
		return strings.ToLower(packetcontract.PacketContractAddress.String()), d
	case spec == "pf": // fails inside the EVM: endpoint.bindToken is reserved to the aggregate module
		d, _ := endpointcontract.EndpointContract.ABI.Pack("bindToken", common.HexToAddress("0x01"), "x", "y", uint8(0))
		return strings.ToLower(endpointcontract.EndpointContractAddress.String()), d
	case spec == "pr": // malformed contract address: Execute reverts the whole onRecvPacket call
		d, _ := packetcontract.PacketContract.ABI.Pack("chainName")
		return "0x12", d
	case spec == "ph": // EVM call succeeds, staking hook fails afterwards (invalid validator)
		d, _ := stakingcontract.StakingContract.ABI.Pack("delegate", "notavalidator", big.NewInt(1))
		return strings.ToLower(stakingcontract.StakingAddress.String()), d
	case strings.HasPrefix(spec, "a:"):
		f := strings.Split(spec, ":")
		d, err := agentcontract.AgentContract.ABI.Pack("send", w.acc[c03Atoi(f[1])], strings.ToLower(w.acc[c03Atoi(f[2])].String()), h.name(c03Atoi(f[3])), big.NewInt(int64(c03Atoi(f[4]))))
		if err != nil {
			panic(err)
		}
		return strings.ToLower(agentcontract.AgentContractAddress.String()), d
	}
	panic("bad call spec " + spec)
}

func c03Min(a, b uint64) uint64 {
	if a < b {
		return a
	}
	return b
}

// trailing flags of a relay op: `forge`, `by<acct>`
func c03RelayFlags(rest []string) (forge bool, signer int) {
	for _, t := range rest {
		if t == "forge" {
			forge = true
		} else if strings.HasPrefix(t, "by") {
			signer = c03Atoi(t[2:])
		}
	}
	return
}

// canonRegister fills in the store-order rank of the registered account (it depends on this world's random keys).
func (h *c03Harness) canonRegister(op string) string {
	f := strings.Fields(op)
	f[3] = strconv.Itoa(h.w.rank(c03Atoi(f[2])))
	return strings.Join(f, " ")
}

// defaultRegistry: on every chain p account 0 relays for every other chain q and goes by W(p,q) there; account 5 is
// registered with W(q,p) and is therefore the one to be paid for acknowledgements written on q.
func (h *c03Harness) defaultRegistry() []string {
	var ops []string
	for p := 0; p < c03NChains; p++ {
		var a, b []string
		for q := 0; q < c03NChains; q++ {
			if q != p {
				a = append(a, fmt.Sprintf("%d:%d", q, p*16+q))
				b = append(b, fmt.Sprintf("%d:%d", q, q*16+p))
			}
		}
		ops = append(ops, fmt.Sprintf("register %d %d 0 %s", p, c03AccUser, strings.Join(a, " ")), fmt.Sprintf("register %d %d 0 %s", p, c03AccRelayer, strings.Join(b, " ")))
	}
	return ops
}

func c03Mech(spec string) string {
	if strings.HasPrefix(spec, "a:") {
		return "agent"
	}
	return spec
}

func (h *c03Harness) observeNew(call string, nested bool) {
	for k, rec := range h.w.packets {
		if _, ok := h.obs[k]; ok {
			continue
		}
		var s, d int
		var q uint64
		fmt.Sscanf(k, "%d/%d/%d", &s, &d, &q)
		o := &c03Obs{src: s, dst: d, seq: q, call: call, fromNested: nested}
		if len(rec.packet.TransferData) > 0 {
			var td packettypes.TransferData
			if err := td.ABIDecode(rec.packet.TransferData); err != nil {
				h.r.t.Fatalf("transfer data: %v", err)
			}
			o.token, o.oriToken, o.amount = strings.ToLower(td.Token), strings.ToLower(td.OriToken), new(big.Int).SetBytes(td.Amount)
		}
		o.feeTok, o.feeAmt = h.w.packetFee(s, h.name(d), q)
		o.cb = strings.EqualFold(rec.packet.CallbackAddress, h.w.acc[c03AccSwitch].String())
		h.obs[k] = o
		h.keys = append(h.keys, k)
	}
	sort.Strings(h.keys[:0]) // keys stay in creation order; nothing to sort
}

// isBlocked: the bank of chain i refuses to credit the account (asked of the real app)
func (h *c03Harness) isBlocked(i int, a common.Address) bool {
	return h.w.ch[i].App.BankKeeper.BlockedAddr(sdk.AccAddress(a.Bytes()))
}

// valueSnapshot: by part — storage and code digests of every contract of the world, native balances of every account and
// contract (the module accounts' native balances move with every block and are left out)
func (h *c03Harness) valueSnapshot(i int) map[string]string {
	w := h.w
	ctx := w.ch[i].GetContext()
	snap := map[string]string{}
	contracts := map[string]common.Address{"packet": w.acc[c03AccPacket], "endpoint": w.acc[c03AccEndpoint], "execute": w.acc[c03AccExecute],
		"agent": w.acc[c03AccAgent], "forwarder": w.acc[c03AccFwd], "switch": w.acc[c03AccSwitch], "emitter": w.acc[c03AccEmitter]}
	for t, a := range w.tok[i] {
		if t != 0 {
			contracts[fmt.Sprintf("token%d", t)] = a
		}
	}
	for name, addr := range contracts {
		var slots []string
		w.ch[i].App.EvmKeeper.ForEachStorage(ctx, addr, func(k, v common.Hash) bool {
			slots = append(slots, k.Hex()[58:]+"="+strings.TrimLeft(v.Hex()[2:], "0"))
			return true
		})
		sort.Strings(slots)
		snap["storage."+name] = strings.Join(slots, ";")
	}
	for a := 0; a < c03AccGov; a++ {
		snap[fmt.Sprintf("native.%d", a)] = w.balance(i, common.Address{}, w.acc[a]).String()
	}
	return snap
}

func c03SnapDiff(pre, post map[string]string) string {
	var d []string
	for k, v := range pre {
		if post[k] != v {
			d = append(d, fmt.Sprintf("%s: %s", k, c03Clip(c03SlotDiff(v, post[k]))))
		}
	}
	for k := range post {
		if _, ok := pre[k]; !ok {
			d = append(d, k+": new")
		}
	}
	sort.Strings(d)
	return strings.Join(d, " | ")
}

// c03SlotDiff: the slots (or the value) that differ between two snapshot parts
func c03SlotDiff(a, b string) string {
	if !strings.Contains(a, "=") && !strings.Contains(b, "=") {
		return a + " became " + b
	}
	am, bm := map[string]string{}, map[string]string{}
	for _, x := range strings.Split(a, ";") {
		if kv := strings.SplitN(x, "=", 2); len(kv) == 2 {
			am[kv[0]] = kv[1]
		}
	}
	for _, x := range strings.Split(b, ";") {
		if kv := strings.SplitN(x, "=", 2); len(kv) == 2 {
			bm[kv[0]] = kv[1]
		}
	}
	var out []string
	for k, v := range am {
		if bm[k] != v {
			out = append(out, fmt.Sprintf("slot ..%s %s=>%s", k, v, bm[k]))
		}
	}
	for k, v := range bm {
		if _, ok := am[k]; !ok {
			out = append(out, fmt.Sprintf("slot ..%s (new) %s", k, v))
		}
	}
	sort.Strings(out)
	return strings.Join(out, ", ")
}

// relayBytes: the packet (and acknowledgement) bytes a relay op carries — the recorded ones, forged variants, or made-up
// ones for a packet that was never sent
func (h *c03Harness) relayBytes(isAck bool, s, d int, q uint64, forge bool) (pkt, ack []byte) {
	w := h.w
	rec := w.packets[c03Key(s, d, q)]
	if rec != nil {
		pkt = rec.bytes
		if isAck {
			ack = rec.ack
		} else if forge { // same packet with an altered sender: commitment proof cannot verify
			p := rec.packet
			p.Sender = p.Sender + "00"
			pkt, _ = p.ABIPack()
		}
	} else {
		p := packettypes.Packet{SrcChain: h.name(s), DstChain: h.name(d), Sequence: q, Sender: strings.ToLower(w.acc[0].String()), CallData: []byte{1}, CallbackAddress: common.Address{}.String()}
		pkt, _ = p.ABIPack()
	}
	if isAck && (ack == nil || forge) {
		// fabricated acknowledgement: the opposite outcome of the genuine one (or a success if there is none)
		code := uint64(0)
		if ack != nil {
			var a packettypes.Acknowledgement
			_ = a.ABIDecode(ack)
			if a.Code == 0 {
				code = 1
			}
		}
		ack, _ = packettypes.NewAcknowledgement(code, []byte{}, "", w.relayerTag(d, s), 0).ABIPack()
	}
	return
}

// countAmountClasses: boundary classes of the amounts of a successful send (floors)
func (h *c03Harness) countAmountClasses(prefix string, vals ...*big.Int) {
	seen := map[string]bool{}
	for _, v := range vals {
		if cl := c03AmountClass(v); cl != "" && !seen[cl] {
			seen[cl] = true
			h.r.Count(prefix + ".amount." + cl)
		}
	}
}

func c03AmountClass(v *big.Int) string {
	switch n := v.BitLen(); {
	case n > 255:
		return "2^255+"
	case n > 128:
		return "2^128+"
	case n > 64:
		return "2^64+"
	case n > 63:
		return "2^63+"
	case n > 53:
		return "2^53+"
	case n > 32:
		return "2^32+"
	}
	return ""
}

// apply executes one op. A relay op that directly follows its own dry run (`sim…` with the same arguments) must come to the
// verdict the dry run came to: the discarded execution may not influence it (and the dry run ran on the same state).
func (h *c03Harness) apply(op string) string {
	out := h.apply0(op)
	switch {
	case strings.HasPrefix(op, "sim"):
		h.lastSim, h.lastSimOK = op[3:], strings.HasPrefix(out, "ok")
	case op == h.lastSim:
		if ok := strings.HasPrefix(out, "ok"); ok != h.lastSimOK {
			h.find("C03:discarded-execution-changed-verdict:"+strings.Fields(op)[0], fmt.Sprintf("`%s`: executed on a dropped context it was accepted=%v, delivered right afterwards accepted=%v", op, h.lastSimOK, ok),
				fmt.Sprint(ok), fmt.Sprint(h.lastSimOK))
		} else {
			h.r.Count("sim.verdict-confirmed")
		}
		h.lastSim = ""
	default:
		h.lastSim = ""
	}
	return out
}

func (h *c03Harness) apply0(op string) string {
	f := strings.Fields(op)
	w := h.w
	r := h.r
	if f[0] == "reset" {
		h.w = newC03World(r.t)
		h.hist = []string{op}
		h.obs = map[string]*c03Obs{}
		h.keys = nil
		h.brokenEq = map[string]bool{}
		h.regVersion = [c03NChains]int{}
		h.seen = [c03NChains]map[int][]uint64{}
		h.switchOn = [c03NChains]bool{}
		h.restarts = [c03NChains]int{}
		h.planted = map[[2]int]uint64{}
		return "ok"
	}
	h.hist = append(h.hist, op)
	switch f[0] {
	case "mode":
		return "ok"
	case "deploy":
		c, t := c03Atoi(f[1]), c03Atoi(f[2])
		addr := w.deployERC20(c)
		w.tok[c][t] = addr
		appr, _ := w.erc20().Pack("approve", endpointcontract.EndpointContractAddress, new(big.Int).Lsh(big.NewInt(1), 200))
		if failed, e, _ := w.sendTx(c, addr, big.NewInt(0), appr); failed {
			r.t.Fatalf("approve failed: %s", e)
		}
		w.coord.CommitBlock(w.ch[c])
		return "ok"
	case "bind":
		c, v, oc, ot, sc := c03Atoi(f[1]), c03Atoi(f[2]), c03Atoi(f[3]), c03Atoi(f[4]), c03Atoi(f[5])
		if err := w.ch[c].App.AggregateKeeper.RegisterERC20Trace(w.ch[c].GetContext(), w.tok[c][v], strings.ToLower(w.tok[oc][ot].String()), h.name(oc), uint8(sc)); err != nil {
			r.t.Fatalf("bind failed: %v", err)
		}
		w.coord.CommitBlock(w.ch[c])
		return "ok"
	case "mint":
		c, t, a := c03Atoi(f[1]), c03Atoi(f[2]), c03Atoi(f[3])
		amt := c03Big(f[4])
		ok := w.mintERC20(c, w.tok[c][t], w.acc[a], amt)
		w.coord.CommitBlock(w.ch[c])
		if !ok {
			r.Count("mint.err.supply-overflow")
			return "err " + h.view(c).String()
		}
		return "ok " + h.view(c).String()
	case "approve":
		c, t, a := c03Atoi(f[1]), c03Atoi(f[2]), c03Atoi(f[3])
		amt := c03Big(f[4])
		data, _ := w.erc20().Pack("approve", endpointcontract.EndpointContractAddress, amt)
		if failed, e, _ := w.sendTxAs(c, a, w.tok[c][t], big.NewInt(0), data); failed {
			r.t.Fatalf("approve failed: %s", e)
		}
		w.coord.CommitBlock(w.ch[c])
		r.Count("approve")
		return "ok " + h.view(c).String()
	case "transfer":
		c, t, a, b := c03Atoi(f[1]), c03Atoi(f[2]), c03Atoi(f[3]), c03Atoi(f[4])
		amt := c03Big(f[5])
		var failed bool
		if t == 0 {
			failed, _, _ = w.sendTxAs(c, a, w.acc[b], amt, nil)
		} else {
			data, _ := w.erc20().Pack("transfer", w.acc[b], amt)
			failed, _, _ = w.sendTxAs(c, a, w.tok[c][t], big.NewInt(0), data)
		}
		w.coord.CommitBlock(w.ch[c])
		h.feeConserved(c, "transfer")
		if failed {
			return "err " + h.view(c).String()
		}
		return "ok " + h.view(c).String()
	case "send":
		c, snd, d, t := c03Atoi(f[1]), c03Atoi(f[2]), c03Atoi(f[3]), c03Atoi(f[4])
		f = append([]string{f[0], f[1]}, f[3:]...) // the remaining fields as before
		amt := c03Big(f[4])
		rcv, ft := c03Atoi(f[5]), c03Atoi(f[6])
		fa := c03Big(f[7])
		before := h.view(c)
		contract, cd := h.callData(d, f[8])
		cb := len(f) > 9 && f[9] == "cb"
		cbAddr := common.Address{}
		if cb {
			cbAddr = w.acc[c03AccSwitch]
		}
		data := packettypes.CrossChainData{DstChain: h.name(d), TokenAddress: w.tok[c][t], Receiver: strings.ToLower(w.acc[rcv].String()), Amount: amt,
			ContractAddress: contract, CallData: cd, CallbackAddress: cbAddr, FeeOption: 0}
		fee := packettypes.Fee{TokenAddress: w.tok[c][ft], Amount: fa}
		payload, err := endpointcontract.EndpointContract.ABI.Pack("crossChainCall", data, fee)
		if err != nil {
			r.t.Fatal(err)
		}
		value := big.NewInt(0)
		if t == 0 {
			value.Add(value, amt)
		}
		if ft == 0 {
			value.Add(value, fa)
		}
		var failed bool
		sendSeqBefore := h.nextSeqs(c)
		var sendLogs []*evm.Log
		pan, msg := safely(func() {
			var events sdk.Events
			failed, _, events, sendLogs = w.sendTxLogs(c, snd, endpointcontract.EndpointContractAddress, value, payload)
			if !failed {
				w.notePackets(events.ToABCIEvents())
			}
		})
		if pan {
			r.t.Fatalf("panic in send: %s", msg)
		}
		w.coord.CommitBlock(w.ch[c])
		h.observeNew(c03Mech(f[8]), false)
		after := h.view(c)
		if !failed {
			h.countAmountClasses("send.ok", amt, fa)
			if d != c03Ghost && sendSeqBefore[d] >= 1<<63 {
				r.Count("send.ok.seq.2^63+")
			}
			if cb {
				r.Count("send.ok.callback-switch")
			}
		}
		if failed {
			r.Count("send.err")
			if snd != c03AccUser {
				r.Count("send.err.other-sender")
			}
			if after.String() != before.String() {
				h.find("C03:failed-send-changed-state", "a failed crossChainCall transaction changed the chain's views", after.String(), before.String())
			}
			return "err " + after.String()
		}
		r.Count("send.ok")
		if snd != c03AccUser {
			r.Count("send.ok.other-sender")
		}
		r.Count("send.ok.call." + c03Mech(f[8]))
		if t == 0 {
			r.Count("send.ok.native")
		}
		h.checkCommitmentsBacked(c, sendLogs, sendSeqBefore, "send")
		h.checkPacketSentLogs(c, sendLogs, "send")
		h.conservedAround(c, "send")
		return "ok " + after.String()
	case "register":
		c, a := c03Atoi(f[1]), c03Atoi(f[2])
		if c03Atoi(f[3]) != w.rank(a) {
			r.t.Fatalf("register: rank %s of account %d is not the store order rank %d (use canonRegister)", f[3], a, w.rank(a))
		}
		var chains, names []string
		for _, ct := range f[4:] {
			g := strings.Split(ct, ":")
			chains = append(chains, h.name(c03Atoi(g[0])))
			names = append(names, c03TagString(c03Atoi(g[1])))
		}
		w.ch[c].App.XIBCKeeper.ClientKeeper.RegisterRelayers(w.ch[c].GetContext(), sdk.AccAddress(w.acc[a].Bytes()).String(), chains, names)
		w.coord.CommitBlock(w.ch[c])
		h.regVersion[c]++
		r.Count("register")
		return "ok"
	case "cbset":
		c := c03Atoi(f[1])
		b := byte(c03Atoi(f[2]))
		if failed, e, _ := w.sendTx(c, w.acc[c03AccSwitch], big.NewInt(0), []byte{b}); failed {
			r.t.Fatalf("cbset failed: %s", e)
		}
		w.coord.CommitBlock(w.ch[c])
		h.switchOn[c] = b != 0
		r.Count("cbset")
		return "ok"
	case "restart":
		return h.restartModule(c03Atoi(f[1]))
	case "restartapp":
		return h.restartApp(c03Atoi(f[1]))
	case "plant":
		n, err := strconv.ParseUint(f[3], 10, 64)
		if err != nil {
			r.t.Fatal(err)
		}
		return h.plant(c03Atoi(f[1]), c03Atoi(f[2]), n)
	case "simrecv", "simack":
		// the transaction of the corresponding recv / ack op, executed on a context that is dropped (BaseApp.Simulate)
		s, d := c03Atoi(f[1]), c03Atoi(f[2])
		q, _ := strconv.ParseUint(f[3], 10, 64)
		forge, signer := c03RelayFlags(f[4:])
		on := d
		if f[0] == "simack" {
			on = s
		}
		pkt, ack := h.relayBytes(f[0] == "simack", s, d, q, forge)
		var msg sdk.Msg
		var berr error
		if f[0] == "simrecv" {
			msg, berr = w.recvMsg(s, d, q, pkt, signer)
		} else {
			msg, berr = w.ackMsg(s, d, q, pkt, ack, signer)
		}
		if berr != nil {
			r.t.Fatalf("%s: client update failed: %v", f[0], berr)
		}
		before := [c03NChains]string{}
		for i := 0; i < c03NChains; i++ {
			before[i] = h.view(i).String()
		}
		digest := w.storeDigest(on, "xibc") + w.storeDigest(on, "evm")
		var serr error
		pan, pmsg := safely(func() { serr = w.simulate(on, signer, msg) })
		if pan {
			r.t.Fatalf("panic in %s: %s", f[0], pmsg)
		}
		for i := 0; i < c03NChains; i++ {
			if a := h.view(i).String(); a != before[i] {
				h.find("C03:discarded-execution-changed-state:"+f[0], fmt.Sprintf("chain %d: a transaction executed on a dropped context (Simulate) changed the chain's views", i), a, before[i])
			}
		}
		if d2 := w.storeDigest(on, "xibc") + w.storeDigest(on, "evm"); d2 != digest {
			h.find("C03:discarded-execution-changed-state:"+f[0], fmt.Sprintf("chain %d: a transaction executed on a dropped context (Simulate) changed the xibc / evm store", on), d2, digest)
		}
		r.Count(f[0])
		if serr != nil {
			r.Count(f[0] + ".err")
			return "err " + before[on]
		}
		r.Count(f[0] + ".ok")
		return "ok " + before[on]
	case "fakelog":
		c, snd := c03Atoi(f[1]), c03Atoi(f[2])
		before := h.view(c)
		seqBefore := h.nextSeqs(c)
		var failed bool
		var logs []*evm.Log
		pan, msg := safely(func() {
			var events sdk.Events
			failed, _, events, logs = w.sendTxLogs(c, snd, w.emitter, big.NewInt(0), h.fakeLogData(c, snd, strings.Split(f[3], ",")))
			if !failed {
				w.notePackets(events.ToABCIEvents()) // (nothing, unless the hook took the look-alike for a packet)
			}
		})
		if pan {
			r.t.Fatalf("panic in fakelog: %s", msg)
		}
		w.coord.CommitBlock(w.ch[c])
		h.observeNew("fakelog", false)
		after := h.view(c)
		if failed {
			r.Count("fakelog.err")
			if after.String() != before.String() {
				h.find("C03:failed-send-changed-state", "a failed transaction changed the chain's views", after.String(), before.String())
			}
			return "err " + after.String()
		}
		r.Count("fakelog.ok")
		r.Count("fakelog.ok." + strings.Split(f[3], ",")[1] + strings.Split(f[3], ",")[2])
		h.checkCommitmentsBacked(c, logs, seqBefore, "fakelog")
		h.conservedAround(c, "fakelog")
		return "ok " + after.String()
	case "batch":
		c, snd, strict := c03Atoi(f[1]), c03Atoi(f[2]), f[3] != "0"
		before := h.view(c)
		var frames []c03Frame
		total := big.NewInt(0)
		nSend, nFake, mech := 0, 0, "batch"
		dsts := map[int]int{}
		seqBefore := h.nextSeqs(c)
		for _, leg := range f[4:] {
			g := strings.Split(leg, ",")
			switch g[0] {
			case "L":
				frames = append(frames, c03Frame{to: w.emitter, value: big.NewInt(0), data: h.fakeLogData(c, c03AccFwd, g[1:])})
				nFake++
			case "A":
				amt := c03Big(g[2])
				data, _ := w.erc20().Pack("approve", endpointcontract.EndpointContractAddress, amt)
				frames = append(frames, c03Frame{to: w.tok[c][c03Atoi(g[1])], value: big.NewInt(0), data: data})
			case "S":
				d, t, rcv, ft := c03Atoi(g[1]), c03Atoi(g[2]), c03Atoi(g[4]), c03Atoi(g[5])
				amt := c03Big(g[3])
				fa := c03Big(g[6])
				contract, cd := h.callData(d, g[7])
				data := packettypes.CrossChainData{DstChain: h.name(d), TokenAddress: w.tok[c][t], Receiver: strings.ToLower(w.acc[rcv].String()), Amount: amt,
					ContractAddress: contract, CallData: cd, CallbackAddress: common.Address{}, FeeOption: 0}
				payload, err := endpointcontract.EndpointContract.ABI.Pack("crossChainCall", data, packettypes.Fee{TokenAddress: w.tok[c][ft], Amount: fa})
				if err != nil {
					r.t.Fatal(err)
				}
				value := big.NewInt(0)
				if t == 0 {
					value.Add(value, amt)
				}
				if ft == 0 {
					value.Add(value, fa)
				}
				total.Add(total, value)
				frames = append(frames, c03Frame{to: endpointcontract.EndpointContractAddress, value: value, data: payload})
				nSend++
				dsts[d]++
			default:
				r.t.Fatalf("bad leg %q", leg)
			}
		}
		var failed bool
		var logs []*evm.Log
		pan, msg := safely(func() {
			var events sdk.Events
			failed, _, events, logs = w.sendTxLogs(c, snd, w.acc[c03AccFwd], total, c03ForwarderCalldata(strict, frames))
			if !failed {
				w.notePackets(events.ToABCIEvents())
			}
		})
		if pan {
			r.t.Fatalf("panic in batch: %s", msg)
		}
		w.coord.CommitBlock(w.ch[c])
		h.observeNew(mech, false)
		after := h.view(c)
		if failed {
			r.Count("batch.err")
			if dsts[c03Ghost] > 0 {
				r.Count("batch.err.leg-without-client")
			}
			for _, n := range dsts {
				if n > 1 {
					r.Count("batch.err.same-destination-twice")
					break
				}
			}
			if after.String() != before.String() {
				h.find("C03:failed-send-changed-state", "a failed batch transaction changed the chain's views", after.String(), before.String())
			}
			return "err " + after.String()
		}
		r.Count("batch.ok")
		if nFake > 0 {
			r.Count("batch.ok.with-fakelog")
			mech = "batch+fakelog"
		}
		h.checkCommitmentsBacked(c, logs, seqBefore, mech)
		sent := h.checkPacketSentLogs(c, logs, mech)
		r.Count(fmt.Sprintf("batch.ok.packets%d", c03Min(uint64(sent), 3)))
		if sent >= 2 {
			r.Count("batch.ok.multi")
		}
		if sent < nSend {
			r.Count("batch.ok.leg-skipped")
		}
		h.conservedAround(c, mech)
		return "ok " + after.String()
	case "recv":
		s, d := c03Atoi(f[1]), c03Atoi(f[2])
		q, _ := strconv.ParseUint(f[3], 10, 64)
		forge, signer := c03RelayFlags(f[4:])
		key := c03Key(s, d, q)
		rec := w.packets[key]
		pkt, _ := h.relayBytes(false, s, d, q, forge)
		before := h.view(d)
		// the quantity a successful execution must move on the destination: bindings.amount (bound units) for a
		// token arriving, outTokens for a bound token coming home
		credited := func() *big.Int {
			o := h.obs[key]
			if o == nil || o.amount == nil || d == c03Ghost {
				return nil
			}
			if o.oriToken == "" {
				tr := w.callView(d, endpointcontract.EndpointContract.ABI, endpointcontract.EndpointContractAddress, "bindingTraces", h.name(s)+"/"+o.token)[0].(common.Address)
				if tr == (common.Address{}) {
					return big.NewInt(0)
				}
				b := w.binding(d, tr, h.name(s))
				k := new(big.Int).Exp(big.NewInt(10), big.NewInt(int64(b.Scale)), nil)
				if b.Amount == nil {
					return big.NewInt(0)
				}
				return new(big.Int).Div(b.Amount, k) // in origin units
			}
			return new(big.Int).Neg(w.outTokens(d, common.HexToAddress(o.oriToken), h.name(s)))
		}
		credBefore := credited()
		// everything on the destination that carries value or that a later step reads: storage and code of every contract,
		// native balances of the contracts and accounts — compared in full if the receive ends in an error acknowledgement
		deepBefore := h.valueSnapshot(d)
		// does the packet release the native coin to an account the bank blocks (module accounts)?
		blockedRelease := false
		if o := h.obs[key]; o != nil && o.amount != nil && o.amount.Sign() > 0 && o.oriToken != "" && common.HexToAddress(o.oriToken) == (common.Address{}) && rec != nil {
			var td packettypes.TransferData
			if td.ABIDecode(rec.packet.TransferData) == nil && h.isBlocked(d, common.HexToAddress(td.Receiver)) {
				blockedRelease = true
			}
		}
		// would minting amount*10^scale on the destination pass 2^256-1 ?
		overflows := false
		if o := h.obs[key]; o != nil && o.amount != nil && o.oriToken == "" && d != c03Ghost {
			if tr := w.callView(d, endpointcontract.EndpointContract.ABI, endpointcontract.EndpointContractAddress, "bindingTraces", h.name(s)+"/"+o.token)[0].(common.Address); tr != (common.Address{}) {
				k := new(big.Int).Exp(big.NewInt(10), big.NewInt(int64(w.binding(d, tr, h.name(s)).Scale)), nil)
				sum := new(big.Int).Add(w.supply(d, tr), new(big.Int).Mul(o.amount, k))
				overflows = sum.BitLen() > 256
			}
		}
		hadAck := rec != nil && rec.ack != nil
		var derr error
		_, signerAddr := w.signerOf(signer)
		_, signerKnown := w.ch[d].App.XIBCKeeper.ClientKeeper.GetRelayerAddressOnOtherChain(w.ch[d].GetContext(), h.name(s), signerAddr.String())
		pan, msg := safely(func() { _, derr = w.relayRecv(s, d, q, pkt, signer) })
		if pan {
			r.t.Fatalf("panic in recv: %s", msg)
		}
		after := h.view(d)
		if derr != nil || rec == nil || rec.ack == nil || (hadAck && derr == nil) {
			if derr == nil {
				r.t.Fatalf("recv accepted without acknowledgement record: %s", op)
			}
			r.Count("recv.err")
			if derr != nil && rec != nil && !forge && !hadAck && w.hasCommitment(s, d, q) && !signerKnown {
				r.Count("recv.rejected.signer-unregistered") // retried later by a registered relayer
			}
			if after.String() != before.String() {
				h.find("C03:rejected-recv-changed-state", "a rejected MsgRecvPacket changed the chain's views", after.String(), before.String())
			}
			return "err " + after.String()
		}
		var a packettypes.Acknowledgement
		if err := a.ABIDecode(rec.ack); err != nil {
			r.t.Fatalf("ack decode: %v", err)
		}
		o := h.obs[key]
		o.received, o.ackCode = true, a.Code
		o.regAtRecv = h.regVersion[s]
		if signer != c03AccUser {
			r.Count("recv.ok.other-signer")
		}
		o.dstEffect = after.tokenPart != before.tokenPart
		h.observeNew("nested", true)
		if q >= 1<<63 {
			r.Count("recv.ok.seq.2^63+")
		}
		if overflows && a.Code != 0 {
			r.Count("recv.error-ack.uint256-overflow") // amount*10^scale or the new total supply does not fit: refused, to be refunded
		}
		if overflows && a.Code == 0 {
			h.find("C03:minted-beyond-uint256", fmt.Sprintf("packet %s: success acknowledgement although amount*10^scale plus the total supply does not fit a uint256", key), "code 0", "error acknowledgement")
		}
		r.Count(fmt.Sprintf("recv.ok.code%d", a.Code))
		r.Count(fmt.Sprintf("recv.ok.code%d.call.%s", a.Code, o.call))
		if o.oriToken != "" {
			r.Count(fmt.Sprintf("recv.back.code%d", a.Code))
			if w.binding(s, common.HexToAddress(o.token), h.name(d)).Scale > 0 {
				r.Count(fmt.Sprintf("recv.back.scaled.code%d", a.Code))
			}
		} else if o.amount != nil && a.Code == 0 {
			tr := w.callView(d, endpointcontract.EndpointContract.ABI, endpointcontract.EndpointContractAddress, "bindingTraces", h.name(s)+"/"+o.token)[0].(common.Address)
			if w.binding(d, tr, h.name(s)).Scale > 0 {
				r.Count("recv.ok.code0.scaled")
			}
		}
		if o.fromNested {
			r.Count(fmt.Sprintf("recv.hop2.code%d", c03Min(a.Code, 1)))
		}
		if blockedRelease {
			if a.Code != 0 {
				r.Count("recv.err.blocked-receiver")
				if len(rec.packet.CallData) == 0 {
					r.Count("recv.err.blocked-receiver.plain")
				} else {
					r.Count("recv.err.blocked-receiver.with-call")
				}
			} else {
				h.find("C03:blocked-receiver-credited", fmt.Sprintf("packet %s: success acknowledgement although the receiver is an account the bank refuses to credit", key), "code 0", "error acknowledgement")
			}
		}
		if a.Code != 0 {
			// an error acknowledgement — whatever made the execution fail (result code of the contract, EVM revert, failing
			// post-transaction hook, failing write-back of the EVM state) — must leave NOTHING behind on the destination
			if diff := c03SnapDiff(deepBefore, h.valueSnapshot(d)); diff != "" {
				h.find("C03:error-ack-left-state-behind:"+o.call, fmt.Sprintf("packet %s: error acknowledgement (code %d) written, but contract storage / balances of the destination are not what they were before the receive", key, a.Code),
					diff, "unchanged")
			}
			r.Count("recv.error-ack.deep-compared")
		}
		if a.Code != 0 && o.dstEffect {
			// property: an error acknowledgement means no token or contract effect is left on the destination
			h.find("C03:error-ack-with-destination-effect:"+o.call, fmt.Sprintf("packet %s: error acknowledgement (code %d) written, but the destination's token/contract views changed", key, a.Code),
				after.tokenPart, before.tokenPart)
		}
		if credBefore != nil && !(o.call == "agent" && a.Code == 0) { // (an agent forward may burn / escrow on the same pair in the same step)
			delta := new(big.Int).Sub(credited(), credBefore)
			want := big.NewInt(0)
			if a.Code == 0 {
				want = o.amount
			}
			if delta.Cmp(want) != 0 {
				// the acknowledgement code decides: code 0 <=> the transfer was applied exactly once, code != 0 <=> not at all
				h.find(fmt.Sprintf("C03:ack-code-vs-effect:code%d:%s", c03Min(a.Code, 1), o.call), fmt.Sprintf("packet %s: acknowledgement code %d, destination moved %s of the %s sent", key, a.Code, delta, o.amount),
					delta.String(), want.String())
			}
		}
		h.conservedAround(d, "recv:"+o.call)
		return fmt.Sprintf("ok code=%d %s", a.Code, after.String())
	case "ack":
		s, d := c03Atoi(f[1]), c03Atoi(f[2])
		q, _ := strconv.ParseUint(f[3], 10, 64)
		forge, signer := c03RelayFlags(f[4:])
		key := c03Key(s, d, q)
		rec := w.packets[key]
		pkt, ack := h.relayBytes(true, s, d, q, forge)
		before := h.view(s)
		var outBefore, bindBefore *big.Int
		o := h.obs[key]
		var T common.Address
		if o != nil && o.amount != nil {
			T = common.HexToAddress(o.token)
			outBefore = w.outTokens(s, T, h.name(d))
			bindBefore = w.binding(s, T, h.name(d)).Amount
		}
		// who the source chain's registry says is to be paid for this acknowledgement (read from the real keeper)
		var recipient common.Address
		resolvable := false
		{
			var a packettypes.Acknowledgement
			if a.ABIDecode(ack) == nil {
				if bech, found := w.ch[s].App.XIBCKeeper.ClientKeeper.GetRelayerAddressOnTeleport(w.ch[s].GetContext(), h.name(d), a.Relayer); found {
					if ra, err := sdk.AccAddressFromBech32(bech); err == nil {
						recipient, resolvable = common.BytesToAddress(ra), true
					}
				}
			}
		}
		var relBefore, escBefore *big.Int
		if o != nil && o.feeAmt != nil {
			relBefore = w.balance(s, o.feeTok, recipient)
			escBefore = w.balance(s, o.feeTok, w.acc[c03AccPacket])
		}
		// own record per (path, sequence): every OTHER packet of this source that is committed and not yet acknowledged must
		// still be committed after this acknowledgement, whatever its outcome
		var pendingOthers []*c03Obs
		inflightPath, longerPrefix := 0, false
		for _, k := range h.keys {
			x := h.obs[k]
			if x.src != s || x.acked || x.lostCommit || x.dst == c03Ghost || !w.hasCommitment(s, x.dst, x.seq) {
				continue
			}
			if x.dst == d {
				inflightPath++
			}
			if x.dst == d && x.seq == q {
				continue
			}
			pendingOthers = append(pendingOthers, x)
			if x.dst == d && strings.HasPrefix(strconv.FormatUint(x.seq, 10), strconv.FormatUint(q, 10)) {
				longerPrefix = true // its decimal sequence starts with this packet's: store keys that are byte prefixes of each other
			}
		}
		var derr error
		pan, msg := safely(func() { _, derr = w.relayAck(s, d, q, pkt, ack, signer) })
		if pan {
			r.t.Fatalf("panic in ack: %s", msg)
		}
		after := h.view(s)
		for _, x := range pendingOthers {
			if !w.hasCommitment(s, x.dst, x.seq) {
				x.lostCommit = true
				h.find("C03:commitment-lost-by-foreign-ack", fmt.Sprintf("the acknowledgement of packet %s (accepted=%v) removed the commitment of packet %d/%d/%d, which is not acknowledged: that packet stays escrowed / burnt on the source and can never be acknowledged or refunded", key, derr == nil, x.src, x.dst, x.seq),
					"commitment gone", "an acknowledgement touches only its own packet")
			}
		}
		if derr == nil && o != nil && !forge {
			if inflightPath >= 10 {
				r.Count("burst.inflight≥10")
			}
			if longerPrefix {
				r.Count("ack.while-longer-prefix-pending")
				if o.ackCode != 0 && o.amount != nil {
					r.Count("refund.while-longer-prefix-pending")
				}
			}
		}
		if derr != nil && o != nil && rec != nil && rec.ack != nil && !forge && o.received && !o.acked && !w.hasCommitment(s, d, q) {
			// a transfer that was never acknowledged can no longer finish: its commitment is gone
			h.find("C03:genuine-ack-rejected:commitment-gone", fmt.Sprintf("packet %s (ack code %d) was never acknowledged, yet its commitment is gone: its genuine acknowledgement is refused for ever — neither delivered-and-settled nor refunded", key, o.ackCode),
				"rejected", "accepted exactly once")
		}
		if derr != nil {
			r.Count("ack.err")
			if after.String() != before.String() {
				h.find("C03:rejected-ack-changed-state", "a rejected MsgAcknowledgement changed the chain's views", after.String(), before.String())
			}
			if o != nil && rec != nil && rec.ack != nil && !forge && o.received && !o.acked && w.hasCommitment(s, d, q) {
				// the genuine acknowledgement of a packet that is still committed, with its genuine proof
				r.Count("ack.err.genuine")
				if resolvable && o.feeAmt != nil && o.feeAmt.Sign() > 0 && o.feeTok == (common.Address{}) && h.isBlocked(s, recipient) && !(o.cb && h.switchOn[s]) {
					// the relay fee is in the native coin and the relayer the registry resolves is a module account the bank
					// refuses to credit: the whole message fails, nothing changes; goes through after a re-registration
					o.feeBlocked++
					r.Count("ack.rejected.fee-recipient-blocked")
				} else if o.cb && h.switchOn[s] {
					// the sender's callback contract reverts: OnAcknowledgePacket reverts, the whole message is rejected, nothing
					// changes, the same acknowledgement can be relayed again once the callback goes through
					o.cbRejected++
					if o.ackCode != 0 {
						r.Count("ack.rejected.callback-reverts.error")
					} else {
						r.Count("ack.rejected.callback-reverts.success")
					}
				} else if !resolvable {
					// the relayer named in the acknowledgement is not (or no longer) registered on the source: the whole
					// message is rejected, nothing changes, it can be relayed again after a re-registration
					if o.ackCode != 0 {
						r.Count("ack.rejected.relayer-unresolvable.error")
					} else {
						r.Count("ack.rejected.relayer-unresolvable.success")
					}
				} else if o.amount != nil {
					// a transfer: if its acknowledgement can not be processed, "delivered (acknowledged)" resp. "refunded"
					// can never happen for it
					h.find("C03:genuine-ack-rejected:transfer", fmt.Sprintf("packet %s (ack code %d): the destination's genuine acknowledgement is rejected on the source; commitment, escrow and fee %v stay", key, o.ackCode, o.feeAmt),
						"rejected", "accepted: fee to the relayer once, refund if the code is not 0")
				} else if o.ackCode != 0 {
					// OBSERVATION outside C03 (docs/C03-observation-call-only-ack.md), not a finding: a packet without transfer
					// data that got an error acknowledgement can not be acknowledged (OnAcknowledgePacket reverts in the
					// endpoint byte code); it stays pending, its fee stays in escrow - conservation is not affected
					r.Count("obs.call-only-error-ack-unacknowledgeable")
				} else {
					r.Count("obs.call-only-success-ack-rejected")
				}
			}
			return "err " + after.String()
		}
		if o == nil || forge {
			h.find("C03:forged-ack-accepted", "an acknowledgement that the destination never wrote was accepted", op, "rejected")
			return "ok " + after.String()
		}
		o.acked = true
		h.observeNew("nested", true)
		if q >= 1<<63 {
			r.Count("ack.ok.seq.2^63+")
		}
		if o.amount != nil {
			h.countAmountClasses("ack.ok", o.amount, o.feeAmt)
		}
		if h.regVersion[s] != o.regAtRecv {
			r.Count("ack.ok.after-reregistration")
		}
		if o.feeBlocked > 0 {
			r.Count("ack.ok.after-fee-recipient-blocked")
		}
		if resolvable && o.feeAmt != nil && o.feeAmt.Sign() > 0 && o.feeTok == (common.Address{}) && h.isBlocked(s, recipient) {
			h.find("C03:blocked-fee-recipient-paid", fmt.Sprintf("packet %s: acknowledgement accepted although its relay fee goes to an account the bank refuses to credit", key), "accepted", "rejected as a whole")
		}
		if o.cbRejected > 0 {
			// first delivery failed in the callback, the retry goes through: everything below (fee once, refund once) applies
			if o.ackCode != 0 {
				r.Count("ack.ok.after-callback-failure.error")
			} else {
				r.Count("ack.ok.after-callback-failure.success")
			}
		}
		if o.cb && h.switchOn[s] {
			r.Count("ack.ok.while-callback-reverts") // must not happen: the findings below say what is lost
		}
		if signer != c03AccUser {
			r.Count("ack.ok.other-signer")
		}
		if !resolvable {
			r.Count("ack.ok.relayer-unresolvable") // must not happen: the findings below say what is lost
		}
		if o.feeAmt != nil {
			// the relay fee leaves the escrow exactly once, at the acknowledgement, and reaches the relayer in full
			dRel := new(big.Int).Sub(w.balance(s, o.feeTok, recipient), relBefore)
			if resolvable && o.amount != nil && o.ackCode != 0 && strings.EqualFold(rec.packet.Sender, recipient.String()) {
				dRel = new(big.Int).Set(o.feeAmt) // the fee recipient is also the refunded sender: only the escrow side is checked
			}
			if !resolvable {
				dRel = big.NewInt(0)
			}
			dEsc := new(big.Int).Sub(escBefore, w.balance(s, o.feeTok, w.acc[c03AccPacket]))
			if dRel.Sign() != 0 || dEsc.Sign() != 0 {
				o.feePaid++
			}
			if dRel.Cmp(o.feeAmt) < 0 || dEsc.Cmp(o.feeAmt) != 0 || o.feePaid > 1 /* the payee may receive more in the same transaction: a refund or an agent callback to the same account */ {
				h.find("C03:fee-not-paid-once", fmt.Sprintf("packet %s: fee %s, relayer received %s, escrow released %s, paid %d times", key, o.feeAmt, dRel, dEsc, o.feePaid),
					fmt.Sprint(dRel, dEsc, o.feePaid), "fee paid to the relayer exactly once")
			}
			if o.feeAmt.Sign() > 0 {
				r.Count("ack.fee.paid")
			}
		}
		status := w.ackStatus(s, h.name(d), q)
		refunded := false
		if o.amount != nil {
			outAfter := w.outTokens(s, T, h.name(d))
			bindAfter := w.binding(s, T, h.name(d)).Amount
			dOut := new(big.Int).Sub(outBefore, outAfter)
			dBind := new(big.Int).Sub(bindAfter, bindBefore)
			refunded = dOut.Sign() != 0 || dBind.Sign() != 0
			if refunded {
				o.refunds++
				want := o.amount
				got := dOut
				if o.oriToken != "" { // a bound token that had been burnt: minted back in bound units
					got = dBind
					want = new(big.Int).Mul(o.amount, new(big.Int).Exp(big.NewInt(10), big.NewInt(int64(w.binding(s, T, h.name(d)).Scale)), nil))
				}
				if got.Cmp(want) != 0 {
					h.find("C03:refund-wrong-amount", fmt.Sprintf("packet %s refunded %s, sent %s", key, got, want), got.String(), want.String())
				}
			}
		}
		if o.ackCode == 0 {
			r.Count("ack.ok.success")
			if refunded || status != 1 {
				h.find("C03:refund-on-success-ack", fmt.Sprintf("packet %s: success acknowledgement but refunded=%v status=%d", key, refunded, status), fmt.Sprint(refunded, status), "no refund, status 1")
			}
		} else {
			r.Count("ack.ok.error")
			if o.fromNested {
				r.Count("ack.ok.error.agent-callback")
			}
			if o.amount == nil {
				r.Count("ack.ok.error.call-only") // (does not happen with the code as it is: see obs.call-only-error-ack-unacknowledgeable)
			}
			if o.amount != nil && o.amount.Sign() > 0 && (!refunded || status != 2) {
				h.find("C03:no-refund-on-error-ack", fmt.Sprintf("packet %s: error acknowledgement but refunded=%v status=%d", key, refunded, status), fmt.Sprint(refunded, status), "refunded once, status 2")
			}
			if refunded {
				r.Count("ack.refund")
				if o.oriToken != "" {
					r.Count("ack.refund.back")
				}
			}
		}
		// no_double_hold / one_outcome on the observations
		if o.refunds > 0 && o.dstEffect {
			h.find("C03:delivered-and-refunded:"+o.call, fmt.Sprintf("packet %s: the destination kept the effect of the packet AND the source refunded it", key), "delivered and refunded", "exactly one of delivered / refunded")
		}
		if o.refunds > 1 {
			h.find("C03:refunded-twice", fmt.Sprintf("packet %s refunded %d times", key, o.refunds), fmt.Sprint(o.refunds), "1")
		}
		h.conservedAround(s, "ack:"+o.call)
		return "ok " + after.String()
	}
	r.t.Fatalf("bad op %q", op)
	return ""
}

func TestC03(t *testing.T) {
	r := NewRec(t, "C03")
	defer r.Close()
	h := &c03Harness{r: r}
	var run func(ops []string)
	run = func(ops []string) {
		for i, op := range ops {
			if strings.HasPrefix(op, "#") {
				continue
			}
			if strings.HasPrefix(op, "register ") {
				op = h.canonRegister(op)
			}
			out := h.apply(op)
			r.Op(op, out)
			if op == "reset" && !(i+1 < len(ops) && strings.HasPrefix(ops[i+1], "register ")) {
				// the default relayer registration (a history that starts with its own register ops defines everything itself)
				run(h.defaultRegistry())
				h.regVersion = [c03NChains]int{}
			}
			if !strings.HasPrefix(op, "reset") && !strings.HasPrefix(op, "deploy") && !strings.HasPrefix(op, "bind") {
				r.Nontrivial(strings.Join(h.hist, ";"))
			}
		}
	}
	if ops := replayOps(t); ops != nil {
		if !strings.HasPrefix(ops[0], "reset") {
			ops = append([]string{"reset"}, ops...)
		}
		run(ops)
		return
	}
	// packets announced inside module-initiated EVM calls (c03_nested_test.go): a world of its own, not part of the op protocol
	h.nestedSendScenario("fee")
	h.nestedSendScenario("callback")
	// conversions of the aggregate module for a programmable token (c03_aggregate_test.go)
	h.aggregateConversionScenario()
	for _, c := range corpusOps("C03") {
		run(append([]string{"reset"}, c...))
	}
	hist, steps := 8, 60
	if r.Tier == "thorough" {
		hist, steps = 16, 80
	}
	if n := envInt("VERIF_N", 0); n > 0 {
		hist = int(n)
	}
	for i := 0; i < hist; i++ {
		h.generate(steps, func(op string) { run([]string{op}) })
	}
}
