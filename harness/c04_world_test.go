//go:build c04

package verifharness

// C04 — world construction for the send-sequencing harness: three real chains (xibctesting), Tendermint light
// clients A<->B and A<->C, a TSS client on A (cheap receives with arbitrary call data), ERC-20 tokens, two
// hand-assembled helper contracts (no solc in the sandbox): a generic multicall executor (two sends in ONE
// transaction) and a look-alike emitter (same PacketSent event from another address).

import (
	"fmt"
	"math/big"
	"strings"
	"testing"

	"github.com/ethereum/go-ethereum/common"
	ethtypes "github.com/ethereum/go-ethereum/core/types"
	"github.com/ethereum/go-ethereum/crypto"

	sdk "github.com/cosmos/cosmos-sdk/types"

	"github.com/tharsis/ethermint/server/config"
	"github.com/tharsis/ethermint/tests"
	evm "github.com/tharsis/ethermint/x/evm/types"

	erc20contracts "github.com/teleport-network/teleport/syscontracts/erc20"
	endpointcontract "github.com/teleport-network/teleport/syscontracts/xibc_endpoint"
	packetcontract "github.com/teleport-network/teleport/syscontracts/xibc_packet"
	aggregatetypes "github.com/teleport-network/teleport/x/aggregate/types"
	tsstypes "github.com/teleport-network/teleport/x/xibc/clients/tss-client/types"
	packettypes "github.com/teleport-network/teleport/x/xibc/core/packet/types"
	xibctesting "github.com/teleport-network/teleport/x/xibc/testing"
)

// ---- tiny EVM assembler ---------------------------------------------------------------------

type c04Asm struct {
	code   []byte
	labels map[string]int
	fix    map[int]string
}

func c04NewAsm() *c04Asm { return &c04Asm{labels: map[string]int{}, fix: map[int]string{}} }
func (a *c04Asm) op(b ...byte) *c04Asm {
	a.code = append(a.code, b...)
	return a
}
func (a *c04Asm) push1(n byte) *c04Asm { return a.op(0x60, n) }
func (a *c04Asm) pushL(l string) *c04Asm {
	a.op(0x61)
	a.fix[len(a.code)] = l
	return a.op(0, 0)
}
func (a *c04Asm) label(l string) *c04Asm {
	a.labels[l] = len(a.code)
	return a.op(0x5b)
}
func (a *c04Asm) bytes() []byte {
	out := append([]byte{}, a.code...)
	for pos, l := range a.fix {
		t, ok := a.labels[l]
		if !ok {
			panic("label " + l)
		}
		out[pos] = byte(t >> 8)
		out[pos+1] = byte(t)
	}
	return out
}

const (
	c04STOP, c04ADD, c04SUB                                   = 0x00, 0x01, 0x03
	c04GT, c04ISZERO, c04SHR                                  = 0x11, 0x15, 0x1c
	c04CALLDATALOAD, c04CALLDATASIZE, c04CALLDATACOPY         = 0x35, 0x36, 0x37
	c04CODECOPY, c04RETURNDATASIZE, c04RETURNDATACOPY         = 0x39, 0x3d, 0x3e
	c04JUMP, c04JUMPI, c04GAS                                 = 0x56, 0x57, 0x5a
	c04DUP1, c04DUP2, c04DUP3, c04DUP6, c04DUP7, c04SWAP1        = 0x80, 0x81, 0x82, 0x85, 0x86, 0x90
	c04LOG1, c04CALL, c04RETURN, c04REVERT              byte = 0xa1, 0xf1, 0xf3, 0xfd
)

// c04MultiRuntime: calldata is a sequence of records
//   target(20) | mustSucceed(1) | value(32) | len(32) | data(len)
// each executed with CALL in order; a failing call with mustSucceed != 0 reverts the whole transaction
// (bubbling the revert data), with mustSucceed == 0 it is skipped (its own effects reverted by the EVM).
func c04MultiRuntime() []byte {
	a := c04NewAsm()
	a.push1(0) // ptr
	a.label("loop")
	a.op(c04DUP1, c04CALLDATASIZE, c04GT, c04ISZERO).pushL("end").op(c04JUMPI)
	a.op(c04DUP1).push1(53).op(c04ADD, c04CALLDATALOAD)           // [ptr,len]
	a.op(c04DUP1, c04DUP3).push1(85).op(c04ADD).push1(0).op(c04CALLDATACOPY) // copy data to mem[0..len)
	a.push1(0).push1(0).op(c04DUP3).push1(0)                    // retSize retOff argsSize argsOff
	a.op(c04DUP6).push1(21).op(c04ADD, c04CALLDATALOAD)           // value
	a.op(c04DUP7, c04CALLDATALOAD).push1(96).op(c04SHR)           // target
	a.op(c04GAS, c04CALL)                                        // [ptr,len,ok]
	a.pushL("cont").op(c04JUMPI)
	a.op(c04DUP2).push1(20).op(c04ADD, c04CALLDATALOAD).push1(248).op(c04SHR) // flag
	a.op(c04ISZERO).pushL("cont").op(c04JUMPI)
	a.op(c04RETURNDATASIZE).push1(0).push1(0).op(c04RETURNDATACOPY)
	a.op(c04RETURNDATASIZE).push1(0).op(c04REVERT)
	a.label("cont")
	a.op(c04ADD).push1(85).op(c04ADD)
	a.pushL("loop").op(c04JUMP)
	a.label("end").op(c04STOP)
	return a.bytes()
}

// c04FakeRuntime: LOG1(topic = calldata[0:32], data = calldata[32:]) from this contract's own address.
func c04FakeRuntime() []byte {
	a := c04NewAsm()
	a.push1(32).op(c04CALLDATASIZE, c04SUB)            // n
	a.op(c04DUP1).push1(32).push1(0).op(c04CALLDATACOPY) // mem[0..n) = calldata[32:]
	a.push1(0).op(c04CALLDATALOAD, c04SWAP1).push1(0).op(c04LOG1, c04STOP)
	return a.bytes()
}

func c04InitCode(runtime []byte) []byte {
	// PUSH2 len DUP1 PUSH2 off PUSH1 0 CODECOPY PUSH1 0 RETURN
	n := len(runtime)
	pre := []byte{0x61, byte(n >> 8), byte(n), c04DUP1, 0x61, 0, 12, 0x60, 0, c04CODECOPY, 0x60, 0, c04RETURN}
	if len(pre) != 13 {
		panic("init len")
	}
	pre[6] = 13
	return append(pre, runtime...)
}

func c04Record(target common.Address, must bool, value *big.Int, data []byte) []byte {
	out := append([]byte{}, target.Bytes()...)
	if must {
		out = append(out, 1)
	} else {
		out = append(out, 0)
	}
	out = append(out, common.LeftPadBytes(value.Bytes(), 32)...)
	out = append(out, common.LeftPadBytes(big.NewInt(int64(len(data))).Bytes(), 32)...)
	return append(out, data...)
}

// ---- world ---------------------------------------------------------------------------------

type c04World struct {
	t     *testing.T
	coord *xibctesting.Coordinator
	A, B, C *xibctesting.TestChain
	pathAB, pathAC *xibctesting.Path
	self  string
	validator string // operator address of A's validator (staking calls of mixed receipts)
	proposal  uint64 // gov proposal in voting period (0 = none)
	extra []string // extra destinations of wide histories (TSS clients; prefix-related names and case siblings)
	tss   string // name of the TSS client on A
	tssAddr string // bech32 of the TSS relayer (= A's sender)
	tok   []common.Address // ERC-20 tokens on A (tok[0], tok[1] plain; bound token for receives = bnd)
	bnd   common.Address   // token on A bound to (tss, oriTok)
	oriTok string
	multi common.Address
	fake  common.Address
	sentTopic common.Hash
}

func c04Must(err error) {
	if err != nil {
		panic(err)
	}
}

func c04Deploy(ch *xibctesting.TestChain, from common.Address, initcode []byte) common.Address {
	ctx := ch.GetContext()
	nonce := ch.App.EvmKeeper.GetNonce(ctx, from)
	addr := crypto.CreateAddress(from, nonce)
	res, err := ch.App.AggregateKeeper.CallEVMWithData(ctx, from, nil, initcode)
	c04Must(err)
	if res.Failed() {
		panic("deploy failed: " + res.VmError)
	}
	return addr
}

func c04DeployERC20(ch *xibctesting.TestChain) common.Address {
	ctorArgs, err := erc20contracts.ERC20MinterBurnerDecimalsContract.ABI.Pack("", "name", "symbol", uint8(18))
	c04Must(err)
	data := append(append([]byte{}, erc20contracts.ERC20MinterBurnerDecimalsContract.Bin...), ctorArgs...)
	return c04Deploy(ch, endpointcontract.EndpointContractAddress, data)
}

// module-level call helper (used for setup only)
func c04ModCall(ctx sdk.Context, ch *xibctesting.TestChain, from common.Address, to common.Address, data []byte) {
	res, err := ch.App.AggregateKeeper.CallEVMWithData(ctx, from, &to, data)
	c04Must(err)
	if res.Failed() {
		panic("setup call failed: " + res.VmError)
	}
}

func c04ERC20Pack(method string, args ...interface{}) []byte {
	b, err := erc20contracts.ERC20MinterBurnerDecimalsContract.ABI.Pack(method, args...)
	c04Must(err)
	return b
}

func newC04World(t *testing.T) *c04World {
	w := &c04World{t: t}
	w.coord = xibctesting.NewCoordinator(t, 3)
	w.A = w.coord.GetChain(xibctesting.GetChainID(0))
	w.B = w.coord.GetChain(xibctesting.GetChainID(1))
	w.C = w.coord.GetChain(xibctesting.GetChainID(2))
	w.self = w.A.ChainID
	w.pathAB = xibctesting.NewPath(w.A, w.B)
	w.coord.SetupClients(w.pathAB)
	w.pathAC = xibctesting.NewPath(w.A, w.C)
	w.coord.SetupClients(w.pathAC)

	// TSS client on A
	w.tss = "tss-1"
	w.tssAddr = w.A.SenderAcc.String()
	ctx := w.A.GetContext()
	c04Must(w.A.App.XIBCKeeper.ClientKeeper.CreateClient(ctx, w.tss, &tsstypes.ClientState{TssAddress: w.tssAddr}, &tsstypes.ConsensusState{}))
	w.registerRelayers()

	// tokens
	for i := 0; i < 2; i++ {
		tk := c04DeployERC20(w.A)
		w.tok = append(w.tok, tk)
		c04ModCall(ctx, w.A, endpointcontract.EndpointContractAddress, tk,
			c04ERC20Pack("grantRole", common.BytesToHash(crypto.Keccak256([]byte("MINTER_ROLE"))), w.A.SenderAddress))
	}
	w.bnd = c04DeployERC20(w.A)
	w.oriTok = "0x" + strings.Repeat("ab", 20)
	c04Must(w.A.App.AggregateKeeper.RegisterERC20Trace(ctx, w.bnd, w.oriTok, w.tss, uint8(0)))

	// helper contracts
	w.multi = c04Deploy(w.A, aggregatetypes.ModuleAddress, c04InitCode(c04MultiRuntime()))
	w.fake = c04Deploy(w.A, aggregatetypes.ModuleAddress, c04InitCode(c04FakeRuntime()))
	w.sentTopic = packetcontract.PacketContract.ABI.Events[packettypes.PacketSendEvent].ID
	w.coord.CommitBlock(w.A)
	return w
}

// c04SignedTx builds a signed ethereum transaction of A's sender.
func (w *c04World) signedTx(ctx sdk.Context, to common.Address, value *big.Int, data []byte) *evm.MsgEthereumTx {
	chainID := w.A.App.EvmKeeper.ChainID()
	nonce := w.A.App.EvmKeeper.GetNonce(ctx, w.A.SenderAddress)
	tx := evm.NewTx(chainID, nonce, &to, value, config.DefaultGasCap, big.NewInt(0), big.NewInt(0), big.NewInt(0), data, &ethtypes.AccessList{})
	tx.From = w.A.SenderAddress.Hex()
	c04Must(tx.Sign(ethtypes.LatestSignerForChainID(chainID), tests.NewSigner(w.A.SenderPrivKey)))
	return tx
}

func c04Str(x interface{}) string { return fmt.Sprint(x) }
