//go:build c06

package verifharness

// C06 — op `restart <module|app>`: a restart from the exported genesis in the middle of a history.
//
//   module  xibc.ExportGenesis → JSON through the app codec → GenesisState.Validate → wipe the xibc store →
//           xibc.InitGenesis (what a restart does to the module that holds the relayer registry and the clients)
//   app     commit → app.ExportAppStateAndValidators → app.NewTeleport on a fresh db → InitChain(exported state) → Commit
//           (recipe of harness/c04_restart_test.go); the world continues on the new application
//
// The model's `restart` is the identity. Oracle: the xibc store (registry, clients, receipts, commitments, acks) is
// byte-identical before and after, and the registry answers (GetAllRelayers) are what governance registered; the
// standing message oracles run on the restarted state afterwards.

import (
	"fmt"
	"sort"
	"strings"

	"github.com/cosmos/cosmos-sdk/simapp"
	abci "github.com/tendermint/tendermint/abci/types"
	"github.com/tendermint/tendermint/libs/log"
	tmproto "github.com/tendermint/tendermint/proto/tendermint/types"
	dbm "github.com/tendermint/tm-db"
	"github.com/tharsis/ethermint/encoding"

	"github.com/teleport-network/teleport/app"
	"github.com/teleport-network/teleport/x/xibc"
	"github.com/teleport-network/teleport/x/xibc/core/host"
	xibctypes "github.com/teleport-network/teleport/x/xibc/types"
)

func (w *c06World) applyRestart(r *Rec, f []string) string {
	if len(f) != 2 {
		return "bad-op"
	}
	T := w.T
	w.coord.CommitBlock(T)
	before := w.xibcDump()
	sideBefore := w.sideHash()
	failure := ""
	pan, msg := safely(func() {
		switch f[1] {
		case "module":
			ctx := T.GetContext()
			gs := xibc.ExportGenesis(ctx, *T.App.XIBCKeeper)
			bz, err := T.App.AppCodec().MarshalJSON(gs)
			if err != nil {
				failure = "marshal: " + err.Error()
				return
			}
			var gs2 xibctypes.GenesisState
			if err := T.App.AppCodec().UnmarshalJSON(bz, &gs2); err != nil {
				failure = "unmarshal: " + err.Error()
				return
			}
			if err := gs2.Validate(); err != nil {
				failure = "exported genesis does not validate: " + err.Error()
				return
			}
			st := ctx.KVStore(T.App.GetKey(host.StoreKey))
			var keys [][]byte
			it := st.Iterator(nil, nil)
			for ; it.Valid(); it.Next() {
				keys = append(keys, append([]byte{}, it.Key()...))
			}
			it.Close()
			for _, k := range keys {
				st.Delete(k)
			}
			xibc.InitGenesis(ctx, *T.App.XIBCKeeper, false, &gs2)
			w.coord.CommitBlock(T)
		case "app":
			exported, err := T.App.ExportAppStateAndValidators(false, nil)
			if err != nil {
				failure = "export: " + err.Error()
				return
			}
			newApp := app.NewTeleport(log.NewNopLogger(), dbm.NewMemDB(), nil, true, map[int64]bool{}, app.DefaultNodeHome, 5,
				encoding.MakeConfig(app.ModuleBasics), simapp.EmptyAppOptions{})
			newApp.InitChain(abci.RequestInitChain{
				ChainId:         "teleport_9000-1",
				Time:            T.CurrentHeader.Time,
				InitialHeight:   exported.Height,
				Validators:      []abci.ValidatorUpdate{},
				ConsensusParams: exported.ConsensusParams,
				AppStateBytes:   exported.AppState,
			})
			newApp.Commit()
			T.App = newApp
			T.QueryServer = newApp.XIBCKeeper
			T.Codec = newApp.AppCodec()
			T.CurrentHeader = tmproto.Header{
				ChainID:            T.ChainID,
				Height:             newApp.LastBlockHeight() + 1,
				AppHash:            newApp.LastCommitID().Hash,
				Time:               T.CurrentHeader.Time,
				ValidatorsHash:     T.Vals.Hash(),
				NextValidatorsHash: T.Vals.Hash(),
				ProposerAddress:    T.Vals.Proposer.Address,
			}
			newApp.BeginBlock(abci.RequestBeginBlock{Header: T.CurrentHeader})
		default:
			failure = "bad mode"
		}
	})
	if pan {
		failure = "panic: " + msg
	}
	r.Count("restart")
	r.Count("restart." + f[1])
	if len(w.lastReg) >= 2 {
		r.Count("restart.with-several-relayers")
	}
	if len(w.lastReg) > 100 {
		r.Count("restart.with-more-than-100-relayers")
	}
	for _, g := range w.lastReg {
		if len(g.chains) > 100 {
			r.Count("restart.with-a-relayer-of-more-than-100-chains")
			break
		}
	}
	if failure != "" {
		if len(failure) > 500 {
			failure = failure[:500]
		}
		w.find(r, "C06/restart-from-export-failed", "export / import of the exported genesis failed", failure, "a chain can be restarted from its exported state")
		return "err"
	}
	w.restarts++
	after := w.xibcDump()
	var diff []string
	for k, v := range before {
		if w.junkKeys[k] {
			continue
		}
		if nv, ok := after[k]; !ok {
			diff = append(diff, "lost "+c06Clip(k))
		} else if nv != v {
			diff = append(diff, "changed "+c06Clip(k))
		}
	}
	for k := range after {
		if _, ok := before[k]; !ok {
			diff = append(diff, "new "+c06Clip(k))
		}
	}
	sort.Strings(diff)
	if len(diff) > 0 {
		if len(diff) > 6 {
			diff = append(diff[:6], fmt.Sprintf("… %d more", len(diff)-6))
		}
		w.find(r, "C06/restart-changed-the-xibc-store", "a restart from the exported genesis changed the registry / clients / packet state",
			strings.Join(diff, " | "), "byte-identical xibc store")
	}
	if w.sideHash() != sideBefore {
		r.Count("restart.evm-or-bank-store-differs") // outside C06 (C04 / C13 own it): recorded only
	}
	// the registry answers what governance registered — independent of the store comparison
	want := map[string]c06Reg{}
	for a, g := range w.lastReg {
		want[a] = g
	}
	for _, ir := range T.App.XIBCKeeper.ClientKeeper.GetAllRelayers(T.GetContext()) {
		g, ok := want[ir.Address]
		if !ok || strings.Join(g.chains, "\x00") != strings.Join(ir.Chains, "\x00") || strings.Join(g.addrs, "\x00") != strings.Join(ir.Addresses, "\x00") {
			w.find(r, "C06/registry-after-restart-differs-from-registrations", "after the restart a relayer's entry is not what governance registered for it",
				fmt.Sprintf("%s: chains %d addresses %d", ir.Address, len(ir.Chains), len(ir.Addresses)), fmt.Sprintf("chains %d addresses %d", len(g.chains), len(g.addrs)))
			break
		}
		delete(want, ir.Address)
	}
	if len(want) > 0 {
		w.find(r, "C06/registry-after-restart-differs-from-registrations", "after the restart registered relayers are missing", fmt.Sprintf("%d missing", len(want)), "all present")
	}
	return "ok"
}

func c06Clip(s string) string {
	if len(s) > 70 {
		return s[:70] + "…"
	}
	return s
}
