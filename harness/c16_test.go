//go:build c16

package verifharness

// C16 — ICS-20 middleware transparency. Drives the real aggregate.IBCMiddleware (taken from the app's sealed IBC
// router, i.e. exactly what app.go wired under the "transfer" route) over the real ibc-go transfer module inside a
// real app, and — for the same packet on a cache-context copy of the same state — the wrapped transfer module alone.
//
// op language (strings in hex, `-` = empty):
//   reset                                        -> ok
//   init <moduleAddr> <blocked,...>              -> ok        (facts of the app: aggregate module address, bank blocked addresses)
//   module <0|1>                                 -> ok        (params.EnableAggregate)
//   sendenabled <denom> <0|1>                    -> ok        (bank SendEnabled of one denom)
//   fund <addr> <denom> <amt>                    -> ok        (mint coins to an account)
//   register <denom> <kind> <owner>              -> ok <n> | err   (kind std = real RegisterCoin; others (tiny0/1/2, tinyd, revert, nocode, balrevert) = pair written to the
//                                                              store over a hand-assembled contract; owner m|x|u)
//   addcoin <denom> <existing denom>             -> ok | err  (real AddCoin: a second denom on the same pair)
//   toggle <denom>                               -> ok | err  (real ToggleRelay)
//   kill <denom>                                 -> ok | err  (remove the pair's contract account: "self-destructed")
//   cb <ack|timeout> <pkt> <ack bytes> <inner err 0|1> <k> (<addr> <denom> <delta>)*k  -> err=<0|1>   (packet SENT by this chain)
//   restart                                      -> ok        (aggregate ExportGenesis -> JSON -> Validate -> wipe store -> InitGenesis)
//   dry <pkt>                                    -> ok        (the packet through middleware and core handler on DROPPED contexts)
//   recv <pkt> rejected                          -> rejected  (MsgRecvPacket.ValidateBasic refuses it: never reaches the handler)
//   recv <seq,sp,sc,dp,dc,data> <dec> <amt|none> <rcv|none> <data.Denom> <n> (<raw trace> <its ibc-go name>)*n <inner ack> <k> (<addr> <denom> <delta>)*k
//        packet; then what the external decoders say (computed here with the node's own libraries); then what the
//        wrapped transfer module did on the copy (its acknowledgement and its bank effect)
//                                                -> ack=<..|nil> com=<..|nil> ev=<S|F|-> rv=<n|-> mv=<n> tok=<n|x|-> mtok=<n|x|-> reg=<0|1> cred=<denom|?|-> | panic
//        (tok / mtok: token balance of the receiver / of the module account in the pair's contract)

import (
	"bytes"
	"encoding/hex"
	"fmt"
	"math/big"
	"sort"
	"strings"
	"testing"
	"time"

	"github.com/cosmos/cosmos-sdk/crypto/keys/ed25519"
	sdk "github.com/cosmos/cosmos-sdk/types"
	"github.com/cosmos/cosmos-sdk/types/bech32"
	authtypes "github.com/cosmos/cosmos-sdk/x/auth/types"
	banktypes "github.com/cosmos/cosmos-sdk/x/bank/types"
	stakingtypes "github.com/cosmos/cosmos-sdk/x/staking/types"
	ibctransfer "github.com/cosmos/ibc-go/v3/modules/apps/transfer"
	transfertypes "github.com/cosmos/ibc-go/v3/modules/apps/transfer/types"
	clienttypes "github.com/cosmos/ibc-go/v3/modules/core/02-client/types"
	connectiontypes "github.com/cosmos/ibc-go/v3/modules/core/03-connection/types"
	commitmenttypes "github.com/cosmos/ibc-go/v3/modules/core/23-commitment/types"
	host "github.com/cosmos/ibc-go/v3/modules/core/24-host"
	ibctmtypes "github.com/cosmos/ibc-go/v3/modules/light-clients/07-tendermint/types"
	localhosttypes "github.com/cosmos/ibc-go/v3/modules/light-clients/09-localhost/types"
	channeltypes "github.com/cosmos/ibc-go/v3/modules/core/04-channel/types"
	porttypes "github.com/cosmos/ibc-go/v3/modules/core/05-port/types"
	ibcexported "github.com/cosmos/ibc-go/v3/modules/core/exported"
	"github.com/ethereum/go-ethereum/common"
	"github.com/ethereum/go-ethereum/crypto"
	tmproto "github.com/tendermint/tendermint/proto/tendermint/types"
	"github.com/tharsis/ethermint/x/evm/statedb"

	"github.com/teleport-network/teleport/app"
	"github.com/teleport-network/teleport/x/aggregate"
	erc20contracts "github.com/teleport-network/teleport/syscontracts/erc20"
	aggregatetypes "github.com/teleport-network/teleport/x/aggregate/types"
)

type c16World struct {
	app     *app.Teleport
	base    sdk.Context
	ctx     sdk.Context
	mw      porttypes.IBCModule // the routed stack: aggregate.IBCMiddleware
	inner   porttypes.IBCModule // the wrapped application alone
	modAddr sdk.AccAddress
	hist    []string
	nextC   int
	kinds   map[string]string // contract address -> kind (harness bookkeeping for signatures only)
	relayer sdk.AccAddress
}

// ---- hand-assembled contracts ------------------------------------------------------------------

type c16Asm struct {
	code   []byte
	labels map[string]int
	fix    map[int]string
}

func (a *c16Asm) op(b ...byte) *c16Asm { a.code = append(a.code, b...); return a }
func (a *c16Asm) push4(x uint32) *c16Asm {
	return a.op(0x63, byte(x>>24), byte(x>>16), byte(x>>8), byte(x))
}
func (a *c16Asm) jumpiTo(l string) *c16Asm {
	a.op(0x60, 0x00)
	a.fix[len(a.code)-1] = l
	return a.op(0x57)
}
func (a *c16Asm) jumpTo(l string) *c16Asm {
	a.op(0x60, 0x00)
	a.fix[len(a.code)-1] = l
	return a.op(0x56)
}
func (a *c16Asm) label(l string) *c16Asm { a.labels[l] = len(a.code); return a.op(0x5b) }
func (a *c16Asm) done() []byte {
	for pos, l := range a.fix {
		a.code[pos] = byte(a.labels[l])
	}
	return a.code
}

const (
	c16SelBalanceOf = 0x70a08231
	c16SelMint      = 0x40c10f19
	c16SelTransfer  = 0xa9059cbb
)

// tiny(k): mint/transfer(to, x): storage[to] += k*x, return true; balanceOf(a): return storage[a]; else revert.
func c16TinyCode(k byte) []byte {
	a := &c16Asm{labels: map[string]int{}, fix: map[int]string{}}
	a.op(0x60, 0x00, 0x35, 0x60, 0xe0, 0x1c) // selector
	a.op(0x80).push4(c16SelBalanceOf).op(0x14).jumpiTo("bal")
	a.op(0x80).push4(c16SelMint).op(0x14).jumpiTo("mv")
	a.push4(c16SelTransfer).op(0x14).jumpiTo("mv")
	a.op(0x60, 0x00, 0x60, 0x00, 0xfd)
	a.label("bal").op(0x60, 0x04, 0x35, 0x54, 0x60, 0x00, 0x52, 0x60, 0x20, 0x60, 0x00, 0xf3)
	a.label("mv").op(0x60, 0x24, 0x35, 0x60, k, 0x02, 0x60, 0x04, 0x35, 0x54, 0x01, 0x60, 0x04, 0x35, 0x55)
	a.op(0x60, 0x01, 0x60, 0x00, 0x52, 0x60, 0x20, 0x60, 0x00, 0xf3)
	return a.done()
}

// tinyd: an honest minimal ledger. mint(to, x): storage[to] += x; transfer(to, x): revert unless storage[caller] >= x,
// storage[caller] -= x, storage[to] += x; both return true; balanceOf(a): storage[a]; anything else reverts.
func c16TinyDebitCode() []byte {
	a := &c16Asm{labels: map[string]int{}, fix: map[int]string{}}
	a.op(0x60, 0x00, 0x35, 0x60, 0xe0, 0x1c) // selector
	a.op(0x80).push4(c16SelBalanceOf).op(0x14).jumpiTo("bal")
	a.op(0x80).push4(c16SelMint).op(0x14).jumpiTo("credit")
	a.push4(c16SelTransfer).op(0x14).jumpiTo("tr")
	a.label("rev").op(0x60, 0x00, 0x60, 0x00, 0xfd)
	a.label("bal").op(0x60, 0x04, 0x35, 0x54, 0x60, 0x00, 0x52, 0x60, 0x20, 0x60, 0x00, 0xf3)
	// tr: [x, bal[caller]]; revert if bal[caller] < x; bal[caller] -= x
	a.label("tr").op(0x60, 0x24, 0x35, 0x33, 0x54, 0x81, 0x81, 0x10).jumpiTo("rev").op(0x03, 0x33, 0x55)
	a.jumpTo("credit")
	// credit: bal[to] += x; return true
	a.label("credit").op(0x60, 0x24, 0x35, 0x60, 0x04, 0x35, 0x54, 0x01, 0x60, 0x04, 0x35, 0x55)
	a.op(0x60, 0x01, 0x60, 0x00, 0x52, 0x60, 0x20, 0x60, 0x00, 0xf3)
	return a.done()
}

// balrevert: mint/transfer return true without effect; everything else (balanceOf) reverts.
func c16BalRevertCode() []byte {
	a := &c16Asm{labels: map[string]int{}, fix: map[int]string{}}
	a.op(0x60, 0x00, 0x35, 0x60, 0xe0, 0x1c)
	a.op(0x80).push4(c16SelMint).op(0x14).jumpiTo("ok")
	a.push4(c16SelTransfer).op(0x14).jumpiTo("ok")
	a.op(0x60, 0x00, 0x60, 0x00, 0xfd)
	a.label("ok").op(0x60, 0x01, 0x60, 0x00, 0x52, 0x60, 0x20, 0x60, 0x00, 0xf3)
	return a.done()
}

func c16KindCode(kind string) []byte {
	switch kind {
	case "tiny0":
		return c16TinyCode(0)
	case "tiny1":
		return c16TinyCode(1)
	case "tiny2":
		return c16TinyCode(2)
	case "tinyd":
		return c16TinyDebitCode()
	case "revert":
		return []byte{0x60, 0x00, 0x60, 0x00, 0xfd}
	case "balrevert":
		return c16BalRevertCode()
	}
	return nil
}

// ---- world -------------------------------------------------------------------------------------

func newC16World(t *testing.T) *c16World {
	a := app.Setup(false, nil)
	priv := ed25519.GenPrivKeyFromSecret([]byte("c16-validator"))
	consAddr := sdk.ConsAddress(priv.PubKey().Address())
	ctx := a.BaseApp.NewContext(false, tmproto.Header{Height: 1, ChainID: "teleport_9000-1", Time: time.Unix(1700000000, 0).UTC(),
		ProposerAddress: consAddr.Bytes()})
	valAddr := sdk.ValAddress(bytes.Repeat([]byte{0x7a}, 20))
	validator, err := stakingtypes.NewValidator(valAddr, priv.PubKey(), stakingtypes.Description{})
	if err != nil {
		t.Fatal(err)
	}
	if err := a.StakingKeeper.SetValidatorByConsAddr(ctx, validator); err != nil {
		t.Fatal(err)
	}
	a.StakingKeeper.SetValidator(ctx, validator)
	w := &c16World{app: a, base: ctx}
	route, ok := a.IBCKeeper.Router.GetRoute(transfertypes.ModuleName)
	if !ok {
		t.Fatal("no transfer route")
	}
	w.mw = route
	w.inner = ibctransfer.NewIBCModule(a.IBCTransferKeeper)
	w.modAddr = authtypes.NewModuleAddress(aggregatetypes.ModuleName)
	w.relayer = sdk.AccAddress(bytes.Repeat([]byte{0x5e}, 20))
	// IBC fixtures for delivering packets through the real core handler (Keeper.RecvPacket): a localhost client
	// (its packet-commitment "proof" is a read of its own client store), an OPEN connection and two OPEN
	// UNORDERED transfer channels owned by the transfer module's capability.
	ik := a.IBCKeeper
	ik.ClientKeeper.SetClientState(ctx, c16Client, localhosttypes.NewClientState(ctx.ChainID(), clienttypes.NewHeight(1, 1)))
	conn := connectiontypes.NewConnectionEnd(connectiontypes.OPEN, c16Client,
		connectiontypes.NewCounterparty(c16Client, "connection-0", commitmenttypes.NewMerklePrefix([]byte("ibc"))),
		connectiontypes.ExportedVersionsToProto(connectiontypes.GetCompatibleVersions()), 0)
	ik.ConnectionKeeper.SetConnection(ctx, "connection-0", conn)
	for dc, sc := range c16Counterparty {
		ch := channeltypes.NewChannel(channeltypes.OPEN, channeltypes.UNORDERED, channeltypes.NewCounterparty(c16CounterpartyPort(dc), sc), []string{"connection-0"}, "ics20-1")
		ik.ChannelKeeper.SetChannel(ctx, "transfer", dc, ch)
		name := host.ChannelCapabilityPath("transfer", dc)
		cap, err := a.ScopedIBCKeeper.NewCapability(ctx, name)
		if err != nil {
			t.Fatal(err)
		}
		if err := a.ScopedIBCTransferKeeper.ClaimCapability(ctx, cap, name); err != nil {
			t.Fatal(err)
		}
	}
	w.reset()
	return w
}

const c16Client = "09-localhost"

// our channel -> the counterparty's channel
// channel-0 is symmetric; channel-1 and channel-2 are asymmetric and their counterparty's id is the id of ANOTHER local
// channel (a hook that derived the voucher denomination from the packet's source end would hit the sibling voucher of
// that other channel); channel-3's counterparty id names no local channel.
// channel-4's counterparty has the SAME channel id but another PORT id ("xfer"): source prefix != destination prefix there too.
var c16Counterparty = map[string]string{"channel-0": "channel-0", "channel-1": "channel-0", "channel-2": "channel-1", "channel-3": "channel-7", "channel-4": "channel-4"}

func c16CounterpartyPort(dc string) string {
	if dc == "channel-4" {
		return "xfer"
	}
	return "transfer"
}

// c16Voucher names a raw trace the way ibc-go does ("ibc/" + HEX(sha256) when it has a path, else the base denomination)
// - computed with ibc-go's own DenomTrace, NOT with the aggregate module's helper under test.
func c16Voucher(raw string) string { return transfertypes.ParseDenomTrace(raw).IBCDenom() }

// deliver runs the real ibc-go core handler for MsgRecvPacket on ctx; returns the acknowledgement hash stored for the
// packet (nil = none written).
// two relayers take turns (by packet sequence, so that a replay picks the same one)
func (w *c16World) relayerOf(pkt channeltypes.Packet) sdk.AccAddress {
	if pkt.Sequence%2 == 1 {
		return sdk.AccAddress(bytes.Repeat([]byte{0x5f}, 20))
	}
	return w.relayer
}

// deliverCb runs the real ibc-go core handler for MsgAcknowledgement / MsgTimeout of a packet SENT by this chain (fixtures:
// our packet commitment; the counterparty's acknowledgement / missing receipt in the localhost client store; a consensus
// state after the timeout). Returns the handler's error.
func (w *c16World) deliverCb(ctx sdk.Context, kind string, pkt channeltypes.Packet, ack []byte) (err error, panicked bool, pmsg string) {
	ik := w.app.IBCKeeper
	ik.ChannelKeeper.SetPacketCommitment(ctx, pkt.SourcePort, pkt.SourceChannel, pkt.Sequence, channeltypes.CommitPacket(w.app.AppCodec(), pkt))
	ph := clienttypes.NewHeight(1, 5000)
	if kind == "ack" {
		if verr := channeltypes.NewMsgAcknowledgement(pkt, ack, []byte{1}, ph, w.relayerOf(pkt).String()).ValidateBasic(); verr != nil {
			return verr, false, "validate-basic"
		}
		ik.ClientKeeper.ClientStore(ctx, c16Client).Set(host.PacketAcknowledgementKey(pkt.DestinationPort, pkt.DestinationChannel, pkt.Sequence),
			ack) // the v3 localhost client compares the raw acknowledgement bytes
		msg := channeltypes.NewMsgAcknowledgement(pkt, ack, []byte{1}, ph, w.relayerOf(pkt).String())
		if verr := msg.ValidateBasic(); verr != nil {
			return verr, false, "validate-basic"
		}
		panicked, pmsg = safely(func() { _, err = ik.Acknowledgement(sdk.WrapSDKContext(ctx), msg) })
		return
	}
	ik.ClientKeeper.SetClientConsensusState(ctx, c16Client, ph, &ibctmtypes.ConsensusState{Timestamp: ctx.BlockTime().Add(time.Hour),
		Root: commitmenttypes.NewMerkleRoot([]byte("root")), NextValidatorsHash: bytes.Repeat([]byte{1}, 32)})
	msg := channeltypes.NewMsgTimeout(pkt, 1, []byte{1}, ph, w.relayerOf(pkt).String())
	if verr := msg.ValidateBasic(); verr != nil {
		return verr, false, "validate-basic"
	}
	panicked, pmsg = safely(func() { _, err = ik.Timeout(sdk.WrapSDKContext(ctx), msg) })
	return
}

// aggregate module store, byte for byte (+ params)
func (w *c16World) aggDump(ctx sdk.Context) string {
	var sb strings.Builder
	it := ctx.KVStore(w.app.GetKey(aggregatetypes.StoreKey)).Iterator(nil, nil)
	defer it.Close()
	for ; it.Valid(); it.Next() {
		sb.WriteString(hx(it.Key()) + "=" + hx(it.Value()) + ";")
	}
	return sb.String() + fmt.Sprintf("|%v", w.app.AggregateKeeper.GetParams(ctx))
}

// restart: ExportGenesis -> JSON through the app codec -> GenesisState.Validate -> wipe the module store -> InitGenesis
func (w *c16World) restart(r *Rec) string {
	before := w.aggDump(w.ctx)
	var gs2 aggregatetypes.GenesisState
	var verr error
	pan, pmsg := safely(func() {
		gs := aggregate.ExportGenesis(w.ctx, *w.app.AggregateKeeper)
		bz := w.app.AppCodec().MustMarshalJSON(gs)
		w.app.AppCodec().MustUnmarshalJSON(bz, &gs2)
		verr = gs2.Validate()
	})
	if pan || verr != nil {
		w.fail(r, "C16:restart-export-invalid", "the aggregate module's own export does not pass its genesis validation", fmt.Sprint(pmsg, verr), "valid genesis")
		return "ok"
	}
	cc, write := w.ctx.CacheContext()
	st := cc.KVStore(w.app.GetKey(aggregatetypes.StoreKey))
	var keys [][]byte
	it := st.Iterator(nil, nil)
	for ; it.Valid(); it.Next() {
		keys = append(keys, append([]byte{}, it.Key()...))
	}
	it.Close()
	for _, k := range keys {
		st.Delete(k)
	}
	if pan, pmsg := safely(func() { aggregate.InitGenesis(cc, *w.app.AggregateKeeper, w.app.AccountKeeper, gs2) }); pan {
		w.fail(r, "C16:restart-import-panic", "InitGenesis panics on the module's own export: "+pmsg, "panic", "import")
		return "ok"
	}
	write()
	if after := w.aggDump(w.ctx); after != before {
		w.fail(r, "C16:restart-changed-state", "export/import of the aggregate module changed its state (pairs, denomination / contract index, enabled flags, params)",
			after, before)
	}
	r.Count("restart")
	if len(gs2.TokenPairs) > 0 {
		r.Count("restart.with-pairs")
	}
	for _, tp := range gs2.TokenPairs {
		if !tp.Enabled {
			r.Count("restart.with-disabled-pair")
			break
		}
	}
	return "ok"
}

// dry: the packet through the middleware and through the core handler on contexts that are DROPPED (simulation, CheckTx,
// a failed multi-message tx); nothing may change, later verdicts must be unaffected.
func (w *c16World) dry(r *Rec, p c16Pkt) string {
	pkt := p.packet()
	before := w.aggDump(w.ctx) + strings.Join(c16Diff(map[string]*big.Int{}, c16Balances(w, w.ctx)), ";")
	// twice on two dropped copies of the same state: both runs must be indistinguishable (nothing remembered outside the context)
	var outs [2]string
	for i := range outs {
		c1, _ := w.ctx.CacheContext()
		c1 = c1.WithEventManager(sdk.NewEventManager())
		var a ibcexported.Acknowledgement
		pan, _ := safely(func() { a = w.mw.OnRecvPacket(c1, pkt, w.relayerOf(pkt)) })
		outs[i] = fmt.Sprintf("%v|%s|%s|%d", pan, c16AckStr(a), strings.Join(c16Diff(map[string]*big.Int{}, c16Balances(w, c1)), ";"), len(c1.EventManager().Events())) + w.aggDump(c1)
	}
	if outs[0] != outs[1] {
		w.fail(r, "C16:dropped-context-leaked", "the same packet on two dropped copies of the same state gives different results: something outside the context remembers the first run",
			"second run differs", "identical runs")
	}
	c2, _ := w.ctx.CacheContext()
	if channeltypes.NewMsgRecvPacket(pkt, []byte{1}, clienttypes.NewHeight(1, 1), w.relayer.String()).ValidateBasic() == nil {
		w.deliver(c2, pkt)
	}
	if after := w.aggDump(w.ctx) + strings.Join(c16Diff(map[string]*big.Int{}, c16Balances(w, w.ctx)), ";"); after != before {
		w.fail(r, "C16:dropped-context-leaked", "running the packet on a dropped context changed the state", "changed", "unchanged")
	}
	r.Count("dry")
	return "ok"
}

func (w *c16World) deliver(ctx sdk.Context, pkt channeltypes.Packet) (stored []byte, err error, panicked bool, pmsg string) {
	ik := w.app.IBCKeeper
	ik.ClientKeeper.ClientStore(ctx, c16Client).Set(host.PacketCommitmentKey(pkt.SourcePort, pkt.SourceChannel, pkt.Sequence),
		channeltypes.CommitPacket(w.app.AppCodec(), pkt))
	msg := channeltypes.NewMsgRecvPacket(pkt, []byte{1}, clienttypes.NewHeight(1, 1), w.relayerOf(pkt).String())
	panicked, pmsg = safely(func() { _, err = ik.RecvPacket(sdk.WrapSDKContext(ctx), msg) })
	if panicked || err != nil {
		return nil, err, panicked, pmsg
	}
	if b, ok := ik.ChannelKeeper.GetPacketAcknowledgement(ctx, pkt.DestinationPort, pkt.DestinationChannel, pkt.Sequence); ok {
		stored = b
	}
	return stored, nil, false, ""
}

func (w *c16World) reset() {
	w.ctx, _ = w.base.CacheContext()
	w.hist = nil
	w.nextC = 0
	w.kinds = map[string]string{}
}

func (w *c16World) initLine() string {
	var bl []string
	for s, b := range w.app.BlockedAddrs() {
		if b {
			a, err := sdk.AccAddressFromBech32(s)
			if err == nil {
				bl = append(bl, hx(a))
			}
		}
	}
	sort.Strings(bl)
	return "init " + hx(w.modAddr) + " " + strings.Join(bl, ",")
}

func c16Balances(w *c16World, ctx sdk.Context) map[string]*big.Int {
	m := map[string]*big.Int{}
	w.app.BankKeeper.IterateAllBalances(ctx, func(a sdk.AccAddress, c sdk.Coin) bool {
		m[hx(a)+" "+hxs(c.Denom)] = c.Amount.BigInt()
		return false
	})
	return m
}

// sorted "addr denom delta" entries of b - a
func c16Diff(a, b map[string]*big.Int) []string {
	keys := map[string]bool{}
	for k := range a {
		keys[k] = true
	}
	for k := range b {
		keys[k] = true
	}
	var out []string
	for k := range keys {
		x, y := a[k], b[k]
		if x == nil {
			x = new(big.Int)
		}
		if y == nil {
			y = new(big.Int)
		}
		if d := new(big.Int).Sub(y, x); d.Sign() != 0 {
			out = append(out, k+" "+d.String())
		}
	}
	sort.Strings(out)
	return out
}

func (w *c16World) pairOf(ctx sdk.Context, denom string) (aggregatetypes.TokenPair, bool) {
	id := w.app.AggregateKeeper.GetTokenPairID(ctx, denom)
	if len(id) == 0 {
		return aggregatetypes.TokenPair{}, false
	}
	return w.app.AggregateKeeper.GetTokenPair(ctx, id)
}

// ERC-20 balance as reported by the contract ("x" when the call fails / is not unpackable); on a throwaway copy.
func (w *c16World) tokenBalance(ctx sdk.Context, contract, who common.Address) string {
	c, _ := ctx.CacheContext()
	res := "x"
	safely(func() {
		abi := erc20contracts.ERC20MinterBurnerDecimalsContract.ABI
		r, err := w.app.AggregateKeeper.CallEVM(c, abi, aggregatetypes.ModuleAddress, contract, "balanceOf", who)
		if err != nil {
			return
		}
		un, err := abi.Unpack("balanceOf", r.Ret)
		if err != nil || len(un) == 0 {
			return
		}
		if b, ok := un[0].(*big.Int); ok {
			res = b.String()
		}
	})
	return res
}

func c16AckStr(a ibcexported.Acknowledgement) string {
	if a == nil {
		return "nil"
	}
	if ca, ok := a.(channeltypes.Acknowledgement); ok {
		switch r := ca.Response.(type) {
		case *channeltypes.Acknowledgement_Result:
			return "s:" + hx(r.Result)
		case *channeltypes.Acknowledgement_Error:
			return "e:" + hxs(r.Error)
		}
	}
	if a.Success() {
		return "s:" + hx(a.Acknowledgement())
	}
	return "e:" + hx(a.Acknowledgement())
}

type c16Pkt struct {
	seq            uint64
	sp, sc, dp, dc string
	data           []byte
	timeout        *[3]uint64 // timeout height (revision number, revision height) and timestamp; nil = (1, 1000), 0
}

func (p c16Pkt) String() string {
	s := fmt.Sprintf("%d,%s,%s,%s,%s,%s", p.seq, p.sp, p.sc, p.dp, p.dc, hx(p.data))
	if p.timeout != nil {
		s += fmt.Sprintf(",%d,%d,%d", p.timeout[0], p.timeout[1], p.timeout[2])
	}
	return s
}

func c16ParsePkt(s string) c16Pkt {
	f := strings.Split(s, ",")
	var p c16Pkt
	fmt.Sscan(f[0], &p.seq)
	p.sp, p.sc, p.dp, p.dc = f[1], f[2], f[3], f[4]
	p.data = unhx(f[5])
	if len(f) >= 9 {
		var t [3]uint64
		fmt.Sscan(f[6], &t[0])
		fmt.Sscan(f[7], &t[1])
		fmt.Sscan(f[8], &t[2])
		p.timeout = &t
	}
	return p
}

func (p c16Pkt) packet() channeltypes.Packet {
	if p.timeout != nil {
		return channeltypes.NewPacket(p.data, p.seq, p.sp, p.sc, p.dp, p.dc, clienttypes.NewHeight(p.timeout[0], p.timeout[1]), p.timeout[2])
	}
	return channeltypes.NewPacket(p.data, p.seq, p.sp, p.sc, p.dp, p.dc, clienttypes.NewHeight(1, 1000), 0)
}

// amount classes (for the distribution): the range by the Go integer widths a careless conversion could overflow, and
// the exact boundary values
func c16AmtRange(a *big.Int) string {
	for _, b := range []struct {
		bits uint
		name string
	}{{31, "lt2e31"}, {32, "2e31-2e32"}, {53, "2e32-2e53"}, {63, "2e53-2e63"}, {64, "2e63-2e64"}, {128, "2e64-2e128"}, {255, "2e128-2e255"}} {
		if a.Cmp(new(big.Int).Lsh(big.NewInt(1), b.bits)) < 0 {
			return b.name
		}
	}
	return "ge2e255"
}

var c16Boundaries = func() map[string]string {
	m := map[string]string{}
	p2 := func(n uint, d int64) string {
		return new(big.Int).Add(new(big.Int).Lsh(big.NewInt(1), n), big.NewInt(d)).String()
	}
	p10 := func(n int64) string { return new(big.Int).Exp(big.NewInt(10), big.NewInt(n), nil).String() }
	m["1"] = "1"
	for _, n := range []uint{31, 32, 53, 63, 64} {
		m[fmt.Sprintf("2e%d-1", n)] = p2(n, -1)
		m[fmt.Sprintf("2e%d", n)] = p2(n, 0)
		m[fmt.Sprintf("2e%d+1", n)] = p2(n, 1)
	}
	m["2e128"], m["2e255"], m["2e256-1"], m["2e256-2"] = p2(128, 0), p2(255, 0), p2(256, -1), p2(256, -2)
	m["1e19"], m["1e30"], m["1e77"] = p10(19), p10(30), p10(77)
	return m
}()

func c16BoundaryName(a *big.Int) string {
	for n, v := range c16Boundaries {
		if v == a.String() {
			return n
		}
	}
	return ""
}

func (w *c16World) fail(r *Rec, sig, what, obs, req string) {
	r.Find(Finding{Sig: sig, What: what, Ops: append([]string{}, w.hist...), Obs: obs, Req: req})
}

// recv executes one packet; returns the full op line (with the decoder / inner-module facts) and the observation.
func (w *c16World) recv(r *Rec, p c16Pkt) (string, string) {
	pkt := p.packet()
	// -- the stateless stage a transaction passes first: MsgRecvPacket.ValidateBasic (packet identifiers, sequence != 0,
	// some timeout, NON-EMPTY data); a packet it rejects never reaches the handler
	if err := channeltypes.NewMsgRecvPacket(pkt, []byte{1}, clienttypes.NewHeight(1, 1), w.relayer.String()).ValidateBasic(); err != nil {
		line := "recv " + p.String() + " rejected"
		w.hist = append(w.hist, line)
		r.Count("recv.rejected-by-validate-basic")
		return line, "rejected"
	}
	// -- what the external decoders say (same libraries as the node) -------------------------------
	var data transfertypes.FungibleTokenPacketData
	dec := transfertypes.ModuleCdc.UnmarshalJSON(pkt.GetData(), &data) == nil
	amtS := "none"
	var amt *big.Int
	if dec {
		if a, ok := sdk.NewIntFromString(data.Amount); ok {
			amtS = a.String()
			amt = a.BigInt()
		}
	}
	rcvS := "none"
	var rcv sdk.AccAddress
	if dec {
		if a, err := sdk.AccAddressFromBech32(data.Receiver); err == nil {
			rcv = a
			rcvS = hx(a)
		}
	}
	dstPrefix := transfertypes.GetDenomPrefix(pkt.GetDestPort(), pkt.GetDestChannel())
	srcPrefix := transfertypes.GetDenomPrefix(pkt.GetSourcePort(), pkt.GetSourceChannel())
	// the voucher of the trace prefixed with the DESTINATION end: what the hook is specified to convert. Used for the
	// observation only (the oracle works from the denomination the transfer module credited).
	hookDenom := c16Voucher(dstPrefix + data.Denom)
	// sha256 naming of the raw traces the model may ask for
	hashes := []string{hxs(dstPrefix + data.Denom), hxs(hookDenom)}
	for _, pre := range []string{srcPrefix, dstPrefix} {
		if strings.HasPrefix(data.Denom, pre) {
			if u := data.Denom[len(pre):]; strings.Contains(u, "/") {
				hashes = append(hashes, hxs(u), hxs(c16Voucher(u)))
			}
		}
	}
	// -- the wrapped module alone, on a copy -------------------------------------------------------
	b0 := c16Balances(w, w.ctx)
	ctxI, _ := w.ctx.CacheContext()
	ctxI = ctxI.WithEventManager(sdk.NewEventManager())
	var innerAck ibcexported.Acknowledgement
	if pan, _ := safely(func() { innerAck = w.inner.OnRecvPacket(ctxI, pkt, w.relayerOf(pkt)) }); pan || innerAck == nil {
		r.Count("recv.inner-panic-or-nil")
		return "", ""
	}
	bI := c16Balances(w, ctxI)
	deltas := c16Diff(b0, bI)
	line := fmt.Sprintf("recv %s %s %s %s %s %d %s %s %d", p.String(), map[bool]string{true: "1", false: "0"}[dec], amtS, rcvS, hxs(data.Denom),
		len(hashes)/2, strings.Join(hashes, " "), c16AckStr(innerAck), len(deltas))
	if len(deltas) > 0 {
		line += " " + strings.Join(deltas, " ")
	}
	w.hist = append(w.hist, line)
	// -- the routed stack ---------------------------------------------------------------------------
	pairBefore, hadPair := w.pairOf(w.ctx, hookDenom)
	allPairs := w.app.AggregateKeeper.GetAllTokenPairs(w.ctx)
	// distribution only: the voucher the same base denomination has over the LOCAL channel whose id equals the
	// counterparty's channel id ("sibling"), registered, enabled and held by the receiver in sufficient amount
	siblingFunded := false
	if sib := c16Voucher(transfertypes.GetDenomPrefix(pkt.GetDestPort(), pkt.GetSourceChannel()) + data.Denom); dec && sib != hookDenom && rcv != nil && amt != nil && amt.Sign() > 0 {
		if sp, ok := w.pairOf(w.ctx, sib); ok && sp.Enabled {
			if have := b0[hx(rcv)+" "+hxs(sib)]; have != nil && have.Cmp(amt) >= 0 {
				siblingFunded = true
			}
		}
	}
	// distribution only: data.Denom merely STARTS with the destination prefix (not a returning coin); "funded": the
	// denomination obtained by (wrongly) stripping that prefix is a registered enabled pair the receiver holds enough of
	lookalike, lookalikeFunded := false, false
	if dec && strings.HasPrefix(data.Denom, dstPrefix) && !strings.HasPrefix(data.Denom, srcPrefix) {
		lookalike = true
		look := c16Voucher(data.Denom[len(dstPrefix):])
		if lp, ok := w.pairOf(w.ctx, look); ok && lp.Enabled && rcv != nil && amt != nil && amt.Sign() > 0 {
			if have := b0[hx(rcv)+" "+hxs(look)]; have != nil && have.Cmp(amt) >= 0 {
				lookalikeFunded = true
			}
		}
	}
	// distribution only: the pair of the received voucher aggregates several denominations; the receiver holds
	// (unconverted) vouchers of ANOTHER denomination of the same pair in sufficient amount
	multiDenom, otherHeld := hadPair && len(pairBefore.Denoms) > 1, false
	if multiDenom && rcv != nil && amt != nil && amt.Sign() > 0 {
		for _, od := range pairBefore.Denoms {
			if have := b0[hx(rcv)+" "+hxs(od)]; od != hookDenom && have != nil && have.Cmp(amt) >= 0 {
				otherHeld = true
			}
		}
	}
	ctxM, _ := w.ctx.CacheContext()
	ctxM = ctxM.WithEventManager(sdk.NewEventManager())
	var mwAck ibcexported.Acknowledgement
	pan, pmsg := safely(func() { mwAck = w.mw.OnRecvPacket(ctxM, pkt, w.relayerOf(pkt)) })
	kind := "-"
	if hadPair {
		kind = w.kinds[pairBefore.ERC20Address]
	}
	if pan {
		if kind == "balrevert" {
			r.Count("recv.panic.insane-contract") // outside the guards of the theorems (contract whose balanceOf fails while mint succeeds)
		} else {
			r.Count("recv.panic")
			// a panic out of the callback is an outcome of its own: the whole MsgRecvPacket fails (no receipt, no vouchers, the
			// transfer module's acknowledgement is never committed) - never equal to the bare transfer module's result
			w.fail(r, "C16:callback-panicked", "IBCMiddleware.OnRecvPacket panicked ("+pmsg+") on a packet for which the bare transfer module returned "+c16AckStr(innerAck)+
				"; neither the hook nor the middleware recovers, so MsgRecvPacket fails as a whole", "panic", c16AckStr(innerAck))
		}
		return line, "panic"
	}
	ev := "-"
	for _, e := range ctxM.EventManager().Events() {
		if strings.HasSuffix(e.Type, "EventIBCAggregate") {
			for _, at := range e.Attributes {
				if string(at.Key) == "status" {
					if strings.Contains(string(at.Value), "SUCCESS") {
						ev = "S"
					} else if strings.Contains(string(at.Value), "FAILED") {
						ev = "F"
					} else {
						ev = "?"
					}
				}
			}
		}
	}
	bM := c16Balances(w, ctxM)
	var recvEvm common.Address
	recvEvm = common.BytesToAddress(rcv.Bytes())
	seqI, _ := w.app.AccountKeeper.GetSequence(ctxI, w.modAddr)
	seqM, _ := w.app.AccountKeeper.GetSequence(ctxM, w.modAddr)
	innerOK := innerAck.Success()

	// ---- property oracle (on the implementation's observations only) -----------------------------
	// (a) transparency: the stack returns exactly the wrapped module's acknowledgement
	if mwAck == nil {
		w.fail(r, "C16:ack-not-inner:nil", "IBCMiddleware.OnRecvPacket returned nil although the wrapped transfer module returned "+c16AckStr(innerAck)+
			" (ibc-go core writes no acknowledgement for nil: the packet is never acknowledged)", "nil", c16AckStr(innerAck))
	} else if !bytes.Equal(mwAck.Acknowledgement(), innerAck.Acknowledgement()) || mwAck.Success() != innerAck.Success() {
		w.fail(r, "C16:ack-not-inner:different", "IBCMiddleware.OnRecvPacket returned an acknowledgement different from the wrapped module's",
			c16AckStr(mwAck), c16AckStr(innerAck))
	}
	// (b) atomic conversion OF THE RECEIVED VOUCHERS: relative to the wrapped module's run alone, either nothing changed
	// (no balance of any account / denomination, no token balance of the receiver in any registered pair's contract, no
	// module nonce), or exactly `amt` of the denomination THE TRANSFER MODULE CREDITED moved receiver -> module account
	// (burned for an externally owned pair) and the receiver's token balance in that denomination's contract grew by amt.
	// Nothing here uses the denomination the hook is supposed to compute.
	credited, nCredited := "", 0
	if innerOK && rcv != nil {
		for _, e := range deltas {
			f := strings.Fields(e)
			if f[0] == hx(rcv) && !strings.HasPrefix(f[2], "-") {
				credited = string(unhx(f[1]))
				nCredited++
			}
		}
	}
	var tokChanged []string // contracts (of pairs registered before the packet) where the receiver's token balance differs
	tokDelta := map[string]*big.Int{}
	for _, tp := range allPairs {
		x, y := w.tokenBalance(ctxI, tp.GetERC20Contract(), recvEvm), w.tokenBalance(ctxM, tp.GetERC20Contract(), recvEvm)
		if x != y {
			tokChanged = append(tokChanged, tp.ERC20Address+":"+x+"->"+y)
			xi, ok1 := new(big.Int).SetString(x, 10)
			yi, ok2 := new(big.Int).SetString(y, 10)
			if ok1 && ok2 {
				tokDelta[tp.ERC20Address] = yi.Sub(yi, xi)
			}
		}
	}
	diff := c16Diff(bI, bM)
	converted := false
	switch {
	case len(diff) == 0:
		if len(tokChanged) != 0 || seqI != seqM {
			w.fail(r, "C16:partial-conversion:evm-changed", "bank balances are those left by the transfer module but the EVM side changed",
				fmt.Sprintf("token balances %v, module nonce %d -> %d", tokChanged, seqI, seqM), "no change")
		}
	case !innerOK:
		w.fail(r, "C16:effects-after-error-ack", "the middleware changed balances although the wrapped module returned an error acknowledgement",
			strings.Join(diff, "; "), "no change")
	default:
		// is the bank difference one complete conversion of SOME denomination D by SOME amount A?
		var convD string
		var convA *big.Int
		burned := false
		if rcv != nil && (len(diff) == 1 || len(diff) == 2) {
			var rcvE, modE []string
			for _, e := range diff {
				f := strings.Fields(e)
				if f[0] == hx(rcv) {
					rcvE = f
				} else if f[0] == hx(w.modAddr) {
					modE = f
				}
			}
			if rcvE != nil && strings.HasPrefix(rcvE[2], "-") && (len(diff) == 1 || (modE != nil && modE[1] == rcvE[1] && "-"+modE[2] == rcvE[2])) {
				convD = string(unhx(rcvE[1]))
				convA, _ = new(big.Int).SetString(rcvE[2][1:], 10)
				burned = len(diff) == 1
			}
		}
		okShape := false
		if convA != nil {
			if cp, ok := w.pairOf(w.ctx, convD); ok && ((burned && cp.IsNativeERC20()) || (!burned && cp.IsNativeCoin())) {
				if d := tokDelta[cp.ERC20Address]; len(tokChanged) == 1 && d != nil && d.Cmp(convA) == 0 {
					okShape = true // one complete conversion of convA of convD
				}
			}
		}
		switch {
		case okShape && len(rcv) != common.AddressLength:
			// own computation: only a 20-byte account address HAS an EVM account (the same 20 bytes). For any other length the
			// tokens necessarily went to an account that is not the receiver's (last 20 bytes / left-padded), while the vouchers
			// were taken from the receiver: only "vouchers untouched" is acceptable.
			w.fail(r, fmt.Sprintf("C16:conversion-credited-foreign-account:len=%d", len(rcv)),
				fmt.Sprintf("the receiver is a %d-byte account address; its vouchers were escrowed but the ERC-20 tokens were credited to the 20-byte EVM account %s, which is not the receiver's account",
					len(rcv), recvEvm.Hex()),
				fmt.Sprintf("bank diff [%s] token balances %v", strings.Join(diff, "; "), tokChanged),
				"vouchers left untouched in the receiver's account (no EVM account corresponds to a non-20-byte address)")
		case okShape && nCredited == 1 && convD == credited && amt != nil && convA.Cmp(amt) == 0:
			converted = true
		case okShape && convD != credited:
			w.fail(r, "C16:converted-other-denomination", "the middleware converted vouchers of a denomination the transfer module did not credit for this packet: "+
				"the received vouchers stay in the account while other holdings of the receiver were escrowed and turned into tokens",
				fmt.Sprintf("converted %s of %s (bank diff [%s], token %v); the transfer module credited %q", convA, convD, strings.Join(diff, "; "), tokChanged, credited),
				"convert exactly the received amount of the credited denomination, or nothing")
		default:
			w.fail(r, "C16:partial-conversion", "after OnRecvPacket the balances are neither those left by the transfer module nor those plus one complete conversion of the received vouchers",
				fmt.Sprintf("bank diff [%s] token balances %v; credited %q amount %s", strings.Join(diff, "; "), tokChanged, credited, amtS),
				"receiver -amt of the credited vouchers, module +amt (escrow), receiver +amt tokens; or nothing")
		}
	}
	// (c) the guards assumed about the wrapped module (ICS-20 ValidateBasic / OnRecvPacket)
	if innerOK && !(dec && amt != nil && amt.Sign() > 0 && rcv != nil) {
		w.fail(r, "C16:inner-guard-assumption", "the transfer module acknowledged success for a packet it should have rejected (assumption of the theorems)",
			fmt.Sprintf("dec=%v amt=%s rcv=%s", dec, amtS, rcvS), "decodable, positive amount, valid receiver")
	}

	// ---- the same packet through the real ibc-go core handler (Keeper.RecvPacket with MsgRecvPacket) ------------
	ctxE, writeE := w.ctx.CacheContext()
	ctxE = ctxE.WithEventManager(sdk.NewEventManager())
	stored, derr, dpan, dmsg := w.deliver(ctxE, pkt)
	if dpan || derr != nil {
		r.t.Fatalf("C16 fixture: core RecvPacket failed: %v %s", derr, dmsg)
	}
	com := "nil"
	switch {
	case stored == nil:
	case mwAck != nil && bytes.Equal(stored, channeltypes.CommitAcknowledgement(mwAck.Acknowledgement())):
		com = c16AckStr(mwAck)
	default:
		com = "?" + hx(stored)
	}
	// (a') transparency where it matters: the acknowledgement COMMITTED for the packet is the wrapped module's
	if want := channeltypes.CommitAcknowledgement(innerAck.Acknowledgement()); !bytes.Equal(stored, want) {
		sig := "C16:committed-ack-not-inner:different"
		if stored == nil {
			sig = "C16:committed-ack-not-inner:none"
		}
		w.fail(r, sig, "after MsgRecvPacket through ibc-go core the acknowledgement stored for the packet is not the wrapped transfer module's ("+
			c16AckStr(innerAck)+")", "stored ack hash "+hx(stored), "hash of "+c16AckStr(innerAck)+" = "+hx(want))
	}
	// trusted-base check: core writes the callback's state iff the returned value is nil or successful
	var expect map[string]*big.Int
	if mwAck == nil || mwAck.Success() {
		expect = bM
	} else {
		expect = b0
	}
	if d := c16Diff(expect, c16Balances(w, ctxE)); len(d) != 0 {
		w.fail(r, "C16:core-rule-mismatch", "ibc-go core did not treat the callback's result as transcribed in the model (coreCommit)",
			strings.Join(d, "; "), "no difference")
	}
	writeE()
	// ---- observation -----------------------------------------------------------------------------
	rv := "-"
	if rcv != nil {
		rv = w.app.BankKeeper.GetBalance(w.ctx, rcv, hookDenom).Amount.String()
	}
	mv := w.app.BankKeeper.GetBalance(w.ctx, w.modAddr, hookDenom).Amount.String()
	tok := "-"
	if hadPair {
		tok = w.tokenBalance(w.ctx, pairBefore.GetERC20Contract(), recvEvm)
	}
	// the denomination the transfer module credited, as observed on its run alone (differential: the model transcribes
	// ibc-go's rule from the packet's source / destination port, channel and data.Denom)
	credObs := "-"
	if innerOK {
		credObs = "?"
		if nCredited == 1 {
			credObs = hxs(credited)
		}
	}
	mtok := "-"
	if hadPair {
		mtok = w.tokenBalance(w.ctx, pairBefore.GetERC20Contract(), aggregatetypes.ModuleAddress)
	}
	reg := "0"
	if w.app.AggregateKeeper.IsDenomRegistered(w.ctx, hookDenom) {
		reg = "1"
	}
	// ---- distribution ----------------------------------------------------------------------------
	switch {
	case !innerOK:
		r.Count("recv.inner-error")
	case converted:
		r.Count("recv.converted")
		r.Count("recv.converted." + kind)
		r.Count("recv.converted.amt." + c16AmtRange(amt))
		if n := c16BoundaryName(amt); n != "" {
			r.Count("recv.converted.amt.at." + n)
		}
		if hadPair && pairBefore.IsNativeERC20() {
			r.Count("recv.converted.external")
		}
	case ev == "S":
		r.Count("recv.pair-deleted")
	case hadPair:
		r.Count("recv.conversion-failed")
		r.Count("recv.conversion-failed." + kind)
		if amt != nil && amt.Sign() > 0 {
			r.Count("recv.conversion-failed.amt." + c16AmtRange(amt))
		}
		if pairBefore.IsNativeERC20() {
			r.Count("recv.conversion-failed.external")
		}
	default:
		r.Count("recv.unregistered")
	}
	if !dec {
		r.Count("recv.malformed-data")
	}
	if innerOK && p.sc != p.dc {
		r.Count("recv.asymmetric-channels")
		if converted {
			r.Count("recv.asymmetric-channels.converted")
		}
	}
	if innerOK && p.sp != p.dp {
		r.Count("recv.port-asymmetric")
	}
	if innerOK && multiDenom {
		r.Count("recv.multidenom-pair")
		if hookDenom != pairBefore.Denoms[0] {
			r.Count("recv.multidenom-pair.not-first-denom")
		}
		if converted {
			r.Count("recv.multidenom-pair.converted")
		}
		if otherHeld {
			r.Count("recv.multidenom-pair.other-held")
			if converted && hookDenom != pairBefore.Denoms[0] {
				r.Count("recv.multidenom-pair.other-held.not-first.converted")
			}
		}
	}
	if rcv != nil && w.app.BankKeeper.BlockedAddr(rcv) {
		r.Count("recv.receiver-blocked")
	}
	if innerOK && rcv != nil {
		lc := fmt.Sprintf("recv.rcvlen.%d", len(rcv))
		switch l := len(rcv); {
		case l == 1 || l == 19 || l == 20 || l == 21 || l == 32 || l == 64 || l == 255:
		default:
			lc = "recv.rcvlen.other"
		}
		r.Count(lc)
		switch {
		case !hadPair:
			r.Count(lc + ".unregistered")
		case !pairBefore.Enabled:
			r.Count(lc + ".registered-disabled")
		default:
			r.Count(lc + ".registered-enabled")
			if pairBefore.IsNativeERC20() {
				r.Count(lc + ".registered-enabled.erc20-owned")
			} else if pairBefore.IsNativeCoin() {
				r.Count(lc + ".registered-enabled.coin-owned")
			}
			if converted {
				r.Count(lc + ".converted")
			}
		}
	}
	if innerOK && lookalike {
		r.Count("recv.lookalike")
		if lookalikeFunded {
			r.Count("recv.lookalike-funded")
			if converted {
				r.Count("recv.lookalike-funded.converted")
			}
		}
	}
	if dec {
		hops := 0
		for rest := data.Denom; ; hops++ {
			f := strings.SplitN(rest, "/", 3)
			if len(f) < 3 || !strings.HasPrefix(f[1], "channel-") {
				break
			}
			rest = f[2]
		}
		if innerOK {
			r.Count(fmt.Sprintf("recv.hops.%d", hops))
		}
		class := "text"
		if hrp, _, err := bech32.DecodeAndConvert(data.Sender); err == nil {
			class = "bech32-other"
			if hrp == sdk.GetConfig().GetBech32AccountAddrPrefix() {
				class = "bech32-own"
			}
		} else if strings.HasPrefix(data.Sender, "0x") {
			class = "hex"
		} else if strings.TrimSpace(data.Sender) == "" {
			class = "blank"
		}
		if innerOK || class == "blank" {
			r.Count("recv.sender." + class)
		}
	}
	if innerOK && siblingFunded {
		r.Count("recv.sibling-denom-funded")
		if !hadPair {
			r.Count("recv.sibling-denom-funded.dest-unregistered")
		} else if converted {
			r.Count("recv.sibling-denom-funded.dest-converted")
		}
	}
	if transfertypes.ReceiverChainIsSource(p.sp, p.sc, data.Denom) && dec {
		r.Count("recv.returning")
		if innerOK {
			r.Count("recv.returning.ok")
		}
	}
	r.Nontrivial(strings.Join(w.hist, ";"))
	return line, fmt.Sprintf("ack=%s com=%s ev=%s rv=%s mv=%s tok=%s mtok=%s reg=%s cred=%s", c16AckStr(mwAck), com, ev, rv, mv, tok, mtok, reg, credObs)
}

func c16Metadata(denom string) banktypes.Metadata {
	return banktypes.Metadata{
		Description: "c16 voucher",
		Base:        denom,
		DenomUnits:  []*banktypes.DenomUnit{{Denom: denom, Exponent: 0}},
		Name:        denom,
		Symbol:      "C16",
		Display:     denom,
	}
}

// apply executes a non-recv op; returns the observation.
func (w *c16World) apply(r *Rec, op string) string {
	f := strings.Fields(op)
	k := w.app.AggregateKeeper
	switch f[0] {
	case "reset":
		w.reset()
		w.hist = []string{op}
		return "ok"
	case "init":
		w.hist = append(w.hist, op)
		return "ok"
	}
	w.hist = append(w.hist, op)
	switch f[0] {
	case "module":
		p := k.GetParams(w.ctx)
		p.EnableAggregate = f[1] == "1"
		k.SetParams(w.ctx, p)
		return "ok"
	case "sendenabled":
		d := string(unhx(f[1]))
		p := w.app.BankKeeper.GetParams(w.ctx)
		var se []*banktypes.SendEnabled
		for _, x := range p.SendEnabled {
			if x.Denom != d {
				se = append(se, x)
			}
		}
		se = append(se, &banktypes.SendEnabled{Denom: d, Enabled: f[2] == "1"})
		p.SendEnabled = se
		w.app.BankKeeper.SetParams(w.ctx, p)
		return "ok"
	case "fund":
		addr := sdk.AccAddress(unhx(f[1]))
		d := string(unhx(f[2]))
		a, _ := sdk.NewIntFromString(f[3])
		c := sdk.NewCoins(sdk.NewCoin(d, a))
		cc, write := w.ctx.CacheContext()
		var err error
		pan, _ := safely(func() { // sdk.Int panics when the supply would exceed 2^256-1
			if err = w.app.BankKeeper.MintCoins(cc, aggregatetypes.ModuleName, c); err == nil && !addr.Equals(w.modAddr) {
				err = w.app.BankKeeper.SendCoins(cc, w.modAddr, addr, c)
			}
		})
		if pan || err != nil {
			w.hist = w.hist[:len(w.hist)-1]
			r.Count("fund.skipped")
			return "" // not recorded: the op did not happen
		}
		write()
		return "ok"
	case "register":
		d := string(unhx(f[1]))
		kind, owner := f[2], f[3]
		if k.IsDenomRegistered(w.ctx, d) {
			return "err"
		}
		own := map[string]aggregatetypes.Owner{"m": aggregatetypes.OWNER_MODULE, "x": aggregatetypes.OWNER_EXTERNAL, "u": aggregatetypes.OWNER_UNSPECIFIED}[owner]
		if kind == "std" {
			cc, write := w.ctx.CacheContext()
			pair, err := k.RegisterCoin(cc, c16Metadata(d))
			if err != nil {
				if envInt("C16_DEBUG", 0) > 0 {
					fmt.Println("C16_DEBUG register:", err)
				}
				return "err"
			}
			if own != aggregatetypes.OWNER_MODULE {
				pair.ContractOwner = own
				k.SetTokenPair(cc, *pair)
			}
			write()
			w.kinds[pair.ERC20Address] = kind
		} else {
			addr := common.BytesToAddress([]byte{0xc1, 0x60, byte(w.nextC >> 8), byte(w.nextC)})
			if code := c16KindCode(kind); code != nil {
				h := crypto.Keccak256(code)
				w.app.EvmKeeper.SetCode(w.ctx, h, code)
				if err := w.app.EvmKeeper.SetAccount(w.ctx, addr, statedb.Account{Nonce: 1, Balance: new(big.Int), CodeHash: h}); err != nil {
					r.t.Fatalf("SetAccount: %v", err)
				}
				if kind == "tinyd" { // the module account holds 2^256-1 tokens (its token escrow) from the start
					pre := new(big.Int).Sub(new(big.Int).Lsh(big.NewInt(1), 256), big.NewInt(1)) // 2^256-1
					w.app.EvmKeeper.SetState(w.ctx, addr, common.BytesToHash(aggregatetypes.ModuleAddress.Bytes()), common.BigToHash(pre).Bytes())
				}
			}
			pair := aggregatetypes.NewTokenPair(addr, []string{d}, true, own)
			k.SetTokenPair(w.ctx, pair)
			k.SetDenomsMap(w.ctx, pair.Denoms, pair.GetID())
			k.SetERC20Map(w.ctx, addr, pair.GetID())
			w.kinds[pair.ERC20Address] = kind
		}
		n := w.nextC
		w.nextC++
		r.Count("register." + kind)
		return fmt.Sprintf("ok %d", n)
	case "addcoin":
		d, ex := string(unhx(f[1])), string(unhx(f[2]))
		pair, ok := w.pairOf(w.ctx, ex)
		if !ok {
			return "err"
		}
		cc, write := w.ctx.CacheContext()
		if _, err := k.AddCoin(cc, c16Metadata(d), pair.ERC20Address); err != nil {
			return "err"
		}
		write()
		return "ok"
	case "toggle":
		if _, err := k.ToggleRelay(w.ctx, string(unhx(f[1]))); err != nil {
			return "err"
		}
		return "ok"
	case "kill":
		pair, ok := w.pairOf(w.ctx, string(unhx(f[1])))
		if !ok {
			return "err"
		}
		// not EvmKeeper.DeleteAccount: ethermint v0.13.0 removes the code by code HASH there, which would also kill
		// every other contract with the same byte code (all RegisterCoin deployments); only the account goes away.
		if acct := w.app.AccountKeeper.GetAccount(w.ctx, sdk.AccAddress(pair.GetERC20Contract().Bytes())); acct != nil {
			w.app.AccountKeeper.RemoveAccount(w.ctx, acct)
		}
		w.kinds[pair.ERC20Address] = "nocode"
		return "ok"
	}
	r.t.Fatalf("bad op %q", op)
	return ""
}

// cb executes OnAcknowledgementPacket / OnTimeoutPacket of a packet SENT by this chain on the wrapped module alone and
// on the routed stack (copies of the same state) and compares them.
func (w *c16World) cb(r *Rec, kind string, p c16Pkt, ack []byte) (string, string) {
	pkt := p.packet()
	call := func(m porttypes.IBCModule, ctx sdk.Context) (err error, pan bool) {
		pan, _ = safely(func() {
			if kind == "ack" {
				err = m.OnAcknowledgementPacket(ctx, pkt, ack, w.relayerOf(pkt))
			} else {
				err = m.OnTimeoutPacket(ctx, pkt, w.relayerOf(pkt))
			}
		})
		return
	}
	b0 := c16Balances(w, w.ctx)
	ctxI, _ := w.ctx.CacheContext()
	errI, panI := call(w.inner, ctxI)
	if panI {
		r.Count("cb.inner-panic")
		return "", ""
	}
	bI := c16Balances(w, ctxI)
	deltas := c16Diff(b0, bI)
	ie := "0"
	if errI != nil {
		ie = "1"
		deltas = nil
	}
	line := fmt.Sprintf("cb %s %s %s %s %d", kind, p.String(), hx(ack), ie, len(deltas))
	if len(deltas) > 0 {
		line += " " + strings.Join(deltas, " ")
	}
	w.hist = append(w.hist, line)
	ctxM, write := w.ctx.CacheContext()
	errM, panM := call(w.mw, ctxM)
	if panM {
		w.fail(r, "C16:callback-panic", "the middleware's "+kind+" callback panics where the wrapped module does not", "panic", "pass-through")
		return line, "panic"
	}
	if (errI == nil) != (errM == nil) {
		w.fail(r, "C16:callback-not-passthrough:result", "the middleware's "+kind+" callback does not return the wrapped module's result",
			fmt.Sprint(errM), fmt.Sprint(errI))
	}
	if d := c16Diff(bI, c16Balances(w, ctxM)); len(d) != 0 {
		w.fail(r, "C16:callback-not-passthrough:effects", "the middleware's "+kind+" callback has other effects than the wrapped module's",
			strings.Join(d, "; "), "no difference")
	}
	r.Count("cb." + kind)
	// ---- the same through the real ibc-go core handler (MsgAcknowledgement / MsgTimeout, router as wired in app.go) ----
	ctxE, writeE := w.ctx.CacheContext()
	errE, panE, msgE := w.deliverCb(ctxE, kind, pkt, ack)
	switch {
	case msgE == "validate-basic":
		r.Count("cb.core.rejected-by-validate-basic") // e.g. an empty acknowledgement: never reaches the handler
	case panE:
		w.fail(r, "C16:callback-panic", "MsgAcknowledgement / MsgTimeout through ibc-go core panics: "+msgE, "panic", "the wrapped module's result")
	default:
		r.Count("cb.core")
		if (errE == nil) != (errI == nil) {
			w.fail(r, "C16:callback-not-passthrough:core", "Msg"+kind+" through ibc-go core does not end like the bare transfer module's callback",
				fmt.Sprint(errE), fmt.Sprint(errI))
		} else if errE == nil {
			if d := c16Diff(bI, c16Balances(w, ctxE)); len(d) != 0 {
				w.fail(r, "C16:callback-not-passthrough:core", "Msg"+kind+" through ibc-go core leaves other balances than the bare transfer module's callback",
					strings.Join(d, "; "), "no difference")
			}
			if c := w.app.IBCKeeper.ChannelKeeper.GetPacketCommitment(ctxE, pkt.SourcePort, pkt.SourceChannel, pkt.Sequence); len(c) != 0 {
				w.fail(r, "C16:callback-not-passthrough:core", "packet commitment not cleared after Msg"+kind, hx(c), "deleted")
			}
			r.Count("cb.core.ok")
			if len(deltas) > 0 {
				r.Count("cb.core.refund")
			}
		}
	}
	if errM != nil {
		r.Count("cb.err")
		return line, "err=1"
	}
	if len(deltas) > 0 {
		r.Count("cb.refund")
		for _, e := range deltas {
			if f := strings.Fields(e); !strings.HasPrefix(f[2], "-") && strings.HasPrefix(string(unhx(f[1])), "ibc/") {
				r.Count("cb.refund.voucher")
			} else if !strings.HasPrefix(f[2], "-") {
				r.Count("cb.refund.native")
			}
		}
	}
	if msgE != "validate-basic" && !panE && errE == nil {
		writeE() // the state the real handler produced
	} else {
		write()
	}
	return line, "err=0"
}

func (w *c16World) run(r *Rec, h []string) {
	for _, op := range h {
		if strings.HasPrefix(op, "cb ") {
			f := strings.Fields(op)
			line, out := w.cb(r, f[1], c16ParsePkt(f[2]), unhx(f[3]))
			if line != "" {
				r.Op(line, out)
			}
			continue
		}
		if op == "restart" {
			w.hist = append(w.hist, op)
			r.Op(op, w.restart(r))
			continue
		}
		if strings.HasPrefix(op, "dry ") {
			w.hist = append(w.hist, op)
			r.Op(op, w.dry(r, c16ParsePkt(strings.Fields(op)[1])))
			continue
		}
		if strings.HasPrefix(op, "recv ") {
			line, out := w.recv(r, c16ParsePkt(strings.Fields(op)[1]))
			if line != "" {
				r.Op(line, out)
			}
			continue
		}
		if op == "init" || strings.HasPrefix(op, "init ") { // facts of the app, recomputed (corpus files just say `init`)
			op = w.initLine()
		}
		if out := w.apply(r, op); out != "" {
			r.Op(op, out)
		}
	}
}

// ---- generator ---------------------------------------------------------------------------------

func pick64(rng interface{ Intn(int) int }, xs []uint64) uint64 { return xs[rng.Intn(len(xs))] }

func c16Data(denom, amount, sender, receiver string) []byte {
	return transfertypes.NewFungibleTokenPacketData(denom, amount, sender, receiver).GetBytes()
}

func TestC16(t *testing.T) {
	r := NewRec(t, "C16")
	defer r.Close()
	w := newC16World(t)
	if ops := replayOps(t); ops != nil {
		w.run(r, ops)
		return
	}
	for _, h := range corpusOps("C16") {
		w.run(r, append([]string{"reset"}, h...))
	}
	hist := 400
	if r.Tier == "thorough" {
		hist = 1500
	}
	if n := envInt("VERIF_N", 0); n > 0 {
		hist = int(n)
	}
	rng := r.Rng
	pick := func(xs []string) string { return xs[rng.Intn(len(xs))] }
	bases := []string{"uatom", "uosmo", "transfer/channel-7/uusd", "uatom", "transfer/channel-8/transfer/channel-9/uxyz"}
	dstChans := []string{"channel-0", "channel-0", "channel-0", "channel-1", "channel-1", "channel-1", "channel-2", "channel-2", "channel-3", "channel-3", "channel-4"}
	hook := func(dc, base string) string { return c16Voucher("transfer/" + dc + "/" + base) }
	senderOther, _ := bech32.ConvertAndEncode("osmo", bytes.Repeat([]byte{0x77}, 20))
	senderLong, _ := bech32.ConvertAndEncode("juno", bytes.Repeat([]byte{0x78}, 32))
	senders := []string{"cosmos1sender", sdk.AccAddress(bytes.Repeat([]byte{0x66}, 20)).String(), senderOther, senderLong,
		"0x6666666666666666666666666666666666666666", "0X66", "alice", "some one @ somewhere", "\u017elu\u0165ou\u010dk\u00fd", strings.Repeat("s", 300)}
	addr := func(b byte, n int) sdk.AccAddress { return sdk.AccAddress(bytes.Repeat([]byte{b}, n)) }
	goodRecv := []string{addr(0x11, 20).String(), addr(0x22, 20).String(), addr(0x33, 20).String()}
	otherHrp, _ := bech32.ConvertAndEncode("other", addr(0x11, 20))
	broken := []byte(addr(0x11, 20).String())
	broken[len(broken)-1] ^= 1
	oddRecv := []string{addr(0x00, 20).String(), addr(0x44, 32).String(), addr(0x55, 5).String(), w.modAddr.String(),
		authtypes.NewModuleAddress(transfertypes.ModuleName).String(), transfertypes.GetEscrowAddress("transfer", "channel-0").String(),
		"", " ", "xyz", otherHrp, string(broken), "0x1111111111111111111111111111111111111111", strings.ToUpper(addr(0x22, 20).String())}
	for _, m := range []string{"fee_collector", "distribution", "bonded_tokens_pool", "not_bonded_tokens_pool", "gov", "evm", "packet", "interchainaccounts", "rvesting"} {
		oddRecv = append(oddRecv, authtypes.NewModuleAddress(m).String()) // blocked (distribution: allowed) module accounts
	}
	var lenRecv []string
	for i, n := range []int{1, 19, 21, 32, 32, 64, 255} {
		lenRecv = append(lenRecv, addr(byte(0xa0+i), n).String())
	}
	max256 := new(big.Int).Sub(new(big.Int).Lsh(big.NewInt(1), 256), big.NewInt(1))
	goodAmt := []string{"1", "7", "1000000", "123456789012345678901234567890"}
	var boundaryAmt []string
	for n, v := range c16Boundaries {
		if n != "2e256-1" {
			boundaryAmt = append(boundaryAmt, v)
		}
	}
	sort.Strings(boundaryAmt)
	boundaryAmt = append(boundaryAmt, c16Boundaries["2e63"], c16Boundaries["2e63+1"], c16Boundaries["1e19"], c16Boundaries["2e64-1"],
		c16Boundaries["2e53+1"], c16Boundaries["2e63-1"], c16Boundaries["2e31"], c16Boundaries["2e32+1"]) // extra weight
	seqPool := []uint64{1<<31 - 1, 1 << 31, 1 << 32, 1 << 53, 1<<63 - 1, 1 << 63, 1<<64 - 1000}
	capSupply := new(big.Int).Sub(new(big.Int).Lsh(big.NewInt(1), 256), big.NewInt(2))
	oddAmt := []string{"0", "-1", "", "abc", "1.5", "0x10", "1_0", " 5", "+3", max256.String(), new(big.Int).Add(max256, big.NewInt(1)).String(),
		new(big.Int).Lsh(big.NewInt(1), 255).String(), "00012"}
	kinds := []string{"std", "std", "std", "std", "std", "tiny1", "tiny1", "tinyd", "tinyd", "tinyd", "tiny2", "tiny0", "revert", "nocode"}
	cp := func(dc string) string { return c16Counterparty[dc] }
	for i := 0; i < hist; i++ {
		h := []string{"reset", w.initLine()}
		seq := uint64(1)
		// registry set-up: most histories register the voucher denominations that will arrive
		type regd struct{ dc, base, denom string }
		registered := []regd{}
		regDenoms := map[string]bool{}
		minted := map[string]*big.Int{} // vouchers sent per (channel, denomination) in this history
		usedSeq := map[string]bool{}
		var regAs func(dc, base, kind, owner string)
		regRaw := func(d, kind, owner string) { regAs("", d, kind, owner) } // a denomination no packet of this harness is routed for
		regAs = func(dc, base, kind, owner string) {
			d := base
			if dc != "" {
				d = hook(dc, base)
			}
			if regDenoms[d] {
				return
			}
			regDenoms[d] = true
			if kind == "" {
				kind = pick(kinds)
				if rng.Intn(40) == 0 {
					kind = "balrevert"
				}
				switch x := rng.Intn(12); {
				case x == 0:
					owner = "u"
				case x <= 2 || (x <= 4 && strings.HasPrefix(kind, "tiny")) || (x <= 8 && kind == "tinyd"):
					owner = "x" // succeeds only with tinyd (really debits the pre-funded module account)
				}
			}
			if kind == "std" {
				h = append(h, fmt.Sprintf("fund %s %s 1", hx(w.modAddr), hxs(d)))
			}
			h = append(h, fmt.Sprintf("register %s %s %s", hxs(d), kind, owner))
			if dc != "" {
				registered = append(registered, regd{dc, base, d})
			}
		}
		reg := func(dc, base string) { regAs(dc, base, "", "m") }
		// sibling-denomination constellation: an asymmetric channel dc whose counterparty id sc is also the id of a local
		// channel; the voucher of the same base denomination over THAT local channel is registered with a converting
		// pair and the receivers hold plenty of it. The pair for the voucher actually received over dc is absent /
		// arbitrary / converting.
		var focus *regd
		if rng.Intn(3) == 0 {
			dc := pick([]string{"channel-1", "channel-1", "channel-2"})
			sc, base := cp(dc), pick(bases)
			kind, owner := "std", "m"
			switch rng.Intn(6) {
			case 0:
				kind = "tiny1"
			case 1:
				kind = "tinyd"
			case 2:
				kind, owner = "tinyd", "x"
			}
			regAs(sc, base, kind, owner)
			switch rng.Intn(4) {
			case 0, 1: // pair for the sibling voucher only
			case 2:
				reg(dc, base)
			default:
				if rng.Intn(3) == 0 {
					regAs(dc, base, "tinyd", "x")
				} else {
					regAs(dc, base, pick([]string{"std", "tiny1", "tinyd"}), "m")
				}
			}
			for _, a := range goodRecv {
				if rng.Intn(4) > 0 {
					ra, _ := sdk.AccAddressFromBech32(a)
					h = append(h, fmt.Sprintf("fund %s %s 200000000000000000000000000000000", hx(ra), hxs(hook(sc, base))))
				}
			}
			focus = &regd{dc, base, hook(dc, base)}
		}
		if rng.Intn(10) > 0 {
			n := 1 + rng.Intn(3)
			for j := 0; j < n; j++ {
				reg("channel-0", bases[rng.Intn(len(bases))])
			}
		}
		// look-alike constellation: over an asymmetric channel dc a FOREIGN voucher arrives whose trace merely STARTS with our
		// end's prefix "transfer/<dc>/" (0-, 1- or 2-hop rest): not a returning coin (the source prefix differs in channel or
		// port id). The denomination one gets by (wrongly) stripping the destination prefix - a native coin or a local
		// voucher - is a registered converting pair and the receivers hold plenty of it. The pair for the voucher actually
		// credited is absent / converting.
		var focusRaw *regd
		if rng.Intn(3) == 0 {
			dc := pick([]string{"channel-1", "channel-2", "channel-3", "channel-3", "channel-4"})
			rest := pick([]string{"acoin", "acoin", "uatom", "transfer/channel-5/uatom", "transfer/channel-0/uosmo", "transfer/channel-5/transfer/channel-6/uusd"})
			look := c16Voucher(rest)
			kind, owner := "std", "m"
			switch rng.Intn(6) {
			case 0:
				kind = "tiny1"
			case 1:
				kind = "tinyd"
			case 2:
				kind, owner = "tinyd", "x"
			}
			regRaw(look, kind, owner)
			full := "transfer/" + dc + "/" + rest
			if rng.Intn(3) == 0 {
				regAs(dc, full, pick([]string{"std", "tiny1", "tinyd"}), "m")
			}
			for _, a := range goodRecv {
				if rng.Intn(4) > 0 {
					ra, _ := sdk.AccAddressFromBech32(a)
					h = append(h, fmt.Sprintf("fund %s %s 200000000000000000000000000000000", hx(ra), hxs(look)))
				}
			}
			focusRaw = &regd{dc, full, ""}
		}
		// multi-denomination pair: the same remote coin arrives over two / three channels; RegisterCoin for the first voucher,
		// AddCoin for the others (one pair, one contract); receivers hold unconverted vouchers of the first / another
		// denomination (e.g. received while the pair was disabled). A packet of the SECOND denomination must convert the
		// received vouchers, not the holdings of the pair's first denomination.
		if rng.Intn(4) == 0 {
			base := pick(bases)
			kind := pick([]string{"std", "std", "tinyd", "tiny1"})
			regAs("channel-0", base, kind, "m")
			first := hook("channel-0", base)
			if regDenoms[first] {
				others := []string{"channel-1"}
				if rng.Intn(2) == 0 {
					others = append(others, pick([]string{"channel-3", "channel-2"}))
				}
				for _, oc := range others {
					nd := hook(oc, base)
					if !regDenoms[nd] {
						regDenoms[nd] = true
						h = append(h, fmt.Sprintf("fund %s %s 1", hx(w.modAddr), hxs(nd)), fmt.Sprintf("addcoin %s %s", hxs(nd), hxs(first)))
						registered = append(registered, regd{oc, base, nd}, regd{oc, base, nd})
					}
				}
				for _, a := range goodRecv {
					if rng.Intn(4) > 0 {
						ra, _ := sdk.AccAddressFromBech32(a)
						h = append(h, fmt.Sprintf("fund %s %s 200000000000000000000000000000000", hx(ra), hxs(pick([]string{first, first, hook("channel-1", base)}))))
					}
				}
			}
		}
		if rng.Intn(3) == 0 { // a pair for the voucher of ONE asymmetric channel only
			reg(pick([]string{"channel-1", "channel-1", "channel-2", "channel-3"}), pick(bases))
		}
		// (the hook's denomination of a RETURNING packet - hash of the doubly prefixed trace - is never minted by the
		// transfer module over that channel, so it cannot have supply / be registered: not generated)
		if rng.Intn(2) == 0 {
			h = append(h, fmt.Sprintf("fund %s %s %d", hx(transfertypes.GetEscrowAddress("transfer", "channel-0")), hxs("atele"), 1000000+rng.Intn(100)))
		}
		if rng.Intn(2) == 0 {
			h = append(h, fmt.Sprintf("fund %s %s %d", hx(transfertypes.GetEscrowAddress("transfer", pick([]string{"channel-1", "channel-1", "channel-2", "channel-3", "channel-4"}))), hxs("atele"), 1000000+rng.Intn(100)))
		}
		if rng.Intn(4) == 0 {
			back := c16Voucher("transfer/channel-9/ufoo")
			h = append(h, fmt.Sprintf("fund %s %s %d", hx(transfertypes.GetEscrowAddress("transfer", pick([]string{"channel-0", "channel-1"}))), hxs(back), 1000000+rng.Intn(100)))
		}
		steps := 4 + rng.Intn(12)
		moduleOff := false
		for s := 0; s < steps; s++ {
			x := rng.Intn(40)
			switch {
			case x == 0 || (moduleOff && x < 8):
				moduleOff = !moduleOff
				h = append(h, fmt.Sprintf("module %d", map[bool]int{true: 0, false: 1}[moduleOff]))
			case x == 9 || x == 10:
				h = append(h, "restart")
			case x == 1 && len(registered) > 0:
				h = append(h, "toggle "+hxs(registered[rng.Intn(len(registered))].denom))
			case x == 2 && len(registered) > 0:
				h = append(h, "kill "+hxs(registered[rng.Intn(len(registered))].denom))
			case x == 3 || x == 4:
				reg(pick(dstChans), pick(bases))
			case x == 5 && len(registered) > 0:
				h = append(h, fmt.Sprintf("sendenabled %s %d", hxs(registered[rng.Intn(len(registered))].denom), rng.Intn(2)))
			case x == 7 || x == 8 || x == 11:
				// a packet SENT by this chain comes back acknowledged / timed out
				dc := pick(dstChans)
				p := c16Pkt{seq: 1000 + seq, sp: "transfer", sc: dc, dp: c16CounterpartyPort(dc), dc: cp(dc)}
				seq++
				denom := pick([]string{"atele", "atele", "transfer/" + dc + "/uatom", "transfer/" + dc + "/uosmo", "uatom", ""})
				if denom == "atele" && rng.Intn(3) > 0 { // the native coins of the packet sit in the channel's escrow account
					h = append(h, fmt.Sprintf("fund %s %s 2000000", hx(transfertypes.GetEscrowAddress("transfer", dc)), hxs("atele")))
				}
				sender := pick(goodRecv)
				if rng.Intn(8) == 0 {
					sender = pick(oddRecv)
				}
				amount := pick(goodAmt)
				if rng.Intn(8) == 0 {
					amount = pick(oddAmt)
				}
				p.data = c16Data(denom, amount, sender, "cosmos1receiver")
				if rng.Intn(12) == 0 {
					p.data = p.data[:len(p.data)/2]
				}
				if rng.Intn(2) == 0 {
					h = append(h, "cb timeout "+p.String()+" -")
				} else {
					acks := [][]byte{channeltypes.NewResultAcknowledgement([]byte{1}).Acknowledgement(), channeltypes.NewErrorAcknowledgement("failed").Acknowledgement(),
						channeltypes.NewErrorAcknowledgement("failed").Acknowledgement(), []byte("{}"), []byte("garbage"), nil}
					h = append(h, "cb ack "+p.String()+" "+hx(acks[rng.Intn(len(acks))]))
				}
			case x == 6 && len(registered) > 0:
				nb := pick(bases)
				nd := hook("channel-1", nb)
				h = append(h, fmt.Sprintf("fund %s %s 1", hx(w.modAddr), hxs(nd)), fmt.Sprintf("addcoin %s %s", hxs(nd), hxs(registered[rng.Intn(len(registered))].denom)))
				registered = append(registered, regd{"channel-1", nb, nd})
			default:
				p := c16Pkt{seq: seq, sp: "transfer", dp: "transfer", dc: pick(dstChans)}
				denom := pick(bases)
				if focusRaw != nil && rng.Intn(2) == 0 { // the look-alike voucher on its asymmetric channel
					p.dc, denom = focusRaw.dc, focusRaw.base
				} else if focus != nil && rng.Intn(2) == 0 { // the asymmetric channel of the sibling constellation
					p.dc, denom = focus.dc, focus.base
				} else if len(registered) > 0 && rng.Intn(4) > 0 { // mostly a denomination with a registered pair
					g := registered[rng.Intn(len(registered))]
					p.dc, denom = g.dc, g.base
				}
				p.sc, p.sp = cp(p.dc), c16CounterpartyPort(p.dc)
				seq++
				switch rng.Intn(14) {
				case 2: // a foreign voucher whose trace starts with OUR end's prefix (returning only on the symmetric channel)
					denom = p.dp + "/" + p.dc + "/" + pick([]string{"acoin", "uatom", "transfer/channel-5/uatom", "transfer/channel-5/transfer/channel-6/uusd"})
				case 3: // two hops
					denom = "transfer/channel-8/transfer/channel-9/" + pick([]string{"uxyz", "uatom"})
				case 0, 4:
					denom = p.sp + "/" + p.sc + "/atele" // returning native coin
				case 1:
					if rng.Intn(3) > 0 {
						denom = p.sp + "/" + p.sc + "/transfer/channel-9/ufoo" // returning voucher
					} else {
						denom = pick([]string{"", "u", "transfer/", "/", "uatom/", "ibc/ABC", "transfer/channel-0"})
					}
				}
				amount := pick(goodAmt)
				switch x := rng.Intn(20); {
				case x < 2:
					amount = pick(oddAmt)
				case x < 9:
					amount = pick(boundaryAmt)
				case x < 12: // random within a decade
					k := rng.Intn(77)
					lo := new(big.Int).Exp(big.NewInt(10), big.NewInt(int64(k)), nil)
					amount = new(big.Int).Add(lo, new(big.Int).Rand(rng, new(big.Int).Mul(lo, big.NewInt(9)))).String()
				case x == 12 && minted[p.dc+"|"+denom] == nil:
					amount = c16Boundaries["2e256-1"] // the whole sdk.Int range: only as the first voucher of its denomination
				}
				if a, ok := new(big.Int).SetString(amount, 10); ok && a.Sign() > 0 && a.BitLen() <= 256 {
					// bank supply is a 256-bit sdk.Int: keep the vouchers minted per denomination in one history below 2^256
					key := p.dc + "|" + denom
					if minted[key] == nil {
						minted[key] = new(big.Int)
					}
					if new(big.Int).Add(minted[key], a).Cmp(capSupply) > 0 && amount != c16Boundaries["2e256-1"] {
						amount = pick(goodAmt)
						a, _ = new(big.Int).SetString(amount, 10)
					}
					minted[key].Add(minted[key], a)
				}
				if rng.Intn(5) == 0 { // boundary values of the other numeric fields of the packet: sequence, timeout height / timestamp
					for try := 0; try < 5; try++ {
						q := seqPool[rng.Intn(len(seqPool))] + uint64(rng.Intn(900))
						if !usedSeq[fmt.Sprintf("%s/%d", p.dc, q)] {
							p.seq = q
							break
						}
					}
					t := [3]uint64{pick64(rng, []uint64{1, 1, 2, 1 << 32, 1<<64 - 1}), pick64(rng, []uint64{0, 2, 1000, 1 << 31, 1 << 63, 1<<64 - 1}), pick64(rng, []uint64{0, 0, 1 << 63, 1<<64 - 1})}
					if t[0] == 1 && t[1] < 2 { // the chain is at height 1-1: a timeout height 1-0 / 1-1 has passed
						t[1] = 1000
					}
					p.timeout = &t
				}
				usedSeq[fmt.Sprintf("%s/%d", p.dc, p.seq)] = true
				receiver := pick(goodRecv)
				if x := rng.Intn(16); x < 2 {
					receiver = pick(oddRecv)
				} else if x < 6 { // valid account addresses of every length the SDK allows (1..255 bytes)
					receiver = pick(lenRecv)
				}
				sender := pick(senders)
				if rng.Intn(40) == 0 {
					sender = pick([]string{"", " "})
				}
				p.data = c16Data(denom, amount, sender, receiver)
				if rng.Intn(12) == 0 { // odd but possibly valid shapes of the JSON packet data
					switch rng.Intn(9) {
					case 0: // a field ICS-20 v1 does not know (later versions: memo)
						p.data = []byte(strings.Replace(string(p.data), "{", `{"memo":"hello",`, 1))
					case 1: // pretty printed / other key order: still the same packet
						p.data = []byte(fmt.Sprintf("{\n  \"sender\": %q,\n  \"receiver\": %q,\n  \"denom\": %q,\n  \"amount\": %q\n}", sender, receiver, denom, amount))
					case 2: // huge strings
						p.data = c16Data(denom, amount, strings.Repeat("S", 100000), receiver)
					case 3:
						p.data = c16Data(strings.Repeat("d", 10000), amount, sender, receiver)
					case 4:
						p.data = c16Data(denom, amount, sender, strings.Repeat("r", 10000))
					case 5: // duplicate key
						p.data = []byte(strings.Replace(string(p.data), "{", `{"amount":"1",`, 1))
					case 6: // null / wrong types
						p.data = []byte(strings.Replace(string(p.data), `"receiver":"`+receiver+`"`, `"receiver":null`, 1))
					case 7:
						p.data = []byte(strings.Replace(string(p.data), `"amount":"`+amount+`"`, `"amount":`+pick([]string{"7", "7.0", "1e3", "true"}), 1))
					default: // escaped characters spelling the same strings
						p.data = []byte(strings.Replace(string(p.data), `"denom":"`, `"denom":"\u0075`, 1))
					}
					r.Count("gen.odd-json")
				} else if rng.Intn(16) == 0 { // malformed packet data
					switch rng.Intn(7) {
					case 0:
						p.data = nil
					case 1:
						p.data = []byte("{}")
					case 2:
						p.data = []byte("null")
					case 3:
						p.data = p.data[:len(p.data)/2]
					case 4:
						p.data = []byte(strings.Replace(string(p.data), "{", `{"extra":"1",`, 1))
					case 5:
						p.data = []byte(strings.Replace(string(p.data), `"amount":"`+amount+`"`, `"amount":7`, 1))
					default:
						p.data = []byte{0xff, 0x00, 0x7b}
					}
				}
				if rng.Intn(8) == 0 { // first on contexts that are dropped, then for real
					h = append(h, "dry "+p.String())
				}
				h = append(h, "recv "+p.String())
			}
		}
		w.run(r, h)
	}
	_ = hex.EncodeToString
}
