//go:build c01 || c02 || c05

package verifharness

// Generators of C01 / C02 / C05 on top of pkt_common_test.go. One generator core (`pktGen`) with per-property
// weights: C01 is replay-heavy, C02 mutation-heavy, C05 ack-conflict-heavy.

import (
	"bytes"
	"fmt"
	"math/rand"
	"os"
	"sort"
	"strconv"
	"strings"
	"testing"

	"github.com/ethereum/go-ethereum/common"
	"github.com/ethereum/go-ethereum/common/hexutil"
	"github.com/ethereum/go-ethereum/crypto"

	clienttypes "github.com/teleport-network/teleport/x/xibc/core/client/types"
	"github.com/teleport-network/teleport/x/xibc/core/host"
	packettypes "github.com/teleport-network/teleport/x/xibc/core/packet/types"
)

type pktWeights struct {
	send, relay, ackRelay, replay, mutateRecv, mutateAck, ackConflict, commit, update int
	tss                                                                               int // traffic with the pure TSS counterparty
	toggle                                                                            int // client lifecycle proposals (toggle / upgrade) followed by replays
	evm                                                                               int // traffic with and forgeries against the BSC / ETH secured counterparties
	restart                                                                           int // genesis export -> import restarts
	plant                                                                             int // planted high-sequence packets (commitment injected with the keeper setter)
	cbErr                                                                             int // percentage of sends whose destination callback makes CallPacket return an error
}

type pktGen struct {
	w       *pktWorld
	rng     *rand.Rand
	id      string
	wt      pktWeights
	accRecv []*pktRecvRec // accepted receives (for replays)
	accAcks []*pktAckRec
	steps   int
}

type pktAckRec struct {
	chain  *pktChain
	packet []byte
	ack    []byte
	proof  []byte
	height clienttypes.Height
	signer int
}

// replay header line stored as first op of every finding: lets `./check --replay` re-run the deterministic generator
func pktReplayHeader(id string, seed int64, shard int, tier string) string {
	return fmt.Sprintf("# replay %s seed=%d shard=%d tier=%s", id, seed, shard, tier)
}

func pktReplayParams(t *testing.T) (seed int64, shard int, tier string, ok bool) {
	for _, l := range replayOps(t) {
		if strings.HasPrefix(l, "# replay ") {
			for _, f := range strings.Fields(l) {
				if strings.HasPrefix(f, "seed=") {
					seed, _ = strconv.ParseInt(f[5:], 10, 64)
				}
				if strings.HasPrefix(f, "shard=") {
					s, _ := strconv.Atoi(f[6:])
					shard = s
				}
				if strings.HasPrefix(f, "tier=") {
					tier = f[5:]
				}
			}
			return seed, shard, tier, true
		}
	}
	return 0, 0, "", false
}

func pktRun(t *testing.T, id string, wt pktWeights) {
	rseed, rshard, rtier, isReplay := pktReplayParams(t)
	if isReplay {
		os.Setenv("VERIF_SEED", strconv.FormatInt(rseed, 10))
		os.Setenv("VERIF_TIER", rtier)
	} else if os.Getenv("VERIF_REPLAY") != "" {
		// an op list without the replay header cannot be replayed on the real chains (proofs are referenced by id)
		r := NewRec(t, id)
		r.Extra["replay"] = "no '# replay' header in the replay file: nothing executed"
		r.Close()
		return
	}
	r := NewRec(t, id)
	defer r.Close()
	if isReplay && rshard != 0 {
		// same PRNG stream as the shard that found it (output files keep the unsharded names ./check expects)
		r.Shard = rshard
		r.Rng = rand.New(rand.NewSource(rseed*1000003 + int64(rshard)*7919 + int64(len(id))))
	}
	nHist, nSteps := 4, 480
	if r.Tier == "thorough" {
		nHist, nSteps = 5, 600
	}
	if v := envInt("VERIF_PKT_HIST", 0); v > 0 {
		nHist = int(v)
	}
	if v := envInt("VERIF_PKT_STEPS", 0); v > 0 {
		nSteps = int(v)
	}
	for hIdx := 0; hIdx < nHist; hIdx++ {
		// histories 1 and 2 of every four run under mixed-case chain names (Teleport-A, abc, Abc)
		w := pktNewWorld(t, r, hIdx%4 == 1 || hIdx%4 == 2)
		w.hist = append([]string{pktReplayHeader(id, r.Seed, r.Shard, r.Tier)}, w.hist...)
		g := &pktGen{w: w, rng: r.Rng, id: id, wt: wt}
		g.setup(hIdx)
		for i := 0; i < nSteps; i++ {
			g.step()
		}
		for _, c := range w.chains {
			w.fullDump(c)
		}
		if len(r.Findings) > 0 {
			break
		}
	}
}

func (g *pktGen) setup(variant int) {
	w := g.w
	for _, c := range w.chains {
		w.setupToken(c)
	}
	// clients between all pairs; one of them with a non-zero delay period in some histories
	for _, c := range w.chains {
		for _, o := range w.chains {
			if o == c {
				continue
			}
			delay := uint64(0)
			if variant%2 == 1 && c == w.chains[1] && o == w.chains[0] {
				delay = 12_000_000_000 // 12 s: two to three blocks
			}
			w.createClient(c, o.name, o, delay)
		}
	}
	// EVM-secured counterparties of chain 0: a BSC and an ETH light client (names with upper-case letters in the
	// mixed-case worlds)
	if g.wt.evm > 0 {
		bscName, ethName := "bsc-main", "eth-main"
		if pktHasUpper(w.chains[0].name) {
			bscName, ethName = "BSC-Main", "Eth-Main"
		}
		w.addEvm(w.chains[0], "bsc", bscName)
		w.addEvm(w.chains[0], "eth", ethName)
	}
	if g.wt.tss > 0 {
		tssName := "tss-net"
		if pktHasUpper(w.chains[0].name) {
			tssName = "TSS-Net"
		}
		w.addTss(w.chains[0], tssName)
	}
	for _, c := range w.chains {
		var others []string
		for _, o := range w.chains {
			if o != c {
				others = append(others, o.name)
			}
		}
		if c == w.chains[0] {
			for _, ts := range w.tsss {
				others = append(others, ts.name)
			}
		}
		if c == w.chains[0] {
			for _, ev := range w.evms {
				others = append(others, ev.name)
			}
		}
		w.register(c, 0, others)
		w.register(c, 1, others[:1])
		w.register(c, pktT, others) // the TSS accounts are registered relayers for every counterparty
		w.register(c, pktT2, others)
	}
	w.commitAll()
	for _, c := range w.chains {
		w.fullDump(c)
	}
	g.prologue()
	if variant%4 == 3 {
		// big packet stores: 260 commitments on chain 1, 260 receipts and 260 acknowledgements on chain 0 — beyond any
		// page size an export could silently apply — followed straight away by a restart of both and replays spread over
		// the whole key order
		b := w.bulk(w.chains[1], w.chains[0], 1000, 260)
		w.commitAll()
		w.restart(w.chains[0])
		w.restart(w.chains[1])
		g.bulkReplay(b)
	}
}

// bulkReplay re-submits, with genuine proofs, bulk packets whose receipts sit at the first / last rank and around the
// ranks 100 and 200 of the destination's receipt keys (string order — the order a store walk sees).
func (g *pktGen) bulkReplay(b *pktBulk) {
	w := g.w
	pfx := hx([]byte(host.KeyPacketReceiptPrefix + "/"))
	var keys []string
	for k := range b.dst.dump() {
		if strings.HasPrefix(k, pfx) {
			keys = append(keys, k)
		}
	}
	sort.Strings(keys)
	// ranks are taken among the keys the restart must have preserved: the harness' own record, not the live store
	for k := range b.byRcpt {
		found := false
		for _, x := range keys {
			if x == k {
				found = true
				break
			}
		}
		if !found {
			keys = append(keys, k)
		}
	}
	sort.Strings(keys)
	var picks []*pktSent
	seen := map[*pktSent]bool{}
	for _, r := range []int{0, 99, 100, 101, 199, 200, 201, len(keys) - 1, g.rng.Intn(len(keys))} {
		for d := 0; d < len(keys); d++ { // nearest bulk packet at or after the rank (wrapping)
			s := b.byRcpt[keys[(r+d)%len(keys)]]
			if s != nil && !s.acked && !seen[s] {
				seen[s] = true
				picks = append(picks, s)
				break
			}
		}
	}
	if len(picks) == 0 {
		return
	}
	h, ok := g.provable(b.dst, b.src)
	if !ok {
		return
	}
	height := clienttypes.NewHeight(b.src.revision(), h)
	for _, s := range picks {
		proof := b.src.proofAt(host.PacketCommitmentKey(s.p.SrcChain, s.p.DstChain, s.p.Sequence), h)
		if proof == nil {
			continue
		}
		w.recv(b.dst, s.bz, proof, height, 0, "replay-bulk")
	}
	g.maybeCommit(b.dst)
}

func (g *pktGen) pick(ws ...int) int {
	tot := 0
	for _, x := range ws {
		tot += x
	}
	n := g.rng.Intn(tot)
	for i, x := range ws {
		if n < x {
			return i
		}
		n -= x
	}
	return 0
}

func (g *pktGen) maybeCommit(c *pktChain) {
	// ~60 %: close the block, otherwise the next message shares the block
	if g.rng.Intn(10) < 6 {
		g.w.commit(c)
	}
}

func (g *pktGen) step() {
	g.steps++
	wt := g.wt
	switch g.pick(wt.send, wt.relay, wt.ackRelay, wt.replay, wt.mutateRecv, wt.mutateAck, wt.ackConflict, wt.commit, wt.update, wt.plant, wt.restart, wt.evm, wt.tss, wt.toggle) {
	case 0:
		g.doSend()
	case 1:
		g.doRelay()
	case 2:
		g.doAckRelay()
	case 3:
		g.doReplay()
	case 4:
		g.doMutateRecv()
	case 5:
		g.doMutateAck()
	case 6:
		g.doAckConflict()
	case 7:
		g.w.commit(g.w.chains[g.rng.Intn(3)])
	case 8:
		c := g.w.chains[g.rng.Intn(3)]
		o := g.w.chains[g.rng.Intn(3)]
		if o != c {
			g.w.updateClient(c, o.name, g.rng.Intn(2))
			g.maybeCommit(c)
		}
	case 9:
		g.doPlant()
	case 10:
		g.doRestart()
	case 11:
		g.doEvm()
	case 12:
		g.doTss()
	case 13:
		g.doLifecycle()
	}
}

var pktBoundarySeqs = []uint64{1<<63 - 1, 1 << 63, 1<<63 + 1, 1<<64 - 1, 1<<64 - 2, 1 << 62}

// doPlant injects the commitment of a packet with a sequence at / beyond the int64 boundary into a source chain.
func (g *pktGen) doPlant() {
	w := g.w
	src := w.chains[g.rng.Intn(3)]
	dst := w.chains[g.rng.Intn(3)]
	for dst == src {
		dst = w.chains[g.rng.Intn(3)]
	}
	if src == w.chains[1] && dst == w.chains[2] {
		// no token bound on chain 2 for chain 1's base token: the receive would end in an error acknowledgement whose
		// refund on the source pays out escrow that a planted packet never paid in (and starves genuine refunds)
		dst = w.chains[0]
	}
	seq := pktBoundarySeqs[g.rng.Intn(len(pktBoundarySeqs))]
	if g.rng.Intn(3) == 0 {
		seq = 1<<62 | g.rng.Uint64() // random high sequence
	}
	if s := w.plant(src, dst, seq, int64(1+g.rng.Intn(500))); s != nil {
		w.r.Nontrivial("plant:" + s.p.SrcChain + ">" + s.p.DstChain + ":" + fmt.Sprint(s.p.Sequence))
	}
	g.maybeCommit(src)
}

func (g *pktGen) doSend() {
	w := g.w
	src := w.chains[g.rng.Intn(3)]
	dst := w.chains[g.rng.Intn(3)]
	for dst == src {
		dst = w.chains[g.rng.Intn(3)]
	}
	dstName := dst.name
	mech := "n"
	switch x := g.rng.Intn(100); {
	case x < 8: // unknown destination: SendPacket fails, the EVM tx reverts
		dstName = "nowhere-1"
	case x < 14:
		mech = "eoa"
	case x < 26:
		mech = "garbage"
	case x < 26+g.wt.cbErr:
		mech = []string{"evm-revert", "hook-staking", "hook-agent", "evm-revert", "hook-staking", "hook-agent", "baddr"}[g.rng.Intn(7)]
	}
	cs := w.callSpec(src, dst, mech, func(b []byte) { g.rng.Read(b) })
	amount := int64(1 + g.rng.Intn(1000))
	if (mech == "evm-revert" || mech == "hook-staking") && g.rng.Intn(4) == 0 {
		amount = 0 // call-only packet: empty transfer data
	}
	if s := w.send(src, dstName, amount, cs, uint64(g.rng.Intn(3))); s != nil {
		w.r.Nontrivial("send:" + s.p.SrcChain + ">" + s.p.DstChain + ":" + fmt.Sprint(s.p.Sequence))
	}
	g.maybeCommit(src)
}

func (g *pktGen) provable(c, of *pktChain) (uint64, bool) {
	w := g.w
	w.commit(of)
	w.commit(of)
	if c.kind[of.name] == "tss" {
		// toggled to a TSS client: nothing to update, any non-zero height will do; the proof bytes are ignored
		return uint64(of.tc.App.LastBlockHeight()), true
	}
	if !w.updateClient(c, of.name, 0) {
		return 0, false
	}
	w.commit(c)
	cs, found := c.tc.App.XIBCKeeper.ClientKeeper.GetClientState(c.tc.GetContext(), of.name)
	if !found {
		return 0, false
	}
	return cs.GetLatestHeight().GetRevisionHeight(), true
}

func (g *pktGen) pendingRecv() []*pktSent {
	var out []*pktSent
	for _, s := range g.w.sent {
		if !s.recvd && s.dst != nil {
			out = append(out, s)
		}
	}
	return out
}

func (g *pktGen) pendingAck() []*pktSent {
	var out []*pktSent
	for _, s := range g.w.sent {
		if s.recvd && !s.acked && s.ackBz != nil {
			out = append(out, s)
		}
	}
	return out
}

func (g *pktGen) doRelay() {
	w := g.w
	pend := g.pendingRecv()
	if len(pend) == 0 {
		g.doSend()
		return
	}
	s := pend[g.rng.Intn(len(pend))]
	h, ok := g.provable(s.dst, s.src)
	if !ok {
		return
	}
	key := host.PacketCommitmentKey(s.p.SrcChain, s.p.DstChain, s.p.Sequence)
	proof := s.src.proofAt(key, h)
	if proof == nil {
		w.r.Count("relay.noproof")
		return
	}
	signer := 0
	if g.rng.Intn(4) == 0 && s.dst.registeredFor(1, s.src.name) {
		signer = 1
	}
	height := clienttypes.NewHeight(s.src.revision(), h)
	tag := "genuine"
	if s.dst.kind[s.src.name] == "tss" {
		signer, proof, tag = g.tssSignerProof(s.dst, s.src.name, signer, proof)
	}
	out := w.recv(s.dst, s.bz, proof, height, signer, tag)
	if out.ok {
		s.recvd = true
		s.ackBz = out.ackBz
		rec := &pktRecvRec{chain: s.dst, packet: s.bz, proof: proof, height: height, signer: signer, epoch: s.dst.restarts}
		s.recvMsg = rec
		g.accRecv = append(g.accRecv, rec)
		w.r.Nontrivial("recv:" + s.p.SrcChain + ">" + s.p.DstChain + ":" + fmt.Sprint(s.p.Sequence))
		if out.ackBz == nil {
			w.r.Find(Finding{Sig: "C05:accepted-recv-without-ack", What: "an accepted receive addressed to this chain wrote no acknowledgement",
				Ops: append([]string{}, w.hist...), Obs: out.delta, Req: "+acks/..."})
		}
	}
	// same-block replay straight away (C01): identical bytes before the block is closed
	if g.wt.replay > 0 && g.rng.Intn(3) == 0 && out.ok {
		w.recv(s.dst, s.bz, proof, height, signer, "replay-same-block")
	}
	g.maybeCommit(s.dst)
}

func (g *pktGen) doAckRelay() {
	w := g.w
	pend := g.pendingAck()
	if len(pend) == 0 {
		g.doRelay()
		return
	}
	s := pend[g.rng.Intn(len(pend))]
	h, ok := g.provable(s.src, s.dst)
	if !ok {
		return
	}
	key := host.PacketAcknowledgementKey(s.p.SrcChain, s.p.DstChain, s.p.Sequence)
	proof := s.dst.proofAt(key, h)
	if proof == nil {
		w.r.Count("ackrelay.noproof")
		return
	}
	height := clienttypes.NewHeight(s.dst.revision(), h)
	signer := g.rng.Intn(3) // acknowledgements need no registered signer
	tag := "genuine"
	if s.src.kind[s.dst.name] == "tss" {
		signer, proof, tag = g.tssSignerProof(s.src, s.dst.name, signer, proof)
	}
	out := w.ack(s.src, s.bz, s.ackBz, proof, height, signer, tag)
	if out.ok {
		s.acked = true
		g.accAcks = append(g.accAcks, &pktAckRec{chain: s.src, packet: s.bz, ack: s.ackBz, proof: proof, height: height, signer: signer})
		w.r.Nontrivial("ack:" + s.p.SrcChain + ">" + s.p.DstChain + ":" + fmt.Sprint(s.p.Sequence))
	}
	if out.ok && g.rng.Intn(3) == 0 {
		w.ack(s.src, s.bz, s.ackBz, proof, height, signer, "replay-same-block")
	}
	g.maybeCommit(s.src)
}

// ---------------------------------------------------------------------------------------------
// C01: replays of accepted receives

// pktReencode returns non-canonical encodings of the same packet that the real decoder accepts.
func pktReencode(bz []byte, kind int) []byte {
	out := append([]byte{}, bz...)
	switch kind {
	case 0: // trailing bytes
		return append(out, make([]byte, 32)...)
	case 1: // dirty upper bytes of the uint64 sequence word (tuple head word 2)
		if len(out) > 32+2*32 {
			out[32+2*32] = 0xff
			out[32+2*32+5] = 0x7f
		}
		return out
	case 2: // dirty upper bytes of the fee option word (tuple head word 7)
		if len(out) > 32+7*32 {
			out[32+7*32+1] = 0x01
		}
		return out
	default: // shifted tails: 32 zero bytes between head and tails, the six offsets adjusted
		const headEnd = 32 + 8*32
		if len(out) < headEnd {
			return out
		}
		for _, wi := range []int{0, 1, 3, 4, 5, 6} {
			pos := 32 + wi*32 + 31
			// add 32 to the big-endian word (offsets are small: no carry past two bytes)
			v := int(out[pos-1])<<8 | int(out[pos])
			v += 32
			out[pos-1] = byte(v >> 8)
			out[pos] = byte(v)
		}
		res := append([]byte{}, out[:headEnd]...)
		res = append(res, make([]byte, 32)...)
		return append(res, out[headEnd:]...)
	}
}

func (g *pktGen) doReplay() { g.doReplayOn(nil) }

// doReplayOn replays an accepted receive (of chain `on` if given and it has any).
func (g *pktGen) doReplayOn(on *pktChain) {
	w := g.w
	if len(g.accRecv) == 0 {
		g.doRelay()
		return
	}
	rec := g.accRecv[g.rng.Intn(len(g.accRecv))]
	if on != nil {
		var mine []*pktRecvRec
		for _, r := range g.accRecv {
			if r.chain == on {
				mine = append(mine, r)
			}
		}
		if len(mine) == 0 {
			return
		}
		rec = mine[g.rng.Intn(len(mine))]
	}
	var orig packettypes.Packet
	if orig.ABIDecode(rec.packet) != nil {
		return
	}
	src := w.byName[orig.SrcChain]
	packet, proof, height, signer := rec.packet, rec.proof, rec.height, rec.signer
	tag := "replay-identical"
	switch g.rng.Intn(8) {
	case 0:
	case 1: // re-encoded
		k := g.rng.Intn(4)
		re := pktReencode(rec.packet, k)
		var p2 packettypes.Packet
		if err := p2.ABIDecode(re); err != nil || p2.String() != orig.String() {
			w.r.Count(fmt.Sprintf("reencode.rejected-by-decoder.%d", k))
			return
		}
		packet = re
		tag = fmt.Sprintf("replay-reencoded%d", k)
	case 2: // different payload, same triple
		p2 := orig
		p2.TransferData = append(append([]byte{}, orig.TransferData...), byte(g.rng.Intn(256)))
		if g.rng.Intn(2) == 0 {
			p2.Sender = "0x" + strings.Repeat("ab", 20)
		}
		packet, _ = p2.ABIPack()
		tag = "replay-payload"
	case 3: // fresh proof at a later height
		if src != nil {
			if h, ok := g.provable(rec.chain, src); ok {
				key := host.PacketCommitmentKey(orig.SrcChain, orig.DstChain, orig.Sequence)
				if pf := src.proofAt(key, h); pf != nil {
					proof, height = pf, clienttypes.NewHeight(src.revision(), h)
					tag = "replay-newproof"
				}
			}
		}
	case 4: // other height, same proof
		height = clienttypes.NewHeight(height.RevisionNumber, height.RevisionHeight+uint64(g.rng.Intn(3))-1)
		tag = "replay-height"
	case 5: // other signer
		signer = (signer + 1 + g.rng.Intn(2)) % 3
		tag = "replay-signer"
	case 6: // garbage proof
		proof = make([]byte, 1+g.rng.Intn(64))
		g.rng.Read(proof)
		tag = "replay-proof"
	case 7: // after closing blocks on both sides
		w.commit(rec.chain)
		tag = "replay-later-block"
	}
	out := w.recv(rec.chain, packet, proof, height, signer, tag)
	if rec.chain.restarts > rec.epoch {
		if out.ok {
			w.r.Count("recv.replay.after-restart.ok")
		} else {
			w.r.Count("recv.replay.after-restart.err")
		}
	}
	g.maybeCommit(rec.chain)
}

// doRestart: genesis export -> import restart of a random chain, followed by replays / duplicate acks on it.
func (g *pktGen) doRestart() {
	w := g.w
	c := w.chains[g.rng.Intn(3)]
	if g.rng.Intn(2) == 0 {
		w.commit(c) // restarts happen at block boundaries as well as in the middle of a block
	}
	if !w.restart(c) {
		return
	}
	g.maybeCommit(c)
	for _, b := range w.bulks {
		if b.dst == c {
			g.bulkReplay(b)
		}
	}
	for i, n := 0, g.rng.Intn(3); i < n; i++ {
		g.doReplayOn(c)
	}
	if g.rng.Intn(2) == 0 {
		// duplicate of an accepted acknowledgement on the restarted chain
		var mine []*pktAckRec
		for _, a := range g.accAcks {
			if a.chain == c {
				mine = append(mine, a)
			}
		}
		if len(mine) > 0 {
			a := mine[g.rng.Intn(len(mine))]
			w.ack(a.chain, a.packet, a.ack, a.proof, a.height, a.signer, "dup-after-restart")
			g.maybeCommit(c)
		}
	}
}

// ---------------------------------------------------------------------------------------------
// C02: single- and multi-field alterations of valid messages

// mutatePacket alters field f (0..7) of p.
func (g *pktGen) mutatePacket(p packettypes.Packet, f int) packettypes.Packet {
	w := g.w
	switch f {
	case 0:
		switch g.rng.Intn(3) {
		case 0:
			p.SrcChain = w.chains[g.rng.Intn(3)].name
		case 1:
			p.SrcChain = p.SrcChain + "x"
		default:
			p.SrcChain = pktSwapCase(p.SrcChain)
		}
	case 1:
		switch g.rng.Intn(3) {
		case 0:
			p.DstChain = w.chains[g.rng.Intn(3)].name
		case 1:
			p.DstChain = "nowhere-1"
		default:
			p.DstChain = pktSwapCase(p.DstChain)
		}
	case 2:
		p.Sequence = p.Sequence + uint64(g.rng.Intn(3)) - 1
		if g.rng.Intn(8) == 0 {
			p.Sequence = 0
		}
	case 3:
		p.Sender = "0x" + strings.Repeat("cd", 20)
	case 4:
		td := append([]byte{}, p.TransferData...)
		if len(td) > 0 {
			td[g.rng.Intn(len(td))] ^= byte(1 << uint(g.rng.Intn(8)))
		} else {
			td = []byte{1}
		}
		p.TransferData = td
	case 5:
		p.CallData = append(append([]byte{}, p.CallData...), byte(g.rng.Intn(256)))
	case 6:
		p.CallbackAddress = "0x" + strings.Repeat("ef", 20)
	case 7:
		p.FeeOption = p.FeeOption + 1
	}
	return p
}

// mutateProof returns an altered proof for a message about `key` on chain `of` at proof height h.
func (g *pktGen) mutateProof(of *pktChain, proof []byte, h uint64, neighbours [][]byte) ([]byte, string) {
	switch g.rng.Intn(6) {
	case 0:
		if len(proof) > 0 {
			out := append([]byte{}, proof...)
			out[g.rng.Intn(len(out))] ^= byte(1 << uint(g.rng.Intn(8)))
			return out, "proof-bitflip"
		}
	case 1:
		if len(proof) > 1 {
			return append([]byte{}, proof[:g.rng.Intn(len(proof))]...), "proof-truncated"
		}
	case 2:
		return nil, "proof-empty"
	case 3, 4:
		if len(neighbours) > 0 {
			if pf := of.proofAt(neighbours[g.rng.Intn(len(neighbours))], h); pf != nil {
				return pf, "proof-neighbour"
			}
		}
	}
	out := make([]byte, 1+g.rng.Intn(200))
	g.rng.Read(out)
	return out, "proof-garbage"
}

// mutateHeight alters the proof height of a message verified by client `name` of chain c.
func (g *pktGen) mutateHeight(c *pktChain, name string, h clienttypes.Height) (clienttypes.Height, string) {
	switch g.rng.Intn(7) {
	case 0:
		return clienttypes.NewHeight(h.RevisionNumber, h.RevisionHeight+1), "height+1"
	case 1:
		return clienttypes.NewHeight(h.RevisionNumber, h.RevisionHeight-1), "height-1"
	case 2:
		return clienttypes.NewHeight(h.RevisionNumber, h.RevisionHeight+1000), "height-above-latest"
	case 3:
		return clienttypes.NewHeight(h.RevisionNumber+1, h.RevisionHeight), "height-revision"
	case 4:
		return clienttypes.NewHeight(0, 0), "height-zero"
	case 5:
		// a height without consensus state below the latest one
		for d := uint64(1); d < 6; d++ {
			cand := clienttypes.NewHeight(h.RevisionNumber, h.RevisionHeight-d)
			if _, found := c.tc.App.XIBCKeeper.ClientKeeper.GetClientConsensusState(c.tc.GetContext(), name, cand); !found && cand.RevisionHeight > 1 {
				return cand, "height-no-consensus"
			}
		}
	}
	// another stored consensus height
	for d := uint64(1); d < 40; d++ {
		cand := clienttypes.NewHeight(h.RevisionNumber, h.RevisionHeight-d)
		if _, found := c.tc.App.XIBCKeeper.ClientKeeper.GetClientConsensusState(c.tc.GetContext(), name, cand); found {
			return cand, "height-other-stored"
		}
	}
	return clienttypes.NewHeight(h.RevisionNumber, h.RevisionHeight+2), "height+2"
}

func (g *pktGen) neighbourKeys(p packettypes.Packet) [][]byte {
	return [][]byte{
		host.PacketCommitmentKey(p.SrcChain, p.DstChain, p.Sequence+1),
		host.PacketCommitmentKey(p.SrcChain, p.DstChain, p.Sequence-1),
		host.PacketAcknowledgementKey(p.SrcChain, p.DstChain, p.Sequence),
		host.PacketAcknowledgementKey(p.SrcChain, p.DstChain, p.Sequence-1),
		host.PacketReceiptKey(p.SrcChain, p.DstChain, p.Sequence),
		host.NextSequenceSendKey(p.SrcChain, p.DstChain),
	}
}

func (g *pktGen) doMutateRecv() {
	w := g.w
	pend := g.pendingRecv()
	if len(pend) == 0 {
		g.doSend()
		return
	}
	s := pend[g.rng.Intn(len(pend))]
	h, ok := g.provable(s.dst, s.src)
	if !ok {
		return
	}
	key := host.PacketCommitmentKey(s.p.SrcChain, s.p.DstChain, s.p.Sequence)
	proof := s.src.proofAt(key, h)
	if proof == nil {
		return
	}
	height := clienttypes.NewHeight(s.src.revision(), h)
	nmut := 1
	if g.rng.Intn(4) == 0 {
		nmut = 2 + g.rng.Intn(2)
	}
	packet, signer := s.bz, 0
	var tags []string
	for i := 0; i < nmut; i++ {
		switch g.rng.Intn(10) {
		case 0, 1, 2:
			f := g.rng.Intn(8)
			var cur packettypes.Packet
			if cur.ABIDecode(packet) != nil {
				continue
			}
			packet, _ = g.mutatePacket(cur, f).ABIPack()
			tags = append(tags, fmt.Sprintf("pkt-field%d", f))
		case 3:
			out := append([]byte{}, packet...)
			out[g.rng.Intn(len(out))] ^= byte(1 << uint(g.rng.Intn(8)))
			packet = out
			tags = append(tags, "pkt-bitflip")
		case 4, 5, 6:
			var t string
			proof, t = g.mutateProof(s.src, proof, h, g.neighbourKeys(s.p))
			tags = append(tags, t)
		case 7, 8:
			var t string
			height, t = g.mutateHeight(s.dst, s.src.name, height)
			if t == "height-other-stored" && g.rng.Intn(2) == 0 {
				// consistent variant: genuine proof for that other stored height (valid iff the packet was already committed then)
				if pf := s.src.proofAt(key, height.RevisionHeight); pf != nil {
					proof = pf
					t = "height-other-stored-reproved"
				}
			}
			tags = append(tags, t)
		case 9:
			signer = 1 + g.rng.Intn(2)
			tags = append(tags, fmt.Sprintf("signer%d", signer))
		}
	}
	tag := "mut-multi"
	if len(tags) == 1 {
		tag = "mut-" + tags[0]
	} else if len(tags) == 0 {
		tag = "mut-none"
	}
	out := w.recv(s.dst, packet, proof, height, signer, tag)
	if out.ok {
		var p2 packettypes.Packet
		if p2.ABIDecode(packet) == nil && p2.String() == s.p.String() {
			s.recvd = true
			s.ackBz = out.ackBz
			g.accRecv = append(g.accRecv, &pktRecvRec{chain: s.dst, packet: packet, proof: proof, height: height, signer: signer, epoch: s.dst.restarts})
		}
	}
	g.maybeCommit(s.dst)
}

func (g *pktGen) ackBytesVariant(orig []byte, kind int) ([]byte, string) {
	var a packettypes.Acknowledgement
	if a.ABIDecode(orig) != nil {
		return orig, "ack-same"
	}
	switch kind {
	case 0: // success <-> error
		if a.Code == 0 {
			a.Code = 1
			a.Message = "receive packet callback failed"
		} else {
			a.Code = 0
			a.Message = ""
			a.Result = nil
		}
		bz, _ := a.ABIPack()
		return bz, "ack-flipped"
	case 1:
		a.Relayer = g.w.chains[0].accts[2].addr.String()
		bz, _ := a.ABIPack()
		return bz, "ack-relayer"
	case 2:
		a.Result = append(append([]byte{}, a.Result...), 1)
		bz, _ := a.ABIPack()
		return bz, "ack-result"
	case 3:
		out := append([]byte{}, orig...)
		out[g.rng.Intn(len(out))] ^= byte(1 << uint(g.rng.Intn(8)))
		return out, "ack-bitflip"
	default:
		return append(append([]byte{}, orig...), make([]byte, 32)...), "ack-trailing"
	}
}

func (g *pktGen) doMutateAck() {
	w := g.w
	pend := g.pendingAck()
	if len(pend) == 0 {
		g.doRelay()
		return
	}
	s := pend[g.rng.Intn(len(pend))]
	h, ok := g.provable(s.src, s.dst)
	if !ok {
		return
	}
	key := host.PacketAcknowledgementKey(s.p.SrcChain, s.p.DstChain, s.p.Sequence)
	proof := s.dst.proofAt(key, h)
	if proof == nil {
		return
	}
	height := clienttypes.NewHeight(s.dst.revision(), h)
	packet, ackBz, signer := s.bz, s.ackBz, g.rng.Intn(3)
	var tags []string
	nmut := 1
	if g.rng.Intn(4) == 0 {
		nmut = 2
	}
	for i := 0; i < nmut; i++ {
		switch g.rng.Intn(10) {
		case 0, 1, 2:
			f := g.rng.Intn(8)
			var cur packettypes.Packet
			if cur.ABIDecode(packet) != nil {
				continue
			}
			packet, _ = g.mutatePacket(cur, f).ABIPack()
			tags = append(tags, fmt.Sprintf("pkt-field%d", f))
		case 3, 4, 5:
			var t string
			ackBz, t = g.ackBytesVariant(ackBz, g.rng.Intn(5))
			tags = append(tags, t)
		case 6, 7:
			var t string
			proof, t = g.mutateProof(s.dst, proof, h, g.neighbourKeys(s.p))
			tags = append(tags, t)
		case 8, 9:
			var t string
			height, t = g.mutateHeight(s.src, s.dst.name, height)
			tags = append(tags, t)
		}
	}
	tag := "mut-multi"
	if len(tags) == 1 {
		tag = "mut-" + tags[0]
	} else if len(tags) == 0 {
		tag = "mut-none"
	}
	out := w.ack(s.src, packet, ackBz, proof, height, signer, tag)
	if out.ok {
		var p2 packettypes.Packet
		if p2.ABIDecode(packet) == nil && p2.String() == s.p.String() {
			s.acked = true
			g.accAcks = append(g.accAcks, &pktAckRec{chain: s.src, packet: packet, ack: ackBz, proof: proof, height: height, signer: signer})
		}
	}
	g.maybeCommit(s.src)
}

// ---------------------------------------------------------------------------------------------
// C05: duplicated / reordered / conflicting acknowledgements

func (g *pktGen) doAckConflict() {
	w := g.w
	switch g.rng.Intn(7) {
	case 0, 1: // duplicate of an accepted acknowledgement (identical / other signer / fresh proof), same or later block
		if len(g.accAcks) == 0 {
			g.doAckRelay()
			return
		}
		rec := g.accAcks[g.rng.Intn(len(g.accAcks))]
		proof, height, signer, tag := rec.proof, rec.height, rec.signer, "dup-identical"
		var p packettypes.Packet
		_ = p.ABIDecode(rec.packet)
		dst := w.byName[p.DstChain]
		switch g.rng.Intn(3) {
		case 1:
			signer = (signer + 1) % 3
			tag = "dup-signer"
		case 2:
			if dst != nil {
				if h, ok := g.provable(rec.chain, dst); ok {
					if pf := dst.proofAt(host.PacketAcknowledgementKey(p.SrcChain, p.DstChain, p.Sequence), h); pf != nil {
						proof, height, tag = pf, clienttypes.NewHeight(dst.revision(), h), "dup-newproof"
					}
				}
			}
		}
		w.ack(rec.chain, rec.packet, rec.ack, proof, height, signer, tag)
		g.maybeCommit(rec.chain)
	case 2: // acknowledgement before the receive: the packet is committed on the source but was never received
		pend := g.pendingRecv()
		if len(pend) == 0 {
			g.doSend()
			return
		}
		s := pend[g.rng.Intn(len(pend))]
		h, ok := g.provable(s.src, s.dst)
		if !ok {
			return
		}
		ackBz := w.defAckEnc(0, nil, "", s.src.accts[0].addr.String(), s.p.FeeOption)
		// best available "proof": the genuine proof of some other acknowledgement on the destination, else garbage
		var proof []byte
		for _, o := range w.sent {
			if o.recvd && o.dst == s.dst {
				proof = s.dst.proofAt(host.PacketAcknowledgementKey(o.p.SrcChain, o.p.DstChain, o.p.Sequence), h)
				if proof != nil {
					break
				}
			}
		}
		if proof == nil {
			proof = []byte{1, 2, 3}
		}
		w.ack(s.src, s.bz, ackBz, proof, clienttypes.NewHeight(s.dst.revision(), h), 0, "before-recv")
		g.maybeCommit(s.src)
	case 3: // acknowledgement for a packet that was never sent (next sequence / other payload)
		if len(w.sent) == 0 {
			g.doSend()
			return
		}
		s := w.sent[g.rng.Intn(len(w.sent))]
		p2 := s.p
		if g.rng.Intn(2) == 0 {
			p2.Sequence += 1000
		} else {
			p2.TransferData = append(append([]byte{}, p2.TransferData...), 7)
		}
		bz, _ := p2.ABIPack()
		h, ok := g.provable(s.src, s.dst)
		if !ok {
			return
		}
		ackBz := s.ackBz
		if ackBz == nil {
			ackBz = w.defAckEnc(0, nil, "", s.src.accts[0].addr.String(), s.p.FeeOption)
		}
		proof := s.dst.proofAt(host.PacketAcknowledgementKey(s.p.SrcChain, s.p.DstChain, s.p.Sequence), h)
		if proof == nil {
			proof = []byte{9}
		}
		w.ack(s.src, bz, ackBz, proof, clienttypes.NewHeight(s.dst.revision(), h), 0, "never-sent")
		g.maybeCommit(s.src)
	case 4: // conflicting acknowledgement: success for error and vice versa, genuine proof of the real one
		pend := g.pendingAck()
		if len(pend) == 0 {
			g.doRelay()
			return
		}
		s := pend[g.rng.Intn(len(pend))]
		h, ok := g.provable(s.src, s.dst)
		if !ok {
			return
		}
		proof := s.dst.proofAt(host.PacketAcknowledgementKey(s.p.SrcChain, s.p.DstChain, s.p.Sequence), h)
		if proof == nil {
			return
		}
		bz, _ := g.ackBytesVariant(s.ackBz, 0)
		w.ack(s.src, s.bz, bz, proof, clienttypes.NewHeight(s.dst.revision(), h), g.rng.Intn(3), "conflicting")
		g.maybeCommit(s.src)
	case 5: // acknowledgement with the proof of another sequence of the same path
		pend := g.pendingAck()
		if len(pend) == 0 {
			g.doRelay()
			return
		}
		s := pend[g.rng.Intn(len(pend))]
		var other *pktSent
		for _, o := range w.sent {
			if o != s && o.recvd && o.src == s.src && o.dst == s.dst {
				other = o
			}
		}
		if other == nil {
			g.doRelay()
			return
		}
		h, ok := g.provable(s.src, s.dst)
		if !ok {
			return
		}
		proof := s.dst.proofAt(host.PacketAcknowledgementKey(other.p.SrcChain, other.p.DstChain, other.p.Sequence), h)
		if proof == nil {
			return
		}
		ackBz := s.ackBz
		if g.rng.Intn(2) == 0 {
			ackBz = other.ackBz // the other packet's ack bytes with the other packet's proof, for this packet
		}
		w.ack(s.src, s.bz, ackBz, proof, clienttypes.NewHeight(s.dst.revision(), h), 0, "other-seq-proof")
		g.maybeCommit(s.src)
	case 6: // registry change: R1 / R2 get registered for more chains (lets stuck acknowledgements through later)
		c := w.chains[g.rng.Intn(3)]
		var others []string
		for _, o := range w.chains {
			if o != c && g.rng.Intn(3) > 0 {
				others = append(others, o.name)
			}
		}
		w.register(c, 1+g.rng.Intn(2), others)
		w.r.Count("registry.changed")
		g.maybeCommit(c)
	}
}

func TestC01(t *testing.T) {
	pktRun(t, "C01", pktWeights{send: 14, relay: 14, ackRelay: 8, replay: 40, commit: 4, update: 4, plant: 4, restart: 3, evm: 6, tss: 4, toggle: 3, cbErr: 24})
}

func TestC05(t *testing.T) {
	pktRun(t, "C05", pktWeights{send: 16, relay: 16, ackRelay: 14, replay: 4, mutateAck: 8, ackConflict: 34, commit: 4, update: 4, plant: 3, restart: 3, evm: 8, tss: 8, toggle: 3, cbErr: 30})
}

func TestC02(t *testing.T) {
	pktRun(t, "C02", pktWeights{send: 14, relay: 8, ackRelay: 8, replay: 2, mutateRecv: 32, mutateAck: 28, ackConflict: 2, commit: 3, update: 3, plant: 3, restart: 2, evm: 30, tss: 8, toggle: 2, cbErr: 26})
}

// pktSwapCase flips the case of the first letter (a name differing only in case).
func pktSwapCase(s string) string {
	for i, ch := range s {
		if ch >= 'a' && ch <= 'z' {
			return s[:i] + strings.ToUpper(string(ch)) + s[i+1:]
		}
		if ch >= 'A' && ch <= 'Z' {
			return s[:i] + strings.ToLower(string(ch)) + s[i+1:]
		}
	}
	return s
}

// ---------------------------------------------------------------------------------------------
// EVM-secured counterparties: genuine traffic and the forgery families

func (g *pktGen) doEvm() {
	w := g.w
	if len(w.evms) == 0 {
		return
	}
	ev := w.evms[g.rng.Intn(len(w.evms))]
	x := g.rng.Intn(100)
	if g.id != "C02" {
		x = g.rng.Intn(60) // mostly genuine traffic outside C02
	}
	switch {
	case x < 12:
		if g.rng.Intn(10) < 4 {
			// value-boundary classes: the commitment word starts with one / two zero bytes or ends with zero bytes
			class := []string{"lead0", "lead0", "trail0", "trail0", "lead00", "trail00"}[g.rng.Intn(6)]
			if ep := w.evmGroundPacket(ev, ev.inSeq, class, g.rng.Uint32()); ep != nil {
				ev.inSeq++
				ev.cur[string(ev.contract)].storage[string(ep.slot)] = pktSha(ep.bz)
				ev.cur[string(ev.contract)].nonce++
				ev.in = append(ev.in, ep)
				w.r.Count("evm.send." + ev.kind)
				w.r.Count("evm.send.ground." + class)
				break
			}
		}
		w.evmSend(ev, int64(1+g.rng.Intn(300)), true)
	case x < 28:
		g.evmRelayIn(ev)
	case x < 38:
		g.evmSendOut(ev)
	case x < 50:
		g.evmRelayAck(ev)
	case x < 56:
		w.evmAdvance(ev, uint64(1+g.rng.Intn(3)))
	case x < 82:
		g.evmForgeRecv(ev)
	default:
		g.evmForgeAck(ev)
	}
	g.maybeCommit(ev.host)
}

func (g *pktGen) evmHeight(h uint64) clienttypes.Height { return clienttypes.NewHeight(0, h) }

func (g *pktGen) evmRelayIn(ev *pktEvm) {
	w := g.w
	var pend []*pktEvmPacket
	for _, ep := range ev.in {
		if !ep.recvd {
			pend = append(pend, ep)
		}
	}
	if len(pend) == 0 {
		w.evmSend(ev, int64(1+g.rng.Intn(300)), true)
		return
	}
	ep := pend[g.rng.Intn(len(pend))]
	h := w.evmProvable(ev)
	if ep.at == 0 {
		ep.at = h
	}
	proof := ev.states[h].genuine(ev.contract, ep.slot).json()
	signer := 0
	tag := "evm-genuine-" + ev.kind
	if ev.host.kind[ev.name] == "tss" {
		signer, proof, tag = g.tssSignerProof(ev.host, ev.name, signer, proof)
	}
	out := w.recv(ev.host, ep.bz, proof, g.evmHeight(h), signer, tag)
	if out.ok && ep.class != "" && strings.HasPrefix(tag, "evm-genuine") {
		w.r.Count("evm.word." + ep.class)
		w.r.Count("evm.word." + ep.class + "." + ev.kind + ".recv")
	}
	if out.ok {
		ep.recvd = true
		ep.ackBz = out.ackBz
		g.accRecv = append(g.accRecv, &pktRecvRec{chain: ev.host, packet: ep.bz, proof: proof, height: g.evmHeight(h), signer: signer, epoch: ev.host.restarts})
		if g.rng.Intn(2) == 0 {
			w.recv(ev.host, ep.bz, proof, g.evmHeight(h), signer, "replay-same-block")
		}
	}
}

func (g *pktGen) evmSendOut(ev *pktEvm) { g.evmSendOutWith(ev, -1, -1) }

// evmSendOutWith: success / deliver = 1 yes, 0 no, -1 random.
func (g *pktGen) evmSendOutWith(ev *pktEvm, success, deliver int) {
	w := g.w
	cs := w.callSpec(ev.host, ev.host, "n", func(b []byte) { g.rng.Read(b) })
	s := w.send(ev.host, ev.name, int64(1+g.rng.Intn(300)), cs, 0)
	if s == nil {
		return
	}
	// the EVM chain "receives" it (now or later): the hash of its acknowledgement — success, or an error acknowledgement
	// that makes this chain refund — appears under the ack slot
	relayer := ev.host.regAddr[ev.host.accts[0].addr.String()][ev.name]
	var ackBz []byte
	if success == 1 || (success < 0 && g.rng.Intn(10) < 7) {
		ackBz = w.defAckEnc(0, []byte{}, "", relayer, s.p.FeeOption)
	} else {
		ackBz = w.defAckEnc(2, []byte{}, "onRecvPackt: binding is not exist", relayer, s.p.FeeOption)
	}
	class := ""
	if success < 0 && g.rng.Intn(10) < 4 {
		// value-boundary classes of the acknowledgement hash (success and error acknowledgements)
		c := []string{"lead0", "lead0", "trail0", "trail0", "lead00", "trail00"}[g.rng.Intn(6)]
		var a packettypes.Acknowledgement
		if a.ABIDecode(ackBz) == nil {
			if gb := w.evmGroundAck(a.Code, a.Message, relayer, c, g.rng.Uint32()); gb != nil {
				ackBz, class = gb, c
				w.defAck(ackBz)
			}
		}
	}
	slot := pktEvmSlot(host.PacketAcknowledgementKey(s.p.SrcChain, s.p.DstChain, s.p.Sequence))
	ep := &pktEvmPacket{bz: s.bz, p: s.p, slot: slot, ackBz: ackBz, outward: true, class: class}
	ev.out = append(ev.out, ep)
	if deliver == 1 || (deliver < 0 && g.rng.Intn(10) < 6) {
		g.evmDeliverOut(ev, ep)
	}
	w.r.Count("evm.sendout." + ev.kind)
}

// evmDeliverOut: the EVM chain processes the packet and stores the hash of its acknowledgement.
func (g *pktGen) evmDeliverOut(ev *pktEvm, ep *pktEvmPacket) {
	if ep.ackStored {
		return
	}
	ev.cur[string(ev.contract)].storage[string(ep.slot)] = pktSha(ep.ackBz)
	ev.cur[string(ev.contract)].nonce++
	ep.ackStored = true
}

func (g *pktGen) evmRelayAck(ev *pktEvm) {
	w := g.w
	var pend []*pktEvmPacket
	for _, ep := range ev.out {
		if !ep.acked {
			pend = append(pend, ep)
		}
	}
	if len(pend) == 0 {
		g.evmSendOut(ev)
		return
	}
	ep := pend[g.rng.Intn(len(pend))]
	g.evmDeliverOut(ev, ep)
	h := w.evmProvable(ev)
	proof := ev.states[h].genuine(ev.contract, ep.slot).json()
	signer := g.rng.Intn(3)
	tag := "evm-genuine-" + ev.kind
	if ev.host.kind[ev.name] == "tss" {
		signer, proof, tag = g.tssSignerProof(ev.host, ev.name, signer, proof)
	}
	out := w.ack(ev.host, ep.bz, ep.ackBz, proof, g.evmHeight(h), signer, tag)
	if out.ok && ep.class != "" && strings.HasPrefix(tag, "evm-genuine") {
		w.r.Count("evm.word." + ep.class)
		w.r.Count("evm.word." + ep.class + "." + ev.kind + ".ack")
	}
	if out.ok {
		ep.acked = true
		g.accAcks = append(g.accAcks, &pktAckRec{chain: ev.host, packet: ep.bz, ack: ep.ackBz, proof: proof, height: g.evmHeight(h), signer: signer})
		if g.rng.Intn(2) == 0 {
			w.ack(ev.host, ep.bz, ep.ackBz, proof, g.evmHeight(h), signer, "replay-same-block")
		}
	}
}

func pktFlipHex(rng *rand.Rand, s string) string {
	b := common.FromHex(s)
	if len(b) == 0 {
		return "0x01"
	}
	b[rng.Intn(len(b))] ^= byte(1 << uint(rng.Intn(8)))
	return hexutil.Encode(b)
}

// evmForge builds a forged / altered proof for (path, value). stored: the value really is in the packet contract's
// storage (then the alterations concern proof, account fields or height); otherwise the forger tries to "prove" a
// value the EVM chain never stored. Returns proof, proof height, tag.
func (g *pktGen) evmForge(ev *pktEvm, path, value []byte, stored bool) ([]byte, clienttypes.Height, string) {
	w := g.w
	slot := pktEvmSlot(path)
	if !stored {
		switch g.rng.Intn(7) {
		case 0, 1: // the honest account proof, storage_hash + storage_proof of a trie built by the forger
			h := w.evmProvable(ev)
			st := ev.states[h]
			rec := st.genuine(ev.contract, slot)
			forged := map[string][]byte{}
			for k, v := range st.accts[string(ev.contract)].storage {
				forged[k] = v
			}
			forged[string(slot)] = value
			ft := pktEvmStorageTrie(forged)
			rec.StorageHash = ft.Hash().Hex()
			rec.StorageProof = []*pktEvmSP{{Key: hexutil.Encode(slot), Value: hexutil.Encode(value), Proof: pktEvmProve(ft, crypto.Keccak256(slot))}}
			return rec.json(), g.evmHeight(h), "forged-storage-trie"
		case 2, 3: // the value is stored by ANOTHER contract with the same code hash
			ev.cur[string(ev.other)].storage[string(slot)] = value
			h := w.evmProvable(ev)
			rec := ev.states[h].genuine(ev.other, slot)
			if g.rng.Intn(2) == 0 {
				rec.Address = hexutil.Encode(ev.contract)
				return rec.json(), g.evmHeight(h), "other-account-readdressed"
			}
			return rec.json(), g.evmHeight(h), "other-account"
		case 4: // genuine proof of another slot of the packet contract
			h := w.evmProvable(ev)
			st := ev.states[h]
			var otherSlot []byte
			for k, v := range st.accts[string(ev.contract)].storage {
				if k != string(slot) {
					otherSlot = []byte(k)
					if g.rng.Intn(2) == 0 {
						// make the other slot hold exactly the value, as if it were stored elsewhere
						_ = v
					}
					break
				}
			}
			rec := st.genuine(ev.contract, otherSlot)
			if g.rng.Intn(2) == 0 {
				rec.StorageProof[0].Key = hexutil.Encode(slot)
				return rec.json(), g.evmHeight(h), "other-slot-rekeyed"
			}
			return rec.json(), g.evmHeight(h), "other-slot"
		case 5: // lists of entries for other slots, none of them the slot of the path
			h := w.evmProvable(ev)
			st := ev.states[h]
			rec := st.genuine(ev.contract, slot)
			var entries []*pktEvmSP
			for k := range st.accts[string(ev.contract)].storage {
				if k != string(slot) && len(entries) < 2+g.rng.Intn(2) {
					entries = append(entries, st.genuine(ev.contract, []byte(k)).StorageProof[0])
				}
			}
			rec.StorageProof = entries
			return rec.json(), g.evmHeight(h), "multi-entry-absent"
		default: // genuine non-inclusion proof
			h := w.evmProvable(ev)
			return ev.states[h].genuine(ev.contract, slot).json(), g.evmHeight(h), "absent"
		}
	}
	h := w.evmProvable(ev)
	st := ev.states[h]
	rec := st.genuine(ev.contract, slot)
	switch g.rng.Intn(14) {
	case 0:
		rec.Nonce = hexutil.EncodeUint64(st.accts[string(ev.contract)].nonce + 1)
		return rec.json(), g.evmHeight(h), "field-nonce"
	case 1:
		rec.Balance = "0x1"
		return rec.json(), g.evmHeight(h), "field-balance"
	case 2:
		rec.StorageHash = pktFlipHex(g.rng, rec.StorageHash)
		return rec.json(), g.evmHeight(h), "field-storage-hash"
	case 3:
		rec.CodeHash = pktFlipHex(g.rng, rec.CodeHash)
		return rec.json(), g.evmHeight(h), "field-code-hash"
	case 4:
		i := g.rng.Intn(len(rec.AccountProof))
		rec.AccountProof[i] = pktFlipHex(g.rng, rec.AccountProof[i])
		return rec.json(), g.evmHeight(h), "field-account-proof"
	case 5:
		i := g.rng.Intn(len(rec.StorageProof[0].Proof))
		rec.StorageProof[0].Proof[i] = pktFlipHex(g.rng, rec.StorageProof[0].Proof[i])
		return rec.json(), g.evmHeight(h), "field-storage-proof"
	case 6:
		rec.StorageProof[0].Key = pktFlipHex(g.rng, rec.StorageProof[0].Key)
		return rec.json(), g.evmHeight(h), "field-key"
	case 7:
		rec.Address = hexutil.Encode(ev.other)
		return rec.json(), g.evmHeight(h), "field-address"
	case 8: // the root of an earlier height, before the value was stored
		for i := len(ev.heights) - 1; i >= 0; i-- {
			h0 := ev.heights[i]
			if _, has := ev.states[h0].accts[string(ev.contract)].storage[string(slot)]; !has {
				return rec.json(), g.evmHeight(h0), "other-height"
			}
		}
		return rec.json(), g.evmHeight(h + 1), "height+1"
	case 9:
		return rec.json(), g.evmHeight(ev.head + 5), "height-above-head"
	case 10: // sealed and genuine, but inside the confirmation-block window
		st2 := w.evmAdvance(ev, 1)
		return st2.genuine(ev.contract, slot).json(), g.evmHeight(st2.height), "height-inside-delay"
	case 11:
		return rec.json(), clienttypes.NewHeight(1, h), "height-revision"
	default: // the genuine entry inside a list of 0, 2 or 3 entries (eth_getProof for several slots)
		var filler []*pktEvmSP
		for k := range st.accts[string(ev.contract)].storage {
			if k != string(slot) && len(filler) < 2 {
				filler = append(filler, st.genuine(ev.contract, []byte(k)).StorageProof[0])
			}
		}
		own := rec.StorageProof[0]
		switch g.rng.Intn(4) {
		case 0:
			rec.StorageProof = []*pktEvmSP{}
			return rec.json(), g.evmHeight(h), "multi-entry-none"
		case 1:
			rec.StorageProof = []*pktEvmSP{own, filler[0]}
			return rec.json(), g.evmHeight(h), "multi-entry-first"
		case 2:
			rec.StorageProof = []*pktEvmSP{filler[0], own}
			return rec.json(), g.evmHeight(h), "multi-entry-last"
		default:
			rec.StorageProof = []*pktEvmSP{filler[0], own, filler[1]}
			return rec.json(), g.evmHeight(h), "multi-entry-middle"
		}
	}
}

// evmSameValue: a proof for `target` built from the genuine entry of `donor`, a slot that holds the same value:
// un-rekeyed, alone or inside lists of 2-3 entries without any entry for the target slot.
func (g *pktGen) evmSameValue(ev *pktEvm, st *pktEvmState, donor, target []byte) ([]byte, string) {
	rec := st.genuine(ev.contract, donor)
	own := rec.StorageProof[0]
	var filler []*pktEvmSP
	for k := range st.accts[string(ev.contract)].storage {
		if k != string(donor) && k != string(target) && len(filler) < 2 {
			filler = append(filler, st.genuine(ev.contract, []byte(k)).StorageProof[0])
		}
	}
	switch g.rng.Intn(5) {
	case 0, 1:
		return rec.json(), "same-value-other-slot"
	case 2:
		rec.StorageProof = []*pktEvmSP{own, filler[0]}
		return rec.json(), "same-value-list-first"
	case 3:
		rec.StorageProof = []*pktEvmSP{filler[0], own}
		return rec.json(), "same-value-list-last"
	default:
		// with the target's own (non-inclusion) entry present somewhere in the list
		tgt := st.genuine(ev.contract, target).StorageProof[0]
		rec.StorageProof = []*pktEvmSP{own, filler[0], tgt}
		return rec.json(), "same-value-list-with-target-entry"
	}
}

func (g *pktGen) evmForgeRecv(ev *pktEvm) {
	w := g.w
	var pend []*pktEvmPacket
	for _, ep := range ev.in {
		if !ep.recvd {
			pend = append(pend, ep)
		}
	}
	if g.rng.Intn(6) == 0 {
		g.evmShiftedRecv(ev, g.rng.Intn(3) == 0)
		return
	}
	if false {
		mirror := false
		class := []string{"trail0", "trail0", "trail00"}[g.rng.Intn(3)]
		if mirror {
			class = []string{"lead0", "lead0", "lead00"}[g.rng.Intn(3)]
		}
		fp := w.evmGroundPacket(ev, ev.inSeq, class, g.rng.Uint32())
		if fp == nil {
			return
		}
		hsh := pktSha(fp.bz)
		word := pktShift(hsh, mirror)
		if bytes.Equal(word, hsh) {
			return
		}
		ev.cur[string(ev.contract)].storage[string(fp.slot)] = word
		ev.cur[string(ev.contract)].nonce++
		h := w.evmProvable(ev)
		proof := ev.states[h].genuine(ev.contract, fp.slot).json()
		tag := "evm-shifted-word"
		if mirror {
			tag = "evm-shifted-word-mirror"
		}
		w.recv(ev.host, fp.bz, proof, g.evmHeight(h), 0, tag)
		return
	}
	stored := len(pend) > 0 && g.rng.Intn(2) == 0
	var ep *pktEvmPacket
	if stored {
		ep = pend[g.rng.Intn(len(pend))]
	} else {
		ep = w.evmSend(ev, int64(1+g.rng.Intn(300)), false) // a packet the EVM chain never sent
		ev.inSeq--                                          // the sequence stays free for a genuine packet
		if g.rng.Intn(2) == 0 && len(pend) > 0 {
			// same triple as a really sent packet, other payload
			real := pend[g.rng.Intn(len(pend))]
			p2 := real.p
			p2.TransferData = append(append([]byte{}, p2.TransferData...), 1)
			bz, _ := p2.ABIPack()
			ep = &pktEvmPacket{bz: bz, p: p2, slot: real.slot}
		}
	}
	path := host.PacketCommitmentKey(ep.p.SrcChain, ep.p.DstChain, ep.p.Sequence)
	var value []byte
	{
		var dp packettypes.Packet
		_ = dp.ABIDecode(ep.bz)
		enc, _ := dp.ABIPack()
		value = pktSha(enc)
	}
	if !stored {
		// never stored under this path with this value?
		if v, has := ev.cur[string(ev.contract)].storage[string(pktEvmSlot(path))]; has && string(v) == string(value) {
			return
		}
	}
	proof, h, tag := g.evmForge(ev, path, value, stored)
	out := w.recv(ev.host, ep.bz, proof, h, 0, "evm-"+tag)
	if !out.ok && (strings.HasPrefix(tag, "field-") || strings.HasPrefix(tag, "height") || tag == "other-height") {
		w.r.Count("recv.evm-single-alteration.err")
	}
	if out.ok && stored {
		ep.recvd = true
		ep.ackBz = out.ackBz
	}
}

func (g *pktGen) evmForgeAck(ev *pktEvm) {
	w := g.w
	var pend []*pktEvmPacket
	for _, ep := range ev.out {
		if !ep.acked {
			pend = append(pend, ep)
		}
	}
	if len(pend) == 0 {
		g.evmSendOut(ev)
		return
	}
	if g.rng.Intn(6) == 0 {
		if g.evmShiftedAck(ev, g.rng.Intn(3) == 0) {
			return
		}
	}
	ep := pend[g.rng.Intn(len(pend))]
	path := host.PacketAcknowledgementKey(ep.p.SrcChain, ep.p.DstChain, ep.p.Sequence)
	// the acknowledgement hash does not cover the sequence: another packet of the same path acknowledged with the very
	// same bytes gives a genuine proof of the SAME value under ANOTHER slot
	if g.rng.Intn(5) < 2 {
		var target, donor *pktEvmPacket
		findPair := func() {
			for _, a := range ev.out {
				if a.acked || a.ackStored {
					continue
				}
				for _, b := range ev.out {
					if b != a && b.ackStored && string(b.ackBz) == string(a.ackBz) {
						target, donor = a, b
					}
				}
			}
		}
		findPair()
		if target == nil {
			// build the natural situation: two packets to the same chain, the first acknowledged there, the second pending
			ok := g.rng.Intn(3)
			if ok > 1 {
				ok = 1
			}
			g.evmSendOutWith(ev, ok, 1)
			g.evmSendOutWith(ev, ok, 0)
			findPair()
		}
		for _, a := range pend[:0] {
			if a.ackStored {
				continue
			}
			for _, b := range ev.out {
				if b != a && b.ackStored && string(b.ackBz) == string(a.ackBz) {
					target, donor = a, b
				}
			}
		}
		if target != nil {
			h := w.evmProvable(ev)
			st := ev.states[h]
			proof, tag := g.evmSameValue(ev, st, donor.slot, target.slot)
			out := w.ack(ev.host, target.bz, donor.ackBz, proof, g.evmHeight(h), g.rng.Intn(3), "evm-"+tag)
			w.r.Count("ack.evm-same-value." + map[bool]string{true: "ok", false: "err"}[out.ok])
			if out.ok {
				target.acked = true // (only a broken verifier gets here)
			}
			return
		}
		w.r.Count("ack.evm-same-value.no-pair")
	}
	if !ep.ackStored && g.rng.Intn(2) == 0 {
		g.evmDeliverOut(ev, ep)
	}
	stored := ep.ackStored
	ackBz := ep.ackBz
	if stored && g.rng.Intn(2) == 0 {
		stored = false
	}
	if !stored && ep.ackStored {
		// an acknowledgement the EVM chain never wrote: the opposite outcome
		relayer := ev.host.regAddr[ev.host.accts[0].addr.String()][ev.name]
		ackBz = w.defAckEnc(1, []byte{}, "forged", relayer, ep.p.FeeOption)
	}
	proof, h, tag := g.evmForge(ev, path, pktSha(ackBz), stored)
	out := w.ack(ev.host, ep.bz, ackBz, proof, h, g.rng.Intn(3), "evm-"+tag)
	if !out.ok && (strings.HasPrefix(tag, "field-") || strings.HasPrefix(tag, "height") || tag == "other-height") {
		w.r.Count("ack.evm-single-alteration.err")
	}
	if out.ok && stored {
		ep.acked = true
	}
}

// ---------------------------------------------------------------------------------------------
// TSS-secured counterparties and client lifecycle

// tssSignerProof: for a message verified by a TSS client choose who signs (mostly the TSS account T, sometimes the given
// other account) and what the proof field holds (the given bytes, nothing, the public TSS address, random bytes).
func (g *pktGen) tssSignerProof(c *pktChain, name string, other int, proof []byte) (int, []byte, string) {
	signer, who := c.tssAcct(name), "tss-signer"
	switch g.rng.Intn(6) {
	case 0:
		signer, who = other, "other-signer"
		if signer == c.tssAcct(name) {
			signer = 0
		}
	case 1: // the other TSS key: retired if it has been authoritative for this client, not yet in force otherwise
		signer = pktT + pktT2 - c.tssAcct(name)
		who = "tss-future-signer"
		if c.tssEver[name][signer] {
			who = "tss-retired-signer"
		}
	}
	switch g.rng.Intn(4) {
	case 0:
		return signer, nil, who + "-proof-empty"
	case 1:
		return signer, []byte(c.tssAddrOf(name)), who + "-proof-tssaddr"
	case 2:
		b := make([]byte, 1+g.rng.Intn(40))
		g.rng.Read(b)
		return signer, b, who + "-proof-random"
	}
	return signer, proof, who + "-proof-kept"
}

func (g *pktGen) doTss() {
	w := g.w
	if len(w.tsss) == 0 {
		return
	}
	ts := w.tsss[g.rng.Intn(len(w.tsss))]
	c := ts.host
	h := clienttypes.NewHeight(0, uint64(1+g.rng.Intn(50)))
	if g.rng.Intn(100) < 22 {
		g.doRotate(ts)
		return
	}
	switch x := g.rng.Intn(100); {
	case x < 45: // a packet from the TSS chain: delivered by T (accepted) or by somebody else (refused), any proof field
		var pend []*pktEvmPacket
		for _, ep := range ts.in {
			if !ep.recvd {
				pend = append(pend, ep)
			}
		}
		var ep *pktEvmPacket
		if len(pend) > 0 && g.rng.Intn(2) == 0 {
			ep = pend[g.rng.Intn(len(pend))]
		} else {
			ep = w.tssPacket(ts, ts.inSeq, int64(1+g.rng.Intn(200)))
			ts.inSeq++
			ts.in = append(ts.in, ep)
		}
		signer, proof, tag := g.tssSignerProof(c, ts.name, g.rng.Intn(3), nil)
		out := w.recv(c, ep.bz, proof, h, signer, "tss-"+tag)
		if out.ok {
			ep.recvd = true
			ep.ackBz = out.ackBz
			g.accRecv = append(g.accRecv, &pktRecvRec{chain: c, packet: ep.bz, proof: proof, height: h, signer: signer, epoch: c.restarts})
			if g.rng.Intn(2) == 0 {
				w.recv(c, ep.bz, proof, h, signer, "replay-same-block")
			}
		}
	case x < 65: // a packet to the TSS chain
		cs := w.callSpec(c, c, "n", func(b []byte) { g.rng.Read(b) })
		if s := w.send(c, ts.name, int64(1+g.rng.Intn(300)), cs, 0); s != nil {
			relayer := c.regAddr[c.tssAddr()][ts.name]
			var ackBz []byte
			if g.rng.Intn(10) < 7 {
				ackBz = w.defAckEnc(0, []byte{}, "", relayer, s.p.FeeOption)
			} else {
				ackBz = w.defAckEnc(2, []byte{}, "onRecvPackt: binding is not exist", relayer, s.p.FeeOption)
			}
			ts.out = append(ts.out, &pktEvmPacket{bz: s.bz, p: s.p, ackBz: ackBz, outward: true})
			w.r.Count("tss.sendout")
		}
	default: // its acknowledgement: from T (accepted) or from somebody else with the proof field empty / = TSS address / random
		var pend []*pktEvmPacket
		for _, ep := range ts.out {
			if !ep.acked {
				pend = append(pend, ep)
			}
		}
		if len(pend) == 0 {
			return
		}
		ep := pend[g.rng.Intn(len(pend))]
		signer, proof, tag := g.tssSignerProof(c, ts.name, g.rng.Intn(3), nil)
		if g.rng.Intn(3) == 0 {
			// the attack of the seeded change: not the TSS account, ProofAcked = the public TSS address
			signer, proof, tag = g.rng.Intn(3), []byte(c.tssAddrOf(ts.name)), "other-signer-proof-tssaddr"
		}
		ackBz := ep.ackBz
		if signer != c.tssAcct(ts.name) && g.rng.Intn(2) == 0 {
			// a fabricated outcome
			ackBz = w.defAckEnc(1, []byte{}, "forged", c.regAddr[c.tssAddr()][ts.name], ep.p.FeeOption)
		}
		out := w.ack(c, ep.bz, ackBz, proof, h, signer, "tss-"+tag)
		if out.ok {
			ep.acked = true
			g.accAcks = append(g.accAcks, &pktAckRec{chain: c, packet: ep.bz, ack: ackBz, proof: proof, height: h, signer: signer})
			if g.rng.Intn(2) == 0 {
				w.ack(c, ep.bz, ackBz, proof, h, signer, "replay-same-block")
			}
		}
	}
	g.maybeCommit(c)
}

// doLifecycle: toggle a client to TSS / back to its native kind, or upgrade it, then replay earlier receives and
// acknowledgements of that counterparty in the form the NEW client accepts.
func (g *pktGen) doLifecycle() {
	w := g.w
	type cand struct {
		c    *pktChain
		name string
	}
	var toggled, native []cand
	for _, c := range w.chains {
		for name := range c.kind {
			if c.track[name] == nil && w.evmBy[c.name+"|"+name] == nil {
				continue // the pure TSS counterparty has no native light client to go back to
			}
			if ev := w.evmBy[c.name+"|"+name]; ev != nil && ev.kind == "bsc" {
				continue // a BSC client can only be initialised / upgraded from a real epoch header with its validator set (C09)
			}
			if c.toggled[name] {
				toggled = append(toggled, cand{c, name})
			} else {
				native = append(native, cand{c, name})
			}
		}
	}
	sortCands := func(l []cand) {
		sort.Slice(l, func(i, j int) bool { return l[i].c.name+"|"+l[i].name < l[j].c.name+"|"+l[j].name })
	}
	sortCands(toggled)
	sortCands(native)
	var k cand
	switch x := g.rng.Intn(100); {
	case x < 15: // upgrade (same kind) of a random client
		all := append(append([]cand{}, toggled...), native...)
		k = all[g.rng.Intn(len(all))]
		w.upgrade(k.c, k.name, true)
	case x < 22: // refused proposals: upgrade to another kind, toggle to the same kind
		all := append(append([]cand{}, toggled...), native...)
		k = all[g.rng.Intn(len(all))]
		if g.rng.Intn(2) == 0 {
			w.upgrade(k.c, k.name, false)
		} else {
			w.toggle(k.c, k.name, k.c.kind[k.name] == "tss")
		}
	case len(toggled) > 0 && (x < 75 || len(native) == 0): // back to the native light client
		k = toggled[g.rng.Intn(len(toggled))]
		if w.toggle(k.c, k.name, false) {
			k.c.toggled[k.name] = false
		}
	default:
		k = native[g.rng.Intn(len(native))]
		if w.toggle(k.c, k.name, true) {
			k.c.toggled[k.name] = true
		}
	}
	g.maybeCommit(k.c)
	g.replayAfterClientOp(k.c, k.name)
}

// replayAfterClientOp re-submits receives / acks of counterparty `name` accepted earlier on c, shaped for the client
// as it is now (TSS: signed by T; light client: fresh genuine proof where the harness can produce one).
func (g *pktGen) replayAfterClientOp(c *pktChain, name string) {
	w := g.w
	n := 0
	for i := len(g.accRecv) - 1; i >= 0 && n < 3; i-- {
		rec := g.accRecv[i]
		var p packettypes.Packet
		if rec.chain != c || p.ABIDecode(rec.packet) != nil || p.SrcChain != name {
			continue
		}
		n++
		proof, height, signer := rec.proof, rec.height, rec.signer
		if c.kind[name] == "tss" {
			signer = c.tssAcct(name)
			if g.rng.Intn(2) == 0 {
				proof = nil
			}
		} else if of := c.track[name]; of != nil {
			if h, ok := g.provable(c, of); ok {
				if pf := of.proofAt(host.PacketCommitmentKey(p.SrcChain, p.DstChain, p.Sequence), h); pf != nil {
					proof, height, signer = pf, clienttypes.NewHeight(of.revision(), h), 0
				}
			}
		} else if ev := w.evmBy[c.name+"|"+name]; ev != nil {
			h := w.evmProvable(ev)
			proof, height, signer = ev.states[h].genuine(ev.contract, pktEvmSlot(host.PacketCommitmentKey(p.SrcChain, p.DstChain, p.Sequence))).json(), g.evmHeight(h), 0
		}
		w.recv(c, rec.packet, proof, height, signer, "replay-after-client-op")
	}
	n = 0
	for i := len(g.accAcks) - 1; i >= 0 && n < 2; i-- {
		a := g.accAcks[i]
		var p packettypes.Packet
		if a.chain != c || p.ABIDecode(a.packet) != nil || p.DstChain != name {
			continue
		}
		n++
		signer := a.signer
		if c.kind[name] == "tss" {
			signer = c.tssAcct(name)
		}
		w.ack(c, a.packet, a.ack, a.proof, a.height, signer, "dup-after-client-op")
	}
	g.maybeCommit(c)
}

// doRotate: TSS key rotations by MsgUpdateClient inside packet histories — on the pure TSS counterparty (with forced
// follow-ups: an acknowledgement / receive signed by the retired key, then by the new one) or on a client currently toggled
// to TSS (the ordinary generators then meet retired / future signers through tssSignerProof).
func (g *pktGen) doRotate(ts *pktTss) { g.doRotateWith(ts, g.rng.Intn(100), true) }

// doRotateWith: x selects the scenario (see the switch); toggledToo: may pick a toggled client instead.
func (g *pktGen) doRotateWith(ts *pktTss, x int, toggledToo bool) {
	w := g.w
	c, name := ts.host, ts.name
	// sometimes a toggled client instead of the pure counterparty
	if toggledToo && g.rng.Intn(4) == 0 {
		var names []string
		for _, ch := range w.chains {
			for n, k := range ch.kind {
				if k == "tss" && ch.toggled[n] {
					names = append(names, ch.name+"|"+n)
				}
			}
		}
		sort.Strings(names)
		if len(names) > 0 {
			pick := strings.SplitN(names[g.rng.Intn(len(names))], "|", 2)
			ch := w.byName[pick[0]]
			cur := ch.tssAcct(pick[1])
			w.rotate(ch, pick[1], pktT+pktT2-cur, cur, "toggled-client")
			g.maybeCommit(ch)
			return
		}
	}
	cur := c.tssAcct(name)
	other := pktT + pktT2 - cur
	switch {
	case x < 12: // refused: signed by the key that is not (yet / any more) the TSS address
		w.rotate(c, name, other, other, "wrong-signer-other-key")
		return
	case x < 20: // refused: signed by an ordinary relayer
		w.rotate(c, name, other, 0, "wrong-signer-relayer")
		return
	case x < 30: // to the address it already has
		w.rotate(c, name, cur, cur, "same-address")
		return
	}
	// make sure there is traffic in flight in both directions before the key changes
	var pendOut, pendIn *pktEvmPacket
	for _, ep := range ts.out {
		if !ep.acked {
			pendOut = ep
		}
	}
	if pendOut == nil {
		cs := w.callSpec(c, c, "n", func(b []byte) { g.rng.Read(b) })
		if s := w.send(c, name, int64(1+g.rng.Intn(300)), cs, 0); s != nil {
			relayer := c.regAddr[c.tssAddr()][name]
			code, msg := uint64(0), ""
			if g.rng.Intn(3) == 0 {
				code, msg = 2, "onRecvPackt: binding is not exist"
			}
			pendOut = &pktEvmPacket{bz: s.bz, p: s.p, ackBz: w.defAckEnc(code, []byte{}, msg, relayer, s.p.FeeOption), outward: true}
			ts.out = append(ts.out, pendOut)
		}
	}
	for _, ep := range ts.in {
		if !ep.recvd {
			pendIn = ep
		}
	}
	if pendIn == nil {
		pendIn = w.tssPacket(ts, ts.inSeq, int64(1+g.rng.Intn(200)))
		ts.inSeq++
		ts.in = append(ts.in, pendIn)
	}
	if !w.rotate(c, name, other, cur, "rotation") {
		return
	}
	retired, fresh := cur, other
	if x >= 80 { // two rotations in a row: back again, the first key is authoritative once more
		if w.rotate(c, name, cur, other, "rotation-back") {
			retired, fresh = other, cur
		}
	}
	if x >= 60 && x < 80 { // rotation, then a restart: the rotated address must survive the export / import
		g.maybeCommit(c)
		w.restart(c)
	}
	g.maybeCommit(c)
	h := clienttypes.NewHeight(0, uint64(1+g.rng.Intn(50)))
	proofs := [][]byte{nil, []byte(c.accts[retired].addr.String()), []byte(c.accts[fresh].addr.String())}
	// acknowledgement: by the retired key (must be refused, the commitment stays), then by the new key (accepted)
	if pendOut != nil {
		w.ack(c, pendOut.bz, pendOut.ackBz, proofs[g.rng.Intn(3)], h, retired, "tss-retired-signer")
		out := w.ack(c, pendOut.bz, pendOut.ackBz, proofs[g.rng.Intn(3)], h, fresh, "tss-new-signer")
		if out.ok {
			pendOut.acked = true
			g.accAcks = append(g.accAcks, &pktAckRec{chain: c, packet: pendOut.bz, ack: pendOut.ackBz, proof: nil, height: h, signer: fresh})
		}
	}
	// receive: the same
	w.recv(c, pendIn.bz, proofs[g.rng.Intn(3)], h, retired, "tss-retired-signer")
	out := w.recv(c, pendIn.bz, proofs[g.rng.Intn(3)], h, fresh, "tss-new-signer")
	if out.ok {
		pendIn.recvd = true
		pendIn.ackBz = out.ackBz
		g.accRecv = append(g.accRecv, &pktRecvRec{chain: c, packet: pendIn.bz, proof: nil, height: h, signer: fresh, epoch: c.restarts})
	}
	g.maybeCommit(c)
}

// prologue: directed scenarios that run in EVERY history, so that the small classes the floors name never depend on the
// luck of a seed: one genuine receive per value-boundary class and EVM client, the TSS signer / proof-field combinations,
// and the key-rotation scenarios.
func (g *pktGen) prologue() {
	w := g.w
	for _, ev := range w.evms {
		for _, class := range []string{"lead0", "lead00", "trail0"} {
			ep := w.evmGroundPacket(ev, ev.inSeq, class, g.rng.Uint32())
			if ep == nil {
				continue
			}
			ev.inSeq++
			ev.cur[string(ev.contract)].storage[string(ep.slot)] = pktSha(ep.bz)
			ev.cur[string(ev.contract)].nonce++
			ev.in = append(ev.in, ep)
			h := w.evmProvable(ev)
			proof := ev.states[h].genuine(ev.contract, ep.slot).json()
			out := w.recv(ev.host, ep.bz, proof, g.evmHeight(h), 0, "evm-genuine-"+ev.kind)
			if out.ok {
				ep.recvd, ep.ackBz = true, out.ackBz
				g.accRecv = append(g.accRecv, &pktRecvRec{chain: ev.host, packet: ep.bz, proof: proof, height: g.evmHeight(h), signer: 0, epoch: ev.host.restarts})
				w.r.Count("evm.word." + class)
				w.r.Count("evm.word." + class + "." + ev.kind + ".recv")
			}
		}
		g.evmShiftedRecv(ev, false)
		g.evmShiftedRecv(ev, true)
		g.evmShiftedAck(ev, false)
		w.commit(ev.host)
	}
	for _, ts := range w.tsss {
		c := ts.host
		h := clienttypes.NewHeight(0, 7)
		auth := c.tssAcct(ts.name)
		addr := []byte(c.tssAddrOf(ts.name))
		// receives: TSS signer with the proof field = the TSS address / empty; another signer with the TSS address as proof
		for _, v := range []struct {
			signer int
			proof  []byte
			tag    string
		}{{auth, addr, "tss-tss-signer-proof-tssaddr"}, {auth, nil, "tss-tss-signer-proof-empty"}, {0, addr, "tss-other-signer-proof-tssaddr"}} {
			ep := w.tssPacket(ts, ts.inSeq, 5)
			ts.inSeq++
			ts.in = append(ts.in, ep)
			out := w.recv(c, ep.bz, v.proof, h, v.signer, v.tag)
			if out.ok {
				ep.recvd, ep.ackBz = true, out.ackBz
				g.accRecv = append(g.accRecv, &pktRecvRec{chain: c, packet: ep.bz, proof: v.proof, height: h, signer: v.signer, epoch: c.restarts})
			}
		}
		// acknowledgements: the same three
		for _, v := range []struct {
			signer int
			proof  []byte
			tag    string
		}{{0, addr, "tss-other-signer-proof-tssaddr"}, {auth, addr, "tss-tss-signer-proof-tssaddr"}, {auth, nil, "tss-tss-signer-proof-empty"}} {
			cs := w.callSpec(c, c, "n", func(b []byte) { g.rng.Read(b) })
			s := w.send(c, ts.name, 11, cs, 0)
			if s == nil {
				continue
			}
			w.r.Count("tss.sendout")
			ep := &pktEvmPacket{bz: s.bz, p: s.p, ackBz: w.defAckEnc(0, []byte{}, "", c.regAddr[c.tssAddr()][ts.name], s.p.FeeOption), outward: true}
			ts.out = append(ts.out, ep)
			out := w.ack(c, ep.bz, ep.ackBz, v.proof, h, v.signer, v.tag)
			if out.ok {
				ep.acked = true
				g.accAcks = append(g.accAcks, &pktAckRec{chain: c, packet: ep.bz, ack: ep.ackBz, proof: v.proof, height: h, signer: v.signer})
			}
		}
		w.commit(c)
		// key rotations: refused ones, a rotation, a rotation straight back, a rotation followed by a restart
		g.doRotateWith(ts, 5, false)
		g.doRotateWith(ts, 15, false)
		g.doRotateWith(ts, 45, false)
		g.doRotateWith(ts, 90, false)
		g.doRotateWith(ts, 70, false)
		w.commit(c)
	}
}

// evmShiftedRecv: shifted-word forgery of a receive: forge the message first (hash H ending in zero bytes — mirror: starting
// with zero bytes), let the contract really hold the shifted word 0^k‖H[0..32-k) (mirror: H[k..]‖0^k) under the slot,
// prove that slot genuinely, submit the forged message.
func (g *pktGen) evmShiftedRecv(ev *pktEvm, mirror bool) {
	w := g.w
	class := []string{"trail0", "trail0", "trail00"}[g.rng.Intn(3)]
	if mirror {
		class = []string{"lead0", "lead0", "lead00"}[g.rng.Intn(3)]
	}
	fp := w.evmGroundPacket(ev, ev.inSeq, class, g.rng.Uint32())
	if fp == nil {
		return
	}
	hsh := pktSha(fp.bz)
	word := pktShift(hsh, mirror)
	if bytes.Equal(word, hsh) {
		return
	}
	ev.cur[string(ev.contract)].storage[string(fp.slot)] = word
	ev.cur[string(ev.contract)].nonce++
	h := w.evmProvable(ev)
	proof := ev.states[h].genuine(ev.contract, fp.slot).json()
	tag := "evm-shifted-word"
	if mirror {
		tag = "evm-shifted-word-mirror"
	}
	w.recv(ev.host, fp.bz, proof, g.evmHeight(h), 0, tag)
}

// evmShiftedAck: shifted-word forgery of an acknowledgement (see evmShiftedRecv); false if no pending packet could be found.
func (g *pktGen) evmShiftedAck(ev *pktEvm, mirror bool) bool {
	w := g.w
	var target *pktEvmPacket
	for _, a := range ev.out {
		if !a.acked && !a.ackStored {
			target = a
		}
	}
	if target == nil {
		g.evmSendOutWith(ev, -1, 0)
		for _, a := range ev.out {
			if !a.acked && !a.ackStored {
				target = a
			}
		}
	}
	if target != nil {
		class := []string{"trail0", "trail0", "trail00"}[g.rng.Intn(3)]
		if mirror {
			class = []string{"lead0", "lead0", "lead00"}[g.rng.Intn(3)]
		}
		relayer := ev.host.regAddr[ev.host.accts[0].addr.String()][ev.name]
		code, msg := uint64(0), ""
		if g.rng.Intn(2) == 0 {
			code, msg = 2, "onRecvPackt: binding is not exist" // a forged ERROR acknowledgement would refund
		}
		forged := w.evmGroundAck(code, msg, relayer, class, g.rng.Uint32())
		if forged == nil {
			return true
		}
		hsh := pktSha(forged)
		word := pktShift(hsh, mirror)
		if bytes.Equal(word, hsh) {
			return true
		}
		ev.cur[string(ev.contract)].storage[string(target.slot)] = word
		ev.cur[string(ev.contract)].nonce++
		h := w.evmProvable(ev)
		proof := ev.states[h].genuine(ev.contract, target.slot).json()
		tag := "evm-shifted-word"
		if mirror {
			tag = "evm-shifted-word-mirror"
		}
		out := w.ack(ev.host, target.bz, forged, proof, g.evmHeight(h), g.rng.Intn(3), tag)
		if out.ok {
			target.acked = true // (only a broken verifier gets here)
		}
		return true
	}
	return false
}
