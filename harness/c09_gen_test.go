//go:build c09

package verifharness

// C09 generator: chains sealed with real secp256k1 keys, signer-category sweep, epoch-boundary set
// changes, single-field mutations (re-sealed and not re-sealed), small and large start heights,
// short trusting periods.

import (
	"crypto/ecdsa"
	"fmt"
	"os"
	"path/filepath"
	"strings"
	"testing"

	"github.com/ethereum/go-ethereum/common"
	"github.com/ethereum/go-ethereum/crypto"

	bsctypes "github.com/teleport-network/teleport/x/xibc/clients/light-clients/bsc/types"
	clienttypes "github.com/teleport-network/teleport/x/xibc/core/client/types"
)

type c09Gen struct {
	r     *Rec
	w     *c09World
	keys  []*ecdsa.PrivateKey
	addrs []common.Address
	keyOf map[common.Address]*ecdsa.PrivateKey
	// per history
	chainID uint64
	epoch   uint64
	bt      uint64
	btStep  uint64
	tp      uint64
	oldTime bool
	fresh   bool
	handover bool
	forceNext func(cur []common.Address) []common.Address // boundary histories: the list the next epoch header announces
	forceTime func(parent uint64) uint64                   // boundary histories: time stamp of the next header
}

func newC09Gen(r *Rec, w *c09World) *c09Gen {
	g := &c09Gen{r: r, w: w, keyOf: map[common.Address]*ecdsa.PrivateKey{}}
	for len(g.keys) < 110 {
		b := make([]byte, 32)
		r.Rng.Read(b)
		k, err := crypto.ToECDSA(b)
		if err != nil {
			continue
		}
		g.keys = append(g.keys, k)
		a := crypto.PubkeyToAddress(k.PublicKey)
		g.addrs = append(g.addrs, a)
		g.keyOf[a] = k
	}
	return g
}

func (g *c09Gen) rnd(n int) []byte {
	b := make([]byte, n)
	g.r.Rng.Read(b)
	return b
}

func (g *c09Gen) subset(n int) []common.Address {
	p := g.r.Rng.Perm(len(g.addrs))
	out := make([]common.Address, 0, n)
	for i := 0; i < n && i < len(p); i++ {
		out = append(out, g.addrs[p[i]])
	}
	return out
}

func c09AddrBytes(as []common.Address) [][]byte {
	out := make([][]byte, len(as))
	for i, a := range as {
		out[i] = append([]byte{}, a.Bytes()...)
	}
	return out
}

func (g *c09Gen) size() int {
	switch g.r.Rng.Intn(9) {
	case 8: // small even sets: the window edge floor(N/2) is where `len/2+1` and `(len+1)/2` differ
		return []int{4, 6, 8}[g.r.Rng.Intn(3)]
	case 0:
		return 1
	case 1:
		return 2
	case 2:
		return 3
	case 3:
		return 21
	default:
		return 1 + g.r.Rng.Intn(21)
	}
}

// nextSet: the list an epoch header announces, relative to the current one.
// nextSet: the list an epoch header (or a create / upgrade head) carries. One time in three the base list gets an
// unusual but well-formed shape: a zero-address entry, an 0xff..ff entry, a duplicate of a listed validator, ascending /
// descending order, or several of these. Such entries are validators like any other (they just cannot seal).
func (g *c09Gen) nextSet(cur []common.Address) []common.Address {
	out := append([]common.Address{}, g.nextSetBase(cur)...)
	if len(out) == 0 || g.r.Rng.Intn(3) != 0 {
		return out
	}
	ins := func(a common.Address) {
		if len(out) >= 21 {
			out = out[:20]
		}
		i := g.r.Rng.Intn(len(out) + 1)
		out = append(out[:i], append([]common.Address{a}, out[i:]...)...)
	}
	var ones common.Address
	for i := range ones {
		ones[i] = 0xff
	}
	k := 1 + g.r.Rng.Intn(2)
	for j := 0; j < k; j++ {
		switch g.r.Rng.Intn(6) {
		case 0:
			ins(common.Address{})
		case 1:
			ins(ones)
		case 2:
			ins(out[g.r.Rng.Intn(len(out))])
		case 3:
			out = c09Sorted(c09AddrSet(out))
		case 4:
			s := c09Sorted(c09AddrSet(out))
			for i, j := 0, len(s)-1; i < j; i, j = i+1, j-1 {
				s[i], s[j] = s[j], s[i]
			}
			out = s
		default:
			ins(common.Address{})
			ins(out[g.r.Rng.Intn(len(out))])
		}
	}
	return out
}

// keyed: a member of the list the generator can seal for
func (g *c09Gen) keyed(vs []common.Address) common.Address {
	var c []common.Address
	for _, a := range vs {
		if _, ok := g.keyOf[a]; ok {
			c = append(c, a)
		}
	}
	if len(c) == 0 {
		return vs[0]
	}
	return c[g.r.Rng.Intn(len(c))]
}

func c09AddrSet(as []common.Address) map[common.Address]bool {
	m := map[common.Address]bool{}
	for _, a := range as {
		m[a] = true
	}
	return m
}

func (g *c09Gen) nextSetBase(cur []common.Address) []common.Address {
	if g.handover {
		other := func(n int) []common.Address { // n validators, none of them in cur
			var out []common.Address
			for _, i := range g.r.Rng.Perm(len(g.addrs)) {
				in := false
				for _, c := range cur {
					in = in || c == g.addrs[i]
				}
				if !in && len(out) < n {
					out = append(out, g.addrs[i])
				}
			}
			return out
		}
		switch len(cur) {
		case 1:
			switch g.r.Rng.Intn(5) {
			case 0, 1:
				return other(1) // 1 -> a different single validator
			case 2:
				return other(3)
			case 3:
				return append(other(2), cur[0]) // 1 -> 3 keeping the old one
			default:
				return other(2 + g.r.Rng.Intn(20))
			}
		default:
			switch g.r.Rng.Intn(4) {
			case 0:
				return other(1) // N -> 1 (new)
			case 1:
				return cur[:1] // N -> 1 (one of the old ones)
			case 2:
				return other(1 + g.r.Rng.Intn(3))
			default:
				return cur
			}
		}
	}
	switch g.r.Rng.Intn(10) {
	case 0, 1, 2: // unchanged
		return cur
	case 3: // grow
		add := g.subset(1 + g.r.Rng.Intn(12))
		out := append([]common.Address{}, cur...)
		for _, a := range add {
			dup := false
			for _, c := range out {
				dup = dup || c == a
			}
			if !dup && len(out) < 21 {
				out = append(out, a)
			}
		}
		return out
	case 4: // shrink
		if len(cur) > 1 {
			k := 1 + g.r.Rng.Intn(len(cur)-1)
			p := g.r.Rng.Perm(len(cur))
			out := []common.Address{}
			for i := 0; i < k; i++ {
				out = append(out, cur[p[i]])
			}
			return out
		}
		return cur
	case 5: // disjoint or random
		return g.subset(g.size())
	case 6: // grow to 21
		return g.subset(21)
	case 7: // shrink to 1..3
		return g.subset(1 + g.r.Rng.Intn(3))
	case 8: // permuted
		p := g.r.Rng.Perm(len(cur))
		out := make([]common.Address, len(cur))
		for i := range p {
			out[i] = cur[p[i]]
		}
		return out
	default:
		if g.r.Rng.Intn(4) == 0 { // duplicates
			out := append([]common.Address{}, cur...)
			return append(out, cur[g.r.Rng.Intn(len(cur))])
		}
		return g.subset(g.size())
	}
}

// valid header for head+1 sealed by `signer` (difficulty according to the real turn rule unless wrongDiff)
func (g *c09Gen) build(cs *bsctypes.ClientState, signer common.Address, next []common.Address) *bsctypes.Header {
	parent := &cs.Header
	num := parent.Height.RevisionHeight + 1
	extra := g.rnd(32)
	if num%g.epoch == 0 {
		for _, a := range next {
			extra = append(extra, a.Bytes()...)
		}
	}
	extra = append(extra, make([]byte, 65)...)
	gl := parent.GasLimit
	if b := parent.GasLimit / 256; b > 1 {
		switch g.r.Rng.Intn(4) {
		case 0:
			gl = parent.GasLimit + b - 1
		case 1:
			gl = parent.GasLimit - (b - 1)
		case 2:
			gl = parent.GasLimit + uint64(g.r.Rng.Int63n(int64(b)))
		}
	}
	if gl < 5000 || gl > 0x7fffffffffffffff {
		gl = parent.GasLimit
	}
	var bloom []byte
	if g.r.Rng.Intn(12) == 0 {
		bloom = g.rnd(256)
	} else if g.r.Rng.Intn(3) == 0 {
		bloom = g.rnd(1 + g.r.Rng.Intn(8))
	}
	t := parent.Time + 3
	if g.oldTime {
		t = g.bt - g.tp + uint64(g.r.Rng.Intn(4))
	}
	if g.fresh {
		t = g.bt
	}
	h := &bsctypes.Header{
		Height:     clienttypes.NewHeight(parent.Height.RevisionNumber, num),
		ParentHash: parent.Hash().Bytes(), UncleHash: c09UncleHash.Bytes(), Coinbase: signer.Bytes(),
		Root: g.rnd(32), TxHash: g.rnd(32), ReceiptHash: g.rnd(32), Bloom: bloom,
		GasLimit: gl, GasUsed: uint64(g.r.Rng.Int63()) % (gl/2 + 1), Time: t,
		Extra: extra, MixDigest: make([]byte, 32), Nonce: make([]byte, 8),
	}
	h.Difficulty = []byte{1}
	if g.turnOf(cs, signer) {
		h.Difficulty = []byte{2}
	}
	return h
}

// turnOf: in-turn by the prescribed set; a validator retired by the last switch uses the turn of the set it
// belonged to (the most plausible forgery: exactly what it would have sealed had the switch not happened)
func (g *c09Gen) turnOf(cs *bsctypes.ClientState, signer common.Address) bool {
	if !c09Distinct(cs.Validators)[signer] && c09Distinct(g.w.prevVals)[signer] {
		old := *cs
		old.Validators = g.w.prevVals
		return c09InTurn(&old, signer)
	}
	return c09InTurn(cs, signer)
}

func c09InTurn(cs *bsctypes.ClientState, signer common.Address) bool {
	s := c09Sorted(c09Distinct(cs.Validators))
	return len(s) > 0 && s[(cs.Header.Height.RevisionHeight+1)%uint64(len(s))] == signer
}

func (g *c09Gen) seal(h *bsctypes.Header, signer common.Address) {
	if k, ok := g.keyOf[signer]; ok {
		c09Sign(h, g.chainID, k)
	}
}

// ---- single-field mutations ------------------------------------------------------------------------

type c09Mut struct {
	name string
	f    func(g *c09Gen, cs *bsctypes.ClientState, h *bsctypes.Header)
}

func c09Flip(b []byte, r int) []byte {
	out := append([]byte{}, b...)
	if len(out) == 0 {
		return []byte{1}
	}
	out[r%len(out)] ^= 1 << uint(r%7)
	return out
}

var c09Muts = []c09Mut{
	{"rev+1", func(g *c09Gen, cs *bsctypes.ClientState, h *bsctypes.Header) { h.Height.RevisionNumber++ }},
	{"number+1", func(g *c09Gen, cs *bsctypes.ClientState, h *bsctypes.Header) { h.Height.RevisionHeight++ }},
	{"number-1", func(g *c09Gen, cs *bsctypes.ClientState, h *bsctypes.Header) { h.Height.RevisionHeight-- }},
	{"number-same-as-head-2", func(g *c09Gen, cs *bsctypes.ClientState, h *bsctypes.Header) { h.Height.RevisionHeight -= 2 }},
	{"number0", func(g *c09Gen, cs *bsctypes.ClientState, h *bsctypes.Header) { h.Height.RevisionHeight = 0 }},
	{"parent-flip", func(g *c09Gen, cs *bsctypes.ClientState, h *bsctypes.Header) { h.ParentHash = c09Flip(h.ParentHash, g.r.Rng.Intn(256)) }},
	{"parent-empty", func(g *c09Gen, cs *bsctypes.ClientState, h *bsctypes.Header) { h.ParentHash = nil }},
	{"parent-grandparent", func(g *c09Gen, cs *bsctypes.ClientState, h *bsctypes.Header) { h.ParentHash = cs.Header.ParentHash }},
	{"parent-prefixed", func(g *c09Gen, cs *bsctypes.ClientState, h *bsctypes.Header) { h.ParentHash = append([]byte{7}, h.ParentHash...) }}, // BytesToHash crops: still valid
	{"uncle-flip", func(g *c09Gen, cs *bsctypes.ClientState, h *bsctypes.Header) { h.UncleHash = c09Flip(h.UncleHash, g.r.Rng.Intn(256)) }},
	{"uncle-empty", func(g *c09Gen, cs *bsctypes.ClientState, h *bsctypes.Header) { h.UncleHash = nil }},
	{"coinbase-other-member", func(g *c09Gen, cs *bsctypes.ClientState, h *bsctypes.Header) {
		h.Coinbase = cs.Validators[g.r.Rng.Intn(len(cs.Validators))]
	}},
	{"coinbase-flip", func(g *c09Gen, cs *bsctypes.ClientState, h *bsctypes.Header) { h.Coinbase = c09Flip(h.Coinbase, g.r.Rng.Intn(160)) }},
	{"coinbase-prefixed", func(g *c09Gen, cs *bsctypes.ClientState, h *bsctypes.Header) { h.Coinbase = append([]byte{9, 9}, h.Coinbase...) }}, // BytesToAddress crops: still valid
	{"root-flip", func(g *c09Gen, cs *bsctypes.ClientState, h *bsctypes.Header) { h.Root = c09Flip(h.Root, g.r.Rng.Intn(256)) }},
	{"root-short", func(g *c09Gen, cs *bsctypes.ClientState, h *bsctypes.Header) { h.Root = h.Root[:5] }},
	{"txhash-flip", func(g *c09Gen, cs *bsctypes.ClientState, h *bsctypes.Header) { h.TxHash = c09Flip(h.TxHash, g.r.Rng.Intn(256)) }},
	{"receipt-flip", func(g *c09Gen, cs *bsctypes.ClientState, h *bsctypes.Header) { h.ReceiptHash = c09Flip(h.ReceiptHash, g.r.Rng.Intn(256)) }},
	{"bloom-flip", func(g *c09Gen, cs *bsctypes.ClientState, h *bsctypes.Header) { h.Bloom = c09Flip(h.Bloom, g.r.Rng.Intn(256)) }},
	{"bloom-257", func(g *c09Gen, cs *bsctypes.ClientState, h *bsctypes.Header) { h.Bloom = make([]byte, 257) }},
	{"diff-swap", func(g *c09Gen, cs *bsctypes.ClientState, h *bsctypes.Header) { h.Difficulty = []byte{3 - h.Difficulty[len(h.Difficulty)-1]} }},
	{"diff-zero", func(g *c09Gen, cs *bsctypes.ClientState, h *bsctypes.Header) { h.Difficulty = nil }},
	{"diff-3", func(g *c09Gen, cs *bsctypes.ClientState, h *bsctypes.Header) { h.Difficulty = []byte{3} }},
	{"diff-leading-zero", func(g *c09Gen, cs *bsctypes.ClientState, h *bsctypes.Header) { h.Difficulty = append([]byte{0, 0}, h.Difficulty...) }}, // same value: valid
	{"diff-2^64", func(g *c09Gen, cs *bsctypes.ClientState, h *bsctypes.Header) { h.Difficulty = []byte{1, 0, 0, 0, 0, 0, 0, 0, 0} }},
	{"diff-2^64+d", func(g *c09Gen, cs *bsctypes.ClientState, h *bsctypes.Header) {
		h.Difficulty = []byte{1, 0, 0, 0, 0, 0, 0, 0, h.Difficulty[len(h.Difficulty)-1]}
	}},
	{"gaslimit-bound", func(g *c09Gen, cs *bsctypes.ClientState, h *bsctypes.Header) { h.GasLimit = cs.Header.GasLimit + cs.Header.GasLimit/256 }},
	{"gaslimit-bound-low", func(g *c09Gen, cs *bsctypes.ClientState, h *bsctypes.Header) {
		h.GasLimit = cs.Header.GasLimit - cs.Header.GasLimit/256
		if h.GasUsed > h.GasLimit {
			h.GasUsed = h.GasLimit
		}
	}},
	{"gaslimit-4999", func(g *c09Gen, cs *bsctypes.ClientState, h *bsctypes.Header) { h.GasLimit = 4999; h.GasUsed = 0 }},
	{"gaslimit-2^63", func(g *c09Gen, cs *bsctypes.ClientState, h *bsctypes.Header) { h.GasLimit = 1 << 63 }},
	{"gaslimit-max", func(g *c09Gen, cs *bsctypes.ClientState, h *bsctypes.Header) { h.GasLimit = ^uint64(0) }},
	{"gasused-limit+1", func(g *c09Gen, cs *bsctypes.ClientState, h *bsctypes.Header) { h.GasUsed = h.GasLimit + 1 }},
	{"gasused-limit", func(g *c09Gen, cs *bsctypes.ClientState, h *bsctypes.Header) { h.GasUsed = h.GasLimit }}, // valid
	{"time-0", func(g *c09Gen, cs *bsctypes.ClientState, h *bsctypes.Header) { h.Time = 0 }},
	{"time-before-parent", func(g *c09Gen, cs *bsctypes.ClientState, h *bsctypes.Header) { h.Time = cs.Header.Time - 1 }},
	{"extra-31", func(g *c09Gen, cs *bsctypes.ClientState, h *bsctypes.Header) { h.Extra = h.Extra[:31] }},
	{"extra-96", func(g *c09Gen, cs *bsctypes.ClientState, h *bsctypes.Header) { h.Extra = h.Extra[len(h.Extra)-96:] }},
	{"extra-empty", func(g *c09Gen, cs *bsctypes.ClientState, h *bsctypes.Header) { h.Extra = nil }},
	{"extra-plus-validator", func(g *c09Gen, cs *bsctypes.ClientState, h *bsctypes.Header) {
		e := append([]byte{}, h.Extra[:len(h.Extra)-65]...)
		e = append(e, g.addrs[g.r.Rng.Intn(len(g.addrs))].Bytes()...)
		h.Extra = append(e, h.Extra[len(h.Extra)-65:]...)
	}},
	{"extra-plus-byte", func(g *c09Gen, cs *bsctypes.ClientState, h *bsctypes.Header) {
		e := append([]byte{}, h.Extra[:len(h.Extra)-65]...)
		e = append(e, 0x2f)
		h.Extra = append(e, h.Extra[len(h.Extra)-65:]...)
	}},
	{"extra-vanity-flip", func(g *c09Gen, cs *bsctypes.ClientState, h *bsctypes.Header) { h.Extra = c09Flip(h.Extra, g.r.Rng.Intn(32)) }},
	{"seal-flip", func(g *c09Gen, cs *bsctypes.ClientState, h *bsctypes.Header) {
		e := append([]byte{}, h.Extra...)
		e[len(e)-65+g.r.Rng.Intn(64)] ^= 0x10
		h.Extra = e
	}},
	{"seal-v", func(g *c09Gen, cs *bsctypes.ClientState, h *bsctypes.Header) {
		e := append([]byte{}, h.Extra...)
		e[len(e)-1] ^= 1
		h.Extra = e
	}},
	{"seal-v-bad", func(g *c09Gen, cs *bsctypes.ClientState, h *bsctypes.Header) {
		e := append([]byte{}, h.Extra...)
		e[len(e)-1] = 27
		h.Extra = e
	}},
	{"seal-zero", func(g *c09Gen, cs *bsctypes.ClientState, h *bsctypes.Header) {
		e := append([]byte{}, h.Extra[:len(h.Extra)-65]...)
		h.Extra = append(e, make([]byte, 65)...)
	}},
	{"mix-flip", func(g *c09Gen, cs *bsctypes.ClientState, h *bsctypes.Header) { h.MixDigest = c09Flip(h.MixDigest, g.r.Rng.Intn(256)) }},
	{"mix-empty", func(g *c09Gen, cs *bsctypes.ClientState, h *bsctypes.Header) { h.MixDigest = nil }},                                          // zero hash: valid
	{"mix-33-leading", func(g *c09Gen, cs *bsctypes.ClientState, h *bsctypes.Header) { h.MixDigest = append([]byte{5}, make([]byte, 32)...) }}, // cropped: valid
	{"nonce-flip", func(g *c09Gen, cs *bsctypes.ClientState, h *bsctypes.Header) { h.Nonce = c09Flip(h.Nonce, g.r.Rng.Intn(64)) }},
	{"nonce-9", func(g *c09Gen, cs *bsctypes.ClientState, h *bsctypes.Header) { h.Nonce = make([]byte, 9) }},
	{"chainid-other", nil}, // sealed for another chain id
}

// ---- one history -----------------------------------------------------------------------------------

func (g *c09Gen) emit(op string) string {
	out := g.w.apply(g.r, op)
	g.r.Op(op, out)
	return out
}

type c09Plan struct {
	n0      int
	epoch   uint64
	startK  uint64 // start height = startK * epoch
	rev     uint64 // revision number of the head (height 0 is only admitted with a non-zero revision)
	emptyHead bool // the head announces an empty list: creation must fail
	steps   int
	tp      uint64
	btStep  uint64
	oldTime bool
	fresh   bool // header time = block time, block time advances by up to the trusting period: several states expire at once
	mutRate int // one mutation attempt every mutRate heights (0 = none)
	handover bool // small sets handing over to other small / larger sets at every epoch boundary
	sweep   bool
}

func (g *c09Gen) history(p c09Plan) {
	r := g.r
	g.emit("reset")
	g.chainID = []uint64{56, 97, 1, 714}[r.Rng.Intn(4)]
	g.epoch, g.tp, g.btStep, g.oldTime, g.fresh, g.handover = p.epoch, p.tp, p.btStep, p.oldTime, p.fresh, p.handover
	g.bt = 1_700_000_000
	vals := g.subset(p.n0)
	if r.Rng.Intn(8) == 0 { // the validators named at creation contain a zero address / a duplicate
		if r.Rng.Intn(2) == 0 {
			vals = append(vals, common.Address{})
		} else {
			vals = append(vals, vals[r.Rng.Intn(len(vals))])
		}
		r.Count("oddlist.create-vals")
	}
	start := p.startK * p.epoch
	// the head is an epoch header; it carries the pending list
	pend := g.nextSet(vals)
	if p.emptyHead {
		pend = nil
	}
	extra := g.rnd(32)
	for _, a := range pend {
		extra = append(extra, a.Bytes()...)
	}
	extra = append(extra, make([]byte, 65)...)
	sealer := g.keyed(vals)
	head := &bsctypes.Header{
		Height: clienttypes.NewHeight(p.rev, start), ParentHash: g.rnd(32), UncleHash: c09UncleHash.Bytes(), Coinbase: sealer.Bytes(),
		Root: g.rnd(32), TxHash: g.rnd(32), ReceiptHash: g.rnd(32), Difficulty: []byte{2},
		GasLimit: []uint64{30_000_000, 5000, 1_280_000, 40_000_000, 0x7fffffffffffffff}[r.Rng.Intn(5)], Time: g.bt - 10,
		Extra: extra, MixDigest: make([]byte, 32), Nonce: make([]byte, 8),
	}
	head.GasUsed = head.GasLimit / 2
	g.seal(head, sealer)
	if out := g.emit(c09CreateOp(g.chainID, g.epoch, g.tp, g.bt, c09AddrBytes(vals), head)); !strings.HasPrefix(out, "ok") {
		switch {
		case p.emptyHead:
			r.Count("create.rejected.empty-list")
		case start == 0 && p.rev == 0:
			r.Count("create.rejected.height-zero")
		default:
			r.Count("create.rejected.unexpected")
		}
		return
	}
	if p.emptyHead || (start == 0 && p.rev == 0) {
		r.Count("create.accepted.must-be-rejected") // (the oracle reports it: see c09_test.go create)
	}
	r.Count(fmt.Sprintf("hist.n0=%d", p.n0))
	if start < uint64(p.n0/2+1) {
		r.Count("hist.start-below-limit")
	}
	for s := 0; s < p.steps; s++ {
		cs := g.w.clientState(g.w.ctx)
		// signers, turn and difficulty are chosen from the validator set the RULE prescribes (harness bookkeeping),
		// not from what the client happens to store: identical for a correct client
		pcs := *cs
		pcs.Validators = g.w.presVals
		cs = &pcs
		g.bt += g.btStep
		if g.fresh {
			g.bt += []uint64{0, 1, g.tp / 2, g.tp - 3}[r.Rng.Intn(4)]
		}
		set := c09Sorted(c09Distinct(cs.Validators))
		n := len(set)
		if n == 0 {
			r.Count("hist.dead-empty-set")
			break
		}
		headNum := cs.Header.Height.RevisionHeight
		num := headNum + 1
		pending := c09Distinct(bsctypes.GetPendingValidators(g.w.app.AppCodec(), g.w.store(g.w.ctx)).Validators)
		var cur []common.Address
		for _, v := range cs.Validators {
			cur = append(cur, common.BytesToAddress(v))
		}
		next := cur
		if num%g.epoch == 0 {
			next = g.nextSet(cur)
		}
		recent := func(a common.Address, depth int) (uint64, bool) { // smallest distance d in 1..depth with sealedBy[num-d] == a
			for d := uint64(1); d <= uint64(depth) && d <= num; d++ {
				if who, ok := g.w.sealedBy[num-d]; ok && who == a {
					return d, true
				}
			}
			return 0, false
		}
		// ---- invalid / boundary signer attempts first (each is its own op; rejected ones leave no trace)
		attempt := func(kind string, signer common.Address) bool {
			if _, hasKey := g.keyOf[signer]; !hasKey {
				return false
			}
			h := g.build(cs, signer, next)
			g.seal(h, signer)
			out := g.emit(c09UpdateOp(g.bt, g.chainID, h))
			acc := strings.HasPrefix(out, "ok")
			if acc {
				r.Count("signer." + kind + ".accepted")
			} else {
				r.Count("signer." + kind + ".rejected")
			}
			r.Nontrivial(fmt.Sprintf("signer %s n=%d epoch=%d num%%epoch=%d", kind, n, g.epoch, num%g.epoch))
			return acc
		}
		advanced := false
		// an epoch header announcing an EMPTY validator list (validly sealed, right turn): must be refused
		if num%g.epoch == 0 && r.Rng.Intn(2) == 0 {
			var el []common.Address
			for _, a := range set {
				if _, in := recent(a, n/2); !in {
					el = append(el, a)
				}
			}
			if len(el) > 0 {
				if _, ok := g.keyOf[el[0]]; ok {
					h := g.build(cs, el[0], nil)
					g.seal(h, el[0])
					if out := g.emit(c09UpdateOp(g.bt, g.chainID, h)); strings.HasPrefix(out, "ok") {
						r.Count("epoch.empty-list.accepted")
						continue
					}
					r.Count("epoch.empty-list.rejected")
				}
			}
		}
		// the edge of the window: the validator whose latest block is exactly floor(N/2) blocks back
		// (right turn difficulty, so "recently signed" is the only reason to refuse it)
		if n >= 2 && uint64(n/2) <= num && r.Rng.Intn(2) == 0 {
			if who, ok := g.w.sealedBy[num-uint64(n/2)]; ok && c09Distinct(cs.Validators)[who] {
				if dd, _ := recent(who, n/2); dd == uint64(n/2) {
					if _, okk := g.keyOf[who]; okk {
						acc := attempt("recent-at-half", who)
						if n%2 == 0 {
							r.Count("signer.recent-at-half.even")
							if n <= 8 {
								r.Count(fmt.Sprintf("signer.recent-at-half.N=%d", n))
							}
						}
						if acc {
							continue
						}
					}
				}
			}
		}
		if p.sweep || r.Rng.Intn(3) == 0 {
			members := c09Distinct(cs.Validators)
			c := r.Rng.Intn(5)
			if len(g.w.prevVals) > 0 && num-g.w.switchAt <= 3 && r.Rng.Intn(2) == 0 {
				c = 5
			}
			switch c {
			case 5: // a validator retired by the last switch
				for _, v := range g.w.prevVals {
					if a := common.BytesToAddress(v); !members[a] {
						if _, ok := g.keyOf[a]; ok {
							advanced = attempt("retired", a)
							break
						}
					}
				}
			case 0: // recently signed at a random distance inside the window
				if n/2 >= 1 {
					d := uint64(1 + r.Rng.Intn(n/2))
					if d <= num {
						if who, ok := g.w.sealedBy[num-d]; ok && members[who] {
							if dd, _ := recent(who, n/2); dd == d {
								advanced = attempt("recent", who)
							}
						}
					}
				}
			case 1: // non-member
				for _, a := range g.addrs {
					if !members[a] && !pending[a] {
						advanced = attempt("non-member", a)
						break
					}
				}
			case 2: // member of the pending set only
				for _, a := range c09Sorted(pending) {
					if !members[a] {
						advanced = attempt("pending-only", a)
						break
					}
				}
			case 3: // exactly one step outside the window: must be acceptable
				d := uint64(n/2 + 1)
				if d <= num {
					if who, ok := g.w.sealedBy[num-d]; ok && members[who] {
						if _, in := recent(who, n/2); !in {
							advanced = attempt("just-outside-window", who)
						}
					}
				}
			case 4: // every distance of the window, nearest first
				for d := uint64(1); d <= uint64(n/2) && d <= num && !advanced; d++ {
					if who, ok := g.w.sealedBy[num-d]; ok && members[who] {
						if dd, _ := recent(who, n/2); dd == d {
							advanced = attempt("recent", who)
						}
					}
				}
			}
		}
		if advanced {
			continue
		}
		// ---- the valid header of this height
		var elig []common.Address
		for _, a := range set {
			if _, in := recent(a, n/2); !in {
				if _, hasKey := g.keyOf[a]; hasKey { // (the zero address / 0xff..ff are validators that cannot seal)
					elig = append(elig, a)
				}
			}
		}
		if len(elig) == 0 {
			r.Count("hist.stuck-no-eligible")
			break
		}
		signer := elig[r.Rng.Intn(len(elig))]
		inturn := set[num%uint64(n)]
		if _, in := recent(inturn, n/2); !in && r.Rng.Intn(4) > 0 {
			if _, hasKey := g.keyOf[inturn]; hasKey {
				signer = inturn
			}
		}
		newcomer := false
		if len(g.w.prevVals) > 0 && num-g.w.switchAt <= 3 { // right after a switch: a validator the old set did not have
			old := c09Distinct(g.w.prevVals)
			for _, a := range elig {
				if !old[a] {
					signer, newcomer = a, true
					break
				}
			}
		}
		if _, ok := g.keyOf[signer]; !ok {
			r.Count("hist.stuck-foreign-key")
			break
		}
		// mutation attempts on the valid header of this height
		if p.mutRate > 0 && r.Rng.Intn(p.mutRate) == 0 {
			m := c09Muts[r.Rng.Intn(len(c09Muts))]
			h := g.build(cs, signer, next)
			reseal := r.Rng.Intn(2) == 0
			if m.f == nil {
				g.chainID++
				g.seal(h, signer)
				g.chainID--
				reseal = true
			} else if reseal {
				m.f(g, cs, h)
				if len(h.Extra) >= 65 {
					g.seal(h, signer)
				}
			} else {
				g.seal(h, signer)
				m.f(g, cs, h)
			}
			out := g.emit(c09UpdateOp(g.bt, g.chainID, h))
			tag := "mut." + m.name
			if reseal {
				tag += ".resealed"
			}
			r.Nontrivial(tag + fmt.Sprintf(" n=%d", n))
			switch {
			case strings.HasPrefix(out, "ok"):
				r.Count("mut.accepted")
				r.Count(tag + ".accepted")
				continue
			case out == "panic":
				r.Count("mut.panic")
			default:
				r.Count("mut.rejected")
			}
		}
		h := g.build(cs, signer, next)
		g.seal(h, signer)
		out := g.emit(c09UpdateOp(g.bt, g.chainID, h))
		if !strings.HasPrefix(out, "ok") {
			r.Count("hist.valid-rejected")
			if g.tp > 1_000_000 {
				r.Count("hist.valid-rejected-unexpected")
			}
			break
		}
		r.Count("valid.accepted")
		if newcomer {
			r.Count("valid.accepted.new-validator")
		}
		if num < uint64(n/2+1) {
			r.Count("valid.accepted.number-below-limit")
		}
		if num > 1<<32 {
			r.Count("valid.accepted.large-height")
		}
		g.maybeRestart()
	}
	g.emit("cons")
}

// ---- directed histories (fixed keys, independent of the seed) ------------------------------------------
//   below-limit : N=2, client created at height 0, header 1 sealed by the sealer of height 0          (F9)
//   expiry      : N=6, trusting period 5, the consensus state of height 1 expires while height 3 is
//                 accepted; header 4 sealed by the sealer of height 1 (distance 3 = N/2)             (F9b)
//   growth      : 3 -> 9 validators at height 5; header 6 sealed by the sealer of height 2 (distance 4 = 9/2)
//                 (known finding: upstream Parlia keeps the shorter record list too)

type c09Step struct {
	bt     uint64
	signer common.Address
	time   uint64
	next   []common.Address
	reject bool // this step is expected to be refused; the history goes on with the same head
	restart bool // export + re-import of the hosting chain before this step
}

func (g *c09Gen) directedKeys(n int) []common.Address {
	var out []common.Address
	for i := 0; len(out) < n; i++ {
		k, err := crypto.ToECDSA(crypto.Keccak256([]byte(fmt.Sprintf("c09-directed-%d", i))))
		if err != nil {
			continue
		}
		a := crypto.PubkeyToAddress(k.PublicKey)
		g.keyOf[a] = k
		out = append(out, a)
	}
	m := map[common.Address]bool{}
	for _, a := range out {
		m[a] = true
	}
	return c09Sorted(m)
}

func (g *c09Gen) directed(name string, epoch, tp, start uint64, vals []common.Address, headSealer common.Address, headTime uint64, steps []c09Step) []string {
	var ops []string
	emit := func(op string) string {
		ops = append(ops, op)
		return g.emit(op)
	}
	emit("reset")
	g.chainID, g.epoch, g.tp, g.oldTime = 56, epoch, tp, false
	extra := make([]byte, 32)
	for _, a := range vals {
		extra = append(extra, a.Bytes()...)
	}
	extra = append(extra, make([]byte, 65)...)
	zero := make([]byte, 32)
	head := &bsctypes.Header{
		Height: clienttypes.NewHeight(0, start), ParentHash: zero, UncleHash: c09UncleHash.Bytes(), Coinbase: headSealer.Bytes(),
		Root: zero, TxHash: zero, ReceiptHash: zero, Difficulty: []byte{2}, GasLimit: 30_000_000, GasUsed: 21000, Time: headTime,
		Extra: extra, MixDigest: zero, Nonce: make([]byte, 8),
	}
	g.seal(head, headSealer)
	out := emit(c09CreateOp(g.chainID, epoch, tp, headTime, c09AddrBytes(vals), head))
	alive := strings.HasPrefix(out, "ok")
	for i, st := range steps {
		if !alive {
			break
		}
		if st.restart {
			emit("restart")
		}
		g.w.sel(0)
		cs := g.w.clientState(g.w.ctx)
		pcs := *cs
		pcs.Validators = g.w.presVals // turn / difficulty by the prescribed set
		cs = &pcs
		parent := &cs.Header
		num := parent.Height.RevisionHeight + 1
		ex := make([]byte, 32)
		if num%epoch == 0 {
			for _, a := range st.next {
				ex = append(ex, a.Bytes()...)
			}
		}
		ex = append(ex, make([]byte, 65)...)
		h := &bsctypes.Header{
			Height: clienttypes.NewHeight(0, num), ParentHash: parent.Hash().Bytes(), UncleHash: c09UncleHash.Bytes(), Coinbase: st.signer.Bytes(),
			Root: crypto.Keccak256([]byte{byte(num)}), TxHash: zero, ReceiptHash: zero, Difficulty: []byte{1}, GasLimit: 30_000_000, GasUsed: 21000,
			Time: st.time, Extra: ex, MixDigest: zero, Nonce: make([]byte, 8),
		}
		if g.turnOf(cs, st.signer) {
			h.Difficulty = []byte{2}
		}
		g.seal(h, st.signer)
		out = emit(c09UpdateOp(st.bt, g.chainID, h))
		if !st.reject && !strings.HasPrefix(out, "ok") {
			alive = false
		}
		if i == len(steps)-1 {
			if strings.HasPrefix(out, "ok") {
				g.r.Count("directed." + name + ".last-accepted")
			} else {
				g.r.Count("directed." + name + ".last-rejected")
			}
		}
	}
	emit("cons")
	if d := os.Getenv("VERIF_C09_WRITE_CORPUS"); d != "" {
		_ = os.WriteFile(filepath.Join(d, name+".ops"), []byte("# C09 directed history: "+name+" (see harness/c09_gen_test.go)\n"+strings.Join(ops[1:], "\n")+"\n"), 0o644)
	}
	return ops
}

// directedTwin: two clients created from the same head (height 100, three validators k0..k2, epoch 100);
// header 101 = H sealed by k1, F = H with the seal of the outsider key k8.
//   seen  : H -> client 1, F -> client 0 (refused), H -> client 0 (accepted)
//   dry   : H on a dropped context of client 0, F -> client 0 (refused), H -> client 0 (accepted)
//   first : F -> client 0 (refused), H -> client 0 (accepted), F -> client 1 (refused), H -> client 1 (accepted)
func (g *c09Gen) directedTwin(name string) {
	var ops []string
	emit := func(op string) string {
		ops = append(ops, op)
		return g.emit(op)
	}
	k := g.directedKeys(9)
	emit("reset")
	g.chainID, g.epoch, g.tp, g.oldTime, g.fresh, g.handover = 56, 100, 999_999_999, false, false, false
	vals := k[:3]
	extra := make([]byte, 32)
	for _, a := range vals {
		extra = append(extra, a.Bytes()...)
	}
	extra = append(extra, make([]byte, 65)...)
	zero := make([]byte, 32)
	head := &bsctypes.Header{
		Height: clienttypes.NewHeight(0, 100), ParentHash: zero, UncleHash: c09UncleHash.Bytes(), Coinbase: k[0].Bytes(),
		Root: zero, TxHash: zero, ReceiptHash: zero, Difficulty: []byte{2}, GasLimit: 30_000_000, GasUsed: 21000, Time: 100,
		Extra: extra, MixDigest: zero, Nonce: make([]byte, 8),
	}
	g.seal(head, k[0])
	cr := c09CreateOp(56, 100, g.tp, 100, c09AddrBytes(vals), head)
	emit(cr)
	emit(c09At(cr, 1))
	g.w.sel(0)
	cs := g.w.clientState(g.w.ctx)
	if cs == nil {
		return
	}
	h := &bsctypes.Header{
		Height: clienttypes.NewHeight(0, 101), ParentHash: cs.Header.Hash().Bytes(), UncleHash: c09UncleHash.Bytes(), Coinbase: k[1].Bytes(),
		Root: crypto.Keccak256([]byte{101}), TxHash: zero, ReceiptHash: zero, Difficulty: []byte{1}, GasLimit: 30_000_000, GasUsed: 21000,
		Time: 103, Extra: make([]byte, 97), MixDigest: zero, Nonce: make([]byte, 8),
	}
	if c09InTurn(cs, k[1]) {
		h.Difficulty = []byte{2}
	}
	g.seal(h, k[1])
	f := *h
	f.Extra = append([]byte{}, h.Extra...)
	c09Sign(&f, 56, g.keyOf[k[8]])
	H, F := c09UpdateOp(103, 56, h), c09UpdateOp(103, 56, &f)
	var last string
	switch name {
	case "twin-seen":
		emit(c09At(H, 1))
		emit(F)
		last = emit(H)
	case "twin-dry":
		emit("dry" + H[len("update"):])
		emit(F)
		last = emit(H)
	default:
		emit(F)
		emit(H)
		emit(c09At(F, 1))
		last = emit(c09At(H, 1))
	}
	if strings.HasPrefix(last, "ok") {
		g.r.Count("directed." + name + ".last-accepted")
	} else {
		g.r.Count("directed." + name + ".last-rejected")
	}
	emit("cons")
	emit("cons@1")
	if d := os.Getenv("VERIF_C09_WRITE_CORPUS"); d != "" {
		_ = os.WriteFile(filepath.Join(d, name+".ops"), []byte("# C09 directed history: "+name+" (see harness/c09_gen_test.go)\n"+strings.Join(ops[1:], "\n")+"\n"), 0o644)
	}
}

// directedReorg: epoch 4, validators k0..k2, client created at height 4; branch A = 5 (k1), 6 (k0); upgrade to ANOTHER
// header at height 4 (other root); branch B = 5 (k1), 6 (k2), 7 (k0) with other roots over the occupied heights 5, 6.
func (g *c09Gen) directedReorg(name string, otherRev bool) {
	var ops []string
	emit := func(op string) string {
		ops = append(ops, op)
		return g.emit(op)
	}
	k := g.directedKeys(9)
	emit("reset")
	g.chainID, g.epoch, g.tp, g.oldTime, g.fresh, g.handover = 56, 4, 999_999_999, false, false, false
	vals := k[:3]
	zero := make([]byte, 32)
	mkHead := func(tag byte) *bsctypes.Header {
		extra := make([]byte, 32)
		for _, a := range vals {
			extra = append(extra, a.Bytes()...)
		}
		extra = append(extra, make([]byte, 65)...)
		h := &bsctypes.Header{
			Height: clienttypes.NewHeight(0, 4), ParentHash: zero, UncleHash: c09UncleHash.Bytes(), Coinbase: k[0].Bytes(),
			Root: crypto.Keccak256([]byte{tag, 4}), TxHash: zero, ReceiptHash: zero, Difficulty: []byte{2}, GasLimit: 30_000_000, GasUsed: 21000, Time: 100,
			Extra: extra, MixDigest: zero, Nonce: make([]byte, 8),
		}
		g.seal(h, k[0])
		return h
	}
	block := func(tag byte, signer common.Address, bt uint64) string {
		g.w.sel(0)
		cs := g.w.clientState(g.w.ctx)
		num := cs.Header.Height.RevisionHeight + 1
		ex := make([]byte, 32)
		if num%4 == 0 {
			for _, a := range vals {
				ex = append(ex, a.Bytes()...)
			}
		}
		ex = append(ex, make([]byte, 65)...)
		h := &bsctypes.Header{
			Height: clienttypes.NewHeight(0, num), ParentHash: cs.Header.Hash().Bytes(), UncleHash: c09UncleHash.Bytes(), Coinbase: signer.Bytes(),
			Root: crypto.Keccak256([]byte{tag, byte(num)}), TxHash: zero, ReceiptHash: zero, Difficulty: []byte{1}, GasLimit: 30_000_000, GasUsed: 21000,
			Time: bt, Extra: ex, MixDigest: zero, Nonce: make([]byte, 8),
		}
		if c09InTurn(cs, signer) {
			h.Difficulty = []byte{2}
		}
		g.seal(h, signer)
		if otherRev && tag == 'B' { // the same header under revision 7 first (must be refused), then under the head's revision
			o := *h
			o.Height.RevisionNumber = 7
			if strings.HasPrefix(emit(c09UpdateOp(bt, 56, &o)), "ok") {
				return "ok"
			}
		}
		return emit(c09UpdateOp(bt, 56, h))
	}
	emit(c09CreateOp(56, 4, g.tp, 100, c09AddrBytes(vals), mkHead('A')))
	block('A', k[1], 103)
	block('A', k[0], 106)
	emit(c09UpgradeOp(56, 4, g.tp, 109, c09AddrBytes(vals), mkHead('B')))
	block('B', k[1], 112)
	block('B', k[2], 115)
	last := block('B', k[0], 118)
	if strings.HasPrefix(last, "ok") {
		g.r.Count("directed." + name + ".last-accepted")
	} else {
		g.r.Count("directed." + name + ".last-rejected")
	}
	emit("cons")
	if d := os.Getenv("VERIF_C09_WRITE_CORPUS"); d != "" {
		_ = os.WriteFile(filepath.Join(d, name+".ops"), []byte("# C09 directed history: "+name+" (see harness/c09_gen_test.go)\n"+strings.Join(ops[1:], "\n")+"\n"), 0o644)
	}
}

func (g *c09Gen) allDirected() {
	g.directedReorg("reorg", false)
	g.directedReorg("reorg-other-revision", true)
	g.directedTwin("twin-seen")
	g.directedTwin("twin-dry")
	g.directedTwin("twin-forgery-first")
	k := g.directedKeys(9)
	k21 := g.directedKeys(21)
	// number < limit: epoch 2, client created at height 2 (height 0-0 is refused by ClientState.Validate)
	g.directed("below-limit", 2, 999_999_999, 2, k[:6], k[0], 100, []c09Step{{bt: 103, signer: k[0], time: 103}})
	g.directed("below-limit-21", 2, 999_999_999, 2, k21, k21[3], 100, []c09Step{
		{bt: 103, signer: k21[5], time: 103}, {bt: 106, signer: k21[3], time: 106}})
	g.directed("expiry", 100, 5, 100, k[:6], k[0], 100, []c09Step{
		{bt: 101, signer: k[1], time: 200}, {bt: 110, signer: k[2], time: 200}, {bt: 111, signer: k[0], time: 200}})
	// two consensus states expire at once: only the earliest is pruned
	g.directed("expiry-two", 100, 5, 100, k[:6], k[0], 100, []c09Step{
		{bt: 101, signer: k[1], time: 100}, {bt: 102, signer: k[2], time: 200}, {bt: 110, signer: k[3], time: 200},
		{bt: 111, signer: k[1], time: 200}})
	// the edge of the window for even N: k1 seals 101, then again exactly N/2 blocks later (refused), k0 — N/2+1
	// blocks after its block 100 — is accepted
	for _, n := range []int{2, 4, 6, 8} {
		steps := []c09Step{}
		for i := 1; i <= n/2; i++ {
			steps = append(steps, c09Step{bt: uint64(100 + 3*i), signer: k[i], time: uint64(100 + 3*i)})
		}
		t := uint64(100 + 3*(n/2+1))
		steps = append(steps, c09Step{bt: t, signer: k[1], time: t, reject: true}, c09Step{bt: t, signer: k[0], time: t})
		g.directed(fmt.Sprintf("window-edge-%d", n), 100, 999_999_999, 100, k[:n], k[0], 100, steps)
	}
	// an epoch header announcing no validators is refused; the same height with a list is accepted
	g.directed("epoch-empty-list", 4, 999_999_999, 4, k[:3], k[0], 100, []c09Step{
		{bt: 103, signer: k[1], time: 103}, {bt: 106, signer: k[2], time: 106}, {bt: 109, signer: k[0], time: 109},
		{bt: 112, signer: k[1], time: 112, next: nil, reject: true}, {bt: 112, signer: k[1], time: 112, next: k[:3]}})
	// export + re-import between an epoch header and its switch: 3 validators at 4, epoch header 8 announces five NEW
	// ones, restart, block 9 (switch offset 3/2 = 1) by an old validator, blocks 10, 11 by new validators
	g.directed("restart-before-switch", 4, 999_999_999, 4, k[:3], k[0], 100, []c09Step{
		{bt: 103, signer: k[1], time: 103}, {bt: 106, signer: k[2], time: 106}, {bt: 109, signer: k[0], time: 109},
		{bt: 112, signer: k[1], time: 112, next: k[3:8]},
		{bt: 115, signer: k[2], time: 115, restart: true},
		{bt: 118, signer: k[3], time: 118}, {bt: 121, signer: k[4], time: 121, restart: true}, {bt: 124, signer: k[5], time: 124, next: k[3:8]}})
	// a carried list with a zero-address entry: epoch 10, {k0,k1,k2} at 10, epoch header 20 carries [0x0,k0,k1,k2]; from the
	// switch at 21 on N = 4 (window 2): block 24 by the sealer of 22 is refused, by the sealer of 21 accepted
	{
		st := []c09Step{}
		rot := []common.Address{k[1], k[2], k[0]}
		for i := 0; i < 9; i++ {
			st = append(st, c09Step{bt: uint64(103 + 3*i), signer: rot[i%3], time: uint64(103 + 3*i)})
		}
		st = append(st,
			c09Step{bt: 130, signer: k[1], time: 130, next: []common.Address{{}, k[0], k[1], k[2]}},
			c09Step{bt: 133, signer: k[2], time: 133},
			c09Step{bt: 136, signer: k[0], time: 136}, c09Step{bt: 139, signer: k[1], time: 139},
			c09Step{bt: 142, signer: k[0], time: 142, reject: true}, c09Step{bt: 142, signer: k[2], time: 142})
		g.directed("list-with-zero-address", 10, 999_999_999, 10, k[:3], k[0], 100, st)
	}
	// single validator handing over to a different single validator: the epoch header is itself the switch point
	g.directed("handover-1to1", 4, 999_999_999, 4, k[:1], k[0], 100, []c09Step{
		{bt: 103, signer: k[0], time: 103}, {bt: 106, signer: k[0], time: 106}, {bt: 109, signer: k[0], time: 109},
		{bt: 112, signer: k[0], time: 112, next: k[1:2]},
		{bt: 115, signer: k[0], time: 115, reject: true}, {bt: 115, signer: k[1], time: 115}})
	// 1 -> 3 at the epoch header, then 3 -> 1 one block after the next epoch header
	g.directed("handover-1to3to1", 4, 999_999_999, 4, k[:1], k[0], 100, []c09Step{
		{bt: 103, signer: k[0], time: 103}, {bt: 106, signer: k[0], time: 106}, {bt: 109, signer: k[0], time: 109},
		{bt: 112, signer: k[0], time: 112, next: k[1:4]},
		{bt: 115, signer: k[0], time: 115, reject: true}, {bt: 115, signer: k[1], time: 115},
		{bt: 118, signer: k[2], time: 118}, {bt: 121, signer: k[3], time: 121},
		{bt: 124, signer: k[1], time: 124, next: k[4:5]}, {bt: 127, signer: k[2], time: 127},
		{bt: 130, signer: k[3], time: 130, reject: true}, {bt: 130, signer: k[4], time: 130}})
	g.directed("growth", 4, 999_999_999, 4, k[:3], k[0], 100, []c09Step{
		{bt: 103, signer: k[1], time: 103}, {bt: 106, signer: k[0], time: 106}, {bt: 109, signer: k[1], time: 109},
		{bt: 112, signer: k[2], time: 112, next: k}, {bt: 115, signer: k[1], time: 115}, {bt: 118, signer: k[0], time: 118}})
}

// ---- twin histories: two clients of the same chain in one process, discarded executions, re-sealed copies ---
//
// For every height a genuine header H (sealed by an eligible validator) and copies of H that differ ONLY in the
// trailing 65 seal bytes: sealed by an outsider key, by another validator, random bytes, the seal of the
// previous header, recovery id flipped. Orders:
//   seen-on-twin  : H -> client 1 (accepted); copies -> client 0 (all refused); H -> client 0 (accepted)
//   forgery-first : copies -> client 0 (refused); H -> client 0 (accepted); H -> client 1; copies -> client 1 (stale)
//   dry           : H on a dropped context of client 0 (dry-ok); copies -> client 0 (refused), one copy dry (dry-err);
//                   H -> client 0 (accepted); H -> client 1
// Verification must be a function of (committed client state, header): TM.Bsc.frame / accept_independent.

func c09At(op string, i int) string {
	if i == 0 {
		return op
	}
	j := strings.IndexByte(op, ' ')
	if j < 0 {
		return op + "@1"
	}
	return op[:j] + "@1" + op[j:]
}

type c09Copy struct {
	kind string
	h    *bsctypes.Header
}

func (g *c09Gen) copies(h *bsctypes.Header, signer common.Address, prev *bsctypes.Header, members map[common.Address]bool) []c09Copy {
	clone := func() *bsctypes.Header {
		c := *h
		c.Extra = append([]byte{}, h.Extra...)
		return &c
	}
	var out []c09Copy
	// outsider key
	for _, a := range g.addrs {
		if !members[a] {
			c := clone()
			c09Sign(c, g.chainID, g.keyOf[a])
			out = append(out, c09Copy{"outsider-seal", c})
			break
		}
	}
	// another validator of the set (coinbase unchanged)
	for _, a := range c09Sorted(members) {
		if k, ok := g.keyOf[a]; ok && a != signer {
			c := clone()
			c09Sign(c, g.chainID, k)
			out = append(out, c09Copy{"other-validator-seal", c})
			break
		}
	}
	c := clone()
	copy(c.Extra[len(c.Extra)-65:], g.rnd(65))
	c.Extra[len(c.Extra)-1] = byte(g.r.Rng.Intn(2))
	out = append(out, c09Copy{"random-seal", c})
	if prev != nil && len(prev.Extra) >= 65 {
		c = clone()
		copy(c.Extra[len(c.Extra)-65:], prev.Extra[len(prev.Extra)-65:])
		out = append(out, c09Copy{"seal-of-previous-header", c})
	}
	c = clone()
	c.Extra[len(c.Extra)-1] ^= 1
	out = append(out, c09Copy{"recovery-id-flipped", c})
	g.r.Rng.Shuffle(len(out), func(i, j int) { out[i], out[j] = out[j], out[i] })
	return out[:1+g.r.Rng.Intn(len(out))]
}

func (g *c09Gen) twin(n0 int, epoch uint64, startK uint64, steps int) {
	r := g.r
	g.emit("reset")
	g.chainID = []uint64{56, 97, 1, 714}[r.Rng.Intn(4)]
	g.epoch, g.tp, g.btStep, g.oldTime, g.fresh, g.handover = epoch, 999_999_999, 3, false, false, false
	g.bt = 1_700_000_000
	vals := g.subset(n0)
	start := startK * epoch
	extra := g.rnd(32)
	for _, a := range g.nextSet(vals) {
		extra = append(extra, a.Bytes()...)
	}
	extra = append(extra, make([]byte, 65)...)
	sealer := g.keyed(vals)
	head := &bsctypes.Header{
		Height: clienttypes.NewHeight(0, start), ParentHash: g.rnd(32), UncleHash: c09UncleHash.Bytes(), Coinbase: sealer.Bytes(),
		Root: g.rnd(32), TxHash: g.rnd(32), ReceiptHash: g.rnd(32), Difficulty: []byte{2}, GasLimit: 30_000_000, GasUsed: 21000, Time: g.bt - 10,
		Extra: extra, MixDigest: make([]byte, 32), Nonce: make([]byte, 8),
	}
	g.seal(head, sealer)
	cr := c09CreateOp(g.chainID, g.epoch, g.tp, g.bt, c09AddrBytes(vals), head)
	if !strings.HasPrefix(g.emit(cr), "ok") || !strings.HasPrefix(g.emit(c09At(cr, 1)), "ok") {
		r.Count("twin.create-failed")
		return
	}
	r.Count("twin.histories")
	submit := func(i int, kind string, h *bsctypes.Header, dry bool) string {
		op := c09UpdateOp(g.bt, g.chainID, h)
		if dry {
			op = "dry" + op[len("update"):]
		}
		return g.emit(c09At(op, i))
	}
	forge := func(i int, cps []c09Copy, phase string) {
		for _, c := range cps {
			out := submit(i, c.kind, c.h, false)
			if strings.HasPrefix(out, "ok") {
				r.Count("twin.copy." + c.kind + ".accepted")
				r.Count("twin.copy.accepted")
			} else {
				r.Count("twin.copy." + c.kind + ".refused")
				r.Count("twin.copy.refused." + phase)
			}
			r.Nontrivial("twin " + phase + " " + c.kind + fmt.Sprint(" n=", n0))
		}
	}
	for s := 0; s < steps; s++ {
		g.w.sel(0)
		cs0 := g.w.clientState(g.w.ctx)
		g.w.sel(1)
		cs1 := g.w.clientState(g.w.ctx)
		if cs0 == nil || cs1 == nil || cs0.Header.Height != cs1.Header.Height || cs0.Header.Hash() != cs1.Header.Hash() {
			r.Count("twin.desynchronised") // only possible after an accepted forgery
			break
		}
		g.w.sel(0)
		g.bt += 3
		pcs := *cs0
		pcs.Validators = g.w.presVals
		cs := &pcs
		members := c09Distinct(cs.Validators)
		set := c09Sorted(members)
		n := len(set)
		if n == 0 {
			break
		}
		num := cs.Header.Height.RevisionHeight + 1
		var cur []common.Address
		for _, v := range cs.Validators {
			cur = append(cur, common.BytesToAddress(v))
		}
		next := cur
		if num%g.epoch == 0 {
			next = g.nextSet(cur)
		}
		var elig []common.Address
		for _, a := range set {
			rec := false
			for d := uint64(1); d <= uint64(n/2) && d <= num; d++ {
				if who, ok := g.w.sealedBy[num-d]; ok && who == a {
					rec = true
				}
			}
			if _, ok := g.keyOf[a]; ok && !rec {
				elig = append(elig, a)
			}
		}
		if len(elig) == 0 {
			break
		}
		signer := elig[r.Rng.Intn(len(elig))]
		if it := set[num%uint64(n)]; r.Rng.Intn(3) > 0 {
			for _, a := range elig {
				if a == it {
					signer = it
				}
			}
		}
		h := g.build(cs, signer, next)
		g.seal(h, signer)
		prev := cs0.Header
		cps := g.copies(h, signer, &prev, members)
		ok := func(out string) bool { return strings.HasPrefix(out, "ok") }
		genuine := func(i int) bool {
			if ok(submit(i, "genuine", h, false)) {
				r.Count("twin.genuine.accepted")
				return true
			}
			r.Count("twin.genuine.refused")
			return false
		}
		good := true
		switch mode := r.Rng.Intn(3); mode {
		case 0:
			r.Count("twin.mode.seen-on-twin")
			good = genuine(1)
			forge(0, cps, "after-seen-on-twin")
			good = genuine(0) && good
		case 1:
			r.Count("twin.mode.forgery-first")
			forge(0, cps, "before-genuine")
			good = genuine(0)
			good = genuine(1) && good
			forge(1, cps[:1], "stale")
		default:
			r.Count("twin.mode.dry")
			if submit(0, "genuine", h, true) == "dry-ok" {
				r.Count("twin.dry.genuine.ok")
			} else {
				r.Count("twin.dry.genuine.refused")
			}
			if submit(0, cps[0].kind, cps[0].h, true) == "dry-ok" {
				r.Count("twin.dry.copy.ok")
			} else {
				r.Count("twin.dry.copy.refused")
			}
			forge(0, cps, "after-discarded-execution")
			good = genuine(0)
			good = genuine(1) && good
		}
		if !good {
			break
		}
		g.maybeRestart()
	}
	g.emit("cons")
	g.emit("cons@1")
}

// ---- reorg histories: the client follows branch A, governance upgrades it back to an epoch header at or below
// heights it already tracks (same branch or ANOTHER branch), the relayer feeds branch B over the occupied heights.
// UpgradeState resets head / recents / pending validators but keeps the unexpired consensus states, so every
// branch-B header lands on a height that already has a consensus state with branch A's root.

// nextValid builds the valid next header for client 0 from the prescribed set (eligible signer, right turn).
func (g *c09Gen) nextValid() (*bsctypes.Header, bool) {
	r := g.r
	g.w.sel(0)
	cs0 := g.w.clientState(g.w.ctx)
	if cs0 == nil {
		return nil, false
	}
	pcs := *cs0
	pcs.Validators = g.w.presVals
	cs := &pcs
	set := c09Sorted(c09Distinct(cs.Validators))
	n := len(set)
	if n == 0 {
		return nil, false
	}
	num := cs.Header.Height.RevisionHeight + 1
	var cur []common.Address
	for _, v := range cs.Validators {
		cur = append(cur, common.BytesToAddress(v))
	}
	next := cur
	if num%g.epoch == 0 {
		if g.forceNext != nil {
			next = g.forceNext(cur)
		} else {
			next = g.nextSet(cur)
		}
	}
	var elig []common.Address
	for _, a := range set {
		rec := false
		for d := uint64(1); d <= uint64(n/2) && d <= num; d++ {
			if who, ok := g.w.sealedBy[num-d]; ok && who == a {
				rec = true
			}
		}
		if num < uint64(n/2+1) { // number < limit: every recorded sealer is excluded
			for _, who := range g.w.sealedBy {
				if who == a {
					rec = true
				}
			}
		}
		if _, ok := g.keyOf[a]; ok && !rec {
			elig = append(elig, a)
		}
	}
	if len(elig) == 0 {
		return nil, false
	}
	signer := elig[r.Rng.Intn(len(elig))]
	if it := set[num%uint64(n)]; r.Rng.Intn(3) > 0 {
		for _, a := range elig {
			if a == it {
				signer = it
			}
		}
	}
	h := g.build(cs, signer, next)
	if g.forceTime != nil {
		h.Time = g.forceTime(cs.Header.Time)
	}
	g.seal(h, signer)
	return h, true
}

func c09UpgradeOp(chainID, epoch, tp, bt uint64, vals [][]byte, h *bsctypes.Header) string {
	return "upgrade" + c09CreateOp(chainID, epoch, tp, bt, vals, h)[len("create"):]
}

func (g *c09Gen) reorg(n0 int, epoch uint64, startK uint64) {
	r := g.r
	g.emit("reset")
	g.chainID = []uint64{56, 97, 1, 714}[r.Rng.Intn(4)]
	g.tp = 999_999_999
	if r.Rng.Intn(5) == 0 {
		g.tp = uint64(20 + r.Rng.Intn(60)) // consensus states of branch A expire while branch B is fed
	}
	g.epoch, g.btStep, g.oldTime, g.fresh, g.handover = epoch, 3, false, false, false
	g.bt = 1_700_000_000
	vals := g.subset(n0)
	mkHead := func(num uint64, vs []common.Address) *bsctypes.Header {
		extra := g.rnd(32)
		for _, a := range vs {
			extra = append(extra, a.Bytes()...)
		}
		extra = append(extra, make([]byte, 65)...)
		sealer := g.keyed(vs)
		h := &bsctypes.Header{
			Height: clienttypes.NewHeight(0, num), ParentHash: g.rnd(32), UncleHash: c09UncleHash.Bytes(), Coinbase: sealer.Bytes(),
			Root: g.rnd(32), TxHash: g.rnd(32), ReceiptHash: g.rnd(32), Difficulty: []byte{2}, GasLimit: 30_000_000, GasUsed: 21000, Time: g.bt - 5,
			Extra: extra, MixDigest: make([]byte, 32), Nonce: make([]byte, 8),
		}
		g.seal(h, sealer)
		return h
	}
	start := startK * epoch
	head0 := mkHead(start, vals)
	if !strings.HasPrefix(g.emit(c09CreateOp(g.chainID, g.epoch, g.tp, g.bt, c09AddrBytes(vals), head0)), "ok") {
		return
	}
	r.Count("reorg.histories")
	otherRev := false
	feed := func(k int) int {
		done := 0
		for i := 0; i < k; i++ {
			g.bt += 3
			h, ok := g.nextValid()
			if !ok {
				break
			}
			if otherRev && r.Rng.Intn(2) == 0 { // the same valid header under another revision number (the seal does not cover it)
				o := *h
				o.Height.RevisionNumber = h.Height.RevisionNumber + uint64(1+r.Rng.Intn(3))
				if strings.HasPrefix(g.emit(c09UpdateOp(g.bt, g.chainID, &o)), "ok") {
					r.Count("reorg.other-revision.accepted")
					done++
					continue
				}
				r.Count("reorg.other-revision.refused")
			}
			if !strings.HasPrefix(g.emit(c09UpdateOp(g.bt, g.chainID, h)), "ok") {
				r.Count("reorg.valid-refused")
				break
			}
			done++
			g.maybeRestart()
		}
		return done
	}
	feed(int(epoch) + 1 + r.Rng.Intn(int(epoch)+3))
	rounds := 1 + r.Rng.Intn(2)
	for round := 0; round < rounds; round++ {
		g.w.sel(0)
		cs := g.w.clientState(g.w.ctx)
		if cs == nil {
			return
		}
		headNum := cs.Header.Height.RevisionHeight
		var cur []common.Address
		for _, v := range g.w.presVals {
			cur = append(cur, common.BytesToAddress(v))
		}
		if len(cur) == 0 {
			return
		}
		// candidate epoch heights at or below the head
		var cands []uint64
		for u := start; u <= headNum; u += epoch {
			cands = append(cands, u)
		}
		if start >= epoch && r.Rng.Intn(4) == 0 {
			cands = append(cands, start-epoch) // below everything tracked
		}
		if len(cands) == 0 { // (an earlier round went below `start` and branch B has not come back up to it yet)
			cands = append(cands, headNum/epoch*epoch)
		}
		u := cands[r.Rng.Intn(len(cands))]
		var nh *bsctypes.Header
		nvals := cur
		kind := "other-branch"
		if old, ok := g.w.accepted[u]; ok && r.Rng.Intn(3) == 0 {
			nh, kind = old, "same-branch"
			if u == start {
				nvals = vals
			}
		} else {
			nh = mkHead(u, cur)
		}
		g.bt += 3
		// rejected variants first: not an epoch height / seal broken
		if r.Rng.Intn(3) == 0 {
			bad := *nh
			bad.Extra = append([]byte{}, nh.Extra...)
			bad.Extra[len(bad.Extra)-10] ^= 0x40
			if strings.HasPrefix(g.emit(c09UpgradeOp(g.chainID, g.epoch, g.tp, g.bt, c09AddrBytes(nvals), &bad)), "ok") {
				r.Count("reorg.upgrade.bad-seal.accepted")
				return
			}
			r.Count("reorg.upgrade.bad-seal.rejected")
		}
		if !strings.HasPrefix(g.emit(c09UpgradeOp(g.chainID, g.epoch, g.tp, g.bt, c09AddrBytes(nvals), nh)), "ok") {
			r.Count("reorg.upgrade.refused")
			return
		}
		r.Count("reorg.upgrade." + kind)
		otherRev = r.Rng.Intn(2) == 0
		g.maybeRestart()
		r.Nontrivial(fmt.Sprintf("reorg %s u-start=%d head-u=%d n=%d", kind, int64(u)-int64(start), headNum-u+0, len(cur)))
		// branch B: over every occupied height and a little beyond
		feed(int(headNum-minU64(u, headNum)) + 2 + r.Rng.Intn(4))
	}
	g.emit("cons")
}

func minU64(a, b uint64) uint64 {
	if a < b {
		return a
	}
	return b
}

// maybeRestart: export + re-import of the hosting chain at this point of the history. Likely between an epoch header and
// its switch (pending list differs from the set in force), right after a switch / an upgrade; rarely elsewhere.
func (g *c09Gen) maybeRestart() {
	b := g.w.books[0]
	if !b.created || b.head == nil {
		return
	}
	num := b.head.Height.RevisionHeight
	p := 30
	switch {
	case !c09SameList(b.lastEpoch, b.presVals) && num%b.epoch < uint64(len(b.presVals)/2):
		p = 2
	case b.switchAt != 0 && num == b.switchAt:
		p = 3
	case b.upgraded:
		p = 2
	}
	if g.r.Rng.Intn(p) == 0 {
		g.emit("restart")
	}
}

// ---- boundary histories (class B of the hardening round) -------------------------------------------------------
//   height  : the chain crosses 2^31, 2^32, 2^53, 2^63 (big.NewInt(int64(n)) turns negative: Header.Hash degenerates),
//             and 2^64-1 -> 0 (uint64 wrap of number+1, number-limit, number%epoch)
//   epoch   : epoch 1 (every header is an epoch header), 2, 2^63, 2^64-1
//   valset  : sets of 1, 2, 21, 41, 100 validators, announced and in force (recents window up to 50)
//   extra   : epoch headers with exactly one validator; truncated last address (refused)
//   time    : header time = parent's, parent+3, 2^62, 2^63, 2^64-1 (time+trustingPeriod wraps: the client expires)
//   chainid : 2^31, 2^32, 2^63-1 (admitted), 2^63, 2^64-1 (refused by Validate: the seal hash takes int64(chainId))

type c09Boundary struct {
	class   string
	name    string
	chainID uint64
	epoch   uint64
	rev     uint64
	start   uint64
	n0      int
	steps   int
	next    func(cur []common.Address) []common.Address
	time    func(i int, parent uint64) uint64
	trunc   bool
	expectCreate bool
}

func (g *c09Gen) boundary(b c09Boundary) {
	r := g.r
	g.emit("reset")
	g.chainID, g.epoch, g.tp, g.btStep, g.oldTime, g.fresh, g.handover = b.chainID, b.epoch, 999_999_999, 3, false, false, false
	g.bt = 1_700_000_000
	vals := g.subset(b.n0)
	if b.next == nil { // the classes that are not about lists keep announcing the list in force (stable floors)
		b.next = func(cur []common.Address) []common.Address { return cur }
	}
	pend := b.next(vals)
	extra := g.rnd(32)
	for _, a := range pend {
		extra = append(extra, a.Bytes()...)
	}
	extra = append(extra, make([]byte, 65)...)
	sealer := g.keyed(vals)
	head := &bsctypes.Header{
		Height: clienttypes.NewHeight(b.rev, b.start), ParentHash: g.rnd(32), UncleHash: c09UncleHash.Bytes(), Coinbase: sealer.Bytes(),
		Root: g.rnd(32), TxHash: g.rnd(32), ReceiptHash: g.rnd(32), Difficulty: []byte{2}, GasLimit: 30_000_000, GasUsed: 21000, Time: g.bt - 5,
		Extra: extra, MixDigest: make([]byte, 32), Nonce: make([]byte, 8),
	}
	g.seal(head, sealer)
	tag := "boundary." + b.class + "." + b.name
	if !strings.HasPrefix(g.emit(c09CreateOp(g.chainID, g.epoch, g.tp, g.bt, c09AddrBytes(vals), head)), "ok") {
		r.Count(tag + ".create-refused")
		return
	}
	r.Count(tag + ".created")
	g.forceNext = b.next
	defer func() { g.forceNext, g.forceTime = nil, nil }()
	for i := 0; i < b.steps; i++ {
		g.bt += 3
		if b.time != nil {
			ii := i
			g.forceTime = func(parent uint64) uint64 { return b.time(ii, parent) }
		}
		h, ok := g.nextValid()
		if !ok {
			r.Count(tag + ".stuck")
			break
		}
		if b.class == "valset" { // the window edge and a random distance inside the window, for sets up to 100
			g.w.sel(0)
			cs0 := g.w.clientState(g.w.ctx)
			pcs := *cs0
			pcs.Validators = g.w.presVals
			members := c09Distinct(pcs.Validators)
			n := len(members)
			num := h.Height.RevisionHeight
			for _, d := range []uint64{uint64(n / 2), uint64(1 + r.Rng.Intn(n/2+1))} {
				if d == 0 || d > uint64(n/2) || d > num {
					continue
				}
				who, ok := g.w.sealedBy[num-d]
				if !ok || !members[who] {
					continue
				}
				nearest := true
				for dd := uint64(1); dd < d; dd++ {
					if w2, ok2 := g.w.sealedBy[num-dd]; ok2 && w2 == who {
						nearest = false
					}
				}
				if _, okk := g.keyOf[who]; !okk || !nearest {
					continue
				}
				var nx []common.Address
				if num%g.epoch == 0 {
					for j := 32; j+20 <= len(h.Extra)-65; j += 20 {
						nx = append(nx, common.BytesToAddress(h.Extra[j:j+20]))
					}
				}
				rh := g.build(&pcs, who, nx)
				g.seal(rh, who)
				if strings.HasPrefix(g.emit(c09UpdateOp(g.bt, g.chainID, rh)), "ok") {
					r.Count("boundary.valset.recent.accepted")
				} else {
					r.Count("boundary.valset.recent.refused")
					if n >= 41 {
						r.Count("boundary.valset.recent.refused.large-set")
					}
				}
			}
			g.w.sel(0)
			if cs1 := g.w.clientState(g.w.ctx); cs1 != nil && cs1.Header.Height.RevisionHeight >= num {
				continue // (a recent signer was accepted: the oracle has reported it; go on from the new head)
			}
		}
		if b.trunc && h.Height.RevisionHeight%g.epoch == 0 && len(h.Extra) >= 97+20 {
			// the same epoch header with its last address truncated by 1 / extended by 1 byte: refused
			for _, d := range []int{-1, 1} {
				t := *h
				body := append([]byte{}, h.Extra[:len(h.Extra)-65]...)
				if d < 0 {
					body = body[:len(body)-1]
				} else {
					body = append(body, 0x2f)
				}
				t.Extra = append(body, make([]byte, 65)...)
				g.seal(&t, common.BytesToAddress(h.Coinbase))
				if strings.HasPrefix(g.emit(c09UpdateOp(g.bt, g.chainID, &t)), "ok") {
					r.Count("boundary.extra.truncated-address.accepted")
				} else {
					r.Count("boundary.extra.truncated-address.refused")
				}
			}
		}
		if !strings.HasPrefix(g.emit(c09UpdateOp(g.bt, g.chainID, h)), "ok") {
			r.Count(tag + ".refused")
			break
		}
		r.Count(tag + ".accepted")
		r.Count("boundary." + b.class + ".accepted")
		if b.start > 1<<63 && h.Height.RevisionHeight < 1<<32 {
			r.Count("boundary.height.after-wrap-to-0.accepted")
		}
		if h.Height.RevisionHeight%g.epoch == 0 && len(h.Extra) == 97+20 {
			r.Count("boundary.extra.one-validator.accepted")
		}
		if i%5 == 4 && !(b.class == "height" && b.name == "2^64-1") {
			// (after the wrap the client sits at height 0-0, whose consensus state the genesis validation refuses:
			// the export of that — unreachable — state is not importable)
			g.maybeRestart()
		}
	}
	g.emit("cons")
}

func (g *c09Gen) allBoundaries() {
	r := g.r
	pick := func(n int) func([]common.Address) []common.Address {
		return func([]common.Address) []common.Address { return g.subset(n) }
	}
	// heights
	for _, t := range []struct {
		name string
		at   uint64
	}{{"2^31", 1 << 31}, {"2^32", 1 << 32}, {"2^53", 1 << 53}, {"2^63", 1 << 63}, {"2^64-1", ^uint64(0)}} {
		e := []uint64{1, 2, 3, 7}[r.Rng.Intn(4)]
		start := (t.at - 3) / e * e
		steps := int(t.at-start) + 4
		if t.at == ^uint64(0) {
			steps = int(t.at-start) + 1 + int(e) + 3 // wraps to 0, 1, ...
		}
		n0 := []int{1, 3, 5}[r.Rng.Intn(3)]
		if t.at == ^uint64(0) {
			n0 = 5 // (after the wrap number < limit excludes every recorded sealer: blocks 0 and 1 are sealed by the two
			// validators without a record, then the chain stalls — upstream Parlia has the same rule)
		}
		g.boundary(c09Boundary{class: "height", name: t.name, chainID: 56, epoch: e, start: start, n0: n0, steps: steps})
	}
	// epochs
	g.boundary(c09Boundary{class: "epoch", name: "1", chainID: 56, epoch: 1, start: uint64(5 + r.Rng.Intn(1000)), n0: 1 + r.Rng.Intn(3), steps: 10})
	g.boundary(c09Boundary{class: "epoch", name: "1-single-handover", chainID: 56, epoch: 1, start: uint64(5 + r.Rng.Intn(1000)), n0: 1, steps: 10,
		next: func(cur []common.Address) []common.Address { // epoch 1, one validator: every header is epoch header AND switch point
			for _, i := range r.Rng.Perm(len(g.addrs)) {
				if len(cur) == 0 || g.addrs[i] != cur[0] {
					return []common.Address{g.addrs[i]}
				}
			}
			return cur
		}})
	g.boundary(c09Boundary{class: "epoch", name: "2", chainID: 56, epoch: 2, start: uint64(2 * (1 + r.Rng.Intn(1000))), n0: 1 + r.Rng.Intn(5), steps: 10})
	g.boundary(c09Boundary{class: "epoch", name: "2^63", chainID: 56, epoch: 1 << 63, rev: 1, start: 0, n0: 3, steps: 8})
	g.boundary(c09Boundary{class: "epoch", name: "2^63@2^63", chainID: 56, epoch: 1 << 63, start: 1 << 63, n0: 3, steps: 6})
	g.boundary(c09Boundary{class: "epoch", name: "2^64-1", chainID: 56, epoch: ^uint64(0), rev: 1, start: 0, n0: 3, steps: 8})
	g.boundary(c09Boundary{class: "epoch", name: "2^64-1@2^64-1", chainID: 56, epoch: ^uint64(0), start: ^uint64(0), n0: 2, steps: 6})
	// validator sets
	for _, n := range []int{1, 2, 21, 41, 100} {
		n := n
		e := uint64(4 + r.Rng.Intn(5))
		g.boundary(c09Boundary{class: "valset", name: fmt.Sprintf("announce-%d", n), chainID: 97, epoch: e, start: e * uint64(1+r.Rng.Intn(50)), n0: 3,
			next: pick(n), steps: int(e) + n/2 + 8, trunc: true})
		g.boundary(c09Boundary{class: "valset", name: fmt.Sprintf("start-%d", n), chainID: 97, epoch: uint64(n/2 + 3), start: uint64(n/2+3) * uint64(1+r.Rng.Intn(50)), n0: n,
			next: pick([]int{1, 2, 100, 41}[r.Rng.Intn(4)]), steps: n/2 + 12, trunc: true})
	}
	// time stamps
	for _, t := range []struct {
		name string
		f    func(i int, parent uint64) uint64
	}{
		{"equal-parent", func(i int, p uint64) uint64 { return p }},
		{"parent+period", func(i int, p uint64) uint64 { return p + 3 }},
		{"2^62", func(i int, p uint64) uint64 { return 1<<62 + uint64(i) }},
		{"2^63", func(i int, p uint64) uint64 { return 1<<63 + uint64(i) }},
		{"2^64-1-at-4", func(i int, p uint64) uint64 {
			if i == 4 {
				return ^uint64(0) // time + trusting period wraps: the client expires
			}
			return p + 3
		}},
	} {
		g.boundary(c09Boundary{class: "time", name: t.name, chainID: 714, epoch: 5, start: 5 * uint64(1+r.Rng.Intn(100)), n0: 3, steps: 8, time: t.f})
	}
	// chain ids
	for _, c := range []struct {
		name string
		id   uint64
	}{{"2^31", 1 << 31}, {"2^32", 1 << 32}, {"2^63-1", 1<<63 - 1}, {"2^63", 1 << 63}, {"2^64-1", ^uint64(0)}} {
		g.boundary(c09Boundary{class: "chainid", name: c.name, chainID: c.id, epoch: 4, start: 4 * uint64(1+r.Rng.Intn(100)), n0: 3, steps: 5})
	}
}

func c09Epochs(r *Rec) uint64 {
	return []uint64{2, 3, 4, 5, 7, 10, 11, 12, 16, 20, 30, 50, 100, 200}[r.Rng.Intn(14)]
}

func TestC09(t *testing.T) {
	r := NewRec(t, "C09")
	defer r.Close()
	w := newC09World()
	run := func(h []string) {
		for _, op := range h {
			r.Op(op, w.apply(r, op))
		}
	}
	if ops := replayOps(t); ops != nil {
		run(ops)
		return
	}
	for _, h := range corpusOps("C09") {
		run(append([]string{"reset"}, h...))
	}
	if mn := c09Mainnet(); mn != nil {
		run(mn)
		r.Count("corpus.mainnet-segment")
	}
	g := newC09Gen(r, w)
	g.allDirected()
	g.allBoundaries()
	for j := 0; j < 3; j++ { // creations that must be refused: height 0-0, a head announcing no validators
		g.history(c09Plan{n0: 3 + j, epoch: 4, tp: 999_999_999, btStep: 3, startK: 0, steps: 1})
		g.history(c09Plan{n0: 3 + j, epoch: 4, tp: 999_999_999, btStep: 3, startK: 1, emptyHead: true, steps: 1})
	}
	hist := 300
	if r.Tier == "thorough" {
		hist = 1000
	}
	if n := envInt("VERIF_N", 0); n > 0 {
		hist = int(n)
	}
	for i := 0; i < hist; i++ {
		p := c09Plan{n0: g.size(), epoch: c09Epochs(r), tp: 999_999_999, btStep: 3, mutRate: 4}
		switch r.Rng.Intn(10) {
		case 0, 1: // small start heights: number < limit (height 0-0 is refused by Validate; 1-0 is admitted)
			p.startK = 1
			if p.epoch > 5 {
				p.epoch = uint64(2 + r.Rng.Intn(4))
			}
			if p.n0 < 2*int(p.epoch)+2 {
				p.n0 = 21 - r.Rng.Intn(4)
			}
			switch r.Rng.Intn(8) {
			case 0:
				p.startK = 0 // must be rejected
			case 1, 2:
				p.startK, p.rev = 0, 1
			case 3:
				p.emptyHead = true
			}
			p.sweep = true
		case 2:
			p.startK = uint64(1+r.Rng.Intn(1000)) << uint(r.Rng.Intn(34))
		case 3: // short trusting period: consensus states expire while their height is still recent
			p.tp = uint64(5 + r.Rng.Intn(60))
			p.startK = uint64(1 + r.Rng.Intn(50))
			switch r.Rng.Intn(3) {
			case 0:
				p.oldTime = true
			case 1:
				p.fresh = true
			}
			p.sweep = true
		case 4:
			p.sweep = true
			p.startK = uint64(1 + r.Rng.Intn(50))
		case 5: // single-validator and tiny sets handing over at every epoch boundary (switch offset 0 / 1)
			p.handover = true
			p.sweep = true
			p.n0 = []int{1, 1, 1, 2, 3}[r.Rng.Intn(5)]
			p.epoch = uint64(2 + r.Rng.Intn(7))
			p.startK = uint64(1 + r.Rng.Intn(20))
		default:
			p.startK = uint64(1 + r.Rng.Intn(50))
		}
		p.steps = 20 + r.Rng.Intn(40)
		if p.handover {
			p.steps = 3*int(p.epoch) + 6 + r.Rng.Intn(12)
		} else if r.Rng.Intn(3) == 0 { // cross at least one epoch boundary and the switch offset
			p.steps = int(p.epoch) + p.n0/2 + 5 + r.Rng.Intn(30)
			if p.steps > 260 {
				p.steps = 260
			}
		}
		g.history(p)
		if i%5 == 1 { // reorganisation repaired by an upgrade, branch B over occupied heights
			g.reorg([]int{1, 2, 3, 4, 5, 7}[r.Rng.Intn(6)], uint64(3+r.Rng.Intn(6)), uint64(1+r.Rng.Intn(20)))
		}
		if i%4 == 0 { // two clients of one chain, discarded executions, re-sealed copies
			n0 := []int{1, 2, 3, 4, 7, 21}[r.Rng.Intn(6)]
			g.twin(n0, []uint64{3, 5, 8, 50, 200}[r.Rng.Intn(5)], uint64(1+r.Rng.Intn(30)), 6+r.Rng.Intn(14))
		}
	}
}
