//go:build c11

package verifharness

// C11 generator: histories over several pairs of both kinds (module-owned pairs with one, two and three
// denominations; external pairs over the honest and the malicious token contracts of the repo), several accounts,
// both directions, boundary amounts, disabled module / pair, blocked receivers, send-disabled denominations,
// self-destructed contracts, malformed messages, alias denominations (hex-address-looking strings).

import (
	"fmt"
	"math/big"
	"strings"
	"testing"

	sdk "github.com/cosmos/cosmos-sdk/types"
	"github.com/cosmos/cosmos-sdk/types/bech32"
	authtypes "github.com/cosmos/cosmos-sdk/x/auth/types"
	"github.com/ethereum/go-ethereum/common"
	"github.com/ethereum/go-ethereum/crypto"

	aggtypes "github.com/teleport-network/teleport/x/aggregate/types"
)

var c11MaxUint = new(big.Int).Sub(new(big.Int).Lsh(big.NewInt(1), 256), big.NewInt(1))

type c11Gen struct {
	r      *Rec
	w      *c11World
	accts  []common.Address
	native []string // native denominations minted in this history
	force     *common.Address // when set, the next steps address this contract's pair
	forceBase string          // … and ICS-20 packets carry this base denomination
	fresh     int             // counter for fresh denominations
	pgAmt     *big.Int        // while a programmable token is armed: the amount that makes `after == before + amount` coincide
}

func (g *c11Gen) do(op string) string {
	out := g.w.apply(g.r, op)
	g.r.Op(op, out)
	return out
}

func (g *c11Gen) doDump(op string) string {
	out := g.do(op)
	g.do("dump")
	return out
}

func (g *c11Gen) pick(xs []string) string { return xs[g.r.Rng.Intn(len(xs))] }

func (g *c11Gen) amount(bal *big.Int) *big.Int {
	a := g.amount0(bal)
	if a.Cmp(c11MaxUint) > 0 { // sdk.Int cannot carry more than 256 bits
		return new(big.Int).Set(c11MaxUint)
	}
	return a
}

func (g *c11Gen) amount0(bal *big.Int) *big.Int {
	if bal == nil {
		bal = big.NewInt(0)
	}
	rng := g.r.Rng
	if g.pgAmt != nil && g.pgAmt.Sign() > 0 && rng.Intn(5) < 3 {
		return new(big.Int).Set(g.pgAmt)
	}
	switch x := rng.Intn(60); {
	case x == 0:
		return big.NewInt(0)
	case x == 1:
		return big.NewInt(-int64(1 + rng.Intn(3)))
	case x == 2:
		return new(big.Int).Set(c11MaxUint)
	case x == 3:
		return new(big.Int).Lsh(big.NewInt(1), 255)
	case x <= 9:
		if bal.Sign() == 0 {
			return big.NewInt(1)
		}
		return new(big.Int).Set(bal)
	case x <= 12:
		return new(big.Int).Add(bal, big.NewInt(1))
	case x <= 14:
		if bal.Sign() > 0 {
			return new(big.Int).Sub(bal, big.NewInt(1))
		}
		return big.NewInt(1)
	case x <= 17:
		return big.NewInt(1)
	case x <= 19:
		return new(big.Int).Add(new(big.Int).Rsh(bal, 1), big.NewInt(1))
	default:
		if bal.Sign() > 0 {
			// 1 .. bal
			n := new(big.Int).Rand(rng, bal)
			return n.Add(n, big.NewInt(1))
		}
		return big.NewInt(int64(1 + rng.Intn(50)))
	}
}

func (g *c11Gen) rawAddr(a common.Address) string {
	h := c11Hex(a)
	switch g.r.Rng.Intn(40) {
	case 0, 5, 6:
		return h // no prefix
	case 7, 8:
		return strings.ToUpper(h)
	case 1:
		return "0X" + strings.ToUpper(h)
	case 2:
		return a.Hex() // checksum
	case 3:
		return "0x" + h[:38] // too short
	case 4:
		return "0x" + h[:39] + "g"
	default:
		return "0x" + h
	}
}

func (g *c11Gen) anyAcct(extra ...common.Address) common.Address {
	all := append(append([]common.Address{}, g.accts...), extra...)
	return all[g.r.Rng.Intn(len(all))]
}

func c11Alias(c common.Address, upper bool) string {
	h := c11Hex(c)
	if upper {
		return strings.ToUpper(h)
	}
	return h
}

func (g *c11Gen) history() {
	rng := g.r.Rng
	w := g.w
	g.do("reset")
	g.accts = []common.Address{
		common.HexToAddress("0x3f3f3f3f3f3f3f3f3f3f3f3f3f3f3f3f3f3f3f3f"), // its first contracts have addresses starting with a letter (valid alias denominations)
		common.HexToAddress("0x1111111111111111111111111111111111111111"),
		common.HexToAddress("0x00000000000000000000000000000000000000c3"),
		common.HexToAddress("0xffffffffffffffffffffffffffffffffffffffd4"),
	}
	for _, a := range g.accts {
		g.do("acct " + c11Hex(a))
	}
	g.do("acct " + c11Hex(common.Address{})) // tracked (ICS-20 receiver whose `mint` reverts), never a sender
	A1 := g.accts[0]
	for _, m := range []string{"evm", "transfer", "gov", "bonded_tokens_pool"} {
		g.do("block " + c11Hex(common.BytesToAddress(authtypes.NewModuleAddress(m))))
	}
	pool := []string{"acoin", "bcoin", c11Voucher("uatom"), "ccoin", "dcoin", "stake"}
	rng.Shuffle(len(pool), func(i, j int) { pool[i], pool[j] = pool[j], pool[i] })
	g.native = nil
	mint := func(d string) {
		for _, a := range g.accts {
			if rng.Intn(4) > 0 {
				amt := big.NewInt(int64(1 + rng.Intn(1000)))
				if rng.Intn(8) == 0 {
					amt = new(big.Int).Lsh(big.NewInt(1), uint(100+rng.Intn(150)))
				}
				g.do(fmt.Sprintf("mintcoin %s %s %s", c11Hex(a), hxs(d), amt))
			}
		}
		g.do(fmt.Sprintf("mintcoin %s %s 7", c11Hex(A1), hxs(d))) // supply > 0 is required for registration
		g.native = append(g.native, d)
	}
	// module-owned pairs
	nMod := 1 + rng.Intn(2)
	pi := 0
	for i := 0; i < nMod; i++ {
		k := 1 + rng.Intn(3)
		if i == 1 {
			k = 1 + rng.Intn(2)
		}
		seq, _ := w.app.AccountKeeper.GetSequence(w.ctx, authtypes.NewModuleAddress(aggtypes.ModuleName))
		c := crypto.CreateAddress(w.module, seq)
		for j := 0; j < k; j++ {
			d := pool[pi]
			pi++
			mint(d)
			if j == 0 {
				g.do(fmt.Sprintf("regcoin %s %s", hxs(d), c11Hex(c)))
			} else {
				g.do(fmt.Sprintf("addcoin %s %s", hxs(d), c11Hex(c)))
			}
		}
		g.r.Count(fmt.Sprintf("setup.modpair.%ddenoms", k))
	}
	if rng.Intn(3) == 0 { // an unregistered native denomination
		mint(pool[pi])
	}
	// external pairs
	extV := []string{c11Voucher("uosmo"), c11Voucher("ujuno")}
	kinds := []string{"mb"}
	if rng.Intn(2) == 0 {
		kinds = append(kinds, "mb")
	}
	if rng.Intn(2) == 0 {
		kinds = append(kinds, "dbm")
	}
	if rng.Intn(2) == 0 {
		kinds = append(kinds, "mal")
	}
	if rng.Intn(2) == 0 { // hand-assembled adversarial tokens (c11_dd_test.go)
		kinds = append(kinds, "dd")
	}
	if rng.Intn(3) == 0 {
		kinds = append(kinds, "fr")
	}
	if rng.Intn(5) < 3 { // the programmable token (c11_pg_test.go)
		kinds = append(kinds, "pg")
	}
	for _, k := range kinds {
		deployer := g.accts[rng.Intn(2)]
		seq, _ := w.app.AccountKeeper.GetSequence(w.ctx, deployer.Bytes())
		c := crypto.CreateAddress(deployer, seq)
		init := big.NewInt(0)
		if k == "dbm" || k == "mal" { // the preset tokens mint an initial supply to the deployer
			init = big.NewInt(int64(1000 + rng.Intn(100000)))
		}
		g.do(fmt.Sprintf("deploy %s %s %s %s", k, c11Hex(c), c11Hex(deployer), init))
		hasIbc := false
		if rng.Intn(8) > 0 {
			g.do(fmt.Sprintf("regerc20 %s %s", c11Hex(c), hxs(aggtypes.CreateDenom(c.String()))))
			// an external pair that also lists an IBC voucher (AddCoin does not look at the owner): the ICS-20 hook
			// then converts received vouchers into tokens out of the module's escrow
			if len(extV) > 0 && rng.Intn(5) < 2 {
				v := extV[0]
				extV = extV[1:]
				mint(v)
				g.do(fmt.Sprintf("addcoin %s %s", hxs(v), c11Hex(c)))
				g.r.Count("setup.extpair.ibc-denom." + k)
				hasIbc = true
			}
		}
		g.r.Count("setup.extpair." + k)
		for _, a := range g.accts {
			if rng.Intn(4) == 0 {
				continue
			}
			amt := big.NewInt(int64(1 + rng.Intn(1000)))
			if k == "mb" || k == "dd" || k == "fr" || k == "pg" {
				if rng.Intn(10) == 0 {
					amt = new(big.Int).Lsh(big.NewInt(1), uint(100+rng.Intn(150)))
				}
				g.do(fmt.Sprintf("tmint %s %s %s %s", c11Hex(c), c11Hex(deployer), c11Hex(a), amt))
			} else if a != deployer {
				g.do(fmt.Sprintf("ttransfer %s %s %s %s", c11Hex(c), c11Hex(deployer), c11Hex(a), amt))
			}
		}
		if k == "mb" && rng.Intn(12) == 0 { // an external token whose whole uint256 range is in one hand
			g.do(fmt.Sprintf("tmint %s %s %s %s", c11Hex(c), c11Hex(deployer), c11Hex(g.accts[2]),
				new(big.Int).Sub(c11MaxUint, w.callUint(w.ctx, c, "totalSupply"))))
		}
		if (hasIbc && rng.Intn(3) > 0) || (k == "pg" && rng.Intn(4) > 0) { // fund the module's token escrow so that hook conversions can succeed
			for _, a := range g.accts {
				if b := w.callUint(w.ctx, c, "balanceOf", a); b != nil && b.Cmp(big.NewInt(4)) > 0 && b.BitLen() < 64 {
					ra := sdk.AccAddress(a.Bytes()).String()
					g.doDump(fmt.Sprintf("ce %s %s %s %s %s %s", hxs("0x"+c11Hex(c)), new(big.Int).Rsh(b, 1), hxs(ra), c11DecField(ra), hxs("0x"+c11Hex(a)),
						hxs(aggtypes.CreateDenom(c.String()))))
					break
				}
			}
		}
		// watch the alias denominations of this contract
		g.do("watch " + hxs(c11Alias(c, false)))
	}
	for _, c := range w.contracts {
		if w.kinds[c] == "mb" && w.pairOf(w.ctx, c).owner == aggtypes.OWNER_MODULE {
			g.do("watch " + hxs(c11Alias(c, false)))
		}
	}
	g.do("dump")
	steps := 25 + rng.Intn(40)
	for s := 0; s < steps; s++ {
		g.stepOp()
	}
}

// denominations a message may name for the pair of contract c
func (g *c11Gen) denomChoices(c common.Address) []string {
	p := g.w.pairOf(g.w.ctx, c)
	var ds []string
	for i := 0; i < 24/(len(p.denoms)+1); i++ {
		ds = append(ds, p.denoms...)
	}
	if len(ds) == 0 {
		ds = append(ds, aggtypes.CreateDenom(c.String()))
	}
	ds = append(ds, c11Alias(c, false), c11Alias(c, true), "0x"+c11Hex(c), "zzz", "", g.pick(g.w.denoms), g.pick(g.w.denoms))
	return ds
}

func (g *c11Gen) stepOp() {
	rng := g.r.Rng
	w := g.w
	c := w.contracts[rng.Intn(len(w.contracts))]
	if g.force == nil && rng.Intn(4) == 0 { // the programmable token gets a quarter of the steps
		for _, x := range w.contracts {
			if w.kinds[x] == "pg" {
				c = x
			}
		}
	}
	if g.force != nil {
		c = *g.force
	} else if rng.Intn(100) < 6 {
		g.restartScenario()
		return
	} else if rng.Intn(100) < 3 {
		g.disabledPairScenario()
		return
	} else if rng.Intn(100) < 3 {
		g.moduleOffByKeyScenario()
		return
	}
	p := w.pairOf(w.ctx, c)
	if w.kinds[c] == "pg" && p.found {
		// arm the programmable token for this step: every combination of first / second reading behaviour and transfer
		// behaviour, with the amount that would make a zeroed first reading coincide (amount == escrow, == receiver balance)
		if rng.Intn(10) < 7 {
			m1, m2, xf := rng.Intn(5), rng.Intn(5), rng.Intn(8)
			if rng.Intn(3) == 0 {
				m1, xf = []int{1, 2, 4}[rng.Intn(3)], 2 // the "locked" token: failed first reading, transfer without effect
				m2 = 0
			}
			who := "-"
			switch rng.Intn(4) {
			case 0:
				who = c11Hex(w.module)
			case 1:
				who = c11Hex(g.anyAcct())
			}
			g.do(fmt.Sprintf("ctl %s %d %d %s %d", c11Hex(c), m1, m2, who, xf))
			g.pgAmt = w.callUint(w.ctx, c, "balanceOf", w.module)
			if rng.Intn(3) == 0 {
				g.pgAmt = w.callUint(w.ctx, c, "balanceOf", g.anyAcct())
			}
			defer func() {
				g.pgAmt = nil
				if rng.Intn(5) > 0 {
					g.doDump(fmt.Sprintf("ctl %s 0 0 - 0", c11Hex(c)))
				}
			}()
		}
	}
	if g.force == nil && rng.Intn(3) == 0 { // disabled things come back soon, so that histories do not die
		if !w.app.AggregateKeeper.GetParams(w.ctx).EnableAggregate {
			g.setModule(true)
		}
		if p.found && !p.enabled {
			g.doDump("toggle " + hxs("0x"+c11Hex(c)))
			p = w.pairOf(w.ctx, c)
		}
	}
	if rng.Intn(100) < 13 && g.force == nil {
		g.icsOp()
		return
	}
	switch x := rng.Intn(100); {
	case x < 38: // ConvertCoin
		d := g.pick(g.denomChoices(c))
		sender := g.anyAcct()
		if rng.Intn(5) > 1 { // mostly: somebody who holds the coin
			for _, a := range g.accts {
				if w.coinBal(w.ctx, a, d).Cmp(w.coinBal(w.ctx, sender, d)) > 0 {
					sender = a
				}
			}
		}
		if rng.Intn(25) == 0 {
			sender = c11Thief
		}
		recv := g.anyAcct()
		if rng.Intn(3) == 0 {
			recv = sender
		}
		if rng.Intn(15) == 0 {
			recv = g.anyAcct(w.module, common.BytesToAddress(authtypes.NewModuleAddress("evm")), common.BytesToAddress(authtypes.NewModuleAddress("gov")), common.BytesToAddress(authtypes.NewModuleAddress("distribution")), common.Address{}, c)
		}
		bal := w.coinBal(w.ctx, sender, d)
		if p.found && p.owner == aggtypes.OWNER_EXTERNAL && rng.Intn(4) == 0 {
			if b := w.callUint(w.ctx, c, "balanceOf", w.module); b != nil && b.Cmp(bal) < 0 {
				bal = b
			}
		}
		s := g.rawBech(sender)
		g.doDump(fmt.Sprintf("cc %s %s %s %s %s", hxs(s), c11DecField(s), hxs(g.rawAddr(recv)), hxs(d), g.amount(bal)))
	case x < 76: // ConvertERC20
		d := g.pick(g.denomChoices(c))
		sender := g.anyAcct()
		if rng.Intn(5) > 1 { // mostly: somebody who holds the token
			best := w.callUint(w.ctx, c, "balanceOf", sender)
			for _, a := range g.accts {
				if b := w.callUint(w.ctx, c, "balanceOf", a); b != nil && best != nil && b.Cmp(best) > 0 {
					sender, best = a, b
				}
			}
		}
		if rng.Intn(25) == 0 {
			sender = g.anyAcct(w.module, c11Thief)
		}
		recv := g.anyAcct()
		if rng.Intn(3) == 0 {
			recv = sender
		}
		if rng.Intn(15) == 0 {
			recv = g.anyAcct(w.module, common.BytesToAddress(authtypes.NewModuleAddress("evm")), common.BytesToAddress(authtypes.NewModuleAddress("distribution")))
		}
		bal := w.callUint(w.ctx, c, "balanceOf", sender)
		if p.found && p.owner == aggtypes.OWNER_MODULE && sdk.ValidateDenom(d) == nil && rng.Intn(3) == 0 {
			if b := w.coinBal(w.ctx, w.module, d); bal != nil && b.Cmp(bal) < 0 {
				bal = b
			}
		}
		rs := g.rawBech(recv)
		cc := c
		if rng.Intn(20) == 0 {
			cc = w.contracts[rng.Intn(len(w.contracts))]
		}
		g.doDump(fmt.Sprintf("ce %s %s %s %s %s %s", hxs(g.rawAddr(cc)), g.amount(bal), hxs(rs), c11DecField(rs), hxs(g.rawAddr(sender)), hxs(d)))
	case x < 82: // user ERC-20 transfer (also to the module address)
		from := g.anyAcct()
		to := g.anyAcct(w.module, c11Thief)
		a := g.amount(w.callUint(w.ctx, c, "balanceOf", from))
		g.doDump(fmt.Sprintf("ttransfer %s %s %s %s", c11Hex(c), c11Hex(from), c11Hex(to), a.Abs(a)))
	case x < 85: // user mint attempt (only the deployer of an external token succeeds)
		g.doDump(fmt.Sprintf("tmint %s %s %s %d", c11Hex(c), c11Hex(g.anyAcct()), c11Hex(g.anyAcct(w.module)), 1+rng.Intn(500)))
	case x < 90: // bank send
		d := g.pick(w.denoms)
		from := g.anyAcct()
		to := g.anyAcct(w.module)
		a := g.amount(w.coinBal(w.ctx, from, d))
		g.doDump(fmt.Sprintf("send %s %s %s %s", c11Hex(from), c11Hex(to), hxs(d), a.Abs(a)))
	case x < 93:
		if p.found {
			tok := "0x" + c11Hex(c)
			if rng.Intn(2) == 0 {
				tok = g.pick(p.denoms)
			}
			g.doDump("toggle " + hxs(tok))
		}
	case x < 95:
		if rng.Intn(3) == 0 {
			g.doDump(fmt.Sprintf("gov %s %d", hxs("EnableEVMHook"), rng.Intn(2))) // the other key, independently
		} else {
			g.setModule(rng.Intn(2) == 1)
		}
	case x < 97:
		if d := g.pick(w.denoms); sdk.ValidateDenom(d) == nil {
			g.doDump(fmt.Sprintf("sendenabled %s %d", hxs(d), rng.Intn(2)))
		}
	case x < 98:
		g.doDump("suicide " + c11Hex(c))
	default:
		// re-enable things so that histories do not die
		g.setModule(true)
		if p.found && !p.enabled {
			g.do("toggle " + hxs("0x"+c11Hex(c)))
		}
		g.do("dump")
	}
}

func TestC11(t *testing.T) {
	r := NewRec(t, "C11")
	defer r.Close()
	w := newC11World(t)
	g := &c11Gen{r: r, w: w}
	run := func(h []string) {
		for _, op := range h {
			r.Op(op, w.apply(r, op))
		}
	}
	if ops := replayOps(t); ops != nil {
		run(ops)
		return
	}
	for _, h := range corpusOps("C11") {
		run(append([]string{"reset"}, h...))
	}
	hist := 55
	if r.Tier == "thorough" {
		hist = 80
	}
	if n := envInt("VERIF_N", 0); n > 0 {
		hist = int(n)
	}
	for i := 0; i < hist; i++ {
		g.history()
		r.Nontrivial(strings.Join(w.hist, ";"))
	}
}

// an ICS-20 packet for one of three base denominations of the counterparty (their vouchers may be listed by a
// module-owned pair, by an external pair, or not at all)
func (g *c11Gen) icsOp() {
	rng := g.r.Rng
	w := g.w
	base := []string{"uatom", "uatom", "uosmo", "uosmo", "ujuno"}[rng.Intn(5)]
	if g.forceBase != "" {
		base = g.forceBase
	}
	v := c11Voucher(base)
	recv := c11Hex(g.anyAcct())
	switch x := rng.Intn(20); {
	case x < 3:
		recv = c11Hex(common.Address{})
	case x == 3:
		recv = c11Hex(g.anyAcct(w.module, common.BytesToAddress(authtypes.NewModuleAddress("evm"))))
	case x == 4:
		recv = c11Hex(c11Thief)
	case x == 5 && rng.Intn(2) == 0:
		recv = "!"
	}
	amt := big.NewInt(int64(1 + rng.Intn(400)))
	if p := w.resolve(w.ctx, v); p.found && p.owner == aggtypes.OWNER_MODULE && recv != "!" && rng.Intn(4) == 0 {
		recv = c11Hex(common.Address{}) // `mint` to the zero address reverts after the vouchers were escrowed
	}
	if p := w.resolve(w.ctx, v); p.found && p.owner == aggtypes.OWNER_EXTERNAL {
		if esc := w.callUint(w.ctx, p.addr, "balanceOf", w.module); esc != nil && esc.Sign() > 0 {
			switch rng.Intn(6) {
			case 0:
				amt = new(big.Int).Set(esc)
			case 1:
				amt = new(big.Int).Add(esc, big.NewInt(1))
			case 2, 3:
				amt = new(big.Int).Rand(rng, esc)
				amt.Add(amt, big.NewInt(1))
			}
		}
	}
	switch rng.Intn(40) {
	case 0:
		amt = big.NewInt(0)
	case 1:
		amt = big.NewInt(-3)
	case 2:
		amt = new(big.Int).Lsh(big.NewInt(1), 255)
	case 3:
		amt = new(big.Int).Set(c11MaxUint)
	}
	g.doDump(fmt.Sprintf("ics %s %s %s %s", recv, hxs(base), hxs(v), amt))
}

// the bech32 string a message names an account with: mostly the chain's prefix; also upper case, foreign prefixes,
// 32-byte and empty payloads, mixed case, broken checksums, a hex address, empty, garbage
func (g *c11Gen) rawBech(a common.Address) string {
	rng := g.r.Rng
	enc := func(hrp string, b []byte) string {
		s, err := bech32.ConvertAndEncode(hrp, b)
		if err != nil {
			panic(err)
		}
		return s
	}
	chain := sdk.GetConfig().GetBech32AccountAddrPrefix()
	good := enc(chain, a.Bytes())
	switch x := rng.Intn(100); {
	case x < 70:
		return good
	case x < 75:
		return strings.ToUpper(good)
	case x < 84:
		return enc([]string{"osmo", "cosmos", "evmos", chain + "valoper", "tele"}[rng.Intn(5)], a.Bytes())
	case x < 86:
		return strings.ToUpper(enc("osmo", a.Bytes()))
	case x < 89:
		return enc(chain, append(append([]byte{}, a.Bytes()...), a.Bytes()[:12]...)) // 32 bytes
	case x < 90:
		return enc("cosmos", append(append([]byte{}, a.Bytes()...), a.Bytes()[:12]...))
	case x < 91:
		return enc(chain, nil) // empty payload
	case x < 93:
		return strings.ToUpper(good[:len(chain)]) + good[len(chain):] // mixed case
	case x < 95:
		b := []byte(good)
		if b[len(b)-1] == 'q' {
			b[len(b)-1] = 'p'
		} else {
			b[len(b)-1] = 'q'
		}
		return string(b) // broken checksum
	case x < 96:
		return a.Hex()
	case x < 97:
		return ""
	case x < 98:
		return " "
	case x < 99:
		return chain + "1notbech32"
	default:
		return good + " "
	}
}

// restarts (genesis export / import of the module) at any point; mostly right after governance switched a pair's relay
// (and sometimes the whole module) off, followed by conversions in both directions and ICS-20 packets for that pair
func (g *c11Gen) restartScenario() {
	rng := g.r.Rng
	w := g.w
	if rng.Intn(5) < 2 {
		g.doDump("restart")
		return
	}
	var regs []common.Address
	for _, c := range w.contracts {
		if w.pairOf(w.ctx, c).found {
			regs = append(regs, c)
		}
	}
	if len(regs) == 0 {
		g.doDump("restart")
		return
	}
	c := regs[rng.Intn(len(regs))]
	p := w.pairOf(w.ctx, c)
	tok := "0x" + c11Hex(c)
	if rng.Intn(2) == 0 {
		tok = p.denoms[rng.Intn(len(p.denoms))]
	}
	if p.enabled {
		g.doDump("toggle " + hxs(tok))
	}
	moduleOff := rng.Intn(4) == 0
	if moduleOff {
		g.setModule(false)
	}
	g.doDump("restart")
	if rng.Intn(4) == 0 {
		g.doDump("restart")
	}
	if moduleOff && rng.Intn(2) == 0 {
		g.setModule(true)
	}
	g.force = &c
	for _, b := range []string{"uatom", "uosmo", "ujuno"} {
		for _, d := range p.denoms {
			if d == c11Voucher(b) {
				g.forceBase = b
			}
		}
	}
	for k := 2 + rng.Intn(3); k > 0; k-- {
		g.stepOp()
	}
	if g.forceBase != "" {
		g.icsOp()
		if rng.Intn(2) == 0 {
			g.icsOp()
		}
	}
	g.force, g.forceBase = nil, ""
	if moduleOff {
		g.setModule(true)
	}
	if rng.Intn(10) < 7 && w.pairOf(w.ctx, c).found && !w.pairOf(w.ctx, c).enabled {
		g.doDump("toggle " + hxs("0x"+c11Hex(c)))
		if rng.Intn(3) == 0 {
			g.doDump("restart")
			g.force = &c
			g.stepOp()
			g.force = nil
		}
	}
}

// the module-wide switch, the two ways it can be written: keeper.SetParams (what tests and genesis do) or a governance
// parameter change addressed BY KEY (the only way on a live chain)
func (g *c11Gen) setModule(on bool) {
	b := 0
	if on {
		b = 1
	}
	if g.r.Rng.Intn(2) == 0 {
		g.doDump(fmt.Sprintf("params %d", b))
	} else {
		g.doDump(fmt.Sprintf("gov %s %d", hxs("EnableAggregate"), b))
	}
}

// governance switches the module off by key (with the EVM-hook key at either value), optionally a restart, then
// conversions in both directions and ICS-20 packets for one registered pair; then on again
func (g *c11Gen) moduleOffByKeyScenario() {
	rng := g.r.Rng
	w := g.w
	var regs []common.Address
	for _, c := range w.contracts {
		if p := w.pairOf(w.ctx, c); p.found && p.enabled {
			regs = append(regs, c)
		}
	}
	if len(regs) == 0 {
		return
	}
	c := regs[rng.Intn(len(regs))]
	p := w.pairOf(w.ctx, c)
	g.doDump(fmt.Sprintf("gov %s %d", hxs("EnableEVMHook"), rng.Intn(2)))
	g.doDump(fmt.Sprintf("gov %s 0", hxs("EnableAggregate")))
	if rng.Intn(3) == 0 {
		g.doDump("restart")
	}
	g.force = &c
	for _, b := range []string{"uatom", "uosmo", "ujuno"} {
		for _, d := range p.denoms {
			if d == c11Voucher(b) {
				g.forceBase = b
			}
		}
	}
	for k := 2 + rng.Intn(3); k > 0; k-- {
		g.stepOp()
	}
	if g.forceBase != "" {
		g.icsOp()
	}
	g.force, g.forceBase = nil, ""
	if rng.Intn(4) == 0 {
		g.doDump(fmt.Sprintf("gov %s %d", hxs("EnableEVMHook"), rng.Intn(2)))
	}
	g.doDump(fmt.Sprintf("gov %s 1", hxs("EnableAggregate")))
}

// A pair governance switched OFF, then every other governance operation that rewrites / rebuilds / re-reads the pair,
// in random order — AddCoin of a fresh denomination, UpdateTokenPairERC20 to a fresh contract, a second toggle pair
// (on, off), RegisterCoin / RegisterERC20 attempts for what is registered already, parameter changes, restart — each
// followed by conversion attempts in both directions (old and newly added denominations) and ICS-20 packets.
func (g *c11Gen) disabledPairScenario() {
	rng := g.r.Rng
	w := g.w
	var regs []common.Address
	for _, c := range w.contracts {
		if w.pairOf(w.ctx, c).found {
			regs = append(regs, c)
		}
	}
	if len(regs) == 0 {
		return
	}
	cur := regs[rng.Intn(len(regs))]
	if rng.Intn(2) == 0 { // prefer the pairs UpdateTokenPairERC20 can re-point (name == sanitized name)
		for _, c := range regs {
			if k := w.kinds[c]; (k == "dd" || k == "fr" || k == "pg") && w.pairOf(w.ctx, c).owner == aggtypes.OWNER_EXTERNAL {
				cur = c
			}
		}
	}
	if rng.Intn(3) == 0 { // … or a pair that lists an IBC voucher (ICS-20 hook attempts)
		for _, c := range regs {
			for _, d := range w.pairOf(w.ctx, c).denoms {
				if strings.HasPrefix(d, "ibc/") {
					cur = c
				}
			}
		}
	}
	if !w.app.AggregateKeeper.GetParams(w.ctx).EnableAggregate {
		g.setModule(true)
	}
	if w.pairOf(w.ctx, cur).enabled {
		g.doDump("toggle " + hxs("0x"+c11Hex(cur)))
	}
	attempts := func() {
		p := w.pairOf(w.ctx, cur)
		if !p.found {
			return
		}
		g.force = &cur
		g.forceBase = ""
		for _, b := range []string{"uatom", "uosmo", "ujuno"} {
			for _, d := range p.denoms {
				if d == c11Voucher(b) {
					g.forceBase = b
				}
			}
		}
		for k := 2; k > 0; k-- {
			g.stepOp()
		}
		if g.forceBase != "" {
			g.icsOp()
		}
		g.force, g.forceBase = nil, ""
	}
	attempts()
	ops := []string{"addcoin", "update", "retoggle", "tryreg", "param", "restart"}
	rng.Shuffle(len(ops), func(i, j int) { ops[i], ops[j] = ops[j], ops[i] })
	for _, op := range ops[:2+rng.Intn(len(ops)-1)] {
		kind := w.kinds[cur]
		if !w.pairOf(w.ctx, cur).found {
			break
		}
		switch op {
		case "addcoin":
			g.fresh++
			d := fmt.Sprintf("nd%dcoin", g.fresh)
			for _, a := range g.accts[:2] {
				g.do(fmt.Sprintf("mintcoin %s %s %d", c11Hex(a), hxs(d), 50+rng.Intn(500)))
			}
			g.doDump(fmt.Sprintf("addcoin %s %s", hxs(d), c11Hex(cur)))
		case "update":
			deployer := g.accts[rng.Intn(2)]
			seq, _ := w.app.AccountKeeper.GetSequence(w.ctx, deployer.Bytes())
			nw := crypto.CreateAddress(deployer, seq)
			k := kind
			if k == "dbm" || k == "mal" {
				k = "mb"
			}
			g.do(fmt.Sprintf("deploy %s %s %s 0", k, c11Hex(nw), c11Hex(deployer)))
			metaOk := 0
			if (kind == "dd" || kind == "fr" || kind == "pg") && w.pairOf(w.ctx, cur).owner == aggtypes.OWNER_EXTERNAL {
				metaOk = 1
			}
			if g.doDump(fmt.Sprintf("update %s %s %d", c11Hex(cur), c11Hex(nw), metaOk)) == "ok" {
				cur = nw
			}
		case "retoggle":
			g.doDump("toggle " + hxs("0x"+c11Hex(cur)))
			if rng.Intn(3) == 0 {
				attempts() // enabled in between: conversions may go through
			}
			if p := w.pairOf(w.ctx, cur); p.found {
				g.doDump("toggle " + hxs(p.denoms[0]))
			}
		case "tryreg":
			if !w.pairOf(w.ctx, cur).found {
				continue
			}
			g.doDump("tryregcoin " + hxs(g.pick(w.pairOf(w.ctx, cur).denoms)))
			g.doDump("tryregerc20 " + c11Hex(cur))
		case "param":
			if rng.Intn(2) == 0 {
				g.setModule(false)
				g.setModule(true)
			} else {
				g.doDump(fmt.Sprintf("gov %s %d", hxs("EnableEVMHook"), rng.Intn(2)))
			}
		case "restart":
			g.doDump("restart")
		}
		attempts()
	}
	if rng.Intn(10) < 6 && w.pairOf(w.ctx, cur).found && !w.pairOf(w.ctx, cur).enabled {
		g.doDump("toggle " + hxs("0x"+c11Hex(cur)))
	}
}
