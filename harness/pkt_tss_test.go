//go:build c01 || c02 || c05

package verifharness

// TSS-secured counterparties and client lifecycle operations (governance proposals through the real proposal handler)
// of the C01 / C02 / C05 world.
//
//  * a pure TSS counterparty of chain 0 (created by CreateClientProposal; TSS address = account T, registered as relayer
//    for it): receives and acknowledgements signed by T and by others, with the proof field empty / = the TSS address /
//    random bytes;
//  * `toggle`: ToggleClientProposal switching an existing client (Tendermint of a real chain, BSC / ETH of an EVM
//    counterparty) to TSS and back; `upgrade`: UpgradeClientProposal (same kind, newer state);
//    both at any point of a history, followed by replays of earlier receives / acks valid for the new client.
//    A lifecycle operation on a client must not change packet state (`C01:client-op-moved-packet-state`).

import (
	"bytes"
	"fmt"
	"math/big"
	"strings"

	"github.com/ethereum/go-ethereum/common"
	"github.com/ethereum/go-ethereum/crypto"
	govtypes "github.com/cosmos/cosmos-sdk/x/gov/types"

	endpointcontract "github.com/teleport-network/teleport/syscontracts/xibc_endpoint"
	bsctypes "github.com/teleport-network/teleport/x/xibc/clients/light-clients/bsc/types"
	ethtypes "github.com/teleport-network/teleport/x/xibc/clients/light-clients/eth/types"
	xibctmtypes "github.com/teleport-network/teleport/x/xibc/clients/light-clients/tendermint/types"
	tsstypes "github.com/teleport-network/teleport/x/xibc/clients/tss-client/types"
	xibcclient "github.com/teleport-network/teleport/x/xibc/core/client"
	clienttypes "github.com/teleport-network/teleport/x/xibc/core/client/types"
	commitmenttypes "github.com/teleport-network/teleport/x/xibc/core/commitment/types"
	"github.com/teleport-network/teleport/x/xibc/core/host"
	packettypes "github.com/teleport-network/teleport/x/xibc/core/packet/types"
	"github.com/teleport-network/teleport/x/xibc/exported"
	xibctesting "github.com/teleport-network/teleport/x/xibc/testing"
)

type pktTss struct {
	name  string
	host  *pktChain
	inSeq uint64
	in    []*pktEvmPacket
	out   []*pktEvmPacket
}

// proposal runs a governance proposal content the way gov's EndBlocker does: ValidateBasic was done at submission,
// the handler runs on a cache context that is written back only on success.
func (w *pktWorld) proposal(c *pktChain, content govtypes.Content) error {
	if err := content.ValidateBasic(); err != nil {
		return err
	}
	ctx := c.tc.GetContext()
	cctx, write := ctx.CacheContext()
	var err error
	if pan, msg := safely(func() {
		err = xibcclient.NewClientProposalHandler(c.tc.App.XIBCKeeper.ClientKeeper)(cctx, content)
	}); pan {
		return fmt.Errorf("panic: %s", msg)
	}
	if err == nil {
		write()
	}
	return err
}

func (c *pktChain) tssClientState() *tsstypes.ClientState {
	return &tsstypes.ClientState{TssAddress: c.tssAddr(), Pubkey: bytes.Repeat([]byte{2}, 33),
		PartPubkeys: [][]byte{bytes.Repeat([]byte{3}, 33), bytes.Repeat([]byte{4}, 33)}, Threshold: 2}
}

// addTss creates a pure TSS-secured counterparty of hostC through a CreateClientProposal.
func (w *pktWorld) addTss(hostC *pktChain, name string) *pktTss {
	p, err := clienttypes.NewCreateClientProposal("t", "d", name, hostC.tssClientState(), &tsstypes.ConsensusState{})
	if err != nil {
		w.t.Fatal(err)
	}
	if err := w.proposal(hostC, p); err != nil {
		w.t.Fatalf("create tss client: %v", err)
	}
	hostC.kind[name] = "tss"
	hostC.setTss(name, pktT)
	w.op(fmt.Sprintf("client %s %s tss 0 0 - 0 0 0 %s", hxs(hostC.name), hxs(name), hxs(hostC.tssAddr())), "ok")
	// a token bound to the TSS chain's base token
	tc := hostC.tc
	ctx := tc.GetContext()
	ctorArgs, _ := erc20Ctor()
	nonce := tc.App.EvmKeeper.GetNonce(ctx, endpointcontract.EndpointContractAddress)
	a := crypto.CreateAddress(endpointcontract.EndpointContractAddress, nonce)
	if res, err := tc.App.AggregateKeeper.CallEVMWithData(ctx, endpointcontract.EndpointContractAddress, nil, ctorArgs); err != nil || res.Failed() {
		w.t.Fatalf("deploy erc20 for %s: %v", name, err)
	}
	if err := tc.App.AggregateKeeper.RegisterERC20Trace(ctx, a, strings.ToLower(common.Address{}.String()), name, uint8(0)); err != nil {
		w.t.Fatal(err)
	}
	ts := &pktTss{name: name, host: hostC, inSeq: 1}
	w.tsss = append(w.tsss, ts)
	w.commit(hostC)
	return ts
}

// ---------------------------------------------------------------------------------------------
// lifecycle operations

// clientOpObserve records a toggle / upgrade op and evaluates the packet-state oracle.
func (w *pktWorld) clientOpObserve(c *pktChain, opk, name, kind string, h clienttypes.Height, root []byte, pt, delayTime, delayBlock uint64, tss string, err error) {
	delta, before, after := c.observe()
	w.stepOracle(before, after, "")
	r := "ok"
	if err != nil {
		r = "err"
	}
	w.op(fmt.Sprintf("%s %s %s %s %d %d %s %d %d %d %s", opk, hxs(c.name), hxs(name), kind, h.RevisionNumber, h.RevisionHeight, hx(root),
		pt, delayTime, delayBlock, hxs(tss)), r+" "+delta)
	w.r.Count(opk + "." + kind + "." + r)
	if delta != "-" {
		w.r.Find(Finding{Sig: "C01:client-op-moved-packet-state:" + opk, What: "a lifecycle operation on a client (toggle / upgrade proposal) changed receipts / acknowledgements / commitments / send sequences",
			Ops: append([]string{}, w.hist...), Obs: delta, Req: "-"})
	}
}

// nativeState builds the client + consensus state of the client's native kind at the counterparty's current state.
func (w *pktWorld) nativeState(c *pktChain, name string) (kind string, cs exported.ClientState, cons exported.ConsensusState, h clienttypes.Height, root []byte, delayTime, delayBlock uint64, ok bool) {
	if of := c.track[name]; of != nil {
		w.commit(of)
		hdr := of.tc.LastHeader
		h = hdr.GetHeight().(clienttypes.Height)
		cs = xibctmtypes.NewClientState(of.tc.ChainID, xibctesting.DefaultTrustLevel, xibctesting.TrustingPeriod,
			xibctesting.UnbondingPeriod, xibctesting.MaxClockDrift, h, commitmenttypes.GetSDKSpecs(), xibctesting.Prefix, 0)
		c0 := hdr.ConsensusState()
		return "tm", cs, c0, h, c0.GetRoot(), 0, 0, true
	}
	if ev := w.evmBy[c.name+"|"+name]; ev != nil {
		ev.head++
		st := ev.seal(ev.head)
		h = clienttypes.NewHeight(0, ev.head)
		switch ev.kind {
		case "bsc":
			hdr := bsctypes.Header{Height: h, Root: st.root.Bytes(), Difficulty: []byte{2}, Extra: make([]byte, 32+65),
				UncleHash: common.HexToHash("0x1dcc4de8dec75d7aab85b567b6ccd41ad312451b948a7413f0a142fd40d49347").Bytes(), Time: ev.head}
			cs = &bsctypes.ClientState{Header: hdr, ChainId: 56, Epoch: 200, BlockInteval: 3,
				Validators: [][]byte{bytes.Repeat([]byte{1}, 20), bytes.Repeat([]byte{2}, 20), bytes.Repeat([]byte{3}, 20)},
				ContractAddress: ev.contract, TrustingPeriod: 1 << 40}
			cons = &bsctypes.ConsensusState{Timestamp: ev.head, Height: h, Root: st.root.Bytes()}
		default:
			hdr := ethtypes.Header{Height: h, Root: st.root.Bytes(), Difficulty: []byte{2}, Time: ev.head, GasLimit: 10, GasUsed: 1}
			cs = &ethtypes.ClientState{Header: hdr, ChainId: 1, ContractAddress: ev.contract, TrustingPeriod: 1 << 40, BlockDelay: ev.delay}
			cons = &ethtypes.ConsensusState{Timestamp: ev.head, Height: h, Root: st.root.Bytes()}
		}
		return ev.kind, cs, cons, h, st.root.Bytes(), 0, ev.delay, true
	}
	return "", nil, nil, h, nil, 0, 0, false
}

// toggle switches client `name` of chain c to TSS (toTss) or back to its native kind, through a ToggleClientProposal.
// wrongKind: propose the kind the client already has (must be refused).
func (w *pktWorld) toggle(c *pktChain, name string, toTss bool) bool {
	var content govtypes.Content
	var err error
	pt := uint64(c.tc.GetContext().BlockTime().UnixNano())
	if toTss {
		content, err = clienttypes.NewToggleClientProposal("t", "d", name, c.tssClientState(), &tsstypes.ConsensusState{})
		if err != nil {
			w.t.Fatal(err)
		}
		perr := w.proposal(c, content)
		if perr == nil {
			c.kind[name] = "tss"
			c.tssEver[name] = nil // a new client: nobody is "retired" with respect to it
			c.setTss(name, pktT)
		}
		w.clientOpObserve(c, "toggle", name, "tss", clienttypes.Height{}, nil, pt, 0, 0, c.tssAddr(), perr)
		return perr == nil
	}
	kind, cs, cons, h, root, dt, db, ok := w.nativeState(c, name)
	if !ok {
		return false
	}
	pt = uint64(c.tc.GetContext().BlockTime().UnixNano())
	content, err = clienttypes.NewToggleClientProposal("t", "d", name, cs, cons)
	if err != nil {
		w.t.Fatal(err)
	}
	perr := w.proposal(c, content)
	if perr == nil {
		c.kind[name] = kind
	}
	w.clientOpObserve(c, "toggle", name, kind, h, root, pt, dt, db, "", perr)
	return perr == nil
}

// upgrade: UpgradeClientProposal with a state of the kind the client currently has (same: true) or of another kind
// (must be refused).
func (w *pktWorld) upgrade(c *pktChain, name string, same bool) bool {
	cur := c.kind[name]
	wantTss := (cur == "tss") == same
	pt := uint64(c.tc.GetContext().BlockTime().UnixNano())
	if wantTss {
		content, err := clienttypes.NewUpgradeClientProposal("t", "d", name, c.tssClientState(), &tsstypes.ConsensusState{})
		if err != nil {
			w.t.Fatal(err)
		}
		perr := w.proposal(c, content)
		if perr == nil {
			c.setTss(name, pktT)
		}
		w.clientOpObserve(c, "upgrade", name, "tss", clienttypes.Height{}, nil, pt, 0, 0, c.tssAddr(), perr)
		return perr == nil
	}
	kind, cs, cons, h, root, dt, db, ok := w.nativeState(c, name)
	if !ok {
		return false
	}
	pt = uint64(c.tc.GetContext().BlockTime().UnixNano())
	content, err := clienttypes.NewUpgradeClientProposal("t", "d", name, cs, cons)
	if err != nil {
		w.t.Fatal(err)
	}
	perr := w.proposal(c, content)
	w.clientOpObserve(c, "upgrade", name, kind, h, root, pt, dt, db, "", perr)
	return perr == nil
}

// ---------------------------------------------------------------------------------------------
// traffic with the pure TSS counterparty

func (w *pktWorld) tssPacket(ts *pktTss, seq uint64, amount int64) *pktEvmPacket {
	hostC := ts.host
	amt := make([]byte, 32)
	big.NewInt(amount).FillBytes(amt)
	td := packettypes.TransferData{Receiver: strings.ToLower(hostC.tc.SenderAddress.String()), Amount: amt,
		Token: strings.ToLower(common.Address{}.String()), OriToken: ""}
	tdBz, _ := td.ABIPack()
	p := packettypes.Packet{SrcChain: ts.name, DstChain: hostC.name, Sequence: seq, Sender: strings.ToLower(hostC.tc.SenderAddress.String()),
		TransferData: tdBz, CallData: []byte{}, CallbackAddress: common.Address{}.String(), FeeOption: 0}
	bz, _ := p.ABIPack()
	return &pktEvmPacket{bz: bz, p: p, slot: host.PacketCommitmentKey(p.SrcChain, p.DstChain, p.Sequence)}
}

func (c *pktChain) setTss(name string, acct int) {
	c.tssCur[name] = acct
	if c.tssEver[name] == nil {
		c.tssEver[name] = map[int]bool{}
	}
	c.tssEver[name][acct] = true
}

// rotate delivers a MsgUpdateClient for the TSS client `name` of chain c that names account `to` as the new TSS address,
// signed by account `signer` (accepted iff the signer is the current TSS address and a registered relayer for `name`).
// wrongHeader: carry a Tendermint header instead (refused).
func (w *pktWorld) rotate(c *pktChain, name string, to, signer int, tag string) bool {
	hdr := &tsstypes.Header{TssAddress: c.accts[to].addr.String(), Pubkey: bytes.Repeat([]byte{byte(5 + to)}, 33),
		PartPubkeys: [][]byte{bytes.Repeat([]byte{3}, 33), bytes.Repeat([]byte{4}, 33)}, Threshold: 2}
	msg, err := clienttypes.NewMsgUpdateClient(name, hdr, c.accts[signer].addr)
	if err != nil {
		w.t.Fatal(err)
	}
	now := c.now()
	_, derr := w.deliverMsgs(c, signer, msg)
	ud, ub, ua := c.observe()
	w.stepOracle(ub, ua, "")
	if ud != "-" {
		w.r.Find(Finding{Sig: "pkt:update-client-changed-packet-store", What: "MsgUpdateClient changed the packet stores",
			Ops: append([]string{}, w.hist...), Obs: ud, Req: "-"})
	}
	res := "ok"
	if derr != nil {
		res = "err"
	} else {
		c.setTss(name, to) // own record: the address named by the last ACCEPTED update
	}
	stored := "none"
	if cs, found := c.tc.App.XIBCKeeper.ClientKeeper.GetClientState(c.tc.GetContext(), name); found {
		if t, isTss := cs.(*tsstypes.ClientState); isTss {
			stored = hxs(t.TssAddress)
		}
	}
	w.op(fmt.Sprintf("update %s %d %s 0 0 %s %s 1", hxs(c.name), now, hxs(name), hxs(c.accts[to].addr.String()), hxs(c.accts[signer].addr.String())),
		res+" L=0-0 V="+stored)
	w.r.Count("rotate." + tag + "." + res)
	if derr == nil && stored != hxs(c.accts[to].addr.String()) {
		w.r.Find(Finding{Sig: "C05:tss-rotation-accepted-not-stored", What: "an accepted MsgUpdateClient of a TSS client must leave the address it names as the client's TSS address",
			Ops: append([]string{}, w.hist...), Obs: stored, Req: hxs(c.accts[to].addr.String())})
	}
	return derr == nil
}
