//go:build c06

package verifharness

// C06 — op `genesis …`: the xibc module of T is (re)started from a genesis DOCUMENT — possibly valid but adversarial —
// through the real stateless validation (AppModuleBasic.ValidateGenesis → GenesisState.Validate) and the real
// AppModule.InitGenesis on a wiped store. "Who is configured" is then what the VALIDATED sections say.
//
//   genesis <class> <native> C <n> {<chain> tss|oth <addrOK> <addr>}  S <p> {<chain> <height> <id>}
//           M <m> {<chain> cstss <addr> - | <chain> csoth - <id> | <chain> cons <height> <id> | <chain> raw <key> <id>}
//           R <k> {<addr> <nc> <chain>* <na> <oaddr>*}
//   -> ok K:<chain=t:addr|chain=o …> G:<registry> | invalid
// C = the `clients` section (TSS client states are built from the line; `oth` = the honest exported Tendermint client of
// that chain, with its honest consensus states and metadata), S = the `clients_consensus` section (informative: the
// honest one), M = ADDITIONAL `clients_metadata` entries (cstss: key `clientState`, value = a marshalled TSS client state
// naming <addr>; csoth: key `clientState`, value = the marshalled client state of Tendermint counterparty <id>;
// cons: key `consensusStates/<rev>-<height>`, value = the latest consensus state of counterparty <id>; raw: any other
// key), R = the `relayers` section.

import (
	"fmt"
	"strconv"
	"strings"

	sdk "github.com/cosmos/cosmos-sdk/types"

	"github.com/teleport-network/teleport/x/xibc"
	tsstypes "github.com/teleport-network/teleport/x/xibc/clients/tss-client/types"
	clienttypes "github.com/teleport-network/teleport/x/xibc/core/client/types"
	"github.com/teleport-network/teleport/x/xibc/core/host"
	"github.com/teleport-network/teleport/x/xibc/exported"
	xibcmodule "github.com/teleport-network/teleport/x/xibc/module"
)

func (w *c06World) tmByID(id string) *c06Src {
	if id == "2" {
		for name, s := range w.srcs {
			if name != w.S.ChainID {
				return s
			}
		}
	}
	return w.srcs[w.S.ChainID]
}

func (w *c06World) applyGenesis(r *Rec, f []string) string {
	T := w.T
	us := func(x string) string { return string(unhx(x)) }
	if len(f) < 5 || f[3] != "C" {
		return "bad-op"
	}
	class, native := f[1], us(f[2])
	pos := 4
	num := func() int { n, _ := strconv.Atoi(f[pos]); pos++; return n }
	w.coord.CommitBlock(T)
	ctx := T.GetContext()
	honest := xibc.ExportGenesis(ctx, *T.App.XIBCKeeper)
	cdc := T.App.AppCodec()
	gs := *honest
	cg := honest.ClientGenesis
	cg.NativeChainName = native
	// ---- clients section
	type cfg struct{ chain, kind, addr string }
	var listed []cfg
	var clients clienttypes.IdentifiedClientStates
	keepChain := map[string]bool{}
	for i, n := 0, num(); i < n; i++ {
		chain, kind, okFlag, addr := us(f[pos]), f[pos+1], f[pos+2], us(f[pos+3])
		pos += 4
		switch kind {
		case "tss":
			if _, err := sdk.AccAddressFromBech32(addr); (err == nil) != (okFlag == "1") {
				return "flag-mismatch"
			}
			clients = append(clients, clienttypes.NewIdentifiedClientState(chain, &tsstypes.ClientState{TssAddress: addr}))
		case "oth":
			found := false
			for _, c := range honest.ClientGenesis.Clients {
				if c.ChainName == chain {
					if cs, ok := c.ClientState.GetCachedValue().(exported.ClientState); ok && cs.ClientType() == exported.Tendermint {
						clients, found = append(clients, c), true
					}
				}
			}
			if !found {
				return "bad-op"
			}
		default:
			return "bad-op"
		}
		keepChain[chain] = true
		listed = append(listed, cfg{chain, kind, addr})
	}
	cg.Clients = clients
	// honest consensus states / metadata of the listed chains only (Validate refuses the others)
	cg.ClientsConsensus = nil
	for _, cc := range honest.ClientGenesis.ClientsConsensus {
		if keepChain[cc.ChainName] {
			cg.ClientsConsensus = append(cg.ClientsConsensus, cc)
		}
	}
	cg.ClientsMetadata = nil
	for _, md := range honest.ClientGenesis.ClientsMetadata {
		if keepChain[md.ChainName] {
			cg.ClientsMetadata = append(cg.ClientsMetadata, md)
		}
	}
	if f[pos] != "S" {
		return "bad-op"
	}
	pos++
	pos += 3 * num() // informative
	if f[pos] != "M" {
		return "bad-op"
	}
	pos++
	for i, n := 0, num(); i < n; i++ {
		chain, kind, a, b := us(f[pos]), f[pos+1], f[pos+2], f[pos+3]
		pos += 4
		var key, val []byte
		switch kind {
		case "cstss":
			key, val = host.ClientStateKey(), clienttypes.MustMarshalClientState(T.App.AppCodec(), &tsstypes.ClientState{TssAddress: us(a)})
		case "csoth":
			src := w.tmByID(b)
			key, val = host.ClientStateKey(), clienttypes.MustMarshalClientState(T.App.AppCodec(), T.GetClientState(src.chain.ChainID))
		case "cons":
			src := w.tmByID(b)
			h, _ := strconv.ParseUint(a, 10, 64)
			lat := T.GetClientState(src.chain.ChainID).GetLatestHeight()
			consState, _ := T.GetConsensusState(src.chain.ChainID, lat)
			rev := uint64(0)
			if own, ok := w.srcs[chain]; ok {
				rev = T.GetClientState(own.chain.ChainID).GetLatestHeight().GetRevisionNumber()
			}
			key, val = host.ConsensusStateKey(clienttypes.NewHeight(rev, h)), clienttypes.MustMarshalConsensusState(T.App.AppCodec(), consState)
		case "raw":
			key, val = unhx(a), []byte("c06-"+b)
			// an opaque key no client type knows: no ExportMetadata re-exports it (it is dropped by the next restart) —
			// the restart oracle must not count the harness' own junk as lost state
			if w.junkKeys == nil {
				w.junkKeys = map[string]bool{}
			}
			w.junkKeys[string(host.FullClientKey(chain, key))] = true
		default:
			return "bad-op"
		}
		cg.ClientsMetadata = append(cg.ClientsMetadata, clienttypes.IdentifiedGenesisMetadata{ChainName: chain, Metadata: []clienttypes.GenesisMetadata{clienttypes.NewGenesisMetadata(key, val)}})
	}
	if f[pos] != "R" {
		return "bad-op"
	}
	pos++
	cg.Relayers = nil
	docReg := map[string]c06Reg{}
	for i, n := 0, num(); i < n; i++ {
		addr := us(f[pos])
		pos++
		var chains, addrs []string
		for j, m := 0, num(); j < m; j++ {
			chains = append(chains, us(f[pos]))
			pos++
		}
		for j, m := 0, num(); j < m; j++ {
			addrs = append(addrs, us(f[pos]))
			pos++
		}
		cg.Relayers = append(cg.Relayers, clienttypes.IdentifiedRelayer{Address: addr, Chains: append([]string{}, chains...), Addresses: append([]string{}, addrs...)})
		docReg[addr] = c06Reg{chains, addrs} // a later entry of the same address replaces the earlier one
	}
	if pos != len(f) {
		return "bad-op"
	}
	gs.ClientGenesis = cg
	r.Count("genesis")
	r.Count("genesis.class." + class)
	bz, err := cdc.MarshalJSON(&gs)
	if err != nil {
		return "bad-op"
	}
	if err := (xibcmodule.AppModuleBasic{}).ValidateGenesis(cdc, T.TxConfig, bz); err != nil {
		r.Count("genesis.invalid")
		return "invalid"
	}
	failure := ""
	if pan, msg := safely(func() {
		st := ctx.KVStore(T.App.GetKey(host.StoreKey))
		var keys [][]byte
		it := st.Iterator(nil, nil)
		for ; it.Valid(); it.Next() {
			keys = append(keys, append([]byte{}, it.Key()...))
		}
		it.Close()
		for _, k := range keys {
			st.Delete(k)
		}
		xibcmodule.NewAppModule(T.App.XIBCKeeper).InitGenesis(ctx, cdc, bz)
	}); pan {
		failure = msg
	}
	if failure != "" {
		w.find(r, "C06:genesis-that-validates-cannot-be-imported", "a genesis document that passes Validate() makes InitGenesis panic", c06Clip(failure), "import succeeds")
		return "err"
	}
	w.coord.CommitBlock(T)
	r.Count("genesis.imported")
	w.genClass = class
	// ---- the oracle's own reading of the document: validated sections only
	w.tssCfg = map[string]string{}
	for _, c := range listed {
		if c.kind == "tss" {
			w.tssCfg[c.chain] = c.addr
		} else {
			delete(w.tssCfg, c.chain)
		}
	}
	w.lastReg = docReg
	w.dryRegs = nil
	// ---- what the store holds afterwards
	var ks []string
	seen := map[string]bool{}
	for _, c := range listed {
		if seen[c.chain] {
			continue
		}
		seen[c.chain] = true
		cs, found := w.clientOf(c.chain)
		switch {
		case !found:
			ks = append(ks, hxs(c.chain)+"=?")
		case cs.ClientType() == exported.TSS:
			got := cs.(*tsstypes.ClientState).TssAddress
			ks = append(ks, hxs(c.chain)+"=t:"+hxs(got))
			if want, isTss := w.tssCfg[c.chain]; !isTss || got != want {
				w.find(r, "C06:configured-account-after-genesis-is-not-the-clients-section:genesis-"+class, "after the start from a valid genesis document the TSS client names another account than the validated clients section",
					strconv.Quote(got), strconv.Quote(want))
			}
		default:
			ks = append(ks, hxs(c.chain)+"=o")
			if _, isTss := w.tssCfg[c.chain]; isTss {
				w.find(r, "C06:configured-account-after-genesis-is-not-the-clients-section:genesis-"+class, "client type after import differs from the clients section", cs.ClientType(), "tss")
			}
		}
	}
	k := "-"
	if len(ks) > 0 {
		k = strings.Join(ks, "|")
	}
	return "ok K:" + k + " G:" + w.regDump()
}

var _ = fmt.Sprint
