//go:build c14

package verifharness

// C14 — replica differential: a node's result for a block may depend ONLY on (committed state, block).
//
// The twin replay compares two processes with the SAME process history. Here two nodes with the same committed
// state but DIFFERENT process histories are fed the identical next block:
//
//   node 2  = a fresh app instance opened on a copy of node 1's committed database (a node that has just
//             restarted / state-synced: every keeper, memo, cache of the Go process is new);
//   node 1  = the live app that executed the whole history (kind `live`), or another fresh fork on which
//             executions that are DISCARDED ran first:
//               simulate  BaseApp.Simulate of the block's own transactions (gas estimation)
//               checktx   CheckTx of the transactions (mempool)
//               cache     the client update run on a cache context that is dropped
//               query     a gRPC query of the client state at an old height
//               reverted  (live) the previous block carried [MsgUpdateClient, failing MsgSend]: rolled back as a whole
//
// Oracle: DeliverTx code / codespace / gas / data / events / log, EndBlock events and the app hash after Commit are
// identical on both nodes. Lean (Model/Determinism.lean, `Replica`): the model's step takes only (committed, block);
// `discard_frame` + `replicas_agree` prove the agreement for all histories of block / fork / discarded executions.

import (
	"encoding/hex"
	"encoding/json"
	"fmt"
	"os"
	"strings"
	"testing"

	abci "github.com/tendermint/tendermint/abci/types"
	"github.com/tendermint/tendermint/libs/log"
	tmproto "github.com/tendermint/tendermint/proto/tendermint/types"
	dbm "github.com/tendermint/tm-db"

	"github.com/cosmos/cosmos-sdk/baseapp"
	"github.com/cosmos/cosmos-sdk/simapp"
	"github.com/cosmos/cosmos-sdk/store"
	sdk "github.com/cosmos/cosmos-sdk/types"
	banktypes "github.com/cosmos/cosmos-sdk/x/bank/types"

	"github.com/ethereum/go-ethereum/crypto"
	"github.com/tharsis/ethermint/encoding"

	"github.com/teleport-network/teleport/app"
	clienttypes "github.com/teleport-network/teleport/x/xibc/core/client/types"
	"github.com/teleport-network/teleport/x/xibc/exported"
	xibctesting "github.com/teleport-network/teleport/x/xibc/testing"
)

type c14Rep struct {
	t     *testing.T
	r     *Rec
	coord *xibctesting.Coordinator
	a, b  *xibctesting.TestChain
	dbs   map[*app.Teleport]dbm.DB
	live  *app.Teleport // the long-lived node: a fork of chain A driven block by block through ABCI only
	n     int
}

func c14NewApp(db dbm.DB) *app.Teleport {
	return app.NewTeleport(log.NewNopLogger(), db, nil, true, map[int64]bool{}, app.DefaultNodeHome, 5, encoding.MakeConfig(app.ModuleBasics), simapp.EmptyAppOptions{})
}

// c14AppOpts: an operator's app.toml / command line as servertypes.AppOptions
type c14AppOpts map[string]interface{}

func (o c14AppOpts) Get(k string) interface{} { return o[k] }

// c14NewAppConfigured: the same application as a node whose operator tuned everything that is meant to be node-local:
// JSON-RPC gas cap, EVM tracer, max-tx-gas-wanted, API / gRPC toggles, minimum gas prices, event indexing, inter-block
// cache, IAVL cache size, invariant-check period, skip-genesis-invariants, another home directory.
// (not varied: pruning — the harness needs old versions for proofs; --trace — it changes the ABCI log, which is compared)
func c14NewAppConfigured(db dbm.DB) *app.Teleport {
	opts := c14AppOpts{
		"json-rpc.gas-cap": uint64(1_000_000), "json-rpc.enable": true, "json-rpc.evm-timeout": "1s", "json-rpc.txfee-cap": 0.01,
		"evm.tracer": "struct", "evm.max-tx-gas-wanted": uint64(500_000),
		"api.enable": true, "api.swagger": true, "grpc.enable": false, "grpc-web.enable": false,
		"minimum-gas-prices": "0.25stake", "iavl-cache-size": 7, "inter-block-cache": true, "index-events": []string{"message.sender"},
		"x-crisis-skip-assert-invariants": true, "telemetry.enabled": false, "halt-height": 0, "min-retain-blocks": 3,
	}
	return app.NewTeleport(log.NewNopLogger(), db, nil, true, map[int64]bool{}, "/nonexistent/c14-node-home", 1, encoding.MakeConfig(app.ModuleBasics), opts,
		baseapp.SetMinGasPrices("0.25stake"), baseapp.SetIndexEvents([]string{"message.sender"}), baseapp.SetIAVLCacheSize(7),
		baseapp.SetInterBlockCache(store.NewCommitKVStoreCacheManager()), baseapp.SetMinRetainBlocks(3))
}

func newC14Rep(t *testing.T, r *Rec) *c14Rep {
	p := &c14Rep{t: t, r: r, dbs: map[*app.Teleport]dbm.DB{}}
	old := xibctesting.DefaultTestingAppInit
	xibctesting.DefaultTestingAppInit = func() (*app.Teleport, map[string]json.RawMessage) {
		db := dbm.NewMemDB()
		a := c14NewApp(db)
		p.dbs[a] = db
		return a, app.NewDefaultGenesisState()
	}
	defer func() { xibctesting.DefaultTestingAppInit = old }()
	p.coord = xibctesting.NewCoordinator(t, 2)
	p.a = p.coord.GetChain(xibctesting.GetChainID(0))
	p.b = p.coord.GetChain(xibctesting.GetChainID(1))
	path := xibctesting.NewPath(p.a, p.b)
	p.coord.SetupClients(path)
	// a few real client updates: the live node's process state is warm
	for i := 0; i < 2; i++ {
		if err := path.EndpointA.UpdateClient(); err != nil {
			t.Fatalf("replica setup: %v", err)
		}
	}
	p.live = p.fork(p.a.App)
	return p
}

func c14CommittedCtx(n *app.Teleport) sdk.Context {
	return n.BaseApp.NewContext(true, tmproto.Header{Height: n.LastBlockHeight()})
}

// nextHeader: the header of the live node's next block (one BeginBlock per block, unlike the xibctesting scaffolding)
func (p *c14Rep) nextHeader(n *app.Teleport) tmproto.Header {
	p.coord.IncrementTime()
	return tmproto.Header{ChainID: p.a.ChainID, Height: n.LastBlockHeight() + 1, Time: p.coord.CurrentTime.UTC(), AppHash: n.LastCommitID().Hash,
		ValidatorsHash: p.a.Vals.Hash(), NextValidatorsHash: p.a.Vals.Hash(), ProposerAddress: p.a.Vals.Proposer.Address}
}

// fork opens a fresh app instance on a copy of the committed database of src.
func (p *c14Rep) fork(src *app.Teleport) *app.Teleport { return p.forkCfg(src, false) }

// forkCfg: configured = the fork is opened by a node with another app.toml (c14NewAppConfigured)
func (p *c14Rep) forkCfg(src *app.Teleport, configured bool) *app.Teleport {
	db := p.dbs[src]
	cp := dbm.NewMemDB()
	it, err := db.Iterator(nil, nil)
	if err != nil {
		p.t.Fatal(err)
	}
	for ; it.Valid(); it.Next() {
		_ = cp.Set(append([]byte{}, it.Key()...), append([]byte{}, it.Value()...))
	}
	it.Close()
	n := c14NewApp(cp)
	if configured {
		n = c14NewAppConfigured(cp)
	}
	p.dbs[n] = cp
	return n
}

type c14BlockResult struct {
	digest string
	ok     int
	failed int
}

func c14RespDigest(kind string, res abci.ResponseDeliverTx) string {
	return fmt.Sprintf("%s:c%d:%s:g%d:d%s:e%s:l%s", kind, res.Code, res.Codespace+"-", res.GasUsed, c14Digest(res.Data), c14Events(res.Events), c14Digest([]byte(res.Log)))
}

// runBlock feeds one block to a node through ABCI and returns the digest of everything a node reports.
func c14RunBlock(n *app.Teleport, hdr tmproto.Header, txs [][]byte) c14BlockResult {
	return c14RunBlockVia(n, hdr, txs, false)
}

// via = true: DeliverTx / EndBlock reached through the ABCI local client below extra stack frames (another call path)
func c14RunBlockVia(n *app.Teleport, hdr tmproto.Header, txs [][]byte, via bool) c14BlockResult {
	var parts []string
	var out c14BlockResult
	pan, msg := safely(func() {
		bb := n.BeginBlock(abci.RequestBeginBlock{Header: hdr})
		parts = append(parts, "begin:e"+c14Events(bb.Events))
		for _, tx := range txs {
			var res abci.ResponseDeliverTx
			if via {
				res = c14DeliverVia(n, abci.RequestDeliverTx{Tx: tx})
			} else {
				res = n.DeliverTx(abci.RequestDeliverTx{Tx: tx})
			}
			parts = append(parts, c14RespDigest("tx", res))
			if res.Code == 0 {
				out.ok++
			} else {
				out.failed++
			}
		}
		var eb abci.ResponseEndBlock
		if via {
			eb = c14EndBlockVia(n, abci.RequestEndBlock{Height: hdr.Height})
		} else {
			eb = n.EndBlock(abci.RequestEndBlock{Height: hdr.Height})
		}
		parts = append(parts, "end:e"+c14Events(eb.Events))
		n.Commit()
		parts = append(parts, "hash:"+hex.EncodeToString(n.LastCommitID().Hash))
	})
	if pan {
		parts = append(parts, "PANIC:"+c14Digest([]byte(strings.Split(msg, "\n")[0])))
	}
	out.digest = strings.Join(parts, " ")
	return out
}

func (p *c14Rep) seq() uint64 {
	return p.live.AccountKeeper.GetAccount(c14CommittedCtx(p.live), p.a.SenderAcc).GetSequence()
}

func (p *c14Rep) tx(msgs ...sdk.Msg) []byte {
	return p.txSeq(p.seq(), msgs...)
}

func (p *c14Rep) txSeq(seq uint64, msgs ...sdk.Msg) []byte {
	acc := p.live.AccountKeeper.GetAccount(c14CommittedCtx(p.live), p.a.SenderAcc)
	tx, err := c14GenTx(p.a.TxConfig, msgs, 20000000, p.a.ChainID, acc.GetAccountNumber(), seq, p.a.SenderPrivKey)
	if err != nil {
		p.t.Fatal(err)
	}
	bz, err := p.a.TxConfig.TxEncoder()(tx)
	if err != nil {
		p.t.Fatal(err)
	}
	return bz
}

// header for the counterparty's newest block, trusted height read from the committed store through a clean fork
func (p *c14Rep) updateMsg(clean *app.Teleport) (sdk.Msg, exported.Header) {
	p.coord.CommitBlock(p.b)
	ctx := c14CommittedCtx(clean)
	cs, ok := clean.XIBCKeeper.ClientKeeper.GetClientState(ctx, p.b.ChainID)
	if !ok {
		p.t.Fatal("replica: client missing")
	}
	h, err := p.a.ConstructUpdateTMClientHeaderWithTrustedHeight(p.b, p.b.ChainID, cs.GetLatestHeight().(clienttypes.Height))
	if err != nil {
		p.t.Fatal(err)
	}
	msg, err := clienttypes.NewMsgUpdateClient(p.b.ChainID, h, p.a.SenderAcc)
	if err != nil {
		p.t.Fatal(err)
	}
	return msg, h
}

func (p *c14Rep) bankMsg(i int) sdk.Msg {
	to := sdk.AccAddress(crypto.Keccak256([]byte(fmt.Sprintf("c14-replica-%d", i)))[:20])
	return banktypes.NewMsgSend(p.a.SenderAcc, to, sdk.NewCoins(sdk.NewInt64Coin(sdk.DefaultBondDenom, int64(1+i))))
}

func (p *c14Rep) record(kind string, mode string, pollution []string, r1, r2 c14BlockResult) {
	id := p.n
	p.n++
	p.r.Op(fmt.Sprintf("rfork %d %s", id, mode), "ok")
	for _, pl := range pollution {
		p.r.Op(fmt.Sprintf("rpollute %d %s", id, pl), "ok")
	}
	d1, d2 := c14Digest([]byte(r1.digest)), c14Digest([]byte(r2.digest))
	out := "same " + d1
	if r1.digest != r2.digest {
		out = "diverged"
	}
	p.r.Op(fmt.Sprintf("rblock %d %s %s %s", id, kind, d1, d2), out)
	p.r.Count("replica")
	p.r.Count("replica." + kind)
	p.r.Nontrivial(fmt.Sprintf("%s %s %s", kind, mode, r2.digest))
	if r2.ok > 0 {
		p.r.Count("replica.tx-ok")
	}
	if r2.failed > 0 {
		p.r.Count("replica.tx-failed")
	}
	if r1.digest != r2.digest {
		p.r.Find(Finding{Sig: "C14:replica-divergence:" + kind,
			What: "two nodes with the same committed state but different process histories (" + kind + ") execute the same block differently: the result depends on process-local state, not only on (committed state, block)",
			Ops:  []string{"replica " + kind}, Obs: "node 1 (" + mode + ", " + strings.Join(pollution, "+") + "): " + r1.digest + "  ||  node 2 (fresh fork of the committed DB): " + r2.digest,
			Req: "identical DeliverTx code, gas, data, events, log and app hash"})
	}
}

// liveBlock runs a block on the live node (really committed: its history goes on) and on a fresh fork taken just before.
func (p *c14Rep) liveBlock(kind string, pollution []string, txs [][]byte) {
	n2 := p.forkCfg(p.live, true) // the replica is a node with another configuration
	hdr := p.nextHeader(p.live)
	r1 := c14RunBlock(p.live, hdr, txs)
	r2 := c14RunBlockVia(n2, hdr, txs, true) // the replica is reached through another call path
	p.record(kind, "live", pollution, r1, r2)
}

// forkBlock: two fresh forks of the live node's committed state; `pollute` runs on node 1 only.
func (p *c14Rep) forkBlock(kind string, txs func(clean *app.Teleport) [][]byte, pollute func(n1 *app.Teleport, hdr tmproto.Header, txs [][]byte) []string) {
	n1, n2 := p.fork(p.live), p.forkCfg(p.live, true)
	bs := txs(n2)
	// one empty block on both forks first: a freshly opened BaseApp has a check state without chain id (CheckTx and
	// Simulate would fail in the ante handler before touching any keeper)
	warm := p.nextHeader(n1)
	c14RunBlock(n1, warm, nil)
	c14RunBlock(n2, warm, nil)
	hdr := p.nextHeader(n1)
	var pl []string
	if pan, msg := safely(func() { pl = pollute(n1, hdr, bs) }); pan {
		pl = append(pl, "panic:"+c14Digest([]byte(msg)))
	}
	r1 := c14RunBlock(n1, hdr, bs)
	r2 := c14RunBlockVia(n2, hdr, bs, true)
	p.record(kind, "fork", pl, r1, r2)
}

func (p *c14Rep) scenario(kind string, i int) {
	upd := func(clean *app.Teleport) [][]byte {
		m, _ := p.updateMsg(clean)
		switch i % 3 {
		case 0:
			return [][]byte{p.tx(m)}
		case 1:
			return [][]byte{p.tx(m, p.bankMsg(i))}
		default:
			seq := p.seq()
			return [][]byte{p.txSeq(seq, p.bankMsg(i)), p.txSeq(seq+1, m)}
		}
	}
	switch kind {
	case "live": // warm live node against a cold fork, no discarded execution
		clean := p.fork(p.live)
		p.liveBlock(kind, nil, upd(clean))
	case "simulate":
		p.forkBlock(kind, upd, func(n1 *app.Teleport, hdr tmproto.Header, txs [][]byte) []string {
			var pl []string
			for _, tx := range txs {
				_, res, err := n1.Simulate(tx)
				if err != nil && os.Getenv("VERIF_C14_DEBUG") != "" {
					fmt.Fprintln(os.Stderr, "C14DEBUG simulate:", err)
				}
				pl = append(pl, fmt.Sprintf("simulate:%v:%v", err == nil, res != nil))
				if err == nil {
					p.r.Count("replica.simulate-executed")
				}
			}
			return pl
		})
	case "checktx":
		p.forkBlock(kind, upd, func(n1 *app.Teleport, hdr tmproto.Header, txs [][]byte) []string {
			var pl []string
			for _, tx := range txs {
				res := n1.CheckTx(abci.RequestCheckTx{Tx: tx, Type: abci.CheckTxType_New})
				pl = append(pl, fmt.Sprintf("checktx:c%d", res.Code))
				if res.Code == 0 {
					p.r.Count("replica.checktx-accepted")
				}
			}
			return pl
		})
	case "cache": // the update executed on a cache context of node 1 that is dropped
		var hdrMsg exported.Header
		p.forkBlock(kind, func(clean *app.Teleport) [][]byte {
			m, h := p.updateMsg(clean)
			hdrMsg = h
			return [][]byte{p.tx(m)}
		}, func(n1 *app.Teleport, hdr tmproto.Header, txs [][]byte) []string {
			ctx := n1.BaseApp.NewContext(true, hdr)
			cctx, _ := ctx.CacheContext()
			err := n1.XIBCKeeper.ClientKeeper.UpdateClient(cctx, p.b.ChainID, hdrMsg)
			if err == nil {
				p.r.Count("replica.cache-executed")
			}
			return []string{fmt.Sprintf("cache-update:%v", err == nil)}
		})
	case "query": // node 1 serves a client-state query at an old height before the block
		p.forkBlock(kind, upd, func(n1 *app.Teleport, hdr tmproto.Header, txs [][]byte) []string {
			req := clienttypes.QueryClientStateRequest{ChainName: p.b.ChainID}
			bz, _ := req.Marshal()
			var pl []string
			for _, h := range []int64{n1.LastBlockHeight() - 3, n1.LastBlockHeight() - 1, 0} {
				res := n1.Query(abci.RequestQuery{Path: "/xibc.core.client.v1.Query/ClientState", Data: bz, Height: h})
				pl = append(pl, fmt.Sprintf("query@%d:c%d", h, res.Code))
			}
			return pl
		})
	case "reverted": // previous block on the live node: [MsgUpdateClient, failing MsgSend] rolled back as a whole
		clean := p.fork(p.live)
		m, _ := p.updateMsg(clean)
		bad := banktypes.NewMsgSend(p.a.SenderAcc, sdk.AccAddress(crypto.Keccak256([]byte("c14-nobody"))[:20]), sdk.NewCoins(sdk.NewCoin(sdk.DefaultBondDenom, sdk.NewIntWithDecimal(1, 40))))
		rb := c14RunBlock(p.live, p.nextHeader(p.live), [][]byte{p.tx(m, bad)})
		if rb.failed != 1 {
			p.r.Count("replica.reverted-not-reverted")
		}
		res := struct{ Code int }{rb.failed}
		// next block: the same (still valid) update alone
		p.liveBlock(kind, []string{fmt.Sprintf("reverted-tx:failed%d", res.Code)}, [][]byte{p.tx(m)})
	}
}

var c14ReplicaKinds = []string{"live", "simulate", "checktx", "cache", "query", "reverted"}

// c14Replicas runs the replica scenarios (rounds × all kinds, or one kind for a replay).
func c14Replicas(t *testing.T, r *Rec, rounds int, only string) {
	p := newC14Rep(t, r)
	for i := 0; i < rounds; i++ {
		for _, k := range c14ReplicaKinds {
			if only != "" && k != only {
				continue
			}
			pan, msg := safely(func() { p.scenario(k, i+r.Rng.Intn(3)) })
			if pan {
				r.Find(Finding{Sig: "C14:replica-scenario-panic:" + k, What: "replica scenario panicked: " + strings.Split(msg, "\n")[0], Ops: []string{"replica " + k}, Obs: "panic", Req: "no panic"})
				return
			}
		}
	}
}
