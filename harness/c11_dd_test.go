//go:build c11

package verifharness

// Hand-assembled adversarial ERC-20 tokens (no solc in the sandbox).
//
//   storage[address]  = balance            storage[2^160] = totalSupply
//   name() / symbol() / decimals()          what QueryERC20 (RegisterERC20) needs
//   totalSupply(), balanceOf(a)
//   mint(to, amt)                           anybody may mint (set-up); reverts on supply overflow
//   transfer(to, amt)                       debits the caller by amt + extra, credits `to` by amt and the sink (the
//                                           "thief" address of the repo's malicious tokens) by extra, returns true;
//                                           reverts when the caller has less than amt + extra
//       "dd" (double debit):   extra = amt
//       "fr" (fee on receive): extra = 1
//   anything else reverts. No events.

import "encoding/binary"

type c11Asm struct {
	code   []byte
	labels map[string]int
	fix    map[int]string
}

func (a *c11Asm) op(bs ...byte) *c11Asm { a.code = append(a.code, bs...); return a }
func (a *c11Asm) push4(v uint32) *c11Asm {
	var b [4]byte
	binary.BigEndian.PutUint32(b[:], v)
	return a.op(0x63).op(b[:]...)
}
func (a *c11Asm) pushLabel(l string) *c11Asm {
	a.op(0x61)
	a.fix[len(a.code)] = l
	return a.op(0, 0)
}
func (a *c11Asm) jumpi(l string) *c11Asm { return a.pushLabel(l).op(0x57) }
func (a *c11Asm) label(l string) *c11Asm { a.labels[l] = len(a.code); return a.op(0x5b) }
func (a *c11Asm) done() []byte {
	for pos, l := range a.fix {
		t, ok := a.labels[l]
		if !ok {
			panic("label " + l)
		}
		a.code[pos], a.code[pos+1] = byte(t>>8), byte(t)
	}
	return a.code
}

// returns the 32-byte word on top of the stack
func (a *c11Asm) retTop() *c11Asm { return a.op(0x60, 0x00, 0x52, 0x60, 0x20, 0x60, 0x00, 0xf3) }

// returns the ABI encoding of a short string
func (a *c11Asm) retString(s string) *c11Asm {
	w := make([]byte, 32)
	copy(w, s)
	a.op(0x60, 0x20, 0x60, 0x00, 0x52)          // mem[0] = 0x20
	a.op(0x60, byte(len(s)), 0x60, 0x20, 0x52) // mem[0x20] = len
	a.op(0x7f).op(w...).op(0x60, 0x40, 0x52)   // mem[0x40] = bytes
	return a.op(0x60, 0x60, 0x60, 0x00, 0xf3)
}

// pushes the storage key of totalSupply (2^160)
func (a *c11Asm) supKey() *c11Asm { return a.op(0x60, 0x01, 0x60, 0xa0, 0x1b) }

func c11AdversarialRuntime(kind string) []byte {
	a := &c11Asm{labels: map[string]int{}, fix: map[int]string{}}
	a.op(0x60, 0x00, 0x35, 0x60, 0xe0, 0x1c) // selector
	for _, e := range []struct {
		sel uint32
		l   string
	}{{0x70a08231, "bal"}, {0xa9059cbb, "xfer"}, {0x40c10f19, "mint"}, {0x18160ddd, "sup"}, {0x06fdde03, "name"}, {0x95d89b41, "sym"}, {0x313ce567, "dec"}} {
		a.op(0x80).push4(e.sel).op(0x14).jumpi(e.l)
	}
	a.label("rev").op(0x60, 0x00, 0x80, 0xfd)
	a.label("bal").op(0x60, 0x04, 0x35, 0x54).retTop()
	a.label("sup").supKey().op(0x54).retTop()
	a.label("dec").op(0x60, 18).retTop()
	a.label("name").retString(kind + "tok")
	a.label("sym").retString("ADV")
	// mint(to, amt)
	a.label("mint").op(0x60, 0x24, 0x35) // [amt]
	a.supKey().op(0x54)                  // [amt, sup]
	a.op(0x81, 0x01)                     // [amt, sup+amt]
	a.op(0x81, 0x81, 0x10).jumpi("rev")  // new < amt => overflow
	a.supKey().op(0x55)                  // [amt]
	a.op(0x60, 0x04, 0x35, 0x80, 0x54)   // [amt, to, bal]
	a.op(0x82, 0x01, 0x90, 0x55)         // store bal+amt at to; [amt]
	a.op(0x50, 0x60, 0x01).retTop()
	// transfer(to, amt)
	a.label("xfer").op(0x60, 0x24, 0x35) // [amt]
	a.op(0x33, 0x54)                     // [amt, b]
	a.op(0x81, 0x81, 0x10).jumpi("rev")  // b < amt
	a.op(0x81, 0x90, 0x03)               // [amt, b-amt]
	if kind == "dd" {
		a.op(0x81) // extra = amt
	} else {
		a.op(0x60, 0x01) // extra = 1
	}
	a.op(0x80, 0x82, 0x10).jumpi("rev") // b1 < extra
	a.op(0x80, 0x91, 0x03)              // [amt, e, b1-e]
	a.op(0x33, 0x55)                    // store at caller; [amt, e]
	a.op(0x73).op(c11Thief.Bytes()...)  // [amt, e, sink]
	a.op(0x80, 0x54)                    // [amt, e, sink, bs]
	a.op(0x82, 0x01, 0x90, 0x55)        // store bs+e at sink; [amt, e]
	a.op(0x50)                          // [amt]
	a.op(0x60, 0x04, 0x35, 0x80, 0x54)  // [amt, to, bt]
	a.op(0x82, 0x01, 0x90, 0x55)        // store bt+amt at to; [amt]
	a.op(0x50, 0x60, 0x01).retTop()
	return a.done()
}

// creation code: copy the runtime code to memory and return it
func c11AdversarialBin(kind string) []byte {
	rt := c11AdversarialRuntime(kind)
	const hdr = 14
	init := []byte{0x61, byte(len(rt) >> 8), byte(len(rt)), 0x80, 0x61, 0x00, hdr, 0x60, 0x00, 0x39, 0x60, 0x00, 0xf3, 0x00}
	return append(init, rt...)
}

// c11DoubleDebitBin returns the creation code of the hand-assembled "double debit" test token.
func c11DoubleDebitBin() []byte { return c11AdversarialBin("dd") }
