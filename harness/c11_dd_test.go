//go:build c11

package verifharness

// c11DoubleDebitBin returns the creation code of the hand-assembled "double debit" test token (nil = not available).
func c11DoubleDebitBin() []byte { return nil }
