//go:build c19

package verifharness

// C19 — canonical, loss-free packet encoding; injective, parseable store keys.
// Drives the real ABIPack / ABIDecode / CommitPacket, the real key functions of x/xibc/core/host, the real
// identifier validators and the real iterators (packet keeper, client keeper, tendermint / bsc / eth client
// stores) reading back keys written through the real keepers into the real (cache-wrapped) xibc store.
//
// op language (byte strings in hex, `-` = empty; numbers decimal) — see docs/C19.md:
//   pack <Struct> <field>...            -> ok <hex> | err           (fields in Go struct order)
//   decode <Struct> <hex>               -> ok <field>... | err
//   key <Func> <arg>...                 -> <hex>                     (Height = two numbers)
//   valid client|src|dst <id>           -> ok | err
//   utf8 <s>                            -> <0|1> <string after the JSON round trip>
//   parseuint <s>                       -> ok n | err
//   camel <s>                           -> abi.ToCamelCase
//   parsepath <s>                       -> ok a b | err
//   reset | pset fam src dst seq val | nset src dst n | cset name rev h | clset name | tmset name rev h t
//   evmset name rev h | raw key c|s|<hex> | dump | ihash fam | iseq | icons | iclients | tmpt name | tmasc name
//   bscasc name | ethasc name
//   bypath-get src dst | bypath-iter src dst     (GetAllPacketCommitmentsByPath / IteratePacketCommitmentByPath)
//   pget fam src dst seq | phas fam src dst seq | nget src dst    (point getters Get* / Has* after Set*)
//   key2 <Func> <argsA> | <argsB>   (two keys alive at once: aliasing)   | iterkeyrt tm|bsc|eth rev h | hfk tm|bsc|eth key
//   heightstr rev h | parseheight s | tmgetiter name rev h | bscsigner name rev h val | bscsigners name | bscdelsigners name
//   ethsetroot name height root hash | ethgetroot name root height | discard <op>   (op on a dropped cache context)
//   mkey <PathFunc> pre args… (key the Tendermint client looks up: NewMerklePath + ApplyPrefix + GetKey(1)) | mcodec s
//   e2e commit|ack pre src dst seq val  (real ICS-23 proof from an IAVL store through VerifyPacketCommitment/Acknowledgement)
//   ctoggle name rev h t | cupgrade name rev h t   (client keeper ToggleClient / UpgradeClient between the TM and a TSS client state)
//   gcons name [limit]  (client gRPC ConsensusStates, all pages; with a page limit: paged through NextKey) | gclients (ClientStates)
//   grpcp commit|ack src dst limit   (packet gRPC list queries paged through NextKey)
//   grpc commit|ack src dst                      (query server PacketCommitments / PacketAcknowledgements)

import (
	"bytes"
	"crypto/sha256"
	"encoding/binary"
	"encoding/json"
	"fmt"
	"reflect"
	"sort"
	"strconv"
	"strings"
	"testing"
	"time"
	"net/url"
	"unicode/utf8"

	"github.com/cosmos/cosmos-sdk/store/iavl"
	"github.com/cosmos/cosmos-sdk/store/rootmulti"
	storetypes "github.com/cosmos/cosmos-sdk/store/types"
	sdk "github.com/cosmos/cosmos-sdk/types"
	"github.com/cosmos/cosmos-sdk/types/query"
	"github.com/ethereum/go-ethereum/accounts/abi"
	"github.com/ethereum/go-ethereum/common"
	abci "github.com/tendermint/tendermint/abci/types"
	tmproto "github.com/tendermint/tendermint/proto/tendermint/types"
	dbm "github.com/tendermint/tm-db"

	"github.com/teleport-network/teleport/app"
	bsctypes "github.com/teleport-network/teleport/x/xibc/clients/light-clients/bsc/types"
	ethtypes "github.com/teleport-network/teleport/x/xibc/clients/light-clients/eth/types"
	tmtypes "github.com/teleport-network/teleport/x/xibc/clients/light-clients/tendermint/types"
	tsstypes "github.com/teleport-network/teleport/x/xibc/clients/tss-client/types"
	clienttypes "github.com/teleport-network/teleport/x/xibc/core/client/types"
	commitmenttypes "github.com/teleport-network/teleport/x/xibc/core/commitment/types"
	"github.com/teleport-network/teleport/x/xibc/core/host"
	packettypes "github.com/teleport-network/teleport/x/xibc/core/packet/types"
	"github.com/teleport-network/teleport/x/xibc/exported"
)

type c19World struct {
	app   *app.Teleport
	base  sdk.Context
	ctx   sdk.Context
	key   sdk.StoreKey
	csBz  []byte // a marshalled client state
	cs2   exported.ClientState // a client state of another type (TSS)
	cs2Bz []byte
	ssBz  []byte // a marshalled consensus state
	cs    exported.ClientState
	ss    exported.ConsensusState
	kinds map[string]string // store key -> "c" | "s" | hex of the raw value (what the harness wrote)
	hist  []string
	// oracle bookkeeping of the current history
	dirty   bool                         // a raw key or an invalid name was used
	written map[string]map[string]string // family -> "src:dst:seq" -> value
	cons    map[string]bool              // "name:rev:h" written through SetClientConsensusState / tmset / evmset
	clients map[string]bool
	tmH     map[string][]([2]uint64) // per client name
	evmH    map[string][]([2]uint64)
	signers map[string]map[string]string // client -> "rev-h" -> validator hex (bsc recent signers)
	ethRoot map[string]string            // client:root:height -> expected value hex
	// global injectivity tables
	packed  map[string]string // struct + packed hex -> canonical value text
	commits map[string]string // commitment hex -> packed hex
	keysOf  map[string]string // func + key hex -> canonical args
}

func newC19World(t *testing.T) *c19World {
	a := app.Setup(false, nil)
	ctx := a.BaseApp.NewContext(false, tmproto.Header{Height: 1, ChainID: "teleport_9000-1", Time: time.Unix(1700000000, 0)})
	w := &c19World{app: a, base: ctx, key: a.GetKey(host.StoreKey), packed: map[string]string{}, commits: map[string]string{}, keysOf: map[string]string{}}
	w.ss = tmtypes.NewConsensusState(time.Unix(1700000000, 0).UTC(), []byte("apphash-apphash-apphash-apphash-"), bytes.Repeat([]byte{7}, 32))
	w.cs = &tmtypes.ClientState{ChainId: "c19", TrustLevel: tmtypes.Fraction{Numerator: 1, Denominator: 3}, TrustingPeriod: time.Hour, UnbondingPeriod: 2 * time.Hour,
		MaxClockDrift: time.Second, LatestHeight: clienttypes.NewHeight(0, 5)}
	w.csBz = a.XIBCKeeper.ClientKeeper.MustMarshalClientState(w.cs)
	w.cs2 = &tsstypes.ClientState{TssAddress: "0xeE3C65B5c7F4DD0ebeD8bF046725e273e3eeeD3c", Pubkey: bytes.Repeat([]byte{4}, 65), Threshold: 1}
	w.cs2Bz = a.XIBCKeeper.ClientKeeper.MustMarshalClientState(w.cs2)
	w.ssBz = a.XIBCKeeper.ClientKeeper.MustMarshalConsensusState(w.ss)
	w.reset()
	return w
}

func (w *c19World) reset() {
	w.ctx, _ = w.base.CacheContext()
	st := w.ctx.KVStore(w.key)
	var ks [][]byte
	it := st.Iterator(nil, nil)
	for ; it.Valid(); it.Next() {
		ks = append(ks, append([]byte{}, it.Key()...))
	}
	it.Close()
	for _, k := range ks {
		st.Delete(k)
	}
	w.kinds = map[string]string{}
	w.hist = nil
	w.dirty = false
	w.written = map[string]map[string]string{"commit": {}, "ack": {}, "receipt": {}, "relayer": {}, "seq": {}}
	w.cons = map[string]bool{}
	w.clients = map[string]bool{}
	w.tmH = map[string][]([2]uint64){}
	w.evmH = map[string][]([2]uint64){}
	w.signers = map[string]map[string]string{}
	w.ethRoot = map[string]string{}
}

func c19U64(s string) uint64 {
	n, err := strconv.ParseUint(s, 10, 64)
	if err != nil {
		panic("bad number " + s)
	}
	return n
}

func c19ValidName(s string) bool { return host.SrcChainValidator(s) == nil }

// ---- structs ---------------------------------------------------------------------------------------

type c19Codec interface {
	ABIPack() ([]byte, error)
	ABIDecode([]byte) error
}

func c19New(name string) c19Codec {
	switch name {
	case "Packet":
		return &packettypes.Packet{}
	case "Acknowledgement":
		return &packettypes.Acknowledgement{}
	case "TransferData":
		return &packettypes.TransferData{}
	case "CallData":
		return &packettypes.CallData{}
	case "Result":
		return &packettypes.Result{}
	case "EventSendPacket":
		return &packettypes.EventSendPacket{}
	}
	panic("unknown struct " + name)
}

var c19Structs = []string{"Packet", "Acknowledgement", "TransferData", "CallData", "Result", "EventSendPacket"}

// exported non-XXX fields in declaration order
func c19Fields(v interface{}) []reflect.Value {
	rv := reflect.ValueOf(v).Elem()
	var out []reflect.Value
	for i := 0; i < rv.NumField(); i++ {
		if rv.Type().Field(i).PkgPath == "" {
			out = append(out, rv.Field(i))
		}
	}
	return out
}

func c19FieldNames(v interface{}) []string {
	rv := reflect.ValueOf(v).Elem()
	var out []string
	for i := 0; i < rv.NumField(); i++ {
		if rv.Type().Field(i).PkgPath == "" {
			out = append(out, rv.Type().Field(i).Name)
		}
	}
	return out
}

func c19Show(v interface{}) []string {
	var out []string
	for _, f := range c19Fields(v) {
		switch f.Kind() {
		case reflect.Uint64:
			out = append(out, strconv.FormatUint(f.Uint(), 10))
		case reflect.String:
			out = append(out, hxs(f.String()))
		case reflect.Slice:
			out = append(out, hx(f.Bytes()))
		default:
			panic("unsupported field kind")
		}
	}
	return out
}

func c19Fill(v interface{}, fs []string) {
	fields := c19Fields(v)
	if len(fields) != len(fs) {
		panic(fmt.Sprintf("field count %d vs %d", len(fields), len(fs)))
	}
	for i, f := range fields {
		switch f.Kind() {
		case reflect.Uint64:
			f.SetUint(c19U64(fs[i]))
		case reflect.String:
			f.SetString(string(unhx(fs[i])))
		case reflect.Slice:
			f.SetBytes(unhx(fs[i]))
		}
	}
}

func c19AllStringsValid(v interface{}) bool {
	for _, f := range c19Fields(v) {
		if f.Kind() == reflect.String && !utf8.ValidString(f.String()) {
			return false
		}
	}
	return true
}

// ---- store helpers -------------------------------------------------------------------------------------

func (w *c19World) store() sdk.KVStore { return w.ctx.KVStore(w.key) }

func (w *c19World) allKeys() [][]byte {
	var ks [][]byte
	it := w.store().Iterator(nil, nil)
	defer it.Close()
	for ; it.Valid(); it.Next() {
		ks = append(ks, append([]byte{}, it.Key()...))
	}
	return ks
}

// after a write through real code: record the kind of every key that is new or changed
func (w *c19World) noteWrites(kind func(key []byte, val []byte) string) {
	it := w.store().Iterator(nil, nil)
	defer it.Close()
	for ; it.Valid(); it.Next() {
		k := string(it.Key())
		w.kinds[k] = kind(it.Key(), it.Value())
	}
}

func (w *c19World) kindOf(val []byte) string {
	switch {
	case bytes.Equal(val, w.csBz):
		return "c"
	case bytes.Equal(val, w.ssBz):
		return "s"
	case bytes.Equal(val, w.cs2Bz):
		return "t"
	}
	return hx(val)
}

func c19OkList(l []string) string {
	if len(l) == 0 {
		return "ok -"
	}
	return "ok " + strings.Join(l, ",")
}

func c19SetEq(got []string, want map[string]string) bool {
	if len(got) != len(want) {
		return false
	}
	for _, g := range got {
		i := strings.LastIndex(g, ":")
		v, ok := want[g[:i]]
		if !ok || v != g[i+1:] {
			return false
		}
	}
	return true
}

func (w *c19World) find(r *Rec, sig, what, obs, req string) {
	r.Find(Finding{Sig: sig, What: what, Ops: append([]string{}, w.hist...), Obs: obs, Req: req})
}

func c19HeightsSorted(hs [][2]uint64) []string {
	m := map[[2]uint64]bool{}
	var u [][2]uint64
	for _, h := range hs {
		if !m[h] {
			m[h] = true
			u = append(u, h)
		}
	}
	sort.Slice(u, func(i, j int) bool { return u[i][0] < u[j][0] || (u[i][0] == u[j][0] && u[i][1] < u[j][1]) })
	var out []string
	for _, h := range u {
		out = append(out, fmt.Sprintf("%d-%d", h[0], h[1]))
	}
	return out
}

// ---- the ops -------------------------------------------------------------------------------------------

// e2eVerify stores value under the real host key in a fresh IAVL store (plus a few neighbours), commits, takes the real
// ICS-23 membership proof of that key and verifies it through the Tendermint client's VerifyPacketCommitment /
// VerifyPacketAcknowledgement.
func (w *c19World) e2eVerify(fam, pre, src, dst string, seq uint64, val []byte) error {
	db := dbm.NewMemDB()
	ms := rootmulti.NewStore(db)
	sk := storetypes.NewKVStoreKey(pre)
	ms.MountStoreWithDB(sk, storetypes.StoreTypeIAVL, nil)
	if err := ms.LoadVersion(0); err != nil {
		return err
	}
	st := ms.GetCommitStore(sk).(*iavl.Store)
	key := host.PacketCommitmentKey(src, dst, seq)
	if fam == "ack" {
		key = host.PacketAcknowledgementKey(src, dst, seq)
	}
	st.Set(key, val)
	st.Set(host.PacketCommitmentKey("other", "chain", 1), []byte{1})
	st.Set(host.PacketAcknowledgementKey("other", "chain", 2), []byte{2})
	st.Set([]byte("zzz"), []byte{3})
	cid := ms.Commit()
	res := ms.Query(abci.RequestQuery{Path: "/" + pre + "/key", Data: key, Prove: true})
	if res.ProofOps == nil {
		return fmt.Errorf("no proof: %s", res.Log)
	}
	proof, err := commitmenttypes.ConvertProofs(res.ProofOps)
	if err != nil {
		return err
	}
	cdc := w.app.AppCodec()
	proofBz, err := cdc.Marshal(&proof)
	if err != nil {
		return err
	}
	height := clienttypes.NewHeight(0, uint64(cid.Version))
	cs := tmtypes.ClientState{ChainId: "e2e", TrustLevel: tmtypes.Fraction{Numerator: 1, Denominator: 3}, TrustingPeriod: time.Hour, UnbondingPeriod: 2 * time.Hour,
		MaxClockDrift: time.Second, LatestHeight: height, ProofSpecs: commitmenttypes.GetSDKSpecs(), MerklePrefix: commitmenttypes.NewMerklePrefix([]byte(pre)), TimeDelay: 0}
	cctx, _ := w.ctx.CacheContext()
	ck := w.app.XIBCKeeper.ClientKeeper
	ck.SetClientConsensusState(cctx, "e2e-client", height, tmtypes.NewConsensusState(time.Unix(1600000000, 0).UTC(), cid.Hash, bytes.Repeat([]byte{7}, 32)))
	cst := ck.ClientStore(cctx, "e2e-client")
	tmtypes.SetProcessedTime(cst, height, 1)
	if fam == "ack" {
		return cs.VerifyPacketAcknowledgement(cctx, cst, cdc, height, proofBz, src, dst, seq, val)
	}
	return cs.VerifyPacketCommitment(cctx, cst, cdc, height, proofBz, src, dst, seq, val)
}

// foreignEntries: every raw store entry that does NOT belong to client `name` (key does not start with clients/<name>/),
// as one comparable text
func (w *c19World) foreignEntries(name string) string {
	own := []byte(string(host.KeyClientStorePrefix) + "/" + name + "/")
	var sb strings.Builder
	it := w.store().Iterator(nil, nil)
	defer it.Close()
	for ; it.Valid(); it.Next() {
		if bytes.HasPrefix(it.Key(), own) {
			continue
		}
		sb.WriteString(hx(it.Key()))
		sb.WriteByte('=')
		sb.WriteString(hx(it.Value()))
		sb.WriteByte(';')
	}
	return sb.String()
}

// another client whose name is in (proper) prefix relation with `name` has entries in the store
func (w *c19World) hasPrefixRelatedClient(name string) bool {
	pre := string(host.KeyClientStorePrefix) + "/"
	it := w.store().Iterator([]byte(pre), nil)
	defer it.Close()
	for ; it.Valid(); it.Next() {
		k := string(it.Key())
		if !strings.HasPrefix(k, pre) {
			break
		}
		rest := k[len(pre):]
		i := strings.IndexByte(rest, '/')
		if i < 0 {
			continue
		}
		other := rest[:i]
		if other != name && (strings.HasPrefix(other, name) || strings.HasPrefix(name, other)) {
			return true
		}
	}
	return false
}

func c19FirstDiff(a, b string) string {
	as, bs := strings.Split(a, ";"), strings.Split(b, ";")
	in := map[string]bool{}
	for _, x := range bs {
		in[x] = true
	}
	for _, x := range as {
		if !in[x] {
			return "entry gone or changed: " + x
		}
	}
	return fmt.Sprintf("%d entries before, %d after", len(as), len(bs))
}

func (w *c19World) storeDigest() string {
	h := sha256.New()
	it := w.store().Iterator(nil, nil)
	defer it.Close()
	n := 0
	for ; it.Valid(); it.Next() {
		h.Write([]byte(strconv.Itoa(len(it.Key())) + ":"))
		h.Write(it.Key())
		h.Write([]byte(strconv.Itoa(len(it.Value())) + ":"))
		h.Write(it.Value())
		n++
	}
	return fmt.Sprintf("%d keys %x", n, h.Sum(nil)[:8])
}

type c19Book struct {
	dirty   bool
	written map[string]map[string]string
	cons    map[string]bool
	clients map[string]bool
	tmH     map[string][]([2]uint64)
	evmH    map[string][]([2]uint64)
	signers map[string]map[string]string
	ethRoot map[string]string
}

func c19CopyMM(m map[string]map[string]string) map[string]map[string]string {
	o := map[string]map[string]string{}
	for k, v := range m {
		o[k] = map[string]string{}
		for a, b := range v {
			o[k][a] = b
		}
	}
	return o
}

func (w *c19World) snapshotBook() c19Book {
	b := c19Book{dirty: w.dirty, written: c19CopyMM(w.written), signers: c19CopyMM(w.signers), cons: map[string]bool{}, clients: map[string]bool{},
		tmH: map[string][]([2]uint64){}, evmH: map[string][]([2]uint64){}, ethRoot: map[string]string{}}
	for k, v := range w.cons {
		b.cons[k] = v
	}
	for k, v := range w.clients {
		b.clients[k] = v
	}
	for k, v := range w.tmH {
		b.tmH[k] = append([]([2]uint64){}, v...)
	}
	for k, v := range w.evmH {
		b.evmH[k] = append([]([2]uint64){}, v...)
	}
	for k, v := range w.ethRoot {
		b.ethRoot[k] = v
	}
	return b
}

func (w *c19World) restoreBook(b c19Book) {
	w.dirty, w.written, w.cons, w.clients, w.tmH, w.evmH, w.signers, w.ethRoot = b.dirty, b.written, b.cons, b.clients, b.tmH, b.evmH, b.signers, b.ethRoot
}

// c19BuildKey calls the real key function `fn` on op-text arguments
func c19BuildKey(fn string, a []string) []byte {
	var k []byte
	s := func(i int) string { return string(unhx(a[i])) }
	n := func(i int) uint64 { return c19U64(a[i]) }
	h := func(i int) exported.Height { return clienttypes.NewHeight(c19U64(a[i]), c19U64(a[i+1])) }
	switch fn {
	case "FullClientPath":
		k = []byte(host.FullClientPath(s(0), s(1)))
	case "FullClientKey":
		k = host.FullClientKey(s(0), unhx(a[1]))
	case "FullClientStateKey":
		k = host.FullClientStateKey(s(0))
	case "ClientStateKey":
		k = host.ClientStateKey()
	case "FullConsensusStateKey":
		k = host.FullConsensusStateKey(s(0), h(1))
	case "ConsensusStatePath":
		k = []byte(host.ConsensusStatePath(h(0)))
	case "ConsensusStateKey":
		k = host.ConsensusStateKey(h(0))
	case "NextSequenceSendPath":
		k = []byte(host.NextSequenceSendPath(s(0), s(1)))
	case "NextSequenceSendKey":
		k = host.NextSequenceSendKey(s(0), s(1))
	case "PacketCommitmentPath":
		k = []byte(host.PacketCommitmentPath(s(0), s(1), n(2)))
	case "PacketCommitmentKey":
		k = host.PacketCommitmentKey(s(0), s(1), n(2))
	case "PacketCommitmentPrefixPath":
		k = []byte(host.PacketCommitmentPrefixPath(s(0), s(1)))
	case "PacketRelayerPath":
		k = []byte(host.PacketRelayerPath(s(0), s(1), n(2)))
	case "PacketRelayerKey":
		k = host.PacketRelayerKey(s(0), s(1), n(2))
	case "PacketRelayerPrefixPath":
		k = []byte(host.PacketRelayerPrefixPath(s(0), s(1)))
	case "PacketAcknowledgementPath":
		k = []byte(host.PacketAcknowledgementPath(s(0), s(1), n(2)))
	case "PacketAcknowledgementKey":
		k = host.PacketAcknowledgementKey(s(0), s(1), n(2))
	case "PacketAcknowledgementPrefixPath":
		k = []byte(host.PacketAcknowledgementPrefixPath(s(0), s(1)))
	case "PacketReceiptPath":
		k = []byte(host.PacketReceiptPath(s(0), s(1), n(2)))
	case "PacketReceiptKey":
		k = host.PacketReceiptKey(s(0), s(1), n(2))
	case "PacketReceiptPrefixPath":
		k = []byte(host.PacketReceiptPrefixPath(s(0), s(1)))
	case "tm.ProcessedTimeKey":
		k = tmtypes.ProcessedTimeKey(h(0))
	case "tm.IterationKey":
		k = tmtypes.IterationKey(h(0))
	case "eth.EthHeaderIndexPath":
		k = []byte(ethtypes.EthHeaderIndexPath(common.BytesToHash(unhx(a[0])), n(1)))
	case "eth.EthHeaderIndexKey":
		k = ethtypes.EthHeaderIndexKey(common.BytesToHash(unhx(a[0])), n(1))
	case "eth.EthRootMainPath":
		k = []byte(ethtypes.EthRootMainPath(common.BytesToHash(unhx(a[0])), n(1)))
	case "eth.EthRootMainKey":
		k = ethtypes.EthRootMainKey(common.BytesToHash(unhx(a[0])), n(1))
	default:
		panic("unknown key function " + fn)
	}
	return k
}

func (w *c19World) apply(r *Rec, op string) string {
	f := strings.Fields(op)
	w.hist = append(w.hist, op)
	switch f[0] {
	case "reset":
		w.reset()
		w.hist = []string{op}
		return "ok"

	case "pack":
		v := c19New(f[1])
		c19Fill(v, f[2:])
		var bz []byte
		var err error
		if pan, msg := safely(func() { bz, err = v.ABIPack() }); pan {
			w.find(r, "C19:pack-panic:"+f[1], "ABIPack panics: "+msg, "panic", "bytes")
			return "panic"
		}
		if err != nil {
			r.Count("pack.err")
			return "err"
		}
		r.Count("pack.ok")
		// ---- oracle: decode(encode v) = v (valid UTF-8), injectivity, commitment ----
		canon := strings.Join(c19Show(v), " ")
		pk := f[1] + " " + hx(bz)
		if f[1] != "EventSendPacket" { // only the Packet field of the event is encoded, by design
			if old, ok := w.packed[pk]; ok && old != canon {
				w.find(r, "C19:encode-not-injective:"+f[1], "two different values have the same encoding", old+" / "+canon, "different bytes")
			}
			w.packed[pk] = canon
			v2 := c19New(f[1])
			var derr error
			if pan, msg := safely(func() { derr = v2.ABIDecode(bz) }); pan {
				w.find(r, "C19:decode-panic:"+f[1], "ABIDecode panics on ABIPack output: "+msg, "panic", canon)
			} else if derr != nil {
				w.find(r, "C19:decode-rejects-own-encoding:"+f[1], "ABIDecode rejects ABIPack output: "+derr.Error(), "error", canon)
			} else if c19AllStringsValid(v) {
				got := c19Show(v2)
				want := c19Show(v)
				names := c19FieldNames(v)
				for i := range want {
					if got[i] != want[i] {
						w.find(r, "C19:decode-encode-loss:"+f[1]+"."+names[i], fmt.Sprintf("ABIDecode(ABIPack(v)).%s differs from v.%s", names[i], names[i]),
							names[i]+" = "+got[i], names[i]+" = "+want[i])
					}
				}
				r.Count("roundtrip.checked")
				// ---- oracle: encode(decode(b)) == b byte for byte, for the canonical bytes b (= what the contract-side encoder emits) ----
				bz2, err2 := v2.ABIPack()
				if err2 != nil || !bytes.Equal(bz2, bz) {
					w.find(r, "C19:reencode-differs:"+f[1], "ABIPack(ABIDecode(b)) differs from the canonical bytes b", hx(bz2), hx(bz))
				}
				// ---- oracle: the commitment recomputed from the DECODED packet is the hash of the received bytes ----
				if p2, ok := v2.(*packettypes.Packet); ok {
					cm, cerr := packettypes.CommitPacket(p2)
					h := sha256.Sum256(bz)
					r.Count("commit-of-decoded.checked")
					if cerr != nil || !bytes.Equal(cm, h[:]) {
						w.find(r, "C19:commitment-of-decoded-differs", "CommitPacket(ABIDecode(b)) is not sha256(b): the destination recomputes another commitment than the source stored", hx(cm), hx(h[:]))
					}
				}
			} else {
				r.Count("roundtrip.skipped-invalid-utf8")
				if strings.Join(c19Show(v2), " ") != canon {
					r.Count("roundtrip.lossy-invalid-utf8") // known, outside the property: encoding/json replaces invalid UTF-8 by U+FFFD
				}
			}
		}
		if p, ok := v.(*packettypes.Packet); ok {
			cm, err := packettypes.CommitPacket(p)
			h := sha256.Sum256(bz)
			if err != nil || !bytes.Equal(cm, h[:]) {
				w.find(r, "C19:commitment-not-hash-of-encoding", "CommitPacket differs from sha256(ABIPack)", hx(cm), hx(h[:]))
			}
			if old, ok := w.commits[hx(cm)]; ok && old != canon {
				w.find(r, "C19:commitment-collision", "two different packets have the same commitment", old+" / "+canon, "different commitments")
			}
			w.commits[hx(cm)] = canon
			r.Count("commit.checked")
		}
		r.Nontrivial(op)
		return "ok " + hx(bz)

	case "decode":
		v := c19New(f[1])
		var err error
		if pan, _ := safely(func() { err = v.ABIDecode(unhx(f[2])) }); pan {
			r.Count("decode.panic")
			return "panic"
		}
		if err != nil {
			r.Count("decode.err")
			return "err"
		}
		r.Count("decode.ok")
		r.Nontrivial(op)
		return "ok " + strings.Join(c19Show(v), " ")

	case "key":
		a := f[2:]
		s := func(i int) string { return string(unhx(a[i])) }
		k := c19BuildKey(f[1], a)
		// ---- oracle: the sequence is part of the key as its UNSIGNED decimal text (what the counterparty contract hashes) ----
		if c19KeyFuncs[f[1]] == "ssn" {
			r.Count("key.sequence-text")
			if c19U64(a[2]) >= 1<<63 {
				r.Count("key.sequence-ge-2^63")
			}
			if !bytes.HasSuffix(k, []byte("/"+a[2])) {
				w.find(r, "C19:key-sequence-text:"+f[1], "the key does not end in '/' followed by the unsigned decimal sequence", hx(k), "…/"+a[2])
			}
		}
		// ---- oracle: distinct arguments (valid names) => distinct keys ----
		valid := true
		ai := 0
		for _, kd := range c19KeyFuncs[f[1]] {
			switch kd {
			case 's':
				if !c19ValidName(s(ai)) {
					valid = false
				}
				ai++
			case 'p':
				valid = false // an arbitrary sub-path
				ai++
			case 'n':
				ai++
			case 'h':
				ai += 2
			}
		}
		if valid {
			id := f[1] + " " + hx(k)
			args := strings.Join(a, " ")
			if old, ok := w.keysOf[id]; ok && old != args {
				w.find(r, "C19:key-not-injective:"+f[1], "two different argument tuples map to the same store key", old+" / "+args, "different keys")
			}
			w.keysOf[id] = args
			r.Count("key.valid-args")
		} else {
			r.Count("key.invalid-args")
		}
		r.Nontrivial(op)
		return hx(k)

	case "valid":
		id := string(unhx(f[2]))
		var err error
		switch f[1] {
		case "client":
			err = host.ClientIdentifierValidator(id)
		case "src":
			err = host.SrcChainValidator(id)
		case "dst":
			err = host.DstChainValidator(id)
		}
		if err != nil {
			r.Count("valid.err")
			return "err"
		}
		r.Count("valid.ok")
		if strings.Contains(id, "/") {
			w.find(r, "C19:valid-name-contains-separator", "an identifier containing '/' passes validation", id, "rejected")
		}
		return "ok"

	case "utf8":
		s := string(unhx(f[1]))
		bz, err := json.Marshal(s)
		var back string
		if err == nil {
			err = json.Unmarshal(bz, &back)
		}
		if err != nil {
			return "err"
		}
		v := "0 "
		if utf8.ValidString(s) {
			v = "1 "
			r.Count("utf8.valid")
			if back != s {
				w.find(r, "C19:json-roundtrip-changes-valid-utf8", "encoding/json round trip changes a valid UTF-8 string", hxs(back), hxs(s))
			}
		} else {
			r.Count("utf8.invalid")
		}
		return v + hxs(back)

	case "parseuint":
		n, err := strconv.ParseUint(string(unhx(f[1])), 10, 64)
		if err != nil {
			return "err"
		}
		return "ok " + strconv.FormatUint(n, 10)

	case "camel":
		return hxs(abi.ToCamelCase(string(unhx(f[1]))))

	case "parsepath":
		a, b, err := host.ParsePath(string(unhx(f[1])))
		if err != nil {
			return "err"
		}
		return "ok " + hxs(a) + " " + hxs(b)

	case "pset":
		src, dst, seq, val := string(unhx(f[2])), string(unhx(f[3])), c19U64(f[4]), unhx(f[5])
		pk := w.app.XIBCKeeper.PacketKeeper
		switch f[1] {
		case "commit":
			pk.SetPacketCommitment(w.ctx, src, dst, seq, val)
		case "ack":
			pk.SetPacketAcknowledgement(w.ctx, src, dst, seq, val)
		case "receipt":
			pk.SetPacketReceipt(w.ctx, src, dst, seq)
			val = []byte{1}
		case "relayer":
			pk.SetPacketRelayer(w.ctx, src, dst, seq, string(val))
		}
		if !c19ValidName(src) || !c19ValidName(dst) {
			w.dirty = true
		}
		if m, ok := w.written[f[1]]; ok {
			m[hxs(src)+":"+hxs(dst)+":"+f[4]] = hx(val)
		}
		r.Count("hist.pset")
		if seq >= 1<<63 {
			r.Count("pset.seq-ge-2^63")
		}
		if c19ValidName(dst) {
			switch c := dst[len(dst)-1]; {
			case strings.IndexByte("sequences", c) >= 0:
				r.Count("pset.dst-ends-in-seq-letter")
			case !(c >= 'a' && c <= 'z' || c >= 'A' && c <= 'Z' || c >= '0' && c <= '9'):
				r.Count("pset.dst-ends-in-punct")
			}
		}
		return "ok"

	case "nset":
		src, dst := string(unhx(f[1])), string(unhx(f[2]))
		w.app.XIBCKeeper.PacketKeeper.SetNextSequenceSend(w.ctx, src, dst, c19U64(f[3]))
		if !c19ValidName(src) || !c19ValidName(dst) {
			w.dirty = true
		}
		w.written["seq"][hxs(src)+":"+hxs(dst)] = f[3]
		return "ok"

	case "cset":
		name := string(unhx(f[1]))
		w.app.XIBCKeeper.ClientKeeper.SetClientConsensusState(w.ctx, name, clienttypes.NewHeight(c19U64(f[2]), c19U64(f[3])), w.ss)
		if !c19ValidName(name) {
			w.dirty = true
		}
		w.cons[f[1]+":"+f[2]+":"+f[3]] = true
		r.Count("hist.cset")
		return "ok"

	case "clset":
		name := string(unhx(f[1]))
		w.app.XIBCKeeper.ClientKeeper.SetClientState(w.ctx, name, w.cs)
		if !c19ValidName(name) {
			w.dirty = true
		}
		w.clients[f[1]] = true
		return "ok"

	case "tmset":
		name := string(unhx(f[1]))
		h := clienttypes.NewHeight(c19U64(f[2]), c19U64(f[3]))
		w.app.XIBCKeeper.ClientKeeper.SetClientConsensusState(w.ctx, name, h, w.ss)
		cst := w.app.XIBCKeeper.ClientKeeper.ClientStore(w.ctx, name)
		tmtypes.SetProcessedTime(cst, h, c19U64(f[4]))
		tmtypes.SetIterationKey(cst, h)
		if !c19ValidName(name) {
			w.dirty = true
		}
		w.cons[f[1]+":"+f[2]+":"+f[3]] = true
		w.tmH[f[1]] = append(w.tmH[f[1]], [2]uint64{c19U64(f[2]), c19U64(f[3])})
		r.Count("hist.tmset")
		return "ok"

	case "evmset":
		name := string(unhx(f[1]))
		h := clienttypes.NewHeight(c19U64(f[2]), c19U64(f[3]))
		cst := w.app.XIBCKeeper.ClientKeeper.ClientStore(w.ctx, name)
		cst.Set(host.ConsensusStateKey(h), w.ssBz)
		if !c19ValidName(name) {
			w.dirty = true
		}
		w.cons[f[1]+":"+f[2]+":"+f[3]] = true
		w.evmH[f[1]] = append(w.evmH[f[1]], [2]uint64{c19U64(f[2]), c19U64(f[3])})
		r.Count("hist.evmset")
		return "ok"

	case "raw":
		var val []byte
		switch f[2] {
		case "c":
			val = w.csBz
		case "s":
			val = w.ssBz
		default:
			val = unhx(f[2])
		}
		w.store().Set(unhx(f[1]), val)
		w.dirty = true
		r.Count("hist.raw")
		return "ok"

	case "dump":
		var ks []string
		for _, k := range w.allKeys() {
			ks = append(ks, hx(k))
		}
		return c19OkList(ks)

	case "ihash":
		var out []string
		cb := func(src, dst string, seq uint64, val []byte) bool {
			out = append(out, hxs(src)+":"+hxs(dst)+":"+strconv.FormatUint(seq, 10)+":"+w.kindOf(val))
			return false
		}
		pk := w.app.XIBCKeeper.PacketKeeper
		pan, msg := safely(func() {
			switch f[1] {
			case "commit":
				pk.IteratePacketCommitment(w.ctx, cb)
			case "ack":
				pk.IteratePacketAcknowledgement(w.ctx, cb)
			case "receipt":
				pk.IteratePacketReceipt(w.ctx, cb)
			}
		})
		if pan {
			r.Count("iter.panic")
			if !w.dirty {
				w.find(r, "C19:packet-key-readback-panic:"+f[1], "iterator panics on keys written through the keeper with valid names: "+msg, "panic", "the written triples")
			}
			return "panic"
		}
		if !w.dirty {
			r.Count("oracle.packet-readback")
			if !c19SetEq(out, w.written[f[1]]) {
				w.find(r, "C19:packet-key-readback:"+f[1], "keys written through the keeper are not read back as the triples they were written for",
					strings.Join(out, ","), sortedKV(w.written[f[1]]))
			}
		}
		r.Nontrivial(strings.Join(w.hist, ";"))
		return c19OkList(out)

	case "bypath-get", "bypath-iter", "grpc":
		fam := "commit"
		fn := "GetAllPacketCommitmentsByPath"
		ai := 1
		if f[0] == "grpc" {
			fam, ai = f[1], 2
			fn = map[string]string{"commit": "grpc.PacketCommitments", "ack": "grpc.PacketAcknowledgements"}[fam]
		} else if f[0] == "bypath-iter" {
			fn = "IteratePacketCommitmentByPath"
		}
		src, dst := string(unhx(f[ai])), string(unhx(f[ai+1]))
		var out []string
		var qerr error
		pk := w.app.XIBCKeeper.PacketKeeper
		show := func(a, b string, seq uint64, val []byte) {
			out = append(out, hxs(a)+":"+hxs(b)+":"+strconv.FormatUint(seq, 10)+":"+w.kindOf(val))
		}
		pan, msg := safely(func() {
			switch {
			case f[0] == "bypath-get":
				for _, ps := range pk.GetAllPacketCommitmentsByPath(w.ctx, src, dst) {
					show(ps.SrcChain, ps.DstChain, ps.Sequence, ps.Data)
				}
			case f[0] == "bypath-iter":
				pk.IteratePacketCommitmentByPath(w.ctx, src, dst, func(a, b string, seq uint64, val []byte) bool { show(a, b, seq, val); return false })
			case fam == "commit":
				var resp *packettypes.QueryPacketCommitmentsResponse
				resp, qerr = pk.PacketCommitments(sdk.WrapSDKContext(w.ctx), &packettypes.QueryPacketCommitmentsRequest{SrcChain: src, DstChain: dst, Pagination: &query.PageRequest{Limit: 1 << 20}})
				if qerr == nil {
					for _, ps := range resp.Commitments {
						show(ps.SrcChain, ps.DstChain, ps.Sequence, ps.Data)
					}
				}
			case fam == "ack":
				var resp *packettypes.QueryPacketAcknowledgementsResponse
				resp, qerr = pk.PacketAcknowledgements(sdk.WrapSDKContext(w.ctx), &packettypes.QueryPacketAcknowledgementsRequest{SrcChain: src, DstChain: dst, Pagination: &query.PageRequest{Limit: 1 << 20}})
				if qerr == nil {
					for _, ps := range resp.Acknowledgements {
						show(ps.SrcChain, ps.DstChain, ps.Sequence, ps.Data)
					}
				}
			default:
				r.t.Fatalf("bad op %q", op)
			}
		})
		clean := !w.dirty && c19ValidName(src) && c19ValidName(dst)
		// ---- oracle: the by-path read returns exactly what was written for (src, dst) ----
		want := map[string]string{}
		related, srcRelated := false, false
		for k, v := range w.written[fam] {
			p := strings.Split(k, ":")
			a, b := string(unhx(p[0])), string(unhx(p[1]))
			if a == src && b == dst {
				want[k] = v
				continue
			}
			if a == src && len(b) > len(dst) && strings.HasPrefix(b, dst) {
				related = true // another destination whose NAME extends the requested one
			}
			if len(a) > len(src) && strings.HasPrefix(a, src) {
				srcRelated = true
			}
		}
		if pan {
			r.Count("iter.panic")
			if clean {
				w.find(r, "C19:bypath-readback-panic:"+fn, "by-path scan panics on keys written through the keeper with valid names: "+msg, "panic", sortedKV(want))
			}
			return "panic"
		}
		if qerr != nil {
			r.Count("bypath.err")
			if clean {
				w.find(r, "C19:bypath-readback-error:"+fn, "by-path query fails on keys written through the keeper with valid names: "+qerr.Error(), "error", sortedKV(want))
			}
			return "err"
		}
		if clean {
			r.Count("oracle.bypath-readback")
			if related {
				r.Count("bypath.prefix-related")
			}
			if srcRelated {
				r.Count("bypath.src-prefix-related")
			}
			if len(want) > 0 {
				r.Count("bypath.nonempty")
			}
			if !c19SetEq(out, want) {
				w.find(r, "C19:bypath-readback:"+fn, "a per-path scan for (src, dst) does not return exactly the entries written for (src, dst)",
					strings.Join(out, ","), sortedKV(want))
			}
		}
		r.Nontrivial(strings.Join(w.hist, ";"))
		return c19OkList(out)

	case "pget", "phas", "nget":
		pk := w.app.XIBCKeeper.PacketKeeper
		var out, fn, fam, wkey string
		var src, dst string
		pan, msg := safely(func() {
			if f[0] == "nget" {
				src, dst = string(unhx(f[1])), string(unhx(f[2]))
				fn, fam, wkey = "GetNextSequenceSend", "seq", f[1]+":"+f[2]
				out = strconv.FormatUint(pk.GetNextSequenceSend(w.ctx, src, dst), 10)
				return
			}
			fam = f[1]
			src, dst = string(unhx(f[2])), string(unhx(f[3]))
			seq := c19U64(f[4])
			wkey = f[2] + ":" + f[3] + ":" + f[4]
			some := func(bz []byte, ok bool) string {
				if !ok {
					return "none"
				}
				return "some " + w.kindOf(bz)
			}
			if f[0] == "pget" {
				switch fam {
				case "commit":
					fn = "GetPacketCommitment"
					bz := pk.GetPacketCommitment(w.ctx, src, dst, seq)
					out = some(bz, bz != nil)
				case "ack":
					fn = "GetPacketAcknowledgement"
					out = some(pk.GetPacketAcknowledgement(w.ctx, src, dst, seq))
				case "receipt":
					fn = "GetPacketReceipt"
					v, ok := pk.GetPacketReceipt(w.ctx, src, dst, seq)
					out = some([]byte(v), ok)
				case "relayer":
					fn = "GetPacketRelayer"
					v := pk.GetPacketRelayer(w.ctx, src, dst, seq)
					out = some([]byte(v), v != "")
				default:
					r.t.Fatalf("bad op %q", op)
				}
			} else {
				var ok bool
				switch fam {
				case "commit":
					fn = "HasPacketCommitment"
					ok = pk.HasPacketCommitment(w.ctx, src, dst, seq)
				case "ack":
					fn = "HasPacketAcknowledgement"
					ok = pk.HasPacketAcknowledgement(w.ctx, src, dst, seq)
				case "receipt":
					fn = "HasPacketReceipt"
					ok = pk.HasPacketReceipt(w.ctx, src, dst, seq)
				default:
					r.t.Fatalf("bad op %q", op)
				}
				out = "0"
				if ok {
					out = "1"
				}
			}
		})
		if pan {
			r.Count("iter.panic")
			if !w.dirty {
				w.find(r, "C19:point-readback-panic:"+fn, "point getter panics: "+msg, "panic", "the written value")
			}
			return "panic"
		}
		// ---- oracle: the point getter returns what the setter stored for exactly this (src, dst[, sequence]) ----
		if !w.dirty && c19ValidName(src) && c19ValidName(dst) {
			wv, written := w.written[fam][wkey]
			var want string
			switch {
			case f[0] == "nget" && written:
				want = wv
			case f[0] == "nget":
				want = "1"
			case f[0] == "phas" && written:
				want = "1"
			case f[0] == "phas":
				want = "0"
			case written:
				want = "some " + wv
			default:
				want = "none"
			}
			r.Count("oracle.point-readback")
			if written {
				r.Count("point.written")
			} else {
				r.Count("point.absent")
			}
			if src != strings.ToLower(src) || dst != strings.ToLower(dst) {
				r.Count("point.mixed-case")
			}
			// is a triple that differs from the queried one only in the case of letters in the store?
			for k := range w.written[fam] {
				if k != wkey && strings.EqualFold(c19Unhex3(k), c19Unhex3(wkey)) {
					r.Count("point.case-sibling")
					break
				}
			}
			if out != want {
				w.find(r, "C19:point-readback:"+fn, "a point getter does not return what the setter stored for the same (src, dst, sequence)", out, want)
			}
		}
		r.Nontrivial(op + "@" + strconv.Itoa(len(w.hist)))
		return out

	case "discard":
		// the inner op runs on a cache context that is dropped: nothing may change
		inner := strings.Join(f[1:], " ")
		before := w.storeDigest()
		saveCtx, saveBook := w.ctx, w.snapshotBook()
		w.ctx, _ = saveCtx.CacheContext()
		w.hist = w.hist[:len(w.hist)-1]
		out := w.apply(r, inner)
		w.hist[len(w.hist)-1] = op
		w.ctx = saveCtx
		w.restoreBook(saveBook)
		r.Count("discard.ops")
		if after := w.storeDigest(); after != before {
			w.find(r, "C19:discarded-write-visible", "an operation executed on a dropped cache context changed the store", after, before)
		}
		return out

	case "key2":
		sepIdx := -1
		for i, x := range f {
			if x == "|" {
				sepIdx = i
			}
		}
		a, b := f[2:sepIdx], f[sepIdx+1:]
		k1 := c19BuildKey(f[1], a)
		s1 := append([]byte{}, k1...)
		k2 := c19BuildKey(f[1], b)
		s2 := append([]byte{}, k2...)
		o1 := hx(k1)
		k3 := c19BuildKey(f[1], a)
		o2 := hx(k2)
		r.Count("key2.ops")
		if !bytes.Equal(k1, s1) || !bytes.Equal(k2, s2) || !bytes.Equal(k3, s1) {
			w.find(r, "C19:key-aliasing:"+f[1], "a key returned by a key builder changes when the builder is called again (shared backing array)",
				"first key now "+hx(k1)+", second key now "+hx(k2), "first key "+hx(s1)+", second key "+hx(s2))
		}
		return o1 + " " + o2

	case "heightstr":
		h := clienttypes.NewHeight(c19U64(f[1]), c19U64(f[2]))
		txt := h.String()
		r.Count("heighttext.ops")
		if c19U64(f[1]) >= 1<<63 || c19U64(f[2]) >= 1<<63 {
			r.Count("heighttext.ge-2^63")
		}
		back, err := clienttypes.ParseHeight(txt)
		if err != nil || !back.EQ(h) {
			w.find(r, "C19:height-text-roundtrip", "ParseHeight(Height.String()) does not return the height", fmt.Sprintf("%q -> %v %v", txt, back, err), f[1]+"-"+f[2])
		}
		return hxs(txt)

	case "parseheight":
		h, err := clienttypes.ParseHeight(string(unhx(f[1])))
		if err != nil {
			return "err"
		}
		return fmt.Sprintf("ok %d-%d", h.RevisionNumber, h.RevisionHeight)

	case "iterkeyrt", "hfk":
		var key []byte
		if f[0] == "iterkeyrt" {
			h := clienttypes.NewHeight(c19U64(f[2]), c19U64(f[3]))
			if f[1] == "tm" {
				key = tmtypes.IterationKey(h)
			} else {
				key = host.ConsensusStateKey(h)
			}
		} else {
			key = unhx(f[2])
		}
		var got exported.Height
		pan, msg := safely(func() {
			switch f[1] {
			case "tm":
				got = tmtypes.GetHeightFromIterationKey(key)
			case "bsc":
				got = bsctypes.GetHeightFromIterationKey(key)
			case "eth":
				got = ethtypes.GetHeightFromIterationKey(key)
			}
		})
		if f[0] == "iterkeyrt" {
			r.Count("iterkeyrt.ops")
			if c19U64(f[2]) != 0 {
				r.Count("iterkeyrt.revision-nonzero")
			}
			want := f[2] + "-" + f[3]
			if pan {
				w.find(r, "C19:iterkey-height-roundtrip:"+f[1], "GetHeightFromIterationKey panics on a key built by the key builder: "+msg, "panic", want)
			} else if fmt.Sprintf("%d-%d", got.GetRevisionNumber(), got.GetRevisionHeight()) != want {
				w.find(r, "C19:iterkey-height-roundtrip:"+f[1], "GetHeightFromIterationKey does not return the height the key was built for",
					fmt.Sprintf("%d-%d", got.GetRevisionNumber(), got.GetRevisionHeight()), want)
			}
		}
		if pan {
			return "panic"
		}
		return fmt.Sprintf("ok %d-%d", got.GetRevisionNumber(), got.GetRevisionHeight())

	case "tmgetiter":
		h := clienttypes.NewHeight(c19U64(f[2]), c19U64(f[3]))
		cst := w.app.XIBCKeeper.ClientKeeper.ClientStore(w.ctx, string(unhx(f[1])))
		v := tmtypes.GetIterationKey(cst, h)
		out := "none"
		if v != nil {
			out = w.kindOf(v)
		}
		if !w.dirty {
			wrote := false
			for _, x := range w.tmH[f[1]] {
				if x == [2]uint64{c19U64(f[2]), c19U64(f[3])} {
					wrote = true
				}
			}
			want := "none"
			if wrote {
				want = hx(host.ConsensusStateKey(h))
			}
			r.Count("oracle.stored-key-value")
			if out != want {
				w.find(r, "C19:stored-key-value-readback:tm.IterationKey", "the consensus-state key stored as the VALUE of an iteration entry is not the key of that height", out, want)
			}
		}
		return out

	case "bscsigner":
		name := string(unhx(f[1]))
		cst := w.app.XIBCKeeper.ClientKeeper.ClientStore(w.ctx, name)
		bsctypes.SetSigner(cst, bsctypes.Signer{Height: clienttypes.NewHeight(c19U64(f[2]), c19U64(f[3])), Validator: unhx(f[4])})
		if !c19ValidName(name) {
			w.dirty = true
		}
		if w.signers[f[1]] == nil {
			w.signers[f[1]] = map[string]string{}
		}
		w.signers[f[1]][f[2]+"-"+f[3]] = hx(unhx(f[4]))
		r.Count("hist.bscsigner")
		if c19U64(f[2]) >= 1<<63 || c19U64(f[3]) >= 1<<63 {
			r.Count("bscsigner.ge-2^63")
		}
		return "ok"

	case "bscsigners":
		cst := w.app.XIBCKeeper.ClientKeeper.ClientStore(w.ctx, string(unhx(f[1])))
		var ss []bsctypes.Signer
		var err error
		pan, msg := safely(func() { ss, err = bsctypes.GetRecentSigners(cst) })
		var out []string
		for _, x := range ss {
			out = append(out, fmt.Sprintf("%d-%d:%s", x.Height.RevisionNumber, x.Height.RevisionHeight, w.kindOf(x.Validator)))
		}
		if !w.dirty {
			r.Count("oracle.bsc-signer-readback")
			switch {
			case pan:
				w.find(r, "C19:bsc-signer-readback-panic", "GetRecentSigners panics on keys written by SetSigner: "+msg, "panic", sortedKV(w.signers[f[1]]))
			case err != nil:
				w.find(r, "C19:bsc-signer-readback-error", "GetRecentSigners cannot read back the keys written by SetSigner: "+err.Error(), "error", sortedKV(w.signers[f[1]]))
			case !c19SetEq(out, w.signers[f[1]]):
				w.find(r, "C19:bsc-signer-readback", "recent signers are not read back at the heights they were written for", strings.Join(out, ","), sortedKV(w.signers[f[1]]))
			}
		}
		if pan {
			r.Count("iter.panic")
			return "panic"
		}
		if err != nil {
			return "err"
		}
		return c19OkList(out)

	case "bscdelsigners":
		cst := w.app.XIBCKeeper.ClientKeeper.ClientStore(w.ctx, string(unhx(f[1])))
		var err error
		foreignBefore := w.foreignEntries(string(unhx(f[1])))
		pan, msg := safely(func() { err = bsctypes.DeleteAllSigner(cst) })
		r.Count("frame.bscdelsigners")
		if w.hasPrefixRelatedClient(string(unhx(f[1]))) {
			r.Count("frame.prefix-related.bscdelsigners")
		}
		if after := w.foreignEntries(string(unhx(f[1]))); after != foreignBefore {
			w.find(r, "C19:foreign-client-keys-changed:bscdelsigners", "an operation on one client changed store entries that do not belong to it", c19FirstDiff(foreignBefore, after), "unchanged")
		}
		if !w.dirty {
			left := 0
			it := sdk.KVStorePrefixIterator(cst, []byte(bsctypes.PrefixKeyRecentSingers))
			for ; it.Valid(); it.Next() {
				left++
			}
			it.Close()
			switch {
			case pan:
				w.find(r, "C19:bsc-signer-delete-panic", "DeleteAllSigner panics on keys written by SetSigner: "+msg, "panic", "all signer entries deleted")
			case err != nil:
				w.find(r, "C19:bsc-signer-delete-error", "DeleteAllSigner cannot parse the keys written by SetSigner: "+err.Error(), "error", "all signer entries deleted")
			case left != 0:
				w.find(r, "C19:bsc-signer-delete-leftover", "DeleteAllSigner leaves entries written by SetSigner behind", fmt.Sprint(left)+" entries left", "0 entries left")
			}
		}
		if pan {
			r.Count("iter.panic")
			return "panic"
		}
		if err != nil {
			return "err"
		}
		delete(w.signers, f[1])
		return "ok"

	case "ethsetroot":
		name := string(unhx(f[1]))
		cst := w.app.XIBCKeeper.ClientKeeper.ClientStore(w.ctx, name)
		root, hh := common.BytesToHash(unhx(f[3])), common.BytesToHash(unhx(f[4]))
		ethtypes.SetEthConsensusRoot(cst, c19U64(f[2]), root, hh)
		if !c19ValidName(name) {
			w.dirty = true
		}
		w.ethRoot[f[1]+":"+f[3]+":"+f[2]] = hx(ethtypes.EthHeaderIndexKey(hh, c19U64(f[2])))
		return "ok"

	case "ethgetroot":
		cst := w.app.XIBCKeeper.ClientKeeper.ClientStore(w.ctx, string(unhx(f[1])))
		v := ethtypes.GetHeaderIndexKeyByEthConsensusRoot(cst, common.BytesToHash(unhx(f[2])), c19U64(f[3]))
		out := "none"
		if v != nil {
			out = w.kindOf(v)
		}
		if !w.dirty {
			want, ok := w.ethRoot[f[1]+":"+f[2]+":"+f[3]]
			if !ok {
				want = "none"
			}
			r.Count("oracle.eth-root-readback")
			if out != want {
				w.find(r, "C19:point-readback:eth.RootMain", "the header-index key stored under an eth main-root key is not read back", out, want)
			}
		}
		return out

	case "mkey":
		// exactly what tendermint ClientState.VerifyPacketCommitment does with the host path
		a := f[3:]
		pathBz := c19BuildKey(f[1], a)
		mp := commitmenttypes.NewMerklePath(string(pathBz))
		pre := commitmenttypes.NewMerklePrefix(unhx(f[2]))
		full, err := commitmenttypes.ApplyPrefix(&pre, mp)
		if err != nil {
			return "err"
		}
		k, err := full.GetKey(1)
		if err != nil {
			r.Count("mkey.err")
			return "err"
		}
		r.Count("mkey.ok")
		// ---- oracle: the key looked up in a proof is the key the keeper stores under ----
		keyFn := strings.TrimSuffix(f[1], "Path") + "Key"
		valid := true
		plus := false
		for i, kd := range c19KeyFuncs[f[1]] {
			if kd == 's' {
				nm := string(unhx(a[i]))
				if !c19ValidName(nm) {
					valid = false
				}
				if strings.Contains(nm, "+") {
					plus = true
				}
			}
		}
		// (ConsensusStatePath is a text form that is never stored; the stored consensus-state key is binary)
		if ok := strings.HasPrefix(keyFn, "Packet") || keyFn == "NextSequenceSendKey"; ok && valid {
			r.Count("oracle.merkle-key")
			if plus {
				r.Count("merkle.name-with-plus")
			}
			stored := c19BuildKey(keyFn, a)
			if !bytes.Equal(k, stored) {
				w.find(r, "C19:merkle-key-differs-from-stored-key:"+keyFn, "the key the Tendermint client looks up in a proof is not the key the keeper stores under", hx(k), hx(stored))
			}
			// and the entry really written through the keeper is found under the looked-up key
			if fam, ok := map[string]string{"PacketCommitmentKey": "commit", "PacketAcknowledgementKey": "ack", "PacketReceiptKey": "receipt"}[keyFn]; ok {
				cctx, _ := w.ctx.CacheContext()
				pk := w.app.XIBCKeeper.PacketKeeper
				src, dst, seq := string(unhx(a[0])), string(unhx(a[1])), c19U64(a[2])
				switch fam {
				case "commit":
					pk.SetPacketCommitment(cctx, src, dst, seq, []byte{0xc1})
				case "ack":
					pk.SetPacketAcknowledgement(cctx, src, dst, seq, []byte{0xc1})
				case "receipt":
					pk.SetPacketReceipt(cctx, src, dst, seq)
				}
				if !cctx.KVStore(w.key).Has(k) {
					w.find(r, "C19:merkle-key-differs-from-stored-key:"+keyFn, "the entry written through the keeper is not stored under the key a proof looks up", hx(k)+" absent", hx(stored)+" present")
				}
			}
		}
		return "ok " + hx(k)

	case "mcodec":
		sv := string(unhx(f[1]))
		mp := commitmenttypes.NewMerklePath(sv)
		str := mp.String()
		pretty := "panic"
		if pan, _ := safely(func() { pretty = hxs(mp.Pretty()) }); pan {
			pretty = "panic"
		}
		gk := "err"
		if k, err := mp.GetKey(0); err == nil {
			gk = hx(k)
		}
		esc := "err"
		k2, err := commitmenttypes.NewMerklePath(url.PathEscape(sv)).GetKey(0)
		if err == nil {
			esc = hx(k2)
		}
		r.Count("mcodec.ops")
		if strings.ContainsAny(sv, "+% /") {
			r.Count("mcodec.special-bytes")
		}
		if err != nil || string(k2) != sv {
			w.find(r, "C19:merkle-escaped-key-roundtrip", "GetKey of an escaped key-path element does not return the original bytes", esc, hxs(sv))
		}
		if pretty != hxs("/"+sv) {
			w.find(r, "C19:merkle-pretty-roundtrip", "Pretty() of a one-element path is not '/' + the element", pretty, hxs("/"+sv))
		}
		return hxs(str) + " " + pretty + " " + gk + " " + esc

	case "e2e":
		pre, src, dst, seq, val := string(unhx(f[2])), string(unhx(f[3])), string(unhx(f[4])), c19U64(f[5]), unhx(f[6])
		var verr error
		pan, msg := safely(func() { verr = w.e2eVerify(f[1], pre, src, dst, seq, val) })
		r.Count("e2e.ops")
		if strings.Contains(src+dst, "+") {
			r.Count("e2e.name-with-plus")
		}
		if c19ValidName(src) && c19ValidName(dst) && len(val) > 0 && pre != "" {
			if pan {
				w.find(r, "C19:merkle-proof-of-stored-key-rejected:"+f[1], "proof verification panics: "+msg, "panic", "verified")
			} else if verr != nil {
				w.find(r, "C19:merkle-proof-of-stored-key-rejected:"+f[1], "a valid ICS-23 membership proof of the stored key is rejected by the Tendermint client: "+verr.Error(), "rejected", "verified")
			}
		}
		if pan || verr != nil {
			return "err"
		}
		return "ok"

	case "ctoggle", "cupgrade":
		name := string(unhx(f[1]))
		ck := w.app.XIBCKeeper.ClientKeeper
		before := w.foreignEntries(name)
		var err error
		pan, _ := safely(func() {
			cur, found := ck.GetClientState(w.ctx, name)
			if !found {
				err = fmt.Errorf("not found")
				return
			}
			// toggle: to the other type; upgrade: to the same type
			toTm := cur.ClientType() != w.cs.ClientType()
			if f[0] == "cupgrade" {
				toTm = !toTm
			}
			var ncs exported.ClientState = w.cs2
			var ncons exported.ConsensusState = &tsstypes.ConsensusState{}
			if toTm {
				ncs, ncons = w.cs, w.ss
			}
			if f[0] == "ctoggle" {
				err = ck.ToggleClient(w.ctx, name, ncs, ncons)
			} else {
				err = ck.UpgradeClient(w.ctx, name, ncs, ncons)
			}
		})
		// ---- frame oracle on the raw store: a range-style operation on one client leaves every other key byte-identical ----
		r.Count("frame." + f[0])
		if w.hasPrefixRelatedClient(name) {
			r.Count("frame.prefix-related." + f[0])
		}
		if after := w.foreignEntries(name); after != before {
			w.find(r, "C19:foreign-client-keys-changed:"+f[0], "an operation on one client changed store entries that do not belong to it", c19FirstDiff(before, after), "unchanged")
		}
		if pan {
			r.Count("iter.panic")
			return "panic"
		}
		if err != nil {
			return "err"
		}
		// bookkeeping for the standing oracles: the client's own entries changed
		w.dirty = true
		return "ok"

	case "gcons":
		name := string(unhx(f[1]))
		ck := w.app.XIBCKeeper.ClientKeeper
		limit := uint64(1 << 20)
		if len(f) > 2 {
			limit = c19U64(f[2])
		}
		var out []string
		var qerr error
		pan, msg := safely(func() {
			page := &query.PageRequest{Limit: limit}
			for i := 0; i < 100000; i++ {
				resp, err := ck.ConsensusStates(sdk.WrapSDKContext(w.ctx), &clienttypes.QueryConsensusStatesRequest{ChainName: name, Pagination: page})
				if err != nil {
					qerr = err
					return
				}
				for _, cs := range resp.ConsensusStates {
					out = append(out, fmt.Sprintf("%d-%d", cs.Height.RevisionNumber, cs.Height.RevisionHeight))
				}
				if resp.Pagination == nil || len(resp.Pagination.NextKey) == 0 {
					return
				}
				page = &query.PageRequest{Key: resp.Pagination.NextKey, Limit: limit}
			}
		})
		// ---- oracle (own record): the query returns exactly the heights consensus states were written at for this client ----
		if !w.dirty && c19ValidName(name) {
			r.Count("oracle.grpc-ConsensusStates")
			if len(f) > 2 {
				r.Count("grpc-ConsensusStates.paged")
			}
			want := map[string]bool{}
			for k := range w.cons {
				p := strings.Split(k, ":")
				if p[0] == f[1] {
					want[p[1]+"-"+p[2]] = true
				}
			}
			got := map[string]bool{}
			for _, o := range out {
				got[o] = true
			}
			cls := func(h string) string {
				var a, b uint64
				fmt.Sscanf(h, "%d-%d", &a, &b)
				kb := host.ConsensusStateKey(clienttypes.NewHeight(a, b))
				if bytes.IndexByte(kb[len(kb)-16:], '/') >= 0 {
					return "height-bytes-with-0x2f"
				}
				return "other-height"
			}
			for h := range want {
				if cls(h) == "height-bytes-with-0x2f" {
					r.Count("grpc-ConsensusStates.0x2f-height")
				}
			}
			switch {
			case pan:
				w.find(r, "C19:grpc-ConsensusStates-panic", "the ConsensusStates query panics on keys written through the keeper: "+msg, "panic", fmt.Sprint(len(want))+" heights")
			case qerr != nil:
				w.find(r, "C19:grpc-ConsensusStates-error", "the ConsensusStates query fails on keys written through the keeper: "+qerr.Error(), "error", fmt.Sprint(len(want))+" heights")
			default:
				for h := range want {
					if !got[h] {
						w.find(r, "C19:grpc-ConsensusStates-lost-entry:"+cls(h), "a consensus state written for this client is not returned by the ConsensusStates query", strings.Join(out, ",")+" (missing "+h+")", "includes "+h)
					}
				}
				for h := range got {
					if !want[h] {
						w.find(r, "C19:grpc-ConsensusStates-wrong-entry:"+cls(h), "the ConsensusStates query returns a height nothing was written at", h, "only written heights")
					}
				}
				if len(out) != len(got) {
					w.find(r, "C19:grpc-ConsensusStates-wrong-entry:duplicate", "the ConsensusStates query returns a height twice (paging)", strings.Join(out, ","), "each height once")
				}
			}
		}
		if pan {
			r.Count("iter.panic")
			return "panic"
		}
		if qerr != nil {
			return "err"
		}
		r.Nontrivial(strings.Join(w.hist, ";"))
		return c19OkList(out)

	case "gclients":
		var out []string
		var qerr error
		pan, _ := safely(func() {
			resp, err := w.app.XIBCKeeper.ClientKeeper.ClientStates(sdk.WrapSDKContext(w.ctx), &clienttypes.QueryClientStatesRequest{})
			if err != nil {
				qerr = err
				return
			}
			for _, cs := range resp.ClientStates {
				out = append(out, hxs(cs.ChainName))
			}
		})
		if pan {
			r.Count("iter.panic")
			return "panic"
		}
		if qerr != nil {
			return "err"
		}
		if !w.dirty {
			r.Count("oracle.grpc-ClientStates")
			got := map[string]bool{}
			for _, o := range out {
				got[o] = true
			}
			for n := range w.clients {
				if !got[n] {
					w.find(r, "C19:grpc-ClientStates-lost-entry:name", "a client state written through the keeper is not returned by the ClientStates query", strings.Join(out, ","), "includes "+n)
				}
			}
			for n := range got {
				if !w.clients[n] {
					w.find(r, "C19:grpc-ClientStates-wrong-entry:name", "the ClientStates query returns a client nothing was written for", n, "only written clients")
				}
			}
		}
		return c19OkList(out)

	case "grpcp":
		// the packet list queries paged through NextKey: the union of the pages is the unpaged answer
		fam, src, dst, limit := f[1], string(unhx(f[2])), string(unhx(f[3])), c19U64(f[4])
		pk := w.app.XIBCKeeper.PacketKeeper
		var out []string
		var qerr error
		pan, _ := safely(func() {
			page := &query.PageRequest{Limit: limit}
			for i := 0; i < 100000; i++ {
				var states []*packettypes.PacketState
				var pr *query.PageResponse
				if fam == "commit" {
					resp, err := pk.PacketCommitments(sdk.WrapSDKContext(w.ctx), &packettypes.QueryPacketCommitmentsRequest{SrcChain: src, DstChain: dst, Pagination: page})
					if err != nil {
						qerr = err
						return
					}
					states, pr = resp.Commitments, resp.Pagination
				} else {
					resp, err := pk.PacketAcknowledgements(sdk.WrapSDKContext(w.ctx), &packettypes.QueryPacketAcknowledgementsRequest{SrcChain: src, DstChain: dst, Pagination: page})
					if err != nil {
						qerr = err
						return
					}
					states, pr = resp.Acknowledgements, resp.Pagination
				}
				for _, ps := range states {
					out = append(out, hxs(ps.SrcChain)+":"+hxs(ps.DstChain)+":"+strconv.FormatUint(ps.Sequence, 10)+":"+w.kindOf(ps.Data))
				}
				if pr == nil || len(pr.NextKey) == 0 {
					return
				}
				page = &query.PageRequest{Key: pr.NextKey, Limit: limit}
			}
		})
		if pan {
			r.Count("iter.panic")
			return "panic"
		}
		if qerr != nil {
			return "err"
		}
		if !w.dirty && c19ValidName(src) && c19ValidName(dst) {
			r.Count("oracle.grpc-packet-paged")
			want := map[string]string{}
			for k, v := range w.written[fam] {
				p := strings.Split(k, ":")
				if string(unhx(p[0])) == src && string(unhx(p[1])) == dst {
					want[k] = v
				}
			}
			if !c19SetEq(out, want) {
				name := map[string]string{"commit": "PacketCommitments", "ack": "PacketAcknowledgements"}[fam]
				w.find(r, "C19:grpc-"+name+"-lost-entry:paged", "paging through the packet list query does not return exactly the entries written for (src, dst)", strings.Join(out, ","), sortedKV(want))
			}
		}
		return c19OkList(out)

	case "iseq":
		var out []string
		var seqs []packettypes.PacketSequence
		pan, _ := safely(func() { seqs = w.app.XIBCKeeper.PacketKeeper.GetAllPacketSendSeqs(w.ctx) })
		if pan {
			r.Count("iter.panic")
			return "panic"
		}
		for _, s := range seqs {
			out = append(out, hxs(s.SrcChain)+":"+hxs(s.DstChain)+":"+strconv.FormatUint(s.Sequence, 10))
		}
		if !w.dirty {
			r.Count("oracle.seq-readback")
			if !c19SetEq(out, w.written["seq"]) {
				w.find(r, "C19:nextseq-key-readback", "next-sequence keys are not read back as the pairs they were written for", strings.Join(out, ","), sortedKV(w.written["seq"]))
			}
		}
		return c19OkList(out)

	case "icons":
		var out []string
		pan, msg := safely(func() {
			w.app.XIBCKeeper.ClientKeeper.IterateConsensusStates(w.ctx, func(name string, cs clienttypes.ConsensusStateWithHeight) bool {
				out = append(out, fmt.Sprintf("%s:%d:%d", hxs(name), cs.Height.RevisionNumber, cs.Height.RevisionHeight))
				return false
			})
		})
		if pan {
			r.Count("iter.panic")
			if !w.dirty {
				w.find(r, "C19:cons-key-readback-panic", "IterateConsensusStates panics on keys written through the keeper: "+msg, "panic", "the written heights")
			}
			return "panic"
		}
		if !w.dirty {
			r.Count("oracle.cons-readback")
			ok := len(out) == len(w.cons)
			for _, o := range out {
				if !w.cons[o] {
					ok = false
				}
			}
			if !ok {
				var want []string
				for k := range w.cons {
					want = append(want, k)
				}
				sort.Strings(want)
				w.find(r, "C19:cons-key-readback", "consensus states written through the keeper are not read back at the heights they were written for",
					strings.Join(out, ","), strings.Join(want, ","))
			}
		}
		r.Nontrivial(strings.Join(w.hist, ";"))
		return c19OkList(out)

	case "iclients":
		var out []string
		pan, _ := safely(func() {
			w.app.XIBCKeeper.ClientKeeper.IterateClients(w.ctx, func(name string, _ exported.ClientState) bool {
				out = append(out, hxs(name))
				return false
			})
		})
		if pan {
			r.Count("iter.panic")
			return "panic"
		}
		if !w.dirty {
			r.Count("oracle.client-readback")
			ok := len(out) == len(w.clients)
			for _, o := range out {
				if !w.clients[o] {
					ok = false
				}
			}
			if !ok {
				w.find(r, "C19:client-key-readback", "client states written through the keeper are not read back under their chain names", strings.Join(out, ","), fmt.Sprint(len(w.clients))+" clients")
			}
		}
		return c19OkList(out)

	case "tmpt":
		var out []string
		cst := w.app.XIBCKeeper.ClientKeeper.ClientStore(w.ctx, string(unhx(f[1])))
		pan, _ := safely(func() {
			tmtypes.IterateProcessedTime(cst, func(k, _ []byte) bool { out = append(out, hx(k)); return false })
		})
		if pan {
			r.Count("iter.panic")
			return "panic"
		}
		if !w.dirty {
			r.Count("oracle.tm-readback")
			var want []string
			for _, h := range c19HeightsSorted(w.tmH[f[1]]) {
				var a, b uint64
				fmt.Sscanf(h, "%d-%d", &a, &b)
				want = append(want, hx(tmtypes.ProcessedTimeKey(clienttypes.NewHeight(a, b))))
			}
			if strings.Join(out, ",") != strings.Join(want, ",") {
				w.find(r, "C19:tm-processed-time-readback", "processed-time entries are not all visited by IterateProcessedTime", strings.Join(out, ","), strings.Join(want, ","))
			}
		}
		return c19OkList(out)

	case "tmasc", "bscasc", "ethasc":
		var out []string
		cst := w.app.XIBCKeeper.ClientKeeper.ClientStore(w.ctx, string(unhx(f[1])))
		cb := func(h exported.Height) bool {
			out = append(out, fmt.Sprintf("%d-%d", h.GetRevisionNumber(), h.GetRevisionHeight()))
			return false
		}
		pan, _ := safely(func() {
			switch f[0] {
			case "tmasc":
				tmtypes.IterateConsensusStateAscending(cst, cb)
			case "bscasc":
				bsctypes.IterateConsensusStateAscending(cst, cb)
			case "ethasc":
				ethtypes.IterateConsensusStateAscending(cst, cb)
			}
		})
		if pan {
			r.Count("iter.panic")
			return "panic"
		}
		if !w.dirty {
			r.Count("oracle.height-readback")
			var hs [][2]uint64
			hs = append(hs, w.tmH[f[1]]...)
			if f[0] != "tmasc" {
				hs = append(hs, w.evmH[f[1]]...)
				// consensus states written by cset live under the same keys
				for k := range w.cons {
					p := strings.Split(k, ":")
					if p[0] == f[1] {
						hs = append(hs, [2]uint64{c19U64(p[1]), c19U64(p[2])})
					}
				}
			}
			want := c19HeightsSorted(hs)
			if strings.Join(out, ",") != strings.Join(want, ",") {
				w.find(r, "C19:height-readback:"+f[0], "stored consensus heights are not read back (all, ascending) by the client store iterator", strings.Join(out, ","), strings.Join(want, ","))
			}
		}
		r.Nontrivial(strings.Join(w.hist, ";"))
		return c19OkList(out)
	}
	r.t.Fatalf("bad op %q", op)
	return ""
}

// ---- generators ----------------------------------------------------------------------------------------

type c19Gen struct{ r *Rec }

func (g c19Gen) n(k int) int { return g.r.Rng.Intn(k) }

func (g c19Gen) randBytes(n int) []byte {
	b := make([]byte, n)
	g.r.Rng.Read(b)
	return b
}

func (g c19Gen) u64() uint64 {
	edge := []uint64{0, 1, 7, 46, 47, 48, 255, 256, 303, 0x2f00, 0x2f2f, 1<<31 - 1, 1 << 31, 1<<31 + 1, 1<<32 - 1, 1 << 32, 1<<32 + 1, 1<<53 - 1, 1 << 53, 1<<53 + 1, 1<<63 - 1, 1 << 63, 1<<63 + 1, 1<<64 - 2, 1<<64 - 1, 10000000000000000000, 9999999999999999999, 0x2f2f2f2f2f2f2f2f, 0x002f00ff2f00ff2f, 0xff00000000000000, 0x2f}
	switch g.n(4) {
	case 0:
		return g.r.Rng.Uint64()
	case 1:
		// random number with a few 0x2f / 0x00 / 0xff bytes
		var b [8]byte
		g.r.Rng.Read(b[:])
		for i := 0; i < 3; i++ {
			b[g.n(8)] = []byte{0x2f, 0x00, 0xff}[g.n(3)]
		}
		return binary.BigEndian.Uint64(b[:])
	case 2:
		return uint64(g.n(1000))
	}
	return edge[g.n(len(edge))]
}

// string fields: classes that matter for a loss-free round trip (counted, with floors)
func (g c19Gen) str() string {
	cls, v := g.strClass()
	g.r.Count("str." + cls)
	return v
}

func (g c19Gen) strClass() (string, string) {
	switch g.n(12) {
	case 0: // EVM addresses in every spelling
		addr := common.BytesToAddress(g.randBytes(20))
		lower := strings.ToLower(addr.Hex()[2:])
		switch g.n(6) {
		case 0:
			return "hex-address-eip55", addr.Hex()
		case 1:
			return "hex-address-upper", "0x" + strings.ToUpper(lower)
		case 2:
			return "hex-address-0X", "0X" + strings.ToUpper(lower)
		case 3:
			return "hex-address-noprefix-mixed", addr.Hex()[2:]
		case 4:
			return "hex-address-lower", "0x" + lower
		}
		return "hex-address-eip55", common.HexToAddress("0xeE3C65B5c7F4DD0ebeD8bF046725e273e3eeeD3c").Hex()
	case 1: // bech32 in both cases, and other hex-looking strings
		acc := sdk.AccAddress(g.randBytes(20)).String()
		switch g.n(4) {
		case 0:
			return "bech32-lower", acc
		case 1:
			return "bech32-upper", strings.ToUpper(acc)
		case 2:
			return "hex-other", "0xABCDEF" + strings.Repeat("aB", g.n(30))
		}
		return "hex-other", strings.ToUpper(hx(g.randBytes(32)))
	case 2: // look like numbers / JSON / escapes
		return "json-like", []string{"123", "-1", "1e5", "0", "true", "false", "null", `{"a":1}`, `["x"]`, `\u0041`, `\`, `"`, `\"quoted\"`, "A", `\n`, "%41", "&amp;", "<script>", `\u2028`,
			`{"src_chain":"x","sequence":9}`, "18446744073709551616", `\\`, `'`, "`", "\x00"}[g.n(25)]
	case 3: // white space
		return "whitespace", []string{" ", "\t", " lead", "trail ", "a  b", "\n", "\r\n", " \t ", "\u00a0x", "x\u2003"}[g.n(10)]
	case 4:
		if g.n(2) == 0 {
			return "empty", ""
		}
		return "very-long", strings.Repeat([]string{"x", "Ab", "é", "0xAb"}[g.n(4)], 1000+g.n(2000))
	}
	v := g.strBase()
	switch {
	case v == "":
		return "empty", v
	case !utf8.ValidString(v):
		return "invalid-utf8", v
	}
	for _, c := range v {
		if c >= 0x80 {
			return "unicode", v
		}
	}
	return "ascii", v
}

func (g c19Gen) strBase() string {
	fixed := []string{"", "a", "teleport", "<>&", "a<b>c&d\"e\\f", "  ", "\x00\x01\x1f\x7f", "é漢😀", "�", "tab\there\nnl\r",
		"\xff", "\xc0\x80", "\xed\xa0\x80", "\xf4\x90\x80\x80", "\xe2\x80", "ok\xf0\x9f\x98", "\x80abc", "abc\xfe", "\xc2", "\xe0\x9f\xbf", "\xf0\x8f\xbf\xbf", "\xef\xbf\xbd\xef\xbf",
		"0x1234567890abcdef1234567890abcdef12345678", "bsc-testnet", strings.Repeat("x", 31), strings.Repeat("y", 32), strings.Repeat("z", 33), strings.Repeat("w", 64), strings.Repeat("long", 80)}
	switch g.n(6) {
	case 0:
		return string(g.randBytes(g.n(70))) // mostly invalid UTF-8
	case 1:
		// random valid UTF-8
		var sb strings.Builder
		for i, k := 0, g.n(40); i < k; i++ {
			switch g.n(4) {
			case 0:
				sb.WriteRune(rune(g.n(0x80)))
			case 1:
				sb.WriteRune(rune(0x80 + g.n(0x780)))
			case 2:
				c := rune(0x800 + g.n(0xF800))
				if c >= 0xD800 && c < 0xE000 {
					c = 0x2028
				}
				sb.WriteRune(c)
			default:
				sb.WriteRune(rune(0x10000 + g.n(0x100000)))
			}
		}
		return sb.String()
	case 2:
		b := g.randBytes(g.n(100))
		for i := range b {
			b[i] = 0x20 + b[i]%0x5f
		}
		return string(b)
	}
	return fixed[g.n(len(fixed))]
}

func (g c19Gen) bytes() []byte {
	switch g.n(5) {
	case 0:
		return nil
	case 1:
		return g.randBytes([]int{1, 31, 32, 33, 63, 64, 65, 96}[g.n(8)])
	case 2:
		return g.randBytes(g.n(300))
	}
	return g.randBytes(g.n(40))
}

var c19ValidNames = []string{"abc", "teleport", "bsc-testnet", "eth", "a.b_c+d-e#f[g]<h>", strings.Repeat("n", 64), "rinkeby", "chain-1", "chain-2", "A1b", "123", "---", "Abc", "ABC", "Teleport", "BSC-Testnet"}
var c19InvalidNames = []string{"", "ab", "a/b", "a b c", strings.Repeat("n", 65), "chaîne", "/abc", "abc/", "a//b", "   ", "ab\xffc", "abc\n", "a*b", "   ", "tele/port/x"}

func (g c19Gen) name(validOnly bool) string {
	if validOnly || g.n(4) > 0 {
		return c19ValidNames[g.n(len(c19ValidNames))]
	}
	if g.n(3) == 0 {
		return g.str()
	}
	return c19InvalidNames[g.n(len(c19InvalidNames))]
}

// one value of the struct, fields as op text
func (g c19Gen) structFields(name string) []string {
	v := c19New(name)
	var out []string
	names := c19FieldNames(v)
	for i, f := range c19Fields(v) {
		switch f.Kind() {
		case reflect.Uint64:
			out = append(out, strconv.FormatUint(g.u64(), 10))
		case reflect.String:
			// address-carrying fields get an address spelling half of the time
			if strings.Contains("Sender CallbackAddress Receiver Token OriToken ContractAddress Relayer", names[i]) && g.n(2) == 0 {
				for {
					cls, sv := g.strClass()
					if strings.HasPrefix(cls, "hex-address") || strings.HasPrefix(cls, "bech32") {
						g.r.Count("str." + cls)
						g.r.Count("str.address-field")
						out = append(out, hxs(sv))
						break
					}
				}
				continue
			}
			out = append(out, hxs(g.str()))
		case reflect.Slice:
			out = append(out, hx(g.bytes()))
		}
	}
	return out
}

func c19Word(n uint64) []byte {
	b := make([]byte, 32)
	binary.BigEndian.PutUint64(b[24:], n)
	return b
}

// malformed / non-canonical variants of a valid encoding
func (g c19Gen) mutate(bz []byte) []byte {
	b := append([]byte{}, bz...)
	words := len(b) / 32
	switch g.n(12) {
	case 0:
		return b[:g.n(len(b)+1)]
	case 1:
		return append(b, g.randBytes(1+g.n(40))...)
	case 2: // dirty upper bytes of a word (accepted for uint64, changes offsets otherwise)
		if words > 0 {
			b[32*g.n(words)+g.n(24)] ^= byte(1 + g.n(255))
		}
	case 3: // change the low bytes of a word
		if words > 0 {
			i := 32*g.n(words) + 24 + g.n(8)
			b[i] = byte(g.n(256))
		}
	case 4: // top-level offset
		copy(b, c19Word([]uint64{0, 31, 32, 33, 64, uint64(len(b)), uint64(len(b)) + 1, uint64(len(b)) - 32, 1 << 40}[g.n(9)]))
	case 5: // overwrite a word with a boundary value
		if words > 0 {
			copy(b[32*g.n(words):], c19Word([]uint64{0, 1, 32, uint64(len(b)), uint64(len(b)) - 32, uint64(len(b)) - 64, 1 << 62, 1<<64 - 1}[g.n(8)]))
		}
	case 6: // huge word (all bytes set)
		if words > 0 {
			copy(b[32*g.n(words):], bytes.Repeat([]byte{0xff}, 32))
		}
	case 7:
		return g.randBytes(32 * g.n(12))
	case 8:
		return nil
	case 9:
		return b[:g.n(33)]
	case 10: // drop the padding of the last element
		if len(b) > 32 {
			return b[:len(b)-1-g.n(31)]
		}
	default: // swap two words
		if words > 1 {
			i, j := 32*g.n(words), 32*g.n(words)
			for k := 0; k < 32; k++ {
				b[i+k], b[j+k] = b[j+k], b[i+k]
			}
		}
	}
	return b
}

var c19KeyFuncs = map[string]string{ // function -> parameter kinds: s = name, p = sub path, n = uint64, h = Height
	"FullClientPath": "sp", "FullClientKey": "sp", "FullClientStateKey": "s", "ClientStateKey": "", "FullConsensusStateKey": "sh", "ConsensusStatePath": "h",
	"ConsensusStateKey": "h", "NextSequenceSendPath": "ss", "NextSequenceSendKey": "ss", "PacketCommitmentPath": "ssn", "PacketCommitmentKey": "ssn",
	"PacketCommitmentPrefixPath": "ss", "PacketRelayerPath": "ssn", "PacketRelayerKey": "ssn", "PacketRelayerPrefixPath": "ss", "PacketAcknowledgementPath": "ssn",
	"PacketAcknowledgementKey": "ssn", "PacketAcknowledgementPrefixPath": "ss", "PacketReceiptPath": "ssn", "PacketReceiptKey": "ssn", "PacketReceiptPrefixPath": "ss",
	"tm.ProcessedTimeKey": "h", "tm.IterationKey": "h",
	"eth.EthHeaderIndexPath": "xn", "eth.EthHeaderIndexKey": "xn", "eth.EthRootMainPath": "xn", "eth.EthRootMainKey": "xn",
}

func (g c19Gen) keyArgs(fn string) []string {
	var parts []string
	for _, k := range c19KeyFuncs[fn] {
		switch k {
		case 's':
			parts = append(parts, hxs(g.name(false)))
		case 'p':
			parts = append(parts, hx(g.bytes()))
		case 'n':
			parts = append(parts, strconv.FormatUint(g.u64(), 10))
		case 'h':
			parts = append(parts, strconv.FormatUint(g.u64(), 10), strconv.FormatUint(g.u64(), 10))
		case 'x':
			parts = append(parts, hx(g.randBytes(32)))
		}
	}
	return parts
}

func (g c19Gen) keyFn() string {
	names := make([]string, 0, len(c19KeyFuncs))
	for n := range c19KeyFuncs {
		names = append(names, n)
	}
	sort.Strings(names)
	return names[g.n(len(names))]
}

func (g c19Gen) keyOp() string {
	fn := g.keyFn()
	return strings.Join(append([]string{"key", fn}, g.keyArgs(fn)...), " ")
}

// two keys of the same builder alive at the same time
func (g c19Gen) key2Op(fn string) string {
	if fn == "" {
		fn = g.keyFn()
	}
	a := g.keyArgs(fn)
	b := g.keyArgs(fn)
	if g.n(4) == 0 {
		b = append([]string{}, a...)
	}
	return strings.Join(append(append(append([]string{"key2", fn}, a...), "|"), b...), " ")
}

// every character IsValidID allows, as the LAST character of a valid name
func c19EndNames(base string) []string {
	var out []string
	for c := byte(0x21); c < 0x7f; c++ {
		if host.SrcChainValidator(base+string([]byte{c})) == nil {
			out = append(out, base+string([]byte{c}))
		}
	}
	return out
}

// histories over names that end in every allowed character (the letters of "sequences", '-', '.', … included),
// read back through every packet iterator and the per-path scans
func (g c19Gen) endNameHistory() []string {
	h := []string{"reset"}
	dsts := c19EndNames([]string{"xy", "net-", "c", "se"}[g.n(4)] + "q")
	srcs := c19EndNames("ab")
	for i, k := 0, 6+g.n(10); i < k; i++ {
		s, d := srcs[g.n(len(srcs))], dsts[g.n(len(dsts))]
		if g.n(3) == 0 {
			s, d = d, s
		}
		fam := []string{"commit", "ack", "receipt"}[g.n(3)]
		h = append(h, fmt.Sprintf("pset %s %s %s %d %s", fam, hxs(s), hxs(d), c19Seqs[g.n(len(c19Seqs))], hx(append([]byte{2}, g.randBytes(g.n(8))...))))
		if g.n(3) == 0 {
			h = append(h, fmt.Sprintf("nset %s %s %d", hxs(s), hxs(d), g.u64()))
		}
		if g.n(4) == 0 {
			h = append(h, "bypath-iter "+hxs(s)+" "+hxs(d), "grpc commit "+hxs(s)+" "+hxs(d))
		}
	}
	return append(h, "ihash commit", "ihash ack", "ihash receipt", "iseq")
}

// text forms and binary forms of heights through their builders and parsers; recent-signer keys; values that are keys
func (g c19Gen) heightHistory(clean bool) []string {
	h := []string{"reset"}
	nm := func() string { return hxs(g.name(clean)) }
	names := []string{nm(), nm()}
	type hh struct{ r, h uint64 }
	var hs []hh
	for i, k := 0, 2+g.n(6); i < k; i++ {
		x := hh{g.u64(), g.u64()}
		if g.n(3) == 0 {
			x.r = 0
		}
		hs = append(hs, x)
		n := names[g.n(2)]
		switch g.n(5) {
		case 0, 1:
			h = append(h, fmt.Sprintf("bscsigner %s %d %d %s", n, x.r, x.h, hx(g.randBytes(20))))
		case 2:
			h = append(h, fmt.Sprintf("tmset %s %d %d %d", n, x.r, x.h, g.u64()))
		case 3:
			h = append(h, fmt.Sprintf("ethsetroot %s %d %s %s", n, x.h, hx(g.randBytes(32)), hx(g.randBytes(32))))
			h = append(h, fmt.Sprintf("ethgetroot %s %s %d", n, strings.Fields(h[len(h)-1])[3], x.h), fmt.Sprintf("ethgetroot %s %s %d", n, hx(g.randBytes(32)), x.h))
		default:
			h = append(h, fmt.Sprintf("discard bscsigner %s %d %d %s", n, x.r, x.h, hx(g.randBytes(4))))
		}
	}
	if !clean {
		n := string(unhx(names[0]))
		raws := []string{"recentSingers", "recentSingers/abc", "recentSingersX/1-2", "recentSingers/1-2/3", "recentSingers/007-1", "recentSingers/1-2-3",
			"recentSingers/-1-2", "recentSingers/18446744073709551616-1", "recentSingers/", "recentSingers/5"}
		for i, k := 0, 1+g.n(2); i < k; i++ {
			h = append(h, "raw "+hxs("clients/"+n+"/"+raws[g.n(len(raws))])+" ff")
		}
	}
	for _, n := range names {
		h = append(h, "bscsigners "+n)
		for _, x := range hs {
			if g.n(2) == 0 {
				h = append(h, fmt.Sprintf("tmgetiter %s %d %d", n, x.r, x.h))
			}
		}
		h = append(h, "tmasc "+n, "tmpt "+n, "bscasc "+n, "ethasc "+n)
		if g.n(2) == 0 {
			h = append(h, "discard bscdelsigners "+n, "bscsigners "+n)
		}
		h = append(h, "bscdelsigners "+n, "bscsigners "+n)
	}
	return append(h, "dump")
}

func (g c19Gen) rawKey() (string, string) {
	nm := g.name(true)
	hb := make([]byte, 16)
	binary.BigEndian.PutUint64(hb, g.u64())
	binary.BigEndian.PutUint64(hb[8:], g.u64())
	base := [][]byte{
		host.FullConsensusStateKey(nm, clienttypes.NewHeight(g.u64(), g.u64())),
		host.FullClientStateKey(nm),
		host.PacketCommitmentKey(nm, g.name(true), g.u64()),
		host.PacketAcknowledgementKey(nm, g.name(true), g.u64()),
		host.PacketReceiptKey(nm, g.name(true), g.u64()),
		host.NextSequenceSendKey(nm, g.name(true)),
		host.FullClientKey(nm, tmtypes.ProcessedTimeKey(clienttypes.NewHeight(g.u64(), g.u64()))),
		host.FullClientKey(nm, tmtypes.IterationKey(clienttypes.NewHeight(g.u64(), g.u64()))),
		[]byte("clients/" + nm + "/consensusStates/1234/clientState"),
		[]byte("clients/" + nm + "/x/clientState"),
		[]byte("clients/" + nm),
		[]byte("clients" + nm + "/clientState"),
		[]byte("clientsX/" + nm + "/clientState"),
		[]byte("clients/" + nm + "/consensusStatesX" + string(hb)),
		[]byte("clients/" + nm + "/consensusStates/" + string(hb[:15])),
		[]byte("clients/" + nm + "/consensusStates/" + string(hb) + "x"),
		[]byte("clients/" + nm + "/consensusStates/" + string(hb) + "/processedTime/processedTime"),
		[]byte("clients/" + nm + "/consensusStates/processedTime"),
		[]byte("clients/" + nm + "/consensusStates/12/processedTime"),
		[]byte("clients/" + nm + "/iterateConsensusStates" + string(hb[:g.n(17)])),
		[]byte("clients/" + nm + "/iterateConsensusStates" + string(hb) + "tail"),
		[]byte("acks/" + nm),
		[]byte("acks"),
		[]byte("acks/" + nm + "/b/sequences/xyz"),
		[]byte("acks/" + nm + "/b/sequences/007"),
		[]byte("acks/" + nm + "/b/sequences/18446744073709551616"),
		[]byte("acks/" + nm + "/b/sequences/-1"),
		[]byte("acks/" + nm + "/b/sequences/"),
		[]byte("commitments/" + nm + "/b/c/sequences/5"),
		[]byte("commitmentsX/y"),
		[]byte("receipts/" + nm + "/b/5"),
		[]byte("nextSequenceSend/" + nm),
		[]byte("nextSequenceSend/" + nm + "/b/c"),
		[]byte("nextSequenceSendX/" + nm + "/b"),
	}
	k := append([]byte{}, base[g.n(len(base))]...)
	switch g.n(6) {
	case 0:
		k = append(k, []byte("/clientState")...)
	case 1:
		if len(k) > 1 {
			k = k[:len(k)-1-g.n(len(k)-1)]
		}
	case 2:
		i := g.n(len(k) + 1)
		k = append(k[:i], append([]byte{'/'}, k[i:]...)...)
	}
	if len(k) == 0 {
		k = []byte("x")
	}
	val := []string{"c", "s", "ff", "0000000000000009", "000000", "00000000000000070000"}[g.n(6)]
	if bytes.HasPrefix(k, []byte(host.KeyNextSeqSendPrefix)) && len(val) == 1 {
		val = "0000000000000009" // the model does not know the bytes of a marshalled state
	}
	return hx(k), val
}

func (g c19Gen) history(clean bool, long bool) []string {
	h := []string{"reset"}
	steps := 4 + g.n(14)
	if long {
		steps = 20 + g.n(60)
	}
	nm := func() string { return hxs(g.name(clean)) }
	used := map[string]bool{}
	for i := 0; i < steps; i++ {
		switch x := g.n(20); {
		case x < 5:
			fam := []string{"commit", "ack", "receipt", "relayer"}[g.n(4)]
			h = append(h, fmt.Sprintf("pset %s %s %s %d %s", fam, nm(), nm(), g.u64(), hx(g.randBytes(1+g.n(32)))))
		case x < 7:
			h = append(h, fmt.Sprintf("nset %s %s %d", nm(), nm(), g.u64()))
		case x < 10:
			n := nm()
			used[n] = true
			h = append(h, fmt.Sprintf("cset %s %d %d", n, g.u64(), g.u64()))
		case x < 11:
			n := nm()
			used[n] = true
			h = append(h, "clset "+n)
		case x < 14:
			n := nm()
			used[n] = true
			h = append(h, fmt.Sprintf("tmset %s %d %d %d", n, g.u64(), g.u64(), g.u64()))
		case x < 16:
			n := nm()
			used[n] = true
			h = append(h, fmt.Sprintf("evmset %s %d %d", n, g.u64(), g.u64()))
		case x < 18:
			if !clean {
				k, v := g.rawKey()
				h = append(h, "raw "+k+" "+v)
			}
		default:
			h = append(h, []string{"ihash commit", "ihash ack", "ihash receipt", "iseq", "icons", "iclients"}[g.n(6)])
		}
	}
	h = append(h, "dump", "ihash commit", "ihash ack", "ihash receipt", "iseq", "icons", "iclients", "gclients")
	var ns []string
	for n := range used {
		ns = append(ns, n)
	}
	sort.Strings(ns)
	if len(ns) == 0 {
		ns = []string{hxs("abc")}
	}
	for _, n := range ns {
		h = append(h, "tmpt "+n, "tmasc "+n, "bscasc "+n, "ethasc "+n, "gcons "+n)
		if g.n(2) == 0 {
			h = append(h, fmt.Sprintf("gcons %s %d", n, 1+g.n(3)))
		}
	}
	return h
}

// chain names where one valid name is a proper string prefix of another / names differing by allowed punctuation
var c19RelatedNames = [][]string{
	{"bsc", "bsc-testnet", "bsc-testnet-2", "bsc-"},
	{"eth", "eth2", "eth2.0", "eth20"},
	{"abc", "abc.d", "abc_d", "abc+d", "abc-d", "abc#d", "abc[d]", "abc<d>", "abc.", "abc.d.e"},
	{"chain-1", "chain-10", "chain-11", "chain-1.1"},
	{"tele", "teleport", "teleport_9000-1", "teleport_9000-10"},
	{"[a]", "[a]<b>", "[a]<b>#1"},
}

var c19Seqs = []uint64{1, 9, 10, 11, 1<<64 - 1, 100, 19, 90, 99, 101, 1<<64 - 2}

// histories for the per-path scans: several (src, dst) pairs with prefix-related names, several sequences
func (g c19Gen) bypathHistory(clean bool) []string {
	h := []string{"reset"}
	fam := c19RelatedNames[g.n(len(c19RelatedNames))]
	fam2 := c19RelatedNames[g.n(len(c19RelatedNames))]
	pick := func(f []string, k int) []string {
		var out []string
		for _, i := range g.r.Rng.Perm(len(f))[:k] {
			out = append(out, f[i])
		}
		return out
	}
	dsts := pick(fam, 2+g.n(len(fam)-1))
	srcs := pick(fam2, 1+g.n(2))
	if g.n(4) == 0 { // the same family on both sides
		srcs = pick(fam, 1+g.n(2))
	}
	seq := func() uint64 {
		if g.n(5) == 0 {
			return g.u64()
		}
		return c19Seqs[g.n(len(c19Seqs))]
	}
	for _, s := range srcs {
		for _, d := range dsts {
			for k, n := 0, g.n(4); k < n; k++ {
				q := seq()
				v := hx(g.randBytes(1 + g.n(32)))
				switch g.n(6) {
				case 0:
					h = append(h, fmt.Sprintf("pset ack %s %s %d %s", hxs(s), hxs(d), q, v))
				case 1:
					h = append(h, fmt.Sprintf("pset receipt %s %s %d %s", hxs(s), hxs(d), q, v))
				case 2:
					h = append(h, fmt.Sprintf("pset commit %s %s %d %s", hxs(s), hxs(d), q, v), fmt.Sprintf("pset ack %s %s %d %s", hxs(s), hxs(d), q, v))
				default:
					h = append(h, fmt.Sprintf("pset commit %s %s %d %s", hxs(s), hxs(d), q, v))
				}
			}
		}
	}
	if !clean {
		s, d := srcs[0], dsts[0]
		raws := []string{
			"commitments/" + s + "/" + d + "/sequences/xyz", "commitments/" + s + "/" + d + "/sequencesX/5", "commitments/" + s + "/" + d + "/sequences/5/6",
			"commitments/" + s + "/" + d + "/sequences", "commitments/" + s + "/" + d + "/sequences/", "commitments/" + s + "/" + d, "commitments/" + s + "/" + d + "x/sequences/3",
			"acks/" + s + "/" + d + "/sequences/007", "acks/" + s + "/" + d + "/sequences/18446744073709551616", "commitments/" + s + "/" + d + "/sequences/-1",
		}
		for k, n := 0, 1+g.n(3); k < n; k++ {
			h = append(h, "raw "+hxs(raws[g.n(len(raws))])+" "+[]string{"ff", "0102", "c"}[g.n(3)])
		}
		if g.n(2) == 0 {
			bad := c19InvalidNames[g.n(len(c19InvalidNames))]
			h = append(h, fmt.Sprintf("pset commit %s %s %d 01", hxs(srcs[0]), hxs(bad), seq()))
			h = append(h, "grpc commit "+hxs(srcs[0])+" "+hxs(bad), "bypath-get "+hxs(srcs[0])+" "+hxs(bad))
		}
	}
	h = append(h, "ihash commit", "ihash ack")
	for _, s := range srcs {
		for _, d := range dsts {
			h = append(h, "bypath-get "+hxs(s)+" "+hxs(d), "bypath-iter "+hxs(s)+" "+hxs(d), "grpc commit "+hxs(s)+" "+hxs(d), "grpc ack "+hxs(s)+" "+hxs(d))
			if g.n(3) == 0 {
				h = append(h, fmt.Sprintf("grpcp %s %s %s %d", []string{"commit", "ack"}[g.n(2)], hxs(s), hxs(d), 1+g.n(3)))
			}
		}
	}
	// a pair nothing was written for, and the roles swapped
	h = append(h, "bypath-get "+hxs(dsts[0])+" "+hxs(srcs[0]), "grpc commit "+hxs(dsts[0])+" "+hxs(srcs[0]), "grpc ack "+hxs(fam[0])+" "+hxs(fam[len(fam)-1]))
	return h
}

// "hex:hex:dec" -> readable text (for case-insensitive comparison)
func c19Unhex3(k string) string {
	p := strings.Split(k, ":")
	for i := range p {
		if i < 2 {
			p[i] = string(unhx(p[i]))
		}
	}
	return strings.Join(p, "\x00")
}

// valid names that differ only in the case of letters
var c19CaseNames = [][]string{
	{"abc", "Abc", "ABC", "aBc", "abC"},
	{"teleport", "Teleport", "TELEPORT", "telePort"},
	{"bsc-testnet", "BSC-Testnet", "Bsc-Testnet", "BSC-TESTNET"},
	{"eth", "ETH", "Eth", "eTh"},
	{"chain-a", "chain-A", "Chain-a", "CHAIN-A"},
	{"a.b_c+d", "A.B_C+D", "a.B_c+D"},
}

// histories for point read-back: Set* then Get* / Has* for the written triples, for their case variants and for
// triples that were never written
func (g c19Gen) pointHistory(clean bool) []string {
	h := []string{"reset"}
	fa := c19CaseNames[g.n(len(c19CaseNames))]
	fb := c19CaseNames[g.n(len(c19CaseNames))]
	name := func(f []string) string {
		if g.n(6) == 0 {
			return c19ValidNames[g.n(len(c19ValidNames))]
		}
		return f[g.n(len(f))]
	}
	type trip struct {
		fam, a, b string
		n        uint64
	}
	var ts []trip
	fams := []string{"commit", "ack", "receipt", "relayer"}
	for i, k := 0, 2+g.n(8); i < k; i++ {
		t := trip{fams[g.n(4)], name(fa), name(fb), c19Seqs[g.n(len(c19Seqs))]}
		if g.n(6) == 0 {
			t.n = g.u64()
		}
		ts = append(ts, t)
		h = append(h, fmt.Sprintf("pset %s %s %s %d %s", t.fam, hxs(t.a), hxs(t.b), t.n, hx(append([]byte{1}, g.randBytes(g.n(20))...))))
		if g.n(3) == 0 {
			h = append(h, fmt.Sprintf("nset %s %s %d", hxs(t.a), hxs(t.b), g.u64()))
		}
	}
	if !clean {
		bad := c19InvalidNames[g.n(len(c19InvalidNames))]
		h = append(h, fmt.Sprintf("pset commit %s %s 5 01", hxs(bad), hxs(fa[0])), fmt.Sprintf("pget commit %s %s 5", hxs(bad), hxs(fa[0])),
			"raw "+hxs("nextSequenceSend/"+fa[0]+"/"+fb[0])+" "+[]string{"0000000000000009", "000000", "00000000000000070000"}[g.n(3)], "nget "+hxs(fa[0])+" "+hxs(fb[0]))
	}
	q := func(t trip) {
		h = append(h, fmt.Sprintf("pget %s %s %s %d", t.fam, hxs(t.a), hxs(t.b), t.n))
		if t.fam != "relayer" {
			h = append(h, fmt.Sprintf("phas %s %s %s %d", t.fam, hxs(t.a), hxs(t.b), t.n))
		}
		if g.n(3) == 0 {
			h = append(h, "nget "+hxs(t.a)+" "+hxs(t.b))
		}
	}
	for _, t := range ts {
		q(t)
		// case variants of the written triple, another family, another sequence
		v := t
		v.a = fa[g.n(len(fa))]
		q(v)
		v = t
		v.b = fb[g.n(len(fb))]
		q(v)
		if g.n(2) == 0 {
			v = t
			v.a, v.b = strings.ToLower(t.a), strings.ToLower(t.b)
			q(v)
		}
		if g.n(3) == 0 {
			v = t
			v.fam = fams[g.n(4)]
			q(v)
		}
		if g.n(3) == 0 {
			v = t
			v.n = t.n + 1
			q(v)
		}
	}
	// writes on a dropped cache context must not become readable
	for i, k := 0, g.n(3); i < k; i++ {
		t := trip{fams[g.n(3)], name(fa), name(fb), 700 + uint64(g.n(50))}
		h = append(h, fmt.Sprintf("discard pset %s %s %s %d 09", t.fam, hxs(t.a), hxs(t.b), t.n))
		q(t)
	}
	h = append(h, "ihash commit", "ihash ack", "ihash receipt", "iseq")
	return h
}

// names containing every character IsValidID allows, '+' in particular
var c19PlusNames = []string{"ab+cd", "a+b", "+++", "tele+port", "x+", "+x1", "a.b_c+d-e#f[g]<h>", "A+B", "a+b+c", "chain+1"}

func (g c19Gen) merkleOps() []string {
	var out []string
	nm := func() string {
		switch g.n(4) {
		case 0:
			return c19PlusNames[g.n(len(c19PlusNames))]
		case 1:
			e := c19EndNames("m" + string([]byte{"abc+._#[]<>-09AZ"[g.n(16)]}))
			return e[g.n(len(e))]
		}
		return g.name(false)
	}
	fn := []string{"PacketCommitmentPath", "PacketAcknowledgementPath", "PacketReceiptPath", "PacketRelayerPath", "NextSequenceSendPath", "ConsensusStatePath"}[g.n(6)]
	parts := []string{"mkey", fn, hxs("xibc")}
	if g.n(12) == 0 {
		parts[2] = []string{"-", hxs("a+b"), hxs("x%41")}[g.n(3)]
	}
	for _, k := range c19KeyFuncs[fn] {
		switch k {
		case 's':
			n := nm()
			if g.n(15) == 0 {
				n = []string{"a%41b", "a%zz", "a%", "100%", "a b", "a%2Fb"}[g.n(6)]
			}
			parts = append(parts, hxs(n))
		case 'n':
			parts = append(parts, strconv.FormatUint(g.u64(), 10))
		case 'h':
			parts = append(parts, strconv.FormatUint(g.u64(), 10), strconv.FormatUint(g.u64(), 10))
		}
	}
	out = append(out, strings.Join(parts, " "))
	// the codec alone on arbitrary bytes
	fixed := []string{"", "+", "%", "/", " ", "a+b", "a b", "a%20b", "%zz", "%4", "%41", "%2F", "%2f", "100%", "a/b/c", "é+漢", "\xff\x00+", "+%2B+", "~-_.", "$&,:;=?@", "%%", "%25"}
	sv := fixed[g.n(len(fixed))]
	if g.n(2) == 0 {
		b := g.randBytes(g.n(24))
		for i := range b {
			if g.n(3) == 0 {
				b[i] = "+% /%+ab0"[g.n(9)]
			}
		}
		sv = string(b)
	}
	return append(out, "mcodec "+hxs(sv))
}

// client names in prefix relation (valid identifiers need 3 characters)
var c19PrefixClients = [][]string{
	{"rin", "rin-2", "rin2", "riny", "rin-", "rin.x"},
	{"rinkeby", "rinkeby-2", "rinkeby2", "rinkeby-testnet"},
	{"abc", "abc-2", "abc2", "abcd", "abc+", "abc#1"},
	{"eth", "eth2", "eth-2", "ethx", "eth[1]"},
}

// several clients whose names extend one another, each with client state, consensus states, metadata and signers; then
// range-style operations on ONE of them (toggle / upgrade / delete-all-signers) — the others must stay byte-identical
func (g c19Gen) prefixClientHistory() []string {
	h := []string{"reset"}
	fam := c19PrefixClients[g.n(len(c19PrefixClients))]
	k := 2 + g.n(len(fam)-1)
	names := append([]string{fam[0]}, fam[1:k]...)
	const tmTime = "1700000000000000000"
	for _, n := range names {
		x := hxs(n)
		h = append(h, "clset "+x)
		for i, m := 0, 1+g.n(4); i < m; i++ {
			rv, hv := g.u64(), g.u64()
			switch g.n(5) {
			case 0:
				h = append(h, fmt.Sprintf("cset %s %d %d", x, rv, hv))
			case 1:
				h = append(h, fmt.Sprintf("tmset %s %d %d %d", x, rv, hv, g.u64()))
			case 2:
				h = append(h, fmt.Sprintf("evmset %s %d %d", x, rv, hv))
			case 3:
				h = append(h, fmt.Sprintf("bscsigner %s %d %d %s", x, rv, hv, hx(g.randBytes(20))))
			default:
				h = append(h, fmt.Sprintf("ethsetroot %s %d %s %s", x, hv, hx(g.randBytes(32)), hx(g.randBytes(32))))
			}
		}
	}
	for i, m := 0, 2+g.n(5); i < m; i++ {
		x := hxs(names[g.n(len(names))])
		if g.n(3) == 0 {
			x = hxs(names[0]) // the shortest name: every other one extends it
		}
		switch g.n(4) {
		case 0, 1:
			h = append(h, "ctoggle "+x+" 0 5 "+tmTime)
		case 2:
			h = append(h, "cupgrade "+x+" 0 5 "+tmTime)
		default:
			h = append(h, "bscdelsigners "+x)
		}
		if g.n(3) == 0 {
			h = append(h, "dump")
		}
	}
	if g.n(6) == 0 { // a client that does not exist / a foreign value under the client-state key
		h = append(h, "ctoggle "+hxs("nope")+" 0 5 "+tmTime, "raw "+hxs("clients/"+names[0]+"/clientState")+" ff", "cupgrade "+hxs(names[0])+" 0 5 "+tmTime)
	}
	return append(h, "dump", "iclients", "icons")
}

func TestC19(t *testing.T) {
	r := NewRec(t, "C19")
	defer r.Close()
	w := newC19World(t)
	g := c19Gen{r}
	run := func(h []string) {
		for _, op := range h {
			r.Op(op, w.apply(r, op))
		}
	}
	if ops := replayOps(t); ops != nil {
		run(append([]string{"reset"}, ops...))
		return
	}
	for _, h := range corpusOps("C19") {
		run(append([]string{"reset"}, h...))
	}
	scale := 1
	if r.Tier == "thorough" {
		scale = 12
	}
	if n := envInt("VERIF_N", 0); n > 0 {
		scale = int(n)
	}
	run([]string{"reset"})
	// 1. encodings: pack (with the round-trip / injectivity / commitment oracle), then decode of the canonical
	//    bytes and of mutated variants
	for i := 0; i < 500*scale; i++ {
		name := c19Structs[g.n(len(c19Structs))]
		if g.n(3) == 0 {
			name = []string{"Packet", "Acknowledgement"}[g.n(2)]
		}
		op := "pack " + name + " " + strings.Join(g.structFields(name), " ")
		out := w.apply(r, op)
		r.Op(op, out)
		if strings.HasPrefix(out, "ok ") {
			bz := unhx(strings.TrimPrefix(out, "ok "))
			run([]string{"decode " + name + " " + hx(bz)})
			for j := 0; j < 3; j++ {
				run([]string{"decode " + name + " " + hx(g.mutate(bz))})
			}
			if g.n(4) == 0 { // the same bytes decoded as another struct
				run([]string{"decode " + c19Structs[g.n(len(c19Structs))] + " " + hx(bz)})
			}
		}
		w.hist = nil
	}
	// 2. strings, numbers, names
	for i := 0; i < 450*scale; i++ {
		run([]string{"utf8 " + hxs(g.str())})
		w.hist = nil
	}
	digits := []string{"", "0", "7", "007", "18446744073709551615", "18446744073709551616", "99999999999999999999", "1_000", "+5", "-5", " 5", "5 ", "0x10", "١٢", "12a", "00000000000000000000000001"}
	for i := 0; i < 60*scale; i++ {
		s := digits[g.n(len(digits))]
		if g.n(2) == 0 {
			s = strconv.FormatUint(g.u64(), 10)
			if g.n(4) == 0 {
				s += string(rune('0' + g.n(10)))
			}
		}
		run([]string{"parseuint " + hxs(s)})
		w.hist = nil
	}
	for _, s := range []string{"src_chain", "feeOption", "fee_option", "_x", "x_", "__", "", "a__b", "oriToken", "ABC_def", "_", "1a_2b", "callback_address"} {
		run([]string{"camel " + hxs(s)})
	}
	for i := 0; i < 150*scale; i++ {
		id := g.name(false)
		if g.n(4) == 0 {
			b := []byte(c19ValidNames[g.n(len(c19ValidNames))])
			b[g.n(len(b))] = byte(g.n(256))
			id = string(b)
		}
		if g.n(8) == 0 {
			id = strings.Repeat("a", []int{0, 1, 2, 3, 4, 63, 64, 65, 66}[g.n(9)])
		}
		run([]string{"valid " + []string{"client", "src", "dst"}[g.n(3)] + " " + hxs(id)})
		w.hist = nil
	}
	for i := 0; i < 60*scale; i++ {
		k, _ := g.rawKey()
		run([]string{"parsepath " + k})
		w.hist = nil
	}
	// 3. key functions
	for i := 0; i < 600*scale; i++ {
		run([]string{g.keyOp()})
		w.hist = nil
	}
	// 4. histories through the keepers and iterators
	for i := 0; i < 120*scale; i++ {
		clean := g.n(5) < 3
		if clean {
			r.Count("hist.clean")
		} else {
			r.Count("hist.dirty")
		}
		run(g.history(clean, g.n(10) == 0))
	}
	// 5. per-path scans (keeper by-path iterator, gRPC queries) over prefix-related chain names
	for i := 0; i < 80*scale; i++ {
		clean := g.n(5) < 4
		if clean {
			r.Count("bypath.hist.clean")
		} else {
			r.Count("bypath.hist.dirty")
		}
		run(g.bypathHistory(clean))
	}
	// 7. aliasing: two keys of every builder alive at once
	{
		names := make([]string, 0, len(c19KeyFuncs))
		for n := range c19KeyFuncs {
			names = append(names, n)
		}
		sort.Strings(names)
		for i := 0; i < 12*scale; i++ {
			for _, fn := range names {
				run([]string{g.key2Op(fn)})
				w.hist = nil
			}
		}
	}
	// 8. height text / binary forms through builder and parser
	for i := 0; i < 250*scale; i++ {
		rv, hv := g.u64(), g.u64()
		if g.n(3) == 0 {
			rv = 0
		}
		run([]string{fmt.Sprintf("heightstr %d %d", rv, hv)})
		w.hist = nil
		run([]string{fmt.Sprintf("iterkeyrt %s %d %d", []string{"tm", "bsc", "eth"}[g.n(3)], rv, hv)})
		w.hist = nil
		if g.n(3) == 0 {
			txt := []string{"", "1", "1-2-3", "-1-2", "1--2", "0x1-2", "18446744073709551616-1", "01-002", "1-", "-", " 1-2", "1-2 ", "１-2", "1_0-2", "+1-2",
				fmt.Sprintf("%d-%d", rv, hv), fmt.Sprintf("%d-%d", int64(rv), int64(hv))}[g.n(17)]
			run([]string{"parseheight " + hxs(txt)})
			w.hist = nil
		}
		if g.n(3) == 0 {
			hb := make([]byte, 16)
			binary.BigEndian.PutUint64(hb, rv)
			binary.BigEndian.PutUint64(hb[8:], hv)
			pre := []string{"iterateConsensusStates", "consensusStates/", "consensusStates", "x", ""}[g.n(5)]
			k := append([]byte(pre), hb[:[]int{16, 16, 16, 15, 8, 7, 0}[g.n(7)]]...)
			if g.n(4) == 0 {
				k = append(k, "tail"...)
			}
			run([]string{"hfk " + []string{"tm", "bsc", "eth"}[g.n(3)] + " " + hx(k)})
			w.hist = nil
		}
	}
	for i := 0; i < 50*scale; i++ {
		run(g.heightHistory(g.n(5) < 4))
	}
	// 9. names ending in every character the identifier rule allows
	for i := 0; i < 40*scale; i++ {
		r.Count("endnames.hist")
		run(g.endNameHistory())
	}
	// 10. Merkle path codec: the key a proof looks up vs the key stored; codec on arbitrary bytes; end-to-end proofs
	for i := 0; i < 300*scale; i++ {
		run(g.merkleOps())
		w.hist = nil
	}
	for i := 0; i < 36*scale; i++ {
		src, dst := g.name(true), g.name(true)
		switch g.n(3) {
		case 0:
			dst = c19PlusNames[g.n(len(c19PlusNames))]
		case 1:
			src = c19PlusNames[g.n(len(c19PlusNames))]
		}
		if g.n(12) == 0 {
			dst = []string{"a%41b", "a b", "a/b"}[g.n(3)]
		}
		run([]string{fmt.Sprintf("e2e %s %s %s %s %d %s", []string{"commit", "ack"}[g.n(2)], hxs("xibc"), hxs(src), hxs(dst), g.u64(), hx(append([]byte{5}, g.randBytes(g.n(32))...)))})
		w.hist = nil
	}
	// 11. range-style client operations over clients whose names are in prefix relation (frame oracle on the raw store)
	for i := 0; i < 60*scale; i++ {
		run(g.prefixClientHistory())
	}
	// 6. point read-back (Get* / Has* after Set*) over names that differ only in case
	for i := 0; i < 60*scale; i++ {
		clean := g.n(6) < 5
		run(g.pointHistory(clean))
	}
}
