//go:build c17

package verifharness

// C17 — the committed chain: one app over one database, every operation is a real block
//   app.BeginBlock → BaseApp.DeliverTx (ante handler, runTx, EthereumTx, ApplyTransaction, hooks, native message servers)
//   → app.EndBlock (staking maturities, validator-set updates, gov queues, crisis invariants every 5th block) → Commit,
// with node restarts and restarts from an exported genesis in the middle of the history:
//
//   cinit k=v …                       -> ok <dump>            (state after block 1 as the model needs it)
//   dtx <dt ns> <from> <node>         -> <status> <dump>      one block `dt` later carrying the transaction
//   restart                           -> ok <dump>            (R') app.NewTeleport over the SAME database + LoadLatestVersion, no InitChain
//   reimport                          -> ok <dump>            (R)  ExportAppStateAndValidators → fresh database → InitChain → Commit
//   cslash <validator> <percent>      -> ok                   a block in which the validator is slashed for an earlier infraction
//                                                             (afterwards shares != tokens: outputs `skip`, oracle only)
// In the model `restart` / `reimport` are the identity (`restart_identity`); the oracle demands equal dumps before / after
// and — through the standing oracle of every later `dtx` — that contract calls still reach the native modules.

import (
	"fmt"
	"math/big"
	"strconv"
	"strings"
	"testing"
	"time"

	"github.com/cosmos/cosmos-sdk/simapp"
	sdk "github.com/cosmos/cosmos-sdk/types"
	authtypes "github.com/cosmos/cosmos-sdk/x/auth/types"
	bankkeeper "github.com/cosmos/cosmos-sdk/x/bank/keeper"
	stakingtypes "github.com/cosmos/cosmos-sdk/x/staking/types"
	"github.com/ethereum/go-ethereum/common"
	ethtypes "github.com/ethereum/go-ethereum/core/types"
	abci "github.com/tendermint/tendermint/abci/types"
	"github.com/tendermint/tendermint/libs/log"
	tmproto "github.com/tendermint/tendermint/proto/tendermint/types"
	dbm "github.com/tendermint/tm-db"
	"github.com/tharsis/ethermint/encoding"
	"github.com/tharsis/ethermint/tests"
	evm "github.com/tharsis/ethermint/x/evm/types"

	"encoding/json"

	adbank "github.com/teleport-network/teleport/adapter/bank"
	"github.com/teleport-network/teleport/app"
)

type c17Chain struct {
	t       *testing.T
	db      dbm.DB
	app     *app.Teleport
	w       *c17World
	header  tmproto.Header // header of the last committed block
	hist    []string
	skip    bool
	elapsed time.Duration
}

func c17NewApp(db dbm.DB) *app.Teleport {
	return app.NewTeleport(log.NewNopLogger(), db, nil, true, map[int64]bool{}, app.DefaultNodeHome, 5,
		encoding.MakeConfig(app.ModuleBasics), simapp.EmptyAppOptions{})
}

func newC17Chain(t *testing.T) *c17Chain {
	c := &c17Chain{t: t, db: dbm.NewMemDB()}
	a := c17NewApp(c.db)
	stateBytes, err := json.MarshalIndent(app.NewDefaultGenesisState(), "", " ")
	if err != nil {
		t.Fatal(err)
	}
	a.InitChain(abci.RequestInitChain{ChainId: "teleport_9000-1", Validators: []abci.ValidatorUpdate{}, ConsensusParams: app.DefaultConsensusParams, AppStateBytes: stateBytes})
	c.app = a
	c.w = newC17WorldOn(a, false) // validators, accounts, helper contracts, proposals written into the state of block 1
	c.header = c.w.base.BlockHeader()
	a.BeginBlock(abci.RequestBeginBlock{Header: c.header})
	a.EndBlock(abci.RequestEndBlock{Height: c.header.Height})
	a.Commit()
	c.view()
	return c
}

// view: the observation machinery reads the committed state
func (c *c17Chain) view() {
	c.w.app = c.app
	c.w.obk = adbank.NewOverwriteBankKeeper(c.app.BankKeeper.(bankkeeper.BaseKeeper))
	c.w.ctx = c.app.BaseApp.NewContext(true, c.header)
	c.w.base = c.w.ctx
}

func (c *c17Chain) find(r *Rec, sig, what, obs, req string) {
	r.Find(Finding{Sig: sig, What: what, Ops: append([]string{}, c.hist...), Obs: obs, Req: req})
}

func (c *c17Chain) apply(r *Rec, op string) (string, string) {
	f := strings.Fields(op)
	switch f[0] {
	case "cinit":
		c.view()
		c.hist = nil
		return "c" + c.w.initLine(), "ok " + c.w.dump(c.w.ctx)
	case "dtx":
		return c.applyDtx(r, f)
	case "restart", "reimport":
		return c.applyRestart(r, f[0])
	case "cslash":
		return c.applySlash(r, f)
	}
	r.t.Fatalf("bad op %q", op)
	return "", ""
}

func (c *c17Chain) out(s string) string {
	if c.skip {
		return "skip"
	}
	return s
}

func (c *c17Chain) beginBlock(dt time.Duration) (sdk.Context, string) {
	h := c.header
	h.Height++
	h.Time = h.Time.Add(dt)
	c.elapsed += dt
	pan, msg := safely(func() { c.app.BeginBlock(abci.RequestBeginBlock{Header: h}) })
	if pan {
		return sdk.Context{}, msg
	}
	c.header = h
	return c.app.BaseApp.NewContext(false, h), ""
}

// endBlock: EndBlock + Commit, with the maturity oracle (every unbonding entry whose time has come pays the delegator)
func (c *c17Chain) endBlock(r *Rec, ctx sdk.Context) {
	w := c.w
	due := map[string]sdk.Int{}
	w.app.StakingKeeper.IterateUnbondingDelegations(ctx, func(_ int64, u stakingtypes.UnbondingDelegation) bool {
		for _, e := range u.Entries {
			if !e.CompletionTime.After(ctx.BlockTime()) {
				if _, ok := due[u.DelegatorAddress]; !ok {
					due[u.DelegatorAddress] = sdk.ZeroInt()
				}
				due[u.DelegatorAddress] = due[u.DelegatorAddress].Add(e.Balance)
			}
		}
		return false
	})
	bal := map[string]sdk.Int{}
	for d := range due {
		a, _ := sdk.AccAddressFromBech32(d)
		bal[d] = w.app.BankKeeper.GetBalance(ctx, a, w.denom).Amount
	}
	sup := w.allSupply(ctx)
	pan, msg := safely(func() {
		c.app.EndBlock(abci.RequestEndBlock{Height: c.header.Height})
		c.app.Commit()
	})
	if pan {
		c.find(r, "C17:chain:endblock-panic", "EndBlock / Commit panicked (crisis invariants run every 5th block): "+msg, "panic", "ok")
		r.t.Fatalf("c17 chain: EndBlock panicked: %s", msg)
	}
	c.view()
	for d, amt := range due {
		a, _ := sdk.AccAddressFromBech32(d)
		got := w.app.BankKeeper.GetBalance(w.ctx, a, w.denom).Amount.Sub(bal[d])
		if !got.Equal(amt) {
			c.find(r, "C17:chain:maturity", "a matured unbonding entry created through the staking contract did not pay its balance back to the caller", got.String(), amt.String())
		}
		if amt.IsPositive() {
			r.Count("chain.matured")
		}
	}
	if w.allSupply(w.ctx) != sup {
		c.find(r, "C17:chain:supply-changed", "supply changed by EndBlock", w.allSupply(w.ctx), sup)
	}
}

func (c *c17Chain) applyDtx(r *Rec, f []string) (string, string) {
	w := c.w
	dtNs, _ := strconv.ParseInt(f[1], 10, 64)
	p := &c17Toks{t: f, i: 2}
	from := common.BytesToAddress(unhx(p.next()))
	root := c17ParseNode(p)
	op := fmt.Sprintf("dtx %d %s %s", dtNs, hx(from.Bytes()), w.nodeToks(root))
	c.hist = append(c.hist, op)
	var to common.Address
	var data []byte
	switch root.tag {
	case 'P':
		to, data = root.target, w.segments(root.body)
	case 'S':
		to, data = w.sysTarget(root), w.packCall(root.call)
	case 'B':
		to, data = w.sysTarget(root), []byte{0xde, 0xad, 0xbe, 0xef, 0, 1}
	default:
		r.t.Fatalf("bad dtx root %q", op)
	}
	ctx, perr := c.beginBlock(time.Duration(dtNs))
	if perr != "" {
		c.find(r, "C17:chain:beginblock-panic", "BeginBlock panicked: "+perr, "panic", "ok")
		r.t.Fatalf("c17 chain: BeginBlock panicked: %s", perr)
	}
	w.ctx = ctx
	before := w.dump(ctx)
	// expectation: by construction + reference execution on a branch of the state after BeginBlock
	cnt := map[common.Address]int{}
	evmOK, emits := w.interp(c17Frame{self: from, sender: from}, []*c17Node{{tag: root.tag, kind: 'c', target: root.target, body: root.body, call: root.call, badGov: root.badGov}}, cnt)
	refCtx, _ := ctx.CacheContext()
	nativeOK := evmOK && w.reference(refCtx, emits)
	want := before
	if nativeOK {
		d := w.dump(refCtx)
		want = w.expectedCounters(ctx, cnt) + d[strings.Index(d, " B:"):]
	}
	// the transaction
	a := c.app
	evmDenom := a.EvmKeeper.GetParams(ctx).EvmDenom
	feeCap := big.NewInt(100_000_000_000)
	if bf := a.FeeMarketKeeper.GetBaseFee(ctx); bf != nil && bf.Sign() > 0 {
		feeCap = new(big.Int).Mul(bf, big.NewInt(2))
	}
	idx := w.eoaIndex(from)
	chainID := a.EvmKeeper.ChainID()
	tx := evm.NewTx(chainID, a.EvmKeeper.GetNonce(ctx, from), &to, big.NewInt(0), 3_000_000, nil, feeCap, big.NewInt(1), data, &ethtypes.AccessList{})
	tx.From = from.Hex()
	if err := tx.Sign(ethtypes.LatestSignerForChainID(chainID), tests.NewSigner(w.eoaKeys[idx])); err != nil {
		r.t.Fatal(err)
	}
	enc := encoding.MakeConfig(app.ModuleBasics)
	sdkTx, err := tx.BuildTx(enc.TxConfig.NewTxBuilder(), evmDenom)
	if err != nil {
		r.t.Fatal(err)
	}
	bz, err := enc.TxConfig.TxEncoder()(sdkTx)
	if err != nil {
		r.t.Fatal(err)
	}
	res := a.BaseApp.DeliverTx(abci.RequestDeliverTx{Tx: bz})
	status := "ok"
	switch {
	case res.Code == 111222:
		status = "panic"
	case res.Code != 0:
		status = "err"
	default:
		var txd sdk.TxMsgData
		if err := txd.Unmarshal(res.Data); err == nil && len(txd.Data) > 0 {
			var rsp evm.MsgEthereumTxResponse
			if err := rsp.Unmarshal(txd.Data[0].Data); err == nil && rsp.VmError != "" {
				status = "vmfail"
				if rsp.VmError == evm.ErrPostTxProcessing.Error() {
					status = "hookfail"
				}
			}
		}
	}
	afterTx := w.dump(ctx)
	r.Count("chain.dtx." + status)
	for _, e := range emits {
		if status == "ok" {
			r.Count("chain.fn." + e.call.fn)
		}
	}
	switch {
	case !evmOK:
		if status != "vmfail" {
			c.find(r, "C17:chain:evm-shape", "call shape that reverts at top level did not fail in the EVM: "+res.Log, status, "vmfail")
		}
		if afterTx != before {
			c.find(r, "C17:chain:not-atomic:vmfail", "failed EVM transaction changed state", afterTx, before)
		}
	case nativeOK:
		if status != "ok" {
			c.find(r, "C17:chain:spurious-failure", "all attributed native messages succeed on the pre-state but the delivered transaction failed: "+res.Log, status, "ok")
		} else if afterTx != want {
			c.find(r, "C17:chain:state-mismatch", "state after the delivered transaction differs from the state implied by the attributed messages (are the adapter's handlers still wired after a restart?)", afterTx, want)
		}
	default:
		if status == "ok" {
			c.find(r, "C17:chain:failure-swallowed", "an attributed native message fails but the delivered transaction succeeded", afterTx, "failure, state unchanged")
		}
		if afterTx != before {
			c.find(r, "C17:chain:not-atomic:native-failure", "a native action failed but state of the transaction was kept", afterTx, before)
		}
	}
	c.endBlock(r, ctx)
	r.Nontrivial(op)
	return op, c.out(status + " " + w.dump(w.ctx))
}

func (c *c17Chain) applyRestart(r *Rec, kind string) (string, string) {
	c.hist = append(c.hist, kind)
	w := c.w
	before := w.dump(w.ctx)
	codeOf := func() string {
		var hs []string
		for _, a := range []common.Address{w.stakingA, w.govA, w.proxies[0], w.proxies[1]} {
			h := "no-account"
			if acct := w.app.EvmKeeper.GetAccount(w.ctx, a); acct != nil {
				h = fmt.Sprintf("%x:%d", acct.CodeHash, len(w.app.EvmKeeper.GetCode(w.ctx, common.BytesToHash(acct.CodeHash))))
			}
			hs = append(hs, h)
		}
		return strings.Join(hs, "/")
	}
	codeBefore := codeOf()
	var failure string
	pan, msg := safely(func() {
		if kind == "restart" {
			// a node restart: a new application object over the same committed database; InitChain does NOT run
			na := c17NewApp(c.db)
			if na.LastBlockHeight() != c.header.Height {
				failure = fmt.Sprintf("restarted app is at height %d, expected %d", na.LastBlockHeight(), c.header.Height)
				return
			}
			c.app = na
			return
		}
		exported, err := c.app.ExportAppStateAndValidators(false, nil)
		if err != nil {
			failure = "export: " + err.Error()
			return
		}
		ndb := dbm.NewMemDB()
		na := c17NewApp(ndb)
		na.InitChain(abci.RequestInitChain{ChainId: "teleport_9000-1", Time: c.header.Time, InitialHeight: exported.Height,
			Validators: []abci.ValidatorUpdate{}, ConsensusParams: exported.ConsensusParams, AppStateBytes: exported.AppState})
		na.Commit()
		c.db, c.app = ndb, na
		c.header.Height = na.LastBlockHeight()
	})
	if pan {
		failure = "panic: " + msg
	}
	if failure != "" {
		if len(failure) > 500 {
			failure = failure[:500]
		}
		c.find(r, "C17:chain:"+kind+"-failed", "the node could not be restarted", failure, "restart succeeds")
		r.t.Fatalf("c17 chain: %s failed: %s", kind, failure)
	}
	c.view()
	after := w.dump(w.ctx)
	codeAfter := codeOf()
	if after != before || codeAfter != codeBefore {
		c.find(r, "C17:chain:"+kind+":state-changed", "contract-visible or native staking / gov / bank state changed across the restart", after+" code "+codeAfter, before+" code "+codeBefore)
	}
	// the provider of the authenticity statement must hold again after every restart (honest export included)
	for _, which := range []string{"staking", "gov"} {
		if o, genuine := c17CodeAt(c.app, w.ctx, which); !genuine {
			c.find(r, "C17:system-address-code-not-genuine:"+which+":after-"+kind, "after the restart the code at the "+which+" system-contract address is not the embedded genuine byte code", o, "genuine:eth")
		} else {
			r.Count("chain.code-genuine")
		}
	}
	r.Count("chain." + kind)
	return kind, c.out("ok " + after)
}

// cslash: a block in which validator i is slashed for an infraction two blocks earlier (evidence arrives late): bonded
// tokens, unbonding entries and redelegations begun since then are slashed; every burn must reach the fee collector.
func (c *c17Chain) applySlash(r *Rec, f []string) (string, string) {
	op := strings.Join(f, " ")
	c.hist = append(c.hist, op)
	w := c.w
	i, _ := strconv.Atoi(f[1])
	pct, _ := strconv.Atoi(f[2])
	ctx, perr := c.beginBlock(5 * time.Second)
	if perr != "" {
		r.t.Fatalf("c17 chain: BeginBlock panicked: %s", perr)
	}
	w.ctx = ctx
	val, _ := w.app.StakingKeeper.GetValidator(ctx, w.vals[i])
	cons, _ := val.GetConsAddr()
	sup, sum := w.allSupply(ctx), w.sumBalances(ctx)
	fc := authtypes.NewModuleAddress(authtypes.FeeCollectorName)
	pool := func(n string) sdk.Int {
		return w.app.BankKeeper.GetBalance(ctx, authtypes.NewModuleAddress(n), w.denom).Amount
	}
	pb, nb, fb := pool(stakingtypes.BondedPoolName), pool(stakingtypes.NotBondedPoolName), w.app.BankKeeper.GetBalance(ctx, fc, w.denom).Amount
	infraction := ctx.BlockHeight() - 4
	if infraction < 1 {
		infraction = 1
	}
	pan, msg := safely(func() {
		w.app.StakingKeeper.Slash(ctx, cons, infraction, val.ConsensusPower(sdk.DefaultPowerReduction), sdk.NewDecWithPrec(int64(pct), 2))
	})
	if pan {
		c.find(r, "C17:chain:slash-panic", "Slash panicked: "+msg, "panic", "ok")
	}
	lost := pb.Add(nb).Sub(pool(stakingtypes.BondedPoolName)).Sub(pool(stakingtypes.NotBondedPoolName))
	gained := w.app.BankKeeper.GetBalance(ctx, fc, w.denom).Amount.Sub(fb)
	if pool(stakingtypes.NotBondedPoolName).LT(nb) {
		r.Count("chain.slash.notbonded")
	}
	if lost.IsPositive() {
		r.Count("chain.slash.burned")
	}
	if w.allSupply(ctx) != sup || w.sumBalances(ctx) != sum || !lost.Equal(gained) {
		c.find(r, "C17:chain:slash-changes-supply", "slashing (bonded tokens, unbonding entries, redelegations) changed the supply or did not credit the fee collector",
			fmt.Sprintf("supply %s pools lost %s fee collector gained %s", w.allSupply(ctx), lost, gained), "supply "+sup+", lost = gained")
	}
	c.endBlock(r, ctx)
	c.skip = true
	return op, "ok"
}

// ---- generator ----------------------------------------------------------------------------------------------------

func (g *c17Gen) chainOps(c *c17Chain, n int) func() string {
	i := 0
	return func() string {
		i++
		w := c.w
		switch {
		case i%9 == 5:
			return "restart"
		case i%14 == 10:
			return "reimport"
		case i == n*4/5 && !c.skip:
			return fmt.Sprintf("cslash %d %d", g.pick(3), []int{5, 50}[g.pick(2)])
		}
		g.valid = g.pick(100) < 80
		g.shape, g.pre = map[string]bool{}, nil
		from := w.eoas[g.pick(3)]
		var root *c17Node
		if g.pick(2) == 0 {
			root = &c17Node{tag: 'S', kind: 'c', call: g.call(from)}
		} else {
			tgt := w.proxies[g.pick(2)]
			nb := 1 + g.pick(3)
			var body []*c17Node
			for j := 0; j < nb; j++ {
				switch g.pick(6) {
				case 0:
					body = append(body, g.lookalike(from))
				case 1:
					body = append(body, &c17Node{tag: 'S', kind: 'd', call: g.call(from)})
				default:
					body = append(body, &c17Node{tag: 'S', kind: 'c', ignore: g.pick(4) == 0, call: g.call(tgt)})
				}
			}
			root = &c17Node{tag: 'P', kind: 'c', target: tgt, body: body}
		}
		c17CapOpts([]*c17Node{root}, 101) // gas limit of the delivered transactions
		// block time: mostly seconds; sometimes right at the earliest unbonding deadline (-1ns / 0 / +1ns); the two-day
		// governance periods are never reached
		dt := []int64{1_000_000_000, 5_000_000_000, 600_000_000_000, 3_600_000_000_000}[g.pick(4)]
		if c.elapsed > 30*time.Hour {
			dt = 1_000_000_000
		} else if g.pick(3) == 0 {
			var first *time.Time
			now := c.header.Time
			w.app.StakingKeeper.IterateUnbondingDelegations(w.ctx, func(_ int64, u stakingtypes.UnbondingDelegation) bool {
				for _, e := range u.Entries {
					t := e.CompletionTime
					if t.After(now) && (first == nil || t.Before(*first)) {
						first = &t
					}
				}
				return false
			})
			if first != nil {
				d := int64(g.pick(3) - 1)
				g.r.Count(fmt.Sprintf("chain.deadline%+d", d))
				dt = first.Sub(now).Nanoseconds() + d
			}
		}
		return fmt.Sprintf("dtx %d %s %s", dt, hx(from.Bytes()), w.nodeToks(root))
	}
}
