//go:build c15

package verifharness

// C15 — no panic outside transaction recovery.
//
// Drives, inside one real app and exactly as gov.EndBlocker does (handler from the gov router, on a cache context,
// written back only on success) but under recover: the four xibc client proposals, the eight aggregate proposals,
// and ValidateGenesis + InitGenesis of xibc / aggregate / rvesting.  Every op first runs the stateless validator
// (ValidateBasic / ValidateGenesis) and then ALWAYS the handler (also for rejected inputs, so that every panic site
// of the model is compared with the code); the state is kept only when validation AND handler succeeded (what gov
// would commit).  ORACLE (the property itself): validation ok  ==>  handler did not panic.
//
// The op line carries the features of the real value the control flow looks at plus the results of external
// computations (marked EXT: recomputed by the harness on every run, also on replay, with the node's own libraries).
// Strings are hex ("-" empty), flags 0/1.
//
//   reset
//   create  <absOk> <chain> <cs> <cons> <EXT sig> <EXT marshalErr>
//   upgrade <absOk> <chain> <cs> <cons> <EXT sig> <EXT pruneErr> <EXT signerErr> <EXT marshalErr>
//   toggle  <absOk> <chain> <cs> <cons> <EXT sig> <EXT marshalErr>
//       cs   = nil | wrong | tm:<chainBlank>:<trustOk>:<trusting>:<unbonding>:<drift>:<height>:<specsNil>:<specHasNil>
//            | bsc:<epoch>:<chainId>:<height>:<extraLen>:<mixZero>:<uncleOk>:<bloomLen>:<nonceLen>:<diffZero>
//            | eth:<height>:<gasLimit>:<gasUsed>:<bloomLen>:<diffZero> | tss:<addrOk>
//       cons = nil | wrong | tm | bsc | eth | tss | tm:<rootEmpty>:<hashOk>:<tsPositive>  (proposals only; since fafdbf1 ValidateBasic
//              unpacks the consensus state and runs its ValidateBasic: tendermint checks root / next-validators hash / time stamp) ;  sig = g (signed, coinbase = signer) | m (signed, other coinbase) | f (garbage)
//       (for a bsc cs the sig field is an INPUT: it says how the header is sealed)
//   relayer <absOk> <addrOk> <nChains> <nAddrs> <chainsOk>
//   xgen <nativeOk> <packetOk> <nC> {<EXT idOk> <chain> <cs>}  <nK> {<chain> <k> {<heightZero> <cons> <consValid> <EXT typeMatch>}}
//        <nM> {<chain> <k> {<keyEmpty> <valEmpty>}}                      (only directly after reset)
//   regcoin <meta> <EXT restOk> <EXT isEvmDenom> <EXT hasSupply> <EXT verifyOk> <EXT deploy ok:addr|err>
//   addcoin <meta> <EXT restOk> <contract addr|-> <EXT isEvmDenom> <EXT hasSupply> <EXT verifyOk>
//       meta = <EXT nameBlank> <symbolBlank> <EXT baseValid> <EXT displayValid> <name> <base> <display> <k> {<denom> <exp> <EXT unitOk>}
//   regerc20 <EXT vOk> <addr> <EXT create ok:denom|err>
//   togglerelay <EXT vOk> e:<addr>|d:<denom>
//   updatepair <EXT vOk> <old> <new> <EXT metaFound> <EXT metaUnits> <EXT restOk>
//   trace <EXT vOk> <EXT evmOk>  |  disable <EXT vOk> <EXT evmOk>        (fixed contents; vOk input via title)
//   enable <addrOk> <period> <limit> <max> <min> <absOk> <EXT evmOk>     (the four numbers are the LITERAL strings, hex: the model
//        transcribes big.Int.SetString(s, 10) for ValidateBasic and, separately, for the handler's unchecked re-parse)
//   any op may end with  raw=<name>:<hex>  tokens: the literal spelling of an address-like string field (ERC20 addresses a/o/n/t/c,
//        relayer addr, tss address, rvesting From f); the model ignores them, the harness derives the EXT flags / canonical
//        values next to them with the node's own parsers (IsHexAddress, HexToAddress, AccAddressFromBech32).  relayer's addrOk is e|0|1.
//   agen <enable> <n> {<erc20> <EXT addrOk> <k> {<denom> <EXT valid>}}     (only directly after reset)
//   rvgen <enable> <k> {<denom> <amt|nil>} <none|bad|good> <EXT initRewardValid> <canPay>
// observation:  v=<ok|err|panic> h=<ok|err|panic> [c=<#clients> | n=<#token pairs>]

import (
	"crypto/ecdsa"
	"fmt"
	"math/big"
	"os"
	"os/exec"
	"path/filepath"
	"regexp"
	"strconv"
	"strings"
	"testing"
	"time"

	"encoding/json"

	ics23 "github.com/confio/ics23/go"
	codecproto "github.com/gogo/protobuf/proto"
	"github.com/ethereum/go-ethereum/common"
	"github.com/ethereum/go-ethereum/crypto"
	"github.com/ethereum/go-ethereum/rlp"
	"golang.org/x/crypto/sha3"

	codectypes "github.com/cosmos/cosmos-sdk/codec/types"
	sdk "github.com/cosmos/cosmos-sdk/types"
	banktypes "github.com/cosmos/cosmos-sdk/x/bank/types"
	govtypes "github.com/cosmos/cosmos-sdk/x/gov/types"
	stakingtypes "github.com/cosmos/cosmos-sdk/x/staking/types"
	tmproto "github.com/tendermint/tendermint/proto/tendermint/types"
	"github.com/tharsis/ethermint/crypto/ethsecp256k1"
	ethermint "github.com/tharsis/ethermint/types"

	"github.com/teleport-network/teleport/app"
	"github.com/teleport-network/teleport/x/aggregate"
	aggtypes "github.com/teleport-network/teleport/x/aggregate/types"
	rvestingtypes "github.com/teleport-network/teleport/x/rvesting/types"
	"github.com/teleport-network/teleport/x/xibc"
	bsctypes "github.com/teleport-network/teleport/x/xibc/clients/light-clients/bsc/types"
	ethtypes "github.com/teleport-network/teleport/x/xibc/clients/light-clients/eth/types"
	tmtypes "github.com/teleport-network/teleport/x/xibc/clients/light-clients/tendermint/types"
	tsstypes "github.com/teleport-network/teleport/x/xibc/clients/tss-client/types"
	clienttypes "github.com/teleport-network/teleport/x/xibc/core/client/types"
	commitmenttypes "github.com/teleport-network/teleport/x/xibc/core/commitment/types"
	"github.com/teleport-network/teleport/x/xibc/core/host"
	packettypes "github.com/teleport-network/teleport/x/xibc/core/packet/types"
	"github.com/teleport-network/teleport/x/xibc/exported"
	xibctypes "github.com/teleport-network/teleport/x/xibc/types"
)

const c15MaxI64 = uint64(1<<63 - 1)

type c15World struct {
	app      *app.Teleport
	base     sdk.Context
	ctx      sdk.Context
	hist     []string
	key      *ecdsa.PrivateKey
	signer   common.Address
	funded   sdk.AccAddress
	unfunded sdk.AccAddress
	ercPool  []common.Address // ERC20 contracts deployed in the base state, not registered
	raw      map[string]string // raw=<name>:<hex> hints of the op being applied (spellings of address fields)
	sfx      string            // the hints, re-appended to the canonical op line
}

var c15Uncle = common.HexToHash("0x1dcc4de8dec75d7aab85b567b6ccd41ad312451b948a7413f0a142fd40d49347").Bytes()

func newC15World(t *testing.T) *c15World {
	a := app.Setup(false, nil)
	cpriv, _ := ethsecp256k1.GenerateKey()
	cons := sdk.ConsAddress(cpriv.PubKey().Address())
	ctx := a.BaseApp.NewContext(false, tmproto.Header{Height: 1, ChainID: "teleport_9000-1", Time: time.Unix(1700000000, 0).UTC(), ProposerAddress: cons.Bytes()})
	w := &c15World{app: a, base: ctx}
	vpriv, _ := ethsecp256k1.GenerateKey()
	val, err := stakingtypes.NewValidator(sdk.ValAddress(vpriv.PubKey().Address().Bytes()), cpriv.PubKey(), stakingtypes.Description{})
	if err != nil {
		t.Fatal(err)
	}
	_ = a.StakingKeeper.SetValidatorByConsAddr(ctx, val)
	a.StakingKeeper.SetValidator(ctx, val)
	w.key, _ = crypto.HexToECDSA("b71c71a67e1177ad4e901695e1b4b9ee17ae16c6668d313eac2f96dbcda3f291")
	w.signer = crypto.PubkeyToAddress(w.key.PublicKey)
	// coins with supply, a funded and an unfunded account
	w.funded = sdk.AccAddress(common.HexToAddress("0x00000000000000000000000000000000000000f1").Bytes())
	w.unfunded = sdk.AccAddress(common.HexToAddress("0x00000000000000000000000000000000000000f2").Bytes())
	coins := sdk.NewCoins(sdk.NewInt64Coin("acoin", 1000), sdk.NewInt64Coin("bcoin", 1000), sdk.NewInt64Coin("atele", 1000),
		sdk.NewInt64Coin("ibc/27394FB092D2ECCD56123C74F36E4C1F926001CEADA9CA97EA622B25F41E5EB2", 1000))
	if err := a.BankKeeper.MintCoins(ctx, aggtypes.ModuleName, coins); err != nil {
		t.Fatal(err)
	}
	if err := a.BankKeeper.SendCoinsFromModuleToAccount(ctx, aggtypes.ModuleName, w.funded, coins); err != nil {
		t.Fatal(err)
	}
	// two plain ERC20 contracts that no token pair refers to
	for i := 0; i < 2; i++ {
		md := banktypes.Metadata{Name: fmt.Sprintf("pool%d", i), Symbol: fmt.Sprintf("PL%d", i), Base: "xx", Display: "xx",
			DenomUnits: []*banktypes.DenomUnit{{Denom: "xx", Exponent: uint32(6 * i)}}}
		addr, err := a.AggregateKeeper.DeployERC20Contract(ctx, md)
		if err != nil {
			t.Fatal("deploy pool contract: ", err)
		}
		w.ercPool = append(w.ercPool, addr)
	}
	w.reset()
	return w
}

func (w *c15World) reset() {
	w.ctx, _ = w.base.CacheContext()
	w.hist = nil
}

// ---- small codecs of the op language ---------------------------------------------------------------------

func c15b(s string) bool { return s == "1" }
func c15f(b bool) string {
	if b {
		return "1"
	}
	return "0"
}
func c15u(s string) uint64 { v, _ := strconv.ParseUint(s, 10, 64); return v }
func c15i(s string) int64  { v, _ := strconv.ParseInt(s, 10, 64); return v }
func c15n(s string) int    { v, _ := strconv.Atoi(s); return v }
func c15oc(pan bool, err error) string {
	if pan {
		return "panic"
	}
	if err != nil {
		return "err"
	}
	return "ok"
}
func c15addrTok(a common.Address) string { return strings.ToLower(hx(a.Bytes())) }

// class of a panic message, for stable finding signatures
func c15class(msg string) string {
	switch {
	case strings.Contains(msg, "divide by zero"):
		return "divide-by-zero"
	case strings.Contains(msg, "bloom bytes too big"):
		return "bloom-length"
	case strings.Contains(msg, "negative"):
		return "rlp-negative-bigint"
	case strings.Contains(msg, "index out of range"):
		return "index-out-of-range"
	case strings.Contains(msg, "slice bounds"):
		return "slice-bounds"
	case strings.Contains(msg, "invalid coins"):
		return "invalid-coins"
	case strings.Contains(msg, "reflect.Value.Type on zero Value"):
		return "nil-bigint-in-abi-pack"
	case strings.Contains(msg, "key is nil"):
		return "store-nil-key"
	case strings.Contains(msg, "nil pointer"):
		return "nil-dereference"
	case strings.Contains(msg, "ParamSetPair is invalid"):
		return "param-invalid"
	case strings.Contains(msg, "insufficient funds") || strings.Contains(msg, "is smaller than"):
		return "insufficient-funds"
	}
	return "other"
}

func c15dbg(line, msg string) {
	if os.Getenv("C15_DEBUG") != "" && strings.TrimSpace(strings.Trim(msg, "/ ")) != "" {
		fmt.Fprintf(os.Stderr, "DBG %s\n    => %s\n", line, msg)
	}
}

// lexical class of a numeric string (distribution counters only)
func c15spellClass(x string) string {
	dec := regexp.MustCompile(`^[0-9]+$`)
	switch {
	case x == "":
		return "empty"
	case dec.MatchString(x) && (len(x) == 1 || x[0] != '0'):
		return "decimal"
	case dec.MatchString(x):
		return "leading-zero"
	case regexp.MustCompile(`^[+-][0-9]+$`).MatchString(x):
		return "signed"
	case regexp.MustCompile(`^0[xX][0-9a-fA-F_]+$`).MatchString(x):
		return "hex-prefix"
	case regexp.MustCompile(`^0[bB][01_]+$`).MatchString(x), regexp.MustCompile(`^0[oO][0-7_]+$`).MatchString(x):
		return "bin-oct-prefix"
	case regexp.MustCompile(`^[0-9][0-9_]*$`).MatchString(x):
		return "underscore"
	case strings.TrimSpace(x) != x:
		return "whitespace"
	case regexp.MustCompile(`^[0-9.]+[eE][+-]?[0-9]+$`).MatchString(x):
		return "exponent"
	}
	for _, c := range x {
		if c > 127 {
			return "unicode"
		}
	}
	return "other"
}

// ---- bsc header sealing (same libraries as x/xibc/clients/light-clients/bsc/types/header.go) ---------------

func c15SealHash(h bsctypes.Header, chainID *big.Int) (hash common.Hash, err error) {
	hasher := sha3.NewLegacyKeccak256()
	err = rlp.Encode(hasher, []interface{}{chainID, h.ParentHash, h.UncleHash, h.Coinbase, h.Root, h.TxHash, h.ReceiptHash, h.Bloom,
		h.Difficulty, h.Height.RevisionHeight, h.GasLimit, h.GasUsed, h.Time, h.Extra[:len(h.Extra)-65], h.MixDigest, h.Nonce})
	hasher.Sum(hash[:0])
	return
}

// class of ecrecover(header) compared with the coinbase: g / m / f  ("f" also when it is not reached)
func c15SigClass(cs *bsctypes.ClientState) string {
	h := cs.Header
	if len(h.Extra) < 65 || cs.ChainId > c15MaxI64 {
		return "f"
	}
	hash, err := c15SealHash(h, big.NewInt(int64(cs.ChainId)))
	if err != nil {
		return "f"
	}
	pub, err := crypto.Ecrecover(hash.Bytes(), h.Extra[len(h.Extra)-65:])
	if err != nil {
		return "f"
	}
	var signer common.Address
	copy(signer[:], crypto.Keccak256(pub[1:])[12:])
	if signer != common.BytesToAddress(h.Coinbase) {
		return "m"
	}
	return "g"
}

// ---- concretisation of client / consensus states -----------------------------------------------------------

func (w *c15World) mkCS(tok, sig string) (exported.ClientState, string) {
	f := strings.Split(tok, ":")
	switch f[0] {
	case "tm":
		cs := &tmtypes.ClientState{ChainId: "testchain-1", TrustLevel: tmtypes.Fraction{Numerator: 1, Denominator: 3},
			TrustingPeriod: time.Duration(c15i(f[3])), UnbondingPeriod: time.Duration(c15i(f[4])), MaxClockDrift: time.Duration(c15i(f[5])),
			LatestHeight: clienttypes.NewHeight(0, c15u(f[6])), ProofSpecs: commitmenttypes.GetSDKSpecs(), MerklePrefix: commitmenttypes.MerklePrefix{KeyPrefix: []byte("xibc")}}
		if c15b(f[1]) {
			cs.ChainId = "  "
		}
		if !c15b(f[2]) {
			cs.TrustLevel = tmtypes.Fraction{Numerator: 4, Denominator: 3}
		}
		if c15b(f[7]) {
			cs.ProofSpecs = nil
		} else if c15b(f[8]) {
			cs.ProofSpecs = []*ics23.ProofSpec{nil}
		}
		return cs, tok
	case "bsc":
		h := bsctypes.Header{Height: clienttypes.NewHeight(0, c15u(f[3])), Bloom: make([]byte, c15n(f[7])), Nonce: make([]byte, c15n(f[8])),
			GasLimit: 30000000, Time: 1700000000, Difficulty: []byte{2}}
		if !c15b(f[5]) {
			h.MixDigest = []byte{1}
		}
		if c15b(f[6]) {
			h.UncleHash = c15Uncle
		}
		if c15b(f[9]) {
			h.Difficulty = []byte{1, 0, 0, 0, 0, 0, 0, 0, 0} // non-zero integer whose low 64 bits are zero
		}
		n := c15n(f[4])
		h.Extra = make([]byte, n)
		for i := range h.Extra {
			h.Extra[i] = byte(i*7 + 1)
		}
		cs := &bsctypes.ClientState{Header: h, ChainId: c15u(f[2]), Epoch: c15u(f[1]), BlockInteval: 3, TrustingPeriod: 1000}
		if n >= 65 && cs.ChainId <= c15MaxI64 && sig != "f" {
			cs.Header.Coinbase = w.signer.Bytes()
			if sig == "m" {
				cs.Header.Coinbase = common.HexToAddress("0x00000000000000000000000000000000000000aa").Bytes()
			}
			if hash, err := c15SealHash(cs.Header, big.NewInt(int64(cs.ChainId))); err == nil {
				if s, err := crypto.Sign(hash.Bytes(), w.key); err == nil {
					copy(cs.Header.Extra[n-65:], s)
				}
			}
		}
		return cs, tok
	case "eth":
		h := ethtypes.Header{Height: clienttypes.NewHeight(0, c15u(f[1])), GasLimit: c15u(f[2]), GasUsed: c15u(f[3]), Bloom: make([]byte, c15n(f[4])), Difficulty: []byte{2}}
		if c15b(f[5]) {
			h.Difficulty = []byte{1, 0, 0, 0, 0, 0, 0, 0, 0}
		}
		return &ethtypes.ClientState{Header: h, ChainId: 1, TrustingPeriod: 1000}, tok
	case "tss":
		cs := &tsstypes.ClientState{TssAddress: w.funded.String()}
		if !c15b(f[1]) {
			cs.TssAddress = "not-bech32"
		}
		if rs, ok := w.raw["tss"]; ok {
			cs.TssAddress = rs
			_, err := sdk.AccAddressFromBech32(rs)
			tok = "tss:" + c15f(err == nil)
		}
		return cs, tok
	}
	return nil, tok
}

func c15mkCons(tok string, valid bool) exported.ConsensusState {
	if f := strings.Split(tok, ":"); len(f) == 4 && f[0] == "tm" { // tm:<rootEmpty>:<hashOk>:<tsPositive>
		c := &tmtypes.ConsensusState{Timestamp: time.Unix(1700000000, 0).UTC(), Root: []byte("root"), NextValidatorsHash: make([]byte, 32)}
		if c15b(f[1]) {
			c.Root = []byte{}
		}
		if !c15b(f[2]) {
			c.NextValidatorsHash = make([]byte, 31)
		}
		if !c15b(f[3]) {
			c.Timestamp = time.Unix(0, 0).UTC()
		}
		return c
	}
	switch tok {
	case "tm":
		c := &tmtypes.ConsensusState{Timestamp: time.Unix(1700000000, 0).UTC(), Root: []byte("root"), NextValidatorsHash: make([]byte, 32)}
		if !valid {
			c.Root = nil
		}
		return c
	case "bsc":
		return &bsctypes.ConsensusState{Timestamp: 1, Height: clienttypes.NewHeight(0, 1), Root: []byte{1}}
	case "eth":
		return &ethtypes.ConsensusState{Timestamp: 1, Height: clienttypes.NewHeight(0, 1), Root: []byte{1}}
	case "tss":
		return &tsstypes.ConsensusState{}
	}
	return nil
}

// Any for the ClientState slot; ok=false when the value cannot be packed (not representable on the wire)
func (w *c15World) anyCS(tok, sig string) (a *codectypes.Any, cs exported.ClientState, ok bool) {
	switch tok {
	case "nil":
		return nil, nil, true
	case "wrong":
		a, _ = codectypes.NewAnyWithValue(&tsstypes.ConsensusState{})
		return a, nil, true
	}
	cs, _ = w.mkCS(tok, sig)
	pan, _ := safely(func() {
		var err error
		a, err = clienttypes.PackClientState(cs)
		ok = err == nil
	})
	return a, cs, ok && !pan
}

func c15anyCons(tok string, valid bool) *codectypes.Any {
	switch tok {
	case "nil":
		return nil
	case "wrong":
		a, _ := codectypes.NewAnyWithValue(&tsstypes.ClientState{TssAddress: "x"})
		return a
	}
	a, _ := clienttypes.PackConsensusState(c15mkCons(tok, valid))
	return a
}

// ---- running one content exactly as gov.EndBlocker does, under recover --------------------------------------

type c15Res struct{ v, h, vmsg, hmsg string }

func (w *c15World) runContent(r *Rec, kind string, c govtypes.Content, decodable bool) c15Res {
	var res c15Res
	var verr error
	vp, vm := safely(func() { verr = c.ValidateBasic() })
	res.v, res.vmsg = c15oc(vp, verr), vm
	handler := w.app.GovKeeper.Router().GetRoute(c.ProposalRoute())
	cacheCtx, write := w.ctx.CacheContext()
	var herr error
	hp, hm := safely(func() { herr = handler(cacheCtx, c) })
	res.h, res.hmsg = c15oc(hp, herr), hm
	if res.v == "ok" && decodable {
		w.gasFillRuns(r, kind, c, res.h) // on the same pre-state, before anything is committed
	}
	if res.v == "ok" && res.h == "ok" {
		write()
	}
	c15dbg(w.hist[len(w.hist)-1], res.vmsg+" / "+res.hmsg)
	r.Count("v." + res.v)
	r.Count(kind + ".v=" + res.v + ".h=" + res.h)
	if res.v == "ok" {
		r.Count("validated")
		r.Count("validated." + kind)
		if res.h == "panic" {
			r.Count("validated.panic")
			if decodable {
				r.Find(Finding{Sig: "C15:proposal-panic-after-validation:" + kind + ":" + c15class(hm),
					What: "a " + kind + " proposal accepted by ValidateBasic panics in its handler (gov.EndBlocker runs it without recover: chain halt): " + hm,
					Ops:  append([]string{}, w.hist...), Obs: "v=ok h=panic (" + hm + ")", Req: "success or an ordinary error"})
			}
		}
	}
	return res
}

// Begin/EndBlock code runs under the block's gas meter: FINITE when consensus_params.block.max_gas > 0 (the repo's init.sh sets
// 10000000), and already filled by the block's transactions when EndBlock executes a passed proposal.  A block-phase step must behave
// the same at every fill level (in particular it must not panic with ErrorOutOfGas, which only runTx recovers).
const c15BlockGasLimit = uint64(10000000)

var c15GasFills = []struct {
	name string
	used uint64
}{{"empty", 0}, {"half", c15BlockGasLimit / 2}, {"limit-1000", c15BlockGasLimit - 1000}, {"limit-1", c15BlockGasLimit - 1}, {"full", c15BlockGasLimit}}

func c15FilledMeter(used uint64) sdk.GasMeter {
	m := sdk.NewGasMeter(c15BlockGasLimit)
	if used > 0 {
		m.ConsumeGas(used, "transactions of the block")
	}
	return m
}

// like safely, but also says whether the panic value is the sdk's out-of-gas / gas-overflow error
func c15SafelyGas(f func()) (panicked bool, msg string, outOfGas bool) {
	defer func() {
		if r := recover(); r != nil {
			panicked, msg = true, fmt.Sprint(r)
			switch r.(type) {
			case sdk.ErrorOutOfGas, sdk.ErrorGasOverflow:
				outOfGas = true
				msg = fmt.Sprintf("%T%v", r, r)
			}
		}
	}()
	f()
	return
}

// gasFillRuns re-executes the handler, on throw-away cache contexts, under a finite block gas meter at every fill level and compares
// the outcome class with the one observed under the harness' default (nil) meter.
func (w *c15World) gasFillRuns(r *Rec, kind string, c govtypes.Content, base string) {
	handler := w.app.GovKeeper.Router().GetRoute(c.ProposalRoute())
	for _, fl := range c15GasFills {
		cc, _ := w.ctx.WithBlockGasMeter(c15FilledMeter(fl.used)).CacheContext()
		var herr error
		hp, hm, oog := c15SafelyGas(func() { herr = handler(cc, c) })
		got := c15oc(hp, herr)
		r.Count("gasfill." + kind + "." + fl.name)
		if got == base {
			continue
		}
		if got == "panic" {
			cls := c15class(hm)
			if oog {
				cls = "out-of-gas"
			}
			r.Find(Finding{Sig: "C15:block-phase-panic:" + cls + ":endblock-proposal:" + kind + ":" + fl.name,
				What: "the handler of a validated " + kind + " proposal panics when gov.EndBlocker executes it in a block whose gas meter is finite (max_gas = 10000000) and " + fl.name + ": " + hm,
				Ops:  append([]string{}, w.hist...), Obs: "under the default meter h=" + base + ", with the block gas meter " + fl.name + " h=panic (" + hm + ")", Req: "Begin/EndBlock code does not depend on the block gas meter and never panics"})
		} else {
			r.Find(Finding{Sig: "C15:block-phase-gas-dependence:endblock-proposal:" + kind + ":" + fl.name,
				What: "the outcome of a validated " + kind + " proposal depends on the block gas meter", Ops: append([]string{}, w.hist...),
				Obs: "default meter h=" + base + ", block gas meter " + fl.name + " h=" + got, Req: "same outcome at every fill level"})
		}
	}
}

// wire round trip of a proposal content, as it is stored by gov and loaded in EndBlocker
func (w *c15World) roundTrip(c govtypes.Content) (govtypes.Content, bool) {
	var out govtypes.Content
	ok := false
	safely(func() {
		pm, isMsg := c.(codecproto.Message)
		if !isMsg {
			return
		}
		bz, err := w.app.AppCodec().MarshalInterface(pm)
		if err != nil {
			return
		}
		if err := w.app.AppCodec().UnmarshalInterface(bz, &out); err != nil {
			return
		}
		ok = true
	})
	if !ok {
		return c, false
	}
	return out, true
}

func (w *c15World) nClients() int { return len(w.app.XIBCKeeper.ClientKeeper.GetAllGenesisClients(w.ctx)) }
func (w *c15World) nPairs() int   { return len(w.app.AggregateKeeper.GetAllTokenPairs(w.ctx)) }

func c15title(ok bool) string {
	if ok {
		return "title"
	}
	return ""
}

// ---- apply ---------------------------------------------------------------------------------------------------

// apply executes one op; returns the canonical op line (EXT fields filled in) and the observation.
func (w *c15World) apply(r *Rec, op string) (string, string) {
	all := strings.Fields(op)
	if all[0] == "reset" {
		w.reset()
		w.hist = []string{op}
		return op, "ok"
	}
	// raw=<name>:<hex> tokens: the literal spelling of an address-like string field (ignored by the model, which only
	// sees the EXT flags / canonical values the harness derives from it with the node's own parsers)
	var f []string
	w.raw, w.sfx = map[string]string{}, ""
	for _, t := range all {
		if strings.HasPrefix(t, "raw=") {
			if i := strings.IndexByte(t, ':'); i > 4 {
				w.raw[t[4:i]] = string(unhx(t[i+1:]))
				w.sfx += " " + t
				r.Count("raw-spelling")
			}
			continue
		}
		f = append(f, t)
	}
	w.hist = append(w.hist, op)
	fix := func(line, out string) (string, string) {
		if line == "" {
			return line, out
		}
		w.hist[len(w.hist)-1] = line + w.sfx
		return line + w.sfx, out
	}
	// spelling and value of an address field: the raw hint if present, else the checksum form of the canonical token
	addrField := func(name, canon string) (string, common.Address) {
		if rs, ok := w.raw[name]; ok {
			return rs, common.HexToAddress(rs)
		}
		a := common.HexToAddress("0x" + canon)
		return a.Hex(), a
	}
	ck := w.app.XIBCKeeper.ClientKeeper
	ak := w.app.AggregateKeeper
	switch f[0] {
	case "create", "upgrade", "toggle":
		chain := string(unhx(f[2]))
		sig := f[5]
		acs, cs, packable := w.anyCS(f[3], sig)
		if !packable { // e.g. nil proof spec: cannot be marshalled, hence cannot arrive in a transaction
			r.Count("unrepresentable")
			w.hist = w.hist[:len(w.hist)-1]
			return "", ""
		}
		if t, isTss := cs.(*tsstypes.ClientState); isTss {
			if _, has := w.raw["tss"]; has {
				_, err := sdk.AccAddressFromBech32(t.TssAddress)
				f[3] = "tss:" + c15f(err == nil)
			}
		}
		acons := c15anyCons(f[4], true)
		var c govtypes.Content
		switch f[0] {
		case "create":
			c = &clienttypes.CreateClientProposal{Title: c15title(c15b(f[1])), Description: "d", ChainName: chain, ClientState: acs, ConsensusState: acons}
		case "upgrade":
			c = &clienttypes.UpgradeClientProposal{Title: c15title(c15b(f[1])), Description: "d", ChainName: chain, ClientState: acs, ConsensusState: acons}
		default:
			c = &clienttypes.ToggleClientProposal{Title: c15title(c15b(f[1])), Description: "d", ChainName: chain, ClientState: acs, ConsensusState: acons}
		}
		c, decodable := w.roundTrip(c)
		if !decodable {
			r.Count("undecodable")
		}
		// EXT
		store := ck.ClientStore(w.ctx, chain)
		// (since fix e081e86 ToggleClient initialises the NEW client state: the seal class is that of the proposal's state for all three)
		if b, ok := cs.(*bsctypes.ClientState); ok {
			sig = c15SigClass(b)
		}
		line := ""
		switch f[0] {
		case "create", "toggle":
			line = strings.Join([]string{f[0], f[1], f[2], f[3], f[4], sig, "0"}, " ")
		case "upgrade":
			pruneErr, signerErr := false, false
			safely(func() {
				bsctypes.IterateConsensusStateAscending(store, func(h exported.Height) bool {
					if _, err := bsctypes.GetConsensusState(store, w.app.AppCodec(), h); err != nil {
						pruneErr = true
					}
					return true
				})
			})
			if p, _ := safely(func() {
				if _, err := bsctypes.GetRecentSigners(store); err != nil {
					signerErr = true
				}
			}); p {
				signerErr = true
			}
			line = strings.Join([]string{f[0], f[1], f[2], f[3], f[4], sig, c15f(pruneErr), c15f(signerErr), "0"}, " ")
		}
		w.hist[len(w.hist)-1] = line + w.sfx
		res := w.runContent(r, f[0], c, decodable)
		r.Count("cs." + strings.Split(f[3], ":")[0])
		return fix(line, fmt.Sprintf("v=%s h=%s c=%d", res.v, res.h, w.nClients()))
	case "relayer":
		p := &clienttypes.RegisterRelayerProposal{Title: c15title(c15b(f[1])), Description: "d", Address: w.funded.String()}
		if !c15b(f[2]) {
			p.Address = "bad"
		}
		if f[2] == "e" {
			p.Address = ""
		}
		if rs, ok := w.raw["addr"]; ok { // class of the literal string: e (empty) | 0 | 1
			p.Address = rs
			_, err := sdk.AccAddressFromBech32(rs)
			f[2] = c15f(err == nil)
			if len(rs) == 0 {
				f[2] = "e"
			}
		}
		for i := 0; i < c15n(f[3]); i++ {
			if c15b(f[5]) {
				p.Chains = append(p.Chains, fmt.Sprintf("chain-%d", i))
			} else {
				p.Chains = append(p.Chains, "x")
			}
		}
		for i := 0; i < c15n(f[4]); i++ {
			p.Addresses = append(p.Addresses, fmt.Sprintf("0xaddr%d", i))
		}
		c, dec := w.roundTrip(p)
		line := strings.Join(f, " ")
		w.hist[len(w.hist)-1] = line + w.sfx
		res := w.runContent(r, f[0], c, dec)
		return fix(line, fmt.Sprintf("v=%s h=%s c=%d", res.v, res.h, w.nClients()))
	case "xgen":
		return fix(w.applyXgen(r, f))
	case "regcoin", "addcoin":
		return fix(w.applyCoin(r, f))
	case "regerc20":
		spell, addr := addrField("a", f[2])
		f[2] = c15addrTok(addr)
		p := &aggtypes.RegisterERC20Proposal{Title: "t", Description: "d", ERC20Address: spell}
		create := "err"
		cc, _ := w.ctx.CacheContext()
		safely(func() {
			if md, err := ak.CreateCoinMetadata(cc, addr); err == nil {
				create = "ok:" + hxs(md.Name)
			}
		})
		c, dec := w.roundTrip(p)
		line := strings.Join([]string{f[0], c15f(p.ValidateBasic() == nil), f[2], create}, " ")
		w.hist[len(w.hist)-1] = line + w.sfx
		res := w.runContent(r, f[0], c, dec)
		return fix(line, fmt.Sprintf("v=%s h=%s n=%d", res.v, res.h, w.nPairs()))
	case "togglerelay":
		tok := ""
		if strings.HasPrefix(f[2], "e:") {
			tok = common.HexToAddress("0x" + f[2][2:]).Hex()
		} else {
			tok = string(unhx(f[2][2:]))
		}
		if rs, ok := w.raw["t"]; ok { // the handler (GetTokenPairID) and the validator both classify with common.IsHexAddress
			tok = rs
			if common.IsHexAddress(rs) {
				f[2] = "e:" + c15addrTok(common.HexToAddress(rs))
			} else {
				f[2] = "d:" + hxs(rs)
			}
		}
		p := &aggtypes.ToggleTokenRelayProposal{Title: "t", Description: "d", Token: tok}
		vok := false
		safely(func() { vok = p.ValidateBasic() == nil })
		c, dec := w.roundTrip(p)
		line := strings.Join([]string{f[0], c15f(vok), f[2]}, " ")
		w.hist[len(w.hist)-1] = line + w.sfx
		res := w.runContent(r, f[0], c, dec)
		return fix(line, fmt.Sprintf("v=%s h=%s n=%d", res.v, res.h, w.nPairs()))
	case "updatepair":
		oldS, oldA := addrField("o", f[2])
		newS, newA := addrField("n", f[3])
		f[2], f[3] = c15addrTok(oldA), c15addrTok(newA)
		p := &aggtypes.UpdateTokenPairERC20Proposal{Title: "t", Description: "d", ERC20Address: oldS, NewERC20Address: newS}
		metaFound, metaUnits, restOk := false, 0, false
		safely(func() {
			pair, found := ak.GetTokenPair(w.ctx, ak.GetERC20Map(w.ctx, oldA))
			if !found || len(pair.Denoms) == 0 {
				return
			}
			md, found := w.app.BankKeeper.GetDenomMetaData(w.ctx, pair.Denoms[0])
			metaFound, metaUnits = found, len(md.DenomUnits)
			if !found {
				return
			}
			cc, _ := w.ctx.CacheContext()
			data, err := ak.QueryERC20(cc, newA)
			if err != nil || md.Display != data.Name || md.Symbol != data.Symbol || md.Description != aggtypes.CreateDenomDescription(oldA.String()) {
				return
			}
			for _, du := range md.DenomUnits {
				if du.Denom == data.Name {
					restOk = du.Exponent == uint32(data.Decimals)
					break
				}
			}
		})
		c, dec := w.roundTrip(p)
		line := strings.Join([]string{f[0], c15f(p.ValidateBasic() == nil), f[2], f[3], c15f(metaFound), strconv.Itoa(metaUnits), c15f(restOk)}, " ")
		w.hist[len(w.hist)-1] = line + w.sfx
		res := w.runContent(r, f[0], c, dec)
		return fix(line, fmt.Sprintf("v=%s h=%s n=%d", res.v, res.h, w.nPairs()))
	case "trace", "disable":
		spell, contract := addrField("a", c15addrTok(w.ercPool[0]))
		var c govtypes.Content
		evmOk := false
		cc, _ := w.ctx.CacheContext()
		if f[0] == "trace" {
			c = &aggtypes.RegisterERC20TraceProposal{Title: c15title(c15b(f[1])), Description: "d", ERC20Address: spell, OriginToken: "0xtoken", OriginChain: "eth-b", Scale: 2}
			safely(func() { _, err := ak.AddERC20TraceToTransferContract(cc, contract, "0xtoken", "eth-b", 2); evmOk = err == nil })
		} else {
			c = &aggtypes.DisableTimeBasedSupplyLimitProposal{Title: c15title(c15b(f[1])), Description: "d", ERC20Address: spell}
			safely(func() { _, err := ak.DisableTimeBasedSupplyLimitInTransferContract(cc, contract); evmOk = err == nil })
		}
		if _, has := w.raw["a"]; has { // the flag is then the whole stateless verdict (title and address spelling)
			vok := false
			safely(func() { vok = c.ValidateBasic() == nil })
			f[1] = c15f(vok)
		}
		c, dec := w.roundTrip(c)
		line := strings.Join([]string{f[0], f[1], c15f(evmOk)}, " ")
		w.hist[len(w.hist)-1] = line + w.sfx
		res := w.runContent(r, f[0], c, dec)
		return fix(line, fmt.Sprintf("v=%s h=%s", res.v, res.h))
	case "enable":
		// the four numeric fields are the literal strings of the content (hex on the op line): the model parses them itself
		spell, contract := addrField("a", c15addrTok(w.ercPool[0]))
		p := &aggtypes.EnableTimeBasedSupplyLimitProposal{Title: c15title(c15b(f[6])), Description: "d", ERC20Address: spell,
			TimePeriod: string(unhx(f[2])), TimeBasedLimit: string(unhx(f[3])), MaxAmount: string(unhx(f[4])), MinAmount: string(unhx(f[5]))}
		if _, has := w.raw["a"]; has {
			f[1] = c15f(ethermint.ValidateAddress(spell) == nil)
		} else if !c15b(f[1]) {
			p.ERC20Address = "0x12"
			contract = common.HexToAddress(p.ERC20Address)
		}
		evmOk := false
		cc, _ := w.ctx.CacheContext()
		safely(func() { // exactly the handler's conversion (SetString base 10, flag dropped); a nil value panics in abi.Pack: irrelevant then
			bi := func(s string) *big.Int { v, _ := new(big.Int).SetString(s, 10); return v }
			_, err := ak.EnableTimeBasedSupplyLimitInTransferContract(cc, contract, bi(p.TimePeriod), bi(p.TimeBasedLimit), bi(p.MaxAmount), bi(p.MinAmount))
			evmOk = err == nil
		})
		for _, x := range []string{p.TimePeriod, p.TimeBasedLimit, p.MaxAmount, p.MinAmount} {
			r.Count("enable.spelling." + c15spellClass(x))
		}
		c, dec := w.roundTrip(p)
		line := strings.Join([]string{f[0], f[1], f[2], f[3], f[4], f[5], f[6], c15f(evmOk)}, " ")
		w.hist[len(w.hist)-1] = line + w.sfx
		res := w.runContent(r, f[0], c, dec)
		return fix(line, fmt.Sprintf("v=%s h=%s", res.v, res.h))
	case "agen":
		return fix(w.applyAgen(r, f))
	case "rvgen":
		return fix(w.applyRvgen(r, f))
	}
	return op, "bad-op"
}

func (w *c15World) genesisOracle(r *Rec, module, v, h, hmsg string) {
	r.Count(module + ".v=" + v + ".h=" + h)
	if v == "ok" {
		r.Count("validated")
		r.Count("validated." + module)
		if h == "panic" {
			r.Count("validated.panic")
			r.Find(Finding{Sig: "C15:genesis-panic-after-validation:" + module + ":" + c15class(hmsg),
				What: module + " InitGenesis panics on a genesis state accepted by ValidateGenesis: " + hmsg,
				Ops:  append([]string{}, w.hist...), Obs: "v=ok h=panic (" + hmsg + ")", Req: "InitGenesis succeeds"})
		}
	}
}

func (w *c15World) applyXgen(r *Rec, f []string) (string, string) {
	gs := clienttypes.GenesisState{NativeChainName: "teleport"}
	if !c15b(f[1]) {
		gs.NativeChainName = ""
	}
	pg := packettypes.DefaultGenesisState()
	if !c15b(f[2]) {
		pg.Acknowledgements = []packettypes.PacketState{{SrcChain: "abc", DstChain: "def", Sequence: 0, Data: []byte{1}}}
	}
	out := []string{f[0], f[1], f[2]}
	i := 3
	nC := c15n(f[i])
	out = append(out, f[i])
	i++
	lastType := map[string]string{}
	for k := 0; k < nC; k++ {
		chain := string(unhx(f[i+1]))
		a, cs, ok := w.anyCS(f[i+2], "f")
		if !ok {
			r.Count("unrepresentable")
			w.hist = w.hist[:len(w.hist)-1]
			return "", ""
		}
		gs.Clients = append(gs.Clients, clienttypes.IdentifiedClientState{ChainName: chain, ClientState: a})
		if cs != nil {
			lastType[chain] = cs.ClientType()
		}
		out = append(out, c15f(host.ClientIdentifierValidator(chain) == nil), f[i+1], f[i+2])
		i += 3
	}
	nK := c15n(f[i])
	out = append(out, f[i])
	i++
	for k := 0; k < nK; k++ {
		chain := string(unhx(f[i]))
		n := c15n(f[i+1])
		out = append(out, f[i], f[i+1])
		i += 2
		ccs := clienttypes.ClientConsensusStates{ChainName: chain}
		for j := 0; j < n; j++ {
			valid := c15b(f[i+2])
			hgt := clienttypes.NewHeight(0, uint64(5+j))
			if c15b(f[i]) {
				hgt = clienttypes.NewHeight(0, 0)
			}
			a := c15anyCons(f[i+1], valid)
			tm := false
			if cons := c15mkCons(f[i+1], valid); cons != nil {
				valid = cons.ValidateBasic() == nil
				tm = lastType[chain] == cons.ClientType()
			}
			ccs.ConsensusStates = append(ccs.ConsensusStates, clienttypes.ConsensusStateWithHeight{Height: hgt, ConsensusState: a})
			out = append(out, f[i], f[i+1], c15f(valid), c15f(tm))
			i += 4
		}
		gs.ClientsConsensus = append(gs.ClientsConsensus, ccs)
	}
	nM := c15n(f[i])
	out = append(out, f[i])
	i++
	for k := 0; k < nM; k++ {
		chain := string(unhx(f[i]))
		n := c15n(f[i+1])
		out = append(out, f[i], f[i+1])
		i += 2
		im := clienttypes.IdentifiedGenesisMetadata{ChainName: chain}
		for j := 0; j < n; j++ {
			md := clienttypes.GenesisMetadata{Key: []byte(fmt.Sprintf("zz-meta-%d", j)), Value: []byte{1}}
			if c15b(f[i]) {
				md.Key = nil
			}
			if c15b(f[i+1]) {
				md.Value = nil
			}
			im.Metadata = append(im.Metadata, md)
			out = append(out, f[i], f[i+1])
			i += 2
		}
		gs.ClientsMetadata = append(gs.ClientsMetadata, im)
	}
	full := &xibctypes.GenesisState{ClientGenesis: gs, PacketGenesis: pg}
	line := strings.Join(out, " ")
	w.hist[len(w.hist)-1] = line + w.sfx
	var verr error
	vp, _ := safely(func() { verr = full.Validate() })
	cc, write := w.ctx.CacheContext()
	hp, hm := safely(func() { xibc.InitGenesis(cc, *w.app.XIBCKeeper, false, full) })
	v, h := c15oc(vp, verr), c15oc(hp, nil)
	if v == "ok" && h == "ok" {
		write()
	}
	c15dbg(line, hm)
	w.genesisOracle(r, "xibc-genesis", v, h, hm)
	return line, fmt.Sprintf("v=%s h=%s c=%d", v, h, w.nClients())
}

// meta tokens start at f[i]; returns metadata, canonical tokens, next index
func c15meta(f []string, i int) (banktypes.Metadata, []string, int) {
	md := banktypes.Metadata{Description: "desc", Name: string(unhx(f[i+4])), Symbol: "SYM", Base: string(unhx(f[i+5])), Display: string(unhx(f[i+6]))}
	if c15b(f[i+1]) {
		md.Symbol = " "
	}
	k := c15n(f[i+7])
	var ut []string
	j := i + 8
	for u := 0; u < k; u++ {
		du := &banktypes.DenomUnit{Denom: string(unhx(f[j])), Exponent: uint32(c15u(f[j+1]))}
		md.DenomUnits = append(md.DenomUnits, du)
		ut = append(ut, f[j], f[j+1], c15f(du.Validate() == nil))
		j += 3
	}
	out := []string{c15f(strings.TrimSpace(md.Name) == ""), f[i+1], c15f(sdk.ValidateDenom(md.Base) == nil), c15f(sdk.ValidateDenom(md.Display) == nil),
		f[i+4], f[i+5], f[i+6], f[i+7]}
	return md, append(out, ut...), j
}

func (w *c15World) applyCoin(r *Rec, f []string) (string, string) {
	ak := w.app.AggregateKeeper
	md, mtoks, i := c15meta(f, 1)
	var c govtypes.Content
	contractTok := ""
	if f[0] == "regcoin" {
		c = &aggtypes.RegisterCoinProposal{Title: "t", Description: "d", Metadata: md}
	} else {
		contractTok = f[i+1]
		caddr := "not-an-address"
		if contractTok != "-" {
			caddr = common.HexToAddress("0x" + contractTok).Hex()
		}
		if rs, ok := w.raw["c"]; ok { // validator and AddCoin both use common.IsHexAddress, then HexToAddress
			caddr = rs
			contractTok = "-"
			if common.IsHexAddress(rs) {
				contractTok = c15addrTok(common.HexToAddress(rs))
			}
		}
		c = &aggtypes.AddCoinProposal{Title: "t", Description: "d", Metadata: md, ContractAddress: caddr}
	}
	restOk := true
	safely(func() {
		if md.Validate() == nil {
			restOk = c.ValidateBasic() == nil
		}
	})
	evmDenom := w.app.EvmKeeper.GetParams(w.ctx).EvmDenom
	hasSupply := false
	safely(func() { hasSupply = w.app.BankKeeper.HasSupply(w.ctx, md.Base) })
	verifyOk := true
	safely(func() {
		if stored, found := w.app.BankKeeper.GetDenomMetaData(w.ctx, md.Base); found {
			verifyOk = aggtypes.EqualMetadata(stored, md) == nil
		}
	})
	out := append([]string{f[0]}, mtoks...)
	if f[0] == "regcoin" {
		deploy := "err"
		cc, _ := w.ctx.CacheContext()
		safely(func() {
			if addr, err := ak.DeployERC20Contract(cc, md); err == nil {
				deploy = "ok:" + c15addrTok(addr)
			}
		})
		out = append(out, c15f(restOk), c15f(md.Base == evmDenom), c15f(hasSupply), c15f(verifyOk), deploy)
	} else {
		out = append(out, c15f(restOk), contractTok, c15f(md.Base == evmDenom), c15f(hasSupply), c15f(verifyOk))
	}
	line := strings.Join(out, " ")
	w.hist[len(w.hist)-1] = line + w.sfx
	cd, dec := w.roundTrip(c)
	res := w.runContent(r, f[0], cd, dec)
	return line, fmt.Sprintf("v=%s h=%s n=%d", res.v, res.h, w.nPairs())
}

func (w *c15World) applyAgen(r *Rec, f []string) (string, string) {
	gs := aggtypes.GenesisState{Params: aggtypes.NewParams(c15b(f[1]), true)}
	n := c15n(f[2])
	out := []string{f[0], f[1], f[2]}
	i := 3
	for k := 0; k < n; k++ {
		raw := f[i]
		addrStr := string(unhx(raw))
		addrOk := false
		if len(raw) == 40 && common.IsHexAddress("0x"+raw) { // token is an address: canonical checksum form in the genesis
			addrStr = common.HexToAddress("0x" + raw).Hex()
		}
		tp := aggtypes.TokenPair{ERC20Address: addrStr, Enabled: true}
		kd := c15n(f[i+2])
		dt := []string{}
		j := i + 3
		for d := 0; d < kd; d++ {
			den := string(unhx(f[j]))
			tp.Denoms = append(tp.Denoms, den)
			dt = append(dt, f[j], c15f(sdk.ValidateDenom(den) == nil))
			j += 2
		}
		safely(func() {
			t2 := tp
			t2.Denoms = nil
			addrOk = t2.Validate() == nil
		})
		gs.TokenPairs = append(gs.TokenPairs, tp)
		out = append(out, raw, c15f(addrOk), f[i+2])
		out = append(out, dt...)
		i = j
	}
	line := strings.Join(out, " ")
	w.hist[len(w.hist)-1] = line + w.sfx
	var verr error
	vp, _ := safely(func() { verr = gs.Validate() })
	cc, write := w.ctx.CacheContext()
	hp, hm := safely(func() { aggregate.InitGenesis(cc, *w.app.AggregateKeeper, w.app.AccountKeeper, gs) })
	v, h := c15oc(vp, verr), c15oc(hp, nil)
	if v == "ok" && h == "ok" {
		write()
	}
	c15dbg(line, hm)
	w.genesisOracle(r, "aggregate-genesis", v, h, hm)
	return line, fmt.Sprintf("v=%s h=%s n=%d", v, h, w.nPairs())
}

func (w *c15World) applyRvgen(r *Rec, f []string) (string, string) {
	gs := &rvestingtypes.GenesisState{Params: rvestingtypes.Params{EnableVesting: c15b(f[1])}, InitReward: sdk.NewCoins(sdk.NewInt64Coin("acoin", 10))}
	k := c15n(f[2])
	i := 3
	for e := 0; e < k; e++ {
		c := sdk.Coin{Denom: string(unhx(f[i]))}
		if f[i+1] != "nil" {
			v, _ := new(big.Int).SetString(f[i+1], 10)
			c.Amount = sdk.NewIntFromBigInt(v)
		}
		gs.Params.PerBlockReward = append(gs.Params.PerBlockReward, c)
		i += 2
	}
	canPay := c15b(f[i+2])
	switch f[i] {
	case "bad":
		gs.From = "not-bech32"
	case "good":
		gs.From = w.unfunded.String()
		if canPay {
			gs.From = w.funded.String()
		}
	}
	if rs, ok := w.raw["f"]; ok { // literal From string: class and solvency derived with the node's parser / bank keeper
		gs.From = rs
		f[i], canPay = "none", false
		if len(rs) != 0 {
			f[i] = "bad"
			if from, err := sdk.AccAddressFromBech32(rs); err == nil {
				f[i] = "good"
				cc, _ := w.ctx.CacheContext()
				safely(func() {
					canPay = w.app.BankKeeper.SendCoinsFromAccountToModule(cc, from, rvestingtypes.ModuleName, gs.InitReward) == nil
				})
			}
		}
		f[i+2] = c15f(canPay)
	}
	irv := false
	safely(func() { irv = gs.InitReward.Validate() == nil })
	line := strings.Join(append(append([]string{}, f[:i+1]...), c15f(irv), f[i+2]), " ")
	w.hist[len(w.hist)-1] = line + w.sfx
	var verr error
	vp, _ := safely(func() { verr = rvestingtypes.ValidateGenesis(gs) })
	cc, _ := w.ctx.CacheContext()
	hp, hm := safely(func() { w.app.RVestingKeeper.InitGenesis(cc, gs) })
	v, h := c15oc(vp, verr), c15oc(hp, nil)
	if v == "ok" && h == "panic" && f[i] == "good" && !canPay && c15class(hm) == "insufficient-funds" {
		// documented limitation (docs/C15.md): the From account's balance is a fact of the bank genesis
		r.Count("rvesting-genesis.unfunded-from-panic")
	} else {
		w.genesisOracle(r, "rvesting-genesis", v, h, hm)
	}
	return line, fmt.Sprintf("v=%s h=%s", v, h)
}

// ---- the panic-site inventory (translator part) ---------------------------------------------------------------

func c15RepoDir() string { return repoDir() }

func c15PanicSites(t *testing.T, r *Rec) {
	root := verifRoot()
	out := filepath.Join(outDir(), "panicsites.json")
	cmd := exec.Command("go", "run", ".", "-repo", c15RepoDir(), "-expect", filepath.Join(root, "props", "sites.C15.json"), "-out", out)
	cmd.Dir = filepath.Join(root, "tools", "panicsites")
	cmd.Env = append(os.Environ(), "GOFLAGS=-mod=mod", "GOPROXY=off", "GOSUMDB=off", "GOTOOLCHAIN=local")
	b, err := cmd.CombinedOutput()
	if err != nil {
		r.Find(Finding{Sig: "C15:panicsites-tool-failed", What: "tools/panicsites could not analyse the source tree: " + err.Error() + ": " + string(b), Obs: "tool failure", Req: "inventory"})
		return
	}
	var rep struct {
		Sites       int `json:"sites"`
		Matched     int `json:"matched"`
		Unmatched   []struct{ File, Func, Kind, Expr string; Line int } `json:"unmatched"`
		ByDischarge map[string]int `json:"by_discharge"`
	}
	jb, err := os.ReadFile(out)
	if err != nil || json.Unmarshal(jb, &rep) != nil {
		r.Find(Finding{Sig: "C15:panicsites-tool-failed", What: "tools/panicsites wrote no readable report", Obs: "tool failure", Req: "inventory"})
		return
	}
	r.Stats["sites.total"] += rep.Sites
	r.Stats["sites.matched"] += rep.Matched
	for k, v := range rep.ByDischarge {
		r.Stats["sites.discharge."+k] += v
	}
	r.Extra["panic_sites"] = map[string]interface{}{"total": rep.Sites, "matched": rep.Matched, "unmatched": len(rep.Unmatched), "by_discharge": rep.ByDischarge}
	for _, u := range rep.Unmatched {
		r.Find(Finding{Sig: "C15:uninventoried-panic-site:" + u.File + ":" + u.Func + ":" + u.Kind,
			What: fmt.Sprintf("panic-capable construct without a discharge in props/sites.C15.json: %s:%d %s [%s] %s", u.File, u.Line, u.Func, u.Kind, u.Expr),
			Obs:  "new or changed panic site: " + u.Expr, Req: "every panic-capable construct reachable from a no-recover root is guarded by a proved lemma or a recorded syntactic class"})
	}
}

// ---- test ---------------------------------------------------------------------------------------------------------

func TestC15(t *testing.T) {
	r := NewRec(t, "C15")
	defer r.Close()
	w := newC15World(t)
	var gw *c15gWorld
	runGv := func(op string) {
		if gw == nil {
			gw = newC15gWorld(t)
		}
		if line, out := gw.apply(r, strings.TrimPrefix(op, "gv ")); line != "" {
			r.Op("gv "+line, out)
			r.Nontrivial("gv " + line)
		}
	}
	run := func(h []string) {
		for _, op := range h {
			if strings.HasPrefix(op, "gv ") {
				runGv(op)
				continue
			}
			if strings.HasPrefix(op, "lc ") {
				c15lApply(r, op)
				continue
			}
			op = w.resolveAddrs(r, op)
			line, out := w.apply(r, op)
			if line == "" {
				continue
			}
			r.Op(line, out)
			if !strings.HasPrefix(line, "reset") {
				r.Nontrivial(line)
			}
		}
	}
	if ops := replayOps(t); ops != nil {
		var bbw *c20World
		for _, op := range append([]string{"reset"}, ops...) {
			if strings.HasPrefix(op, "bb ") {
				if bbw == nil {
					bbw = newC20World()
				}
				out := bbw.apply(r, strings.TrimPrefix(op, "bb "))
				r.Op(op, out)
				if out == "panic" {
					r.Find(Finding{Sig: "C15:beginblock-panic-after-validation:rvesting", What: "rvesting BeginBlocker / parameter validation panics outside recovery", Ops: c15bb(bbw.hist), Obs: "panic", Req: "ok or ordinary error"})
				}
				continue
			}
			run([]string{op})
		}
		return
	}
	if r.Shard == 0 {
		c15PanicSites(t, r)
		c15lRun(t, r) // app life-cycle probe (harness/c15_life_test.go)
	}
	for _, h := range corpusOps("C15") {
		run(append([]string{"reset"}, h...))
	}
	n := 350
	if r.Tier == "thorough" {
		n = 2500
	}
	for i := 0; i < n; i++ {
		run(c15GenHistory(r, w))
	}
	// rvesting parameter validation + BeginBlocker run outside transaction recovery too: drive them through the
	// C20 machinery (`bb <c20 op>` lines; the C15 Lean driver delegates them to the C20 model)
	bw := newC20World()
	nbb := 0
	runBB := func(h []string) {
		for _, op := range h {
			if op == "block" { // rvesting BeginBlocker under the block's gas meter: nil, or finite at one of the fill levels
				nbb++
				if k := nbb % (len(c15GasFills) + 1); k < len(c15GasFills) {
					bw.ctx = bw.ctx.WithBlockGasMeter(c15FilledMeter(c15GasFills[k].used))
					r.Count("bb.gasfill." + c15GasFills[k].name)
				} else {
					bw.ctx = bw.ctx.WithBlockGasMeter(nil)
				}
			}
			out := bw.apply(r, op)
			r.Op("bb "+op, out)
			if out == "panic" {
				r.Find(Finding{Sig: "C15:beginblock-panic-after-validation:rvesting", What: "rvesting BeginBlocker / parameter validation panics outside recovery with validated parameters",
					Ops: c15bb(bw.hist), Obs: "panic", Req: "ok or ordinary error"})
			}
		}
	}
	for _, h := range corpusOps("C20") {
		runBB(append([]string{"reset"}, h...))
	}
	nb := 150
	if r.Tier == "thorough" {
		nb = 1500
	}
	for i := 0; i < nb; i++ {
		runBB(c20GenHistory(r))
	}
	// the gov module's own EndBlocker paths, staking slash / EndBlocker, through the bank adapter (harness/c15_gov_test.go)
	ng := 160
	if r.Tier == "thorough" {
		ng = 1200
	}
	runGv("gv reset")
	for i := 0; i < ng; i++ {
		c15gRunHistory(r, gw, func(op string) { runGv("gv " + op) })
	}
}

func c15bb(h []string) []string {
	out := make([]string, 0, len(h))
	for _, o := range h {
		out = append(out, "bb "+o)
	}
	return out
}
